/-
  Helper lemmas for the value conversions (Stef/Otlp/Value.lean).
-/
import Stef.Otlp.Clean

namespace Stef.Otlp

/-! ### floats: the setters store every bit pattern (repo commits 59db810, 7828c58) -/

theorem setF_eq (o n : Nat) : setF o n = n := by
  unfold setF float64Equal
  split
  · rename_i h; exact (by simpa using h)
  · rfl

theorem setFSlice_eq (old new : List Nat) : setFSlice old new = new := by
  unfold setFSlice
  split
  · rename_i h; exact (by simpa using h)
  · rfl

/-! ### shape of the array / map cases -/

theorem otlpToTef_slice (vs : Values) (c : SCur) (a : SVals) (al : Nat) (k : SKVs) (kl : Nat) :
    ∃ al', otlpToTef (.slice vs) (.mk c a al k kl)
      = .mk .array (sliceInto vs (arrEnsureLen a al' vs.length)) vs.length k kl := by
  cases c <;> exact ⟨_, rfl⟩

theorem otlpToTef_map (kvs : KVs) (c : SCur) (a : SVals) (al : Nat) (k : SKVs) (kl : Nat) :
    ∃ kl', otlpToTef (.map kvs) (.mk c a al k kl)
      = .mk .kvlist a al (zipInto kvs (kvEnsureLen k kl' kvs.length)) kvs.length := by
  cases c <;> exact ⟨_, rfl⟩

/-! ### the conversion is faithful on every value, whatever the re-used destination held before -/

mutual
  theorem otlpToTef_spec : ∀ (v : AnyValue) (into : SVal), tefToOtlpRaw (otlpToTef v into) = v
    | .empty, .mk c a al k kl => by simp [otlpToTef, SVal.reset, tefToOtlpRaw]
    | .str s, .mk c a al k kl => rfl
    | .bool b, .mk c a al k kl => rfl
    | .int i, .mk c a al k kl => rfl
    | .bytes b, .mk c a al k kl => rfl
    | .dbl f, .mk c a al k kl => by
      cases c <;> simp [otlpToTef, SVal.setFloat, tefToOtlpRaw, setF_eq]
    | .slice vs, .mk c a al k kl => by
      obtain ⟨al', he⟩ := otlpToTef_slice vs c a al k kl
      rw [he]
      simp [tefToOtlpRaw, sliceInto_spec vs (arrEnsureLen a al' vs.length)]
    | .map kvs, .mk c a al k kl => by
      obtain ⟨kl', he⟩ := otlpToTef_map kvs c a al k kl
      rw [he]
      simp [tefToOtlpRaw, zipInto_spec kvs (kvEnsureLen k kl' kvs.length)]
  theorem sliceInto_spec : ∀ (vs : Values) (st : SVals), tefVals vs.length (sliceInto vs st) = vs
    | .nil, st => by simp [sliceInto, Values.length, tefVals]
    | .cons v t, .cons s st => by
      simp [sliceInto, Values.length, tefVals, otlpToTef_spec v s, sliceInto_spec t st]
    | .cons v t, .nil => by
      simp [sliceInto, Values.length, tefVals, otlpToTef_spec v SVal.fresh, sliceInto_spec t .nil]
  theorem zipInto_spec : ∀ (kvs : KVs) (st : SKVs), tefKVs kvs.length (zipInto kvs st) = kvs
    | .nil, st => by simp [zipInto, KVs.length, tefKVs]
    | .cons k v t, .cons k0 s st => by
      simp [zipInto, KVs.length, tefKVs, otlpToTef_spec v s, zipInto_spec t st]
    | .cons k v t, .nil => by
      simp [zipInto, KVs.length, tefKVs, otlpToTef_spec v SVal.fresh, zipInto_spec t .nil]
end

theorem mapUnsorted_spec (m : KVs) (out : SAttrs) : (SAttrs.mapUnsorted m out).visible = m :=
  zipInto_spec m (kvEnsureLen out.store out.len m.length)

theorem copyFrom_spec (m : KVs) (out : SAttrs) : (SAttrs.copyFrom m out).visible = m :=
  zipInto_spec m (kvEnsureLen out.store out.len m.length)

theorem mapSorted_spec (m : KVs) (out : SAttrs) : (SAttrs.mapSorted m out).visible = m.sortByKey :=
  mapUnsorted_spec m.sortByKey out

/-! ### `PutEmpty` merging is the identity on maps with distinct keys -/

theorem KVs.put_append : ∀ (acc : KVs) (k : Str) (v : AnyValue), acc.hasKey k = false →
    KVs.put k v acc = acc.append (.cons k v .nil)
  | .nil, k, v, _ => rfl
  | .cons k' v' t, k, v, h => by
    simp only [KVs.hasKey, Bool.or_eq_false_iff] at h
    simp [KVs.put, KVs.append, h.1, KVs.put_append t k v h.2]

theorem KVs.hasKey_append : ∀ (a b : KVs) (k : Str), (a.append b).hasKey k = (a.hasKey k || b.hasKey k)
  | .nil, b, k => by simp [KVs.append, KVs.hasKey]
  | .cons k' v' t, b, k => by simp [KVs.append, KVs.hasKey, KVs.hasKey_append t b k, Bool.or_assoc]

theorem KVs.append_assoc : ∀ (a b c : KVs), (a.append b).append c = a.append (b.append c)
  | .nil, _, _ => rfl
  | .cons k v t, b, c => by simp [KVs.append, KVs.append_assoc t b c]

theorem KVs.append_nil : ∀ (a : KVs), a.append .nil = a
  | .nil => rfl
  | .cons k v t => by simp [KVs.append, KVs.append_nil t]

theorem KVs.hasKey_eq_contains : ∀ (l : KVs) (k : Str), l.hasKey k = l.keys.contains k
  | .nil, k => by simp [KVs.hasKey, KVs.keys]
  | .cons k' v t, k => by
    simp only [KVs.hasKey, KVs.keys, KVs.hasKey_eq_contains t k, List.contains_cons]
    by_cases h : k' = k
    · subst h; simp
    · have h' : k ≠ k' := fun e => h e.symm
      have e1 : (k' == k) = false := beq_eq_false_iff_ne.mpr h
      have e2 : (k == k') = false := beq_eq_false_iff_ne.mpr h'
      rw [e1, e2]

theorem KVs.dedupAux_nodup : ∀ (l acc : KVs), nodupKeys l.keys = true → (∀ k, l.hasKey k = true → acc.hasKey k = false) →
    KVs.dedupAux l acc = acc.append l
  | .nil, acc, _, _ => by simp [KVs.dedupAux, KVs.append_nil]
  | .cons k v t, acc, hnd, hdis => by
    simp only [KVs.keys, nodupKeys, Bool.and_eq_true, Bool.not_eq_true'] at hnd
    have hk : acc.hasKey k = false := hdis k (by simp [KVs.hasKey])
    have ht : ∀ k', t.hasKey k' = true → (KVs.put k v acc).hasKey k' = false := by
      intro k' hk'
      rw [KVs.put_append acc k v hk, KVs.hasKey_append]
      have h1 : acc.hasKey k' = false := hdis k' (by simp [KVs.hasKey, hk'])
      have h2 : k ≠ k' := by
        intro he; subst he
        rw [KVs.hasKey_eq_contains] at hk'
        have hm : k ∈ t.keys := by simpa using hk'
        simp [hm] at hnd
      simp [h1, KVs.hasKey, h2]
    rw [KVs.dedupAux, KVs.dedupAux_nodup t _ hnd.2 ht, KVs.put_append acc k v hk, KVs.append_assoc]
    rfl

theorem KVs.dedup_nodup (l : KVs) (h : nodupKeys l.keys = true) : l.dedup = l := by
  unfold KVs.dedup
  rw [KVs.dedupAux_nodup l .nil h (by intro k _; rfl)]
  rfl

mutual
  theorem dedupValue_nodup : ∀ (v : AnyValue), v.nodup = true → dedupValue v = v
    | .empty, _ => rfl
    | .str _, _ => rfl
    | .bool _, _ => rfl
    | .int _, _ => rfl
    | .dbl _, _ => rfl
    | .bytes _, _ => rfl
    | .slice vs, h => by
      simp only [AnyValue.nodup] at h
      simp [dedupValue, dedupValues_nodup vs h]
    | .map kvs, h => by
      simp only [AnyValue.nodup, Bool.and_eq_true] at h
      simp [dedupValue, dedupKVs_nodup kvs h.2, KVs.dedup_nodup kvs h.1]
  theorem dedupValues_nodup : ∀ (vs : Values), vs.nodup = true → dedupValues vs = vs
    | .nil, _ => rfl
    | .cons v t, h => by
      simp only [Values.nodup, Bool.and_eq_true] at h
      simp [dedupValues, dedupValue_nodup v h.1, dedupValues_nodup t h.2]
  theorem dedupKVs_nodup : ∀ (kvs : KVs), kvs.nodup = true → dedupKVs kvs = kvs
    | .nil, _ => rfl
    | .cons k v t, h => by
      simp only [KVs.nodup, Bool.and_eq_true] at h
      simp [dedupKVs, dedupValue_nodup v h.1, dedupKVs_nodup t h.2]
end

/-- reading back a clean map stored in an otelstef.Attributes -/
theorem toOtlp_of_visible (a : SAttrs) (m : KVs) (hv : a.visible = m) (hc : m.clean = true) : a.toOtlp = m := by
  simp only [KVs.clean, Bool.and_eq_true] at hc
  unfold SAttrs.toOtlp
  rw [hv, dedupKVs_nodup m hc.2, KVs.dedup_nodup m hc.1]

/-- a clean attribute map written by `MapUnsorted` into any destination is read back by
    `TefToOtlpMap` unchanged -/
theorem attrs_roundtrip (m : KVs) (out : SAttrs) (hc : m.clean = true) : (SAttrs.mapUnsorted m out).toOtlp = m :=
  toOtlp_of_visible _ m (mapUnsorted_spec m out) hc

/-! ### `MapSorted`: sorting the entries keeps the keys distinct -/

theorem nodupKeys_iff : ∀ (l : List Str), nodupKeys l = true ↔ l.Nodup
  | [] => by simp [nodupKeys]
  | k :: t => by
    simp only [nodupKeys, Bool.and_eq_true, Bool.not_eq_true', List.nodup_cons, nodupKeys_iff t]
    constructor
    · intro h; exact ⟨by simpa using h.1, h.2⟩
    · intro h; exact ⟨by simpa using h.1, h.2⟩

theorem KVs.insertByKey_keys_perm : ∀ (l : KVs) (k : Str) (v : AnyValue), (KVs.insertByKey k v l).keys.Perm (k :: l.keys)
  | .nil, k, v => by simp [KVs.insertByKey, KVs.keys]
  | .cons k' v' t, k, v => by
    simp only [KVs.insertByKey]
    split
    · simp [KVs.keys]
    · simp only [KVs.keys]
      exact (List.Perm.cons k' (KVs.insertByKey_keys_perm t k v)).trans (List.Perm.swap k k' t.keys)

theorem KVs.sortAux_keys_perm : ∀ (l acc : KVs), (KVs.sortAux l acc).keys.Perm (l.keys ++ acc.keys)
  | .nil, acc => by simp [KVs.sortAux, KVs.keys]
  | .cons k v t, acc => by
    simp only [KVs.sortAux, KVs.keys]
    refine (KVs.sortAux_keys_perm t _).trans ?_
    refine (List.Perm.append_left _ (KVs.insertByKey_keys_perm acc k v)).trans ?_
    simp only [List.cons_append]
    exact List.perm_middle

theorem KVs.sortByKey_nodupKeys (l : KVs) (h : nodupKeys l.keys = true) : nodupKeys l.sortByKey.keys = true := by
  rw [nodupKeys_iff] at h ⊢
  have p := KVs.sortAux_keys_perm l .nil
  simp only [KVs.keys, List.append_nil] at p
  exact p.nodup_iff.mpr h

theorem KVs.insertByKey_nodup : ∀ (l : KVs) (k : Str) (v : AnyValue),
    (KVs.insertByKey k v l).nodup = (v.nodup && l.nodup)
  | .nil, k, v => by simp [KVs.insertByKey, KVs.nodup]
  | .cons k' v' t, k, v => by
    simp only [KVs.insertByKey]
    split
    · simp [KVs.nodup]
    · simp only [KVs.nodup, KVs.insertByKey_nodup t k v]
      cases v.nodup <;> cases v'.nodup <;> cases t.nodup <;> rfl

theorem KVs.sortAux_nodup : ∀ (l acc : KVs), (KVs.sortAux l acc).nodup = (l.nodup && acc.nodup)
  | .nil, acc => by simp [KVs.sortAux, KVs.nodup]
  | .cons k v t, acc => by
    simp only [KVs.sortAux, KVs.sortAux_nodup t, KVs.insertByKey_nodup, KVs.nodup]
    cases v.nodup <;> cases t.nodup <;> cases acc.nodup <;> rfl

theorem KVs.sortByKey_nodup (l : KVs) : l.sortByKey.nodup = l.nodup := by
  simp [KVs.sortByKey, KVs.sortAux_nodup, KVs.nodup]

theorem KVs.sortByKey_clean (l : KVs) (h : l.clean = true) : l.sortByKey.clean = true := by
  simp only [KVs.clean, Bool.and_eq_true] at h ⊢
  exact ⟨KVs.sortByKey_nodupKeys l h.1, by rw [KVs.sortByKey_nodup]; exact h.2⟩

end Stef.Otlp
