/-
  Helper lemmas for the value conversions (Stef/Otlp/Value.lean).
-/
import Stef.Otlp.Clean

namespace Stef.Otlp

/-! ### floats -/

theorem fEq_eq_of_nnz {o n : Nat} (ho : o ≠ negZero) (hn : n ≠ negZero) (h : fEq o n = true) : o = n := by
  simp only [fEq, Bool.and_eq_true, decide_eq_true_eq] at h
  have hk := h.2
  unfold fKey at hk
  simp only [negZero, two63] at hk ho hn
  by_cases h1 : o < 9223372036854775808 <;> by_cases h2 : n < 9223372036854775808 <;>
    simp only [h1, h2, if_true, if_false] at hk <;> omega

theorem setF_eq' (o n : Nat) : setF o n = n := by
  unfold setF float64Equal
  split
  · rename_i h; exact (by simpa using h)
  · rfl

/-- "the setters store this double": every double (see `nnzF`) -/
abbrev Storable (_f : Nat) : Prop := True

theorem setF_eq {o n : Nat} (_ho : Storable o) (_hn : Storable n) : setF o n = n := setF_eq' o n

theorem nnzF_iff {f : Nat} : nnzF f = true ↔ Storable f := by simp [nnzF]

theorem boundOk_iff {f : Nat} : boundOk f = true ↔ f ≠ negZero := by simp [boundOk]

end Stef.Otlp

namespace Stef.Otlp

/-! ### `nnz` is preserved by the storage operations -/

theorem SVal.nnz_fresh : SVal.fresh.nnz = true := by simp [SVal.fresh, SVal.nnz, SVals.nnz, SKVs.nnz]

theorem SVal.nnz_reset {v : SVal} (h : v.nnz = true) : v.reset.nnz = true := by
  cases v with
  | mk c a al k kl =>
    simp only [SVal.nnz, Bool.and_eq_true] at h
    simp [SVal.reset, SVal.nnz, h.1.2, h.2]

theorem SVals.nnz_ensure : ∀ (n : Nat) (st : SVals), st.nnz = true → (SVals.ensure n st).nnz = true
  | 0, st, h => by simpa [SVals.ensure] using h
  | n + 1, .nil, _ => by
    simp [SVals.ensure, SVals.nnz, SVal.nnz_fresh, SVals.nnz_ensure n .nil (by simp [SVals.nnz])]
  | n + 1, .cons v t, h => by
    simp only [SVals.nnz, Bool.and_eq_true] at h
    simp [SVals.ensure, SVals.nnz, h.1, SVals.nnz_ensure n t h.2]

theorem SVals.nnz_resetRange : ∀ (st : SVals) (lo c : Nat), st.nnz = true → (SVals.resetRange lo c st).nnz = true
  | .nil, lo, c, _ => by cases lo <;> cases c <;> simp [SVals.resetRange, SVals.nnz]
  | .cons v t, 0, 0, h => by simpa [SVals.resetRange] using h
  | .cons v t, 0, c + 1, h => by
    simp only [SVals.nnz, Bool.and_eq_true] at h
    simp [SVals.resetRange, SVals.nnz, SVal.nnz_reset h.1, SVals.nnz_resetRange t 0 c h.2]
  | .cons v t, lo + 1, c, h => by
    simp only [SVals.nnz, Bool.and_eq_true] at h
    simp [SVals.resetRange, SVals.nnz, h.1, SVals.nnz_resetRange t lo c h.2]

theorem SKVs.nnz_ensure : ∀ (n : Nat) (st : SKVs), st.nnz = true → (SKVs.ensure n st).nnz = true
  | 0, st, h => by simpa [SKVs.ensure] using h
  | n + 1, .nil, _ => by
    simp [SKVs.ensure, SKVs.nnz, SVal.nnz_fresh, SKVs.nnz_ensure n .nil (by simp [SKVs.nnz])]
  | n + 1, .cons k v t, h => by
    simp only [SKVs.nnz, Bool.and_eq_true] at h
    simp [SKVs.ensure, SKVs.nnz, h.1, SKVs.nnz_ensure n t h.2]

theorem SKVs.nnz_resetRange : ∀ (st : SKVs) (lo c : Nat), st.nnz = true → (SKVs.resetRange lo c st).nnz = true
  | .nil, lo, c, _ => by cases lo <;> cases c <;> simp [SKVs.resetRange, SKVs.nnz]
  | .cons k v t, 0, 0, h => by simpa [SKVs.resetRange] using h
  | .cons k v t, 0, c + 1, h => by
    simp only [SKVs.nnz, Bool.and_eq_true] at h
    simp [SKVs.resetRange, SKVs.nnz, SVal.nnz_reset h.1, SKVs.nnz_resetRange t 0 c h.2]
  | .cons k v t, lo + 1, c, h => by
    simp only [SKVs.nnz, Bool.and_eq_true] at h
    simp [SKVs.resetRange, SKVs.nnz, h.1, SKVs.nnz_resetRange t lo c h.2]

theorem nnz_arrEnsureLen {st : SVals} (len n : Nat) (h : st.nnz = true) : (arrEnsureLen st len n).nnz = true :=
  SVals.nnz_resetRange _ _ _ (SVals.nnz_ensure n st h)

theorem nnz_kvEnsureLen {st : SKVs} (len n : Nat) (h : st.nnz = true) : (kvEnsureLen st len n).nnz = true :=
  SKVs.nnz_resetRange _ _ _ (SKVs.nnz_ensure n st h)

/-! ### shape of the array / map cases -/

theorem otlpToTef_slice (vs : Values) (c : SCur) (a : SVals) (al : Nat) (k : SKVs) (kl : Nat) :
    ∃ al', otlpToTef (.slice vs) (.mk c a al k kl)
      = .mk .array (sliceInto vs (arrEnsureLen a al' vs.length)) vs.length k kl := by
  cases c <;> exact ⟨_, rfl⟩

theorem otlpToTef_map (kvs : KVs) (c : SCur) (a : SVals) (al : Nat) (k : SKVs) (kl : Nat) :
    ∃ kl', otlpToTef (.map kvs) (.mk c a al k kl)
      = .mk .kvlist a al (mapInto0 kvs (kvEnsureLen k kl' kvs.length)) kvs.length := by
  cases c <;> exact ⟨_, rfl⟩

end Stef.Otlp

namespace Stef.Otlp

/-! ### the conversion as written is faithful on values whose nested maps have at most one entry
    (and that hold no -0.0), whatever the re-used destination held before -/

mutual
  theorem otlpToTef_spec : ∀ (v : AnyValue) (into : SVal), v.small = true → v.nnz = true → into.nnz = true →
      tefToOtlpRaw (otlpToTef v into) = v ∧ (otlpToTef v into).nnz = true
    | .empty, into, _, _, hi => by
      cases into with
      | mk c a al k kl =>
        simp only [SVal.nnz, Bool.and_eq_true] at hi
        simp [otlpToTef, SVal.reset, tefToOtlpRaw, SVal.nnz, hi.1.2, hi.2]
    | .str s, .mk c a al k kl, _, _, hi => by
      simp only [SVal.nnz, Bool.and_eq_true] at hi
      exact ⟨rfl, by simp [otlpToTef, SVal.setScalar, SVal.nnz, hi.1.2, hi.2]⟩
    | .bool b, .mk c a al k kl, _, _, hi => by
      simp only [SVal.nnz, Bool.and_eq_true] at hi
      exact ⟨rfl, by simp [otlpToTef, SVal.setScalar, SVal.nnz, hi.1.2, hi.2]⟩
    | .int i, .mk c a al k kl, _, _, hi => by
      simp only [SVal.nnz, Bool.and_eq_true] at hi
      exact ⟨rfl, by simp [otlpToTef, SVal.setScalar, SVal.nnz, hi.1.2, hi.2]⟩
    | .bytes b, .mk c a al k kl, _, _, hi => by
      simp only [SVal.nnz, Bool.and_eq_true] at hi
      exact ⟨rfl, by simp [otlpToTef, SVal.setScalar, SVal.nnz, hi.1.2, hi.2]⟩
    | .dbl f, .mk c a al k kl, _, hn, hi => by
      have hf : Storable f := nnzF_iff.mp (by simpa [AnyValue.nnz] using hn)
      simp only [SVal.nnz, Bool.and_eq_true] at hi
      cases c with
      | dbl o =>
        have ho : Storable o := nnzF_iff.mp hi.1.1
        simp [otlpToTef, SVal.setFloat, tefToOtlpRaw, SVal.nnz, setF_eq ho hf, nnzF_iff.mpr hf, hi.1.2, hi.2]
      | _ => simp [otlpToTef, SVal.setFloat, tefToOtlpRaw, SVal.nnz, nnzF_iff.mpr hf, hi.1.2, hi.2]
    | .slice vs, .mk c a al k kl, hs, hn, hi => by
      obtain ⟨al', he⟩ := otlpToTef_slice vs c a al k kl
      simp only [SVal.nnz, Bool.and_eq_true] at hi
      have ih := sliceInto_spec vs (arrEnsureLen a al' vs.length) (by simpa [AnyValue.small] using hs)
        (by simpa [AnyValue.nnz] using hn) (nnz_arrEnsureLen _ _ hi.1.2)
      rw [he]
      exact ⟨by simp [tefToOtlpRaw, ih.1], by simp [SVal.nnz, ih.2, hi.2]⟩
    | .map kvs, .mk c a al k kl, hs, hn, hi => by
      obtain ⟨kl', he⟩ := otlpToTef_map kvs c a al k kl
      simp only [SVal.nnz, Bool.and_eq_true] at hi
      simp only [AnyValue.small, Bool.and_eq_true, decide_eq_true_eq] at hs
      have ih := mapInto0_spec kvs (kvEnsureLen k kl' kvs.length) hs.1 hs.2
        (by simpa [AnyValue.nnz] using hn) (nnz_kvEnsureLen _ _ hi.2)
      rw [he]
      exact ⟨by simp [tefToOtlpRaw, ih.1], by simp [SVal.nnz, ih.2, hi.1.2]⟩
  theorem sliceInto_spec : ∀ (vs : Values) (st : SVals), vs.small = true → vs.nnz = true → st.nnz = true →
      tefVals vs.length (sliceInto vs st) = vs ∧ (sliceInto vs st).nnz = true
    | .nil, st, _, _, hi => by simp [sliceInto, Values.length, tefVals, hi]
    | .cons v t, .cons s st, hs, hn, hi => by
      simp only [Values.small, Values.nnz, SVals.nnz, Bool.and_eq_true] at hs hn hi
      have h1 := otlpToTef_spec v s hs.1 hn.1 hi.1
      have h2 := sliceInto_spec t st hs.2 hn.2 hi.2
      simp [sliceInto, Values.length, tefVals, SVals.nnz, h1.1, h1.2, h2.1, h2.2]
    | .cons v t, .nil, hs, hn, _ => by
      simp only [Values.small, Values.nnz, Bool.and_eq_true] at hs hn
      have h1 := otlpToTef_spec v SVal.fresh hs.1 hn.1 SVal.nnz_fresh
      have h2 := sliceInto_spec t .nil hs.2 hn.2 (by simp [SVals.nnz])
      simp [sliceInto, Values.length, tefVals, SVals.nnz, h1.1, h1.2, h2.1, h2.2]
  theorem mapInto0_spec : ∀ (kvs : KVs) (st : SKVs), kvs.length ≤ 1 → kvs.small = true → kvs.nnz = true →
      st.nnz = true → tefKVs kvs.length (mapInto0 kvs st) = kvs ∧ (mapInto0 kvs st).nnz = true
    | .nil, st, _, _, _, hi => by simp [mapInto0, KVs.length, tefKVs, hi]
    | .cons k v .nil, .cons k0 s st, _, hs, hn, hi => by
      simp only [KVs.small, KVs.nnz, SKVs.nnz, Bool.and_eq_true] at hs hn hi
      have h1 := otlpToTef_spec v s hs.1 hn.1 hi.1
      simp [mapInto0, KVs.length, tefKVs, SKVs.nnz, h1.1, h1.2, hi.2]
    | .cons k v .nil, .nil, _, hs, hn, _ => by
      simp only [KVs.small, KVs.nnz, Bool.and_eq_true] at hs hn
      have h1 := otlpToTef_spec v SVal.fresh hs.1 hn.1 SVal.nnz_fresh
      simp [mapInto0, KVs.length, tefKVs, SKVs.nnz, h1.1, h1.2]
    | .cons _ _ (.cons _ _ _), _, hl, _, _, _ => by simp [KVs.length] at hl
end

end Stef.Otlp

namespace Stef.Otlp

/-! ### the fixed conversion (index incremented; also what `CopyFrom` does) is faithful on every
    value without -0.0 -/

theorem otlpToTefFixed_slice (vs : Values) (c : SCur) (a : SVals) (al : Nat) (k : SKVs) (kl : Nat) :
    ∃ al', otlpToTefFixed (.slice vs) (.mk c a al k kl)
      = .mk .array (sliceIntoFixed vs (arrEnsureLen a al' vs.length)) vs.length k kl := by
  cases c <;> exact ⟨_, rfl⟩

theorem otlpToTefFixed_map (kvs : KVs) (c : SCur) (a : SVals) (al : Nat) (k : SKVs) (kl : Nat) :
    ∃ kl', otlpToTefFixed (.map kvs) (.mk c a al k kl)
      = .mk .kvlist a al (zipIntoFixed kvs (kvEnsureLen k kl' kvs.length)) kvs.length := by
  cases c <;> exact ⟨_, rfl⟩

mutual
  theorem otlpToTefFixed_spec : ∀ (v : AnyValue) (into : SVal), v.nnz = true → into.nnz = true →
      tefToOtlpRaw (otlpToTefFixed v into) = v ∧ (otlpToTefFixed v into).nnz = true
    | .empty, .mk c a al k kl, _, hi => by
      simp only [SVal.nnz, Bool.and_eq_true] at hi
      simp [otlpToTefFixed, SVal.reset, tefToOtlpRaw, SVal.nnz, hi.1.2, hi.2]
    | .str s, .mk c a al k kl, _, hi => by
      simp only [SVal.nnz, Bool.and_eq_true] at hi
      exact ⟨rfl, by simp [otlpToTefFixed, SVal.setScalar, SVal.nnz, hi.1.2, hi.2]⟩
    | .bool b, .mk c a al k kl, _, hi => by
      simp only [SVal.nnz, Bool.and_eq_true] at hi
      exact ⟨rfl, by simp [otlpToTefFixed, SVal.setScalar, SVal.nnz, hi.1.2, hi.2]⟩
    | .int i, .mk c a al k kl, _, hi => by
      simp only [SVal.nnz, Bool.and_eq_true] at hi
      exact ⟨rfl, by simp [otlpToTefFixed, SVal.setScalar, SVal.nnz, hi.1.2, hi.2]⟩
    | .bytes b, .mk c a al k kl, _, hi => by
      simp only [SVal.nnz, Bool.and_eq_true] at hi
      exact ⟨rfl, by simp [otlpToTefFixed, SVal.setScalar, SVal.nnz, hi.1.2, hi.2]⟩
    | .dbl f, .mk c a al k kl, hn, hi => by
      have hf : Storable f := nnzF_iff.mp (by simpa [AnyValue.nnz] using hn)
      simp only [SVal.nnz, Bool.and_eq_true] at hi
      cases c with
      | dbl o =>
        have ho : Storable o := nnzF_iff.mp hi.1.1
        simp [otlpToTefFixed, SVal.setFloat, tefToOtlpRaw, SVal.nnz, setF_eq ho hf, nnzF_iff.mpr hf, hi.1.2, hi.2]
      | _ => simp [otlpToTefFixed, SVal.setFloat, tefToOtlpRaw, SVal.nnz, nnzF_iff.mpr hf, hi.1.2, hi.2]
    | .slice vs, .mk c a al k kl, hn, hi => by
      obtain ⟨al', he⟩ := otlpToTefFixed_slice vs c a al k kl
      simp only [SVal.nnz, Bool.and_eq_true] at hi
      have ih := sliceIntoFixed_spec vs (arrEnsureLen a al' vs.length)
        (by simpa [AnyValue.nnz] using hn) (nnz_arrEnsureLen _ _ hi.1.2)
      rw [he]
      exact ⟨by simp [tefToOtlpRaw, ih.1], by simp [SVal.nnz, ih.2, hi.2]⟩
    | .map kvs, .mk c a al k kl, hn, hi => by
      obtain ⟨kl', he⟩ := otlpToTefFixed_map kvs c a al k kl
      simp only [SVal.nnz, Bool.and_eq_true] at hi
      have ih := zipIntoFixed_spec kvs (kvEnsureLen k kl' kvs.length)
        (by simpa [AnyValue.nnz] using hn) (nnz_kvEnsureLen _ _ hi.2)
      rw [he]
      exact ⟨by simp [tefToOtlpRaw, ih.1], by simp [SVal.nnz, ih.2, hi.1.2]⟩
  theorem sliceIntoFixed_spec : ∀ (vs : Values) (st : SVals), vs.nnz = true → st.nnz = true →
      tefVals vs.length (sliceIntoFixed vs st) = vs ∧ (sliceIntoFixed vs st).nnz = true
    | .nil, st, _, hi => by simp [sliceIntoFixed, Values.length, tefVals, hi]
    | .cons v t, .cons s st, hn, hi => by
      simp only [Values.nnz, SVals.nnz, Bool.and_eq_true] at hn hi
      have h1 := otlpToTefFixed_spec v s hn.1 hi.1
      have h2 := sliceIntoFixed_spec t st hn.2 hi.2
      simp [sliceIntoFixed, Values.length, tefVals, SVals.nnz, h1.1, h1.2, h2.1, h2.2]
    | .cons v t, .nil, hn, _ => by
      simp only [Values.nnz, Bool.and_eq_true] at hn
      have h1 := otlpToTefFixed_spec v SVal.fresh hn.1 SVal.nnz_fresh
      have h2 := sliceIntoFixed_spec t .nil hn.2 (by simp [SVals.nnz])
      simp [sliceIntoFixed, Values.length, tefVals, SVals.nnz, h1.1, h1.2, h2.1, h2.2]
  theorem zipIntoFixed_spec : ∀ (kvs : KVs) (st : SKVs), kvs.nnz = true → st.nnz = true →
      tefKVs kvs.length (zipIntoFixed kvs st) = kvs ∧ (zipIntoFixed kvs st).nnz = true
    | .nil, st, _, hi => by simp [zipIntoFixed, KVs.length, tefKVs, hi]
    | .cons k v t, .cons k0 s st, hn, hi => by
      simp only [KVs.nnz, SKVs.nnz, Bool.and_eq_true] at hn hi
      have h1 := otlpToTefFixed_spec v s hn.1 hi.1
      have h2 := zipIntoFixed_spec t st hn.2 hi.2
      simp [zipIntoFixed, KVs.length, tefKVs, SKVs.nnz, h1.1, h1.2, h2.1, h2.2]
    | .cons k v t, .nil, hn, _ => by
      simp only [KVs.nnz, Bool.and_eq_true] at hn
      have h1 := otlpToTefFixed_spec v SVal.fresh hn.1 SVal.nnz_fresh
      have h2 := zipIntoFixed_spec t .nil hn.2 (by simp [SKVs.nnz])
      simp [zipIntoFixed, KVs.length, tefKVs, SKVs.nnz, h1.1, h1.2, h2.1, h2.2]
end

/-- top-level attribute lists as written (`MapUnsorted`): faithful when the values are `small` -/
theorem zipInto_spec : ∀ (kvs : KVs) (st : SKVs), kvs.small = true → kvs.nnz = true → st.nnz = true →
    tefKVs kvs.length (zipInto kvs st) = kvs ∧ (zipInto kvs st).nnz = true
  | .nil, st, _, _, hi => by simp [zipInto, KVs.length, tefKVs, hi]
  | .cons k v t, .cons k0 s st, hs, hn, hi => by
    simp only [KVs.small, KVs.nnz, SKVs.nnz, Bool.and_eq_true] at hs hn hi
    have h1 := otlpToTef_spec v s hs.1 hn.1 hi.1
    have h2 := zipInto_spec t st hs.2 hn.2 hi.2
    simp [zipInto, KVs.length, tefKVs, SKVs.nnz, h1.1, h1.2, h2.1, h2.2]
  | .cons k v t, .nil, hs, hn, _ => by
    simp only [KVs.small, KVs.nnz, Bool.and_eq_true] at hs hn
    have h1 := otlpToTef_spec v SVal.fresh hs.1 hn.1 SVal.nnz_fresh
    have h2 := zipInto_spec t .nil hs.2 hn.2 (by simp [SKVs.nnz])
    simp [zipInto, KVs.length, tefKVs, SKVs.nnz, h1.1, h1.2, h2.1, h2.2]

theorem mapUnsorted_spec (m : KVs) (out : SAttrs) (hs : m.small = true) (hn : m.nnz = true) (ho : out.nnz = true) :
    (SAttrs.mapUnsorted m out).visible = m ∧ (SAttrs.mapUnsorted m out).nnz = true := by
  have h := zipInto_spec m (kvEnsureLen out.store out.len m.length) hs hn (nnz_kvEnsureLen _ _ ho)
  exact ⟨h.1, h.2⟩

theorem copyFrom_spec (m : KVs) (out : SAttrs) (hn : m.nnz = true) (ho : out.nnz = true) :
    (SAttrs.copyFrom m out).visible = m ∧ (SAttrs.copyFrom m out).nnz = true := by
  have h := zipIntoFixed_spec m (kvEnsureLen out.store out.len m.length) hn (nnz_kvEnsureLen _ _ ho)
  exact ⟨h.1, h.2⟩

/-! ### `PutEmpty` merging is the identity on maps with distinct keys -/

theorem KVs.put_append : ∀ (acc : KVs) (k : Str) (v : AnyValue), acc.hasKey k = false →
    KVs.put k v acc = acc.append (.cons k v .nil)
  | .nil, k, v, _ => rfl
  | .cons k' v' t, k, v, h => by
    simp only [KVs.hasKey, Bool.or_eq_false_iff] at h
    simp [KVs.put, KVs.append, h.1, KVs.put_append t k v h.2]

theorem KVs.hasKey_append : ∀ (a b : KVs) (k : Str), (a.append b).hasKey k = (a.hasKey k || b.hasKey k)
  | .nil, b, k => by simp [KVs.append, KVs.hasKey]
  | .cons k' v' t, b, k => by simp [KVs.append, KVs.hasKey, KVs.hasKey_append t b k, Bool.or_assoc]

theorem KVs.append_assoc : ∀ (a b c : KVs), (a.append b).append c = a.append (b.append c)
  | .nil, _, _ => rfl
  | .cons k v t, b, c => by simp [KVs.append, KVs.append_assoc t b c]

theorem KVs.append_nil : ∀ (a : KVs), a.append .nil = a
  | .nil => rfl
  | .cons k v t => by simp [KVs.append, KVs.append_nil t]

theorem KVs.hasKey_eq_contains : ∀ (l : KVs) (k : Str), l.hasKey k = l.keys.contains k
  | .nil, k => by simp [KVs.hasKey, KVs.keys]
  | .cons k' v t, k => by
    simp only [KVs.hasKey, KVs.keys, KVs.hasKey_eq_contains t k, List.contains_cons]
    by_cases h : k' = k
    · subst h; simp
    · have h' : k ≠ k' := fun e => h e.symm
      have e1 : (k' == k) = false := beq_eq_false_iff_ne.mpr h
      have e2 : (k == k') = false := beq_eq_false_iff_ne.mpr h'
      rw [e1, e2]

theorem KVs.dedupAux_nodup : ∀ (l acc : KVs), nodupKeys l.keys = true → (∀ k, l.hasKey k = true → acc.hasKey k = false) →
    KVs.dedupAux l acc = acc.append l
  | .nil, acc, _, _ => by simp [KVs.dedupAux, KVs.append_nil]
  | .cons k v t, acc, hnd, hdis => by
    simp only [KVs.keys, nodupKeys, Bool.and_eq_true, Bool.not_eq_true'] at hnd
    have hk : acc.hasKey k = false := hdis k (by simp [KVs.hasKey])
    have ht : ∀ k', t.hasKey k' = true → (KVs.put k v acc).hasKey k' = false := by
      intro k' hk'
      rw [KVs.put_append acc k v hk, KVs.hasKey_append]
      have h1 : acc.hasKey k' = false := hdis k' (by simp [KVs.hasKey, hk'])
      have h2 : k ≠ k' := by
        intro he; subst he
        rw [KVs.hasKey_eq_contains] at hk'
        have hm : k ∈ t.keys := by simpa using hk'
        simp [hm] at hnd
      simp [h1, KVs.hasKey, h2]
    rw [KVs.dedupAux, KVs.dedupAux_nodup t _ hnd.2 ht, KVs.put_append acc k v hk, KVs.append_assoc]
    rfl

theorem KVs.dedup_nodup (l : KVs) (h : nodupKeys l.keys = true) : l.dedup = l := by
  unfold KVs.dedup
  rw [KVs.dedupAux_nodup l .nil h (by intro k _; rfl)]
  rfl

mutual
  theorem dedupValue_nodup : ∀ (v : AnyValue), v.nodup = true → dedupValue v = v
    | .empty, _ => rfl
    | .str _, _ => rfl
    | .bool _, _ => rfl
    | .int _, _ => rfl
    | .dbl _, _ => rfl
    | .bytes _, _ => rfl
    | .slice vs, h => by
      simp only [AnyValue.nodup] at h
      simp [dedupValue, dedupValues_nodup vs h]
    | .map kvs, h => by
      simp only [AnyValue.nodup, Bool.and_eq_true] at h
      simp [dedupValue, dedupKVs_nodup kvs h.2, KVs.dedup_nodup kvs h.1]
  theorem dedupValues_nodup : ∀ (vs : Values), vs.nodup = true → dedupValues vs = vs
    | .nil, _ => rfl
    | .cons v t, h => by
      simp only [Values.nodup, Bool.and_eq_true] at h
      simp [dedupValues, dedupValue_nodup v h.1, dedupValues_nodup t h.2]
  theorem dedupKVs_nodup : ∀ (kvs : KVs), kvs.nodup = true → dedupKVs kvs = kvs
    | .nil, _ => rfl
    | .cons k v t, h => by
      simp only [KVs.nodup, Bool.and_eq_true] at h
      simp [dedupKVs, dedupValue_nodup v h.1, dedupKVs_nodup t h.2]
end

/-- a clean attribute map written by `MapUnsorted` into any (-0.0-free) destination is read back
    by `TefToOtlpMap` unchanged -/
theorem attrs_roundtrip (m : KVs) (out : SAttrs) (hc : m.clean = true) (ho : out.nnz = true) :
    (SAttrs.mapUnsorted m out).toOtlp = m ∧ (SAttrs.mapUnsorted m out).nnz = true := by
  simp only [KVs.clean, Bool.and_eq_true] at hc
  have h := mapUnsorted_spec m out hc.1.2 hc.2 ho
  refine ⟨?_, h.2⟩
  unfold SAttrs.toOtlp
  rw [h.1, dedupKVs_nodup m hc.1.1.2, KVs.dedup_nodup m hc.1.1.1]

end Stef.Otlp

namespace Stef.Otlp

/-! ### `MapSorted`: sorting the entries keeps them clean -/

theorem KVs.insertByKey_small : ∀ (l : KVs) (k : Str) (v : AnyValue),
    (KVs.insertByKey k v l).small = (v.small && l.small)
  | .nil, k, v => by simp [KVs.insertByKey, KVs.small]
  | .cons k' v' t, k, v => by
    simp only [KVs.insertByKey]
    split
    · simp [KVs.small]
    · simp only [KVs.small, KVs.insertByKey_small t k v]
      cases v.small <;> cases v'.small <;> cases t.small <;> rfl

theorem KVs.insertByKey_nnz : ∀ (l : KVs) (k : Str) (v : AnyValue),
    (KVs.insertByKey k v l).nnz = (v.nnz && l.nnz)
  | .nil, k, v => by simp [KVs.insertByKey, KVs.nnz]
  | .cons k' v' t, k, v => by
    simp only [KVs.insertByKey]
    split
    · simp [KVs.nnz]
    · simp only [KVs.nnz, KVs.insertByKey_nnz t k v]
      cases v.nnz <;> cases v'.nnz <;> cases t.nnz <;> rfl

theorem KVs.sortAux_small : ∀ (l acc : KVs), (KVs.sortAux l acc).small = (l.small && acc.small)
  | .nil, acc => by simp [KVs.sortAux, KVs.small]
  | .cons k v t, acc => by
    simp only [KVs.sortAux, KVs.sortAux_small t, KVs.insertByKey_small, KVs.small]
    cases v.small <;> cases t.small <;> cases acc.small <;> rfl

theorem KVs.sortAux_nnz : ∀ (l acc : KVs), (KVs.sortAux l acc).nnz = (l.nnz && acc.nnz)
  | .nil, acc => by simp [KVs.sortAux, KVs.nnz]
  | .cons k v t, acc => by
    simp only [KVs.sortAux, KVs.sortAux_nnz t, KVs.insertByKey_nnz, KVs.nnz]
    cases v.nnz <;> cases t.nnz <;> cases acc.nnz <;> rfl

theorem KVs.sortByKey_small (l : KVs) : l.sortByKey.small = l.small := by
  simp [KVs.sortByKey, KVs.sortAux_small, KVs.small]

theorem KVs.sortByKey_nnz (l : KVs) : l.sortByKey.nnz = l.nnz := by
  simp [KVs.sortByKey, KVs.sortAux_nnz, KVs.nnz]

theorem mapSorted_spec (m : KVs) (out : SAttrs) (hs : m.small = true) (hn : m.nnz = true) (ho : out.nnz = true) :
    (SAttrs.mapSorted m out).visible = m.sortByKey ∧ (SAttrs.mapSorted m out).nnz = true :=
  mapUnsorted_spec m.sortByKey out (by rw [KVs.sortByKey_small]; exact hs) (by rw [KVs.sortByKey_nnz]; exact hn) ho

end Stef.Otlp

namespace Stef.Otlp

/-! ### sorting keeps keys distinct -/

theorem nodupKeys_iff : ∀ (l : List Str), nodupKeys l = true ↔ l.Nodup
  | [] => by simp [nodupKeys]
  | k :: t => by
    simp only [nodupKeys, Bool.and_eq_true, Bool.not_eq_true', List.nodup_cons, nodupKeys_iff t]
    constructor
    · intro h; exact ⟨by simpa using h.1, h.2⟩
    · intro h; exact ⟨by simpa using h.1, h.2⟩

theorem KVs.insertByKey_keys_perm : ∀ (l : KVs) (k : Str) (v : AnyValue), (KVs.insertByKey k v l).keys.Perm (k :: l.keys)
  | .nil, k, v => by simp [KVs.insertByKey, KVs.keys]
  | .cons k' v' t, k, v => by
    simp only [KVs.insertByKey]
    split
    · simp [KVs.keys]
    · simp only [KVs.keys]
      exact (List.Perm.cons k' (KVs.insertByKey_keys_perm t k v)).trans (List.Perm.swap k k' t.keys)

theorem KVs.sortAux_keys_perm : ∀ (l acc : KVs), (KVs.sortAux l acc).keys.Perm (l.keys ++ acc.keys)
  | .nil, acc => by simp [KVs.sortAux, KVs.keys]
  | .cons k v t, acc => by
    simp only [KVs.sortAux, KVs.keys]
    refine (KVs.sortAux_keys_perm t _).trans ?_
    refine (List.Perm.append_left _ (KVs.insertByKey_keys_perm acc k v)).trans ?_
    simp only [List.cons_append]
    exact List.perm_middle

theorem KVs.sortByKey_nodupKeys (l : KVs) (h : nodupKeys l.keys = true) : nodupKeys l.sortByKey.keys = true := by
  rw [nodupKeys_iff] at h ⊢
  have p := KVs.sortAux_keys_perm l .nil
  simp only [KVs.keys, List.append_nil] at p
  exact p.nodup_iff.mpr h

theorem KVs.insertByKey_nodup : ∀ (l : KVs) (k : Str) (v : AnyValue),
    (KVs.insertByKey k v l).nodup = (v.nodup && l.nodup)
  | .nil, k, v => by simp [KVs.insertByKey, KVs.nodup]
  | .cons k' v' t, k, v => by
    simp only [KVs.insertByKey]
    split
    · simp [KVs.nodup]
    · simp only [KVs.nodup, KVs.insertByKey_nodup t k v]
      cases v.nodup <;> cases v'.nodup <;> cases t.nodup <;> rfl

theorem KVs.sortAux_nodup : ∀ (l acc : KVs), (KVs.sortAux l acc).nodup = (l.nodup && acc.nodup)
  | .nil, acc => by simp [KVs.sortAux, KVs.nodup]
  | .cons k v t, acc => by
    simp only [KVs.sortAux, KVs.sortAux_nodup t, KVs.insertByKey_nodup, KVs.nodup]
    cases v.nodup <;> cases t.nodup <;> cases acc.nodup <;> rfl

theorem KVs.sortByKey_nodup (l : KVs) : l.sortByKey.nodup = l.nodup := by
  simp [KVs.sortByKey, KVs.sortAux_nodup, KVs.nodup]

theorem KVs.sortByKey_clean (l : KVs) (h : l.clean = true) : l.sortByKey.clean = true := by
  simp only [KVs.clean, Bool.and_eq_true] at h ⊢
  exact ⟨⟨⟨KVs.sortByKey_nodupKeys l h.1.1.1, by rw [KVs.sortByKey_nodup]; exact h.1.1.2⟩,
    by rw [KVs.sortByKey_small]; exact h.1.2⟩, by rw [KVs.sortByKey_nnz]; exact h.2⟩

theorem clean_small_nnz' {a : KVs} (h : a.clean = true) : a.small = true ∧ a.nnz = true := by
  simp only [KVs.clean, Bool.and_eq_true] at h
  exact ⟨h.1.2, h.2⟩

/-- reading back a clean map stored in an otelstef.Attributes -/
theorem toOtlp_of_visible (a : SAttrs) (m : KVs) (hv : a.visible = m) (hc : m.clean = true) : a.toOtlp = m := by
  simp only [KVs.clean, Bool.and_eq_true] at hc
  unfold SAttrs.toOtlp
  rw [hv, dedupKVs_nodup m hc.1.1.2, KVs.dedup_nodup m hc.1.1.1]

end Stef.Otlp

namespace Stef.Otlp

/-! ### the `nnz` predicates hold for every value (see `nnzF` in Stef/Otlp/Clean.lean) -/

mutual
  theorem AnyValue.nnz_true : ∀ v : AnyValue, v.nnz = true
    | .empty => rfl
    | .str _ => rfl
    | .bool _ => rfl
    | .int _ => rfl
    | .dbl _ => rfl
    | .bytes _ => rfl
    | .slice vs => by simp [AnyValue.nnz, Values.nnz_true vs]
    | .map kvs => by simp [AnyValue.nnz, KVs.nnz_true kvs]
  theorem Values.nnz_true : ∀ vs : Values, vs.nnz = true
    | .nil => rfl
    | .cons v t => by simp [Values.nnz, AnyValue.nnz_true v, Values.nnz_true t]
  theorem KVs.nnz_true : ∀ kvs : KVs, kvs.nnz = true
    | .nil => rfl
    | .cons _ v t => by simp [KVs.nnz, AnyValue.nnz_true v, KVs.nnz_true t]
end

mutual
  theorem SVal.nnz_true : ∀ v : SVal, v.nnz = true
    | .mk c a _ k _ => by
      cases c <;> simp [SVal.nnz, nnzF, SVals.nnz_true a, SKVs.nnz_true k]
  theorem SVals.nnz_true : ∀ vs : SVals, vs.nnz = true
    | .nil => rfl
    | .cons v t => by simp [SVals.nnz, SVal.nnz_true v, SVals.nnz_true t]
  theorem SKVs.nnz_true : ∀ kvs : SKVs, kvs.nnz = true
    | .nil => rfl
    | .cons _ v t => by simp [SKVs.nnz, SVal.nnz_true v, SKVs.nnz_true t]
end

theorem SAttrs.nnz_true (a : SAttrs) : a.nnz = true := SKVs.nnz_true a.store

end Stef.Otlp
