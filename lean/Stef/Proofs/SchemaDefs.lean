/-
  Definitions shared by the statements of C12 / C13: well-formedness of a schema, the position
  predicate, schema equivalence up to definition order, acyclicity.
-/
import Stef.Idl
import Stef.SchemaPrint
import Stef.WireSchema

namespace Stef.Idl

/-! ### C12 -/

/-- A position lies within an input of `n` bytes: byte offset at most `n`, line and column
    counted from 1 and consistent with the offset (so never Go's "unknown" zero position). -/
def Pos.Within (n : Nat) (p : Pos) : Prop :=
  p.ofs ≤ n ∧ 1 ≤ p.line ∧ 1 ≤ p.col ∧ p.line + p.col ≤ p.ofs + 2

instance (n : Nat) (p : Pos) : Decidable (p.Within n) := by unfold Pos.Within; infer_instance

/-- The name a non-array type refers to, with the kind of definition it must be. -/
inductive RefKind | struct | multimap | enum
  deriving DecidableEq, Repr

/-- A non-array type is resolved in `σ`: at most one of the three name slots is set, the name
    it holds is defined in the matching table, and it is defined exactly once among ALL
    top-level definitions of `σ` (structs, oneofs, multimaps, enums). -/
def BaseType.Resolved (σ : Schema) (b : BaseType) : Prop :=
  (b.struct ≠ [] → b.multimap = [] ∧ b.enum = [] ∧ b.prim = none ∧
      σ.hasStruct b.struct = true ∧ σ.topNames.count b.struct = 1) ∧
  (b.multimap ≠ [] → b.struct = [] ∧ b.enum = [] ∧ b.prim = none ∧
      σ.hasMultimap b.multimap = true ∧ σ.topNames.count b.multimap = 1) ∧
  (b.enum ≠ [] → b.struct = [] ∧ b.multimap = [] ∧ b.prim = some .uint64 ∧
      σ.hasEnum b.enum = true ∧ σ.topNames.count b.enum = 1)

/-- all field types of all definitions. -/
def Schema.allTypes (σ : Schema) : List FType :=
  (σ.structs.map Struct.types).flatten ++ (σ.multimaps.map Multimap.types).flatten

/-- no field / key / value of the schema has an empty type (the zero `FieldType`). -/
def BaseType.isEmpty (b : BaseType) : Bool :=
  b.prim.isNone && b.struct.isEmpty && b.multimap.isEmpty && b.enum.isEmpty

def Schema.NoEmptyType (σ : Schema) : Prop := ∀ ty ∈ σ.allTypes, ty.inner.isEmpty = false

/-- member names are unique within every enum (guaranteed by the parser since commit ed6fa67:
    `parseEnumField` rejects a repeated member name). -/
def Schema.EnumMembersUnique (σ : Schema) : Prop :=
  ∀ e ∈ σ.enums, (e.fields.map (·.name)).Nodup

/-- The conclusion of C12 for an accepted schema. -/
structure Schema.WF (σ : Schema) : Prop where
  /-- top-level names are unique across structs, oneofs, multimaps and enums -/
  top_unique : σ.topNames.Nodup
  /-- field names are unique within every struct / oneof -/
  fields_unique : ∀ s ∈ σ.structs, (s.fields.map (·.name)).Nodup
  /-- every root struct has at least one field -/
  root_nonempty : ∀ s ∈ σ.structs, s.isRoot = true → s.fields ≠ []
  /-- every type reference resolves to exactly one definition -/
  refs_resolve : ∀ ty ∈ σ.allTypes, ty.inner.Resolved σ
  /-- every field, key and value has a type -/
  no_empty_type : σ.NoEmptyType
  /-- member names are unique within every enum -/
  enum_members_unique : σ.EnumMembersUnique

/-! ### C13 -/

/-- definitions sorted by name: two schemas are equivalent when they have the same package and
    the same definitions (same kinds, fields in the same order with the same types, optional
    flags, dictionary names, root flags, recursion flags) regardless of definition order. -/
def Schema.norm (σ : Schema) : Schema :=
  { pkg := σ.pkg, structs := sortBy (·.name) σ.structs,
    multimaps := sortBy (·.name) σ.multimaps, enums := sortBy (·.name) σ.enums }

def Schema.Equiv (σ σ' : Schema) : Prop := σ.norm = σ'.norm

instance (σ σ' : Schema) : Decidable (σ.Equiv σ') := by unfold Schema.Equiv; infer_instance

def Schema.rootNames (σ : Schema) : List Name := (σ.structs.filter (·.isRoot)).map (·.name)

/-- the name of the struct/multimap a field type descends into (arrays transparent). -/
def FType.refName (ty : FType) : Option Name :=
  if ty.inner.prim.isSome then none
  else if ty.inner.struct ≠ [] then some ty.inner.struct
  else if ty.inner.multimap ≠ [] then some ty.inner.multimap
  else none

/-- no recursion: some rank strictly decreases along every reference. -/
def Schema.Acyclic (σ : Schema) : Prop :=
  ∃ rank : Name → Nat,
    (∀ s ∈ σ.structs, ∀ ty ∈ s.types, ∀ n, ty.refName = some n → rank n < rank s.name) ∧
    (∀ m ∈ σ.multimaps, ∀ ty ∈ m.types, ∀ n, ty.refName = some n → rank n < rank m.name)

end Stef.Idl
