/-
  Round trip of one primitive value: `Spec.decodePrim` reads back what `SpecEnc.encodePrim`
  appended, whatever follows in the columns, and ends in the encoder's state.
-/
import Stef.Proofs.SpecEncBase
import Stef.Proofs.Codec
import Stef.Proofs.Uvc

namespace Stef.SpecEnc
open Stef Stef.Spec

theorem takeBytes_append (v rest acc : Bytes) :
    takeBytes v.length (v ++ rest) acc = some (acc.reverse ++ v, rest) := by
  induction v generalizing acc with
  | nil => simp [takeBytes]
  | cons b v ih =>
    simp only [List.length_cons, List.cons_append, takeBytes]
    rw [ih]
    simp

theorem uvcBits_eq (v : Word) : uvcBits v = Stef.Uvc.uvcBits v := rfl

theorem readUvc_uvcNat (n : Nat) (rest : Bits) (h : n < 2 ^ 48) :
    readUvc (uvcNat n ++ rest) = some (BitVec.ofNat 64 n, rest) := by
  unfold uvcNat
  rw [uvcBits_eq]
  apply Stef.Uvc.uvc_roundtrip
  rw [Codec.ofNat_toNat_small n (by omega)]
  exact h

theorem ofNat_toNat_of_lt (n : Nat) (h : n < 2 ^ 64) : (BitVec.ofNat 64 n).toNat = n :=
  Codec.ofNat_toNat_small n h

/-- the state with the first chunk (for column `col`) fed on top of `D` -/
theorem feed_single_append (col : Nat) (ch : Chunk) (tail : List Ev) (ds : DS) :
    feed ([(col, ch)] ++ tail) ds = feed1 (col, ch) (feed tail ds) := rfl

theorem findIdx_none_contains (cur : List Bytes) (x : Bytes) (h : cur.findIdx? (· = x) = none) :
    cur.contains x = false := by
  rw [List.findIdx?_eq_none_iff] at h
  cases hc : cur.contains x with
  | false => rfl
  | true =>
    have hm : x ∈ cur := by simpa using hc
    have := h x hm
    simp at this

theorem prim_roundtrip (col : Nat) (p : Prim) (d : Option String) (v : St) (ds : DS)
    (evs : List Ev) (ds' : DS) (eff : St) (tail : List Ev)
    (h : encodePrim col p d v ds = some (evs, ds', eff)) :
    decodePrim col p d (feed (evs ++ tail) ds) = .ok (eff, feed tail ds') := by
  unfold encodePrim at h
  by_cases hb : col < ds.cols.size
  · simp only [hb, ↓reduceIte] at h
    have hbD : col < (feed tail ds).cols.size := by rw [size_feed]; exact hb
    have hcodec := codecOf_col_feed tail ds col
    generalize hD : feed tail ds = D at hbD hcodec
    have hlv : (D.col col).lastVal = (ds.col col).lastVal := congrArg CodecOf.lastVal hcodec
    have hld : (D.col col).lastDelta = (ds.col col).lastDelta := congrArg CodecOf.lastDelta hcodec
    have hfl : (D.col col).fLast = (ds.col col).fLast := congrArg CodecOf.fLast hcodec
    have hfe : (D.col col).fLead = (ds.col col).fLead := congrArg CodecOf.fLead hcodec
    have hft : (D.col col).fTrail = (ds.col col).fTrail := congrArg CodecOf.fTrail hcodec
    cases p <;> cases v <;> simp only [reduceCtorEq] at h
    case bool.b b =>
      simp only [Option.some.injEq, Prod.mk.injEq] at h
      obtain ⟨rfl, rfl, rfl⟩ := h
      rw [feed_single_append, hD]
      simp only [decodePrim, col_feed1_self _ _ _ hbD, pre, List.cons_append, List.nil_append,
        setCol_feed1_self]
      exact congrArg (fun x => Except.ok (St.b b, x)) (setCol_col_self D col)
    case i64.i x =>
      simp only [Option.some.injEq, Prod.mk.injEq] at h
      obtain ⟨rfl, rfl, rfl⟩ := h
      rw [feed_single_append, hD]
      simp only [decodePrim, col_feed1_self _ _ _ hbD, pre, Varint.decodeSigned_encodeSigned,
        needBytes, bind, Except.bind, dodDecode, setCol_feed1_self]
      have e1 : (D.col col).lastDelta + (x - (ds.col col).lastVal - (ds.col col).lastDelta) = x - (ds.col col).lastVal := by
        rw [hld]; bv_omega
      have e2 : (D.col col).lastVal + (x - (ds.col col).lastVal) = x := by rw [hlv]; bv_omega
      rw [e1, e2]
      have := feed_modCol tail ds col (fun c => { c with lastDelta := x - (ds.col col).lastVal, lastVal := x })
        (by intro ch c; cases ch <;> rfl)
      simp only [modCol] at this
      rw [this, hD]
    case u64.i x =>
      simp only [Option.some.injEq, Prod.mk.injEq] at h
      obtain ⟨rfl, rfl, rfl⟩ := h
      rw [feed_single_append, hD]
      simp only [decodePrim, col_feed1_self _ _ _ hbD, pre, Varint.decodeSigned_encodeSigned,
        needBytes, bind, Except.bind, dodDecode, setCol_feed1_self]
      have e1 : (D.col col).lastDelta + (x - (ds.col col).lastVal - (ds.col col).lastDelta) = x - (ds.col col).lastVal := by
        rw [hld]; bv_omega
      have e2 : (D.col col).lastVal + (x - (ds.col col).lastVal) = x := by rw [hlv]; bv_omega
      rw [e1, e2]
      have := feed_modCol tail ds col (fun c => { c with lastDelta := x - (ds.col col).lastVal, lastVal := x })
        (by intro ch c; cases ch <;> rfl)
      simp only [modCol] at this
      rw [this, hD]
    case f64.f x =>
      by_cases hok : (ds.col col).fLead ≤ 31 ∧ (ds.col col).fLead + (ds.col col).fTrail ≤ 63
      · simp only [hok, and_self, ↓reduceIte, Option.some.injEq, Prod.mk.injEq] at h
        have hstep := Codec.f64_step
          { last := (ds.col col).fLast, lead := (ds.col col).fLead, trail := (ds.col col).fTrail }
          (D.col col) x (D.col col).bits hok ⟨hfl, hfe, hft⟩
        generalize Codec.F64.encodeBits
          { last := (ds.col col).fLast, lead := (ds.col col).fLead, trail := (ds.col col).fTrail } x = r at h hstep
        obtain ⟨rfl, rfl, rfl⟩ := h
        rw [feed_single_append, hD]
        simp only [decodePrim, col_feed1_self _ _ _ hbD, pre, needBits, bind, Except.bind, setCol_feed1_self]
        rw [hstep.1]
        simp only
        have := feed_modCol tail ds col (fun c => { c with fLast := x, fLead := r.1.lead, fTrail := r.1.trail })
          (by intro ch c; cases ch <;> rfl)
        simp only [modCol] at this
        rw [this, hD]
      · simp only [hok, ↓reduceIte, reduceCtorEq] at h
    case str.s x =>
      by_cases hlen : x.length < 2 ^ 63
      · simp only [hlen, ↓reduceIte] at h
        have hm := Codec.msb_ofNat_small x.length hlen
        have hl : (BitVec.ofNat 64 x.length).toNat = x.length := Codec.ofNat_toNat_small _ (by omega)
        cases d with
        | none =>
          simp only [Option.some.injEq, Prod.mk.injEq] at h
          obtain ⟨rfl, rfl, rfl⟩ := h
          rw [feed_single_append, hD]
          simp only [decodePrim, col_feed1_self _ _ _ hbD, pre, List.append_assoc,
            Varint.decodeSigned_encodeSigned, needBytes, bind, Except.bind, hm, hl, takeBytes_append,
            setCol_feed1_self, Bool.false_eq_true, ↓reduceIte, List.reverse_nil, List.nil_append]
          exact congrArg (fun y => Except.ok (St.s x, y)) (setCol_col_self D col)
        | some dn =>
          simp only at h
          have hsd : D.sdict = ds.sdict := by rw [← hD]; exact sdict_feed tail ds
          cases hf : (lookupDict ds.sdict dn).findIdx? (· = x) with
          | some i =>
            simp only [hf] at h
            by_cases hi : i < 2 ^ 63
            · simp only [hi, ↓reduceIte, Option.some.injEq, Prod.mk.injEq] at h
              obtain ⟨rfl, rfl, rfl⟩ := h
              obtain ⟨hi', hp, _⟩ := List.findIdx?_eq_some_iff_getElem.mp hf
              have hiv : (lookupDict ds.sdict dn)[i] = x := by simpa using hp
              have hn := Codec.neg_ref i hi
              rw [feed_single_append, hD]
              simp only [decodePrim, col_feed1_self _ _ _ hbD, pre,
                Varint.decodeSigned_encodeSigned, needBytes, bind, Except.bind, hn.1, hn.2,
                setCol_feed1_self, ↓reduceIte]
              have : (feed1 (col, Chunk.bytes (Varint.encodeSigned (0#64 - BitVec.ofNat 64 i - 1#64))) D).sdict = ds.sdict := by
                rw [feed1_eq]; exact hsd
              rw [this, List.getElem?_eq_getElem hi', hiv]
              exact congrArg (fun y => Except.ok (St.s x, y)) (setCol_col_self D col)
            · simp only [hi, ↓reduceIte, reduceCtorEq] at h
          | none =>
            simp only [hf] at h
            have hnc := findIdx_none_contains _ _ hf
            by_cases h2 : x.length ≥ 2
            · simp only [h2, ↓reduceIte, Option.some.injEq, Prod.mk.injEq] at h
              obtain ⟨rfl, rfl, rfl⟩ := h
              rw [feed_single_append, hD]
              simp only [decodePrim, col_feed1_self _ _ _ hbD, pre, List.append_assoc,
                Varint.decodeSigned_encodeSigned, needBytes, bind, Except.bind, hm, hl, takeBytes_append,
                setCol_feed1_self, Bool.false_eq_true, ↓reduceIte, List.reverse_nil, List.nil_append]
              have e0 : D.setCol col (D.col col) = D := setCol_col_self D col
              simp only [e0, hsd, hnc, h2, Bool.false_eq_true, and_false, ↓reduceIte, Nat.add_zero]
              have hA := aux_feed tail ds
              rw [hD] at hA
              have h1 : D.tdict = ds.tdict := congrArg Aux.tdict hA
              have h3 : D.dictViolations = ds.dictViolations := congrArg Aux.dictViolations hA
              have h4 : D.dictPayload = ds.dictPayload := congrArg Aux.dictPayload hA
              have h5 : D.maxDictPayload = ds.maxDictPayload := congrArg Aux.maxDictPayload hA
              show _ = Except.ok (St.s x, feed tail (ds.withAux ⟨setDict ds.sdict dn (lookupDict ds.sdict dn ++ [x]), ds.tdict,
                ds.dictViolations, ds.dictPayload + x.length, max ds.maxDictPayload (ds.dictPayload + x.length)⟩))
              rw [feed_withAux, hD]
              simp only [DS.withAux, h1, h3, h4, h5]
            · simp only [h2, ↓reduceIte, Option.some.injEq, Prod.mk.injEq] at h
              obtain ⟨rfl, rfl, rfl⟩ := h
              rw [feed_single_append, hD]
              simp only [decodePrim, col_feed1_self _ _ _ hbD, pre, List.append_assoc,
                Varint.decodeSigned_encodeSigned, needBytes, bind, Except.bind, hm, hl, takeBytes_append,
                setCol_feed1_self, Bool.false_eq_true, ↓reduceIte, List.reverse_nil, List.nil_append]
              have e0 : D.setCol col (D.col col) = D := setCol_col_self D col
              simp only [e0, hsd, hnc, h2, Bool.false_eq_true, and_false, ↓reduceIte, Nat.add_zero]
              rw [← hsd]
      · simp only [hlen, ↓reduceIte, reduceCtorEq] at h
    case byts.s x =>
      by_cases hlen : x.length < 2 ^ 63
      · simp only [hlen, ↓reduceIte] at h
        have hm := Codec.msb_ofNat_small x.length hlen
        have hl : (BitVec.ofNat 64 x.length).toNat = x.length := Codec.ofNat_toNat_small _ (by omega)
        cases d with
        | none =>
          simp only [Option.some.injEq, Prod.mk.injEq] at h
          obtain ⟨rfl, rfl, rfl⟩ := h
          rw [feed_single_append, hD]
          simp only [decodePrim, col_feed1_self _ _ _ hbD, pre, List.append_assoc,
            Varint.decodeSigned_encodeSigned, needBytes, bind, Except.bind, hm, hl, takeBytes_append,
            setCol_feed1_self, Bool.false_eq_true, ↓reduceIte, List.reverse_nil, List.nil_append]
          exact congrArg (fun y => Except.ok (St.s x, y)) (setCol_col_self D col)
        | some dn =>
          simp only at h
          have hsd : D.sdict = ds.sdict := by rw [← hD]; exact sdict_feed tail ds
          cases hf : (lookupDict ds.sdict dn).findIdx? (· = x) with
          | some i =>
            simp only [hf] at h
            by_cases hi : i < 2 ^ 63
            · simp only [hi, ↓reduceIte, Option.some.injEq, Prod.mk.injEq] at h
              obtain ⟨rfl, rfl, rfl⟩ := h
              obtain ⟨hi', hp, _⟩ := List.findIdx?_eq_some_iff_getElem.mp hf
              have hiv : (lookupDict ds.sdict dn)[i] = x := by simpa using hp
              have hn := Codec.neg_ref i hi
              rw [feed_single_append, hD]
              simp only [decodePrim, col_feed1_self _ _ _ hbD, pre,
                Varint.decodeSigned_encodeSigned, needBytes, bind, Except.bind, hn.1, hn.2,
                setCol_feed1_self, ↓reduceIte]
              have : (feed1 (col, Chunk.bytes (Varint.encodeSigned (0#64 - BitVec.ofNat 64 i - 1#64))) D).sdict = ds.sdict := by
                rw [feed1_eq]; exact hsd
              rw [this, List.getElem?_eq_getElem hi', hiv]
              exact congrArg (fun y => Except.ok (St.s x, y)) (setCol_col_self D col)
            · simp only [hi, ↓reduceIte, reduceCtorEq] at h
          | none =>
            simp only [hf] at h
            have hnc := findIdx_none_contains _ _ hf
            by_cases h2 : x.length ≥ 2
            · simp only [h2, ↓reduceIte, Option.some.injEq, Prod.mk.injEq] at h
              obtain ⟨rfl, rfl, rfl⟩ := h
              rw [feed_single_append, hD]
              simp only [decodePrim, col_feed1_self _ _ _ hbD, pre, List.append_assoc,
                Varint.decodeSigned_encodeSigned, needBytes, bind, Except.bind, hm, hl, takeBytes_append,
                setCol_feed1_self, Bool.false_eq_true, ↓reduceIte, List.reverse_nil, List.nil_append]
              have e0 : D.setCol col (D.col col) = D := setCol_col_self D col
              simp only [e0, hsd, hnc, h2, Bool.false_eq_true, and_false, ↓reduceIte, Nat.add_zero]
              have hA := aux_feed tail ds
              rw [hD] at hA
              have h1 : D.tdict = ds.tdict := congrArg Aux.tdict hA
              have h3 : D.dictViolations = ds.dictViolations := congrArg Aux.dictViolations hA
              have h4 : D.dictPayload = ds.dictPayload := congrArg Aux.dictPayload hA
              have h5 : D.maxDictPayload = ds.maxDictPayload := congrArg Aux.maxDictPayload hA
              show _ = Except.ok (St.s x, feed tail (ds.withAux ⟨setDict ds.sdict dn (lookupDict ds.sdict dn ++ [x]), ds.tdict,
                ds.dictViolations, ds.dictPayload + x.length, max ds.maxDictPayload (ds.dictPayload + x.length)⟩))
              rw [feed_withAux, hD]
              simp only [DS.withAux, h1, h3, h4, h5]
            · simp only [h2, ↓reduceIte, Option.some.injEq, Prod.mk.injEq] at h
              obtain ⟨rfl, rfl, rfl⟩ := h
              rw [feed_single_append, hD]
              simp only [decodePrim, col_feed1_self _ _ _ hbD, pre, List.append_assoc,
                Varint.decodeSigned_encodeSigned, needBytes, bind, Except.bind, hm, hl, takeBytes_append,
                setCol_feed1_self, Bool.false_eq_true, ↓reduceIte, List.reverse_nil, List.nil_append]
              have e0 : D.setCol col (D.col col) = D := setCol_col_self D col
              simp only [e0, hsd, hnc, h2, Bool.false_eq_true, and_false, ↓reduceIte, Nat.add_zero]
              rw [← hsd]
      · simp only [hlen, ↓reduceIte, reduceCtorEq] at h
  · simp only [hb, ↓reduceIte, reduceCtorEq] at h

end Stef.SpecEnc
