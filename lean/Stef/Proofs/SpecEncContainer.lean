/-
  The container of a frame: the size table written by `SpecEnc.writeSizes` is read back by
  `Spec.readSizes`, the column data laid out by `SpecEnc.frameContent` is sliced by
  `Spec.loadColumns` into columns that carry the encoder's events (`FrameCarries`), under the
  decidable side conditions `SpecEnc.frameOk`.
-/
import Stef.Proofs.SpecEncFrame

namespace Stef.SpecEnc
open Stef Stef.Spec

/-! ### packing bits into bytes only appends zero padding -/

theorem byteBits_fold8 : ∀ b0 b1 b2 b3 b4 b5 b6 b7 : Bool,
    byteBits ([b0, b1, b2, b3, b4, b5, b6, b7].foldl (fun acc b => (acc <<< 1) ||| (if b then 1#8 else 0#8)) 0#8) =
      [b0, b1, b2, b3, b4, b5, b6, b7] := by decide

theorem byteBits_fold (l : List Bool) (h : l.length = 8) :
    byteBits (l.foldl (fun acc b => (acc <<< 1) ||| (if b then 1#8 else 0#8)) 0#8) = l := by
  match l, h with
  | [b0, b1, b2, b3, b4, b5, b6, b7], _ => exact byteBits_fold8 b0 b1 b2 b3 b4 b5 b6 b7

theorem byteBits_packByte (chunk : Bits) (h : chunk.length ≤ 8) :
    byteBits (packByte chunk) = chunk ++ List.replicate (8 - chunk.length) false := by
  unfold packByte
  exact byteBits_fold _ (by simp; omega)

/-- packing bits into bytes only appends zero padding -/
theorem bytesBits_packBits (bs : Bits) : ∃ pad : Bits, bytesBits (packBits bs) = bs ++ pad := by
  induction h : bs.length using Nat.strongRecOn generalizing bs with
  | _ n ih =>
    rw [packBits]
    by_cases h0 : bs.length = 0
    · have : bs = [] := List.eq_nil_of_length_eq_zero h0
      subst this
      exact ⟨[], by simp [bytesBits]⟩
    · simp only [h0, ↓reduceDIte, bytesBits]
      by_cases h8 : bs.length ≤ 8
      · have hd : bs.drop 8 = [] := List.drop_eq_nil_of_le h8
        rw [hd, packBits]
        simp only [List.length_nil, ↓reduceDIte, bytesBits, List.append_nil]
        rw [List.take_of_length_le h8, byteBits_packByte _ h8]
        exact ⟨_, rfl⟩
      · obtain ⟨pad, hp⟩ := ih (bs.drop 8).length (by simp; omega) (bs.drop 8) rfl
        rw [hp, byteBits_packByte _ (by simp; omega)]
        refine ⟨pad, ?_⟩
        have : (List.take 8 bs).length = 8 := by simp; omega
        rw [this]
        simp only [Nat.sub_self, List.replicate_zero, List.append_nil]
        rw [← List.append_assoc, List.take_append_drop]

/-! ### the per-column buffers are the concatenated events -/

theorem absorb_nil (o : EncOut) : EncOut.absorb o [] = o := rfl
theorem absorb_cons (o : EncOut) (e : Ev) (evs : List Ev) :
    EncOut.absorb o (e :: evs) = EncOut.absorb
      (match e.2 with
       | .bits b => o.modify e.1 (fun c => { c with bits := c.bits ++ b.toArray })
       | .bytes b => o.modify e.1 (fun c => { c with bytes := c.bytes ++ b.toArray })) evs := rfl

theorem size_absorb (o : EncOut) (evs : List Ev) : (EncOut.absorb o evs).size = o.size := by
  induction evs generalizing o with
  | nil => rfl
  | cons e evs ih =>
    rw [absorb_cons, ih]
    cases e.2 <;> simp

theorem absorb_col (evs : List Ev) : ∀ (o : EncOut) (c : Nat), c < o.size →
    ((EncOut.absorb o evs).getD c {}).bits.toList = (o.getD c {}).bits.toList ++ colBits evs c ∧
    ((EncOut.absorb o evs).getD c {}).bytes.toList = (o.getD c {}).bytes.toList ++ colBytes evs c := by
  induction evs with
  | nil => intro o c _; simp [absorb_nil, colBits, colBytes]
  | cons e evs ih =>
    intro o c hc
    obtain ⟨c', ch⟩ := e
    rw [absorb_cons, colBits_cons, colBytes_cons]
    cases ch with
    | bits b =>
      simp only
      have := ih (o.modify c' (fun x => { x with bits := x.bits ++ b.toArray })) c (by simp; exact hc)
      rw [this.1, this.2]
      by_cases h : c' = c
      · subst h
        simp [Array.getD_eq_getD_getElem?, hc, Array.getElem_modify]
      · simp [Array.getD_eq_getD_getElem?, hc, Array.getElem_modify, h]
    | bytes b =>
      simp only
      have := ih (o.modify c' (fun x => { x with bytes := x.bytes ++ b.toArray })) c (by simp; exact hc)
      rw [this.1, this.2]
      by_cases h : c' = c
      · subst h
        simp [Array.getD_eq_getD_getElem?, hc, Array.getElem_modify]
      · simp [Array.getD_eq_getD_getElem?, hc, Array.getElem_modify, h]

theorem absorb_fresh (ncols : Nat) (evs : List Ev) (c : Nat) (hc : c < ncols) :
    ((EncOut.absorb (Array.replicate ncols ({} : ColOut)) evs).getD c {}).bits.toList = colBits evs c ∧
    ((EncOut.absorb (Array.replicate ncols ({} : ColOut)) evs).getD c {}).bytes.toList = colBytes evs c := by
  have := absorb_col evs (Array.replicate ncols ({} : ColOut)) c (by simp; exact hc)
  simpa [Array.getD_eq_getD_getElem?, hc] using this

/-! ### tree traversals -/

def isRecur : Node → Bool
  | .recur _ => true
  | _ => false

theorem colKinds_succ (f : Nat) (n : Node) (h : isRecur n = false) :
    colKinds (f + 1) n = (nodeCol n, isBitNode n) :: colKindsList f (nodeKids n) := by
  cases n <;> first | (exfalso; simp [isRecur] at h; done) | (simp only [colKinds, nodeCol, nodeKids])

theorem readSizes_succ (f : Nat) (n : Node) (bs : Bits) (acc : List (Nat × Nat)) (h : isRecur n = false) :
    readSizes (f + 1) n bs acc =
      (match readUvc bs with
       | none => .error "eof-bits"
       | some (sz, bs) =>
         if sz.toNat = 0 then .ok (bs, (nodeCol n, sz.toNat) :: acc)
         else readSizesList f (nodeKids n) bs ((nodeCol n, sz.toNat) :: acc)) := by
  cases n <;> first | (exfalso; simp [isRecur] at h; done) |
    (simp only [readSizes, nodeCol, nodeKids, needBits, bind, Except.bind]
     cases readUvc bs <;> rfl)

theorem writeSizes_succ (o : EncOut) (f : Nat) (n : Node) (h : isRecur n = false) :
    writeSizes o (f + 1) n =
      uvcNat (colData o (nodeCol n) (isBitNode n)).length ++
        (if (colData o (nodeCol n) (isBitNode n)).length = 0 then [] else writeSizesList o f (nodeKids n)) := by
  cases n <;> first | (exfalso; simp [isRecur] at h; done) | (simp only [writeSizes])

theorem liveCols_succ (o : EncOut) (f : Nat) (n : Node) (h : isRecur n = false) :
    liveCols o (f + 1) n =
      (nodeCol n, isBitNode n) ::
        (if (colData o (nodeCol n) (isBitNode n)).length = 0 then [] else liveColsList o f (nodeKids n)) := by
  cases n <;> first | (exfalso; simp [isRecur] at h; done) | (simp only [liveCols])

theorem fits_succ (f : Nat) (n : Node) (h : isRecur n = false) : fits (f + 1) n = fitsList f (nodeKids n) := by
  cases n <;> first | (exfalso; simp [isRecur] at h; done) | (simp only [fits])

theorem elisionOk_succ (o : EncOut) (f : Nat) (n : Node) (h : isRecur n = false) :
    elisionOk o (f + 1) n =
      (if (colData o (nodeCol n) (isBitNode n)).length = 0 then
        (colKindsList f (nodeKids n)).all (fun p => (colData o p.1 p.2).length == 0)
      else elisionOkList o f (nodeKids n)) := by
  cases n <;> first | (exfalso; simp [isRecur] at h; done) | (simp only [elisionOk])

def sizeEntry (o : EncOut) (p : Nat × Bool) : Nat × Nat := (p.1, (colData o p.1 p.2).length)

/-- **the size table round trip** -/
theorem readSizes_writeSizes (o : EncOut) : ∀ f,
    (∀ n rest acc, fits f n = true → (∀ p ∈ liveCols o f n, (colData o p.1 p.2).length < 2 ^ 48) →
      readSizes f n (writeSizes o f n ++ rest) acc = .ok (rest, ((liveCols o f n).map (sizeEntry o)).reverse ++ acc)) ∧
    (∀ ns rest acc, fitsList f ns = true → (∀ p ∈ liveColsList o f ns, (colData o p.1 p.2).length < 2 ^ 48) →
      readSizesList f ns (writeSizesList o f ns ++ rest) acc =
        .ok (rest, ((liveColsList o f ns).map (sizeEntry o)).reverse ++ acc)) := by
  intro f
  induction f with
  | zero => exact ⟨fun n rest acc h => by simp [fits] at h, fun ns rest acc h => by simp [fitsList] at h⟩
  | succ f ih =>
    obtain ⟨ihn, ihl⟩ := ih
    refine ⟨?_, ?_⟩
    · intro n rest acc hfit hsz
      by_cases hr : isRecur n = true
      · cases n <;> simp [isRecur] at hr
        simp [readSizes, writeSizes, liveCols]
      · have hr : isRecur n = false := by simpa using hr
        rw [readSizes_succ _ _ _ _ hr, writeSizes_succ _ _ _ hr, liveCols_succ _ _ _ hr]
        rw [liveCols_succ _ _ _ hr] at hsz
        rw [fits_succ _ _ hr] at hfit
        have h48 := hsz (nodeCol n, isBitNode n) (by simp)
        simp only at h48
        rw [List.append_assoc, readUvc_uvcNat _ _ h48]
        simp only [ofNat_toNat_of_lt _ (show (colData o (nodeCol n) (isBitNode n)).length < 2 ^ 64 by omega)]
        by_cases h0 : (colData o (nodeCol n) (isBitNode n)).length = 0
        · simp [h0, sizeEntry]
        · simp only [h0, ↓reduceIte] at hsz ⊢
          rw [ihl _ _ _ hfit (fun p hp => hsz p (by simp [hp]))]
          simp [sizeEntry]
    · intro ns rest acc hfit hsz
      cases ns with
      | nil => simp [readSizesList, writeSizesList, liveColsList]
      | cons n ns =>
        simp only [fitsList, Bool.and_eq_true] at hfit
        simp only [liveColsList, List.mem_append] at hsz
        simp only [readSizesList, writeSizesList, liveColsList, List.append_assoc]
        rw [ihn _ _ _ hfit.1 (fun p hp => hsz p (Or.inl hp))]
        simp only [bind, Except.bind]
        rw [ihl _ _ _ hfit.2 (fun p hp => hsz p (Or.inr hp))]
        simp

/-! ### live columns versus all columns of the tree -/

def cdata (o : EncOut) (p : Nat × Bool) : Bytes := colData o p.1 p.2

theorem flatMap_empty (o : EncOut) (l : List (Nat × Bool))
    (h : l.all (fun p => (colData o p.1 p.2).length == 0) = true) : l.flatMap (cdata o) = [] := by
  induction l with
  | nil => rfl
  | cons p l ih =>
    simp only [List.all_cons, Bool.and_eq_true, beq_iff_eq] at h
    simp only [List.flatMap_cons, ih h.2, List.append_nil, cdata]
    exact List.eq_nil_of_length_eq_zero h.1

theorem live_vs_all (o : EncOut) : ∀ f1,
    (∀ f2 n, fits f1 n = true → fits f2 n = true → elisionOk o f1 n = true →
      (∀ p ∈ liveCols o f2 n, p ∈ colKinds f1 n) ∧
      (∀ p ∈ colKinds f1 n, p ∉ liveCols o f2 n → (colData o p.1 p.2).length = 0) ∧
      (liveCols o f2 n).flatMap (cdata o) = (colKinds f1 n).flatMap (cdata o)) ∧
    (∀ f2 ns, fitsList f1 ns = true → fitsList f2 ns = true → elisionOkList o f1 ns = true →
      (∀ p ∈ liveColsList o f2 ns, p ∈ colKindsList f1 ns) ∧
      (∀ p ∈ colKindsList f1 ns, p ∉ liveColsList o f2 ns → (colData o p.1 p.2).length = 0) ∧
      (liveColsList o f2 ns).flatMap (cdata o) = (colKindsList f1 ns).flatMap (cdata o)) := by
  intro f1
  induction f1 with
  | zero => exact ⟨fun f2 n h => by simp [fits] at h, fun f2 ns h => by simp [fitsList] at h⟩
  | succ f1 ih =>
    obtain ⟨ihn, ihl⟩ := ih
    refine ⟨?_, ?_⟩
    · intro f2 n h1 h2 he
      cases f2 with
      | zero => simp [fits] at h2
      | succ f2 =>
        by_cases hr : isRecur n = true
        · cases n <;> simp [isRecur] at hr
          simp [liveCols, colKinds]
        · have hr : isRecur n = false := by simpa using hr
          rw [fits_succ _ _ hr] at h1 h2
          rw [elisionOk_succ _ _ _ hr] at he
          rw [liveCols_succ _ _ _ hr, colKinds_succ _ _ hr]
          by_cases h0 : (colData o (nodeCol n) (isBitNode n)).length = 0
          · simp only [h0, ↓reduceIte] at he ⊢
            refine ⟨?_, ?_, ?_⟩
            · intro p hp
              simp only [List.mem_singleton] at hp
              simp [hp]
            · intro p hp hnp
              simp only [List.mem_singleton] at hnp
              simp only [List.mem_cons, hnp, false_or] at hp
              have := List.all_eq_true.mp he p hp
              simpa using this
            · simp only [List.flatMap_cons, List.flatMap_nil, flatMap_empty o _ he]
          · simp only [h0, ↓reduceIte] at he ⊢
            obtain ⟨a1, a2, a3⟩ := ihl f2 (nodeKids n) h1 h2 he
            refine ⟨?_, ?_, ?_⟩
            · intro p hp
              simp only [List.mem_cons] at hp ⊢
              exact hp.imp id (a1 p)
            · intro p hp hnp
              simp only [List.mem_cons, not_or] at hp hnp
              exact a2 p (hp.resolve_left hnp.1) hnp.2
            · simp only [List.flatMap_cons, a3]
    · intro f2 ns h1 h2 he
      cases f2 with
      | zero => simp [fitsList] at h2
      | succ f2 =>
        cases ns with
        | nil => simp [liveColsList, colKindsList]
        | cons n ns =>
          simp only [fitsList, Bool.and_eq_true] at h1 h2
          simp only [elisionOkList, Bool.and_eq_true] at he
          obtain ⟨a1, a2, a3⟩ := ihn f2 n h1.1 h2.1 he.1
          obtain ⟨b1, b2, b3⟩ := ihl f2 ns h1.2 h2.2 he.2
          simp only [liveColsList, colKindsList]
          refine ⟨?_, ?_, ?_⟩
          · intro p hp
            simp only [List.mem_append] at hp ⊢
            exact hp.imp (a1 p) (b1 p)
          · intro p hp hnp
            simp only [List.mem_append, not_or] at hp hnp
            cases hp with
            | inl hp => exact a2 p hp hnp.1
            | inr hp => exact b2 p hp hnp.2
          · simp only [List.flatMap_append, a3, b3]

/-! ### the size table as a lookup table -/

theorem eq_of_nodup_map_fst (l : List (Nat × Bool)) (h : (l.map (·.1)).Nodup) (a b : Nat × Bool)
    (ha : a ∈ l) (hb : b ∈ l) (hab : a.1 = b.1) : a = b := by
  induction l with
  | nil => simp at ha
  | cons x l ih =>
    simp only [List.map_cons, List.nodup_cons, List.mem_map, not_exists, not_and] at h
    simp only [List.mem_cons] at ha hb
    rcases ha with rfl | ha <;> rcases hb with rfl | hb
    · rfl
    · exact absurd hab.symm (h.1 b hb)
    · exact absurd hab (h.1 a ha)
    · exact ih h.2 ha hb

def lookupSize (sizes : List (Nat × Nat)) (c : Nat) : Nat := ((sizes.find? (·.1 = c)).map (·.2)).getD 0

theorem lookup_ok (o : EncOut) (A Lv : List (Nat × Bool)) (hnd : (A.map (·.1)).Nodup)
    (hsub : ∀ p ∈ Lv, p ∈ A) (hel : ∀ p ∈ A, p ∉ Lv → (colData o p.1 p.2).length = 0)
    (p : Nat × Bool) (hp : p ∈ A) :
    lookupSize ((Lv.map (sizeEntry o)).reverse) p.1 = (cdata o p).length := by
  unfold lookupSize
  cases hf : ((Lv.map (sizeEntry o)).reverse).find? (·.1 = p.1) with
  | some e =>
    have hmem := List.mem_of_find?_eq_some hf
    have hprop := List.find?_some hf
    simp only [List.mem_reverse, List.mem_map] at hmem
    obtain ⟨q, hq, rfl⟩ := hmem
    have hq1 : q.1 = p.1 := by simpa [sizeEntry] using (of_decide_eq_true hprop)
    have : q = p := eq_of_nodup_map_fst A hnd q p (hsub q hq) hp hq1
    subst this
    simp [sizeEntry, cdata]
  | none =>
    simp only [Option.map_none, Option.getD_none]
    have hnot : p ∉ Lv := by
      intro hin
      have := List.find?_eq_none.mp hf (sizeEntry o p) (List.mem_reverse.mpr (List.mem_map_of_mem hin))
      simp [sizeEntry] at this
    exact (hel p hp hnot).symm

/-! ### `loadColumns` on the laid-out data -/

/-- what `loadColumns` puts into a column: the frame's bytes for it -/
def slotCol (o : EncOut) (c : ColSt) (p : Nat × Bool) : ColSt :=
  if p.2 then { c with bits := bytesBits (cdata o p), bytes := [], size := (cdata o p).length }
  else { c with bytes := cdata o p, bits := [], size := (cdata o p).length }

def loadAll (o : EncOut) (A : List (Nat × Bool)) (ds : DS) : DS :=
  A.foldl (fun d p => d.setCol p.1 (slotCol o (d.col p.1) p)) ds

theorem loadColumns_layout (o : EncOut) (sizes : List (Nat × Nat)) :
    ∀ (A : List (Nat × Bool)) (rest : Bytes) (ds : DS),
      (∀ p ∈ A, lookupSize sizes p.1 = (cdata o p).length) →
      loadColumns A sizes (A.flatMap (cdata o) ++ rest) ds = .ok (loadAll o A ds, rest) := by
  intro A
  induction A with
  | nil => intro rest ds _; simp [loadColumns, loadAll, pure, Except.pure]
  | cons p A ih =>
    intro rest ds hl
    obtain ⟨c, b⟩ := p
    have h1 := hl (c, b) (by simp)
    have ih' := ih rest (ds.setCol c (slotCol o (ds.col c) (c, b))) (fun q hq => hl q (by simp [hq]))
    simp only [loadColumns, List.foldlM_cons, List.flatMap_cons, List.append_assoc, bind, Except.bind] at ih' ⊢
    unfold lookupSize at h1
    simp only at h1
    rw [h1, takeBytes_append]
    simp only [List.reverse_nil, List.nil_append]
    have : loadAll o ((c, b) :: A) ds = loadAll o A (ds.setCol c (slotCol o (ds.col c) (c, b))) := rfl
    rw [this, ← ih']
    cases b <;> simp [slotCol]

theorem col_loadAll_other (o : EncOut) (A : List (Nat × Bool)) (ds : DS) (c : Nat) (h : c ∉ A.map (·.1)) :
    (loadAll o A ds).col c = ds.col c := by
  induction A generalizing ds with
  | nil => rfl
  | cons p A ih =>
    simp only [List.map_cons, List.mem_cons, not_or] at h
    have : loadAll o (p :: A) ds = loadAll o A (ds.setCol p.1 (slotCol o (ds.col p.1) p)) := rfl
    rw [this, ih _ h.2, col_setCol_ne _ _ _ _ (Ne.symm h.1)]

theorem size_loadAll (o : EncOut) (A : List (Nat × Bool)) (ds : DS) : (loadAll o A ds).cols.size = ds.cols.size := by
  induction A generalizing ds with
  | nil => rfl
  | cons p A ih =>
    have : loadAll o (p :: A) ds = loadAll o A (ds.setCol p.1 (slotCol o (ds.col p.1) p)) := rfl
    rw [this, ih, size_setCol]

theorem col_loadAll (o : EncOut) (A : List (Nat × Bool)) (hnd : (A.map (·.1)).Nodup) (ds : DS) (p : Nat × Bool)
    (hp : p ∈ A) (hb : p.1 < ds.cols.size) : (loadAll o A ds).col p.1 = slotCol o (ds.col p.1) p := by
  induction A generalizing ds with
  | nil => simp at hp
  | cons q A ih =>
    simp only [List.map_cons, List.nodup_cons] at hnd
    have hstep : loadAll o (q :: A) ds = loadAll o A (ds.setCol q.1 (slotCol o (ds.col q.1) q)) := rfl
    rw [hstep]
    simp only [List.mem_cons] at hp
    rcases hp with rfl | hp
    · rw [col_loadAll_other _ _ _ _ hnd.1, col_setCol_self _ _ _ hb]
    · have hne : q.1 ≠ p.1 := by
        intro he
        exact hnd.1 (by rw [he]; exact List.mem_map_of_mem hp)
      rw [ih hnd.2 _ hp (by rw [size_setCol]; exact hb), col_setCol_ne _ _ _ _ hne]

/-! ### assembling: the bytes of `frameContent` carry the events -/

theorem needVar_encodeNat (n : Nat) (rest : Bytes) (h : n < 2 ^ 64) : needVar (Varint.encodeNat n ++ rest) = .ok (n, rest) := by
  have e : Varint.encodeNat n = Varint.encode (BitVec.ofNat 64 n) := by
    unfold Varint.encode; rw [ofNat_toNat_of_lt n h]
  rw [e]
  unfold needVar
  rw [Varint.decode_encode]
  simp only [ofNat_toNat_of_lt n h]

theorem needTake_append (v rest : Bytes) : needTake v.length (v ++ rest) = .ok (v, rest) := by
  unfold needTake
  rw [takeBytes_append]
  simp

theorem frameContent_carries (root : Node) (ncols nrec flags : Nat) (evs : List Ev)
    (hok : frameOk root ncols nrec (EncOut.absorb (Array.replicate ncols {}) evs) = true) :
    FrameCarries root (colKinds 10000 root) ncols
      { flags := flags, content := frameContent root nrec (EncOut.absorb (Array.replicate ncols {}) evs) } nrec evs := by
  generalize ho : EncOut.absorb (Array.replicate ncols ({} : ColOut)) evs = o at hok
  simp only [frameOk, Bool.and_eq_true, decide_eq_true_eq, List.all_eq_true, beq_iff_eq, List.contains_iff_mem,
    List.mem_range] at hok
  obtain ⟨⟨⟨⟨⟨⟨⟨⟨hf1, hf2⟩, hnd⟩, hcov⟩, hkind⟩, hel⟩, hosz⟩, hnrec⟩, hsos⟩ := hok
  obtain ⟨l1, l2, l3⟩ := (live_vs_all o 10000).1 100000 root hf1 hf2 hel
  obtain ⟨pad, hpad⟩ := bytesBits_packBits (writeSizes o 100000 root)
  have hdata : (liveCols o 100000 root).flatMap (fun x => match x with | (c, isBit) => colData o c isBit) =
      (colKinds 10000 root).flatMap (cdata o) := by
    rw [← l3]
    congr 1
  refine ⟨Varint.encodeNat (packBits (writeSizes o 100000 root)).length ++
      (packBits (writeSizes o 100000 root) ++ (colKinds 10000 root).flatMap (cdata o)),
    (packBits (writeSizes o 100000 root)).length,
    packBits (writeSizes o 100000 root) ++ (colKinds 10000 root).flatMap (cdata o),
    packBits (writeSizes o 100000 root), (colKinds 10000 root).flatMap (cdata o), pad,
    ((liveCols o 100000 root).map (sizeEntry o)).reverse, ?_, ?_, ?_, ?_, ?_⟩
  · simp only [frameContent, hdata, List.append_assoc]
    exact needVar_encodeNat _ _ hnrec
  · exact needVar_encodeNat _ _ hsos
  · exact needTake_append _ _
  · rw [hpad]
    have := (readSizes_writeSizes o 100000).1 root pad [] hf2
      (fun p hp => ((hkind p (l1 p hp)).2))
    simpa using this
  · intro ds hds
    have hlook : ∀ p ∈ colKinds 10000 root,
        lookupSize (((liveCols o 100000 root).map (sizeEntry o)).reverse) p.1 = (cdata o p).length :=
      fun p hp => lookup_ok o _ _ hnd l1 l2 p hp
    have hload := loadColumns_layout o _ (colKinds 10000 root) [] ds hlook
    rw [List.append_nil] at hload
    refine ⟨loadAll o (colKinds 10000 root) ds, [], hload, ?_⟩
    intro c hc
    have hmem : c ∈ (colKinds 10000 root).map (·.1) := hcov c hc
    obtain ⟨p, hp, hpc⟩ := List.mem_map.mp hmem
    obtain ⟨pc, pb⟩ := p
    simp only at hpc
    subst hpc
    have hcol := col_loadAll o _ hnd ds (pc, pb) hp (by rw [hds]; exact hc)
    simp only at hcol
    have hab := absorb_fresh ncols evs pc hc
    rw [ho] at hab
    have hk := (hkind (pc, pb) hp).1.2
    simp only [inputsOf, hcol]
    cases pb with
    | true =>
      simp only [↓reduceIte, Array.isEmpty_iff] at hk
      simp only [slotCol, ↓reduceIte, cdata, colData]
      obtain ⟨pad2, hp2⟩ := bytesBits_packBits (o.getD pc {}).bits.toList
      rw [hp2, hab.1]
      refine ⟨⟨pad2, rfl⟩, ?_⟩
      rw [← hab.2, hk]
      exact List.nil_prefix
    | false =>
      simp only [Bool.false_eq_true, ↓reduceIte, Array.isEmpty_iff] at hk
      simp only [slotCol, Bool.false_eq_true, ↓reduceIte, cdata, colData]
      rw [hab.2]
      refine ⟨?_, List.prefix_refl _⟩
      rw [← hab.1, hk]
      exact List.nil_prefix

end Stef.SpecEnc
