/-
  Lemma level of Stef.ReaderIO, frame decoder: FrameDecoder.Read passes on everything the
  underlying read returned (bytes AND error) after its bookkeeping; io.ReadFull, ReadByte and the
  skip loop of Next over it, for every contract-abiding schedule.
-/
import Stef.Proofs.ReaderIO

namespace Stef.ReaderIO

/-- closes a goal that is `rfl` or that `simp only` has already turned into `True` -/
macro "tr" : term => `(by first | trivial | rfl | simp)

namespace Bufio

theorem WF.clearErr {b : Bufio} (h : b.WF) : ({ b with err := none } : Bufio).WF :=
  ⟨h.size_pos, (by intro e h; cases h), h.contract⟩

/-- `Read` for every `n`, also `len(p) = 0`: a prefix of the undelivered bytes, nothing lost. -/
theorem read_basic (b : Bufio) (h : b.WF) (n : Nat) :
    (b.read n).1.WF ∧ (b.read n).1.size = b.size ∧ (b.read n).1.src.fail = b.src.fail ∧
    (b.read n).1.src.sched.length ≤ b.src.sched.length ∧
    (b.read n).2.1 ++ (b.read n).1.rest = b.rest ∧ (b.read n).2.1.length ≤ n := by
  by_cases hn : 0 < n
  · obtain ⟨a1, a2, a3, a4, a5, a6, _⟩ := read_spec b h n hn
    exact ⟨a1, a2, a3, a4, a5, a6⟩
  · have hn0 : n = 0 := by omega
    subst hn0
    unfold Bufio.read
    simp only [↓reduceIte]
    by_cases hl : b.buf.length > 0
    · simp only [hl, ↓reduceIte]
      exact ⟨h, tr, tr, Nat.le_refl _, by simp, by simp⟩
    · simp only [hl, ↓reduceIte]
      exact ⟨h.clearErr, tr, tr, Nat.le_refl _, by simp [Bufio.rest], by simp⟩

end Bufio

namespace Fd

/-- invariant of the frame decoder: the bufio layer is well formed, its buffer is larger than
    the skip chunk of `Next` (64 KiB vs 4 KiB), and the limited reader's limit IS the frame's
    remaining size (CompressionNone). -/
structure WF (d : Fd) : Prop where
  b : d.b.WF
  big : skipChunk < d.b.size
  lim : d.limit = d.remaining

/-- **frameDecoder_read_passthrough** (bookkeeping part): whatever the underlying read returned -
    bytes, an error, or both at once - `FrameDecoder.Read` returns exactly those bytes, nothing of
    the source is lost (`got ++ rest' = rest`), and `uncompressedSize`, `limit` and `ofs` account
    for exactly the returned bytes. Holds in every state and for every `len(p)`. -/
theorem read_spec (d : Fd) (hb : d.b.WF) (n : Nat) :
    (d.read n).1.b.WF ∧ (d.read n).1.b.size = d.b.size ∧ (d.read n).1.b.src.fail = d.b.src.fail ∧
    (d.read n).1.b.src.sched.length ≤ d.b.src.sched.length ∧
    (d.read n).2.1 ++ (d.read n).1.b.rest = d.b.rest ∧ (d.read n).2.1.length ≤ n ∧
    (d.read n).1.remaining + (d.read n).2.1.length = d.remaining ∧
    (d.read n).1.limit + (d.read n).2.1.length = d.limit ∧
    (d.read n).1.ofs = d.ofs + (d.read n).2.1.length ∧
    (d.read n).1.flags = d.flags ∧ (d.read n).1.overrun = d.overrun ∧
    (d.read n).1.frameLoaded = (if d.remaining = 0 then false else d.frameLoaded) := by
  unfold Fd.read
  by_cases hr : d.remaining = 0
  · simp only [hr, ↓reduceIte]
    exact ⟨hb, tr, tr, Nat.le_refl _, by simp, by simp, by simp [hr], by simp, by simp, tr, tr, tr⟩
  · simp only [hr, ↓reduceIte]
    unfold Fd.lrRead
    by_cases hl : d.limit = 0
    · simp only [hl, ↓reduceIte]
      exact ⟨hb, tr, tr, Nat.le_refl _, by simp, by simp, by simp, by simp [hl], by simp, tr, tr, tr⟩
    · simp only [hl, ↓reduceIte]
      generalize hk : (if d.remaining < n then d.remaining else n) = k
      have hk1 : k ≤ n := by rw [← hk]; split <;> omega
      have hk2 : k ≤ d.remaining := by rw [← hk]; split <;> omega
      generalize hm : (if k > d.limit then d.limit else k) = m
      have hm1 : m ≤ n := by rw [← hm]; split <;> omega
      have hm2 : m ≤ d.remaining := by rw [← hm]; split <;> omega
      have hm3 : m ≤ d.limit := by rw [← hm]; split <;> omega
      obtain ⟨a1, a2, a3, a4, a5, a6⟩ := Bufio.read_basic d.b hb m
      rcases hrd : d.b.read m with ⟨b', got, e⟩
      rw [hrd] at a1 a2 a3 a4 a5 a6
      simp only at a1 a2 a3 a4 a5 a6 ⊢
      exact ⟨a1, a2, a3, a4, a5, by omega, by omega, by omega, tr, tr, tr, tr⟩

/-- **frameDecoder_read_passthrough** (error part): inside a frame (`limit = uncompressedSize > 0`)
    the `(n, err)` pair of `FrameDecoder.Read` is the pair of one bufio `Read`: an error is reported
    only when the source has nothing left, possibly together with the last bytes, and a `0, nil`
    used up an entry of the schedule. -/
theorem read_err (d : Fd) (h : d.WF) (n : Nat) (hn : 0 < n) (hr : 0 < d.remaining) :
    ((d.read n).2.2 = none ∨ ((d.read n).2.2 = some d.b.term ∧ (d.read n).1.b.rest = [])) ∧
    ((d.read n).2.1 = [] → (d.read n).2.2 = none →
      (d.read n).1.b.src.sched.length < d.b.src.sched.length) ∧
    ((d.read n).2.2 ≠ none → (d.read n).2.1 ≠ [] → d.b.size ≤ n) := by
  have hr0 : ¬ d.remaining = 0 := by omega
  have hl0 : ¬ d.limit = 0 := by rw [h.lim]; exact hr0
  unfold Fd.read
  simp only [hr0, ↓reduceIte]
  unfold Fd.lrRead
  simp only [hl0, ↓reduceIte]
  generalize hk : (if d.remaining < n then d.remaining else n) = k
  have hk0 : 0 < k := by rw [← hk]; split <;> omega
  have hk1 : k ≤ n := by rw [← hk]; split <;> omega
  generalize hm : (if k > d.limit then d.limit else k) = m
  have hm0 : 0 < m := by rw [← hm]; split <;> omega
  have hm1 : m ≤ n := by rw [← hm]; split <;> omega
  obtain ⟨_, _, _, _, _, _, a7, a8, a9⟩ := Bufio.read_spec d.b h.b m hm0
  rcases hrd : d.b.read m with ⟨b', got, e⟩
  rw [hrd] at a7 a8 a9
  simp only at a7 a8 a9 ⊢
  exact ⟨a7, a8, fun h1 h2 => Nat.le_trans (a9 h1 h2) hm1⟩

/-- the loop invariant of `io.ReadFull(&frameDecoder, buf)` when `k` more bytes are wanted,
    relative to the state `d₀` the call started in -/
def RFInv (d₀ : Fd) (d : Fd) (k : Nat) : Prop :=
  d.WF ∧ k ≤ d.remaining ∧ d.b.size = d₀.b.size ∧ d.b.src.fail = d₀.b.src.fail ∧
  d.flags = d₀.flags ∧ d.frameLoaded = d₀.frameLoaded ∧ d.overrun = d₀.overrun ∧
  d.remaining + d₀.b.rest.length = d₀.remaining + d.b.rest.length ∧
  d.ofs + d.b.rest.length = d₀.ofs + d₀.b.rest.length

theorem read_stepOK (d₀ : Fd) :
    StepOK Fd.read (RFInv d₀) (fun d => d.b.rest) (fun d => d.b.src.sched.length) d₀.b.term := by
  intro d k hk ⟨hw, hkr, i1, i2, i3, i4, i5, i6, i7⟩
  have hr : 0 < d.remaining := by omega
  obtain ⟨a1, a2, a3, a4, a5, a6, a7, a8, a9, a10, a11, a12⟩ := read_spec d hw.b k
  obtain ⟨e1, e2, _⟩ := read_err d hw k hk hr
  have hlen : d.b.rest.length = (d.read k).2.1.length + (d.read k).1.b.rest.length := by
    rw [← a5]; simp
  have hl := hw.lim
  have hr0 : ¬ d.remaining = 0 := by omega
  simp only [hr0, ↓reduceIte] at a12
  refine ⟨⟨⟨a1, by rw [a2]; exact hw.big, by omega⟩, by omega, by rw [a2, i1], by rw [a3, i2],
    by rw [a10, i3], by rw [a12, i4], by rw [a11, i5], by omega, by omega⟩, a5, a6, a4, e2, ?_⟩
  intro x hx
  rcases e1 with h | ⟨h1, h2⟩
  · rw [h] at hx; cases hx
  · rw [h1] at hx; cases hx
    exact ⟨h2, by simp [Bufio.term, Src.term, i2]⟩

theorem RFInv.init (d : Fd) (h : d.WF) (n : Nat) (hn : n ≤ d.remaining) : RFInv d d n :=
  ⟨h, hn, rfl, rfl, rfl, rfl, rfl, rfl, rfl⟩

/-- **io.ReadFull over the frame decoder** when the frame still holds `n` bytes: the next `n`
    undelivered bytes of the source, or - when the source ends first - the documented short result;
    the same for every contract-abiding schedule; `uncompressedSize` / `ofs` account for the bytes. -/
theorem readFullN_spec (d : Fd) (h : d.WF) (n : Nat) (hn : n ≤ d.remaining) :
    (d.readFullN n).2.1 = d.b.rest.take n ∧
    (d.readFullN n).1.b.rest = d.b.rest.drop n ∧
    (d.readFullN n).2.2 = (if n ≤ d.b.rest.length then none else some (shortErr d.b.rest d.b.term)) ∧
    (d.readFullN n).1.WF ∧ (d.readFullN n).1.b.size = d.b.size ∧
    (d.readFullN n).1.b.src.fail = d.b.src.fail ∧
    (d.readFullN n).1.flags = d.flags ∧ (d.readFullN n).1.frameLoaded = d.frameLoaded ∧
    (d.readFullN n).1.overrun = d.overrun ∧
    (d.readFullN n).1.remaining = d.remaining - (d.readFullN n).2.1.length ∧
    (d.readFullN n).1.ofs = d.ofs + (d.readFullN n).2.1.length ∧
    (d.readFullN n).1.b.src.sched.length ≤ d.b.src.sched.length := by
  have hnot : ¬ d.remaining < n := by omega
  have hdef : d.readFullN n = readFullG Fd.read (n + d.b.src.sched.length + 1) d n := by
    unfold Fd.readFullN; simp only [hnot, ↓reduceIte]
  rw [hdef]
  obtain ⟨h1, h2, h3, ⟨w, _, i1, i2, i3, i4, i5, i6, i7⟩, h5⟩ := readFullG_canon Fd.read (RFInv d)
    (fun x => x.b.rest) (fun x => x.b.src.sched.length) _ (read_stepOK d)
    (n + d.b.src.sched.length + 1) d n (RFInv.init d h n hn) (by omega)
  have hlen : (readFullG Fd.read (n + d.b.src.sched.length + 1) d n).2.1.length
      + (readFullG Fd.read (n + d.b.src.sched.length + 1) d n).1.b.rest.length = d.b.rest.length := by
    rw [h1, h2]; simp; omega
  exact ⟨h1, h2, h3, w, i1, i2, i3, i4, i5, by omega, by omega, h5⟩

end Fd

/-- a potential that every single read pays for bounds what `io.ReadFull` can collect; the loop
    ends without an error only with the full count. -/
theorem readAtLeastLoop_bound {S : Type} (rd : S → Nat → S × Bytes × Option Err) (P : S → Prop)
    (pot : S → Nat)
    (step : ∀ s k, 0 < k → P s → P (rd s k).1 ∧ pot (rd s k).1 + (rd s k).2.1.length ≤ pot s) :
    ∀ (fuel : Nat) (s : S) (N n : Nat) (acc : Bytes), P s →
      P (readAtLeastLoop rd fuel s N N n acc).1 ∧
      pot (readAtLeastLoop rd fuel s N N n acc).1 + (readAtLeastLoop rd fuel s N N n acc).2.1 ≤ pot s + n ∧
      ((readAtLeastLoop rd fuel s N N n acc).2.2.2 = none → N ≤ (readAtLeastLoop rd fuel s N N n acc).2.1) := by
  intro fuel
  induction fuel with
  | zero =>
    intro s N n acc hp
    unfold readAtLeastLoop
    exact ⟨hp, Nat.le_refl _, by intro h; cases h⟩
  | succ fuel ih =>
    intro s N n acc hp
    unfold readAtLeastLoop
    by_cases hlt : n < N
    · simp only [hlt, ↓reduceIte]
      obtain ⟨s1, s2⟩ := step s (N - n) (by omega) hp
      rcases hr : rd s (N - n) with ⟨s', got, e⟩
      rw [hr] at s1 s2
      simp only at s1 s2
      cases e with
      | some x => exact ⟨s1, by simp only; omega, by intro h; cases h⟩
      | none =>
        simp only
        obtain ⟨r1, r2, r3⟩ := ih s' N (n + got.length) (got.reverse ++ acc) s1
        exact ⟨r1, by omega, r3⟩
    · simp only [hlt, ↓reduceIte]
      exact ⟨hp, Nat.le_refl _, fun _ => by omega⟩

theorem readFullG_short {S : Type} (rd : S → Nat → S × Bytes × Option Err) (P : S → Prop)
    (pot : S → Nat)
    (step : ∀ s k, 0 < k → P s → P (rd s k).1 ∧ pot (rd s k).1 + (rd s k).2.1.length ≤ pot s)
    (fuel : Nat) (s : S) (N : Nat) (hp : P s) (hlt : pot s < N) :
    P (readFullG rd fuel s N).1 ∧ (readFullG rd fuel s N).2.2 ≠ none := by
  obtain ⟨r1, r2, r3⟩ := readAtLeastLoop_bound rd P pot step fuel s N 0 [] hp
  unfold readFullG readAtLeast
  simp only [Nat.lt_irrefl, ↓reduceIte]
  rcases hr : readAtLeastLoop rd fuel s N N 0 [] with ⟨s', n, bytes, e⟩
  rw [hr] at r1 r2 r3
  simp only at r1 r2 r3
  have hn : ¬ n ≥ N := by omega
  simp only [hn, ↓reduceIte]
  cases e with
  | none => exact absurd (r3 rfl) (by omega)
  | some x =>
    split
    · exact ⟨r1, by simp⟩
    · exact ⟨r1, by simp⟩

namespace Fd

/-- an `io.ReadFull(&frameDecoder, buf)` that asks for more than the frame has left ends in an
    error under every schedule (which one can depend on the schedule: see `Props/C07IO`). -/
theorem readFullN_overrun (d : Fd) (hb : d.b.WF) (n : Nat) (hn : d.remaining < n) :
    (d.readFullN n).2.2 ≠ none ∧ (d.readFullN n).1.overrun = true := by
  have hdef : d.readFullN n =
      readFullG Fd.read (n + d.b.src.sched.length + 1) { d with overrun := true } n := by
    unfold Fd.readFullN; simp only [hn, ↓reduceIte]
  rw [hdef]
  have := readFullG_short Fd.read (fun x => x.b.WF ∧ x.overrun = true) (fun x => x.remaining)
    (by
      intro x k _ ⟨hw, ho⟩
      obtain ⟨a1, _, _, _, _, _, a7, _, _, _, a11, _⟩ := read_spec x hw k
      exact ⟨⟨a1, by rw [a11]; exact ho⟩, by omega⟩)
    (n + d.b.src.sched.length + 1) { d with overrun := true } n ⟨hb, rfl⟩ hn
  exact ⟨this.2, this.1.2⟩

/-- **FrameDecoder.ReadByte** -/
theorem readByte_spec (d : Fd) (h : d.WF) :
    (d.readByte).1.WF ∧ (d.readByte).1.b.size = d.b.size ∧ (d.readByte).1.b.src.fail = d.b.src.fail ∧
    (d.readByte).1.b.src.sched.length ≤ d.b.src.sched.length ∧
    (d.readByte).1.flags = d.flags ∧ (d.readByte).1.overrun = d.overrun ∧
    (d.readByte).1.frameLoaded = (if d.remaining = 0 then false else d.frameLoaded) ∧
    (d.readByte).1.remaining = d.remaining - 1 ∧
    (d.readByte).1.ofs = (if d.remaining = 0 then d.ofs else d.ofs + 1) ∧
    (d.readByte).1.b.rest = (if d.remaining = 0 then d.b.rest else d.b.rest.tail) ∧
    (d.readByte).2 = (if d.remaining = 0 then .error .endOfFrame
                      else match d.b.rest with | [] => .error d.b.term | c :: _ => .ok c) := by
  unfold Fd.readByte
  by_cases hr : d.remaining = 0
  · simp only [hr, ↓reduceIte]
    exact ⟨⟨h.b, h.big, by simp [h.lim, hr]⟩, tr, tr, Nat.le_refl _, tr, tr, tr, by simp, tr, tr, tr⟩
  · simp only [hr, ↓reduceIte]
    unfold Fd.lrReadByte
    have hl : ¬ d.limit = 0 := by rw [h.lim]; exact hr
    simp only [hl, ↓reduceIte]
    obtain ⟨a1, a2, a3, a4, a5, a6⟩ := Bufio.readByte_spec d.b h.b
    rcases hrb : d.b.readByte with ⟨b', r⟩
    rw [hrb] at a1 a2 a3 a4 a5 a6
    simp only at a1 a2 a3 a4 a5 a6 ⊢
    exact ⟨⟨a1, by simp only [a2]; exact h.big, by simp only [h.lim]⟩, a2, a3, a4, tr, tr, tr, tr, tr, a5, a6⟩

/-- **the skip loop of `Next`**: what is left of the current frame is skipped, whatever the
    schedule; if the source ends first the error is the source's terminal error. (The 4 KiB reads
    never take bufio's large-read bypass, so an error never arrives together with bytes here.) -/
theorem skipLoop_spec : ∀ (fuel : Nat) (d : Fd), d.WF → d.remaining + d.b.src.sched.length < fuel →
    (skipLoop fuel d).1.WF ∧ (skipLoop fuel d).1.b.size = d.b.size ∧
    (skipLoop fuel d).1.b.src.fail = d.b.src.fail ∧
    (skipLoop fuel d).1.flags = d.flags ∧ (skipLoop fuel d).1.frameLoaded = d.frameLoaded ∧
    (skipLoop fuel d).1.overrun = d.overrun ∧
    (skipLoop fuel d).1.b.src.sched.length ≤ d.b.src.sched.length ∧
    (skipLoop fuel d).1.b.rest = d.b.rest.drop d.remaining ∧
    (skipLoop fuel d).1.remaining = d.remaining - d.b.rest.length ∧
    (skipLoop fuel d).1.ofs = d.ofs + min d.remaining d.b.rest.length ∧
    (skipLoop fuel d).2 = (if d.remaining ≤ d.b.rest.length then none else some d.b.term) := by
  intro fuel
  induction fuel with
  | zero => intro d _ hf; omega
  | succ fuel ih =>
    intro d h hf
    unfold skipLoop
    by_cases hr : d.remaining > 0
    · simp only [hr, ↓reduceIte]
      generalize hm : (if d.remaining > skipChunk then skipChunk else d.remaining) = m
      have hm0 : 0 < m := by rw [← hm]; unfold skipChunk; split <;> omega
      have hm1 : m ≤ d.remaining := by rw [← hm]; split <;> omega
      have hm2 : m ≤ skipChunk := by rw [← hm]; split <;> omega
      have hbig := h.big
      have hlim := h.lim
      unfold Fd.lrRead
      have hl : ¬ d.limit = 0 := by omega
      have hml : ¬ m > d.limit := by omega
      simp only [hl, hml, ↓reduceIte]
      obtain ⟨a1, a2, a3, a4, a5, a6, a7, a8, a9⟩ := Bufio.read_spec d.b h.b m hm0
      rcases hrd : d.b.read m with ⟨b', got, e⟩
      rw [hrd] at a1 a2 a3 a4 a5 a6 a7 a8 a9
      simp only at a1 a2 a3 a4 a5 a6 a7 a8 a9 ⊢
      have hlen : d.b.rest.length = got.length + b'.rest.length := by rw [← a5]; simp
      cases e with
      | some x =>
        have hg : got = [] := by
          by_cases hg : got = []
          · exact hg
          · have := a9 (by simp) hg; omega
        subst hg
        rcases a7 with h7 | ⟨h7, h8⟩
        · cases h7
        · cases h7
          simp only [List.nil_append] at a5
          rw [← a5, h8]
          simp only [List.length_nil, Nat.sub_zero, List.drop_nil, Nat.min_zero, Nat.add_zero]
          refine ⟨⟨a1, by simp only [a2]; exact hbig, by simp only [hlim]⟩, a2, a3, tr, tr, tr, a4, tr, tr, tr, ?_⟩
          have : ¬ d.remaining ≤ 0 := by omega
          simp [this]
      | none =>
        simp only
        have hw2 : ({ b := b', remaining := d.remaining - got.length, limit := d.limit - got.length,
                      ofs := d.ofs + got.length, flags := d.flags, frameLoaded := d.frameLoaded,
                      overrun := d.overrun } : Fd).WF :=
          ⟨a1, by simp only [a2]; exact hbig, by simp only [hlim]⟩
        have hf2 : (d.remaining - got.length) + b'.src.sched.length < fuel := by
          by_cases hg : got = []
          · have := a8 hg rfl; subst hg; simp; omega
          · have : 0 < got.length := List.length_pos_iff.mpr hg
            omega
        obtain ⟨r1, r2, r3, r4, r5, r6, r7, r8, r9, r10, r11⟩ := ih _ hw2 hf2
        simp only at r1 r2 r3 r4 r5 r6 r7 r8 r9 r10 r11
        obtain ⟨_, hdrop⟩ := append_take_drop a5 (rfl : got.length = got.length)
        refine ⟨r1, by rw [r2, a2], by rw [r3, a3], r4, r5, r6, Nat.le_trans r7 a4, ?_, by omega, ?_, ?_⟩
        · rw [r8, hdrop, List.drop_drop]
          congr 1; omega
        · rw [r10]; simp only [Nat.min_def]; split <;> split <;> omega
        · rw [r11]
          have ht : b'.term = d.b.term := by simp [Bufio.term, Src.term, a3]
          rw [ht]
          by_cases hc : d.remaining ≤ d.b.rest.length
          · have : d.remaining - got.length ≤ b'.rest.length := by omega
            simp [hc, this]
          · have : ¬ d.remaining - got.length ≤ b'.rest.length := by omega
            simp [hc, this]
    · simp only [hr, ↓reduceIte]
      have h0 : d.remaining = 0 := by omega
      refine ⟨h, tr, tr, tr, tr, tr, Nat.le_refl _, by simp [h0], by simp [h0], by simp [h0], by simp [h0]⟩

end Fd

end Stef.ReaderIO
