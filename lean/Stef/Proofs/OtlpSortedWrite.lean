/-
  The sorting OTLP -> STEF converter on a clean, 64-bit typed batch: every data point is filed in the
  tree as an entry whose record - whatever the re-used record held - reads back as that data point
  with all attribute lists in key order. The per-record facts are those of the unsorted writer
  (Stef/Proofs/OtlpMetricsWrite.lean): the record `ToStef` writes for an entry has the same logical
  content as the record the unsorted writer produces for the key-sorted data point.
-/
import Stef.Proofs.OtlpSortedTree

namespace Stef.Otlp

/-! ### a record's reading depends only on its logical content -/

theorem toOtlp_congr {a a' : SAttrs} (h : a.visible = a'.visible) : a.toOtlp = a'.toOtlp := by
  simp [SAttrs.toOtlp, h]

theorem pointToOtlp_congr (t : MType) (m : SMetric) (a a' : SAttrs) (p p' : SPoint)
    (ha : a.visible = a'.visible) (hs : p.start = p'.start) (hts : p.ts = p'.ts) (hv : p.value = p'.value)
    (he : exemplarsToOtlp p.exemplars = exemplarsToOtlp p'.exemplars) :
    pointToOtlp t m a p = pointToOtlp t m a' p' := by
  simp only [pointToOtlp, toOtlp_congr ha, hs, hts, hv, he]

theorem pointOfRecord_congr (r r' : SRecord) (hm : r.metric = r'.metric) (hr : r.resource = r'.resource)
    (hsc : r.scope = r'.scope) (ha : r.attrs.visible = r'.attrs.visible) (hs : r.point.start = r'.point.start)
    (hts : r.point.ts = r'.point.ts) (hv : r.point.value = r'.point.value)
    (he : exemplarsToOtlp r.point.exemplars = exemplarsToOtlp r'.point.exemplars) :
    pointOfRecord r = pointOfRecord r' := by
  simp only [pointOfRecord, hm, hr, hsc]
  split
  · rfl
  · rename_i m _
    rw [pointToOtlp_congr m.type r'.metric r.attrs r'.attrs r.point r'.point ha hs hts hv he]

/-! ### Point.CopyFrom copies the logical content -/

theorem copyPointValue_eq (s d : SPValue) : copyPointValue s d = s := by
  cases s with
  | none => rfl
  | int v => rfl
  | dbl v => cases d <;> simp [copyPointValue, setF_eq]
  | hist h => cases h; simp [copyPointValue, copyOptF, setOptF_eq]
  | exp e => cases e; simp [copyPointValue, copyOptF, setOptF_eq, setF_eq]
  | summary q => cases q; simp [copyPointValue, setF_eq, setQuantiles_eq]

theorem exemplarToOtlp_copy (e d : SExemplar) : exemplarToOtlp (copyExemplarInto e d) = exemplarToOtlp e := by
  have hv : (copyExemplarInto e d).value = e.value := by
    cases h1 : e.value <;> cases h2 : d.value <;> simp [copyExemplarInto, h1, h2, setF_eq]
  have ha : (copyExemplarInto e d).attrs.toOtlp = e.attrs.toOtlp :=
    toOtlp_congr (copyFrom_spec _ _)
  have h1 : (copyExemplarInto e d).traceID = e.traceID := rfl
  have h2 : (copyExemplarInto e d).spanID = e.spanID := rfl
  have h3 : (copyExemplarInto e d).ts = e.ts := rfl
  simp only [exemplarToOtlp, hv, ha, h1, h2, h3]

theorem exemplarsToOtlp_copy : ∀ (es st : List SExemplar),
    exemplarsToOtlp ((copyExemplarsLoop es st).take es.length) = exemplarsToOtlp es
  | [], st => by simp [exemplarsToOtlp]
  | e :: es, d :: ds => by
    simp only [copyExemplarsLoop, List.length_cons, List.take_succ_cons, exemplarsToOtlp, exemplarToOtlp_copy,
      exemplarsToOtlp_copy es ds]
  | e :: es, [] => by
    simp only [copyExemplarsLoop, List.length_cons, List.take_succ_cons, exemplarsToOtlp, exemplarToOtlp_copy,
      exemplarsToOtlp_copy es []]

/-- the exemplar array of the point is backed by at least `exLen` elements -/
def SPoint.wf (p : SPoint) : Prop := p.exLen ≤ p.exStore.length

theorem copyPointInto_exemplars (src dst : SPoint) (hwf : src.wf) :
    exemplarsToOtlp (copyPointInto src dst).exemplars = exemplarsToOtlp src.exemplars := by
  have hl : src.exemplars.length = src.exLen := by
    simp only [SPoint.exemplars, List.length_take]
    exact Nat.min_eq_left hwf
  have := exemplarsToOtlp_copy src.exemplars (exEnsureLen dst.exStore dst.exLen src.exLen)
  rw [hl] at this
  exact this

/-- the record written for an entry reads like the entry's point in any record with the same
    metric, resource, scope and visible attributes -/
theorem recOf_congr (e : Entry) (oa : SAttrs) (op : SPoint) (r : SRecord) (hwf : e.2.2.2.2.wf)
    (hm : r.metric = e.1.toS) (hr : r.resource = e.2.1.toS) (hsc : r.scope = e.2.2.1.toS)
    (ha : r.attrs.visible = e.2.2.2.1) (hp : r.point = e.2.2.2.2) :
    pointOfRecord (recOf e oa op) = pointOfRecord r := by
  apply pointOfRecord_congr
  · exact hm.symm
  · exact hr.symm
  · exact hsc.symm
  · rw [ha]; exact copyFrom_spec _ _
  · rw [hp]; rfl
  · rw [hp]; rfl
  · rw [hp]; exact copyPointValue_eq _ _
  · rw [hp]; exact copyPointInto_exemplars _ _ hwf

/-! ### the key-sorted view of the source -/

def Point.sortA (p : Point) : Point := { p with attrs := p.attrs.sortByKey }
def Metric.sortA (m : Metric) : Metric := { m with mdata := m.mdata.sortByKey }
def sortedRid (r : ResourceMetrics) : ResId := { url := r.url, dropped := r.dropped, attrs := r.attrs.sortByKey }
def sortedSid (s : ScopeMetrics) : ScopeId :=
  { name := s.name, ver := s.ver, url := s.url, dropped := s.dropped, attrs := s.attrs.sortByKey }

/-- a data point as the sorting converter's records give it back: every attribute list (resource,
    scope, metric metadata, data point, exemplar filtered attributes) in key order - the converter
    goes through MapSorted everywhere - and nothing else changed -/
def DataPoint.sortAttrs (d : DataPoint) : DataPoint :=
  { d with res := { d.res with attrs := d.res.attrs.sortByKey },
           scope := { d.scope with attrs := d.scope.attrs.sortByKey },
           metric := { d.metric with mdata := d.metric.mdata.sortByKey },
           attrs := d.attrs.sortByKey,
           exemplars := d.exemplars.map DExemplar.sortAttrs }

theorem dataPoint_sorted (r : ResourceMetrics) (s : ScopeMetrics) (m : Metric) (p : Point) :
    (dataPoint (sortedRid r) (sortedSid s) m.sortA p.sortA).sortExAttrs = (dataPoint (resId r) (scopeId s) m p).sortAttrs := by
  simp only [dataPoint, DataPoint.sortExAttrs, DataPoint.sortAttrs, sortedRid, sortedSid, resId, scopeId, metricId,
    Metric.sortA, Point.sortA]
  rfl

theorem sortA_base {p : Point} (h : p.base = true) : p.sortA.base = true := by
  simp only [Point.base, Bool.and_eq_true] at h ⊢
  exact ⟨KVs.sortByKey_clean _ h.1, h.2⟩

theorem sortA_cleanNum {p : Point} (h : p.cleanNum = true) : p.sortA.cleanNum = true := by
  simp only [Point.cleanNum, Bool.and_eq_true] at h ⊢
  exact ⟨⟨sortA_base h.1.1, h.1.2⟩, h.2⟩

theorem sortA_cleanHist {p : Point} (h : p.cleanHist = true) : p.sortA.cleanHist = true := by
  simp only [Point.cleanHist, Bool.and_eq_true] at h ⊢
  exact ⟨⟨sortA_base h.1.1, h.1.2⟩, h.2⟩

theorem sortA_cleanExp {p : Point} (h : p.cleanExp = true) : p.sortA.cleanExp = true := by
  simp only [Point.cleanExp, Bool.and_eq_true] at h ⊢
  exact ⟨⟨⟨⟨sortA_base h.1.1.1.1, h.1.1.1.2⟩, h.1.1.2⟩, h.1.2⟩, h.2⟩

theorem sortA_cleanSummary {p : Point} (h : p.cleanSummary = true) : p.sortA.cleanSummary = true :=
  sortA_base h

/-! ### sorting keeps the typing -/

theorem KVs.insertByKey_b64 : ∀ (l : KVs) (k : Str) (v : AnyValue),
    (KVs.insertByKey k v l).b64 = (v.b64 && l.b64)
  | .nil, k, v => by simp [KVs.insertByKey, KVs.b64]
  | .cons k' v' t, k, v => by
    simp only [KVs.insertByKey]
    split
    · simp [KVs.b64]
    · simp only [KVs.b64, KVs.insertByKey_b64 t k v]
      cases v.b64 <;> cases v'.b64 <;> cases t.b64 <;> rfl

theorem KVs.sortAux_b64 : ∀ (l acc : KVs), (KVs.sortAux l acc).b64 = (l.b64 && acc.b64)
  | .nil, acc => by simp [KVs.sortAux, KVs.b64]
  | .cons k v t, acc => by
    simp only [KVs.sortAux, KVs.sortAux_b64 t, KVs.insertByKey_b64, KVs.b64]
    cases v.b64 <;> cases t.b64 <;> cases acc.b64 <;> rfl

theorem KVs.sortByKey_b64 (l : KVs) : l.sortByKey.b64 = l.b64 := by
  simp [KVs.sortByKey, KVs.sortAux_b64, KVs.b64]

/-! ### the tree keys show the key-sorted resource, scope and metric -/

theorem keyAttrs_visible (a : KVs) : (SAttrs.copyFrom (SAttrs.mapSorted a {}).visible {}).visible = a.sortByKey := by
  rw [copyFrom_spec, mapSorted_spec]

theorem keyAttrs_toOtlp (a : KVs) (hc : a.clean = true) :
    (SAttrs.copyFrom (SAttrs.mapSorted a {}).visible {}).toOtlp = a.sortByKey :=
  toOtlp_of_visible _ _ (keyAttrs_visible a) (KVs.sortByKey_clean a hc)

theorem sortedResKey_id (r : ResourceMetrics) (hc : r.attrs.clean = true) : (sortedResKey r).toS.id = sortedRid r := by
  simp [sortedResKey, ResKey.toS, SResource.id, sortedRid, keyAttrs_toOtlp r.attrs hc]

theorem sortedScopeKey_id (s : ScopeMetrics) (hc : s.attrs.clean = true) : (sortedScopeKey s).toS.id = sortedSid s := by
  simp [sortedScopeKey, ScopeKey.toS, SScope.id, sortedSid, keyAttrs_toOtlp s.attrs hc]

theorem sortedResKey_b64 (r : ResourceMetrics) (h : r.attrs.b64 = true) : (sortedResKey r).b64 := by
  simp [ResKey.b64, sortedResKey, mapSorted_spec, KVs.sortByKey_b64, h]

theorem sortedScopeKey_b64 (s : ScopeMetrics) (h : s.attrs.b64 = true) : (sortedScopeKey s).b64 := by
  simp [ScopeKey.b64, sortedScopeKey, mapSorted_spec, KVs.sortByKey_b64, h]

theorem sortedMetricKey_b64 (m : Metric) (type temp : Nat) (mono : Bool) (bounds : List Nat) (h : m.mdata.b64 = true)
    (hb : ∀ x ∈ bounds, x < two64) : (sortedMetricKey m type temp mono bounds).b64 := by
  refine ⟨?_, hb⟩
  simp [sortedMetricKey, mapSorted_spec, KVs.sortByKey_b64, h]

/-- the record of a tree entry under the keys of resource `r`, scope `s` and metric `m` shows the
    key-sorted resource, scope and metric -/
theorem sortedKey_shows (r : ResourceMetrics) (s : ScopeMetrics) (m : Metric) (temp : Nat) (mono : Bool) (bounds : List Nat)
    (a : SAttrs) (pt : SPoint) (hr : r.attrs.clean = true) (hs : s.attrs.clean = true) (hmd : m.mdata.clean = true)
    (htemp : temp ≤ 2)
    (hid : (match m.type with | .sum | .hist | .exp => temp | _ => 0) = (match m.type with | .sum | .hist | .exp => m.temp | _ => 0))
    (hmono : (match m.type with | .sum => mono | _ => false) = (match m.type with | .sum => m.mono | _ => false)) :
    Shows { metric := (sortedMetricKey m m.type.toNat temp mono bounds).toS, resource := (sortedResKey r).toS,
            scope := (sortedScopeKey s).toS, attrs := a, point := pt } (sortedRid r) (sortedSid s) m.sortA := by
  refine ⟨sortedResKey_id r hr, sortedScopeKey_id s hs, ?_⟩
  have hmda := keyAttrs_toOtlp m.mdata hmd
  have hagg : aggTempToOtlp temp = .ok temp := by simp [aggTempToOtlp, htemp]
  cases hmt : m.type <;>
    simp only [hmt] at hid hmono <;>
    refine ⟨_, by simp [metricToOtlp, MetricKey.toS, sortedMetricKey, hmt, MType.toNat, MType.ofNat?, hagg]; rfl, ?_, ?_⟩ <;>
    simp [metricId, Metric.sortA, hmt, hmda, hid, hmono]

/-! ### entries and what their records read as -/

/-- whatever the re-used record held, the record written for the entry reads as data point `d` -/
def GoodE (e : Entry) (d : DataPoint) : Prop :=
  e.2.2.2.2.wf ∧ ∀ oa op, pointOfRecord (recOf e oa op) = .ok d

theorem GoodE.stable {e : Entry} {d : DataPoint} (h : GoodE e d) : Stable e ∧ entryPoint e = .ok d :=
  ⟨fun oa op => by rw [h.2 oa op, entryPoint, h.2], h.2 {} {}⟩

theorem exsInto_length : ∀ (es : List Exemplar) (tmp : SAttrs) (st : List SExemplar),
    es.length ≤ (exsInto es tmp st).2.length
  | [], _, _ => by simp
  | e :: es, tmp, d :: ds => by
    simp only [exsInto, List.length_cons]
    exact Nat.succ_le_succ (exsInto_length es _ ds)
  | e :: es, tmp, [] => by
    simp only [exsInto, List.length_cons]
    exact Nat.succ_le_succ (exsInto_length es _ [])

theorem pointWithEx_wf (es : List Exemplar) (tmp : SAttrs) (p : SPoint) : (pointWithEx es tmp p).wf :=
  exsInto_length es tmp _

/-- the fresh record whose metric, resource and scope are the tree keys' structs -/
def keyState (mk : MetricKey) (rk : ResKey) (sk : ScopeKey) (tmp : SAttrs) : WState :=
  { cur := { metric := mk.toS, resource := rk.toS, scope := sk.toS, attrs := {}, point := {} }, tmp := tmp }

/-- the number point filed in the tree -/
def numPt (p : Point) (tmp : SAttrs) : SPoint :=
  { pointWithEx p.exemplars tmp { ts := p.ts, start := p.start } with
    ts := p.ts, start := p.start, value := numValueInto p .none }

theorem numEntry_good (p : Point) (tmp : SAttrs) (mk : MetricKey) (rk : ResKey) (sk : ScopeKey)
    (rid : ResId) (sid : ScopeId) (m : Metric) (ht : m.type = .gauge ∨ m.type = .sum) (hc : p.cleanNum = true)
    (hshow : ∀ a pt, Shows { metric := mk.toS, resource := rk.toS, scope := sk.toS, attrs := a, point := pt } rid sid m) :
    GoodE (mk, rk, sk, p.attrs.sortByKey, numPt p tmp) (dataPoint rid sid m p.sortA).sortExAttrs := by
  refine ⟨pointWithEx_wf _ _ _, ?_⟩
  intro oa op
  have h := numRecord_spec p.sortA (keyState mk rk sk tmp) rid sid m ht (sortA_cleanNum hc) (hshow _ _)
  rw [← h]
  refine recOf_congr _ oa op _ (pointWithEx_wf _ _ _) rfl rfl rfl ?_ rfl
  exact mapUnsorted_spec _ _

/-- the histogram point filed in the tree -/
def histPt (p : Point) (tmp : SAttrs) : SPoint :=
  { pointWithEx p.exemplars tmp {} with ts := p.ts, start := p.start, value := histValueInto p .none }

theorem histEntry_good (p : Point) (tmp : SAttrs) (mk : MetricKey) (rk : ResKey) (sk : ScopeKey)
    (rid : ResId) (sid : ScopeId) (m : Metric) (ht : m.type = .hist) (hc : p.cleanHist = true) (hb : mk.bounds = p.bounds)
    (hshow : ∀ a pt, Shows { metric := mk.toS, resource := rk.toS, scope := sk.toS, attrs := a, point := pt } rid sid m) :
    GoodE (mk, rk, sk, p.attrs.sortByKey, histPt p tmp) (dataPoint rid sid m p.sortA).sortExAttrs := by
  refine ⟨pointWithEx_wf _ _ _, ?_⟩
  intro oa op
  have h := (histRecord_spec p.sortA (keyState mk rk sk tmp) rid sid m ht (sortA_cleanHist hc) (hshow _ _)).1
  rw [← h]
  refine recOf_congr _ oa op _ (pointWithEx_wf _ _ _) ?_ rfl rfl ?_ rfl
  · simp only [histRecord, keyState, Point.sortA, setFSlice_eq]
    simp [MetricKey.toS, hb]
  · exact mapUnsorted_spec _ _

/-- the exponential histogram point filed in the tree -/
def expPt (p : Point) (tmp : SAttrs) : SPoint :=
  { pointWithEx p.exemplars tmp {} with ts := p.ts, start := p.start, value := expValueInto p .none }

theorem expEntry_good (p : Point) (tmp : SAttrs) (mk : MetricKey) (rk : ResKey) (sk : ScopeKey)
    (rid : ResId) (sid : ScopeId) (m : Metric) (ht : m.type = .exp) (hc : p.cleanExp = true)
    (hshow : ∀ a pt, Shows { metric := mk.toS, resource := rk.toS, scope := sk.toS, attrs := a, point := pt } rid sid m) :
    GoodE (mk, rk, sk, p.attrs.sortByKey, expPt p tmp) (dataPoint rid sid m p.sortA).sortExAttrs := by
  refine ⟨pointWithEx_wf _ _ _, ?_⟩
  intro oa op
  have h := expRecord_spec p.sortA (keyState mk rk sk tmp) rid sid m ht (sortA_cleanExp hc) (hshow _ _)
  rw [← h]
  refine recOf_congr _ oa op _ (pointWithEx_wf _ _ _) rfl rfl rfl ?_ rfl
  exact mapUnsorted_spec _ _

theorem summaryEntry_good (p : Point) (mk : MetricKey) (rk : ResKey) (sk : ScopeKey)
    (rid : ResId) (sid : ScopeId) (m : Metric) (ht : m.type = .summary) (hc : p.cleanSummary = true)
    (hshow : ∀ a pt, Shows { metric := mk.toS, resource := rk.toS, scope := sk.toS, attrs := a, point := pt } rid sid m) :
    GoodE (mk, rk, sk, p.attrs.sortByKey, convSummary p {}) (dataPoint rid sid m p.sortA).sortExAttrs := by
  refine ⟨by simp [SPoint.wf, convSummary_eq], ?_⟩
  intro oa op
  have h := summaryRecord_spec p.sortA (keyState mk rk sk {}) rid sid m ht (sortA_cleanSummary hc) (hshow _ _)
  rw [← h]
  refine recOf_congr _ oa op _ ?_ rfl rfl rfl ?_ rfl
  · simp [SPoint.wf, convSummary_eq]
  · exact mapUnsorted_spec _ _

/-! ### what the tree gains -/

/-- `st'` holds what `st` held plus entries whose records read as the data points `ds` (listed in
    this order); all its keys are 64-bit typed -/
def Adds (st st' : SortState) (ds : List DataPoint) : Prop :=
  TreeOK st'.tree ∧ ∃ es : List (Entry × DataPoint),
    (flatTree st'.tree).Perm (es.map Prod.fst ++ flatTree st.tree) ∧ (∀ x ∈ es, GoodE x.1 x.2) ∧ es.map Prod.snd = ds

theorem Adds.refl {st : SortState} (h : TreeOK st.tree) : Adds st st [] :=
  ⟨h, [], by simp, by simp, rfl⟩

theorem Adds.trans {a b c : SortState} {d1 d2 : List DataPoint} (h1 : Adds a b d1) (h2 : Adds b c d2) :
    Adds a c (d1 ++ d2) := by
  obtain ⟨_, e1, p1, g1, m1⟩ := h1
  obtain ⟨ok, e2, p2, g2, m2⟩ := h2
  refine ⟨ok, e1 ++ e2, ?_, ?_, by simp [m1, m2]⟩
  · refine (p2.trans (p1.append_left _)).trans ?_
    simp only [List.map_append, List.append_assoc]
    exact List.perm_append_comm_assoc _ _ _
  · intro x hx
    rcases List.mem_append.mp hx with h | h
    · exact g1 x h
    · exact g2 x h

theorem Adds.one {st : SortState} (tmp' : SAttrs) (e : Entry) (d : DataPoint) (hok : TreeOK st.tree)
    (hmk : e.1.b64) (hrk : e.2.1.b64) (hsk : e.2.2.1.b64) (hak : e.2.2.2.1.b64 = true) (hg : GoodE e d) :
    Adds st { tmp := tmp', tree := treeAdd e.1 e.2.1 e.2.2.1 e.2.2.2.1 e.2.2.2.2 st.tree } [d] := by
  have h := treeAdd_flat e.1 e.2.1 e.2.2.1 e.2.2.2.1 e.2.2.2.2 st.tree hmk hrk hsk hak hok
  exact ⟨h.1, [(e, d)], by simpa using h.2, by simpa using hg, rfl⟩

abbrev ShowsKeys (mk : MetricKey) (rk : ResKey) (sk : ScopeKey) (rid : ResId) (sid : ScopeId) (m : Metric) : Prop :=
  ∀ a pt, Shows { metric := mk.toS, resource := rk.toS, scope := sk.toS, attrs := a, point := pt } rid sid m

/-! ### the four kinds of data points -/

theorem sortNumbers_spec (m : Metric) (mk : MetricKey) (rk : ResKey) (sk : ScopeKey) (rid : ResId) (sid : ScopeId)
    (m' : Metric) (ht : m'.type = .gauge ∨ m'.type = .sum) (hmk : mk.b64) (hrk : rk.b64) (hsk : sk.b64)
    (hshow : ShowsKeys mk rk sk rid sid m') :
    ∀ (ps : List Point) (st : SortState), (∀ p ∈ ps, p.cleanNum = true ∧ p.b64 = true) → TreeOK st.tree →
      ∃ st', sortNumbers m mk rk sk ps st = .ok st' ∧
        Adds st st' (ps.map fun p => (dataPoint rid sid m' p.sortA).sortExAttrs)
  | [], st, _, hok => ⟨st, rfl, Adds.refl hok⟩
  | p :: ps, st, hc, hok => by
    obtain ⟨hcp, hbp⟩ := hc p (by simp)
    simp only [Point.b64, Bool.and_eq_true] at hbp
    have hv := cleanNum_vt hcp
    let tmp1 := SAttrs.mapSorted p.attrs st.tmp
    have hstep : sortNumbers m mk rk sk (p :: ps) st = sortNumbers m mk rk sk ps
        { tmp := tmpAfterEx p.exemplars tmp1 { ts := p.ts, start := p.start },
          tree := treeAdd mk rk sk p.attrs.sortByKey (numPt p tmp1) st.tree } := by
      simp only [sortNumbers, convExemplars_eq _ _ _ hv.2, convNumber_eq _ _ hv.1, mapSorted_spec, numPt, tmp1]
      rfl
    have h1 := Adds.one (st := st) (tmpAfterEx p.exemplars tmp1 { ts := p.ts, start := p.start })
      (mk, rk, sk, p.attrs.sortByKey, numPt p tmp1) _ hok hmk hrk hsk (by rw [KVs.sortByKey_b64]; exact hbp.1)
      (numEntry_good p tmp1 mk rk sk rid sid m' ht hcp hshow)
    obtain ⟨st', h2, h3⟩ := sortNumbers_spec m mk rk sk rid sid m' ht hmk hrk hsk hshow ps _
      (fun q hq => hc q (by simp [hq])) h1.1
    exact ⟨st', by rw [hstep]; exact h2, by simpa using Adds.trans h1 h3⟩

theorem sortHistograms_spec (m : Metric) (rk : ResKey) (sk : ScopeKey) (rid : ResId) (sid : ScopeId)
    (m' : Metric) (ht : m'.type = .hist) (hmd : m.mdata.b64 = true) (hrk : rk.b64) (hsk : sk.b64)
    (hshow : ∀ bounds, ShowsKeys (sortedMetricKey m 2 m.temp false bounds) rk sk rid sid m') :
    ∀ (ps : List Point) (st : SortState), (∀ p ∈ ps, p.cleanHist = true ∧ p.b64 = true) → TreeOK st.tree →
      ∃ st', sortHistograms m rk sk ps st = .ok st' ∧
        Adds st st' (ps.map fun p => (dataPoint rid sid m' p.sortA).sortExAttrs)
  | [], st, _, hok => ⟨st, rfl, Adds.refl hok⟩
  | p :: ps, st, hc, hok => by
    obtain ⟨hcp, hbp⟩ := hc p (by simp)
    simp only [Point.b64, Bool.and_eq_true, List.all_eq_true, decide_eq_true_eq] at hbp
    have hv := cleanHist_ok hcp
    let tmp1 := SAttrs.mapSorted p.attrs (SAttrs.mapSorted p.attrs st.tmp)
    let mk := sortedMetricKey m 2 m.temp false p.bounds
    have hstep : sortHistograms m rk sk (p :: ps) st = sortHistograms m rk sk ps
        { tmp := tmpAfterEx p.exemplars tmp1 {},
          tree := treeAdd mk rk sk p.attrs.sortByKey (histPt p tmp1) st.tree } := by
      simp only [sortHistograms, convExemplars_eq _ _ _ hv.2, convHistogram_eq _ _ hv.1, mapSorted_spec, histPt, tmp1, mk]
      rfl
    have h1 := Adds.one (st := st) (tmpAfterEx p.exemplars tmp1 {})
      (mk, rk, sk, p.attrs.sortByKey, histPt p tmp1) _ hok (sortedMetricKey_b64 m _ _ _ _ hmd hbp.2) hrk hsk
      (by rw [KVs.sortByKey_b64]; exact hbp.1)
      (histEntry_good p tmp1 mk rk sk rid sid m' ht hcp rfl (hshow p.bounds))
    obtain ⟨st', h2, h3⟩ := sortHistograms_spec m rk sk rid sid m' ht hmd hrk hsk hshow ps _
      (fun q hq => hc q (by simp [hq])) h1.1
    exact ⟨st', by rw [hstep]; exact h2, by simpa using Adds.trans h1 h3⟩

theorem sortExpHistograms_spec (m : Metric) (rk : ResKey) (sk : ScopeKey) (rid : ResId) (sid : ScopeId)
    (m' : Metric) (ht : m'.type = .exp) (hmk : (sortedMetricKey m 3 m.temp false []).b64) (hrk : rk.b64) (hsk : sk.b64)
    (hshow : ShowsKeys (sortedMetricKey m 3 m.temp false []) rk sk rid sid m') :
    ∀ (ps : List Point) (st : SortState), (∀ p ∈ ps, p.cleanExp = true ∧ p.b64 = true) → TreeOK st.tree →
      ∃ st', sortExpHistograms m rk sk ps st = .ok st' ∧
        Adds st st' (ps.map fun p => (dataPoint rid sid m' p.sortA).sortExAttrs)
  | [], st, _, hok => ⟨st, rfl, Adds.refl hok⟩
  | p :: ps, st, hc, hok => by
    obtain ⟨hcp, hbp⟩ := hc p (by simp)
    simp only [Point.b64, Bool.and_eq_true] at hbp
    have hv := cleanExp_ok hcp
    let tmp1 := SAttrs.mapSorted p.attrs (SAttrs.mapSorted p.attrs st.tmp)
    let mk := sortedMetricKey m 3 m.temp false []
    have hstep : sortExpHistograms m rk sk (p :: ps) st = sortExpHistograms m rk sk ps
        { tmp := tmpAfterEx p.exemplars tmp1 {},
          tree := treeAdd mk rk sk p.attrs.sortByKey (expPt p tmp1) st.tree } := by
      simp only [sortExpHistograms, convExemplars_eq _ _ _ hv, convExpHistogram_eq, mapSorted_spec, expPt, tmp1, mk]
      rfl
    have h1 := Adds.one (st := st) (tmpAfterEx p.exemplars tmp1 {})
      (mk, rk, sk, p.attrs.sortByKey, expPt p tmp1) _ hok hmk hrk hsk
      (by rw [KVs.sortByKey_b64]; exact hbp.1)
      (expEntry_good p tmp1 mk rk sk rid sid m' ht hcp hshow)
    obtain ⟨st', h2, h3⟩ := sortExpHistograms_spec m rk sk rid sid m' ht hmk hrk hsk hshow ps _
      (fun q hq => hc q (by simp [hq])) h1.1
    exact ⟨st', by rw [hstep]; exact h2, by simpa using Adds.trans h1 h3⟩

theorem sortSummaries_spec (m : Metric) (rk : ResKey) (sk : ScopeKey) (rid : ResId) (sid : ScopeId)
    (m' : Metric) (ht : m'.type = .summary) (hmk : (sortedMetricKey m 4 0 false []).b64) (hrk : rk.b64) (hsk : sk.b64)
    (hshow : ShowsKeys (sortedMetricKey m 4 0 false []) rk sk rid sid m') :
    ∀ (ps : List Point) (st : SortState), (∀ p ∈ ps, p.cleanSummary = true ∧ p.b64 = true) → TreeOK st.tree →
      ∃ st', sortSummaries m rk sk ps st = .ok st' ∧
        Adds st st' (ps.map fun p => (dataPoint rid sid m' p.sortA).sortExAttrs)
  | [], st, _, hok => ⟨st, rfl, Adds.refl hok⟩
  | p :: ps, st, hc, hok => by
    obtain ⟨hcp, hbp⟩ := hc p (by simp)
    simp only [Point.b64, Bool.and_eq_true] at hbp
    let mk := sortedMetricKey m 4 0 false []
    have hstep : sortSummaries m rk sk (p :: ps) st = sortSummaries m rk sk ps
        { tmp := SAttrs.mapSorted p.attrs st.tmp,
          tree := treeAdd mk rk sk p.attrs.sortByKey (convSummary p {}) st.tree } := by
      simp only [sortSummaries, mapSorted_spec, mk]
    have h1 := Adds.one (st := st) (SAttrs.mapSorted p.attrs st.tmp)
      (mk, rk, sk, p.attrs.sortByKey, convSummary p {}) _ hok hmk hrk hsk
      (by rw [KVs.sortByKey_b64]; exact hbp.1)
      (summaryEntry_good p mk rk sk rid sid m' ht hcp hshow)
    obtain ⟨st', h2, h3⟩ := sortSummaries_spec m rk sk rid sid m' ht hmk hrk hsk hshow ps _
      (fun q hq => hc q (by simp [hq])) h1.1
    exact ⟨st', by rw [hstep]; exact h2, by simpa using Adds.trans h1 h3⟩

/-! ### metrics, scopes, resources -/

theorem okSorted_metric (r : ResourceMetrics) (s : ScopeMetrics) (m : Metric) :
    (m.points.map fun p => (dataPoint (sortedRid r) (sortedSid s) m.sortA p.sortA).sortExAttrs)
      = (flattenMetric (resId r) (scopeId s) m).map DataPoint.sortAttrs := by
  simp [flattenMetric, dataPoint_sorted]

theorem sortMetric_spec (r : ResourceMetrics) (s : ScopeMetrics) (m : Metric) (st : SortState)
    (hr : r.attrs.clean = true) (hs : s.attrs.clean = true) (hrb : r.attrs.b64 = true) (hsb : s.attrs.b64 = true)
    (hc : m.clean = true) (hb : m.b64 = true) (hok : TreeOK st.tree) :
    ∃ st', sortMetric (sortedResKey r) (sortedScopeKey s) m st = .ok st' ∧
      Adds st st' ((flattenMetric (resId r) (scopeId s) m).map DataPoint.sortAttrs) := by
  simp only [Metric.clean, Bool.and_eq_true] at hc
  obtain ⟨⟨hmd, htok⟩, hpts⟩ := hc
  have hpts := List.all_eq_true.mp hpts
  simp only [Metric.b64, Bool.and_eq_true] at hb
  obtain ⟨hmdb, hptsb⟩ := hb
  have hptsb := List.all_eq_true.mp hptsb
  have ht2 := tempOk_le htok
  have hrk := sortedResKey_b64 r hrb
  have hsk := sortedScopeKey_b64 s hsb
  rw [← okSorted_metric]
  cases hmt : m.type with
  | gauge =>
    have hshow : ShowsKeys (sortedMetricKey m 0 0 false []) (sortedResKey r) (sortedScopeKey s) (sortedRid r) (sortedSid s) m.sortA := by
      intro a pt
      have := sortedKey_shows r s m 0 false [] a pt hr hs hmd (by omega) (by simp [hmt]) (by simp [hmt])
      rw [hmt] at this
      exact this
    simp only [sortMetric, hmt]
    exact sortNumbers_spec m _ _ _ _ _ m.sortA (Or.inl hmt) (sortedMetricKey_b64 m _ _ _ _ hmdb (by simp)) hrk hsk hshow
      m.points st (fun p hp => ⟨by simpa [hmt, Point.clean] using hpts p hp, hptsb p hp⟩) hok
  | sum =>
    have hshow : ShowsKeys (sortedMetricKey m 1 m.temp m.mono []) (sortedResKey r) (sortedScopeKey s) (sortedRid r) (sortedSid s) m.sortA := by
      intro a pt
      have := sortedKey_shows r s m m.temp m.mono [] a pt hr hs hmd ht2 rfl rfl
      rw [hmt] at this
      exact this
    simp only [sortMetric, hmt, htok, if_true]
    exact sortNumbers_spec m _ _ _ _ _ m.sortA (Or.inr hmt) (sortedMetricKey_b64 m _ _ _ _ hmdb (by simp)) hrk hsk hshow
      m.points st (fun p hp => ⟨by simpa [hmt, Point.clean] using hpts p hp, hptsb p hp⟩) hok
  | hist =>
    have hshow : ∀ bounds, ShowsKeys (sortedMetricKey m 2 m.temp false bounds) (sortedResKey r) (sortedScopeKey s) (sortedRid r) (sortedSid s) m.sortA := by
      intro bounds a pt
      have := sortedKey_shows r s m m.temp false bounds a pt hr hs hmd ht2 rfl (by simp [hmt])
      rw [hmt] at this
      exact this
    simp only [sortMetric, hmt, htok, if_true]
    exact sortHistograms_spec m _ _ _ _ m.sortA hmt hmdb hrk hsk hshow
      m.points st (fun p hp => ⟨by simpa [hmt, Point.clean] using hpts p hp, hptsb p hp⟩) hok
  | exp =>
    have hshow : ShowsKeys (sortedMetricKey m 3 m.temp false []) (sortedResKey r) (sortedScopeKey s) (sortedRid r) (sortedSid s) m.sortA := by
      intro a pt
      have := sortedKey_shows r s m m.temp false [] a pt hr hs hmd ht2 rfl (by simp [hmt])
      rw [hmt] at this
      exact this
    simp only [sortMetric, hmt, htok, if_true]
    exact sortExpHistograms_spec m _ _ _ _ m.sortA hmt (sortedMetricKey_b64 m _ _ _ _ hmdb (by simp)) hrk hsk hshow
      m.points st (fun p hp => ⟨by simpa [hmt, Point.clean] using hpts p hp, hptsb p hp⟩) hok
  | summary =>
    have hshow : ShowsKeys (sortedMetricKey m 4 0 false []) (sortedResKey r) (sortedScopeKey s) (sortedRid r) (sortedSid s) m.sortA := by
      intro a pt
      have := sortedKey_shows r s m 0 false [] a pt hr hs hmd (by omega) (by simp [hmt]) (by simp [hmt])
      rw [hmt] at this
      exact this
    simp only [sortMetric, hmt]
    exact sortSummaries_spec m _ _ _ _ m.sortA hmt (sortedMetricKey_b64 m _ _ _ _ hmdb (by simp)) hrk hsk hshow
      m.points st (fun p hp => ⟨by simpa [hmt, Point.clean] using hpts p hp, hptsb p hp⟩) hok

theorem sortMetrics_spec (r : ResourceMetrics) (s : ScopeMetrics)
    (hr : r.attrs.clean = true) (hs : s.attrs.clean = true) (hrb : r.attrs.b64 = true) (hsb : s.attrs.b64 = true) :
    ∀ (ms : List Metric) (st : SortState), (∀ m ∈ ms, m.clean = true ∧ m.b64 = true) → TreeOK st.tree →
      ∃ st', sortMetrics (sortedResKey r) (sortedScopeKey s) ms st = .ok st' ∧
        Adds st st' ((ms.map (flattenMetric (resId r) (scopeId s))).flatten.map DataPoint.sortAttrs)
  | [], st, _, hok => ⟨st, rfl, Adds.refl hok⟩
  | m :: ms, st, hc, hok => by
    obtain ⟨st1, h1, a1⟩ := sortMetric_spec r s m st hr hs hrb hsb (hc m (by simp)).1 (hc m (by simp)).2 hok
    obtain ⟨st2, h2, a2⟩ := sortMetrics_spec r s hr hs hrb hsb ms st1 (fun x hx => hc x (by simp [hx])) a1.1
    exact ⟨st2, by simp [sortMetrics, h1, h2], by simpa using Adds.trans a1 a2⟩

theorem sortScopes_spec (r : ResourceMetrics) (hr : r.attrs.clean = true) (hrb : r.attrs.b64 = true) :
    ∀ (ss : List ScopeMetrics) (st : SortState), (∀ s ∈ ss, s.clean = true ∧ s.b64 = true) → TreeOK st.tree →
      ∃ st', sortScopes (sortedResKey r) ss st = .ok st' ∧
        Adds st st' ((ss.map (flattenScope (resId r))).flatten.map DataPoint.sortAttrs)
  | [], st, _, hok => ⟨st, rfl, Adds.refl hok⟩
  | s :: ss, st, hc, hok => by
    obtain ⟨hsc, hsb⟩ := hc s (by simp)
    simp only [ScopeMetrics.clean, Bool.and_eq_true] at hsc
    simp only [ScopeMetrics.b64, Bool.and_eq_true] at hsb
    obtain ⟨st1, h1, a1⟩ := sortMetrics_spec r s hr hsc.1 hrb hsb.1 s.metrics st
      (fun m hm => ⟨List.all_eq_true.mp hsc.2 m hm, List.all_eq_true.mp hsb.2 m hm⟩) hok
    obtain ⟨st2, h2, a2⟩ := sortScopes_spec r hr hrb ss st1 (fun x hx => hc x (by simp [hx])) a1.1
    exact ⟨st2, by simp [sortScopes, h1, h2], by simpa [flattenScope] using Adds.trans a1 a2⟩

theorem sortResources_spec : ∀ (rs : List ResourceMetrics) (st : SortState),
    (∀ r ∈ rs, r.clean = true ∧ r.b64 = true) → TreeOK st.tree →
      ∃ st', sortResources rs st = .ok st' ∧ Adds st st' ((rs.map flattenResource).flatten.map DataPoint.sortAttrs)
  | [], st, _, hok => ⟨st, rfl, Adds.refl hok⟩
  | r :: rs, st, hc, hok => by
    obtain ⟨hrc, hrb⟩ := hc r (by simp)
    simp only [ResourceMetrics.clean, Bool.and_eq_true] at hrc
    simp only [ResourceMetrics.b64, Bool.and_eq_true] at hrb
    obtain ⟨st1, h1, a1⟩ := sortScopes_spec r hrc.1 hrb.1 r.scopes st
      (fun s hs => ⟨List.all_eq_true.mp hrc.2 s hs, List.all_eq_true.mp hrb.2 s hs⟩) hok
    obtain ⟨st2, h2, a2⟩ := sortResources_spec rs st1 (fun x hx => hc x (by simp [hx])) a1.1
    exact ⟨st2, by simp [sortResources, h1, h2], by simpa [flattenResource] using Adds.trans a1 a2⟩

/-- the data points of a batch as the sorting converter's records give them back, wrapped in `ok` -/
def okSorted (l : List DataPoint) : List (Except String DataPoint) := l.map fun d => .ok d.sortAttrs

/-- The sorting writer on a clean, 64-bit typed batch: it succeeds, and reading its records one by
    one gives a permutation of the batch's data points (attribute lists in key order). -/
theorem otlpToStefSorted_spec (m : Metrics) (hc : m.clean = true) (hb : m.b64 = true) :
    ∃ recs, otlpToStefSorted m = .ok recs ∧ (recs.map pointOfRecord).Perm (okSorted (flatten m)) := by
  obtain ⟨st, h1, _, es, hp, hg, hm⟩ := sortResources_spec m.rms {}
    (fun r hr => ⟨List.all_eq_true.mp hc r hr, List.all_eq_true.mp hb r hr⟩) AllKV_nil
  have hp : (flatTree st.tree).Perm (es.map Prod.fst) := by simpa [flatTree, flatKV] using hp
  have hstable : ∀ e ∈ emitOrder st.tree, Stable e := by
    intro e he
    have he' := hp.subset ((emitOrder_perm st.tree).subset he)
    obtain ⟨x, hx, rfl⟩ := List.mem_map.mp he'
    exact (hg x hx).stable.1
  refine ⟨(emitMetrics st.tree {}).out.reverse, by simp [otlpToStefSorted, h1], ?_⟩
  rw [List.map_reverse, emitMetrics_spec pointOfRecord entryPoint st.tree {} hstable]
  simp only [List.map_nil, List.append_nil, List.reverse_reverse]
  refine (((emitOrder_perm st.tree).trans hp).map entryPoint).trans ?_
  have : (es.map Prod.fst).map entryPoint = okSorted (flatten m) := by
    have e2 : okSorted (flatten m) = (es.map Prod.snd).map Except.ok := by
      rw [hm, List.map_map]; rfl
    rw [e2, List.map_map, List.map_map]
    apply List.map_congr_left
    intro x hx
    exact (hg x hx).stable.2
  rw [this]

/-- a permutation of a mapped list is a mapped permutation -/
theorem perm_map_inv {α β : Type} (f : α → β) : ∀ (ds : List α) (l : List β), l.Perm (ds.map f) →
    ∃ ds' : List α, l = ds'.map f ∧ ds'.Perm ds
  | [], l, h => ⟨[], by simpa using h.eq_nil, List.Perm.refl _⟩
  | d :: t, l, h => by
    have hmem : f d ∈ l := h.symm.subset (by simp)
    obtain ⟨l1, l2, rfl⟩ := List.append_of_mem hmem
    have h' : (l1 ++ l2).Perm (t.map f) := by
      have := (List.perm_middle.symm.trans h)
      simpa using this
    obtain ⟨ds'', e, hp⟩ := perm_map_inv f t (l1 ++ l2) h'
    obtain ⟨a, b, rfl, ha, hb⟩ := List.append_eq_map_iff.mp e
    refine ⟨a ++ d :: b, by simp [ha, hb], ?_⟩
    exact List.perm_middle.trans (hp.cons d)

end Stef.Otlp
