/-
  The grammar phase run on the tokens of a printed schema rebuilds the schema (unresolved):
  `grammar ts = .ok (rawSchema σ) _` whenever the token kinds of `ts` are `tkSchema σ`.
  Positions of tokens only occur in error results, so everything is stated for an arbitrary
  token list with the given kinds (`Toks`).
-/
import Stef.Proofs.PrintDefs
import Stef.Proofs.WireEquiv

namespace Stef.Idl

/-! ### token lists with given kinds -/

def Toks (ts : List Token) (L : List Tok) : Prop := ts.map (·.tok) = L

theorem Toks.cons_inv {ts : List Token} {a : Tok} {L : List Tok} (h : Toks ts (a :: L)) :
    ∃ t r, ts = t :: r ∧ t.tok = a ∧ Toks r L := by
  cases ts with
  | nil => simp [Toks] at h
  | cons t r =>
    simp only [Toks, List.map_cons, List.cons.injEq] at h
    exact ⟨t, r, rfl, h.1, h.2⟩

theorem Toks.cons {t : Token} {r : List Token} {a : Tok} {L : List Tok} (h1 : t.tok = a)
    (h2 : Toks r L) : Toks (t :: r) (a :: L) := by
  simp only [Toks, List.map_cons, h1, List.cons.injEq, true_and]; exact h2

theorem Toks.length {ts : List Token} {L : List Tok} (h : Toks ts L) : ts.length = L.length := by
  have := congrArg List.length h
  simpa [Toks] using this

theorem Toks.append_inv {ts : List Token} {A B : List Tok} (h : Toks ts (A ++ B)) :
    ∃ t1 t2, ts = t1 ++ t2 ∧ Toks t1 A ∧ Toks t2 B := by
  refine ⟨ts.take A.length, ts.drop A.length, (List.take_append_drop _ _).symm, ?_, ?_⟩
  · unfold Toks at *
    rw [List.map_take, h]; simp
  · unfold Toks at *
    rw [List.map_drop, h]; simp

@[simp] theorem cur_cons (t : Token) (r : List Token) : cur (t :: r) = t := rfl
@[simp] theorem adv_cons2 (t t2 : Token) (r : List Token) : adv (t :: t2 :: r) = t2 :: r := rfl

/-! ### dictionary modifier, field types -/

theorem parseDictModifier_toks {ts : List Token} {d : Name} {y : Tok} {R : List Tok}
    (h : Toks ts (.kw .dict :: .punct '(' :: .ident d :: .punct ')' :: y :: R)) :
    ∃ ts', parseDictModifier ts = .ok d ts' ∧ Toks ts' (y :: R) := by
  obtain ⟨t1, r1, rfl, h1, h⟩ := h.cons_inv
  obtain ⟨t2, r2, rfl, h2, h⟩ := h.cons_inv
  obtain ⟨t3, r3, rfl, h3, h⟩ := h.cons_inv
  obtain ⟨t4, r4, rfl, h4, h⟩ := h.cons_inv
  obtain ⟨t5, r5, rfl, h5, h⟩ := h.cons_inv
  refine ⟨t5 :: r5, ?_, Toks.cons h5 h⟩
  simp [parseDictModifier, eat, h2, h3, h4]

/-- the shape of a type as `parseFieldType` builds it. -/
def RawShape (rb : BaseType) : Prop :=
  rb.multimap = [] ∧ rb.enum = [] ∧
  ((∃ p, rb.prim = some p ∧ rb.struct = []) ∨ (rb.prim = none ∧ IsIdent rb.struct)) ∧
  (rb.dict = [] ∨ dictAllowed rb = true)

theorem tkRaw_ne_bracket (rb : BaseType) : tkRaw rb ≠ .punct '[' := by
  unfold tkRaw; split <;> simp

theorem typeOfTok_tkRaw {rb : BaseType} (h : RawShape rb) :
    typeOfTok (tkRaw rb) = some { rb with dict := [] } := by
  obtain ⟨hm, he, hp, _⟩ := h
  cases rb with
  | mk prim struct multimap enum dict =>
    simp only at hm he hp
    subst hm he
    rcases hp with ⟨p, rfl, rfl⟩ | ⟨rfl, _⟩
    · cases p <;> rfl
    · rfl

theorem dictAllowed_setDict (rb : BaseType) (d : Name) :
    dictAllowed { rb with dict := d } = dictAllowed rb := rfl

/-- `parseFieldType` on a printed non-array type. -/
theorem parseFieldType_base {ts : List Token} {rb : BaseType} {y : Tok} {R : List Tok}
    (h : Toks ts (tkRaw rb :: (tkDict rb.dict ++ y :: R))) (hs : RawShape rb)
    (hy : rb.dict = [] → y ≠ .kw .dict) :
    ∃ ts', parseFieldType ts = .ok (.base rb) ts' ∧ Toks ts' (y :: R) := by
  obtain ⟨t1, r1, rfl, h1, h⟩ := h.cons_inv
  have hty := typeOfTok_tkRaw hs
  have hnb := tkRaw_ne_bracket rb
  by_cases hd : rb.dict = []
  · simp only [tkDict, hd, ne_eq, not_true_eq_false, ↓reduceIte, List.nil_append] at h
    obtain ⟨t2, r2, rfl, h2, h⟩ := h.cons_inv
    refine ⟨t2 :: r2, ?_, Toks.cons h2 h⟩
    have hy' : t2.tok ≠ .kw .dict := by rw [h2]; exact hy hd
    have e : ({ rb with dict := [] } : BaseType) = rb := by
      cases rb; simp only at hd; subst hd; rfl
    simp [parseFieldType, hnb, h1, hty, hy', e]
  · simp only [tkDict, hd, ne_eq, not_false_eq_true, ↓reduceIte, List.cons_append,
      List.nil_append] at h
    obtain ⟨ts', hdm, hts'⟩ := parseDictModifier_toks h
    obtain ⟨t2, r2, rfl, h2, h⟩ := h.cons_inv
    refine ⟨ts', ?_, hts'⟩
    have hda : dictAllowed { rb with dict := [] } = true := by
      rw [dictAllowed_setDict]
      rcases hs.2.2.2 with h | h
      · exact absurd h hd
      · exact h
    have e : ({ rb with dict := rb.dict } : BaseType) = rb := by cases rb; rfl
    simp [parseFieldType, hnb, h1, hty, h2, hda, hdm]

/-- `parseFieldType` on a printed array type (element dictionary included, the array's own
    dictionary - a second `dict(...)` in a multimap - is not consumed). -/
theorem parseFieldType_array {ts : List Token} {rb : BaseType} {y : Tok} {R : List Tok}
    (h : Toks ts (.punct '[' :: .punct ']' :: tkRaw rb :: (tkDict rb.dict ++ y :: R)))
    (hs : RawShape rb) (hy : rb.dict = [] → y ≠ .kw .dict) :
    ∃ ts', parseFieldType ts = .ok (.array rb [] false) ts' ∧ Toks ts' (y :: R) := by
  obtain ⟨t0, r0, rfl, h0, h⟩ := h.cons_inv
  obtain ⟨t0', r0', rfl, h0', h⟩ := h.cons_inv
  obtain ⟨t1, r1, rfl, h1, h⟩ := h.cons_inv
  have hty := typeOfTok_tkRaw hs
  by_cases hd : rb.dict = []
  · simp only [tkDict, hd, ne_eq, not_true_eq_false, ↓reduceIte, List.nil_append] at h
    obtain ⟨t2, r2, rfl, h2, h⟩ := h.cons_inv
    refine ⟨t2 :: r2, ?_, Toks.cons h2 h⟩
    have hy' : t2.tok ≠ .kw .dict := by rw [h2]; exact hy hd
    have e : ({ rb with dict := [] } : BaseType) = rb := by
      cases rb; simp only at hd; subst hd; rfl
    simp [parseFieldType, eat, h0, h0', h1, hty, hy', e]
  · simp only [tkDict, hd, ne_eq, not_false_eq_true, ↓reduceIte, List.cons_append,
      List.nil_append] at h
    obtain ⟨ts', hdm, hts'⟩ := parseDictModifier_toks h
    obtain ⟨t2, r2, rfl, h2, h⟩ := h.cons_inv
    refine ⟨ts', ?_, hts'⟩
    have hda : dictAllowed { rb with dict := [] } = true := by
      rw [dictAllowed_setDict]
      rcases hs.2.2.2 with h | h
      · exact absurd h hd
      · exact h
    simp [parseFieldType, eat, h0, h0', h1, hty, h2, hda, hdm]

/-! ### printed types -/

theorem rawBase_dict (b : BaseType) : (rawBase b).dict = b.dict := by
  unfold rawBase
  split
  · rfl
  · split
    · rfl
    · split <;> rfl

theorem rawBase_shape {b : BaseType} (hb : BaseP b) (hne : b.isEmpty = false) :
    RawShape (rawBase b) := by
  obtain ⟨⟨hrs, hrm, hre⟩, hd⟩ := hb
  unfold rawBase
  by_cases he : b.enum = []
  · simp only [he, ne_eq, not_true_eq_false, ↓reduceIte]
    have hda : b.dict = [] ∨ dictAllowed b = true := by
      rcases hd with h | ⟨_, h | h⟩
      · exact Or.inl h
      · exact absurd he h
      · exact Or.inr h
    cases hp : b.prim with
    | some p =>
      refine ⟨rfl, rfl, Or.inl ⟨p, rfl, rfl⟩, ?_⟩
      rcases hda with h | h
      · exact Or.inl h
      · right; simpa [dictAllowed, hp] using h
    | none =>
      by_cases hs : b.struct = []
      · have hm : b.multimap ≠ [] := by
          intro hm
          simp [BaseType.isEmpty, hp, hs, hm, he] at hne
        simp only [hs, not_true_eq_false, ↓reduceIte]
        exact ⟨rfl, rfl, Or.inr ⟨rfl, hrm hm⟩, Or.inr rfl⟩
      · simp only [hs, not_false_eq_true, ↓reduceIte]
        exact ⟨rfl, rfl, Or.inr ⟨rfl, hrs hs⟩, Or.inr rfl⟩
  · simp only [he, ne_eq, not_false_eq_true, ↓reduceIte]
    exact ⟨rfl, rfl, Or.inr ⟨rfl, hre he⟩, Or.inr rfl⟩

theorem tkDict_nil : tkDict [] = [] := rfl

theorem tkDict_ne {d : Name} (h : d ≠ []) :
    tkDict d = [.kw .dict, .punct '(', .ident d, .punct ')'] := by simp [tkDict, h]

/-- a struct/oneof field type: `parseFieldType` rebuilds the unresolved type. -/
theorem parseFieldType_toks {ts : List Token} {ty : FType} {y : Tok} {R : List Tok}
    (h : Toks ts (tkFType ty ++ y :: R)) (hp : FTypeP true ty) (hne : ty.inner.isEmpty = false)
    (hy : y ≠ .kw .dict) :
    ∃ ts', parseFieldType ts = .ok (rawFType ty) ts' ∧ Toks ts' (y :: R) := by
  cases ty with
  | base b =>
    simp only [FTypeP] at hp
    simp only [tkFType, List.cons_append] at h
    rw [← rawBase_dict b] at h
    exact parseFieldType_base h (rawBase_shape hp hne) (fun _ => hy)
  | array e d r =>
    simp only [FTypeP] at hp
    obtain ⟨hpe, hd⟩ := hp
    have hd' : d = [] := by
      rcases hd with h | ⟨h, _⟩
      · exact h
      · simp at h
    subst hd'
    simp only [tkFType, tkDict_nil, List.append_nil, List.cons_append] at h
    rw [← rawBase_dict e] at h
    exact parseFieldType_array h (rawBase_shape hpe hne) (fun _ => hy)

/-- a multimap key/value type (the array's own dictionary is the second `dict(...)`). -/
theorem parseMultimapField_toks {ts : List Token} {ty : FType} {y : Tok} {R : List Tok}
    (h : Toks ts (tkFType ty ++ y :: R)) (hp : FTypeP false ty) (hne : ty.inner.isEmpty = false)
    (hy : y ≠ .kw .dict) :
    ∃ ts', parseMultimapField ts = .ok (rawFType ty) ts' ∧ Toks ts' (y :: R) := by
  cases ty with
  | base b =>
    simp only [FTypeP] at hp
    simp only [tkFType, List.cons_append] at h
    rw [← rawBase_dict b] at h
    obtain ⟨ts', h1, h2⟩ := parseFieldType_base h (rawBase_shape hp hne) (fun _ => hy)
    refine ⟨ts', ?_, h2⟩
    obtain ⟨t, r, rfl, ht, _⟩ := h2.cons_inv
    have : t.tok ≠ .kw .dict := by rw [ht]; exact hy
    simp [parseMultimapField, h1, this, rawFType]
  | array e d r =>
    simp only [FTypeP] at hp
    obtain ⟨hpe, hd⟩ := hp
    by_cases hd' : d = []
    · subst hd'
      simp only [tkFType, tkDict_nil, List.append_nil, List.cons_append] at h
      rw [← rawBase_dict e] at h
      obtain ⟨ts', h1, h2⟩ := parseFieldType_array h (rawBase_shape hpe hne) (fun _ => hy)
      refine ⟨ts', ?_, h2⟩
      obtain ⟨t, r, rfl, ht, _⟩ := h2.cons_inv
      have : t.tok ≠ .kw .dict := by rw [ht]; exact hy
      simp [parseMultimapField, h1, this, rawFType]
    · have hed : e.dict ≠ [] := by
        rcases hd with h | ⟨_, _, h⟩
        · exact absurd h hd'
        · exact h
      simp only [tkFType, tkDict_ne hd', List.cons_append, List.append_assoc, List.nil_append] at h
      rw [← rawBase_dict e] at h
      obtain ⟨ts1, h1, h2⟩ := parseFieldType_array h (rawBase_shape hpe hne)
        (fun h0 => absurd (by rw [← rawBase_dict e]; exact h0) hed)
      obtain ⟨ts', h3, h4⟩ := parseDictModifier_toks h2
      refine ⟨ts', ?_, h4⟩
      obtain ⟨t, r, rfl, ht, _⟩ := h2.cons_inv
      simp [parseMultimapField, h1, ht, h3, rawFType, FType.setDict]

/-! ### struct fields -/

theorem adv_of_toks {t : Token} {r : List Token} {a : Tok} {L : List Tok} (h : Toks r (a :: L)) :
    adv (t :: r) = r := by
  obtain ⟨t2, r2, rfl, _, _⟩ := h.cons_inv
  rfl

theorem skipOptionals_none {ts : List Token} {y : Tok} {R : List Tok} (o : Bool)
    (h : Toks ts (y :: R)) (hy : y ≠ .kw .optional) : skipOptionals ts o = (o, ts) := by
  obtain ⟨t, r, rfl, ht, _⟩ := h.cons_inv
  have : t.tok ≠ .kw .optional := by rw [ht]; exact hy
  simp [skipOptionals, this]

theorem skipOptionals_one {ts : List Token} {y : Tok} {R : List Tok} (o : Bool)
    (h : Toks ts (.kw .optional :: y :: R)) (hy : y ≠ .kw .optional) :
    ∃ ts', skipOptionals ts o = (true, ts') ∧ Toks ts' (y :: R) := by
  obtain ⟨t, r, rfl, ht, h⟩ := h.cons_inv
  refine ⟨r, ?_, h⟩
  have h2 := skipOptionals_none true h hy
  obtain ⟨t2, r2, rfl, _, _⟩ := h.cons_inv
  rw [skipOptionals]
  simp [ht, h2]

/-- what follows a field: the next field's name or the closing brace. -/
theorem tkFields_head (fs : List Field) (R : List Tok) :
    ∃ y R', tkFields fs ++ .punct '}' :: R = y :: R' ∧ y ≠ .kw .dict ∧ y ≠ .kw .optional := by
  cases fs with
  | nil => exact ⟨_, _, rfl, by simp, by simp⟩
  | cons f fs => exact ⟨_, _, rfl, by simp, by simp⟩

theorem tkFType_ne_nil (ty : FType) : tkFType ty ≠ [] := by
  cases ty <;> simp [tkFType]

theorem toks_head_of_append {r : List Token} {A B : List Tok} (h : Toks r (A ++ B)) (hA : A ≠ []) :
    ∃ a L, Toks r (a :: L) := by
  cases A with
  | nil => exact absurd rfl hA
  | cons a L => exact ⟨a, L ++ B, h⟩

theorem rawField_name (f : Field) : (rawField f).name = f.name := rfl

theorem parseStructFields_toks : ∀ (fs : List Field) (fuel : Nat) (acc : List Field)
    (ts : List Token) (R : List Tok),
    Toks ts (tkFields fs ++ .punct '}' :: R) → fs.length < fuel →
    (∀ f ∈ fs, IsIdent f.name ∧ FTypeP true f.ty ∧ f.ty.inner.isEmpty = false) →
    ((acc ++ fs).map (·.name)).Nodup →
    ∃ ts', parseStructFields fuel acc ts = .ok (acc ++ fs.map rawField) ts' ∧
      Toks ts' (.punct '}' :: R)
  | [], fuel, acc, ts, R, h, hf, _, _ => by
    obtain ⟨n, rfl⟩ : ∃ n, fuel = n + 1 := ⟨fuel - 1, by omega⟩
    simp only [tkFields, List.nil_append] at h
    refine ⟨ts, ?_, h⟩
    obtain ⟨t, r, rfl, ht, _⟩ := h.cons_inv
    simp [parseStructFields, ht]
  | f :: fs, fuel, acc, ts, R, h, hf, hok, hnd => by
    obtain ⟨n, rfl⟩ : ∃ n, fuel = n + 1 := ⟨fuel - 1, by omega⟩
    obtain ⟨hid, hty, hne⟩ := hok f (by simp)
    obtain ⟨y, R', hyR, hyd, hyo⟩ := tkFields_head fs R
    simp only [tkFields, tkField, List.cons_append, List.append_assoc] at h
    obtain ⟨t1, r1, rfl, h1, h⟩ := h.cons_inv
    -- the field name is new
    have hnew : acc.any (fun x => decide (x.name = f.name)) = false := by
      rw [List.any_eq_false]
      intro x hx
      simp only [decide_eq_true_eq]
      intro hxe
      simp only [List.map_append, List.map_cons, List.nodup_append] at hnd
      exact hnd.2.2 x.name (List.mem_map_of_mem hx) f.name (by simp) hxe
    have hnd' : (((acc ++ [rawField f]) ++ fs).map (·.name)).Nodup := by
      simpa [rawField_name] using hnd
    have hok' : ∀ g ∈ fs, IsIdent g.name ∧ FTypeP true g.ty ∧ g.ty.inner.isEmpty = false :=
      fun g hg => hok g (by simp [hg])
    have hlen : fs.length < n := by simp at hf; omega
    by_cases hopt : f.optional = true
    · simp only [hopt, ↓reduceIte, List.cons_append, List.nil_append] at h
      obtain ⟨a0, L0, hr1⟩ := toks_head_of_append h (tkFType_ne_nil f.ty)
      have hadv := adv_of_toks (t := t1) hr1
      obtain ⟨ts1, hp1, ht1⟩ := parseFieldType_toks h hty hne (by simp)
      rw [hyR] at ht1
      obtain ⟨ts2, hs2, ht2⟩ := skipOptionals_one false ht1 hyo
      rw [← hyR] at ht2
      obtain ⟨ts', hrec, hts'⟩ := parseStructFields_toks fs n (acc ++ [rawField f]) ts2 R ht2 hlen hok' hnd'
      refine ⟨ts', ?_, hts'⟩
      rw [parseStructFields]
      simp only [cur_cons, h1, hnew, Bool.false_eq_true, ↓reduceIte, hadv, hp1, hs2]
      rw [show ({ name := f.name, ty := rawFType f.ty, optional := true } : Field) = rawField f from by
        simp [rawField, hopt]]
      rw [hrec]; simp
    · simp only [hopt, Bool.false_eq_true, ↓reduceIte, List.nil_append] at h
      rw [hyR] at h
      obtain ⟨a0, L0, hr1⟩ := toks_head_of_append h (tkFType_ne_nil f.ty)
      have hadv := adv_of_toks (t := t1) hr1
      obtain ⟨ts1, hp1, ht1⟩ := parseFieldType_toks h hty hne hyd
      have hs2 := skipOptionals_none false ht1 hyo
      rw [← hyR] at ht1
      obtain ⟨ts', hrec, hts'⟩ := parseStructFields_toks fs n (acc ++ [rawField f]) ts1 R ht1 hlen hok' hnd'
      refine ⟨ts', ?_, hts'⟩
      rw [parseStructFields]
      simp only [cur_cons, h1, hnew, Bool.false_eq_true, ↓reduceIte, hadv, hp1, hs2]
      rw [show ({ name := f.name, ty := rawFType f.ty, optional := false } : Field) = rawField f from by
        simp [rawField, hopt]]
      rw [hrec]; simp

/-! ### struct / oneof -/

theorem tkFields_length : ∀ fs : List Field, fs.length ≤ (tkFields fs).length
  | [] => by simp [tkFields]
  | f :: fs => by
    have := tkFields_length fs
    simp only [tkFields, tkField, List.length_cons, List.length_append]
    omega

theorem rawStruct_eq (s : Struct) :
    ({ name := s.name, oneOf := s.oneOf, dict := s.dict, isRoot := s.isRoot,
       fields := s.fields.map rawField } : Struct) = rawStruct s := rfl

/-- the tail of a struct definition from the opening brace on. -/
theorem parseStruct_body {s : Struct} {ts : List Token} {y : Tok} {R : List Tok}
    (h : Toks ts (.punct '{' :: (tkFields s.fields ++ .punct '}' :: y :: R)))
    (hp : StructP s) (hne : ∀ f ∈ s.fields, f.ty.inner.isEmpty = false)
    (hnd : (s.fields.map (·.name)).Nodup) :
    ∃ ts1 ts2 ts', eat (.punct '{') ts = .ok () ts1 ∧
      parseStructFields (ts1.length + 1) [] ts1 = .ok (s.fields.map rawField) ts2 ∧
      eat (.punct '}') ts2 = .ok () ts' ∧ Toks ts' (y :: R) := by
  obtain ⟨t1, r1, rfl, h1, h⟩ := h.cons_inv
  have hr1 : ∃ a L, Toks r1 (a :: L) := by
    obtain ⟨a, L, e, _⟩ := tkFields_head s.fields (y :: R)
    rw [e] at h; exact ⟨a, L, h⟩
  obtain ⟨a, L, hr1⟩ := hr1
  have hadv := adv_of_toks (t := t1) hr1
  have hlen : s.fields.length < r1.length + 1 := by
    have := h.length
    have := tkFields_length s.fields
    simp only [List.length_append, List.length_cons] at *
    omega
  obtain ⟨ts2, hf, ht2⟩ := parseStructFields_toks s.fields (r1.length + 1) [] r1 (y :: R) h hlen
    (fun f hf => ⟨(hp.fields f hf).1, (hp.fields f hf).2, hne f hf⟩) (by simpa using hnd)
  obtain ⟨t2, r2, rfl, h2, ht2'⟩ := ht2.cons_inv
  have hadv2 := adv_of_toks (t := t2) ht2'
  refine ⟨r1, t2 :: r2, r2, ?_, ?_, ?_, ht2'⟩
  · simp [eat, h1, hadv]
  · simpa using hf
  · simp [eat, h2, hadv2]

theorem parseStruct_toks {s : Struct} {σa : Schema} {ts : List Token} {y : Tok} {R : List Tok}
    (h : Toks ts (tkStruct s ++ y :: R)) (hp : StructP s)
    (hne : ∀ f ∈ s.fields, f.ty.inner.isEmpty = false)
    (hnd : (s.fields.map (·.name)).Nodup) (hroot : s.isRoot = true → s.fields ≠ [])
    (hfresh : σa.isTopUsed s.name = false) :
    ∃ ts', parseStruct s.oneOf σa ts = .ok { σa with structs := σa.structs ++ [rawStruct s] } ts' ∧
      Toks ts' (y :: R) := by
  have hre : (s.isRoot && (s.fields.map rawField).isEmpty) = false := by
    cases hr : s.isRoot with
    | false => rfl
    | true =>
      have := hroot hr
      cases hf : s.fields with
      | nil => exact absurd hf this
      | cons a l => rfl
  by_cases ho : s.oneOf = true
  · obtain ⟨hd0, hr0⟩ := hp.oneof ho
    simp only [tkStruct, tkStructHead, ho, ↓reduceIte, List.cons_append, List.nil_append,
      List.append_assoc] at h
    obtain ⟨t1, r1, rfl, h1, h⟩ := h.cons_inv
    obtain ⟨t2, r2, rfl, h2, h⟩ := h.cons_inv
    obtain ⟨ts1, ts2, ts', e1, e2, e3, hts'⟩ := parseStruct_body h hp hne hnd
    obtain ⟨t3, r3, rfl, h3, _⟩ := h.cons_inv
    refine ⟨ts', ?_, hts'⟩
    rw [← rawStruct_eq, hd0, hr0, ho]
    rw [hr0] at hre
    simp [parseStruct, h2, hfresh, h3, e1, e2, e3]
  · have ho' : s.oneOf = false := by simpa using ho
    by_cases hd : s.dict = []
    · by_cases hr : s.isRoot = true
      · simp only [tkStruct, tkStructHead, ho', Bool.false_eq_true, ↓reduceIte, hd, tkDict_nil, hr,
          List.cons_append, List.nil_append, List.append_assoc] at h
        obtain ⟨t1, r1, rfl, h1, h⟩ := h.cons_inv
        obtain ⟨t2, r2, rfl, h2, h⟩ := h.cons_inv
        obtain ⟨t3, r3, rfl, h3, h⟩ := h.cons_inv
        obtain ⟨ts1, ts2, ts', e1, e2, e3, hts'⟩ := parseStruct_body h hp hne hnd
        obtain ⟨t4, r4, rfl, h4, _⟩ := h.cons_inv
        refine ⟨ts', ?_, hts'⟩
        rw [← rawStruct_eq, hd, hr, ho']
        simp [parseStruct, h2, hfresh, h3, e1, e2, e3, hroot hr]
      · have hr' : s.isRoot = false := by simpa using hr
        simp only [tkStruct, tkStructHead, ho', Bool.false_eq_true, ↓reduceIte, hd, tkDict_nil, hr',
          List.cons_append, List.nil_append, List.append_assoc] at h
        obtain ⟨t1, r1, rfl, h1, h⟩ := h.cons_inv
        obtain ⟨t2, r2, rfl, h2, h⟩ := h.cons_inv
        obtain ⟨ts1, ts2, ts', e1, e2, e3, hts'⟩ := parseStruct_body h hp hne hnd
        obtain ⟨t3, r3, rfl, h3, _⟩ := h.cons_inv
        refine ⟨ts', ?_, hts'⟩
        rw [← rawStruct_eq, hd, hr', ho']
        simp [parseStruct, h2, hfresh, h3, e1, e2, e3]
    · have hr' : s.isRoot = false := hp.dictRoot hd
      simp only [tkStruct, tkStructHead, ho', Bool.false_eq_true, ↓reduceIte, tkDict_ne hd, hr',
        List.cons_append, List.nil_append, List.append_assoc] at h
      obtain ⟨t1, r1, rfl, h1, h⟩ := h.cons_inv
      obtain ⟨t2, r2, rfl, h2, h⟩ := h.cons_inv
      obtain ⟨tsd, hdm, htd⟩ := parseDictModifier_toks h
      obtain ⟨ts1, ts2, ts', e1, e2, e3, hts'⟩ := parseStruct_body htd hp hne hnd
      obtain ⟨t3, r3, rfl, h3, _⟩ := h.cons_inv
      refine ⟨ts', ?_, hts'⟩
      rw [← rawStruct_eq, hr', ho']
      simp [parseStruct, h2, hfresh, h3, hdm, e1, e2, e3]

/-! ### multimap -/

theorem eat_toks {ts : List Token} {a : Tok} {L : List Tok} (h : Toks ts (a :: L)) (hL : L ≠ []) :
    ∃ ts', eat a ts = .ok () ts' ∧ Toks ts' L := by
  obtain ⟨t, r, rfl, ht, h⟩ := h.cons_inv
  cases L with
  | nil => exact absurd rfl hL
  | cons b L' =>
    refine ⟨r, ?_, h⟩
    simp [eat, ht, adv_of_toks h]

theorem rawMultimap_eq (m : Multimap) :
    ({ name := m.name, key := rawFType m.key, value := rawFType m.value } : Multimap) = rawMultimap m := rfl

theorem parseMultimap_toks {m : Multimap} {σa : Schema} {ts : List Token} {y : Tok} {R : List Tok}
    (h : Toks ts (tkMultimap m ++ y :: R)) (hp : MultimapP m)
    (hk : m.key.inner.isEmpty = false) (hv : m.value.inner.isEmpty = false)
    (hfresh : σa.isTopUsed m.name = false) :
    ∃ ts', parseMultimap σa ts = .ok { σa with multimaps := σa.multimaps ++ [rawMultimap m] } ts' ∧
      Toks ts' (y :: R) := by
  simp only [tkMultimap, List.cons_append, List.append_assoc, List.nil_append] at h
  obtain ⟨t1, r1, rfl, h1, h⟩ := h.cons_inv
  obtain ⟨t2, r2, rfl, h2, h⟩ := h.cons_inv
  obtain ⟨t3, r3, rfl, _, _⟩ := h.cons_inv
  obtain ⟨ts3, e3, h⟩ := eat_toks h (by simp)
  obtain ⟨ts4, e4, h⟩ := eat_toks h (by
    intro hc
    have := congrArg List.length hc
    simp at this)
  obtain ⟨ts5, e5, h⟩ := parseMultimapField_toks h hp.key hk (by simp)
  obtain ⟨ts6, e6, h⟩ := eat_toks h (by
    intro hc
    have := congrArg List.length hc
    simp at this)
  obtain ⟨ts7, e7, h⟩ := parseMultimapField_toks h hp.value hv (by simp)
  obtain ⟨ts8, e8, h⟩ := eat_toks h (by simp)
  refine ⟨ts8, ?_, h⟩
  rw [← rawMultimap_eq]
  simp [parseMultimap, h2, hfresh, e3, e4, e5, e6, e7, e8]

/-! ### enum -/

theorem parseEnumFields_toks : ∀ (fs : List EnumField) (fuel : Nat) (acc : List EnumField)
    (ts : List Token) (R : List Tok),
    Toks ts (tkEnumFields fs ++ .punct '}' :: R) → fs.length < fuel →
    ((acc ++ fs).map (·.name)).Nodup →
    ∃ ts', parseEnumFields fuel acc ts = .ok (acc ++ fs) ts' ∧ Toks ts' (.punct '}' :: R)
  | [], fuel, acc, ts, R, h, hf, _ => by
    obtain ⟨n, rfl⟩ : ∃ n, fuel = n + 1 := ⟨fuel - 1, by omega⟩
    simp only [tkEnumFields, List.nil_append] at h
    refine ⟨ts, ?_, h⟩
    obtain ⟨t, r, rfl, ht, _⟩ := h.cons_inv
    simp [parseEnumFields, ht]
  | f :: fs, fuel, acc, ts, R, h, hf, hnd => by
    obtain ⟨n, rfl⟩ : ∃ n, fuel = n + 1 := ⟨fuel - 1, by omega⟩
    simp only [tkEnumFields, List.cons_append] at h
    obtain ⟨t1, r1, rfl, h1, h⟩ := h.cons_inv
    obtain ⟨t2, r2, rfl, h2, h⟩ := h.cons_inv
    obtain ⟨t3, r3, rfl, h3, h⟩ := h.cons_inv
    have hnew : acc.any (fun x => decide (x.name = f.name)) = false := by
      rw [List.any_eq_false]
      intro x hx
      simp only [decide_eq_true_eq]
      intro hxe
      simp only [List.map_append, List.map_cons, List.nodup_append] at hnd
      exact hnd.2.2 x.name (List.mem_map_of_mem hx) f.name (by simp) hxe
    have hr3 : ∃ a L, Toks r3 (a :: L) := by
      cases fs with
      | nil => exact ⟨_, _, h⟩
      | cons g gs => exact ⟨_, _, h⟩
    obtain ⟨a, L, hr3⟩ := hr3
    have hadv := adv_of_toks (t := t3) hr3
    obtain ⟨ts', hrec, hts'⟩ := parseEnumFields_toks fs n (acc ++ [f]) r3 R h (by simp at hf; omega)
      (by simpa using hnd)
    refine ⟨ts', ?_, hts'⟩
    rw [parseEnumFields]
    simp only [cur_cons, h1, hnew, Bool.false_eq_true, ↓reduceIte, adv_cons2, eat, h2, h3, hadv]
    rw [show ({ name := f.name, value := f.value } : EnumField) = f from rfl, hrec]
    simp

theorem tkEnumFields_length : ∀ fs : List EnumField, fs.length ≤ (tkEnumFields fs).length
  | [] => by simp [tkEnumFields]
  | f :: fs => by
    have := tkEnumFields_length fs
    simp only [tkEnumFields, List.length_cons]
    omega

theorem parseEnum_toks {e : Enum} {σa : Schema} {ts : List Token} {y : Tok} {R : List Tok}
    (h : Toks ts (tkEnum e ++ y :: R)) (hnd : (e.fields.map (·.name)).Nodup)
    (hfresh : σa.isTopUsed e.name = false) :
    ∃ ts', parseEnum σa ts = .ok { σa with enums := σa.enums ++ [e] } ts' ∧ Toks ts' (y :: R) := by
  simp only [tkEnum, List.cons_append, List.append_assoc, List.nil_append] at h
  obtain ⟨t1, r1, rfl, h1, h⟩ := h.cons_inv
  obtain ⟨t2, r2, rfl, h2, h⟩ := h.cons_inv
  obtain ⟨t3, r3, rfl, _, _⟩ := h.cons_inv
  obtain ⟨ts3, e3, h⟩ := eat_toks h (by
    intro hc
    have := congrArg List.length hc
    simp at this)
  have hlen : e.fields.length < ts3.length + 1 := by
    have := h.length
    have := tkEnumFields_length e.fields
    simp only [List.length_append, List.length_cons] at *
    omega
  obtain ⟨ts4, e4, h⟩ := parseEnumFields_toks e.fields (ts3.length + 1) [] ts3 (y :: R) h hlen
    (by simpa using hnd)
  obtain ⟨ts5, e5, h⟩ := eat_toks h (by simp)
  refine ⟨ts5, ?_, h⟩
  simp only [List.nil_append] at e4
  rw [show ({ name := e.name, fields := e.fields } : Enum) = e from rfl] at *
  simp [parseEnum, h2, hfresh, e3, e4, e5]

/-! ### package -/

theorem tkPkgPath_length : ∀ pkg : List Name, pkg.length ≤ (tkPkgPath pkg).length
  | [] => by simp [tkPkgPath]
  | [a] => by simp [tkPkgPath]
  | a :: b :: r => by
    have := tkPkgPath_length (b :: r)
    simp only [tkPkgPath, List.length_cons] at *
    omega

theorem parsePackageLoop_toks : ∀ (pkg : List Name) (fuel : Nat) (acc : List Name)
    (ts : List Token) (y : Tok) (R : List Tok), pkg ≠ [] →
    Toks ts (tkPkgPath pkg ++ y :: R) → y ≠ .punct '.' → pkg.length ≤ fuel →
    ∃ ts', parsePackageLoop fuel acc ts = .ok (acc ++ pkg) ts' ∧ Toks ts' (y :: R)
  | [], _, _, _, _, _, hne, _, _, _ => absurd rfl hne
  | [a], fuel, acc, ts, y, R, _, h, hy, hf => by
    obtain ⟨n, rfl⟩ : ∃ n, fuel = n + 1 := ⟨fuel - 1, by simp at hf; omega⟩
    simp only [tkPkgPath, List.cons_append, List.nil_append] at h
    obtain ⟨t1, r1, rfl, h1, h⟩ := h.cons_inv
    refine ⟨r1, ?_, h⟩
    have hadv := adv_of_toks (t := t1) h
    obtain ⟨t2, r2, rfl, h2, _⟩ := h.cons_inv
    have : t2.tok ≠ .punct '.' := by rw [h2]; exact hy
    simp [parsePackageLoop, h1, this]
  | a :: b :: r, fuel, acc, ts, y, R, _, h, hy, hf => by
    obtain ⟨n, rfl⟩ : ∃ n, fuel = n + 1 := ⟨fuel - 1, by simp at hf; omega⟩
    simp only [tkPkgPath, List.cons_append] at h
    obtain ⟨t1, r1, rfl, h1, h⟩ := h.cons_inv
    obtain ⟨t2, r2, rfl, h2, h⟩ := h.cons_inv
    obtain ⟨ts', hrec, hts'⟩ := parsePackageLoop_toks (b :: r) n (acc ++ [a]) r2 y R (by simp) h hy
      (by simp at hf ⊢; omega)
    refine ⟨ts', ?_, hts'⟩
    have hr2 : ∃ c L, Toks r2 (c :: L) := by
      cases r with
      | nil => exact ⟨_, _, h⟩
      | cons c r' => exact ⟨_, _, h⟩
    obtain ⟨c, L, hr2⟩ := hr2
    have hadv := adv_of_toks (t := t2) hr2
    rw [parsePackageLoop]
    simp only [cur_cons, h1, adv_cons2, h2, ↓reduceIte, hadv, hrec]
    simp

/-! ### the definition loop -/

inductive DefItem
  | en (e : Enum)
  | mm (m : Multimap)
  | st (s : Struct)

def DefItem.toks : DefItem → List Tok
  | .en e => tkEnum e
  | .mm m => tkMultimap m
  | .st s => tkStruct s

def DefItem.name : DefItem → Name
  | .en e => e.name
  | .mm m => m.name
  | .st s => s.name

/-- what the parser adds for a printed definition. -/
def DefItem.add (σ : Schema) : DefItem → Schema
  | .en e => { σ with enums := σ.enums ++ [e] }
  | .mm m => { σ with multimaps := σ.multimaps ++ [rawMultimap m] }
  | .st s => { σ with structs := σ.structs ++ [rawStruct s] }

def DefItem.Ok : DefItem → Prop
  | .en e => (e.fields.map (·.name)).Nodup
  | .mm m => MultimapP m ∧ m.key.inner.isEmpty = false ∧ m.value.inner.isEmpty = false
  | .st s => StructP s ∧ (∀ f ∈ s.fields, f.ty.inner.isEmpty = false) ∧
      (s.fields.map (·.name)).Nodup ∧ (s.isRoot = true → s.fields ≠ [])

def itemsToks : List DefItem → List Tok
  | [] => []
  | d :: ds => d.toks ++ itemsToks ds

theorem itemsToks_append (a b : List DefItem) : itemsToks (a ++ b) = itemsToks a ++ itemsToks b := by
  induction a with
  | nil => rfl
  | cons d ds ih => simp [itemsToks, ih]

/-- every definition starts with its keyword, which is not EOF. -/
theorem DefItem.toks_head (d : DefItem) :
    ∃ k L, d.toks = .kw k :: L ∧
      ((∃ e, d = .en e ∧ k = .enum) ∨ (∃ m, d = .mm m ∧ k = .multimap) ∨
       (∃ s, d = .st s ∧ k = (if s.oneOf then .oneof else .struct))) := by
  cases d with
  | en e => exact ⟨_, _, rfl, Or.inl ⟨e, rfl, rfl⟩⟩
  | mm m => exact ⟨_, _, rfl, Or.inr (Or.inl ⟨m, rfl, rfl⟩)⟩
  | st s =>
    by_cases ho : s.oneOf = true
    · refine ⟨.oneof, (tkStruct s).tail, ?_, Or.inr (Or.inr ⟨s, rfl, by simp [ho]⟩)⟩
      simp [DefItem.toks, tkStruct, tkStructHead, ho]
    · refine ⟨.struct, (tkStruct s).tail, ?_, Or.inr (Or.inr ⟨s, rfl, by simp [ho]⟩)⟩
      simp [DefItem.toks, tkStruct, tkStructHead, ho]

theorem itemsToks_length : ∀ D : List DefItem, D.length ≤ (itemsToks D).length
  | [] => by simp [itemsToks]
  | d :: ds => by
    have := itemsToks_length ds
    obtain ⟨k, L, e, _⟩ := d.toks_head
    simp only [itemsToks, e, List.length_cons, List.length_append]
    omega

theorem isTopUsed_add (σ : Schema) (d : DefItem) (n : Name) :
    (d.add σ).isTopUsed n = (σ.isTopUsed n || decide (d.name = n)) := by
  cases d with
  | en e =>
    simp only [DefItem.add, DefItem.name, Schema.isTopUsed, Schema.hasStruct, Schema.hasMultimap,
      Schema.hasEnum, List.any_append, List.any_cons, List.any_nil, Bool.or_false]
    ac_rfl
  | mm m =>
    simp only [DefItem.add, DefItem.name, Schema.isTopUsed, Schema.hasStruct, Schema.hasMultimap,
      Schema.hasEnum, List.any_append, List.any_cons, List.any_nil, Bool.or_false]
    have : (rawMultimap m).name = m.name := rfl
    rw [this]
    ac_rfl
  | st s =>
    simp only [DefItem.add, DefItem.name, Schema.isTopUsed, Schema.hasStruct, Schema.hasMultimap,
      Schema.hasEnum, List.any_append, List.any_cons, List.any_nil, Bool.or_false]
    have : (rawStruct s).name = s.name := rfl
    rw [this]
    ac_rfl

/-- one printed definition: one round of the loop of `parseDefs`. -/
theorem parseDefs_step {d : DefItem} {σa : Schema} {ts : List Token} {y : Tok} {R : List Tok}
    (n : Nat) (h : Toks ts (d.toks ++ y :: R)) (hok : d.Ok) (hfresh : σa.isTopUsed d.name = false) :
    ∃ ts', Toks ts' (y :: R) ∧ parseDefs (n + 1) σa ts =
      (if y = .eof then .ok (d.add σa) ts' else parseDefs n (d.add σa) ts') := by
  obtain ⟨k, L, hk, hcase⟩ := d.toks_head
  have hcur : (cur ts).tok = .kw k := by
    rw [hk] at h
    obtain ⟨t, r, rfl, ht, _⟩ := h.cons_inv
    exact ht
  rcases hcase with ⟨e, rfl, rfl⟩ | ⟨m, rfl, rfl⟩ | ⟨s, rfl, rfl⟩
  · obtain ⟨ts', e1, e2⟩ := parseEnum_toks (σa := σa) h hok hfresh
    refine ⟨ts', e2, ?_⟩
    obtain ⟨t, r, rfl, ht, _⟩ := e2.cons_inv
    rw [parseDefs]
    simp only [hcur, e1, cur_cons, ht, DefItem.add]
  · obtain ⟨ts', e1, e2⟩ := parseMultimap_toks (σa := σa) h hok.1 hok.2.1 hok.2.2 hfresh
    refine ⟨ts', e2, ?_⟩
    obtain ⟨t, r, rfl, ht, _⟩ := e2.cons_inv
    rw [parseDefs]
    simp only [hcur, e1, cur_cons, ht, DefItem.add]
  · obtain ⟨ts', e1, e2⟩ := parseStruct_toks (σa := σa) h hok.1 hok.2.1 hok.2.2.1 hok.2.2.2 hfresh
    refine ⟨ts', e2, ?_⟩
    obtain ⟨t, r, rfl, ht, _⟩ := e2.cons_inv
    by_cases ho : s.oneOf = true
    · rw [ho] at e1
      simp only [ho, ↓reduceIte] at hcur
      rw [parseDefs]
      simp only [hcur, e1, cur_cons, ht, DefItem.add]
    · have ho' : s.oneOf = false := by simpa using ho
      rw [ho'] at e1
      simp only [ho', Bool.false_eq_true, ↓reduceIte] at hcur
      rw [parseDefs]
      simp only [hcur, e1, cur_cons, ht, DefItem.add]

theorem parseDefs_toks : ∀ (D : List DefItem) (fuel : Nat) (σa : Schema) (ts : List Token),
    D ≠ [] → Toks ts (itemsToks D ++ [.eof]) → D.length < fuel → (∀ d ∈ D, d.Ok) →
    (∀ d ∈ D, σa.isTopUsed d.name = false) → (D.map (·.name)).Nodup →
    ∃ ts', parseDefs fuel σa ts = .ok (D.foldl DefItem.add σa) ts'
  | [], _, _, _, hne, _, _, _, _, _ => absurd rfl hne
  | d :: ds, fuel, σa, ts, _, h, hf, hok, hfresh, hnd => by
    obtain ⟨n, rfl⟩ : ∃ n, fuel = n + 1 := ⟨fuel - 1, by omega⟩
    simp only [itemsToks, List.append_assoc] at h
    simp only [List.map_cons, List.nodup_cons] at hnd
    cases ds with
    | nil =>
      simp only [itemsToks, List.nil_append] at h
      obtain ⟨ts', _, e1⟩ := parseDefs_step n (σa := σa) h (hok d (by simp)) (hfresh d (by simp))
      exact ⟨ts', by simpa using e1⟩
    | cons d2 ds2 =>
      obtain ⟨k, L, hk, _⟩ := d2.toks_head
      have hy : itemsToks (d2 :: ds2) ++ [Tok.eof] = .kw k :: (L ++ itemsToks ds2 ++ [Tok.eof]) := by
        simp [itemsToks, hk]
      rw [hy] at h
      obtain ⟨ts', e2, e1⟩ := parseDefs_step n (σa := σa) h (hok d (by simp)) (hfresh d (by simp))
      rw [← hy] at e2
      obtain ⟨ts'', hrec⟩ := parseDefs_toks (d2 :: ds2) n (d.add σa) ts' (by simp) e2
        (by simp at hf ⊢; omega) (fun x hx => hok x (by simp [hx]))
        (by
          intro x hx
          rw [isTopUsed_add, hfresh x (by simp [hx])]
          simp only [Bool.false_or, decide_eq_false_iff_not]
          intro hdx
          exact hnd.1 (by rw [hdx]; exact List.mem_map_of_mem hx))
        hnd.2
      refine ⟨ts'', ?_⟩
      rw [e1]
      simpa using hrec

/-! ### the grammar phase on a printed schema -/

def items (σ : Schema) : List DefItem :=
  (sortBy (·.name) σ.enums).map .en ++ (sortBy (·.name) σ.multimaps).map .mm
    ++ (sortBy (·.name) σ.structs).map .st

theorem itemsToks_en : ∀ es : List Enum, itemsToks (es.map .en) = tkEnums es
  | [] => rfl
  | e :: es => by simp [itemsToks, tkEnums, DefItem.toks, itemsToks_en es]

theorem itemsToks_mm : ∀ ms : List Multimap, itemsToks (ms.map .mm) = tkMultimaps ms
  | [] => rfl
  | m :: ms => by simp [itemsToks, tkMultimaps, DefItem.toks, itemsToks_mm ms]

theorem itemsToks_st : ∀ ss : List Struct, itemsToks (ss.map .st) = tkStructs ss
  | [] => rfl
  | x :: ss => by simp [itemsToks, tkStructs, DefItem.toks, itemsToks_st ss]

theorem tkDefs_eq (σ : Schema) : tkDefs σ = itemsToks (items σ) := by
  simp [tkDefs, items, itemsToks_append, itemsToks_en, itemsToks_mm, itemsToks_st]

theorem foldl_en : ∀ (es : List Enum) (σa : Schema),
    (es.map DefItem.en).foldl DefItem.add σa = { σa with enums := σa.enums ++ es }
  | [], σa => by simp
  | e :: es, σa => by simp [foldl_en es, DefItem.add]

theorem foldl_mm : ∀ (ms : List Multimap) (σa : Schema),
    (ms.map DefItem.mm).foldl DefItem.add σa =
      { σa with multimaps := σa.multimaps ++ ms.map rawMultimap }
  | [], σa => by simp
  | m :: ms, σa => by simp [foldl_mm ms, DefItem.add]

theorem foldl_st : ∀ (ss : List Struct) (σa : Schema),
    (ss.map DefItem.st).foldl DefItem.add σa =
      { σa with structs := σa.structs ++ ss.map rawStruct }
  | [], σa => by simp
  | x :: ss, σa => by simp [foldl_st ss, DefItem.add]

theorem foldl_items (σ : Schema) :
    (items σ).foldl DefItem.add { pkg := σ.pkg } = rawSchema σ := by
  simp [items, List.foldl_append, foldl_en, foldl_mm, foldl_st, rawSchema]

theorem items_names_perm (σ : Schema) : ((items σ).map (·.name)).Perm σ.topNames := by
  have he : ((sortBy (·.name) σ.enums).map DefItem.en).map (·.name) = (sortBy (·.name) σ.enums).map (·.name) := by
    simp [List.map_map, Function.comp_def, DefItem.name]
  have hm : ((sortBy (·.name) σ.multimaps).map DefItem.mm).map (·.name) = (sortBy (·.name) σ.multimaps).map (·.name) := by
    simp [List.map_map, Function.comp_def, DefItem.name]
  have hs : ((sortBy (·.name) σ.structs).map DefItem.st).map (·.name) = (sortBy (·.name) σ.structs).map (·.name) := by
    simp [List.map_map, Function.comp_def, DefItem.name]
  simp only [items, List.map_append, he, hm, hs, Schema.topNames]
  have pe := (sortBy_perm (·.name) σ.enums).map (·.name)
  have pm := (sortBy_perm (·.name) σ.multimaps).map (·.name)
  have ps := (sortBy_perm (·.name) σ.structs).map (·.name)
  refine ((pe.append pm).append ps).trans ?_
  refine (List.perm_append_comm).trans ?_
  rw [List.append_assoc]
  exact List.Perm.append_left _ List.perm_append_comm

theorem items_ok {σ : Schema} (hpp : PP σ) (hwf : σ.WF) : ∀ d ∈ items σ, d.Ok := by
  intro d hd
  simp only [items, List.mem_append, List.mem_map] at hd
  rcases hd with (⟨e, he, rfl⟩ | ⟨m, hm, rfl⟩) | ⟨x, hx, rfl⟩
  · exact hwf.enum_members_unique e ((sortBy_perm _ _).mem_iff.1 he)
  · have hm' := (sortBy_perm _ _).mem_iff.1 hm
    refine ⟨hpp.multimaps m hm', ?_, ?_⟩
    · exact hwf.no_empty_type m.key (mem_allTypes.2 (Or.inr ⟨m, hm', by simp [Multimap.types]⟩))
    · exact hwf.no_empty_type m.value (mem_allTypes.2 (Or.inr ⟨m, hm', by simp [Multimap.types]⟩))
  · have hx' := (sortBy_perm _ _).mem_iff.1 hx
    refine ⟨hpp.structs x hx', ?_, hwf.fields_unique x hx', hwf.root_nonempty x hx'⟩
    intro f hf
    exact hwf.no_empty_type f.ty (mem_allTypes.2 (Or.inl ⟨x, hx', by
      simp only [Struct.types, List.mem_map]; exact ⟨f, hf, rfl⟩⟩))

/-- a schema without definitions: the grammar phase rebuilds the empty schema. -/
theorem rawSchema_of_items_nil {σ : Schema} (h : items σ = []) : rawSchema σ = { pkg := σ.pkg } := by
  simp only [items, List.append_eq_nil_iff, List.map_eq_nil_iff] at h
  simp [rawSchema, h.1.1, h.1.2, h.2]

/-- The grammar phase run on (any token list with the kinds of) the printed text of `σ`
    rebuilds `σ` with unresolved type references, definitions in printing order. A schema
    without definitions prints as its package clause only, which `Parser.Parse` accepts (the
    definition loop is `for token != EOF`). -/
theorem grammar_toks {σ : Schema} {ts : List Token} (h : Toks ts (tkSchema σ)) (hpp : PP σ)
    (hwf : σ.WF) : ∃ ts', grammar ts = .ok (rawSchema σ) ts' := by
  simp only [tkSchema, tkDefs_eq, List.append_assoc] at h
  by_cases hne : items σ = []
  · rw [hne] at h
    simp only [itemsToks, List.nil_append] at h
    obtain ⟨ts1, e1, h1⟩ := eat_toks h (by simp)
    obtain ⟨ts2, e2, h2⟩ := parsePackageLoop_toks σ.pkg (ts1.length + 1) [] ts1 .eof [] hpp.pkg_ne h1
      (by simp) (by
        have := h1.length
        have := tkPkgPath_length σ.pkg
        simp only [List.length_append, List.length_cons] at *
        omega)
    obtain ⟨t, r, rfl, ht, _⟩ := h2.cons_inv
    refine ⟨t :: r, ?_⟩
    simp only [List.nil_append] at e2
    simp [grammar, parsePackage, e1, e2, ht, rawSchema_of_items_nil hne]
  obtain ⟨k, L, hk⟩ : ∃ k L, itemsToks (items σ) ++ [Tok.eof] = .kw k :: L := by
    cases hi : items σ with
    | nil => exact absurd hi hne
    | cons d ds =>
      obtain ⟨k, L, e, _⟩ := d.toks_head
      exact ⟨k, L ++ itemsToks ds ++ [.eof], by simp [itemsToks, e]⟩
  obtain ⟨ts1, e1, h1⟩ := eat_toks h (by
    intro hc
    have := congrArg List.length hc
    rw [hk] at this
    simp at this)
  rw [hk] at h1
  obtain ⟨ts2, e2, h2⟩ := parsePackageLoop_toks σ.pkg (ts1.length + 1) [] ts1 (.kw k) L hpp.pkg_ne h1
    (by simp) (by
      have := h1.length
      have := tkPkgPath_length σ.pkg
      simp only [List.length_append, List.length_cons] at *
      omega)
  have hcur : (cur ts2).tok ≠ .eof := by
    obtain ⟨t, r, rfl, ht, _⟩ := h2.cons_inv
    simp [ht]
  rw [← hk] at h2
  obtain ⟨ts3, e3⟩ := parseDefs_toks (items σ) (ts2.length + 1) { pkg := σ.pkg } ts2 hne h2
    (by
      have := h2.length
      have := itemsToks_length (items σ)
      simp only [List.length_append, List.length_cons] at *
      omega)
    (items_ok hpp hwf) (by intro d _; rfl)
    ((items_names_perm σ).nodup_iff.2 hwf.top_unique)
  refine ⟨ts3, ?_⟩
  rw [foldl_items] at e3
  simp only [List.nil_append] at e2
  simp [grammar, parsePackage, e1, e2, e3, hcur]

end Stef.Idl
