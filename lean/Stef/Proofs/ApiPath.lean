/-
  `applyAt_pres`: what a call guarantees at its target (`Pres`) it guarantees at the record root,
  along any navigation path. `call_snd`: the invariant `Snd` is preserved by every public API call
  whose target operation satisfies `Pres`.
-/
import Stef.Proofs.ApiCopy

set_option linter.unusedSimpArgs false

namespace Stef.Api
open Stef Stef.Spec Stef.SpecEnc

theorem isDictNode_struct (C : Ctx) (n : String) (m p : Nat) (fr : Bool) (fs : List AS) :
    C.isDictNode (.struct n m p fr fs) = C.isDictName n := rfl

theorem applyAt_pres (C : Ctx) (f : AS → R (AS × Up))
    (hf : ∀ w w' u, C.isDictNode w = false → f w = .ok (w', u) → Pres C w w' u) :
    ∀ (path : List Step) (w w' : AS) (u : Up), C.isDictNode w = false → applyAt C f path w = .ok (w', u) →
    Pres C w w' u
  | [], w, w', u, hnd, h => by
    simp only [applyAt] at h
    exact hf w w' u hnd h
  | .field i :: rest, .struct n m p fr fs, w', u, hnd, h => by
    simp only [applyAt] at h
    split at h
    · simp at h
    · simp at h
    · rename_i c hc hnil
      cases fr with
      | true => simp [throw, throwThe, MonadExceptOf.throw, bind, Except.bind] at h
      | false =>
        by_cases hd : C.isDictNode c = true
        · simp [hd, throw, throwThe, MonadExceptOf.throw, bind, Except.bind] at h
        · cases hr : applyAt C f rest c with
          | error e => simp [hd, hr, bind, Except.bind] at h
          | ok r =>
            obtain ⟨c', uc⟩ := r
            simp only [hd, hr, bind, Except.bind, Bool.false_eq_true, if_false, Except.ok.injEq, Prod.mk.injEq, setNth] at h
            obtain ⟨rfl, rfl⟩ := h
            have ih := applyAt_pres C f hf rest c c' uc (by simpa using hd) hr
            exact pres_field C n m p false fs i c c' uc hnil ih (by simp)
  | .alt k :: rest, .oneof n t as, w', u, _, h => by
    simp only [applyAt] at h
    split at h
    · simp at h
    · simp at h
    · rename_i c hc hnil
      by_cases hk : k = 0
      · simp [hk, throw, throwThe, MonadExceptOf.throw, bind, Except.bind] at h
      · by_cases hd : C.isDictNode c = true
        · simp [hk, hd, throw, throwThe, MonadExceptOf.throw, bind, Except.bind] at h
        · cases hr : applyAt C f rest c with
          | error e => simp [hk, hd, hr, bind, Except.bind] at h
          | ok r =>
            obtain ⟨c', uc⟩ := r
            simp only [hk, hd, hr, bind, Except.bind, Bool.false_eq_true, if_false, Except.ok.injEq, Prod.mk.injEq, setNth] at h
            obtain ⟨rfl, rfl⟩ := h
            have ih := applyAt_pres C f hf rest c c' uc (by simpa using hd) hr
            exact pres_alt C n t as k c c' uc hnil ih
  | .at i :: rest, .arr e es hid, w', u, _, h => by
    simp only [applyAt] at h
    split at h
    · simp at h
    · rename_i c hnil
      by_cases hd : C.isDictNode c = true
      · simp [hd, throw, throwThe, MonadExceptOf.throw, bind, Except.bind] at h
      · cases hr : applyAt C f rest c with
        | error e => simp [hd, hr, bind, Except.bind] at h
        | ok r =>
          obtain ⟨c', uc⟩ := r
          simp only [hd, hr, bind, Except.bind, Bool.false_eq_true, if_false, Except.ok.injEq, Prod.mk.injEq, setNth] at h
          obtain ⟨rfl, rfl⟩ := h
          have ih := applyAt_pres C f hf rest c c' uc (by simpa using hd) hr
          exact pres_at C e es hid i c c' uc hnil ih
  | .key i :: rest, .mmap n ps hid k v ml, w', u, _, h => by
    simp only [applyAt] at h
    split at h
    · simp at h
    · rename_i a b hnil
      by_cases hd : C.isDictNode a = true
      · simp [hd, throw, throwThe, MonadExceptOf.throw, bind, Except.bind] at h
      · cases hr : applyAt C f rest a with
        | error e => simp [hd, hr, bind, Except.bind] at h
        | ok r =>
          obtain ⟨a', uc⟩ := r
          simp only [hd, hr, bind, Except.bind, Bool.false_eq_true, if_false, Except.ok.injEq, Prod.mk.injEq, setNth] at h
          obtain ⟨rfl, rfl⟩ := h
          have ih := applyAt_pres C f hf rest a a' uc (by simpa using hd) hr
          exact pres_key C n ps hid k v ml i a b a' uc hnil ih.snd ih.sync
  | .val i :: rest, .mmap n ps hid k v ml, w', u, _, h => by
    simp only [applyAt] at h
    split at h
    · simp at h
    · rename_i a b hnil
      by_cases hd : C.isDictNode b = true
      · simp [hd, throw, throwThe, MonadExceptOf.throw, bind, Except.bind] at h
      · cases hr : applyAt C f rest b with
        | error e => simp [hd, hr, bind, Except.bind] at h
        | ok r =>
          obtain ⟨b', uc⟩ := r
          simp only [hd, hr, bind, Except.bind, Bool.false_eq_true, if_false, Except.ok.injEq, Prod.mk.injEq, setNth] at h
          obtain ⟨rfl, rfl⟩ := h
          have ih := applyAt_pres C f hf rest b b' uc (by simpa using hd) hr
          exact pres_val C n ps hid k v ml i a b b' uc hnil ih.snd ih.sync
  | .field _ :: _, .prim _, _, _, _, h | .field _ :: _, .nil, _, _, _, h | .field _ :: _, .oneof .., _, _, _, h
  | .field _ :: _, .arr .., _, _, _, h | .field _ :: _, .mmap .., _, _, _, h => by simp [applyAt] at h
  | .alt _ :: _, .prim _, _, _, _, h | .alt _ :: _, .nil, _, _, _, h | .alt _ :: _, .struct .., _, _, _, h
  | .alt _ :: _, .arr .., _, _, _, h | .alt _ :: _, .mmap .., _, _, _, h => by simp [applyAt] at h
  | .at _ :: _, .prim _, _, _, _, h | .at _ :: _, .nil, _, _, _, h | .at _ :: _, .struct .., _, _, _, h
  | .at _ :: _, .oneof .., _, _, _, h | .at _ :: _, .mmap .., _, _, _, h => by simp [applyAt] at h
  | .key _ :: _, .prim _, _, _, _, h | .key _ :: _, .nil, _, _, _, h | .key _ :: _, .struct .., _, _, _, h
  | .key _ :: _, .oneof .., _, _, _, h | .key _ :: _, .arr .., _, _, _, h => by simp [applyAt] at h
  | .val _ :: _, .prim _, _, _, _, h | .val _ :: _, .nil, _, _, _, h | .val _ :: _, .struct .., _, _, _, h
  | .val _ :: _, .oneof .., _, _, _, h | .val _ :: _, .arr .., _, _, _, h => by simp [applyAt] at h

/-! ## every call -/

def Op.isCopy : Op → Bool
  | .copyFrom _ => true
  | _ => false

theorem applyOp_pres (C : Ctx) (op : Op) (w w' : AS) (u : Up) (hnd : C.isDictNode w = false)
    (h : applyOp C op w = .ok (w', u)) : Pres C w w' u := by
  cases op with
  | setPrim i v => exact setPrim_pres C i v w w' u hnd h
  | unset i => exact unset_pres C i w w' u hnd h
  | setPresent i => exact setPresent_pres C i w w' u hnd h
  | setObj i v => exact setObj_pres C i v w w' u hnd h
  | copyFrom src => exact copyFrom_pres C src w w' u h
  | setType k => exact setType_pres C k w w' u h
  | setAlt k v => exact setAlt_pres C k v w w' u h
  | ensureLen n => exact ensureLen_pres C n w w' u h
  | append v => exact append_pres C v w w' u h
  | appendObj v => exact appendObj_pres C v w w' u h
  | copyFromSlice vs => exact copyFromSlice_pres C vs w w' u h
  | setKey i v => exact setKey_pres C i v w w' u h
  | setValue i v => exact setValue_pres C i v w w' u h
  | setKeyObj i v => exact setKeyObj_pres C i v w w' u h
  | setValueObj i v => exact setValueObj_pres C i v w w' u h
  | appendKV k v => exact appendKV_pres C k v w w' u h

/-- **call_snd**: a public API call (navigation path + method, any arguments, CopyFrom included) on a
    record whose marks are sound against the reader's value leaves them sound (`ℓ = false`; with
    `ℓ = true`: up-closed marks stay up-closed). -/
theorem call_sndG (C : Ctx) (ℓ : Bool) (path : List Step) (op : Op) (w w' : AS) (R : Option St)
    (hnd : C.isDictNode w = false) (h : call C path op w = .ok w') (hs : SndG C ℓ w R) : SndG C ℓ w' R := by
  unfold call at h
  cases hr : applyAt C (applyOp C op) path w with
  | error e => simp [hr, Except.map] at h
  | ok r =>
    obtain ⟨w1, u⟩ := r
    simp only [hr, Except.map, Except.ok.injEq] at h
    subst h
    exact (applyAt_pres C (applyOp C op) (fun a a' ua hnd ha => applyOp_pres C op a a' ua hnd ha) path w w1 u hnd hr).snd ℓ R hs

theorem call_snd (C : Ctx) (path : List Step) (op : Op) (w w' : AS) (R : Option St)
    (hnd : C.isDictNode w = false) (h : call C path op w = .ok w') (hs : Snd C w R) : Snd C w' R :=
  call_sndG C false path op w w' R hnd h hs

end Stef.Api
