/-
  UvarintCompact: the Go write tables (regenerated into Stef.Gen.Tables) against the
  specification's prefix table, and the round trip through the specification decoder.
-/
import Stef.Proofs.Bits
import Stef.Proofs.Codec

namespace Stef.Uvc
open Stef Stef.Spec

/-- the bits `WriteUvarintCompact(v)` hands to `WriteBits` -/
def uvcBits (v : Word) : Bits :=
  lowBits (v ||| Gen.writeMaskByZeros v.clz.toNat) (Gen.writeBitsCountByZeros v.clz.toNat)

/-- table check for one leading-zero class `z`: it is one of the eight classes of the
    specification (k prefix zeros, a one, p payload bits) and the payload is wide enough. -/
def classOk (z k : Nat) : Bool :=
  match uvcPayload k with
  | some p => Gen.writeBitsCountByZeros z == k + 1 + p && Gen.writeMaskByZeros z == 1#64 <<< p
              && decide (64 - z ≤ p) && decide (k + 1 + p ≤ 64)
  | none => false

def classOf (z : Nat) : Option Nat := (List.range 8).find? (classOk z)

/-- every class of values below 2^48 (16..64 leading zeros) is served by the write tables
    exactly as the specification's prefix table demands. Checked over the whole (finite) table. -/
theorem write_tables_ok : ∀ z ∈ List.range 65, 16 ≤ z → (classOf z).isSome = true := by decide

theorem lowBits_one (k : Nat) (_hk : k + 1 ≤ 64) : lowBits 1#64 (k + 1) = List.replicate k false ++ [true] := by
  apply List.ext_getElem
  · simp [lowBits]
  · intro i h1 h2
    have hi : i < k + 1 := by simpa [lowBits] using h1
    simp only [lowBits, List.getElem_map, List.getElem_range, List.getElem_append, List.length_replicate]
    by_cases h : i < k
    · simp only [h, ↓reduceDIte, List.getElem_replicate]
      have : k + 1 - 1 - i ≠ 0 := by omega
      simp [BitVec.getLsbD_one]
      omega
    · have : k + 1 - 1 - i = 0 := by omega
      simp [h]
      omega

theorem countZeros_prefix (k : Nat) (rest : Bits) (f acc : Nat) (hf : k < f) :
    countZeros f (List.replicate k false ++ true :: rest) acc = some (acc + k, rest) := by
  induction k generalizing f acc with
  | zero =>
    cases f with
    | zero => omega
    | succ f => simp [countZeros]
  | succ k ih =>
    cases f with
    | zero => omega
    | succ f =>
      simp only [List.replicate_succ, List.cons_append, countZeros]
      rw [ih f (acc + 1) (by omega)]
      congr 2; omega

theorem lz_ge_16 (v : Word) (hv : v.toNat < 2 ^ 48) : 16 ≤ v.clz.toNat := by
  by_cases h0 : v = 0#64
  · subst h0; decide
  · have h1 := BitVec.two_pow_sub_clz_le_toNat_of_ne_zero (x := v) (by omega) h0
    have h2 : 2 ^ (64 - 1 - v.clz.toNat) < 2 ^ 48 := Nat.lt_of_le_of_lt h1 hv
    have := (Nat.pow_lt_pow_iff_right (by omega : 1 < 2)).mp h2
    omega

theorem lz_le_64 (v : Word) : v.clz.toNat ≤ 64 := by
  have := BitVec.clz_le (x := v)
  have h2 := BitVec.le_def.mp this
  simpa using h2

/-- **uvc_roundtrip**: for every value below 2^48 and whatever bits follow, the specification
    decoder reads back the value from the bits the Go write tables produce, consuming exactly
    those bits. -/
theorem uvc_roundtrip (v : Word) (rest : Bits) (hv : v.toNat < 2 ^ 48) :
    readUvc (uvcBits v ++ rest) = some (v, rest) := by
  have hz16 := lz_ge_16 v hv
  have hz64 := lz_le_64 v
  generalize hz : v.clz.toNat = z at hz16 hz64
  have hcls := write_tables_ok z (by simp; omega) hz16
  have hbound : v.toNat < 2 ^ (64 - z) := by rw [← hz]; exact BitVec.toNat_lt_two_pow_sub_clz
  unfold classOf at hcls
  obtain ⟨k, hk⟩ := Option.isSome_iff_exists.mp hcls
  have hkmem := List.mem_of_find?_eq_some hk
  have hkok := List.find?_some hk
  have hk8 : k < 8 := by simpa using hkmem
  unfold classOk at hkok
  cases hp : uvcPayload k with
  | none => simp [hp] at hkok
  | some p =>
    simp only [hp, Bool.and_eq_true, beq_iff_eq, decide_eq_true_eq] at hkok
    obtain ⟨⟨⟨hc, hm⟩, hzp⟩, h64⟩ := hkok
    have hvp : v.toNat < 2 ^ p := Nat.lt_of_lt_of_le hbound (Nat.pow_le_pow_right (by omega) hzp)
    unfold uvcBits
    rw [hz, hc, hm]
    have hcomm : v ||| 1#64 <<< p = (1#64 <<< p) ||| v := BitVec.or_comm _ _
    rw [hcomm, lowBits_concat 1#64 v (k + 1) p h64 hvp, lowBits_one k (by omega)]
    unfold readUvc
    simp only [List.append_assoc, List.singleton_append, List.cons_append]
    rw [countZeros_prefix k _ 8 0 hk8]
    simp only [Nat.zero_add, hp]
    exact readBits_lowBits v p rest (by omega) hvp

def readClassOk (k : Nat) : Bool :=
  match uvcPayload k with
  | some p => Gen.readConsumeCountByZeros (8 + k) == k + 1 + p &&
              Gen.readShiftByZeros (8 + k) == 56 - (k + 1 + p) &&
              Gen.readMaskByZeros (8 + k) == BitVec.ofNat 64 (2 ^ p - 1)
  | none => false

/-- the Go READ tables agree with the specification's prefix table on all eight classes:
    shift, mask and consumed bit count (index = leading zeros of the 56-bit peek window). -/
theorem read_tables_ok : ∀ k ∈ List.range 8, readClassOk k = true := by decide

end Stef.Uvc

namespace Stef.Uvc
open Stef Stef.Spec

/-- `BitsWriter.WriteUvarintCompact(v)` appends exactly `uvcBits v` at every register fill
    level, for every value below 2^48. -/
theorem writeUvarintCompact_spec (w : BitsWriter) (v : Word) (hI : w.Inv) (hv : v.toNat < 2 ^ 48) :
    (w.writeUvarintCompact v).1.toBits = w.toBits ++ uvcBits v ∧ (w.writeUvarintCompact v).1.Inv := by
  have hz16 := lz_ge_16 v hv
  have hz64 := lz_le_64 v
  unfold BitsWriter.writeUvarintCompact uvcBits
  generalize hz : v.clz.toNat = z at hz16 hz64
  have hcls := write_tables_ok z (by simp; omega) hz16
  have hbound : v.toNat < 2 ^ (64 - z) := by rw [← hz]; exact BitVec.toNat_lt_two_pow_sub_clz
  unfold classOf at hcls
  obtain ⟨k, hk⟩ := Option.isSome_iff_exists.mp hcls
  have hkok := List.find?_some hk
  unfold classOk at hkok
  cases hp : uvcPayload k with
  | none => simp [hp] at hkok
  | some p =>
    simp only [hp, Bool.and_eq_true, beq_iff_eq, decide_eq_true_eq] at hkok
    obtain ⟨⟨⟨hc, hm⟩, hzp⟩, h64⟩ := hkok
    have hvp : v.toNat < 2 ^ p := Nat.lt_of_lt_of_le hbound (Nat.pow_le_pow_right (by omega) hzp)
    have hfit : (v ||| Gen.writeMaskByZeros z).toNat < 2 ^ Gen.writeBitsCountByZeros z := by
      rw [hm, hc, BitVec.toNat_or]
      have hp64 : p < 64 := by omega
      have h1 : (1#64 <<< p).toNat < 2 ^ (p + 1) := by
        rw [BitVec.toNat_shiftLeft, Nat.shiftLeft_eq]
        have e1 : (1#64).toNat = 1 := by decide
        rw [e1, Nat.one_mul]
        have hlt : (2:Nat) ^ p < 2 ^ 64 := Nat.pow_lt_pow_right (by omega) hp64
        rw [Nat.mod_eq_of_lt hlt]
        exact Nat.pow_lt_pow_right (by omega) (by omega)
      have h2 : v.toNat < 2 ^ (p + 1) := Nat.lt_of_lt_of_le hvp (Nat.pow_le_pow_right (by omega) (by omega))
      have h3 := Nat.or_lt_two_pow h2 h1
      exact Nat.lt_of_lt_of_le h3 (Nat.pow_le_pow_right (by omega) (by omega))
    have := BitsWriter.writeBits_spec w (v ||| Gen.writeMaskByZeros z) (Gen.writeBitsCountByZeros z) hI
      (by rw [hc]; exact h64) hfit
    exact this

end Stef.Uvc
