/-
  Whole streams: the bytes `SpecEnc.encodeStream` produces are decoded by `Spec.decodeStream` to
  the effective records, without error and without a dictionary violation.
-/
import Stef.Proofs.SpecEncContainer
import Stef.Proofs.Override

namespace Stef.SpecEnc
open Stef Stef.Spec

theorem size_resetFor' (flags : Nat) (ds : DS) : (resetFor flags ds).cols.size = ds.cols.size := size_resetFor flags ds

theorem dv_resetFor (flags : Nat) (ds : DS) : (resetFor flags ds).dictViolations = ds.dictViolations := by
  unfold resetFor
  by_cases hd : flags % 2 = 1 <;> by_cases hc : flags / 4 % 2 = 1 <;> simp [hd, hc, DS.resetDicts]

/-- what the checked frame encoder guarantees, frame by frame -/
theorem streamFrames_matches (σ : Schema) (root : Node) (ncols : Nat) :
    ∀ (ins : List FrameIn) (frames : List Frame) (evss : List (List Ev)) (cur : St) (es es' : DS) (effss : List (List St)),
      encodeStreamFrames σ root ncols ins cur es = some (frames, evss, es', effss) →
      encodeFrames σ root ins cur es = some (evss, es', effss) ∧
      StreamMatches root (colKinds 10000 root) ncols ins evss frames ∧
      (∀ f ∈ frames, f.flags ≤ 7 ∧ f.content.length ≤ 67108864) ∧
      es'.dictViolations = es.dictViolations := by
  intro ins
  induction ins with
  | nil =>
    intro frames evss cur es es' effss h
    simp only [encodeStreamFrames, Option.some.injEq, Prod.mk.injEq] at h
    obtain ⟨rfl, rfl, rfl, rfl⟩ := h
    exact ⟨rfl, trivial, by simp, rfl⟩
  | cons fr rest ih =>
    intro frames evss cur es es' effss h
    simp only [encodeStreamFrames] at h
    split at h
    · simp at h
    · rename_i f evs es1 effs hframe
      split at h
      · simp at h
      · rename_i fs evss' es2 effss' hrest
        simp only [Option.some.injEq, Prod.mk.injEq] at h
        obtain ⟨rfl, rfl, rfl, rfl⟩ := h
        obtain ⟨i1, i2, i3, i4⟩ := ih fs evss' _ es1 es2 effss' hrest
        unfold encodeFrameBytes at hframe
        split at hframe
        · simp at hframe
        · rename_i evs0 es0 effs0 hrec
          simp only at hframe
          split at hframe
          · rename_i hc
            obtain ⟨hok, hfuel, hfl, hlen⟩ := hc
            simp only [Option.some.injEq, Prod.mk.injEq] at hframe
            obtain ⟨rfl, rfl, rfl, rfl⟩ := hframe
            refine ⟨?_, ?_, ?_, ?_⟩
            · simp only [encodeFrames, hrec, i1]
            · exact ⟨rfl, hfuel, frameContent_carries root ncols _ _ evs0 hok, i2⟩
            · intro f hf
              simp only [List.mem_cons] at hf
              rcases hf with rfl | hf
              · exact ⟨hfl, hlen⟩
              · exact i3 f hf
            · rw [i4, dv_encodeRecords _ _ _ _ _ _ _ _ _ hrec, dv_resetFor]
          · simp at hframe

/-! ### the envelope -/

theorem readFrames_frames : ∀ (frames : List Frame) (acc : List Frame) (fuel : Nat), frames.length < fuel →
    (∀ f ∈ frames, f.flags ≤ 7 ∧ f.content.length ≤ 67108864) →
    readFrames fuel (frames.flatMap frameBytes) acc = .ok (acc.reverse ++ frames) := by
  intro frames
  induction frames with
  | nil =>
    intro acc fuel hf _
    cases fuel with
    | zero => omega
    | succ fuel => simp [readFrames]
  | cons f fs ih =>
    intro acc fuel hf hok
    cases fuel with
    | zero => omega
    | succ fuel =>
      obtain ⟨hfl, hlen⟩ := hok f (by simp)
      have hb : (BitVec.ofNat 8 f.flags).toNat = f.flags := by
        simp only [BitVec.toNat_ofNat]; omega
      simp only [List.flatMap_cons, frameBytes, List.cons_append, List.append_assoc, readFrames, hb]
      have hng : ¬ f.flags > 7 := by omega
      simp only [hng, ↓reduceIte, bind, Except.bind, pure, Except.pure]
      rw [needVar_encodeNat _ _ (by omega)]
      have hnl : ¬ f.content.length > 67108864 := by omega
      simp only [hnl, ↓reduceIte]
      rw [needTake_append]
      simp only
      rw [ih _ fuel (by simp at hf; omega) (fun g hg => hok g (by simp [hg]))]
      simp

theorem readFixedHeader_prefix (body : Bytes) :
    readFixedHeader (Spec.sig ++ [2#8, 0#8, 0#8] ++ body) = .ok (0, body) := by
  simp [readFixedHeader, Spec.sig, needTake, takeBytes, needVar, Varint.decode, Varint.decodeAux, bind, Except.bind,
    pure, Except.pure]

theorem readVarHeader_empty : readVarHeader [0#8, 0#8] = .ok (none, []) := by
  simp [readVarHeader, needTake, takeBytes, needVar, Varint.decode, Varint.decodeAux, readUser, bind, Except.bind,
    pure, Except.pure]

theorem fresh_withInputs (ncols : Nat) :
    ({ cols := Array.replicate ncols {} } : DS) = withInputs (fun _ => ([], [], 0)) { cols := Array.replicate ncols {} } := by
  apply ds_ext
  · simp [size_withInputs]
  · intro i hi
    rw [col_withInputs _ _ _ hi]
    simp only [Array.size_replicate] at hi
    simp [DS.col, Array.getD_eq_getD_getElem?, hi]
  · rfl

/-- **the whole stream** -/
theorem stream_roundtrip (σ : Schema) (rootName : String) (ins : List FrameIn) (bytes : Bytes) (effss : List (List St))
    (h : encodeStream σ rootName ins = some (bytes, effss)) :
    (decodeStream σ rootName bytes).error = none ∧
    (decodeStream σ rootName bytes).records.map (·.2) = effss.flatten ∧
    (decodeStream σ rootName bytes).dictViolations = 0 := by
  unfold encodeStream at h
  split at h
  · simp at h
  · rename_i root b hmk
    split at h
    · simp at h
    · rename_i frames evss es' effss' hfr
      simp only [Option.some.injEq, Prod.mk.injEq] at h
      obtain ⟨rfl, rfl⟩ := h
      obtain ⟨m1, m2, m3, m4⟩ := streamFrames_matches σ root b.nextCol ins frames evss _ _ es' effss' hfr
      have hov : b.override = none := by
        obtain ⟨_, _, ho, _⟩ := (Stef.Proofs.Override.own_all σ 200).1 [] (.ref rootName) {} (root, b) rfl hmk
        exact ho
      have hbody : streamPrefix ++ frames.flatMap frameBytes =
          Spec.sig ++ [2#8, 0#8, 0#8] ++ (({ flags := 0, content := [0#8, 0#8] } : Frame) :: frames).flatMap frameBytes := by
        simp [streamPrefix]
      have hfuel : (({ flags := 0, content := [0#8, 0#8] } : Frame) :: frames).length <
          (streamPrefix ++ frames.flatMap frameBytes).length * 8 + 1000 := by
        have hl : ∀ fs : List Frame, fs.length ≤ (fs.flatMap frameBytes).length := by
          intro fs
          induction fs with
          | nil => simp
          | cons f fs ih => simp only [List.flatMap_cons, List.length_append, List.length_cons, frameBytes]; omega
        have := hl frames
        simp only [List.length_cons, List.length_append]
        omega
      have hrf := readFrames_frames (({ flags := 0, content := [0#8, 0#8] } : Frame) :: frames) []
        ((streamPrefix ++ frames.flatMap frameBytes).length * 8 + 1000) hfuel
        (by
          intro f hf
          simp only [List.mem_cons] at hf
          rcases hf with rfl | hf
          · exact ⟨by decide, by decide⟩
          · exact m3 f hf)
      have hds : ∃ rk, decodeStream σ rootName (streamPrefix ++ frames.flatMap frameBytes) =
          decodeStream.go σ { compression := 0, wireCounts := none, userData := [] } root (colKinds 10000 root)
            rk frames (initSt σ initFuel (.ref rootName))
            { cols := Array.replicate b.nextCol {} } [] [] := by
        refine ⟨?rk, ?eq⟩
        case eq =>
          unfold decodeStream
          simp only [hbody, readFixedHeader_prefix]
          rw [← hbody]
          simp only [hrf, List.reverse_nil, List.nil_append, readVarHeader_empty, ne_eq, not_true_eq_false, ↓reduceIte]
          have hmk' : mkNode σ 200 [] (.ref rootName) { override := none } = .ok (root, b) := hmk
          simp only [hmk', hov, Bool.false_eq_true, ↓reduceIte]
          rfl
      obtain ⟨rk, hds⟩ := hds
      have hgo := go_roundtrip σ { compression := 0, wireCounts := none, userData := [] } root (colKinds 10000 root)
        rk b.nextCol ins evss frames
        (initSt σ initFuel (.ref rootName)) { cols := Array.replicate b.nextCol {} } es' effss' (fun _ => ([], [], 0)) [] []
        m1 m2 (by simp)
      rw [← fresh_withInputs] at hgo
      rw [hds]
      refine ⟨hgo.1, ?_, ?_⟩
      · simpa using hgo.2.1
      · rw [hgo.2.2, m4]

end Stef.SpecEnc
