/-
  The invariant of the record API model (Stef/Api.lean) between two Writes.

  `R : St` is what a reader holds (the effective value of the last encoding, `Spec`-level), `W : AS`
  the writer-side record state with its marks.

    Shows C W r      `r` shows exactly the visible value of `W` (hidden parts of either side - stale
                     values of absent optional fields - are not compared; marks are not looked at)
    Quiet C W        no mark in the visible part of `W` (a SHARED = frozen dictionary struct and an empty
                     multimap may keep marks: they are never read / never block a signal; an OWNED
                     dictionary struct is looked into - it is a copy destination, a stale mark in it would
                     stop the signal of a change)
    Snd C W R?       the marks of `W` are SOUND against the reader value `R?`: whatever is not marked is
                     in sync with the reader (`Shows` and `Quiet`), whatever is marked is sound
                     recursively; `R? = none` (previous value unknown / reset on the reader's side): everything
                     visible is marked ("encoded in full")
  `Snd` is what every API call preserves and what makes the marks produced by `write` sound for
  `SpecEnc.encodeNode` (Stef/Proofs/ApiWrite.lean).
-/
import Stef.Api

namespace Stef.Api
open Stef Stef.Spec Stef.SpecEnc

def fdOpt (fds : List Field) : Bool := (fds.head?.map (·.optional)).getD false

/-! ## Shows -/

mutual
def Shows (C : Ctx) : AS → St → Prop
  | .prim v, r => r = v
  | .nil, _ => False
  | .struct n _ p _ fs, r => ∃ rfs, r = .struct p rfs ∧ ShowsFields C (fieldsOf C n) 0 p fs rfs
  | .oneof _ t as, r =>
    (t = 0 ∧ r = .oneof 0 none) ∨ (t ≠ 0 ∧ ∃ rv, r = .oneof t (some rv) ∧ ShowsAlt C (t - 1) as rv)
  | .arr _ es _, r => ∃ rs, r = .arr rs ∧ ShowsElems C es rs
  | .mmap _ ps _ _ _ _, r => ∃ rps, r = .mmap rps ∧ ShowsPairs C ps rps
def ShowsFields (C : Ctx) : List Field → Nat → Nat → List AS → List St → Prop
  | _, _, _, [], _ => True        -- fields of the reader's value beyond the writer's are never shown
  | fds, oi, p, a :: as, rs =>
    ∃ r rs', rs = r :: rs' ∧
      ((!fdOpt fds || p.testBit oi) = true → Shows C a r) ∧
      ShowsFields C fds.tail (if fdOpt fds then oi + 1 else oi) p as rs'
def ShowsAlt (C : Ctx) : Nat → List AS → St → Prop
  | _, [], _ => False
  | 0, a :: _, r => Shows C a r
  | i + 1, _ :: as, r => ShowsAlt C i as r
def ShowsElems (C : Ctx) : List AS → List St → Prop
  | [], rs => rs = []
  | a :: as, rs => ∃ r rs', rs = r :: rs' ∧ Shows C a r ∧ ShowsElems C as rs'
def ShowsPairs (C : Ctx) : List (AS × AS) → List (St × St) → Prop
  | [], rs => rs = []
  | (a, b) :: ps, rs => ∃ rk rv rs', rs = (rk, rv) :: rs' ∧ Shows C a rk ∧ Shows C b rv ∧ ShowsPairs C ps rs'
end

/-! ## Quiet -/

mutual
def Quiet (C : Ctx) : AS → Prop
  | .prim _ => True
  | .nil => True
  | .struct n m p fr fs => (C.isDictName n = true ∧ fr = true) ∨ (m = 0 ∧ QuietFields C (fieldsOf C n) 0 p fs)
  | .oneof _ t as => t = 0 ∨ QuietAlt C (t - 1) as
  | .arr _ es _ => QuietElems C es
  | .mmap _ ps _ k v ml => ps = [] ∨ (k = 0 ∧ v = 0 ∧ ml = false ∧ QuietPairs C ps)
def QuietFields (C : Ctx) : List Field → Nat → Nat → List AS → Prop
  | _, _, _, [] => True
  | fds, oi, p, a :: as =>
    ((!fdOpt fds || p.testBit oi) = true → Quiet C a) ∧
    QuietFields C fds.tail (if fdOpt fds then oi + 1 else oi) p as
def QuietAlt (C : Ctx) : Nat → List AS → Prop
  | _, [] => True
  | 0, a :: _ => Quiet C a
  | i + 1, _ :: as => QuietAlt C i as
def QuietElems (C : Ctx) : List AS → Prop
  | [] => True
  | a :: as => Quiet C a ∧ QuietElems C as
def QuietPairs (C : Ctx) : List (AS × AS) → Prop
  | [] => True
  | (a, b) :: ps => Quiet C a ∧ Quiet C b ∧ QuietPairs C ps
end

/-! ## Snd -/

def optPres : Option St → Nat
  | some r => structPres r
  | none => 0

def optFields : Option St → List St
  | some r => structFields r
  | none => []

def optElems : Option St → List St
  | some r => arrElems r
  | none => []

def optPairs : Option St → List (St × St)
  | some r => mmapPairs r
  | none => []

/-- the reader's value of alternative `t`: known only if the reader holds the same alternative -/
def altOf (t : Nat) : Option St → Option St
  | some (.oneof t' (some rv)) => if t' = t then some rv else none
  | _ => none

/-- the reader's previous value of a struct field as `encodeFields` / `decodeFields` take it -/
def fieldPrev (known opt prim rpresent : Bool) (rfs : List St) : Option St :=
  if known && !(opt && !prim && !rpresent) then some (rfs.headD dflt) else none

/-!
  The `Snd` family carries a mode `ℓ`:
    ℓ = false   STRICT: sound against the reader value `R` (what the text above describes);
    ℓ = true    LAX: the marks are UP-CLOSED - whatever is not marked has no mark below (`Quiet`); the
                reader value is not looked at. This is what an OWNED dictionary struct needs: it is
                written by value (RefNum hit: `setUnmodifiedRecursively`, which only descends below set
                bits, must leave it without marks; miss: encoded in full), so its marks never have to
                describe a difference to the reader, but a copy into it must be able to signal.
  A shared (frozen) dictionary struct is sound whatever its marks are (never modified, never read).
  Hidden values (an absent optional field's stale value) must be up-closed too: `Set<F>(v)` of a
  dictionary-struct field copies into the stale value without resetting it.
-/

mutual
def SndG (C : Ctx) (ℓ : Bool) : AS → Option St → Prop
  | .prim _, _ => True
  | .nil, _ => True
  | .struct n m p fr fs, R =>
    (C.isDictName n = true ∧ (fr = true ∨ SndFieldsG C true (fieldsOf C n) 0 0 m p false 0 fs [])) ∨
    (C.isDictName n = false ∧ SndFieldsG C ℓ (fieldsOf C n) 0 0 m p R.isSome (optPres R) fs (optFields R))
  | .oneof _ t as, R => t = 0 ∨ SndAltG C ℓ (t - 1) as (altOf t R)
  | .arr _ es _, R => SndElemsG C ℓ es (optElems R)
  | .mmap _ ps _ k v ml, R =>
    ps = [] ∨
    ((ℓ = true ∨ ml = true ∨ k ≠ 0 ∨ ps.length ≥ 63) ∧ SndPairsG C ℓ ps (optPairs R)) ∨
    (ℓ = false ∧ ml = false ∧ k = 0 ∧ ps.length < 63 ∧ R.isSome = true ∧ (optPairs R).length = ps.length ∧
      SndVals C v 0 ps (optPairs R))
def SndFieldsG (C : Ctx) (ℓ : Bool) : List Field → Nat → Nat → Nat → Nat → Bool → Nat → List AS → List St → Prop
  | _, _, _, _, _, _, _, [], _ => True
  | fds, idx, oi, m, p, known, rp, a :: as, rfs =>
    ((!fdOpt fds || p.testBit oi) = true →
      (m.testBit idx = true → SndG C ℓ a (fieldPrev known (fdOpt fds) (isPrimAS a) (rp.testBit oi) rfs)) ∧
      (m.testBit idx = false →
        (ℓ = true ∨ (known = true ∧ (fdOpt fds = true → rp.testBit oi = true) ∧ Shows C a (rfs.headD dflt))) ∧
        Quiet C a ∧ SndG C true a none)) ∧
    ((!fdOpt fds || p.testBit oi) = false → SndG C true a none) ∧
    SndFieldsG C ℓ fds.tail (idx + 1) (if fdOpt fds then oi + 1 else oi) m p known rp as rfs.tail
def SndAltG (C : Ctx) (ℓ : Bool) : Nat → List AS → Option St → Prop
  | _, [], _ => True
  | 0, a :: _, R => SndG C ℓ a R
  | i + 1, _ :: as, R => SndAltG C ℓ i as R
def SndElemsG (C : Ctx) (ℓ : Bool) : List AS → List St → Prop
  | [], _ => True
  | a :: as, rs => SndG C ℓ a rs.head? ∧ SndElemsG C ℓ as rs.tail
def SndPairsG (C : Ctx) (ℓ : Bool) : List (AS × AS) → List (St × St) → Prop
  | [], _ => True
  | (a, b) :: ps, rs =>
    SndG C ℓ a (rs.head?.map (·.1)) ∧ SndG C ℓ b (rs.head?.map (·.2)) ∧ SndPairsG C ℓ ps rs.tail
/-- the values-only form of a multimap (strict mode only) -/
def SndVals (C : Ctx) : Nat → Nat → List (AS × AS) → List (St × St) → Prop
  | _, _, [], _ => True
  | v, idx, (a, b) :: ps, rs =>
    (∃ rk rv rs', rs = (rk, rv) :: rs' ∧ Shows C a rk ∧ Quiet C a ∧ SndG C true a none ∧
      (if v.testBit idx then SndG C false b (some rv) else Shows C b rv ∧ Quiet C b ∧ SndG C true b none)) ∧
    SndVals C v (idx + 1) ps rs.tail
end

/-- the invariant: the marks of `W` are sound against the reader value `R?` -/
abbrev Snd (C : Ctx) (a : AS) (R : Option St) : Prop := SndG C false a R
abbrev SndFields (C : Ctx) := SndFieldsG C false
abbrev SndAlt (C : Ctx) := SndAltG C false
abbrev SndElems (C : Ctx) := SndElemsG C false
abbrev SndPairs (C : Ctx) := SndPairsG C false

/-- up-closed marks (the lax mode; the reader value is irrelevant) -/
abbrev UC (C : Ctx) (a : AS) : Prop := SndG C true a none

/-! ## Fully marked states are sound against any reader value -/

theorem fieldPrev_unknown (opt prim rp : Bool) (rfs : List St) : fieldPrev false opt prim rp rfs = none := by
  simp [fieldPrev]

mutual
theorem snd_of_full (C : Ctx) (ℓ : Bool) : ∀ (a : AS) (R : Option St), SndG C ℓ a none → SndG C ℓ a R
  | .prim _, _, _ => by simp [SndG]
  | .nil, _, _ => by simp [SndG]
  | .struct n m p fr fs, R, h => by
    simp only [SndG] at h ⊢
    rcases h with h | ⟨hd, h⟩
    · exact Or.inl h
    · exact Or.inr ⟨hd, sndFields_of_full C ℓ (fieldsOf C n) 0 0 m p fs R.isSome (optPres R) (optFields R) h⟩
  | .oneof n t as, R, h => by
    simp only [SndG] at h ⊢
    rcases h with h | h
    · exact Or.inl h
    · exact Or.inr (sndAlt_of_full C ℓ (t - 1) as (altOf t R) (by simpa [altOf] using h))
  | .arr e es hid, R, h => by
    simp only [SndG] at h ⊢
    exact sndElems_of_full C ℓ es (optElems R) (by simpa [optElems] using h)
  | .mmap n ps hid k v ml, R, h => by
    simp only [SndG] at h ⊢
    rcases h with h | h | h
    · exact Or.inl h
    · exact Or.inr (Or.inl ⟨h.1, sndPairs_of_full C ℓ ps (optPairs R) (by simpa [optPairs] using h.2)⟩)
    · simp at h
theorem sndFields_of_full (C : Ctx) (ℓ : Bool) : ∀ (fds : List Field) (idx oi m p : Nat) (as : List AS) (known : Bool) (rp : Nat)
    (rfs : List St), SndFieldsG C ℓ fds idx oi m p false 0 as [] → SndFieldsG C ℓ fds idx oi m p known rp as rfs
  | _, _, _, _, _, [], _, _, _, _ => by simp [SndFieldsG]
  | fds, idx, oi, m, p, a :: as, known, rp, rfs, h => by
    simp only [SndFieldsG] at h ⊢
    refine ⟨fun hp => ?_, h.2.1, sndFields_of_full C ℓ fds.tail (idx + 1) _ m p as known rp rfs.tail (by simpa using h.2.2)⟩
    have h1 := h.1 hp
    refine ⟨fun hm => snd_of_full C ℓ a _ (by simpa [fieldPrev_unknown] using h1.1 hm), fun hm => ?_⟩
    obtain ⟨h3, h4⟩ := h1.2 hm
    refine ⟨?_, h4⟩
    rcases h3 with h3 | h3
    · exact Or.inl h3
    · simp at h3
theorem sndAlt_of_full (C : Ctx) (ℓ : Bool) : ∀ (i : Nat) (as : List AS) (R : Option St), SndAltG C ℓ i as none → SndAltG C ℓ i as R
  | _, [], _, _ => by simp [SndAltG]
  | 0, a :: _, R, h => by simp only [SndAltG] at h ⊢; exact snd_of_full C ℓ a R h
  | i + 1, _ :: as, R, h => by simp only [SndAltG] at h ⊢; exact sndAlt_of_full C ℓ i as R h
theorem sndElems_of_full (C : Ctx) (ℓ : Bool) : ∀ (as : List AS) (rs : List St), SndElemsG C ℓ as [] → SndElemsG C ℓ as rs
  | [], _, _ => by simp [SndElemsG]
  | a :: as, rs, h => by
    simp only [SndElemsG] at h ⊢
    exact ⟨snd_of_full C ℓ a _ (by simpa using h.1), sndElems_of_full C ℓ as rs.tail (by simpa using h.2)⟩
theorem sndPairs_of_full (C : Ctx) (ℓ : Bool) : ∀ (ps : List (AS × AS)) (rs : List (St × St)),
    SndPairsG C ℓ ps [] → SndPairsG C ℓ ps rs
  | [], _, _ => by simp [SndPairsG]
  | (a, b) :: ps, rs, h => by
    simp only [SndPairsG] at h ⊢
    exact ⟨snd_of_full C ℓ a _ (by simpa using h.1), snd_of_full C ℓ b _ (by simpa using h.2.1),
      sndPairs_of_full C ℓ ps rs.tail (by simpa using h.2.2)⟩
end

/-! ## Sound marks are up-closed (strict implies lax; in the lax mode the reader value is irrelevant) -/

mutual
theorem snd_lax (C : Ctx) : ∀ (ℓ : Bool) (a : AS) (R R' : Option St), SndG C ℓ a R → SndG C true a R'
  | _, .prim _, _, _, _ => by simp [SndG]
  | _, .nil, _, _, _ => by simp [SndG]
  | ℓ, .struct n m p fr fs, R, R', h => by
    simp only [SndG] at h ⊢
    rcases h with h | ⟨hd, h⟩
    · exact Or.inl h
    · exact Or.inr ⟨hd, sndFields_lax C ℓ (fieldsOf C n) 0 0 m p fs _ _ _ _ _ _ h⟩
  | ℓ, .oneof n t as, R, R', h => by
    simp only [SndG] at h ⊢
    rcases h with h | h
    · exact Or.inl h
    · exact Or.inr (sndAlt_lax C ℓ (t - 1) as _ _ h)
  | ℓ, .arr e es hid, R, R', h => by
    simp only [SndG] at h ⊢
    exact sndElems_lax C ℓ es _ _ h
  | ℓ, .mmap n ps hid k v ml, R, R', h => by
    simp only [SndG] at h ⊢
    rcases h with h | ⟨_, h⟩ | ⟨_, _, _, _, _, _, h⟩
    · exact Or.inl h
    · exact Or.inr (Or.inl ⟨Or.inl trivial, sndPairs_lax C ℓ ps _ _ h⟩)
    · exact Or.inr (Or.inl ⟨Or.inl trivial, sndPairs_of_vals_lax C v 0 ps _ _ h⟩)
theorem sndFields_lax (C : Ctx) : ∀ (ℓ : Bool) (fds : List Field) (idx oi m p : Nat) (as : List AS) (known : Bool) (rp : Nat)
    (rfs : List St) (known' : Bool) (rp' : Nat) (rfs' : List St),
    SndFieldsG C ℓ fds idx oi m p known rp as rfs → SndFieldsG C true fds idx oi m p known' rp' as rfs'
  | _, _, _, _, _, _, [], _, _, _, _, _, _, _ => by simp [SndFieldsG]
  | ℓ, fds, idx, oi, m, p, a :: as, known, rp, rfs, known', rp', rfs', h => by
    simp only [SndFieldsG] at h ⊢
    refine ⟨fun hp => ⟨fun hm => snd_lax C ℓ a _ _ ((h.1 hp).1 hm), fun hm => ⟨Or.inl trivial, ((h.1 hp).2 hm).2⟩⟩, h.2.1,
      sndFields_lax C ℓ fds.tail (idx + 1) _ m p as known rp rfs.tail known' rp' rfs'.tail h.2.2⟩
theorem sndAlt_lax (C : Ctx) : ∀ (ℓ : Bool) (i : Nat) (as : List AS) (R R' : Option St), SndAltG C ℓ i as R → SndAltG C true i as R'
  | _, _, [], _, _, _ => by simp [SndAltG]
  | ℓ, 0, a :: _, R, R', h => by simp only [SndAltG] at h ⊢; exact snd_lax C ℓ a R R' h
  | ℓ, i + 1, _ :: as, R, R', h => by simp only [SndAltG] at h ⊢; exact sndAlt_lax C ℓ i as R R' h
theorem sndElems_lax (C : Ctx) : ∀ (ℓ : Bool) (as : List AS) (rs rs' : List St), SndElemsG C ℓ as rs → SndElemsG C true as rs'
  | _, [], _, _, _ => by simp [SndElemsG]
  | ℓ, a :: as, rs, rs', h => by
    simp only [SndElemsG] at h ⊢
    exact ⟨snd_lax C ℓ a _ _ h.1, sndElems_lax C ℓ as rs.tail rs'.tail h.2⟩
theorem sndPairs_lax (C : Ctx) : ∀ (ℓ : Bool) (ps : List (AS × AS)) (rs rs' : List (St × St)),
    SndPairsG C ℓ ps rs → SndPairsG C true ps rs'
  | _, [], _, _, _ => by simp [SndPairsG]
  | ℓ, (a, b) :: ps, rs, rs', h => by
    simp only [SndPairsG] at h ⊢
    exact ⟨snd_lax C ℓ a _ _ h.1, snd_lax C ℓ b _ _ h.2.1, sndPairs_lax C ℓ ps rs.tail rs'.tail h.2.2⟩
theorem sndPairs_of_vals_lax (C : Ctx) : ∀ (v idx : Nat) (ps : List (AS × AS)) (rs rs' : List (St × St)),
    SndVals C v idx ps rs → SndPairsG C true ps rs'
  | _, _, [], _, _, _ => by simp [SndPairsG]
  | v, idx, (a, b) :: ps, rs, rs', h => by
    simp only [SndVals, SndPairsG] at h ⊢
    obtain ⟨⟨rk, rv, rs0, e, _, _, hla, hb⟩, h2⟩ := h
    refine ⟨snd_lax C true a _ _ hla, ?_, sndPairs_of_vals_lax C v (idx + 1) ps rs.tail rs'.tail h2⟩
    by_cases hv : v.testBit idx = true
    · simp only [hv, if_true] at hb
      exact snd_lax C false b _ _ hb
    · simp only [hv] at hb
      exact snd_lax C true b _ _ hb.2.2
end

theorem uc_of_snd (C : Ctx) (ℓ : Bool) (a : AS) (R : Option St) (h : SndG C ℓ a R) : UC C a := snd_lax C ℓ a R none h

/-! ## In sync with the reader, unmarked, hidden parts up-closed: sound -/

theorem showsPairs_length (C : Ctx) : ∀ (ps : List (AS × AS)) (rs : List (St × St)),
    ShowsPairs C ps rs → rs.length = ps.length
  | [], _, h => by simp only [ShowsPairs] at h; simp [h]
  | (a, b) :: ps, rs, h => by
    simp only [ShowsPairs] at h
    obtain ⟨rk, rv, rs', e, _, _, h'⟩ := h
    subst e
    simp [showsPairs_length C ps rs' h']

theorem showsElems_length (C : Ctx) : ∀ (as : List AS) (rs : List St),
    ShowsElems C as rs → rs.length = as.length
  | [], _, h => by simp only [ShowsElems] at h; simp [h]
  | a :: as, rs, h => by
    simp only [ShowsElems] at h
    obtain ⟨r, rs', e, _, h'⟩ := h
    subst e
    simp [showsElems_length C as rs' h']

mutual
theorem snd_of_sync0 (C : Ctx) : ∀ (a : AS) (r : St), Shows C a r → Quiet C a → UC C a → SndG C false a (some r)
  | .prim _, _, _, _, _ => by simp [SndG]
  | .nil, _, _, _, _ => by simp [SndG]
  | .struct n m p fr fs, r, hs, hq, hl => by
    simp only [UC, SndG, Shows, Quiet] at hs hq hl ⊢
    rcases hl with hl | ⟨hd, hl⟩
    · exact Or.inl hl
    · rcases hq with ⟨hd', _⟩ | ⟨hm, hq⟩
      · rw [hd] at hd'; simp at hd'
      · obtain ⟨rfs, e, hs⟩ := hs
        subst e hm
        exact Or.inr ⟨hd, sndFields_of_sync C (fieldsOf C n) 0 0 p fs rfs _ _ _ hs hq hl⟩
  | .oneof n t as, r, hs, hq, hl => by
    simp only [UC, SndG, Shows, Quiet] at hs hq hl ⊢
    rcases hs with ⟨ht, _⟩ | ⟨ht, rv, e, hs⟩
    · exact Or.inl ht
    · subst e
      rcases hq with hq | hq
      · exact absurd hq ht
      · rcases hl with hl | hl
        · exact absurd hl ht
        · exact Or.inr (by simpa [altOf] using sndAlt_of_sync C (t - 1) as rv _ hs hq hl)
  | .arr e es hid, r, hs, hq, hl => by
    simp only [UC, SndG, Shows, Quiet] at hs hq hl ⊢
    obtain ⟨rs, e, hs⟩ := hs
    subst e
    exact sndElems_of_sync C es rs _ hs hq hl
  | .mmap n ps hid k v ml, r, hs, hq, hl => by
    simp only [UC, SndG, Shows, Quiet] at hs hq hl ⊢
    obtain ⟨rps, e, hs⟩ := hs
    subst e
    rcases hq with hq | ⟨hk, hv, hml, hq⟩
    · exact Or.inl hq
    · rcases hl with hl | ⟨_, hl⟩ | ⟨hl, _⟩
      · exact Or.inl hl
      · by_cases hlen : ps.length < 63
        · refine Or.inr (Or.inr ⟨trivial, hml, hk, hlen, by simp, ?_, ?_⟩)
          · simpa [optPairs, mmapPairs] using showsPairs_length C ps rps hs
          · subst hv
            simpa [optPairs, mmapPairs] using sndVals_of_sync C 0 ps rps _ hs hq hl
        · refine Or.inr (Or.inl ⟨Or.inr (Or.inr (Or.inr (by omega))), ?_⟩)
          simpa [optPairs, mmapPairs] using sndPairs_of_sync C ps rps _ hs hq hl
      · simp at hl
theorem sndFields_of_sync (C : Ctx) : ∀ (fds : List Field) (idx oi p : Nat) (as : List AS) (rfs : List St)
    (known : Bool) (rp : Nat) (rfs' : List St),
    ShowsFields C fds oi p as rfs → QuietFields C fds oi p as → SndFieldsG C true fds idx oi 0 p known rp as rfs' →
    SndFieldsG C false fds idx oi 0 p true p as rfs
  | _, _, _, _, [], _, _, _, _, _, _, _ => by simp [SndFieldsG]
  | fds, idx, oi, p, a :: as, rfs, known, rp, rfs', hs, hq, hl => by
    simp only [SndFieldsG, ShowsFields, QuietFields] at hs hq hl ⊢
    obtain ⟨r, rs', e, hs1, hs2⟩ := hs
    subst e
    refine ⟨fun hp => ⟨fun hm => by simp at hm, fun _ => ⟨Or.inr ⟨trivial, fun ho => ?_, by simpa using hs1 hp⟩, hq.1 hp,
        ((hl.1 hp).2 (Nat.zero_testBit idx)).2.2⟩⟩, hl.2.1,
      by simpa using sndFields_of_sync C fds.tail (idx + 1) _ p as rs' known rp rfs'.tail hs2 hq.2 hl.2.2⟩
    simpa [ho] using hp
theorem sndAlt_of_sync (C : Ctx) : ∀ (i : Nat) (as : List AS) (r : St) (R' : Option St), ShowsAlt C i as r → QuietAlt C i as →
    SndAltG C true i as R' → SndAltG C false i as (some r)
  | _, [], _, _, _, _, _ => by simp [SndAltG]
  | 0, a :: _, r, R', hs, hq, hl => by
    simp only [SndAltG, ShowsAlt, QuietAlt] at hs hq hl ⊢; exact snd_of_sync0 C a r hs hq (snd_lax C true a _ _ hl)
  | i + 1, _ :: as, r, R', hs, hq, hl => by
    simp only [SndAltG, ShowsAlt, QuietAlt] at hs hq hl ⊢; exact sndAlt_of_sync C i as r R' hs hq hl
theorem sndElems_of_sync (C : Ctx) : ∀ (as : List AS) (rs rs' : List St), ShowsElems C as rs →
    QuietElems C as → SndElemsG C true as rs' → SndElemsG C false as rs
  | [], _, _, _, _, _ => by simp [SndElemsG]
  | a :: as, rs, rs', hs, hq, hl => by
    simp only [SndElemsG, ShowsElems, QuietElems] at hs hq hl ⊢
    obtain ⟨r, rs0, e, hs1, hs2⟩ := hs
    subst e
    exact ⟨by simpa using snd_of_sync0 C a r hs1 hq.1 (snd_lax C true a _ _ hl.1),
      by simpa using sndElems_of_sync C as rs0 rs'.tail hs2 hq.2 hl.2⟩
theorem sndPairs_of_sync (C : Ctx) : ∀ (ps : List (AS × AS)) (rs rs' : List (St × St)), ShowsPairs C ps rs →
    QuietPairs C ps → SndPairsG C true ps rs' → SndPairsG C false ps rs
  | [], _, _, _, _, _ => by simp [SndPairsG]
  | (a, b) :: ps, rs, rs', hs, hq, hl => by
    simp only [SndPairsG, ShowsPairs, QuietPairs] at hs hq hl ⊢
    obtain ⟨rk, rv, rs0, e, hs1, hs2, hs3⟩ := hs
    subst e
    exact ⟨by simpa using snd_of_sync0 C a rk hs1 hq.1 (snd_lax C true a _ _ hl.1),
      by simpa using snd_of_sync0 C b rv hs2 hq.2.1 (snd_lax C true b _ _ hl.2.1),
      by simpa using sndPairs_of_sync C ps rs0 rs'.tail hs3 hq.2.2 hl.2.2⟩
theorem sndVals_of_sync (C : Ctx) : ∀ (idx : Nat) (ps : List (AS × AS)) (rs rs' : List (St × St)), ShowsPairs C ps rs →
    QuietPairs C ps → SndPairsG C true ps rs' → SndVals C 0 idx ps rs
  | _, [], _, _, _, _, _ => by simp [SndVals]
  | idx, (a, b) :: ps, rs, rs', hs, hq, hl => by
    simp only [SndVals, SndPairsG, ShowsPairs, QuietPairs] at hs hq hl ⊢
    obtain ⟨rk, rv, rs0, e, hs1, hs2, hs3⟩ := hs
    subst e
    exact ⟨⟨rk, rv, rs0, rfl, hs1, hq.1, snd_lax C true a _ _ hl.1, by simp [hs2, hq.2.1, snd_lax C true b _ none hl.2.1]⟩,
      by simpa using sndVals_of_sync C (idx + 1) ps rs0 rs'.tail hs3 hq.2.2 hl.2.2⟩
end

/-- in sync with the reader + no marks + hidden parts up-closed: sound, in either mode -/
theorem snd_of_sync (C : Ctx) (ℓ : Bool) (a : AS) (r : St) (hs : Shows C a r) (hq : Quiet C a) (hl : UC C a) :
    SndG C ℓ a (some r) := by
  cases ℓ with
  | false => exact snd_of_sync0 C a r hs hq hl
  | true => exact snd_lax C true a _ _ hl

/-! ## `setModifiedRecursively` marks in full -/

theorem setModRecList_length : ∀ (as : List AS), (setModRecList as).length = as.length
  | [] => by simp [setModRecList]
  | a :: as => by simp [setModRecList, setModRecList_length as]

theorem setModRecPairs_length : ∀ (ps : List (AS × AS)), (setModRecPairs ps).length = ps.length
  | [] => by simp [setModRecPairs]
  | (a, b) :: ps => by simp [setModRecPairs, setModRecPairs_length ps]

mutual
theorem snd_setModRec_any (C : Ctx) : ∀ (ℓ : Bool) (a : AS) (R : Option St), SndG C ℓ (setModRec a) R
  | _, .prim _, _ => by simp [setModRec, SndG]
  | _, .nil, _ => by simp [setModRec, SndG]
  | ℓ, .struct n m p fr fs, R => by
    simp only [setModRec, SndG]
    have hb : ∀ j, j < fs.length → (2 ^ fs.length - 1).testBit (0 + j) = true := fun j hj => by
      simp [Nat.testBit_two_pow_sub_one]; omega
    by_cases hd : C.isDictName n = true
    · exact Or.inl ⟨hd, Or.inr (sndFields_setModRec C true (fieldsOf C n) 0 0 (2 ^ fs.length - 1) p fs _ _ _ hb)⟩
    · exact Or.inr ⟨by simpa using hd, sndFields_setModRec C ℓ (fieldsOf C n) 0 0 (2 ^ fs.length - 1) p fs _ _ _ hb⟩
  | ℓ, .oneof n t as, R => by
    simp only [setModRec, SndG]
    by_cases ht : t = 0
    · exact Or.inl ht
    · refine Or.inr ?_
      have : (t == 0) = false := by simp [ht]
      rw [this]
      exact sndAlt_setModRec C ℓ (t - 1) as _
  | ℓ, .arr e es hid, R => by
    simp only [setModRec, SndG]
    exact sndElems_setModRec C ℓ es _
  | ℓ, .mmap n ps hid k v ml, R => by
    simp only [setModRec, SndG]
    exact Or.inr (Or.inl ⟨Or.inr (Or.inl trivial), sndPairs_setModRec C ℓ ps _⟩)
theorem sndFields_setModRec (C : Ctx) : ∀ (ℓ : Bool) (fds : List Field) (idx oi m p : Nat) (as : List AS)
    (known : Bool) (rp : Nat) (rfs : List St),
    (∀ j, j < as.length → m.testBit (idx + j) = true) →
    SndFieldsG C ℓ fds idx oi m p known rp (setModRecList as) rfs
  | _, _, _, _, _, _, [], _, _, _, _ => by simp [setModRecList, SndFieldsG]
  | ℓ, fds, idx, oi, m, p, a :: as, known, rp, rfs, hm => by
    simp only [setModRecList, SndFieldsG]
    refine ⟨fun _ => ⟨fun _ => snd_setModRec_any C ℓ a _, fun h0 => ?_⟩, fun _ => snd_setModRec_any C true a _,
      sndFields_setModRec C ℓ fds.tail (idx + 1) _ m p as known rp rfs.tail (fun j hj => by
        have := hm (j + 1) (by simp; omega)
        rwa [show idx + (j + 1) = idx + 1 + j by omega] at this)⟩
    have := hm 0 (by simp)
    simp [h0] at this
theorem sndAlt_setModRec (C : Ctx) : ∀ (ℓ : Bool) (i : Nat) (as : List AS) (R : Option St), SndAltG C ℓ i (setModRecAlt i false as) R
  | _, _, [], _ => by simp [setModRecAlt, SndAltG]
  | ℓ, 0, a :: _, R => by simp only [setModRecAlt, SndAltG]; simpa using snd_setModRec_any C ℓ a R
  | ℓ, i + 1, _ :: as, R => by simp only [setModRecAlt, SndAltG]; exact sndAlt_setModRec C ℓ i as R
theorem sndElems_setModRec (C : Ctx) : ∀ (ℓ : Bool) (as : List AS) (rs : List St), SndElemsG C ℓ (setModRecList as) rs
  | _, [], _ => by simp [setModRecList, SndElemsG]
  | ℓ, a :: as, rs => by
    simp only [setModRecList, SndElemsG]
    exact ⟨snd_setModRec_any C ℓ a _, sndElems_setModRec C ℓ as _⟩
theorem sndPairs_setModRec (C : Ctx) : ∀ (ℓ : Bool) (ps : List (AS × AS)) (rs : List (St × St)), SndPairsG C ℓ (setModRecPairs ps) rs
  | _, [], _ => by simp [setModRecPairs, SndPairsG]
  | ℓ, (a, b) :: ps, rs => by
    simp only [setModRecPairs, SndPairsG]
    exact ⟨snd_setModRec_any C ℓ a _, snd_setModRec_any C ℓ b _, sndPairs_setModRec C ℓ ps _⟩
end

theorem snd_setModRec (C : Ctx) (a : AS) : Snd C (setModRec a) none := snd_setModRec_any C false a none

/-! ## `setUnmodifiedRecursively` on up-closed marks leaves no mark -/

mutual
theorem quiet_setUnmodRec (C : Ctx) : ∀ (a : AS) (R : Option St), SndG C true a R →
    Quiet C (setUnmodRec a) ∧ UC C (setUnmodRec a)
  | .prim _, _, _ => by simp [setUnmodRec, Quiet, UC, SndG]
  | .nil, _, _ => by simp [setUnmodRec, Quiet, UC, SndG]
  | .struct n m p fr fs, R, h => by
    simp only [setUnmodRec, Quiet, UC, SndG] at h ⊢
    rcases h with ⟨hd, hfr | h⟩ | ⟨hd, h⟩
    · exact ⟨Or.inl ⟨hd, hfr⟩, Or.inl ⟨hd, Or.inl hfr⟩⟩
    · have := quietFields_setUnmodRec C (fieldsOf C n) 0 0 m p fs _ _ _ false 0 [] h
      exact ⟨Or.inr ⟨trivial, this.1⟩, Or.inl ⟨hd, Or.inr this.2⟩⟩
    · have := quietFields_setUnmodRec C (fieldsOf C n) 0 0 m p fs _ _ _ false 0 [] h
      exact ⟨Or.inr ⟨trivial, this.1⟩, Or.inr ⟨hd, this.2⟩⟩
  | .oneof n t as, R, h => by
    simp only [setUnmodRec, Quiet, UC, SndG] at h ⊢
    by_cases ht : t = 0
    · exact ⟨Or.inl ht, Or.inl ht⟩
    · rcases h with h | h
      · exact absurd h ht
      · have : (t == 0) = false := by simp [ht]
        rw [this]
        have := quietAlt_setUnmodRec C (t - 1) as _ none h
        exact ⟨Or.inr this.1, Or.inr (by simpa [altOf] using this.2)⟩
  | .arr e es hid, R, h => by
    simp only [setUnmodRec, Quiet, UC, SndG] at h ⊢
    have := quietElems_setUnmodRec C es _ [] h
    exact ⟨this.1, by simpa [optElems] using this.2⟩
  | .mmap n ps hid k v ml, R, h => by
    simp only [setUnmodRec, Quiet, UC, SndG] at h ⊢
    rcases h with h | ⟨_, h⟩ | ⟨h, _⟩
    · subst h
      simp [setUnmodRecPairs]
    · have := quietPairs_setUnmodRec C ps _ [] h
      exact ⟨Or.inr ⟨trivial, trivial, trivial, this.1⟩, Or.inr (Or.inl ⟨Or.inl trivial, by simpa [optPairs] using this.2⟩)⟩
    · simp at h
theorem quietFields_setUnmodRec (C : Ctx) : ∀ (fds : List Field) (idx oi m p : Nat) (as : List AS) (known : Bool) (rp : Nat)
    (rfs : List St) (known' : Bool) (rp' : Nat) (rfs' : List St), SndFieldsG C true fds idx oi m p known rp as rfs →
    QuietFields C fds oi p (setUnmodRecFields m idx as) ∧
      SndFieldsG C true fds idx oi 0 p known' rp' (setUnmodRecFields m idx as) rfs'
  | _, _, _, _, _, [], _, _, _, _, _, _, _ => by simp [setUnmodRecFields, QuietFields, SndFieldsG]
  | fds, idx, oi, m, p, a :: as, known, rp, rfs, known', rp', rfs', h => by
    simp only [setUnmodRecFields, QuietFields, SndFieldsG] at h ⊢
    have ih := quietFields_setUnmodRec C fds.tail (idx + 1) (if fdOpt fds then oi + 1 else oi) m p as known rp rfs.tail
      known' rp' rfs'.tail h.2.2
    have key : (!fdOpt fds || p.testBit oi) = true →
        Quiet C (if m.testBit idx then setUnmodRec a else a) ∧ UC C (if m.testBit idx then setUnmodRec a else a) := by
      intro hp
      by_cases hm : m.testBit idx = true
      · simp only [hm, if_true]
        exact quiet_setUnmodRec C a _ ((h.1 hp).1 hm)
      · simp only [hm]
        have := (h.1 hp).2 (by simpa using hm)
        exact ⟨this.2.1, this.2.2⟩
    have key2 : (!fdOpt fds || p.testBit oi) = false → UC C (if m.testBit idx then setUnmodRec a else a) := by
      intro hp
      by_cases hm : m.testBit idx = true
      · simp only [hm, if_true]
        exact (quiet_setUnmodRec C a _ (h.2.1 hp)).2
      · simp only [hm]
        exact h.2.1 hp
    refine ⟨⟨fun hp => (key hp).1, ih.1⟩, fun hp => ⟨fun h0 => by simp at h0, fun _ => ⟨Or.inl trivial, (key hp).1, (key hp).2⟩⟩,
      key2, ih.2⟩
theorem quietAlt_setUnmodRec (C : Ctx) : ∀ (i : Nat) (as : List AS) (R R' : Option St), SndAltG C true i as R →
    QuietAlt C i (setUnmodRecAlt i false as) ∧ SndAltG C true i (setUnmodRecAlt i false as) R'
  | _, [], _, _, _ => by simp [setUnmodRecAlt, QuietAlt, SndAltG]
  | 0, a :: _, R, R', h => by
    simp only [setUnmodRecAlt, QuietAlt, SndAltG] at h ⊢
    have := quiet_setUnmodRec C a R h
    exact ⟨by simpa using this.1, by simpa using snd_lax C true _ _ R' this.2⟩
  | i + 1, _ :: as, R, R', h => by
    simp only [setUnmodRecAlt, QuietAlt, SndAltG] at h ⊢
    exact quietAlt_setUnmodRec C i as R R' h
theorem quietElems_setUnmodRec (C : Ctx) : ∀ (as : List AS) (rs rs' : List St), SndElemsG C true as rs →
    QuietElems C (setUnmodRecList as) ∧ SndElemsG C true (setUnmodRecList as) rs'
  | [], _, _, _ => by simp [setUnmodRecList, QuietElems, SndElemsG]
  | a :: as, rs, rs', h => by
    simp only [setUnmodRecList, QuietElems, SndElemsG] at h ⊢
    have h1 := quiet_setUnmodRec C a _ h.1
    have h2 := quietElems_setUnmodRec C as rs.tail rs'.tail h.2
    exact ⟨⟨h1.1, h2.1⟩, snd_lax C true _ _ _ h1.2, h2.2⟩
theorem quietPairs_setUnmodRec (C : Ctx) : ∀ (ps : List (AS × AS)) (rs rs' : List (St × St)), SndPairsG C true ps rs →
    QuietPairs C (setUnmodRecPairs ps) ∧ SndPairsG C true (setUnmodRecPairs ps) rs'
  | [], _, _, _ => by simp [setUnmodRecPairs, QuietPairs, SndPairsG]
  | (a, b) :: ps, rs, rs', h => by
    simp only [setUnmodRecPairs, QuietPairs, SndPairsG] at h ⊢
    have h1 := quiet_setUnmodRec C a _ h.1
    have h2 := quiet_setUnmodRec C b _ h.2.1
    have h3 := quietPairs_setUnmodRec C ps rs.tail rs'.tail h.2.2
    exact ⟨⟨h1.1, h2.1, h3.1⟩, snd_lax C true _ _ _ h1.2, snd_lax C true _ _ _ h2.2, h3.2⟩
end

end Stef.Api
