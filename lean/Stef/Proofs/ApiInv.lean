/-
  The invariant of the record API model (Stef/Api.lean) between two Writes.

  `R : St` is what a reader holds (the effective value of the last encoding, `Spec`-level), `W : AS`
  the writer-side record state with its marks.

    Shows C W r      `r` shows exactly the visible value of `W` (hidden parts of either side - stale
                     values of absent optional fields - are not compared; marks are not looked at)
    Quiet C W        no mark in the visible part of `W` (a dictionary struct and an empty multimap may
                     keep marks: they are never read / never block a signal)
    Snd C W R?       the marks of `W` are SOUND against the reader value `R?`: whatever is not marked is
                     in sync with the reader (`Shows` and `Quiet`), whatever is marked is sound
                     recursively; `R? = none` (previous value unknown / reset on the reader's side): everything
                     visible is marked ("encoded in full")
  `Snd` is what every API call preserves and what makes the marks produced by `write` sound for
  `SpecEnc.encodeNode` (Stef/Proofs/ApiWrite.lean).
-/
import Stef.Api

namespace Stef.Api
open Stef Stef.Spec Stef.SpecEnc

def fdOpt (fds : List Field) : Bool := (fds.head?.map (·.optional)).getD false

/-! ## Shows -/

mutual
def Shows (C : Ctx) : AS → St → Prop
  | .prim v, r => r = v
  | .nil, _ => False
  | .struct n _ p _ fs, r => ∃ rfs, r = .struct p rfs ∧ ShowsFields C (fieldsOf C n) 0 p fs rfs
  | .oneof _ t as, r =>
    (t = 0 ∧ r = .oneof 0 none) ∨ (t ≠ 0 ∧ ∃ rv, r = .oneof t (some rv) ∧ ShowsAlt C (t - 1) as rv)
  | .arr _ es _, r => ∃ rs, r = .arr rs ∧ ShowsElems C es rs
  | .mmap _ ps _ _ _ _, r => ∃ rps, r = .mmap rps ∧ ShowsPairs C ps rps
def ShowsFields (C : Ctx) : List Field → Nat → Nat → List AS → List St → Prop
  | _, _, _, [], _ => True        -- fields of the reader's value beyond the writer's are never shown
  | fds, oi, p, a :: as, rs =>
    ∃ r rs', rs = r :: rs' ∧
      ((!fdOpt fds || p.testBit oi) = true → Shows C a r) ∧
      ShowsFields C fds.tail (if fdOpt fds then oi + 1 else oi) p as rs'
def ShowsAlt (C : Ctx) : Nat → List AS → St → Prop
  | _, [], _ => False
  | 0, a :: _, r => Shows C a r
  | i + 1, _ :: as, r => ShowsAlt C i as r
def ShowsElems (C : Ctx) : List AS → List St → Prop
  | [], rs => rs = []
  | a :: as, rs => ∃ r rs', rs = r :: rs' ∧ Shows C a r ∧ ShowsElems C as rs'
def ShowsPairs (C : Ctx) : List (AS × AS) → List (St × St) → Prop
  | [], rs => rs = []
  | (a, b) :: ps, rs => ∃ rk rv rs', rs = (rk, rv) :: rs' ∧ Shows C a rk ∧ Shows C b rv ∧ ShowsPairs C ps rs'
end

/-! ## Quiet -/

mutual
def Quiet (C : Ctx) : AS → Prop
  | .prim _ => True
  | .nil => True
  | .struct n m p _ fs => C.isDictName n = true ∨ (m = 0 ∧ QuietFields C (fieldsOf C n) 0 p fs)
  | .oneof _ t as => t = 0 ∨ QuietAlt C (t - 1) as
  | .arr _ es _ => QuietElems C es
  | .mmap _ ps _ k v ml => ps = [] ∨ (k = 0 ∧ v = 0 ∧ ml = false ∧ QuietPairs C ps)
def QuietFields (C : Ctx) : List Field → Nat → Nat → List AS → Prop
  | _, _, _, [] => True
  | fds, oi, p, a :: as =>
    ((!fdOpt fds || p.testBit oi) = true → Quiet C a) ∧
    QuietFields C fds.tail (if fdOpt fds then oi + 1 else oi) p as
def QuietAlt (C : Ctx) : Nat → List AS → Prop
  | _, [] => True
  | 0, a :: _ => Quiet C a
  | i + 1, _ :: as => QuietAlt C i as
def QuietElems (C : Ctx) : List AS → Prop
  | [] => True
  | a :: as => Quiet C a ∧ QuietElems C as
def QuietPairs (C : Ctx) : List (AS × AS) → Prop
  | [] => True
  | (a, b) :: ps => Quiet C a ∧ Quiet C b ∧ QuietPairs C ps
end

/-! ## Snd -/

def optPres : Option St → Nat
  | some r => structPres r
  | none => 0

def optFields : Option St → List St
  | some r => structFields r
  | none => []

def optElems : Option St → List St
  | some r => arrElems r
  | none => []

def optPairs : Option St → List (St × St)
  | some r => mmapPairs r
  | none => []

/-- the reader's value of alternative `t`: known only if the reader holds the same alternative -/
def altOf (t : Nat) : Option St → Option St
  | some (.oneof t' (some rv)) => if t' = t then some rv else none
  | _ => none

/-- the reader's previous value of a struct field as `encodeFields` / `decodeFields` take it -/
def fieldPrev (known opt prim rpresent : Bool) (rfs : List St) : Option St :=
  if known && !(opt && !prim && !rpresent) then some (rfs.headD dflt) else none

mutual
def Snd (C : Ctx) : AS → Option St → Prop
  | .prim _, _ => True
  | .nil, _ => True
  | .struct n m p _ fs, R =>
    C.isDictName n = true ∨ SndFields C (fieldsOf C n) 0 0 m p R.isSome (optPres R) fs (optFields R)
  | .oneof _ t as, R => t = 0 ∨ SndAlt C (t - 1) as (altOf t R)
  | .arr _ es _, R => SndElems C es (optElems R)
  | .mmap _ ps _ k v ml, R =>
    ps = [] ∨
    ((ml = true ∨ k ≠ 0 ∨ ps.length ≥ 63) ∧ SndPairs C ps (optPairs R)) ∨
    (ml = false ∧ k = 0 ∧ ps.length < 63 ∧ R.isSome = true ∧ (optPairs R).length = ps.length ∧
      SndVals C v 0 ps (optPairs R))
def SndFields (C : Ctx) : List Field → Nat → Nat → Nat → Nat → Bool → Nat → List AS → List St → Prop
  | _, _, _, _, _, _, _, [], _ => True
  | fds, idx, oi, m, p, known, rp, a :: as, rfs =>
    ((!fdOpt fds || p.testBit oi) = true →
      (m.testBit idx = true → Snd C a (fieldPrev known (fdOpt fds) (isPrimAS a) (rp.testBit oi) rfs)) ∧
      (m.testBit idx = false →
        known = true ∧ (fdOpt fds = true → rp.testBit oi = true) ∧ Shows C a (rfs.headD dflt) ∧ Quiet C a)) ∧
    SndFields C fds.tail (idx + 1) (if fdOpt fds then oi + 1 else oi) m p known rp as rfs.tail
def SndAlt (C : Ctx) : Nat → List AS → Option St → Prop
  | _, [], _ => True
  | 0, a :: _, R => Snd C a R
  | i + 1, _ :: as, R => SndAlt C i as R
def SndElems (C : Ctx) : List AS → List St → Prop
  | [], _ => True
  | a :: as, rs => Snd C a rs.head? ∧ SndElems C as rs.tail
def SndPairs (C : Ctx) : List (AS × AS) → List (St × St) → Prop
  | [], _ => True
  | (a, b) :: ps, rs =>
    Snd C a (rs.head?.map (·.1)) ∧ Snd C b (rs.head?.map (·.2)) ∧ SndPairs C ps rs.tail
def SndVals (C : Ctx) : Nat → Nat → List (AS × AS) → List (St × St) → Prop
  | _, _, [], _ => True
  | v, idx, (a, b) :: ps, rs =>
    (∃ rk rv rs', rs = (rk, rv) :: rs' ∧ Shows C a rk ∧ Quiet C a ∧
      (if v.testBit idx then Snd C b (some rv) else Shows C b rv ∧ Quiet C b)) ∧
    SndVals C v (idx + 1) ps rs.tail
end

/-! ## Fully marked states are sound against any reader value -/

theorem fieldPrev_unknown (opt prim rp : Bool) (rfs : List St) : fieldPrev false opt prim rp rfs = none := by
  simp [fieldPrev]

mutual
theorem snd_of_full (C : Ctx) : ∀ (a : AS) (R : Option St), Snd C a none → Snd C a R
  | .prim _, _, _ => by simp [Snd]
  | .nil, _, _ => by simp [Snd]
  | .struct n m p fr fs, R, h => by
    simp only [Snd] at h ⊢
    rcases h with h | h
    · exact Or.inl h
    · exact Or.inr (sndFields_of_full C (fieldsOf C n) 0 0 m p fs R.isSome (optPres R) (optFields R) h)
  | .oneof n t as, R, h => by
    simp only [Snd] at h ⊢
    rcases h with h | h
    · exact Or.inl h
    · exact Or.inr (sndAlt_of_full C (t - 1) as (altOf t R) (by simpa [altOf] using h))
  | .arr e es hid, R, h => by
    simp only [Snd] at h ⊢
    exact sndElems_of_full C es (optElems R) (by simpa [optElems] using h)
  | .mmap n ps hid k v ml, R, h => by
    simp only [Snd] at h ⊢
    rcases h with h | h | h
    · exact Or.inl h
    · exact Or.inr (Or.inl ⟨h.1, sndPairs_of_full C ps (optPairs R) (by simpa [optPairs] using h.2)⟩)
    · simp at h
theorem sndFields_of_full (C : Ctx) : ∀ (fds : List Field) (idx oi m p : Nat) (as : List AS) (known : Bool) (rp : Nat)
    (rfs : List St), SndFields C fds idx oi m p false 0 as [] → SndFields C fds idx oi m p known rp as rfs
  | _, _, _, _, _, [], _, _, _, _ => by simp [SndFields]
  | fds, idx, oi, m, p, a :: as, known, rp, rfs, h => by
    simp only [SndFields] at h ⊢
    refine ⟨fun hp => ?_, sndFields_of_full C fds.tail (idx + 1) _ m p as known rp rfs.tail (by simpa using h.2)⟩
    have h1 := h.1 hp
    refine ⟨fun hm => snd_of_full C a _ (by simpa [fieldPrev_unknown] using h1.1 hm), fun hm => ?_⟩
    have := (h1.2 hm).1
    simp at this
theorem sndAlt_of_full (C : Ctx) : ∀ (i : Nat) (as : List AS) (R : Option St), SndAlt C i as none → SndAlt C i as R
  | _, [], _, _ => by simp [SndAlt]
  | 0, a :: _, R, h => by simp only [SndAlt] at h ⊢; exact snd_of_full C a R h
  | i + 1, _ :: as, R, h => by simp only [SndAlt] at h ⊢; exact sndAlt_of_full C i as R h
theorem sndElems_of_full (C : Ctx) : ∀ (as : List AS) (rs : List St), SndElems C as [] → SndElems C as rs
  | [], _, _ => by simp [SndElems]
  | a :: as, rs, h => by
    simp only [SndElems] at h ⊢
    exact ⟨snd_of_full C a _ (by simpa using h.1), sndElems_of_full C as rs.tail (by simpa using h.2)⟩
theorem sndPairs_of_full (C : Ctx) : ∀ (ps : List (AS × AS)) (rs : List (St × St)),
    SndPairs C ps [] → SndPairs C ps rs
  | [], _, _ => by simp [SndPairs]
  | (a, b) :: ps, rs, h => by
    simp only [SndPairs] at h ⊢
    exact ⟨snd_of_full C a _ (by simpa using h.1), snd_of_full C b _ (by simpa using h.2.1),
      sndPairs_of_full C ps rs.tail (by simpa using h.2.2)⟩
end

/-! ## In sync with the reader and unmarked: sound -/

theorem showsPairs_length (C : Ctx) : ∀ (ps : List (AS × AS)) (rs : List (St × St)),
    ShowsPairs C ps rs → rs.length = ps.length
  | [], _, h => by simp only [ShowsPairs] at h; simp [h]
  | (a, b) :: ps, rs, h => by
    simp only [ShowsPairs] at h
    obtain ⟨rk, rv, rs', e, _, _, h'⟩ := h
    subst e
    simp [showsPairs_length C ps rs' h']

theorem showsElems_length (C : Ctx) : ∀ (as : List AS) (rs : List St),
    ShowsElems C as rs → rs.length = as.length
  | [], _, h => by simp only [ShowsElems] at h; simp [h]
  | a :: as, rs, h => by
    simp only [ShowsElems] at h
    obtain ⟨r, rs', e, _, h'⟩ := h
    subst e
    simp [showsElems_length C as rs' h']

mutual
theorem snd_of_sync (C : Ctx) : ∀ (a : AS) (r : St), Shows C a r → Quiet C a → Snd C a (some r)
  | .prim _, _, _, _ => by simp [Snd]
  | .nil, _, _, _ => by simp [Snd]
  | .struct n m p fr fs, r, hs, hq => by
    simp only [Snd, Shows, Quiet] at hs hq ⊢
    rcases hq with hq | ⟨hm, hq⟩
    · exact Or.inl hq
    · obtain ⟨rfs, e, hs⟩ := hs
      subst e hm
      exact Or.inr (sndFields_of_sync C (fieldsOf C n) 0 0 p fs rfs hs hq)
  | .oneof n t as, r, hs, hq => by
    simp only [Snd, Shows, Quiet] at hs hq ⊢
    rcases hs with ⟨ht, _⟩ | ⟨ht, rv, e, hs⟩
    · exact Or.inl ht
    · subst e
      rcases hq with hq | hq
      · exact absurd hq ht
      · exact Or.inr (by simpa [altOf] using sndAlt_of_sync C (t - 1) as rv hs hq)
  | .arr e es hid, r, hs, hq => by
    simp only [Snd, Shows, Quiet] at hs hq ⊢
    obtain ⟨rs, e, hs⟩ := hs
    subst e
    exact sndElems_of_sync C es rs hs hq
  | .mmap n ps hid k v ml, r, hs, hq => by
    simp only [Snd, Shows, Quiet] at hs hq ⊢
    obtain ⟨rps, e, hs⟩ := hs
    subst e
    rcases hq with hq | ⟨hk, hv, hml, hq⟩
    · exact Or.inl hq
    · by_cases hl : ps.length < 63
      · refine Or.inr (Or.inr ⟨hml, hk, hl, by simp, ?_, ?_⟩)
        · simpa [optPairs, mmapPairs] using showsPairs_length C ps rps hs
        · subst hv
          simpa [optPairs, mmapPairs] using sndVals_of_sync C 0 ps rps hs hq
      · refine Or.inr (Or.inl ⟨Or.inr (Or.inr (by omega)), ?_⟩)
        simpa [optPairs, mmapPairs] using sndPairs_of_sync C ps rps hs hq
theorem sndFields_of_sync (C : Ctx) : ∀ (fds : List Field) (idx oi p : Nat) (as : List AS) (rfs : List St),
    ShowsFields C fds oi p as rfs → QuietFields C fds oi p as →
    SndFields C fds idx oi 0 p true p as rfs
  | _, _, _, _, [], _, _, _ => by simp [SndFields]
  | fds, idx, oi, p, a :: as, rfs, hs, hq => by
    simp only [SndFields, ShowsFields, QuietFields] at hs hq ⊢
    obtain ⟨r, rs', e, hs1, hs2⟩ := hs
    subst e
    refine ⟨fun hp => ⟨fun hm => by simp at hm, fun _ => ⟨trivial, fun ho => ?_, by simpa using hs1 hp, hq.1 hp⟩⟩,
      by simpa using sndFields_of_sync C fds.tail (idx + 1) _ p as rs' hs2 hq.2⟩
    simpa [ho] using hp
theorem sndAlt_of_sync (C : Ctx) : ∀ (i : Nat) (as : List AS) (r : St), ShowsAlt C i as r → QuietAlt C i as →
    SndAlt C i as (some r)
  | _, [], _, _, _ => by simp [SndAlt]
  | 0, a :: _, r, hs, hq => by simp only [SndAlt, ShowsAlt, QuietAlt] at hs hq ⊢; exact snd_of_sync C a r hs hq
  | i + 1, _ :: as, r, hs, hq => by
    simp only [SndAlt, ShowsAlt, QuietAlt] at hs hq ⊢; exact sndAlt_of_sync C i as r hs hq
theorem sndElems_of_sync (C : Ctx) : ∀ (as : List AS) (rs : List St), ShowsElems C as rs →
    QuietElems C as → SndElems C as rs
  | [], _, _, _ => by simp [SndElems]
  | a :: as, rs, hs, hq => by
    simp only [SndElems, ShowsElems, QuietElems] at hs hq ⊢
    obtain ⟨r, rs', e, hs1, hs2⟩ := hs
    subst e
    exact ⟨by simpa using snd_of_sync C a r hs1 hq.1, by simpa using sndElems_of_sync C as rs' hs2 hq.2⟩
theorem sndPairs_of_sync (C : Ctx) : ∀ (ps : List (AS × AS)) (rs : List (St × St)), ShowsPairs C ps rs →
    QuietPairs C ps → SndPairs C ps rs
  | [], _, _, _ => by simp [SndPairs]
  | (a, b) :: ps, rs, hs, hq => by
    simp only [SndPairs, ShowsPairs, QuietPairs] at hs hq ⊢
    obtain ⟨rk, rv, rs', e, hs1, hs2, hs3⟩ := hs
    subst e
    exact ⟨by simpa using snd_of_sync C a rk hs1 hq.1, by simpa using snd_of_sync C b rv hs2 hq.2.1,
      by simpa using sndPairs_of_sync C ps rs' hs3 hq.2.2⟩
theorem sndVals_of_sync (C : Ctx) : ∀ (idx : Nat) (ps : List (AS × AS)) (rs : List (St × St)), ShowsPairs C ps rs →
    QuietPairs C ps → SndVals C 0 idx ps rs
  | _, [], _, _, _ => by simp [SndVals]
  | idx, (a, b) :: ps, rs, hs, hq => by
    simp only [SndVals, ShowsPairs, QuietPairs] at hs hq ⊢
    obtain ⟨rk, rv, rs', e, hs1, hs2, hs3⟩ := hs
    subst e
    exact ⟨⟨rk, rv, rs', rfl, hs1, hq.1, by simp [hs2, hq.2.1]⟩, by simpa using sndVals_of_sync C (idx + 1) ps rs' hs3 hq.2.2⟩
end

/-! ## `setModifiedRecursively` marks in full -/

theorem setModRecList_length : ∀ (as : List AS), (setModRecList as).length = as.length
  | [] => by simp [setModRecList]
  | a :: as => by simp [setModRecList, setModRecList_length as]

theorem setModRecPairs_length : ∀ (ps : List (AS × AS)), (setModRecPairs ps).length = ps.length
  | [] => by simp [setModRecPairs]
  | (a, b) :: ps => by simp [setModRecPairs, setModRecPairs_length ps]

mutual
theorem snd_setModRec (C : Ctx) : ∀ (a : AS), Snd C (setModRec a) none
  | .prim _ => by simp [setModRec, Snd]
  | .nil => by simp [setModRec, Snd]
  | .struct n m p fr fs => by
    simp only [setModRec, Snd]
    refine Or.inr ?_
    exact sndFields_setModRec C (fieldsOf C n) 0 0 (2 ^ fs.length - 1) p fs
      (fun j hj => by simp [Nat.testBit_two_pow_sub_one]; omega)
  | .oneof n t as => by
    simp only [setModRec, Snd]
    by_cases ht : t = 0
    · exact Or.inl ht
    · refine Or.inr ?_
      have : (t == 0) = false := by simp [ht]
      rw [this]
      simpa [altOf] using sndAlt_setModRec C (t - 1) as
  | .arr e es hid => by
    simp only [setModRec, Snd]
    simpa [optElems] using sndElems_setModRec C es
  | .mmap n ps hid k v ml => by
    simp only [setModRec, Snd]
    exact Or.inr (Or.inl ⟨Or.inl trivial, by simpa [optPairs] using sndPairs_setModRec C ps⟩)
theorem sndFields_setModRec (C : Ctx) : ∀ (fds : List Field) (idx oi m p : Nat) (as : List AS),
    (∀ j, j < as.length → m.testBit (idx + j) = true) →
    SndFields C fds idx oi m p false 0 (setModRecList as) []
  | _, _, _, _, _, [], _ => by simp [setModRecList, SndFields]
  | fds, idx, oi, m, p, a :: as, hm => by
    simp only [setModRecList, SndFields]
    refine ⟨fun _ => ⟨fun _ => by simpa [fieldPrev_unknown] using snd_setModRec C a, fun h0 => ?_⟩,
      by simpa using sndFields_setModRec C fds.tail (idx + 1) _ m p as (fun j hj => by
        have := hm (j + 1) (by simp; omega)
        rwa [show idx + (j + 1) = idx + 1 + j by omega] at this)⟩
    have := hm 0 (by simp)
    simp [h0] at this
theorem sndAlt_setModRec (C : Ctx) : ∀ (i : Nat) (as : List AS), SndAlt C i (setModRecAlt i false as) none
  | _, [] => by simp [setModRecAlt, SndAlt]
  | 0, a :: _ => by simp only [setModRecAlt, SndAlt]; simpa using snd_setModRec C a
  | i + 1, _ :: as => by simp only [setModRecAlt, SndAlt]; exact sndAlt_setModRec C i as
theorem sndElems_setModRec (C : Ctx) : ∀ (as : List AS), SndElems C (setModRecList as) []
  | [] => by simp [setModRecList, SndElems]
  | a :: as => by
    simp only [setModRecList, SndElems]
    exact ⟨by simpa using snd_setModRec C a, by simpa using sndElems_setModRec C as⟩
theorem sndPairs_setModRec (C : Ctx) : ∀ (ps : List (AS × AS)), SndPairs C (setModRecPairs ps) []
  | [] => by simp [setModRecPairs, SndPairs]
  | (a, b) :: ps => by
    simp only [setModRecPairs, SndPairs]
    exact ⟨by simpa using snd_setModRec C a, by simpa using snd_setModRec C b, by simpa using sndPairs_setModRec C ps⟩
end

/-- a value that was just passed through `setModifiedRecursively` is sound against any reader value -/
theorem snd_setModRec_any (C : Ctx) (a : AS) (R : Option St) : Snd C (setModRec a) R :=
  snd_of_full C _ R (snd_setModRec C a)

end Stef.Api
