import Stef.Proofs.SchemaDefs

namespace Stef.Idl

/-
  WireOrder: for a schema without recursion `NewWireSchema` (`wireEntries`) and the order in which
  the generated `Init` consumes the wire schema (`initEntries`) are the same list.

  Main results (end of the file):
    * `wire_order_acyclic`   both `.ok`  ⟹  equal
    * `init_ok_of_wire_ok`   `wireEntries = .ok w` ∧ `root ≠ []`  ⟹  `initEntries = .ok w`
    * primed versions with the side conditions stated on the lists of definitions
  Side conditions (each shown necessary by a `decide`d counterexample at the end):
    no definition name starts with `[` (array encoder keys are `"[]" ++ name`), and no name is
    both a struct and a multimap (both hold for parsed schemas: identifiers, `WF.top_unique`).

  Proof outline. `Rel` relates a wire state and an `Init` state (same output; `asMap` = fetched
  structs + multimaps on the stack; every fetched struct not on the stack is covered, `CovB`:
  its whole unfolding is fetched). `SI` (ranks of everything on the stack exceed the current
  target's) shows `Init` never cuts; `initType_silent`: re-initialising a covered type changes
  nothing; `main_lemma` by induction on the `Init` fuel for arbitrary wire fuel. For
  `init_ok_of_wire_ok` the rank is replaced by `cnt` (number of defined names of smaller rank),
  which bounds the depth by the number of definitions, so `initFuel` suffices.
-/

/-! ## One-step unfoldings -/

/-- the part of `initType` between pushing and popping the encoder key. -/
def initBody (σ : Schema) (fuel : Nat) (ty : FType) (st1 : ISt) : Except WErr ISt :=
  match ty with
  | .array e _ _ => initType σ fuel (.base e) st1
  | .base b =>
    if b.struct ≠ [] then
      match σ.findStruct b.struct with
      | none => .error .unknownFieldType
      | some s =>
        let st2 := if st1.fetched.contains s.name then st1
                   else { st1 with fetched := s.name :: st1.fetched,
                                   out := st1.out ++ [(s.name, s.fields.length)] }
        initFields (initType σ fuel) s.types st2
    else if b.multimap ≠ [] then
      match σ.findMultimap b.multimap with
      | none => .error .unknownFieldType
      | some m => initFields (initType σ fuel) m.types st1
    else .error .unknownFieldType

theorem initType_succ (σ : Schema) (g : Nat) (ty : FType) (st : ISt) :
    initType σ (g+1) ty st =
      if ty.inner.prim.isSome then .ok st
      else if st.onStack.contains (encoderKey ty) then .ok st
      else match initBody σ g ty { st with onStack := encoderKey ty :: st.onStack } with
        | .error e => .error e
        | .ok st3 => .ok { st3 with onStack := st3.onStack.erase (encoderKey ty) } := by
  cases ty <;> rfl

/-- inversion of a successful `initType`. -/
theorem initType_inv {σ : Schema} {f : Nat} {ty : FType} {st st' : ISt}
    (h : initType σ f ty st = .ok st') :
    ∃ g, f = g + 1 ∧
      ((ty.inner.prim.isSome = true ∧ st' = st) ∨
       (ty.inner.prim.isSome = false ∧ st.onStack.contains (encoderKey ty) = true ∧ st' = st) ∨
       (ty.inner.prim.isSome = false ∧ st.onStack.contains (encoderKey ty) = false ∧
          ∃ st3, initBody σ g ty { st with onStack := encoderKey ty :: st.onStack } = .ok st3 ∧
            st' = { st3 with onStack := st3.onStack.erase (encoderKey ty) })) := by
  cases f with
  | zero => simp [initType] at h
  | succ g =>
    refine ⟨g, rfl, ?_⟩
    rw [initType_succ] at h
    by_cases hp : ty.inner.prim.isSome = true
    · rw [if_pos hp] at h
      exact Or.inl ⟨hp, by cases h; rfl⟩
    · rw [if_neg hp] at h
      have hp' : ty.inner.prim.isSome = false := by simpa using hp
      by_cases hc : st.onStack.contains (encoderKey ty) = true
      · rw [if_pos hc] at h
        exact Or.inr (Or.inl ⟨hp', hc, by cases h; rfl⟩)
      · rw [if_neg hc] at h
        have hc' : st.onStack.contains (encoderKey ty) = false := by simpa using hc
        refine Or.inr (Or.inr ⟨hp', hc', ?_⟩)
        cases hb : initBody σ g ty { st with onStack := encoderKey ty :: st.onStack } with
        | error e => rw [hb] at h; cases h
        | ok st3 => rw [hb] at h; exact ⟨st3, rfl, by cases h; rfl⟩

theorem initBody_array {σ : Schema} {g : Nat} {e : BaseType} {d : Name} {r : Bool} {st1 : ISt} :
    initBody σ g (.array e d r) st1 = initType σ g (.base e) st1 := rfl

/-- inversion of a successful `initBody` on a non-array type. -/
theorem initBody_base_inv {σ : Schema} {g : Nat} {b : BaseType} {st1 st3 : ISt}
    (h : initBody σ g (.base b) st1 = .ok st3) :
    (b.struct ≠ [] ∧ ∃ s, σ.findStruct b.struct = some s ∧
        initFields (initType σ g) s.types
          (if st1.fetched.contains s.name then st1
           else { st1 with fetched := s.name :: st1.fetched,
                           out := st1.out ++ [(s.name, s.fields.length)] }) = .ok st3) ∨
    (b.struct = [] ∧ b.multimap ≠ [] ∧ ∃ m, σ.findMultimap b.multimap = some m ∧
        initFields (initType σ g) m.types st1 = .ok st3) := by
  simp only [initBody] at h
  by_cases hs : b.struct ≠ []
  · rw [if_pos hs] at h
    cases hf : σ.findStruct b.struct with
    | none => rw [hf] at h; cases h
    | some s => rw [hf] at h; exact Or.inl ⟨hs, s, rfl, h⟩
  · rw [if_neg hs] at h
    have hs' : b.struct = [] := by simpa using hs
    by_cases hm : b.multimap ≠ []
    · rw [if_pos hm] at h
      cases hf : σ.findMultimap b.multimap with
      | none => rw [hf] at h; cases h
      | some m => rw [hf] at h; exact Or.inr ⟨hs', hm, m, rfl, h⟩
    · rw [if_neg hm] at h; cases h

/-- inversion of a successful `wsType`. -/
theorem wsType_inv {σ : Schema} {f : Nat} {b : BaseType} {st st' : WSt}
    (h : wsType σ f b st = .ok st') :
    ∃ g, f = g + 1 ∧
      ((b.prim.isSome = true ∧ st' = st) ∨
       (b.prim.isSome = false ∧ b.struct ≠ [] ∧ ∃ s, σ.findStruct b.struct = some s ∧
          ((st.asMap.contains s.name = true ∧ st' = st) ∨
           (st.asMap.contains s.name = false ∧
              wsFields (wsType σ g) s.types
                { asMap := s.name :: st.asMap, out := st.out ++ [(s.name, s.fields.length)] }
                = .ok st'))) ∨
       (b.prim.isSome = false ∧ b.struct = [] ∧ b.multimap ≠ [] ∧
          ∃ m, σ.findMultimap b.multimap = some m ∧
          ((st.asMap.contains m.name = true ∧ st' = st) ∨
           (st.asMap.contains m.name = false ∧
              ∃ st2, wsFields (wsType σ g) m.types { st with asMap := m.name :: st.asMap }
                = .ok st2 ∧ st' = { st2 with asMap := st2.asMap.erase m.name })))) := by
  cases f with
  | zero => simp [wsType] at h
  | succ g =>
    refine ⟨g, rfl, ?_⟩
    rw [wsType] at h
    by_cases hp : b.prim.isSome = true
    · rw [if_pos hp] at h
      exact Or.inl ⟨hp, by cases h; rfl⟩
    · rw [if_neg hp] at h
      have hp' : b.prim.isSome = false := by simpa using hp
      by_cases hs : b.struct ≠ []
      · rw [if_pos hs] at h
        refine Or.inr (Or.inl ⟨hp', hs, ?_⟩)
        cases hf : σ.findStruct b.struct with
        | none => rw [hf] at h; cases h
        | some s =>
          rw [hf] at h
          dsimp only at h
          refine ⟨s, rfl, ?_⟩
          by_cases hc : st.asMap.contains s.name = true
          · rw [if_pos hc] at h
            exact Or.inl ⟨hc, by cases h; rfl⟩
          · rw [if_neg hc] at h
            exact Or.inr ⟨by simpa using hc, h⟩
      · rw [if_neg hs] at h
        have hs' : b.struct = [] := by simpa using hs
        by_cases hm : b.multimap ≠ []
        · rw [if_pos hm] at h
          refine Or.inr (Or.inr ⟨hp', hs', hm, ?_⟩)
          cases hf : σ.findMultimap b.multimap with
          | none => rw [hf] at h; cases h
          | some m =>
            rw [hf] at h
            dsimp only at h
            refine ⟨m, rfl, ?_⟩
            by_cases hc : st.asMap.contains m.name = true
            · rw [if_pos hc] at h
              exact Or.inl ⟨hc, by cases h; rfl⟩
            · rw [if_neg hc] at h
              refine Or.inr ⟨by simpa using hc, ?_⟩
              cases hw : wsFields (wsType σ g) m.types { st with asMap := m.name :: st.asMap } with
              | error e => rw [hw] at h; cases h
              | ok st2 => rw [hw] at h; exact ⟨st2, rfl, by cases h; rfl⟩
        · rw [if_neg hm] at h; cases h

theorem wsFields_cons_inv {rec : BaseType → WSt → Except WErr WSt} {ty : FType}
    {rest : List FType} {st st' : WSt} (h : wsFields rec (ty :: rest) st = .ok st') :
    ∃ st1, rec ty.inner st = .ok st1 ∧ wsFields rec rest st1 = .ok st' := by
  simp only [wsFields] at h
  cases hr : rec ty.inner st with
  | error e => rw [hr] at h; cases h
  | ok st1 => rw [hr] at h; exact ⟨st1, rfl, h⟩

theorem initFields_cons_inv {rec : FType → ISt → Except WErr ISt} {ty : FType}
    {rest : List FType} {st st' : ISt} (h : initFields rec (ty :: rest) st = .ok st') :
    ∃ st1, rec ty st = .ok st1 ∧ initFields rec rest st1 = .ok st' := by
  simp only [initFields] at h
  cases hr : rec ty st with
  | error e => rw [hr] at h; cases h
  | ok st1 => rw [hr] at h; exact ⟨st1, rfl, h⟩

theorem wsFields_nil_inv {rec : BaseType → WSt → Except WErr WSt} {st st' : WSt}
    (h : wsFields rec [] st = .ok st') : st' = st := by
  simp only [wsFields] at h; cases h; rfl

theorem initFields_nil_inv {rec : FType → ISt → Except WErr ISt} {st st' : ISt}
    (h : initFields rec [] st = .ok st') : st' = st := by
  simp only [initFields] at h; cases h; rfl

theorem findStruct_name {σ : Schema} {n : Name} {s : Struct} (h : σ.findStruct n = some s) :
    s.name = n := by
  have := List.find?_some h
  simpa using this

theorem findStruct_mem {σ : Schema} {n : Name} {s : Struct} (h : σ.findStruct n = some s) :
    s ∈ σ.structs := List.mem_of_find?_eq_some h

theorem findMultimap_name {σ : Schema} {n : Name} {m : Multimap}
    (h : σ.findMultimap n = some m) : m.name = n := by
  have := List.find?_some h
  simpa using this

theorem findMultimap_mem {σ : Schema} {n : Name} {m : Multimap}
    (h : σ.findMultimap n = some m) : m ∈ σ.multimaps := List.mem_of_find?_eq_some h

/-! ## `onStack` is restored by every successful `initType` -/

theorem initFields_onStack {rec : FType → ISt → Except WErr ISt}
    (hrec : ∀ ty st st', rec ty st = .ok st' → st'.onStack = st.onStack) :
    ∀ tys st st', initFields rec tys st = .ok st' → st'.onStack = st.onStack := by
  intro tys
  induction tys with
  | nil => intro st st' h; rw [initFields_nil_inv h]
  | cons ty rest ih =>
    intro st st' h
    obtain ⟨st1, h1, h2⟩ := initFields_cons_inv h
    rw [ih _ _ h2, hrec _ _ _ h1]

theorem initType_onStack (σ : Schema) :
    ∀ f ty st st', initType σ f ty st = .ok st' → st'.onStack = st.onStack := by
  intro f
  induction f with
  | zero => intro ty st st' h; obtain ⟨g, hg, _⟩ := initType_inv h; cases hg
  | succ g ih =>
    intro ty st st' h
    obtain ⟨g', hg, hc⟩ := initType_inv h
    have : g' = g := by omega
    subst this
    rcases hc with ⟨_, rfl⟩ | ⟨_, _, rfl⟩ | ⟨_, _, st3, hb, rfl⟩
    · rfl
    · rfl
    · have h3 : st3.onStack = encoderKey ty :: st.onStack := by
        cases ty with
        | array e d r => exact ih _ _ _ hb
        | base b =>
          rcases initBody_base_inv hb with ⟨_, s, _, hf⟩ | ⟨_, _, m, _, hf⟩
          · rw [initFields_onStack ih _ _ _ hf]
            split <;> rfl
          · rw [initFields_onStack ih _ _ _ hf]
      show st3.onStack.erase (encoderKey ty) = st.onStack
      rw [h3, List.erase_cons_head]

/-! ## Covered types: everything below is already fetched -/

/-- every struct in the unfolding of `b` (through multimaps and structs) is in `F`. -/
inductive CovB (σ : Schema) (F : List Name) : BaseType → Prop
  | prim {b : BaseType} : b.prim.isSome = true → CovB σ F b
  | struct {b : BaseType} {s : Struct} : b.prim.isSome = false → b.struct ≠ [] → b.struct ∈ F →
      σ.findStruct b.struct = some s → (∀ ty ∈ s.types, CovB σ F ty.inner) → CovB σ F b
  | mm {b : BaseType} {m : Multimap} : b.prim.isSome = false → b.struct = [] →
      b.multimap ≠ [] → σ.findMultimap b.multimap = some m →
      (∀ ty ∈ m.types, CovB σ F ty.inner) → CovB σ F b

theorem CovB.mono {σ : Schema} {F F' : List Name} {b : BaseType} (h : CovB σ F b)
    (hsub : ∀ x ∈ F, x ∈ F') : CovB σ F' b := by
  induction h with
  | prim hp => exact .prim hp
  | struct hp hs hmem hf _ ih => exact .struct hp hs (hsub _ hmem) hf ih
  | mm hp hs hm hf _ ih => exact .mm hp hs hm hf ih

theorem initFields_silent {σ : Schema} {rec : FType → ISt → Except WErr ISt}
    (hrec : ∀ ty st st', CovB σ st.fetched ty.inner → rec ty st = .ok st' → st' = st) :
    ∀ tys st st', (∀ ty ∈ tys, CovB σ st.fetched ty.inner) →
      initFields rec tys st = .ok st' → st' = st := by
  intro tys
  induction tys with
  | nil => intro st st' _ h; exact initFields_nil_inv h
  | cons ty rest ih =>
    intro st st' hc h
    obtain ⟨st1, h1, h2⟩ := initFields_cons_inv h
    have e1 : st1 = st := hrec _ _ _ (hc ty (List.mem_cons_self ..)) h1
    subst e1
    exact ih _ _ (fun t ht => hc t (List.mem_cons_of_mem _ ht)) h2

/-- re-initialising a covered type changes nothing. -/
theorem initType_silent (σ : Schema) :
    ∀ f ty st st', CovB σ st.fetched ty.inner → initType σ f ty st = .ok st' → st' = st := by
  intro f
  induction f with
  | zero => intro ty st st' _ h; obtain ⟨g, hg, _⟩ := initType_inv h; cases hg
  | succ g ih =>
    intro ty st st' hcov h
    obtain ⟨g', hg, hc⟩ := initType_inv h
    have : g' = g := by omega
    subst this
    rcases hc with ⟨_, rfl⟩ | ⟨_, _, rfl⟩ | ⟨hp, _, st3, hb, rfl⟩
    · rfl
    · rfl
    · have h3 : st3 = { st with onStack := encoderKey ty :: st.onStack } := by
        cases ty with
        | array e d r => exact ih (.base e) _ _ hcov hb
        | base b =>
          have hp' : b.prim.isSome = false := hp
          have hcov' : CovB σ st.fetched b := hcov
          rcases initBody_base_inv hb with ⟨hs, s, hfs, hf⟩ | ⟨hs, _, m, hfm, hf⟩
          · cases hcov' with
            | prim hq => rw [hq] at hp'; cases hp'
            | mm _ hs' _ _ _ => exact absurd hs' hs
            | struct _ _ hmem hf' hch =>
              rw [hfs] at hf'; cases hf'
              have hn := findStruct_name hfs
              have hcont : ({ st with onStack := encoderKey (FType.base b) :: st.onStack } : ISt).fetched.contains s.name = true := by
                rw [hn]; exact List.contains_iff_mem.mpr hmem
              rw [if_pos hcont] at hf
              exact initFields_silent ih _ _ _ hch hf
          · cases hcov' with
            | prim hq => rw [hq] at hp'; cases hp'
            | struct _ hs' _ _ _ => exact absurd hs hs'
            | mm _ _ _ hf' hch =>
              rw [hfm] at hf'; cases hf'
              exact initFields_silent ih _ _ _ hch hf
      subst h3
      cases st
      simp only [List.erase_cons_head]

/-! ## Reference names and encoder keys -/

def isArr : FType → Nat
  | .base _ => 0
  | .array _ _ _ => 1

/-- the encoder key of a type that refers to the definition named `n`. -/
def keyOf : FType → Name → Name
  | .base _, n => n
  | .array _ _ _, n => arrayKey n

theorem refName_struct {ty : FType} (hp : ty.inner.prim.isSome = false)
    (hs : ty.inner.struct ≠ []) : ty.refName = some ty.inner.struct := by
  unfold FType.refName
  rw [if_neg (by rw [hp]; exact Bool.false_ne_true), if_pos hs]

theorem refName_mm {ty : FType} (hp : ty.inner.prim.isSome = false)
    (hs : ty.inner.struct = []) (hm : ty.inner.multimap ≠ []) :
    ty.refName = some ty.inner.multimap := by
  unfold FType.refName
  rw [if_neg (by rw [hp]; exact Bool.false_ne_true), if_neg (by rw [hs]; exact fun h => h rfl),
    if_pos hm]

theorem encoderKey_struct {ty : FType} (hs : ty.inner.struct ≠ []) :
    encoderKey ty = keyOf ty ty.inner.struct := by
  cases ty with
  | base b => exact if_pos hs
  | array e d r => show arrayKey _ = arrayKey _; congr 1; exact if_pos hs

theorem encoderKey_mm {ty : FType} (hs : ty.inner.struct = []) :
    encoderKey ty = keyOf ty ty.inner.multimap := by
  have hn : ¬ ty.inner.struct ≠ [] := fun h => h hs
  cases ty with
  | base b => exact if_neg hn
  | array e d r => show arrayKey _ = arrayKey _; congr 1; exact if_neg hn

/-! ## The stack invariant: `Init` never finds its own key on the stack -/

/-- every key on the stack belongs to a definition of higher level than `L`; the level of
    a reference to `n` is `2 * rank n`, plus one for an array. -/
def SI (rank : Name → Nat) (K : List Name) (L : Nat) : Prop :=
  ∀ k ∈ K, ∃ n : Name, n.head? ≠ some '[' ∧
    ((k = n ∧ L < 2 * rank n) ∨ (k = arrayKey n ∧ L < 2 * rank n + 1))

theorem SI.mono {rank : Name → Nat} {K : List Name} {L L' : Nat} (h : SI rank K L)
    (hle : L' ≤ L) : SI rank K L' := by
  intro k hk
  obtain ⟨n, hh, hn⟩ := h k hk
  refine ⟨n, hh, ?_⟩
  rcases hn with ⟨e, hl⟩ | ⟨e, hl⟩
  · exact Or.inl ⟨e, by omega⟩
  · exact Or.inr ⟨e, by omega⟩

theorem SI.push {rank : Name → Nat} {K : List Name} {L : Nat} {ty : FType} {n : Name}
    (h : SI rank K L) (hh : n.head? ≠ some '[') (hl : L < 2 * rank n + isArr ty) :
    SI rank (keyOf ty n :: K) L := by
  intro k hk
  rcases List.mem_cons.mp hk with rfl | hk
  · refine ⟨n, hh, ?_⟩
    cases ty with
    | base b => exact Or.inl ⟨rfl, by simpa [isArr] using hl⟩
    | array e d r => exact Or.inr ⟨rfl, by simpa [isArr] using hl⟩
  · exact h k hk

theorem arrayKey_ne_of_head {n k : Name} (hh : n.head? ≠ some '[') : n ≠ arrayKey k := by
  intro e; rw [e] at hh; exact hh rfl

theorem SI.not_mem {rank : Name → Nat} {K : List Name} {ty : FType} {n : Name}
    (h : SI rank K (2 * rank n + isArr ty)) (hh : n.head? ≠ some '[') :
    keyOf ty n ∉ K := by
  intro hk
  obtain ⟨n', hh', hn⟩ := h _ hk
  cases ty with
  | base b =>
    rcases hn with ⟨e, hl⟩ | ⟨e, hl⟩
    · have e' : n = n' := e
      subst e'; simp [isArr] at hl
    · exact arrayKey_ne_of_head hh e
  | array e d r =>
    rcases hn with ⟨e, hl⟩ | ⟨e, hl⟩
    · exact arrayKey_ne_of_head hh' e.symm
    · have e' : n = n' := by
        have : arrayKey n = arrayKey n' := e
        simpa [arrayKey] using this
      subst e'; simp [isArr] at hl

/-! ## The relation between the two traversals -/

structure Rel (σ : Schema) (st : WSt) (ist : ISt) : Prop where
  out : st.out = ist.out
  nodup : st.asMap.Nodup
  a_sub : ∀ x ∈ st.asMap, x ∈ ist.fetched ∨ ((σ.findMultimap x).isSome = true ∧ x ∈ ist.onStack)
  f_sub : ∀ x ∈ ist.fetched, x ∈ st.asMap
  f_struct : ∀ x ∈ ist.fetched, (σ.findStruct x).isSome = true
  closed : ∀ x ∈ ist.fetched, x ∉ ist.onStack → ∀ s, σ.findStruct x = some s →
    ∀ ty ∈ s.types, CovB σ ist.fetched ty.inner

theorem Rel.push_stack {σ : Schema} {st : WSt} {ist : ISt} (h : Rel σ st ist) (k : Name) :
    Rel σ st { ist with onStack := k :: ist.onStack } where
  out := h.out
  nodup := h.nodup
  a_sub := fun x hx => (h.a_sub x hx).imp id (fun ⟨a, b⟩ => ⟨a, List.mem_cons_of_mem _ b⟩)
  f_sub := h.f_sub
  f_struct := h.f_struct
  closed := fun x hx hk => h.closed x hx (fun hk' => hk (List.mem_cons_of_mem _ hk'))

theorem Rel.pop_stack {σ : Schema} {st : WSt} {ist : ISt} {k : Name} {K : List Name}
    (h : Rel σ st ist) (hK : ist.onStack = k :: K)
    (hk1 : (σ.findMultimap k).isSome = true → k ∈ st.asMap → k ∈ ist.fetched)
    (hk2 : k ∈ ist.fetched → ∀ s, σ.findStruct k = some s →
      ∀ ty ∈ s.types, CovB σ ist.fetched ty.inner) :
    Rel σ st { ist with onStack := K } where
  out := h.out
  nodup := h.nodup
  a_sub := by
    intro x hx
    rcases h.a_sub x hx with hf | ⟨hm, hs⟩
    · exact Or.inl hf
    · rw [hK] at hs
      rcases List.mem_cons.mp hs with rfl | hs
      · exact Or.inl (hk1 hm hx)
      · exact Or.inr ⟨hm, hs⟩
  f_sub := h.f_sub
  f_struct := h.f_struct
  closed := by
    intro x hx hnk
    by_cases e : x = k
    · subst e; exact hk2 hx
    · refine h.closed x hx ?_
      rw [hK]
      intro hm
      rcases List.mem_cons.mp hm with e' | hm
      · exact e e'
      · exact hnk hm

theorem isArr_le (ty : FType) : isArr ty ≤ 1 := by cases ty <;> simp [isArr]

/-- the hypotheses on the schema, for a fixed rank function. -/
structure Hyp (σ : Schema) (rank : Name → Nat) : Prop where
  rs : ∀ s ∈ σ.structs, ∀ ty ∈ s.types, ∀ n, ty.refName = some n → rank n < rank s.name
  rm : ∀ m ∈ σ.multimaps, ∀ ty ∈ m.types, ∀ n, ty.refName = some n → rank n < rank m.name
  names : ∀ n, (σ.findStruct n).isSome = true ∨ (σ.findMultimap n).isSome = true →
    n.head? ≠ some '['
  disj : ∀ n, (σ.findStruct n).isSome = true → (σ.findMultimap n).isSome = true → False

/-- statement of the main lemma at `Init` fuel `f2` (any wire fuel). -/
def PStmt (σ : Schema) (rank : Name → Nat) (f2 : Nat) : Prop :=
  ∀ f1 T st st' ist ist', Rel σ st ist →
    (∀ n, T.refName = some n → SI rank ist.onStack (2 * rank n + isArr T)) →
    wsType σ f1 T.inner st = .ok st' → initType σ f2 T ist = .ok ist' →
    Rel σ st' ist' ∧ CovB σ ist'.fetched T.inner ∧ (∀ x ∈ ist.fetched, x ∈ ist'.fetched)

theorem fields_main {σ : Schema} {rank : Name → Nat} {f2 : Nat} (hP : PStmt σ rank f2)
    (f1 : Nat) : ∀ tys st st' ist ist', Rel σ st ist →
      (∀ ty ∈ tys, ∀ n, ty.refName = some n → SI rank ist.onStack (2 * rank n + isArr ty)) →
      wsFields (wsType σ f1) tys st = .ok st' → initFields (initType σ f2) tys ist = .ok ist' →
      Rel σ st' ist' ∧ (∀ ty ∈ tys, CovB σ ist'.fetched ty.inner) ∧
        (∀ x ∈ ist.fetched, x ∈ ist'.fetched) := by
  intro tys
  induction tys with
  | nil =>
    intro st st' ist ist' hrel _ hw hi
    rw [wsFields_nil_inv hw, initFields_nil_inv hi]
    exact ⟨hrel, fun _ h => (by cases h), fun _ h => h⟩
  | cons ty rest ih =>
    intro st st' ist ist' hrel hsi hw hi
    obtain ⟨st1, hw1, hw2⟩ := wsFields_cons_inv hw
    obtain ⟨ist1, hi1, hi2⟩ := initFields_cons_inv hi
    obtain ⟨hrel1, hcov1, hsub1⟩ :=
      hP f1 ty st st1 ist ist1 hrel (hsi ty (List.mem_cons_self ..)) hw1 hi1
    have hK : ist1.onStack = ist.onStack := initType_onStack σ _ _ _ _ hi1
    obtain ⟨hrel2, hcov2, hsub2⟩ := ih st1 st' ist1 ist' hrel1
      (fun t ht n hn => by rw [hK]; exact hsi t (List.mem_cons_of_mem _ ht) n hn) hw2 hi2
    refine ⟨hrel2, ?_, fun x hx => hsub2 x (hsub1 x hx)⟩
    intro t ht
    rcases List.mem_cons.mp ht with rfl | ht
    · exact hcov1.mono hsub2
    · exact hcov2 t ht

theorem wire_resolved {σ : Schema} {rank : Name → Nat} (H : Hyp σ rank) {f1 : Nat} {T : FType}
    {st st' : WSt} (hw : wsType σ f1 T.inner st = .ok st') (hp : T.inner.prim.isSome = false) :
    ∃ n, T.refName = some n ∧ encoderKey T = keyOf T n ∧ n.head? ≠ some '[' := by
  obtain ⟨g, _, hc⟩ := wsType_inv hw
  rcases hc with ⟨hp', _⟩ | ⟨_, hs, s, hf, _⟩ | ⟨_, hs, hm, m, hf, _⟩
  · rw [hp] at hp'; cases hp'
  · exact ⟨_, refName_struct hp hs, encoderKey_struct hs,
      H.names _ (Or.inl (by rw [hf]; rfl))⟩
  · exact ⟨_, refName_mm hp hs hm, encoderKey_mm hs,
      H.names _ (Or.inr (by rw [hf]; rfl))⟩

theorem Rel.push_struct {σ : Schema} {st : WSt} {ist : ISt} (hrel : Rel σ st ist) {n : Name}
    (len : Nat) (hstruct : (σ.findStruct n).isSome = true) (hnA : n ∉ st.asMap) :
    Rel σ { asMap := n :: st.asMap, out := st.out ++ [(n, len)] }
      { onStack := n :: ist.onStack, fetched := n :: ist.fetched,
        out := ist.out ++ [(n, len)] } where
  out := by show st.out ++ _ = ist.out ++ _; rw [hrel.out]
  nodup := List.nodup_cons.mpr ⟨hnA, hrel.nodup⟩
  a_sub := by
    intro x hx
    rcases List.mem_cons.mp hx with rfl | hx
    · exact Or.inl (List.mem_cons_self ..)
    · exact (hrel.a_sub x hx).imp (List.mem_cons_of_mem _)
        (fun ⟨a, c⟩ => ⟨a, List.mem_cons_of_mem _ c⟩)
  f_sub := by
    intro x hx
    rcases List.mem_cons.mp hx with rfl | hx
    · exact List.mem_cons_self ..
    · exact List.mem_cons_of_mem _ (hrel.f_sub x hx)
  f_struct := by
    intro x hx
    rcases List.mem_cons.mp hx with rfl | hx
    · exact hstruct
    · exact hrel.f_struct x hx
  closed := by
    intro x hx hxk s' hf' ty hty
    have hne : x ≠ n := fun e => hxk (e ▸ List.mem_cons_self ..)
    have hxF : x ∈ ist.fetched := by
      rcases List.mem_cons.mp hx with e | h
      · exact (hne e).elim
      · exact h
    have hxK : x ∉ ist.onStack := fun h => hxk (List.mem_cons_of_mem _ h)
    exact (hrel.closed x hxF hxK s' hf' ty hty).mono
      (fun y hy => List.mem_cons_of_mem _ hy)

theorem Rel.push_mm {σ : Schema} {st : WSt} {ist : ISt} (hrel : Rel σ st ist) {n : Name}
    (hmm : (σ.findMultimap n).isSome = true) (hnA : n ∉ st.asMap) :
    Rel σ { st with asMap := n :: st.asMap } { ist with onStack := n :: ist.onStack } where
  out := hrel.out
  nodup := List.nodup_cons.mpr ⟨hnA, hrel.nodup⟩
  a_sub := by
    intro x hx
    rcases List.mem_cons.mp hx with rfl | hx
    · exact Or.inr ⟨hmm, List.mem_cons_self ..⟩
    · exact (hrel.a_sub x hx).imp id (fun ⟨a, c⟩ => ⟨a, List.mem_cons_of_mem _ c⟩)
  f_sub := fun x hx => List.mem_cons_of_mem _ (hrel.f_sub x hx)
  f_struct := hrel.f_struct
  closed := fun x hx hk =>
    hrel.closed x hx (fun hk' => hk (List.mem_cons_of_mem _ hk'))

/-- the stack invariant for the fields of the definition `n` just pushed. -/
theorem si_fields {rank : Name → Nat} {K : List Name} {n : Name} {tys : List FType}
    (hsi : SI rank K (2 * rank n + 0)) (hhead : n.head? ≠ some '[')
    (hdec : ∀ ty ∈ tys, ∀ n', ty.refName = some n' → rank n' < rank n) :
    ∀ ty ∈ tys, ∀ n', ty.refName = some n' → SI rank (n :: K) (2 * rank n' + isArr ty) := by
  intro ty hty n' hrn
  have hlt := hdec ty hty n' hrn
  have hle := isArr_le ty
  exact SI.push (ty := .base {}) (hsi.mono (by omega)) hhead
    (by show _ < 2 * rank n + 0; omega)

theorem step_struct {σ : Schema} {rank : Name → Nat} (H : Hyp σ rank) {g1 g2 : Nat}
    (hP : PStmt σ rank g2) {b : BaseType} {st st' : WSt} {ist st3 : ISt} {s : Struct}
    (hrel : Rel σ st ist) (hsi : SI rank ist.onStack (2 * rank b.struct + 0))
    (hp : b.prim.isSome = false) (hs : b.struct ≠ []) (hf : σ.findStruct b.struct = some s)
    (hw : (st.asMap.contains s.name = true ∧ st' = st) ∨
          (st.asMap.contains s.name = false ∧
            wsFields (wsType σ g1) s.types
              { asMap := s.name :: st.asMap, out := st.out ++ [(s.name, s.fields.length)] }
              = .ok st'))
    (hi : initFields (initType σ g2) s.types
          (if ist.fetched.contains s.name then
            ({ ist with onStack := b.struct :: ist.onStack } : ISt)
           else { onStack := b.struct :: ist.onStack, fetched := s.name :: ist.fetched,
                  out := ist.out ++ [(s.name, s.fields.length)] }) = .ok st3) :
    Rel σ st' { st3 with onStack := ist.onStack } ∧ CovB σ st3.fetched b ∧
      (∀ x ∈ ist.fetched, x ∈ st3.fetched) := by
  have hn : s.name = b.struct := findStruct_name hf
  rw [hn] at hw hi
  have hstruct : (σ.findStruct b.struct).isSome = true := by rw [hf]; rfl
  have hhead : b.struct.head? ≠ some '[' := H.names _ (Or.inl hstruct)
  have hnotK : b.struct ∉ ist.onStack := SI.not_mem (ty := .base b) hsi hhead
  have hnotmm : (σ.findMultimap b.struct).isSome = true → False := H.disj _ hstruct
  rcases hw with ⟨hc, rfl⟩ | ⟨hc, hw⟩
  · -- the wire traversal cuts: `Init` re-traverses silently
    have hnA : b.struct ∈ st'.asMap := List.contains_iff_mem.mp hc
    have hnF : b.struct ∈ ist.fetched := by
      rcases hrel.a_sub _ hnA with h | ⟨h, _⟩
      · exact h
      · exact (hnotmm h).elim
    have hcl := hrel.closed _ hnF hnotK s hf
    rw [if_pos (List.contains_iff_mem.mpr hnF)] at hi
    have e3 := initFields_silent (initType_silent σ g2) s.types
      { ist with onStack := b.struct :: ist.onStack } st3 hcl hi
    subst e3
    refine ⟨hrel, ?_, fun x hx => hx⟩
    exact .struct hp hs hnF hf hcl
  · -- first visit: both emit
    have hnA : b.struct ∉ st.asMap := fun h => by
      rw [List.contains_iff_mem.mpr h] at hc; cases hc
    have hnF : b.struct ∉ ist.fetched := fun h => hnA (hrel.f_sub _ h)
    have hcF : ¬ (ist.fetched.contains b.struct = true) :=
      fun h => hnF (List.contains_iff_mem.mp h)
    rw [if_neg hcF] at hi
    have hrel2 := hrel.push_struct s.fields.length hstruct hnA
    have hsi2 := si_fields (tys := s.types) hsi hhead (by
      intro ty hty n hrn
      have := H.rs s (findStruct_mem hf) ty hty n hrn
      rwa [hn] at this)
    obtain ⟨hrel3, hcov3, hsub3⟩ := fields_main hP g1 _ _ _ _ _ hrel2 hsi2 hw hi
    have hK3 : st3.onStack = b.struct :: ist.onStack :=
      initFields_onStack (initType_onStack σ g2) _ _ _ hi
    have hnF3 : b.struct ∈ st3.fetched := hsub3 _ (List.mem_cons_self ..)
    have hch : ∀ s', σ.findStruct b.struct = some s' →
        ∀ ty ∈ s'.types, CovB σ st3.fetched ty.inner := by
      intro s' hf'; rw [hf] at hf'; cases hf'; exact hcov3
    refine ⟨hrel3.pop_stack hK3 (fun h _ => (hnotmm h).elim) (fun _ => hch), ?_,
      fun x hx => hsub3 x (List.mem_cons_of_mem _ hx)⟩
    exact .struct hp hs hnF3 hf hcov3

theorem Rel.erase_map {σ : Schema} {st : WSt} {ist : ISt} (h : Rel σ st ist) {n : Name}
    (hn : (σ.findStruct n).isSome = true → False) :
    Rel σ { st with asMap := st.asMap.erase n } ist where
  out := h.out
  nodup := h.nodup.erase n
  a_sub := fun x hx => h.a_sub x (List.mem_of_mem_erase hx)
  f_sub := by
    intro x hx
    have hne : x ≠ n := fun e => hn (e ▸ h.f_struct x hx)
    exact (List.mem_erase_of_ne hne).mpr (h.f_sub x hx)
  f_struct := h.f_struct
  closed := h.closed

theorem step_mm {σ : Schema} {rank : Name → Nat} (H : Hyp σ rank) {g1 g2 : Nat}
    (hP : PStmt σ rank g2) {b : BaseType} {st st' : WSt} {ist st3 : ISt} {m : Multimap}
    (hrel : Rel σ st ist) (hsi : SI rank ist.onStack (2 * rank b.multimap + 0))
    (hp : b.prim.isSome = false) (hs : b.struct = []) (hm : b.multimap ≠ [])
    (hf : σ.findMultimap b.multimap = some m)
    (hw : (st.asMap.contains m.name = true ∧ st' = st) ∨
          (st.asMap.contains m.name = false ∧
            ∃ st2, wsFields (wsType σ g1) m.types { st with asMap := m.name :: st.asMap }
              = .ok st2 ∧ st' = { st2 with asMap := st2.asMap.erase m.name }))
    (hi : initFields (initType σ g2) m.types
          ({ ist with onStack := b.multimap :: ist.onStack } : ISt) = .ok st3) :
    Rel σ st' { st3 with onStack := ist.onStack } ∧ CovB σ st3.fetched b ∧
      (∀ x ∈ ist.fetched, x ∈ st3.fetched) := by
  have hn : m.name = b.multimap := findMultimap_name hf
  rw [hn] at hw
  have hmm : (σ.findMultimap b.multimap).isSome = true := by rw [hf]; rfl
  have hhead : b.multimap.head? ≠ some '[' := H.names _ (Or.inr hmm)
  have hnotK : b.multimap ∉ ist.onStack := SI.not_mem (ty := .base b) hsi hhead
  have hnotst : (σ.findStruct b.multimap).isSome = true → False := fun h => H.disj _ h hmm
  have hnA : b.multimap ∉ st.asMap := by
    intro h
    rcases hrel.a_sub _ h with h' | ⟨_, h'⟩
    · exact hnotst (hrel.f_struct _ h')
    · exact hnotK h'
  rcases hw with ⟨hc, _⟩ | ⟨_, st2, hw, rfl⟩
  · exact (hnA (List.contains_iff_mem.mp hc)).elim
  · have hrel2 := hrel.push_mm hmm hnA
    have hsi2 := si_fields (tys := m.types) hsi hhead (by
      intro ty hty n hrn
      have := H.rm m (findMultimap_mem hf) ty hty n hrn
      rwa [hn] at this)
    obtain ⟨hrel3, hcov3, hsub3⟩ := fields_main hP g1 _ _ _ _ _ hrel2 hsi2 hw hi
    have hK3 : st3.onStack = b.multimap :: ist.onStack :=
      initFields_onStack (initType_onStack σ g2) _ _ _ hi
    have hrel4 := hrel3.erase_map hnotst
    refine ⟨hrel4.pop_stack hK3 ?_ (fun h => (hnotst (hrel3.f_struct _ h)).elim), ?_, hsub3⟩
    · intro _ h
      exact ((hrel3.nodup.mem_erase_iff.mp h).1 rfl).elim
    · exact .mm hp hs hm hf hcov3

theorem initBody_onStack {σ : Schema} {g : Nat} {ty : FType} {st1 st3 : ISt}
    (hb : initBody σ g ty st1 = .ok st3) : st3.onStack = st1.onStack := by
  cases ty with
  | array e d r => exact initType_onStack σ _ _ _ _ hb
  | base b =>
    rcases initBody_base_inv hb with ⟨_, s, _, hf⟩ | ⟨_, _, m, _, hf⟩
    · rw [initFields_onStack (initType_onStack σ g) _ _ _ hf]
      split <;> rfl
    · rw [initFields_onStack (initType_onStack σ g) _ _ _ hf]

/-- the stack invariant for the element type of an array whose key was just pushed. -/
theorem si_array {rank : Name → Nat} {K : List Name} {e : BaseType} {d : Name} {r : Bool}
    {n : Name} (hrn : (FType.array e d r).refName = some n)
    (hkey : encoderKey (.array e d r) = keyOf (.array e d r) n) (hhead : n.head? ≠ some '[')
    (hsi : SI rank K (2 * rank n + isArr (.array e d r))) :
    ∀ n', (FType.base e).refName = some n' →
      SI rank (encoderKey (.array e d r) :: K) (2 * rank n' + isArr (.base e)) := by
  intro n' hrn'
  have e' : n' = n := by
    have : (FType.base e).refName = (FType.array e d r).refName := rfl
    rw [this, hrn] at hrn'; cases hrn'; rfl
  subst e'
  rw [hkey]
  exact SI.push (ty := .array e d r) (hsi.mono (by simp [isArr])) hhead (by simp [isArr])

/-- the main lemma: related states stay related, and the visited type ends up covered. -/
theorem main_lemma {σ : Schema} {rank : Name → Nat} (H : Hyp σ rank) :
    ∀ f2, PStmt σ rank f2 := by
  intro f2
  induction f2 with
  | zero =>
    intro f1 T st st' ist ist' _ _ _ hi
    obtain ⟨g, hg, _⟩ := initType_inv hi; cases hg
  | succ g2 ih =>
    intro f1 T st st' ist ist' hrel hsi hw hi
    obtain ⟨g', hg, hc⟩ := initType_inv hi
    have : g' = g2 := by omega
    subst this
    rcases hc with ⟨hp, rfl⟩ | ⟨hp, hcut, rfl⟩ | ⟨hp, hcut, st3, hb, rfl⟩
    · -- primitive
      obtain ⟨_, _, hwc⟩ := wsType_inv hw
      rcases hwc with ⟨_, rfl⟩ | ⟨hp', _⟩ | ⟨hp', _⟩
      · exact ⟨hrel, .prim hp, fun _ h => h⟩
      · rw [hp] at hp'; cases hp'
      · rw [hp] at hp'; cases hp'
    · -- `Init` never cuts
      obtain ⟨n, hrn, hkey, hhead⟩ := wire_resolved H hw hp
      rw [hkey] at hcut
      exact ((hsi n hrn).not_mem hhead (List.contains_iff_mem.mp hcut)).elim
    · obtain ⟨n, hrn, hkey, hhead⟩ := wire_resolved H hw hp
      have hsi' := hsi n hrn
      have hK3 : st3.onStack = encoderKey T :: ist.onStack := initBody_onStack hb
      have herase : st3.onStack.erase (encoderKey T) = ist.onStack := by
        rw [hK3, List.erase_cons_head]
      show Rel σ st' { st3 with onStack := st3.onStack.erase (encoderKey T) } ∧
        CovB σ st3.fetched T.inner ∧ _
      rw [herase]
      cases T with
      | array e d r =>
        have hb' : initType σ g' (.base e)
            { ist with onStack := encoderKey (.array e d r) :: ist.onStack } = .ok st3 := hb
        have hsi2 := si_array hrn hkey hhead hsi'
        obtain ⟨hrel3, hcov3, hsub3⟩ :=
          ih f1 (.base e) st st' _ st3 (hrel.push_stack _) hsi2 hw hb'
        have hk : encoderKey (.array e d r) = arrayKey n := hkey
        have hbad : ∀ {P : Prop}, (σ.findStruct (arrayKey n)).isSome = true ∨
            (σ.findMultimap (arrayKey n)).isSome = true → P :=
          fun h => (H.names _ h rfl).elim
        refine ⟨hrel3.pop_stack hK3 ?_ ?_, hcov3, hsub3⟩
        · intro h _; rw [hk] at h; exact hbad (Or.inr h)
        · intro h; rw [hk] at h; exact hbad (Or.inl (hrel3.f_struct _ h))
      | base b =>
        obtain ⟨g1, _, hwc⟩ := wsType_inv hw
        rcases initBody_base_inv hb with ⟨hs, s, hfs, hf⟩ | ⟨hs, hm, m, hfm, hf⟩
        · rcases hwc with ⟨hp', _⟩ | ⟨_, _, s', hfs', hw'⟩ | ⟨_, hs', _⟩
          · rw [hp] at hp'; cases hp'
          · have : s' = s := by
              have h1 : σ.findStruct b.struct = some s' := hfs'
              rw [hfs] at h1; cases h1; rfl
            subst this
            have hk : encoderKey (.base b) = b.struct := encoderKey_struct (ty := .base b) hs
            rw [hk] at hf
            have hn : n = b.struct := by
              have := refName_struct (ty := .base b) hp hs
              rw [hrn] at this; cases this; rfl
            subst hn
            exact step_struct H ih hrel hsi' hp hs hfs hw' hf
          · exact absurd hs' hs
        · rcases hwc with ⟨hp', _⟩ | ⟨_, hs', _⟩ | ⟨_, _, _, m', hfm', hw'⟩
          · rw [hp] at hp'; cases hp'
          · exact absurd hs hs'
          · have : m' = m := by
              have h1 : σ.findMultimap b.multimap = some m' := hfm'
              rw [hfm] at h1; cases h1; rfl
            subst this
            have hk : encoderKey (.base b) = b.multimap := encoderKey_mm (ty := .base b) hs
            rw [hk] at hf
            have hn : n = b.multimap := by
              have := refName_mm (ty := .base b) hp hs hm
              rw [hrn] at this; cases this; rfl
            subst hn
            exact step_mm H ih hrel hsi' hp hs hm hfm hw' hf

theorem Rel.init (σ : Schema) : Rel σ {} {} where
  out := rfl
  nodup := List.nodup_nil
  a_sub := fun _ h => by cases h
  f_sub := fun _ h => by cases h
  f_struct := fun _ h => by cases h
  closed := fun _ h => by cases h

theorem wsType_root {σ : Schema} {root : Name} {r : Struct} {st : WSt}
    (hfr : σ.findStruct root = some r) (hroot : root ≠ [])
    (hws : wsFields (wsType σ (wsFuel σ)) r.types
        { asMap := [r.name], out := [(r.name, r.fields.length)] } = .ok st) :
    wsType σ (wsFuel σ + 1) (FType.base { struct := root }).inner {} = .ok st := by
  show wsType σ (wsFuel σ + 1) ({ struct := root } : BaseType) {} = .ok st
  rw [wsType, if_neg (by simp), if_pos hroot]
  show (match σ.findStruct root with
    | none => _
    | some s => _) = _
  rw [hfr]
  dsimp only
  rw [if_neg (by simp)]
  exact hws

/-- **C12/C14 wire order.** For a schema without recursion, whose definition names do not start
    with `[` and in which no name is both a struct and a multimap, `NewWireSchema` and the generated
    `Init` produce the same list of (struct, field count) entries. -/
theorem wire_order_acyclic (σ : Schema) (root : Name) (hac : σ.Acyclic)
    (hnames : ∀ n, (σ.findStruct n).isSome ∨ (σ.findMultimap n).isSome → n.head? ≠ some '[')
    (hdisj : ∀ n, (σ.findStruct n).isSome → (σ.findMultimap n).isSome → False)
    (w w' : List (Name × Nat))
    (h1 : wireEntries σ root = .ok w) (h2 : initEntries σ root = .ok w') : w = w' := by
  obtain ⟨rank, hrs, hrm⟩ := hac
  have H : Hyp σ rank := ⟨hrs, hrm, hnames, hdisj⟩
  unfold wireEntries at h1
  unfold initEntries at h2
  cases hfr : σ.findStruct root with
  | none => rw [hfr] at h1; cases h1
  | some r =>
    rw [hfr] at h1 h2
    dsimp only at h1 h2
    cases hws : wsFields (wsType σ (wsFuel σ)) r.types
        { asMap := [r.name], out := [(r.name, r.fields.length)] } with
    | error e => rw [hws] at h1; cases h1
    | ok st =>
      rw [hws] at h1
      cases hin : initType σ (initFuel σ) (.base { struct := root }) {} with
      | error e => rw [hin] at h2; cases h2
      | ok ist =>
        rw [hin] at h2
        have e1 : w = st.out := by cases h1; rfl
        have e2 : w' = ist.out := by cases h2; rfl
        have hroot : root ≠ [] := by
          obtain ⟨g, _, hc⟩ := initType_inv hin
          rcases hc with ⟨hp, _⟩ | ⟨_, hc, _⟩ | ⟨_, _, st3, hb, _⟩
          · cases hp
          · cases hc
          · rcases initBody_base_inv hb with ⟨hs, _⟩ | ⟨_, hm, _⟩
            · exact hs
            · exact (hm rfl).elim
        have hw := wsType_root hfr hroot hws
        have := (main_lemma H (initFuel σ) (wsFuel σ + 1) (.base { struct := root }) {} st {} ist
          (Rel.init σ) (fun _ _ _ hk => by cases hk) hw hin).1.out
        rw [e1, e2, this]

/-! ## `Init` succeeds whenever the wire traversal does

  The fuel of `initEntries` suffices: the rank of `Schema.Acyclic` is replaced by the number of
  defined names of smaller rank, which is below the number of definitions. -/

def defNames (σ : Schema) : List Name := σ.structs.map (·.name) ++ σ.multimaps.map (·.name)

theorem mem_defNames_of_struct {σ : Schema} {n : Name} {s : Struct}
    (h : σ.findStruct n = some s) : n ∈ defNames σ := by
  rw [← findStruct_name h]
  exact List.mem_append_left _ (List.mem_map.mpr ⟨s, findStruct_mem h, rfl⟩)

theorem mem_defNames_of_mm {σ : Schema} {n : Name} {m : Multimap}
    (h : σ.findMultimap n = some m) : n ∈ defNames σ := by
  rw [← findMultimap_name h]
  exact List.mem_append_right _ (List.mem_map.mpr ⟨m, findMultimap_mem h, rfl⟩)

theorem filter_length_le {α : Type} {p q : α → Bool} (hpq : ∀ x, p x = true → q x = true) :
    ∀ l : List α, (l.filter p).length ≤ (l.filter q).length := by
  intro l
  induction l with
  | nil => exact Nat.le_refl _
  | cons a l ih =>
    simp only [List.filter_cons]
    cases hp : p a with
    | false =>
      cases hq : q a with
      | false => simpa using ih
      | true => simp only [Bool.false_eq_true, if_false, if_true, List.length_cons]; omega
    | true =>
      rw [hpq a hp]
      simp only [if_true, List.length_cons]; omega

theorem filter_length_lt {α : Type} {p q : α → Bool} (hpq : ∀ x, p x = true → q x = true) :
    ∀ (l : List α) (x : α), x ∈ l → q x = true → p x = false →
      (l.filter p).length < (l.filter q).length := by
  intro l
  induction l with
  | nil => intro x hx; cases hx
  | cons a l ih =>
    intro x hx hq hp
    simp only [List.filter_cons]
    rcases List.mem_cons.mp hx with rfl | hx
    · rw [hq, hp]
      have := filter_length_le hpq l
      simp only [Bool.false_eq_true, if_false, if_true, List.length_cons]; omega
    · have := ih x hx hq hp
      cases hpa : p a with
      | false =>
        cases hqa : q a with
        | false => simpa using this
        | true => simp only [Bool.false_eq_true, if_false, if_true, List.length_cons]; omega
      | true =>
        rw [hpq a hpa]
        simp only [if_true, List.length_cons]; omega

/-- the tight rank: how many defined names have a smaller rank. -/
def cnt (σ : Schema) (rank : Name → Nat) (n : Name) : Nat :=
  ((defNames σ).filter (fun d => decide (rank d < rank n))).length

theorem cnt_lt {σ : Schema} {rank : Name → Nat} {n n' : Name} (hlt : rank n' < rank n)
    (hmem : n' ∈ defNames σ) : cnt σ rank n' < cnt σ rank n := by
  unfold cnt
  refine filter_length_lt ?_ _ n' hmem (by simpa using hlt) (by simp)
  intro x hx
  have : rank x < rank n' := by simpa using hx
  simp only [decide_eq_true_eq]; omega

theorem cnt_le (σ : Schema) (rank : Name → Nat) (n : Name) :
    cnt σ rank n ≤ σ.structs.length + σ.multimaps.length := by
  unfold cnt
  refine Nat.le_trans (List.length_filter_le _ _) ?_
  simp [defNames]

/-- enough fuel to initialise the encoder of `T`. -/
def FuelOK (σ : Schema) (rank : Name → Nat) (f : Nat) (T : FType) : Prop :=
  1 ≤ f ∧ ∀ n, T.refName = some n → n ∈ defNames σ → 2 * cnt σ rank n + isArr T + 2 ≤ f

theorem fuel_fields {σ : Schema} {rank : Name → Nat} {tys : List FType} {n : Name} {g : Nat}
    (hdec : ∀ ty ∈ tys, ∀ n', ty.refName = some n' → rank n' < rank n)
    (hg : 2 * cnt σ rank n + 2 ≤ g + 1) : ∀ ty ∈ tys, FuelOK σ rank g ty := by
  intro ty hty
  refine ⟨by omega, ?_⟩
  intro n' hr hD
  have := cnt_lt (σ := σ) (hdec ty hty n' hr) hD
  have := isArr_le ty
  omega

theorem fuel_array {σ : Schema} {rank : Name → Nat} {e : BaseType} {d : Name} {r : Bool}
    {n : Name} {g : Nat} (hrn : (FType.array e d r).refName = some n) (hD : n ∈ defNames σ)
    (hfu : FuelOK σ rank (g + 1) (.array e d r)) : FuelOK σ rank g (.base e) := by
  have h0 := hfu.2 n hrn hD
  simp only [isArr] at h0
  refine ⟨by omega, ?_⟩
  intro n' hr' hD'
  have := hfu.2 n' hr' hD'
  simp only [isArr] at this ⊢
  omega

theorem refName_none_of_prim {T : FType} (hp : T.inner.prim.isSome = true) :
    T.refName = none := by
  unfold FType.refName; rw [if_pos hp]

theorem CovB.mem_defNames {σ : Schema} {F : List Name} {T : FType} {n : Name}
    (h : CovB σ F T.inner) (hr : T.refName = some n) : n ∈ defNames σ := by
  cases h with
  | prim hp => rw [refName_none_of_prim hp] at hr; cases hr
  | struct hp hs _ hf _ =>
    rw [refName_struct hp hs] at hr; cases hr; exact mem_defNames_of_struct hf
  | mm hp hs hm hf _ =>
    rw [refName_mm hp hs hm] at hr; cases hr; exact mem_defNames_of_mm hf

theorem CovB.ref_exists {σ : Schema} {F : List Name} {T : FType}
    (h : CovB σ F T.inner) (hp : T.inner.prim.isSome = false) : ∃ n, T.refName = some n := by
  cases h with
  | prim hq => rw [hp] at hq; cases hq
  | struct hp hs _ _ _ => exact ⟨_, refName_struct hp hs⟩
  | mm hp hs hm _ _ => exact ⟨_, refName_mm hp hs hm⟩

theorem wire_defName {σ : Schema} {f1 : Nat} {T : FType} {st st' : WSt} {n : Name}
    (hw : wsType σ f1 T.inner st = .ok st') (hr : T.refName = some n) : n ∈ defNames σ := by
  obtain ⟨g, _, hc⟩ := wsType_inv hw
  rcases hc with ⟨hp, _⟩ | ⟨hp, hs, s, hf, _⟩ | ⟨hp, hs, hm, m, hf, _⟩
  · rw [refName_none_of_prim hp] at hr; cases hr
  · rw [refName_struct hp hs] at hr; cases hr; exact mem_defNames_of_struct hf
  · rw [refName_mm hp hs hm] at hr; cases hr; exact mem_defNames_of_mm hf

/-! forward one-step equations -/

theorem initType_of_body {σ : Schema} {g : Nat} {T : FType} {st st3 : ISt}
    (hp : T.inner.prim.isSome = false) (hc : st.onStack.contains (encoderKey T) = false)
    (hb : initBody σ g T { st with onStack := encoderKey T :: st.onStack } = .ok st3) :
    initType σ (g + 1) T st = .ok { st3 with onStack := st3.onStack.erase (encoderKey T) } := by
  rw [initType_succ, if_neg (by rw [hp]; exact Bool.false_ne_true),
    if_neg (by rw [hc]; exact Bool.false_ne_true), hb]

theorem initBody_struct_eq {σ : Schema} {g : Nat} {b : BaseType} {st1 : ISt} {s : Struct}
    (hs : b.struct ≠ []) (hf : σ.findStruct b.struct = some s) :
    initBody σ g (.base b) st1 =
      initFields (initType σ g) s.types
        (if st1.fetched.contains s.name then st1
         else { st1 with fetched := s.name :: st1.fetched,
                         out := st1.out ++ [(s.name, s.fields.length)] }) := by
  simp only [initBody]
  rw [if_pos hs, hf]

theorem initBody_mm_eq {σ : Schema} {g : Nat} {b : BaseType} {st1 : ISt} {m : Multimap}
    (hs : b.struct = []) (hm : b.multimap ≠ []) (hf : σ.findMultimap b.multimap = some m) :
    initBody σ g (.base b) st1 = initFields (initType σ g) m.types st1 := by
  simp only [initBody]
  rw [if_neg (by rw [hs]; exact fun h => h rfl), if_pos hm, hf]

theorem initFields_cons_ok {rec : FType → ISt → Except WErr ISt} {ty : FType}
    {rest : List FType} {st st1 : ISt} (h : rec ty st = .ok st1) :
    initFields rec (ty :: rest) st = initFields rec rest st1 := by
  simp only [initFields, h]

theorem initFields_silent_ok {σ : Schema} {rank : Name → Nat} {g : Nat}
    (hrec : ∀ ty st, CovB σ st.fetched ty.inner → FuelOK σ rank g ty →
      ∃ st', initType σ g ty st = .ok st') :
    ∀ tys st, (∀ ty ∈ tys, CovB σ st.fetched ty.inner ∧ FuelOK σ rank g ty) →
      ∃ st', initFields (initType σ g) tys st = .ok st' := by
  intro tys
  induction tys with
  | nil => intro st _; exact ⟨st, rfl⟩
  | cons ty rest ih =>
    intro st h
    have hty := h ty (List.mem_cons_self ..)
    obtain ⟨st1, h1⟩ := hrec ty st hty.1 hty.2
    have e1 : st1 = st := initType_silent σ _ _ _ _ hty.1 h1
    subst e1
    rw [initFields_cons_ok h1]
    exact ih _ (fun t ht => h t (List.mem_cons_of_mem _ ht))

/-- re-initialising a covered type succeeds when the fuel suffices. -/
theorem initType_silent_ok {σ : Schema} {rank : Name → Nat} (H : Hyp σ rank) :
    ∀ f T st, CovB σ st.fetched T.inner → FuelOK σ rank f T →
      ∃ st', initType σ f T st = .ok st' := by
  intro f
  induction f with
  | zero => intro T st _ hfu; exact absurd hfu.1 (by omega)
  | succ g ih =>
    intro T st hcov hfu
    by_cases hp : T.inner.prim.isSome = true
    · exact ⟨st, by rw [initType_succ, if_pos hp]⟩
    have hp' : T.inner.prim.isSome = false := by simpa using hp
    by_cases hc : st.onStack.contains (encoderKey T) = true
    · exact ⟨st, by rw [initType_succ, if_neg hp, if_pos hc]⟩
    have hc' : st.onStack.contains (encoderKey T) = false := by simpa using hc
    suffices hbody : ∃ st3, initBody σ g T { st with onStack := encoderKey T :: st.onStack }
        = .ok st3 by
      obtain ⟨st3, hb⟩ := hbody
      exact ⟨_, initType_of_body hp' hc' hb⟩
    obtain ⟨n, hrn⟩ := hcov.ref_exists hp'
    have hD := hcov.mem_defNames hrn
    have hfuel := hfu.2 n hrn hD
    cases T with
    | array e d r => exact ih (.base e) _ hcov (fuel_array hrn hD hfu)
    | base b =>
      have hcov' : CovB σ st.fetched b := hcov
      have hp'' : b.prim.isSome = false := hp'
      cases hcov' with
      | prim hq => rw [hp''] at hq; cases hq
      | struct _ hs hmem hf hch =>
        have hn := findStruct_name hf
        have e : n = b.struct := by
          have := refName_struct (ty := .base b) hp'' hs
          rw [hrn] at this; cases this; rfl
        subst e
        rw [initBody_struct_eq hs hf, hn]
        have hcont : ({ st with onStack := encoderKey (FType.base b) :: st.onStack } :
            ISt).fetched.contains b.struct = true := List.contains_iff_mem.mpr hmem
        rw [if_pos hcont]
        refine initFields_silent_ok ih _ _ (fun ty hty => ⟨hch ty hty, ?_⟩)
        refine fuel_fields (n := b.struct) ?_ (by simpa [isArr] using hfuel) ty hty
        intro ty hty n' hr
        have := H.rs _ (findStruct_mem hf) ty hty n' hr
        rwa [hn] at this
      | mm _ hs hm hf hch =>
        have hn := findMultimap_name hf
        have e : n = b.multimap := by
          have := refName_mm (ty := .base b) hp'' hs hm
          rw [hrn] at this; cases this; rfl
        subst e
        rw [initBody_mm_eq hs hm hf]
        refine initFields_silent_ok ih _ _ (fun ty hty => ⟨hch ty hty, ?_⟩)
        refine fuel_fields (n := b.multimap) ?_ (by simpa [isArr] using hfuel) ty hty
        intro ty hty n' hr
        have := H.rm _ (findMultimap_mem hf) ty hty n' hr
        rwa [hn] at this

/-- statement: with related states, no cut and enough fuel, `Init` succeeds where the wire
    traversal does. -/
def POk (σ : Schema) (rank : Name → Nat) (f2 : Nat) : Prop :=
  ∀ f1 T st st' ist, Rel σ st ist →
    (∀ n, T.refName = some n → SI rank ist.onStack (2 * rank n + isArr T)) →
    FuelOK σ rank f2 T → wsType σ f1 T.inner st = .ok st' →
    ∃ ist', initType σ f2 T ist = .ok ist'

theorem fields_ok {σ : Schema} {rank : Name → Nat} (H : Hyp σ rank) {g2 : Nat}
    (hP : POk σ rank g2) (f1 : Nat) : ∀ tys st st' ist, Rel σ st ist →
      (∀ ty ∈ tys, ∀ n, ty.refName = some n → SI rank ist.onStack (2 * rank n + isArr ty)) →
      (∀ ty ∈ tys, FuelOK σ rank g2 ty) →
      wsFields (wsType σ f1) tys st = .ok st' →
      ∃ ist', initFields (initType σ g2) tys ist = .ok ist' := by
  intro tys
  induction tys with
  | nil => intro st st' ist _ _ _ _; exact ⟨ist, rfl⟩
  | cons ty rest ih =>
    intro st st' ist hrel hsi hfu hw
    obtain ⟨st1, hw1, hw2⟩ := wsFields_cons_inv hw
    have hsi1 := hsi ty (List.mem_cons_self ..)
    obtain ⟨ist1, hi1⟩ := hP f1 ty st st1 ist hrel hsi1 (hfu ty (List.mem_cons_self ..)) hw1
    have hrel1 := (main_lemma H g2 f1 ty st st1 ist ist1 hrel hsi1 hw1 hi1).1
    have hK : ist1.onStack = ist.onStack := initType_onStack σ _ _ _ _ hi1
    rw [initFields_cons_ok hi1]
    exact ih st1 st' ist1 hrel1
      (fun t ht n hn => by rw [hK]; exact hsi t (List.mem_cons_of_mem _ ht) n hn)
      (fun t ht => hfu t (List.mem_cons_of_mem _ ht)) hw2

theorem pok_lemma {σ : Schema} {rank : Name → Nat} (H : Hyp σ rank) :
    ∀ f2, POk σ rank f2 := by
  intro f2
  induction f2 with
  | zero => intro f1 T st st' ist _ _ hfu _; exact absurd hfu.1 (by omega)
  | succ g2 ih =>
    intro f1 T st st' ist hrel hsi hfu hw
    by_cases hp : T.inner.prim.isSome = true
    · exact ⟨ist, by rw [initType_succ, if_pos hp]⟩
    have hp' : T.inner.prim.isSome = false := by simpa using hp
    obtain ⟨n, hrn, hkey, hhead⟩ := wire_resolved H hw hp'
    have hsi' := hsi n hrn
    have hD := wire_defName hw hrn
    have hfuel := hfu.2 n hrn hD
    have hc' : ist.onStack.contains (encoderKey T) = false := by
      by_cases hc : ist.onStack.contains (encoderKey T) = true
      · rw [hkey] at hc
        exact (hsi'.not_mem hhead (List.contains_iff_mem.mp hc)).elim
      · simpa using hc
    suffices hbody : ∃ st3, initBody σ g2 T { ist with onStack := encoderKey T :: ist.onStack }
        = .ok st3 by
      obtain ⟨st3, hb⟩ := hbody
      exact ⟨_, initType_of_body hp' hc' hb⟩
    cases T with
    | array e d r =>
      exact ih f1 (.base e) st st' _ (hrel.push_stack _) (si_array hrn hkey hhead hsi')
        (fuel_array hrn hD hfu) hw
    | base b =>
      have hp'' : b.prim.isSome = false := hp'
      obtain ⟨g1, _, hwc⟩ := wsType_inv hw
      rcases hwc with ⟨hq, _⟩ | ⟨_, hs, s, hf, hw'⟩ | ⟨_, hs, hm, m, hf, hw'⟩
      · have hq' : b.prim.isSome = true := hq
        rw [hp''] at hq'; cases hq'
      · -- struct
        have hs' : b.struct ≠ [] := hs
        have hf' : σ.findStruct b.struct = some s := hf
        have hn : s.name = b.struct := findStruct_name hf'
        have e : n = b.struct := by
          have := refName_struct (ty := .base b) hp'' hs'
          rw [hrn] at this; cases this; rfl
        subst e
        have hk : encoderKey (.base b) = b.struct := encoderKey_struct (ty := .base b) hs'
        have hstruct : (σ.findStruct b.struct).isSome = true := by rw [hf']; rfl
        have hnotK : b.struct ∉ ist.onStack := SI.not_mem (ty := .base b) hsi' hhead
        have hnotmm : (σ.findMultimap b.struct).isSome = true → False := H.disj _ hstruct
        have hdec : ∀ ty ∈ s.types, ∀ n', ty.refName = some n' → rank n' < rank b.struct := by
          intro ty hty n' hr
          have := H.rs _ (findStruct_mem hf') ty hty n' hr
          rwa [hn] at this
        have hfuf := fuel_fields (σ := σ) hdec (g := g2) (by simpa [isArr] using hfuel)
        rw [initBody_struct_eq hs' hf', hn, hk]
        rw [hn] at hw'
        rcases hw' with ⟨hc, _⟩ | ⟨hc, hw'⟩
        · have hnA : b.struct ∈ st.asMap := List.contains_iff_mem.mp hc
          have hnF : b.struct ∈ ist.fetched := by
            rcases hrel.a_sub _ hnA with h | ⟨h, _⟩
            · exact h
            · exact (hnotmm h).elim
          have hcl := hrel.closed _ hnF hnotK s hf'
          have hcont : ({ ist with onStack := b.struct :: ist.onStack } :
              ISt).fetched.contains b.struct = true := List.contains_iff_mem.mpr hnF
          rw [if_pos hcont]
          exact initFields_silent_ok (initType_silent_ok H g2) _ _
            (fun ty hty => ⟨hcl ty hty, hfuf ty hty⟩)
        · have hnA : b.struct ∉ st.asMap := fun h => by
            rw [List.contains_iff_mem.mpr h] at hc; cases hc
          have hnF : b.struct ∉ ist.fetched := fun h => hnA (hrel.f_sub _ h)
          have hcF : ¬ (({ ist with onStack := b.struct :: ist.onStack } :
              ISt).fetched.contains b.struct = true) :=
            fun h => hnF (List.contains_iff_mem.mp h)
          rw [if_neg hcF]
          exact fields_ok H ih g1 _ _ _ _ (hrel.push_struct s.fields.length hstruct hnA)
            (si_fields hsi' hhead hdec) hfuf hw'
      · -- multimap
        have hs' : b.struct = [] := hs
        have hm' : b.multimap ≠ [] := hm
        have hf' : σ.findMultimap b.multimap = some m := hf
        have hn : m.name = b.multimap := findMultimap_name hf'
        have e : n = b.multimap := by
          have := refName_mm (ty := .base b) hp'' hs' hm'
          rw [hrn] at this; cases this; rfl
        subst e
        have hk : encoderKey (.base b) = b.multimap := encoderKey_mm (ty := .base b) hs'
        have hmm : (σ.findMultimap b.multimap).isSome = true := by rw [hf']; rfl
        have hnotK : b.multimap ∉ ist.onStack := SI.not_mem (ty := .base b) hsi' hhead
        have hnotst : (σ.findStruct b.multimap).isSome = true → False :=
          fun h => H.disj _ h hmm
        have hnA : b.multimap ∉ st.asMap := by
          intro h
          rcases hrel.a_sub _ h with h' | ⟨_, h'⟩
          · exact hnotst (hrel.f_struct _ h')
          · exact hnotK h'
        have hdec : ∀ ty ∈ m.types, ∀ n', ty.refName = some n' → rank n' < rank b.multimap := by
          intro ty hty n' hr
          have := H.rm _ (findMultimap_mem hf') ty hty n' hr
          rwa [hn] at this
        have hfuf := fuel_fields (σ := σ) hdec (g := g2) (by simpa [isArr] using hfuel)
        rw [initBody_mm_eq hs' hm' hf', hk]
        rw [hn] at hw'
        rcases hw' with ⟨hc, _⟩ | ⟨_, st2, hw', _⟩
        · exact (hnA (List.contains_iff_mem.mp hc)).elim
        · exact fields_ok H ih g1 _ _ _ _ (hrel.push_mm hmm hnA)
            (si_fields hsi' hhead hdec) hfuf hw'

/-- Under the hypotheses of `wire_order_acyclic`, if `NewWireSchema` succeeds then the generated
    `Init` order is defined (its fuel suffices and every lookup succeeds) and equal to it.
    No "every reference resolves" hypothesis is needed: the wire traversal looked up every
    definition that `Init` visits. `root ≠ []` is needed because `Init` reaches the root through
    a field type whose struct slot is `root`, and an empty slot means "not a struct". -/
theorem init_ok_of_wire_ok (σ : Schema) (root : Name) (hac : σ.Acyclic)
    (hnames : ∀ n, (σ.findStruct n).isSome ∨ (σ.findMultimap n).isSome → n.head? ≠ some '[')
    (hdisj : ∀ n, (σ.findStruct n).isSome → (σ.findMultimap n).isSome → False)
    (hroot : root ≠ []) (w : List (Name × Nat))
    (h1 : wireEntries σ root = .ok w) : initEntries σ root = .ok w := by
  have h1' := h1
  obtain ⟨rank, hrs, hrm⟩ := hac
  have H : Hyp σ rank := ⟨hrs, hrm, hnames, hdisj⟩
  unfold wireEntries at h1
  cases hfr : σ.findStruct root with
  | none => rw [hfr] at h1; cases h1
  | some r =>
    rw [hfr] at h1
    dsimp only at h1
    cases hws : wsFields (wsType σ (wsFuel σ)) r.types
        { asMap := [r.name], out := [(r.name, r.fields.length)] } with
    | error e => rw [hws] at h1; cases h1
    | ok st =>
      have hw := wsType_root hfr hroot hws
      have hfu : FuelOK σ rank (initFuel σ) (.base { struct := root }) := by
        refine ⟨by unfold initFuel; omega, ?_⟩
        intro n _ _
        have := cnt_le σ rank n
        simp only [isArr, initFuel]
        omega
      obtain ⟨ist, hin⟩ := pok_lemma H (initFuel σ) (wsFuel σ + 1) (.base { struct := root })
        {} st {} (Rel.init σ) (fun _ _ _ hk => by cases hk) hfu hw
      have h2 : initEntries σ root = .ok ist.out := by
        unfold initEntries
        rw [hfr]
        dsimp only
        rw [hin]
      rw [h2]
      congr 1
      exact (wire_order_acyclic σ root ⟨rank, hrs, hrm⟩ hnames hdisj w ist.out h1' h2).symm

/-! ## The side conditions from list-level (decidable) facts -/

theorem names_of_lists {σ : Schema}
    (hs : ∀ s ∈ σ.structs, s.name.head? ≠ some '[')
    (hm : ∀ m ∈ σ.multimaps, m.name.head? ≠ some '[') :
    ∀ n, (σ.findStruct n).isSome ∨ (σ.findMultimap n).isSome → n.head? ≠ some '[' := by
  intro n h
  rcases h with h | h
  · obtain ⟨s, hmem, hp⟩ := List.find?_isSome.mp h
    have : s.name = n := by simpa using hp
    rw [← this]; exact hs s hmem
  · obtain ⟨m, hmem, hp⟩ := List.find?_isSome.mp h
    have : m.name = n := by simpa using hp
    rw [← this]; exact hm m hmem

theorem disj_of_topNames_nodup {σ : Schema} (hnd : σ.topNames.Nodup) :
    ∀ n, (σ.findStruct n).isSome → (σ.findMultimap n).isSome → False := by
  intro n h1 h2
  obtain ⟨s, hsmem, hp⟩ := List.find?_isSome.mp h1
  obtain ⟨m, hmmem, hq⟩ := List.find?_isSome.mp h2
  have e1 : s.name = n := by simpa using hp
  have e2 : m.name = n := by simpa using hq
  unfold Schema.topNames at hnd
  have h12 := (List.nodup_append.mp (List.nodup_append.mp hnd).1).2.2
  exact h12 n (List.mem_map.mpr ⟨s, hsmem, e1⟩) n (List.mem_map.mpr ⟨m, hmmem, e2⟩) rfl

/-- the same theorem with the side conditions in the form delivered by the parser
    (`Schema.WF.top_unique`; identifiers start with a letter). -/
theorem wire_order_acyclic' (σ : Schema) (root : Name) (hac : σ.Acyclic)
    (hnd : σ.topNames.Nodup)
    (hs : ∀ s ∈ σ.structs, s.name.head? ≠ some '[')
    (hm : ∀ m ∈ σ.multimaps, m.name.head? ≠ some '[')
    (w w' : List (Name × Nat))
    (h1 : wireEntries σ root = .ok w) (h2 : initEntries σ root = .ok w') : w = w' :=
  wire_order_acyclic σ root hac (names_of_lists hs hm) (disj_of_topNames_nodup hnd) w w' h1 h2

theorem init_ok_of_wire_ok' (σ : Schema) (root : Name) (hac : σ.Acyclic)
    (hnd : σ.topNames.Nodup)
    (hs : ∀ s ∈ σ.structs, s.name.head? ≠ some '[')
    (hm : ∀ m ∈ σ.multimaps, m.name.head? ≠ some '[')
    (hroot : root ≠ []) (w : List (Name × Nat))
    (h1 : wireEntries σ root = .ok w) : initEntries σ root = .ok w :=
  init_ok_of_wire_ok σ root hac (names_of_lists hs hm) (disj_of_topNames_nodup hnd) hroot w h1

/-! ## Non-vacuity -/

instance instDecEqExcept {ε α : Type} [DecidableEq ε] [DecidableEq α] : DecidableEq (Except ε α)
  | .ok a, .ok b => if h : a = b then isTrue (by rw [h]) else isFalse (fun e => h (by cases e; rfl))
  | .error a, .error b =>
    if h : a = b then isTrue (by rw [h]) else isFalse (fun e => h (by cases e; rfl))
  | .ok _, .error _ => isFalse (fun e => by cases e)
  | .error _, .ok _ => isFalse (fun e => by cases e)

/-- `struct R root { A S; B []S; M MM }  struct S { X T }  struct T { Y int64 }
    multimap MM { key string; value S }`: `S` is used three times. -/
def exSchema : Schema :=
  { structs :=
      [ { name := ['R'], isRoot := true,
          fields := [ { name := ['A'], ty := .base { struct := ['S'] } },
                      { name := ['B'], ty := .array { struct := ['S'] } [] false },
                      { name := ['M'], ty := .base { multimap := ['M', 'M'] } } ] },
        { name := ['S'], fields := [ { name := ['X'], ty := .base { struct := ['T'] } } ] },
        { name := ['T'], fields := [ { name := ['Y'], ty := .base { prim := some .int64 } } ] } ],
    multimaps :=
      [ { name := ['M', 'M'], key := .base { prim := some .string },
          value := .base { struct := ['S'] } } ] }

def exRank (n : Name) : Nat :=
  if n = ['R'] then 3 else if n = ['M', 'M'] then 2 else if n = ['S'] then 1 else 0

example : wireEntries exSchema ['R'] = .ok [(['R'], 3), (['S'], 1), (['T'], 1)] := by decide
example : initEntries exSchema ['R'] = .ok [(['R'], 3), (['S'], 1), (['T'], 1)] := by decide

theorem exSchema_acyclic : exSchema.Acyclic := by
  refine ⟨exRank, ?_, ?_⟩
  · intro s hs ty hty n hn
    simp only [exSchema, List.mem_cons, List.mem_nil_iff, or_false] at hs
    rcases hs with rfl | rfl | rfl <;>
      simp only [Struct.types, List.map, List.mem_cons, List.mem_nil_iff, or_false] at hty
    · rcases hty with rfl | rfl | rfl <;>
        (simp [FType.refName, FType.inner] at hn; subst hn; decide)
    · subst hty; simp [FType.refName, FType.inner] at hn; subst hn; decide
    · subst hty; simp [FType.refName, FType.inner] at hn
  · intro m hm ty hty n hn
    simp only [exSchema, List.mem_cons, List.mem_nil_iff, or_false] at hm
    subst hm
    simp only [Multimap.types, List.mem_cons, List.mem_nil_iff, or_false] at hty
    rcases hty with rfl | rfl
    · simp [FType.refName, FType.inner] at hn
    · simp [FType.refName, FType.inner] at hn; subst hn; decide

/-- all hypotheses of `wire_order_acyclic'` hold for the example, and both sides are `.ok`. -/
example : ∃ w w', wireEntries exSchema ['R'] = .ok w ∧ initEntries exSchema ['R'] = .ok w' ∧
    w = w' ∧ w.length = 3 := by
  refine ⟨[(['R'], 3), (['S'], 1), (['T'], 1)], [(['R'], 3), (['S'], 1), (['T'], 1)],
    by decide, by decide, ?_, by decide⟩
  exact wire_order_acyclic' exSchema ['R'] exSchema_acyclic (by decide) (by decide) (by decide)
    _ _ (by decide) (by decide)

example : initEntries exSchema ['R'] = .ok [(['R'], 3), (['S'], 1), (['T'], 1)] :=
  init_ok_of_wire_ok' exSchema ['R'] exSchema_acyclic (by decide) (by decide) (by decide)
    (by decide) _ (by decide)

/-- The disjointness hypothesis cannot be dropped: with a struct and a multimap of the same
    name the wire traversal cuts the multimap (its name is in `asMap` as a seen struct) while
    `Init` descends into it. The schema is acyclic. -/
def badSchema : Schema :=
  { structs :=
      [ { name := ['R'],
          fields := [ { name := ['A'], ty := .base { struct := ['N'] } },
                      { name := ['B'], ty := .base { multimap := ['N'] } } ] },
        { name := ['N'], fields := [ { name := ['X'], ty := .base { prim := some .int64 } } ] },
        { name := ['T'], fields := [ { name := ['Y'], ty := .base { prim := some .int64 } } ] } ],
    multimaps :=
      [ { name := ['N'], key := .base { prim := some .string },
          value := .base { struct := ['T'] } } ] }

example : wireEntries badSchema ['R'] = .ok [(['R'], 2), (['N'], 1)] := by decide
example : initEntries badSchema ['R'] = .ok [(['R'], 2), (['N'], 1), (['T'], 1)] := by decide

/-- The hypothesis on `[` cannot be dropped either: a struct whose name is the array key of `S`
    makes `Init` skip the array of `S` inside it (the key is "on the stack"). Acyclic. -/
def badNames : Schema :=
  { structs :=
      [ { name := ['R'],
          fields := [ { name := ['A'], ty := .base { struct := ['[', ']', 'S'] } } ] },
        { name := ['[', ']', 'S'],
          fields := [ { name := ['B'], ty := .array { struct := ['S'] } [] false } ] },
        { name := ['S'], fields := [ { name := ['X'], ty := .base { prim := some .int64 } } ] } ] }

example : wireEntries badNames ['R'] = .ok [(['R'], 1), (['[', ']', 'S'], 1), (['S'], 1)] := by
  decide
example : initEntries badNames ['R'] = .ok [(['R'], 1), (['[', ']', 'S'], 1)] := by decide

/-- `root ≠ []` in `init_ok_of_wire_ok` cannot be dropped. -/
def emptyRoot : Schema :=
  { structs := [ { name := [],
                   fields := [ { name := ['X'], ty := .base { prim := some .int64 } } ] } ] }

example : wireEntries emptyRoot [] = .ok [([], 1)] := by decide
example : initEntries emptyRoot [] = .error .unknownFieldType := by decide

end Stef.Idl
