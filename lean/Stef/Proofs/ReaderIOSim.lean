/-
  Schedule independence of Stef.ReaderIO as a simulation: two reader states are related when the
  bytes still to be delivered (`rest`), the terminal error of the source and all bookkeeping
  fields agree - the buffers, the schedules, the stored bufio errors and the request logs may
  differ. Every step of the reader maps related states to equal results and related states.
-/
import Stef.Proofs.ReaderIOFd

namespace Stef.ReaderIO

/-! ### bufio level -/

structure Bufio.Sim (b₁ b₂ : Bufio) : Prop where
  w₁ : b₁.WF
  w₂ : b₂.WF
  big₁ : Fd.skipChunk < b₁.size
  big₂ : Fd.skipChunk < b₂.size
  rest : b₁.rest = b₂.rest
  fail : b₁.src.fail = b₂.src.fail

theorem Bufio.Sim.term {b₁ b₂ : Bufio} (h : Bufio.Sim b₁ b₂) : b₁.term = b₂.term := by
  simp [Bufio.term, Src.term, h.fail]

theorem Bufio.readByte_sim {b₁ b₂ : Bufio} (h : Bufio.Sim b₁ b₂) :
    (b₁.readByte).2 = (b₂.readByte).2 ∧ Bufio.Sim (b₁.readByte).1 (b₂.readByte).1 := by
  obtain ⟨a1, a2, a3, _, a5, a6⟩ := Bufio.readByte_spec b₁ h.w₁
  obtain ⟨c1, c2, c3, _, c5, c6⟩ := Bufio.readByte_spec b₂ h.w₂
  refine ⟨?_, ⟨a1, c1, by rw [a2]; exact h.big₁, by rw [c2]; exact h.big₂, ?_, by rw [a3, c3, h.fail]⟩⟩
  · rw [a6, c6, h.rest, h.term]
  · rw [a5, c5, h.rest]

theorem Bufio.readFull_sim {b₁ b₂ : Bufio} (h : Bufio.Sim b₁ b₂) (n : Nat) :
    (b₁.readFull n).2 = (b₂.readFull n).2 ∧ Bufio.Sim (b₁.readFull n).1 (b₂.readFull n).1 := by
  obtain ⟨a1, a2, a3, a4, a5, _⟩ := Bufio.readFull_spec b₁ h.w₁ n
  obtain ⟨c1, c2, c3, c4, c5, _⟩ := Bufio.readFull_spec b₂ h.w₂ n
  refine ⟨?_, ⟨a3, c3, by rw [a4]; exact h.big₁, by rw [c4]; exact h.big₂, ?_, by rw [a5, c5, h.fail]⟩⟩
  · rw [a1, c1, h.rest, h.term]
  · rw [a2, c2, h.rest]

/-- `binary.ReadUvarint` maps related readers to equal results and related readers. -/
theorem readUvarintLoop_rel {S₁ S₂ : Type} (rb₁ : S₁ → S₁ × Except Err Byte)
    (rb₂ : S₂ → S₂ × Except Err Byte) (R : S₁ → S₂ → Prop)
    (hrb : ∀ s₁ s₂, R s₁ s₂ → (rb₁ s₁).2 = (rb₂ s₂).2 ∧ R (rb₁ s₁).1 (rb₂ s₂).1) :
    ∀ (fuel : Nat) (s₁ : S₁) (s₂ : S₂) (x sh i : Nat), R s₁ s₂ →
      (readUvarintLoop rb₁ fuel s₁ x sh i).2 = (readUvarintLoop rb₂ fuel s₂ x sh i).2 ∧
      R (readUvarintLoop rb₁ fuel s₁ x sh i).1 (readUvarintLoop rb₂ fuel s₂ x sh i).1 := by
  intro fuel
  induction fuel with
  | zero => intro s₁ s₂ x sh i h; exact ⟨rfl, h⟩
  | succ fuel ih =>
    intro s₁ s₂ x sh i h
    unfold readUvarintLoop
    obtain ⟨hr, hs⟩ := hrb s₁ s₂ h
    rcases h1 : rb₁ s₁ with ⟨s₁', r₁⟩
    rcases h2 : rb₂ s₂ with ⟨s₂', r₂⟩
    rw [h1, h2] at hr hs
    simp only at hr hs
    subst hr
    cases r₁ with
    | error e => exact ⟨tr, hs⟩
    | ok b =>
      simp only
      by_cases hb : b.toNat < 128
      · simp only [hb, ↓reduceIte]
        by_cases h9 : i = 9 ∧ b.toNat > 1
        · simp only [h9, and_self, ↓reduceIte]; exact ⟨tr, hs⟩
        · simp only [h9, ↓reduceIte]; exact ⟨tr, hs⟩
      · simp only [hb, ↓reduceIte]
        exact ih s₁' s₂' _ _ _ hs

theorem Bufio.readUvarint_sim {b₁ b₂ : Bufio} (h : Bufio.Sim b₁ b₂) :
    (b₁.readUvarint).2 = (b₂.readUvarint).2 ∧ Bufio.Sim (b₁.readUvarint).1 (b₂.readUvarint).1 :=
  readUvarintLoop_rel Bufio.readByte Bufio.readByte Bufio.Sim
    (fun _ _ h => Bufio.readByte_sim h) 10 b₁ b₂ 0 0 0 h

theorem readFixedHeader_sim {b₁ b₂ : Bufio} (h : Bufio.Sim b₁ b₂) :
    (readFixedHeader b₁).2 = (readFixedHeader b₂).2 ∧
    Bufio.Sim (readFixedHeader b₁).1 (readFixedHeader b₂).1 := by
  unfold readFixedHeader
  obtain ⟨hr, hs⟩ := Bufio.readFull_sim h 4
  rcases h1 : b₁.readFull 4 with ⟨b₁', r₁⟩
  rcases h2 : b₂.readFull 4 with ⟨b₂', r₂⟩
  rw [h1, h2] at hr hs
  simp only at hr hs
  subst hr
  cases r₁ with
  | error e => exact ⟨tr, hs⟩
  | ok sg =>
    simp only
    by_cases hsg : sg ≠ sigBytes
    · simp only [hsg, ne_eq, not_false_eq_true, ↓reduceIte]; exact ⟨tr, hs⟩
    · simp only [hsg, ↓reduceIte]
      obtain ⟨hr, hs⟩ := Bufio.readUvarint_sim hs
      rcases h3 : b₁'.readUvarint with ⟨b₁'', x₁, e₁⟩
      rcases h4 : b₂'.readUvarint with ⟨b₂'', x₂, e₂⟩
      rw [h3, h4] at hr hs
      simp only at hr hs
      obtain ⟨hx, he⟩ := Prod.mk.inj hr
      subst hx; subst he
      cases e₁ with
      | some e => exact ⟨tr, hs⟩
      | none =>
        simp only
        by_cases hz : x₁ < 2 ∨ x₁ > Gen.fixedHdrContentSizeLimit
        · simp only [hz, ↓reduceIte]; exact ⟨tr, hs⟩
        · simp only [hz, ↓reduceIte]
          obtain ⟨hr, hs⟩ := Bufio.readFull_sim hs x₁
          rcases h5 : b₁''.readFull x₁ with ⟨c₁, q₁⟩
          rcases h6 : b₂''.readFull x₁ with ⟨c₂, q₂⟩
          rw [h5, h6] at hr hs
          simp only at hr hs
          subst hr
          cases q₁ with
          | error e => exact ⟨tr, hs⟩
          | ok content =>
            simp only
            split
            · exact ⟨tr, hs⟩
            · split
              · exact ⟨tr, hs⟩
              · exact ⟨tr, hs⟩

/-! ### frame decoder level -/

structure Fd.Sim (d₁ d₂ : Fd) : Prop where
  w₁ : d₁.WF
  w₂ : d₂.WF
  rest : d₁.b.rest = d₂.b.rest
  fail : d₁.b.src.fail = d₂.b.src.fail
  remaining : d₁.remaining = d₂.remaining
  ofs : d₁.ofs = d₂.ofs
  flags : d₁.flags = d₂.flags
  frameLoaded : d₁.frameLoaded = d₂.frameLoaded
  overrun : d₁.overrun = d₂.overrun

theorem Fd.Sim.bsim {d₁ d₂ : Fd} (h : Fd.Sim d₁ d₂) : Bufio.Sim d₁.b d₂.b :=
  ⟨h.w₁.b, h.w₂.b, h.w₁.big, h.w₂.big, h.rest, h.fail⟩

theorem Fd.Sim.term {d₁ d₂ : Fd} (h : Fd.Sim d₁ d₂) : d₁.b.term = d₂.b.term := h.bsim.term

theorem Fd.readByte_sim {d₁ d₂ : Fd} (h : Fd.Sim d₁ d₂) :
    (d₁.readByte).2 = (d₂.readByte).2 ∧ Fd.Sim (d₁.readByte).1 (d₂.readByte).1 := by
  obtain ⟨a1, _, a3, _, a5, a6, a7, a8, a9, a10, a11⟩ := Fd.readByte_spec d₁ h.w₁
  obtain ⟨c1, _, c3, _, c5, c6, c7, c8, c9, c10, c11⟩ := Fd.readByte_spec d₂ h.w₂
  refine ⟨?_, ⟨a1, c1, ?_, by rw [a3, c3, h.fail], by rw [a8, c8, h.remaining], ?_, by rw [a5, c5, h.flags],
    by rw [a7, c7, h.remaining, h.frameLoaded], by rw [a6, c6, h.overrun]⟩⟩
  · rw [a11, c11, h.remaining, h.rest, h.term]
  · rw [a10, c10, h.remaining, h.rest]
  · rw [a9, c9, h.remaining, h.ofs]

theorem Fd.readUvarint_sim {d₁ d₂ : Fd} (h : Fd.Sim d₁ d₂) :
    (d₁.readUvarint).2 = (d₂.readUvarint).2 ∧ Fd.Sim (d₁.readUvarint).1 (d₂.readUvarint).1 :=
  readUvarintLoop_rel Fd.readByte Fd.readByte Fd.Sim
    (fun _ _ h => Fd.readByte_sim h) 10 d₁ d₂ 0 0 0 h

theorem Fd.readFullN_sim {d₁ d₂ : Fd} (h : Fd.Sim d₁ d₂) (n : Nat) (hn : n ≤ d₁.remaining) :
    (d₁.readFullN n).2 = (d₂.readFullN n).2 ∧ Fd.Sim (d₁.readFullN n).1 (d₂.readFullN n).1 := by
  obtain ⟨a1, a2, a3, a4, _, a6, a7, a8, a9, a10, a11, _⟩ := Fd.readFullN_spec d₁ h.w₁ n hn
  obtain ⟨c1, c2, c3, c4, _, c6, c7, c8, c9, c10, c11, _⟩ :=
    Fd.readFullN_spec d₂ h.w₂ n (by rw [← h.remaining]; exact hn)
  have hb : (d₁.readFullN n).2.1 = (d₂.readFullN n).2.1 := by rw [a1, c1, h.rest]
  refine ⟨?_, ⟨a4, c4, by rw [a2, c2, h.rest], by rw [a6, c6, h.fail], by rw [a10, c10, hb, h.remaining],
    by rw [a11, c11, hb, h.ofs], by rw [a7, c7, h.flags], by rw [a8, c8, h.frameLoaded],
    by rw [a9, c9, h.overrun]⟩⟩
  apply Prod.ext
  · exact hb
  · rw [a3, c3, h.rest, h.term]

theorem toExcept_fst {S : Type} (r : S × Bytes × Option Err) : (toExcept r).1 = r.1 := by
  rcases r with ⟨s, got, e⟩
  cases e <;> rfl

theorem toExcept_snd {S₁ S₂ : Type} (r₁ : S₁ × Bytes × Option Err) (r₂ : S₂ × Bytes × Option Err)
    (h : r₁.2 = r₂.2) : (toExcept r₁).2 = (toExcept r₂).2 := by
  rcases r₁ with ⟨s₁, got₁, e₁⟩
  rcases r₂ with ⟨s₂, got₂, e₂⟩
  simp only at h
  obtain ⟨h1, h2⟩ := Prod.mk.inj h
  subst h1; subst h2
  cases e₁ <;> rfl

theorem toExcept_err {S : Type} (r : S × Bytes × Option Err) (h : r.2.2 ≠ none) :
    ∃ e, (toExcept r).2 = .error e := by
  rcases r with ⟨s, got, e⟩
  cases e with
  | none => exact absurd rfl h
  | some e => exact ⟨e, rfl⟩

/-- two results of a step over related states: either equal with related states, or - after an
    `io.ReadFull` that overran its frame - both are errors and both states carry the mark -/
def RelE {α : Type} (r₁ r₂ : Fd × Except Err α) : Prop :=
  ((∃ e₁ e₂, r₁.2 = .error e₁ ∧ r₂.2 = .error e₂) ∧ r₁.1.overrun = true ∧ r₂.1.overrun = true) ∨
  (r₁.2 = r₂.2 ∧ Fd.Sim r₁.1 r₂.1)

theorem Fd.readFull_rel {d₁ d₂ : Fd} (h : Fd.Sim d₁ d₂) (n : Nat) :
    RelE (d₁.readFull n) (d₂.readFull n) := by
  unfold Fd.readFull
  by_cases hn : n ≤ d₁.remaining
  · obtain ⟨hr, hs⟩ := Fd.readFullN_sim h n hn
    right
    exact ⟨toExcept_snd _ _ hr, by rw [toExcept_fst, toExcept_fst]; exact hs⟩
  · left
    obtain ⟨a1, a2⟩ := Fd.readFullN_overrun d₁ h.w₁.b n (by omega)
    obtain ⟨c1, c2⟩ := Fd.readFullN_overrun d₂ h.w₂.b n (by rw [← h.remaining]; omega)
    obtain ⟨e₁, he₁⟩ := toExcept_err _ a1
    obtain ⟨e₂, he₂⟩ := toExcept_err _ c1
    exact ⟨⟨e₁, e₂, he₁, he₂⟩, by rw [toExcept_fst]; exact a2, by rw [toExcept_fst]; exact c2⟩

theorem Fd.readFull_sim {d₁ d₂ : Fd} (h : Fd.Sim d₁ d₂) (n : Nat) (hn : n ≤ d₁.remaining) :
    (d₁.readFull n).2 = (d₂.readFull n).2 ∧ Fd.Sim (d₁.readFull n).1 (d₂.readFull n).1 := by
  obtain ⟨hr, hs⟩ := Fd.readFullN_sim h n hn
  unfold Fd.readFull
  exact ⟨toExcept_snd _ _ hr, by rw [toExcept_fst, toExcept_fst]; exact hs⟩

theorem Fd.skipLoop_sim {d₁ d₂ : Fd} (h : Fd.Sim d₁ d₂) (f₁ f₂ : Nat)
    (hf₁ : d₁.remaining + d₁.b.src.sched.length < f₁) (hf₂ : d₂.remaining + d₂.b.src.sched.length < f₂) :
    (Fd.skipLoop f₁ d₁).2 = (Fd.skipLoop f₂ d₂).2 ∧ Fd.Sim (Fd.skipLoop f₁ d₁).1 (Fd.skipLoop f₂ d₂).1 := by
  obtain ⟨a1, _, a3, a4, a5, a6, _, a8, a9, a10, a11⟩ := Fd.skipLoop_spec f₁ d₁ h.w₁ hf₁
  obtain ⟨c1, _, c3, c4, c5, c6, _, c8, c9, c10, c11⟩ := Fd.skipLoop_spec f₂ d₂ h.w₂ hf₂
  refine ⟨by rw [a11, c11, h.remaining, h.rest, h.term],
    ⟨a1, c1, by rw [a8, c8, h.remaining, h.rest], by rw [a3, c3, h.fail], by rw [a9, c9, h.remaining, h.rest],
     by rw [a10, c10, h.remaining, h.rest, h.ofs], by rw [a4, c4, h.flags], by rw [a5, c5, h.frameLoaded],
     by rw [a6, c6, h.overrun]⟩⟩

/-- updating the bufio part of related frame decoders by related bufio states -/
theorem Fd.Sim.withB {d₁ d₂ : Fd} (h : Fd.Sim d₁ d₂) {b₁ b₂ : Bufio} (hb : Bufio.Sim b₁ b₂) :
    Fd.Sim { d₁ with b := b₁ } { d₂ with b := b₂ } :=
  ⟨⟨hb.w₁, hb.big₁, h.w₁.lim⟩, ⟨hb.w₂, hb.big₂, h.w₂.lim⟩, hb.rest, hb.fail, h.remaining, h.ofs,
   h.flags, h.frameLoaded, h.overrun⟩

theorem Fd.nextFrameHdr_sim {d₁ d₂ : Fd} (h : Fd.Sim d₁ d₂) :
    (d₁.nextFrameHdr).2 = (d₂.nextFrameHdr).2 ∧ Fd.Sim (d₁.nextFrameHdr).1 (d₂.nextFrameHdr).1 := by
  unfold Fd.nextFrameHdr
  obtain ⟨hr, hs⟩ := Bufio.readByte_sim h.bsim
  rcases h1 : d₁.b.readByte with ⟨b₁, r₁⟩
  rcases h2 : d₂.b.readByte with ⟨b₂, r₂⟩
  rw [h1, h2] at hr hs
  simp only at hr hs
  subst hr
  cases r₁ with
  | error e => exact ⟨tr, h.withB hs⟩
  | ok hb =>
    simp only
    by_cases hfl : hb.toNat ||| Gen.frameFlagsMask ≠ Gen.frameFlagsMask
    · simp only [hfl, ne_eq, not_false_eq_true, ↓reduceIte]
      exact ⟨tr, ⟨⟨hs.w₁, hs.big₁, h.w₁.lim⟩, ⟨hs.w₂, hs.big₂, h.w₂.lim⟩, hs.rest, hs.fail, h.remaining,
        h.ofs, rfl, h.frameLoaded, h.overrun⟩⟩
    · simp only [hfl, ↓reduceIte]
      obtain ⟨hr, hs⟩ := Bufio.readUvarint_sim hs
      rcases h3 : b₁.readUvarint with ⟨b₁', x₁, e₁⟩
      rcases h4 : b₂.readUvarint with ⟨b₂', x₂, e₂⟩
      rw [h3, h4] at hr hs
      simp only at hr hs
      obtain ⟨hx, he⟩ := Prod.mk.inj hr
      subst hx; subst he
      cases e₁ with
      | some e =>
        exact ⟨tr, ⟨⟨hs.w₁, hs.big₁, h.w₁.lim⟩, ⟨hs.w₂, hs.big₂, h.w₂.lim⟩, hs.rest, hs.fail, h.remaining,
          h.ofs, rfl, h.frameLoaded, h.overrun⟩⟩
      | none =>
        simp only
        by_cases hz : x₁ > Gen.frameSizeLimit
        · simp only [hz, ↓reduceIte]
          exact ⟨tr, ⟨⟨hs.w₁, hs.big₁, h.w₁.lim⟩, ⟨hs.w₂, hs.big₂, h.w₂.lim⟩, hs.rest, hs.fail, h.remaining,
            h.ofs, rfl, h.frameLoaded, h.overrun⟩⟩
        · simp only [hz, ↓reduceIte]
          exact ⟨tr, ⟨⟨hs.w₁, hs.big₁, rfl⟩, ⟨hs.w₂, hs.big₂, rfl⟩, hs.rest, hs.fail, rfl, rfl, rfl, rfl,
            h.overrun⟩⟩

theorem Fd.next_sim {d₁ d₂ : Fd} (h : Fd.Sim d₁ d₂) :
    (d₁.next).2 = (d₂.next).2 ∧ Fd.Sim (d₁.next).1 (d₂.next).1 := by
  unfold Fd.next
  obtain ⟨hr, hs⟩ := Fd.skipLoop_sim h (d₁.remaining + d₁.b.src.sched.length + 1)
    (d₂.remaining + d₂.b.src.sched.length + 1) (by omega) (by omega)
  rcases h1 : Fd.skipLoop (d₁.remaining + d₁.b.src.sched.length + 1) d₁ with ⟨d₁', e₁⟩
  rcases h2 : Fd.skipLoop (d₂.remaining + d₂.b.src.sched.length + 1) d₂ with ⟨d₂', e₂⟩
  rw [h1, h2] at hr hs
  simp only at hr hs
  subst hr
  cases e₁ with
  | some e => exact ⟨tr, hs⟩
  | none => exact Fd.nextFrameHdr_sim hs

/-! ### ReadBufs -/

theorem readCols_rel : ∀ (ns : List Nat) (d₁ d₂ : Fd) (acc : List Bytes), Fd.Sim d₁ d₂ →
    RelE (readCols ns d₁ acc) (readCols ns d₂ acc) := by
  intro ns
  induction ns with
  | nil => intro d₁ d₂ acc h; right; exact ⟨rfl, h⟩
  | cons n ns ih =>
    intro d₁ d₂ acc h
    unfold readCols
    rcases Fd.readFull_rel h n with ⟨⟨e₁, e₂, he₁, he₂⟩, o₁, o₂⟩ | ⟨hr, hs⟩
    · left
      rcases h1 : d₁.readFull n with ⟨d₁', r₁⟩
      rcases h2 : d₂.readFull n with ⟨d₂', r₂⟩
      rw [h1] at he₁ o₁; rw [h2] at he₂ o₂
      simp only at he₁ he₂ o₁ o₂
      subst he₁; subst he₂
      exact ⟨⟨e₁, e₂, rfl, rfl⟩, o₁, o₂⟩
    · rcases h1 : d₁.readFull n with ⟨d₁', r₁⟩
      rcases h2 : d₂.readFull n with ⟨d₂', r₂⟩
      rw [h1, h2] at hr hs
      simp only at hr hs
      subst hr
      cases r₁ with
      | error e => right; exact ⟨rfl, hs⟩
      | ok col => exact ih d₁' d₂' (col :: acc) hs

theorem readFrom_rel (t : Sizes.ColTree) {d₁ d₂ : Fd} (h : Fd.Sim d₁ d₂) (lim : Nat) :
    RelE (readFrom t d₁ lim) (readFrom t d₂ lim) := by
  unfold readFrom
  obtain ⟨hr, hs⟩ := Fd.readUvarint_sim h
  rcases h1 : d₁.readUvarint with ⟨d₁', x₁, e₁⟩
  rcases h2 : d₂.readUvarint with ⟨d₂', x₂, e₂⟩
  rw [h1, h2] at hr hs
  simp only at hr hs
  obtain ⟨hx, he⟩ := Prod.mk.inj hr
  subst hx; subst he
  cases e₁ with
  | some e => right; exact ⟨rfl, hs⟩
  | none =>
    simp only
    by_cases hz : x₁ > lim
    · simp only [hz, ↓reduceIte]; right; exact ⟨rfl, hs⟩
    · simp only [hz, ↓reduceIte]
      rcases Fd.readFull_rel hs x₁ with ⟨⟨e₁, e₂, he₁, he₂⟩, o₁, o₂⟩ | ⟨hr, hs⟩
      · left
        rcases h3 : d₁'.readFull x₁ with ⟨c₁, r₁⟩
        rcases h4 : d₂'.readFull x₁ with ⟨c₂, r₂⟩
        rw [h3] at he₁ o₁; rw [h4] at he₂ o₂
        simp only at he₁ he₂ o₁ o₂
        subst he₁; subst he₂
        exact ⟨⟨e₁, e₂, rfl, rfl⟩, o₁, o₂⟩
      · rcases h3 : d₁'.readFull x₁ with ⟨c₁, r₁⟩
        rcases h4 : d₂'.readFull x₁ with ⟨c₂, r₂⟩
        rw [h3, h4] at hr hs
        simp only at hr hs
        subst hr
        cases r₁ with
        | error e => right; exact ⟨rfl, hs⟩
        | ok table =>
          simp only
          rcases Sizes.readSizes t { rd := { buf := table }, limit := lim - x₁ } with ⟨st, ok⟩
          cases ok with
          | false => right; exact ⟨rfl, hs⟩
          | true => exact readCols_rel _ _ _ _ hs

/-! ### reader level -/

structure Rd.Sim (r₁ r₂ : Rd) : Prop where
  fd : Fd.Sim r₁.fd r₂.fd
  tree : r₁.tree = r₂.tree
  frameRecordCount : r₁.frameRecordCount = r₂.frameRecordCount
  recordCount : r₁.recordCount = r₂.recordCount
  framesLoaded : r₁.framesLoaded = r₂.framesLoaded
  nextInFrame : r₁.nextInFrame = r₂.nextInFrame
  cols : r₁.cols = r₂.cols
  loaded : r₁.loaded = r₂.loaded

/-- both runs are past an overrunning `io.ReadFull`: both have failed, nothing more was loaded -/
def Ovr (r₁ r₂ : Rd) : Prop :=
  r₁.fd.overrun = true ∧ r₂.fd.overrun = true ∧ r₁.loaded = r₂.loaded

def RelR {α : Type} (r₁ r₂ : Rd × Except Err α) : Prop :=
  ((∃ e₁ e₂, r₁.2 = .error e₁ ∧ r₂.2 = .error e₂) ∧ Ovr r₁.1 r₂.1) ∨ (r₁.2 = r₂.2 ∧ Rd.Sim r₁.1 r₂.1)

theorem nextFrame_rel {r₁ r₂ : Rd} (h : Rd.Sim r₁ r₂) : RelR (nextFrame r₁) (nextFrame r₂) := by
  unfold nextFrame
  obtain ⟨hr, hs⟩ := Fd.next_sim h.fd
  rcases h1 : r₁.fd.next with ⟨d₁, e₁⟩
  rcases h2 : r₂.fd.next with ⟨d₂, e₂⟩
  rw [h1, h2] at hr hs
  simp only at hr hs
  subst hr
  cases e₁ with
  | some e =>
    right
    exact ⟨rfl, ⟨hs, h.tree, h.frameRecordCount, h.recordCount, h.framesLoaded, h.nextInFrame, h.cols, h.loaded⟩⟩
  | none =>
    simp only
    obtain ⟨hr, hs'⟩ := Fd.readUvarint_sim hs
    rcases h3 : d₁.readUvarint with ⟨d₁', x₁, q₁⟩
    rcases h4 : d₂.readUvarint with ⟨d₂', x₂, q₂⟩
    rw [h3, h4] at hr hs'
    simp only at hr hs'
    obtain ⟨hx, he⟩ := Prod.mk.inj hr
    subst hx; subst he
    cases q₁ with
    | some e =>
      right
      exact ⟨rfl, ⟨hs', h.tree, rfl, h.recordCount, h.framesLoaded, h.nextInFrame, h.cols, h.loaded⟩⟩
    | none =>
      simp only
      have hrel := readFrom_rel r₁.tree hs' d₁'.remaining
      rw [h.tree, hs'.remaining] at hrel
      rw [h.tree, hs'.remaining]
      rcases h5 : readFrom r₂.tree d₁' d₂'.remaining with ⟨c₁, u₁⟩
      rcases h6 : readFrom r₂.tree d₂' d₂'.remaining with ⟨c₂, u₂⟩
      rw [h5, h6] at hrel
      rcases hrel with ⟨⟨e₁, e₂, he₁, he₂⟩, o₁, o₂⟩ | ⟨hr, hs''⟩
      · left
        simp only at he₁ he₂ o₁ o₂
        subst he₁; subst he₂
        exact ⟨⟨e₁, e₂, rfl, rfl⟩, o₁, o₂, h.loaded⟩
      · simp only at hr hs''
        subst hr
        cases u₁ with
        | error e =>
          right
          exact ⟨tr, ⟨hs'', tr, tr, h.recordCount, h.framesLoaded, h.nextInFrame, h.cols, h.loaded⟩⟩
        | ok cols =>
          right
          simp only
          refine ⟨by rw [hs.flags], ⟨hs'', tr, tr, h.recordCount, ?_, tr, tr, ?_⟩⟩
          · simp only [h.framesLoaded]
          · simp only [h.loaded]

def RelO (r₁ r₂ : Rd × Out) : Prop :=
  ((∃ e₁ e₂, r₁.2 = .err e₁ ∧ r₂.2 = .err e₂) ∧ Ovr r₁.1 r₂.1) ∨ (r₁.2 = r₂.2 ∧ Rd.Sim r₁.1 r₂.1)

theorem read_rel (till : Bool) : ∀ (fuel : Nat) (r₁ r₂ : Rd), Rd.Sim r₁ r₂ →
    RelO (read till fuel r₁) (read till fuel r₂) := by
  intro fuel
  induction fuel with
  | zero => intro r₁ r₂ h; right; exact ⟨rfl, h⟩
  | succ fuel ih =>
    intro r₁ r₂ h
    unfold read
    rw [h.frameRecordCount]
    by_cases h0 : r₂.frameRecordCount = 0
    · simp only [h0, ↓reduceIte]
      cases till with
      | true => right; exact ⟨rfl, h⟩
      | false =>
        simp only [Bool.false_eq_true, ↓reduceIte]
        have hrel := nextFrame_rel h
        rcases h1 : nextFrame r₁ with ⟨n₁, u₁⟩
        rcases h2 : nextFrame r₂ with ⟨n₂, u₂⟩
        rw [h1, h2] at hrel
        rcases hrel with ⟨⟨e₁, e₂, he₁, he₂⟩, ho⟩ | ⟨hr, hs⟩
        · left
          simp only at he₁ he₂ ho
          subst he₁; subst he₂
          exact ⟨⟨e₁, e₂, rfl, rfl⟩, ho⟩
        · simp only at hr hs
          subst hr
          cases u₁ with
          | error e => right; exact ⟨rfl, hs⟩
          | ok _ => exact ih n₁ n₂ hs
    · simp only [h0, ↓reduceIte]
      right
      refine ⟨by rw [h.framesLoaded, h.nextInFrame], ⟨h.fd, h.tree, rfl, ?_, h.framesLoaded, ?_, h.cols, h.loaded⟩⟩
      · simp only [h.recordCount]
      · simp only [h.nextInFrame]

theorem readFuel_sim {r₁ r₂ : Rd} (h : Rd.Sim r₁ r₂) : readFuel r₁ = readFuel r₂ := by
  unfold readFuel; rw [h.fd.rest]

/-- reading to the first error from related states: the same records, the same loaded frames,
    and the same final error unless both runs ended in an overrunning `io.ReadFull`. -/
theorem readAll_rel : ∀ (fuel : Nat) (r₁ r₂ : Rd), Rd.Sim r₁ r₂ →
    (readAll fuel r₁).1 = (readAll fuel r₂).1 ∧
    (readAll fuel r₁).2.2.loaded = (readAll fuel r₂).2.2.loaded ∧
    ((readAll fuel r₁).2.1 = (readAll fuel r₂).2.1 ∨
     ((readAll fuel r₁).2.2.fd.overrun = true ∧ (readAll fuel r₂).2.2.fd.overrun = true)) := by
  intro fuel
  induction fuel with
  | zero => intro r₁ r₂ h; exact ⟨rfl, h.loaded, Or.inl rfl⟩
  | succ fuel ih =>
    intro r₁ r₂ h
    unfold readAll
    rw [readFuel_sim h]
    have hrel := read_rel false (readFuel r₂) r₁ r₂ h
    rcases h1 : read false (readFuel r₂) r₁ with ⟨n₁, u₁⟩
    rcases h2 : read false (readFuel r₂) r₂ with ⟨n₂, u₂⟩
    rw [h1, h2] at hrel
    rcases hrel with ⟨⟨e₁, e₂, he₁, he₂⟩, ho⟩ | ⟨hr, hs⟩
    · simp only at he₁ he₂ ho
      subst he₁; subst he₂
      exact ⟨rfl, ho.2.2, Or.inr ⟨ho.1, ho.2.1⟩⟩
    · simp only at hr hs
      subst hr
      cases u₁ with
      | err e => exact ⟨rfl, hs.loaded, Or.inl rfl⟩
      | record f i =>
        simp only
        obtain ⟨a1, a2, a3⟩ := ih n₁ n₂ hs
        rcases h3 : readAll fuel n₁ with ⟨rs₁, q₁, z₁⟩
        rcases h4 : readAll fuel n₂ with ⟨rs₂, q₂, z₂⟩
        rw [h3, h4] at a1 a2 a3
        simp only at a1 a2 a3 ⊢
        exact ⟨by rw [a1], a2, a3⟩

theorem readVarHeaderBytes_sim {r₁ r₂ : Rd} (h : Rd.Sim r₁ r₂) :
    (readVarHeaderBytes r₁).2 = (readVarHeaderBytes r₂).2 ∧
    Rd.Sim (readVarHeaderBytes r₁).1 (readVarHeaderBytes r₂).1 := by
  unfold readVarHeaderBytes
  obtain ⟨hr, hs⟩ := Fd.next_sim h.fd
  rcases h1 : r₁.fd.next with ⟨d₁, e₁⟩
  rcases h2 : r₂.fd.next with ⟨d₂, e₂⟩
  rw [h1, h2] at hr hs
  simp only at hr hs
  subst hr
  cases e₁ with
  | some e =>
    exact ⟨rfl, ⟨hs, h.tree, h.frameRecordCount, h.recordCount, h.framesLoaded, h.nextInFrame, h.cols, h.loaded⟩⟩
  | none =>
    simp only
    rw [hs.remaining]
    by_cases hz : d₂.remaining > Gen.varHdrContentSizeLimit
    · simp only [hz, ↓reduceIte]
      exact ⟨tr, ⟨hs, h.tree, h.frameRecordCount, h.recordCount, h.framesLoaded, h.nextInFrame, h.cols, h.loaded⟩⟩
    · simp only [hz, ↓reduceIte]
      obtain ⟨hr, hs'⟩ := Fd.readFull_sim hs d₂.remaining (by rw [hs.remaining]; exact Nat.le_refl _)
      rcases h3 : d₁.readFull d₂.remaining with ⟨c₁, u₁⟩
      rcases h4 : d₂.readFull d₂.remaining with ⟨c₂, u₂⟩
      rw [h3, h4] at hr hs'
      simp only at hr hs' ⊢
      exact ⟨hr, ⟨hs', h.tree, h.frameRecordCount, h.recordCount, h.framesLoaded, h.nextInFrame, h.cols, h.loaded⟩⟩

/-- two sources with the same data and the same terminal condition, whatever their schedules
    (as long as both keep the contract), behind bufio readers larger than the skip chunk -/
theorem init_sim (data : Bytes) (fail : Bool) (σ₁ σ₂ : List Beh) (B₁ B₂ : Nat)
    (c₁ : Contract σ₁) (c₂ : Contract σ₂) (hB₁ : Fd.skipChunk < B₁) (hB₂ : Fd.skipChunk < B₂) :
    Bufio.Sim { src := { data := data, fail := fail, sched := σ₁ }, size := B₁ }
              { src := { data := data, fail := fail, sched := σ₂ }, size := B₂ } :=
  ⟨⟨by show 0 < B₁; omega, (by intro e h; cases h), c₁⟩,
   ⟨by show 0 < B₂; omega, (by intro e h; cases h), c₂⟩, hB₁, hB₂, rfl, rfl⟩

theorem open_sim_aux (t : Sizes.ColTree) {b₁ b₂ : Bufio} (h : Bufio.Sim b₁ b₂) :
    (match readFixedHeader b₁ with
      | (b, .error e) => (({ fd := { b := b }, tree := t } : Rd), (Except.error e : Except Err Bytes))
      | (b, .ok comp) =>
        if comp ≠ Gen.compressionNone then ({ fd := { b := b }, tree := t }, .error .zstdNotModelled)
        else readVarHeaderBytes { fd := { b := b }, tree := t }).2 =
    (match readFixedHeader b₂ with
      | (b, .error e) => (({ fd := { b := b }, tree := t } : Rd), (Except.error e : Except Err Bytes))
      | (b, .ok comp) =>
        if comp ≠ Gen.compressionNone then ({ fd := { b := b }, tree := t }, .error .zstdNotModelled)
        else readVarHeaderBytes { fd := { b := b }, tree := t }).2 ∧
    Rd.Sim
    (match readFixedHeader b₁ with
      | (b, .error e) => (({ fd := { b := b }, tree := t } : Rd), (Except.error e : Except Err Bytes))
      | (b, .ok comp) =>
        if comp ≠ Gen.compressionNone then ({ fd := { b := b }, tree := t }, .error .zstdNotModelled)
        else readVarHeaderBytes { fd := { b := b }, tree := t }).1
    (match readFixedHeader b₂ with
      | (b, .error e) => (({ fd := { b := b }, tree := t } : Rd), (Except.error e : Except Err Bytes))
      | (b, .ok comp) =>
        if comp ≠ Gen.compressionNone then ({ fd := { b := b }, tree := t }, .error .zstdNotModelled)
        else readVarHeaderBytes { fd := { b := b }, tree := t }).1 := by
  obtain ⟨hr, hs⟩ := readFixedHeader_sim h
  rcases h1 : readFixedHeader b₁ with ⟨c₁, u₁⟩
  rcases h2 : readFixedHeader b₂ with ⟨c₂, u₂⟩
  rw [h1, h2] at hr hs
  simp only at hr hs
  subst hr
  have hinit : Rd.Sim ({ fd := { b := c₁ }, tree := t } : Rd) ({ fd := { b := c₂ }, tree := t } : Rd) :=
    ⟨⟨⟨hs.w₁, hs.big₁, rfl⟩, ⟨hs.w₂, hs.big₂, rfl⟩, hs.rest, hs.fail, rfl, rfl, rfl, rfl, rfl⟩,
     rfl, rfl, rfl, rfl, rfl, rfl, rfl⟩
  cases u₁ with
  | error e => exact ⟨rfl, hinit⟩
  | ok comp =>
    simp only
    by_cases hc : comp ≠ Gen.compressionNone
    · simp only [hc, ne_eq, not_false_eq_true, ↓reduceIte]; exact ⟨tr, hinit⟩
    · simp only [hc, ↓reduceIte]; exact readVarHeaderBytes_sim hinit

theorem open_sim (t : Sizes.ColTree) (data : Bytes) (fail : Bool) (σ₁ σ₂ : List Beh) (B₁ B₂ : Nat)
    (c₁ : Contract σ₁) (c₂ : Contract σ₂) (hB₁ : Fd.skipChunk < B₁) (hB₂ : Fd.skipChunk < B₂) :
    (open_ B₁ t { data := data, fail := fail, sched := σ₁ }).2 =
      (open_ B₂ t { data := data, fail := fail, sched := σ₂ }).2 ∧
    Rd.Sim (open_ B₁ t { data := data, fail := fail, sched := σ₁ }).1
           (open_ B₂ t { data := data, fail := fail, sched := σ₂ }).1 := by
  unfold open_
  exact open_sim_aux t (init_sim data fail σ₁ σ₂ B₁ B₂ c₁ c₂ hB₁ hB₂)

/-- the whole run (constructor, then Read until the first error) over two sources with the same
    data: same constructor result, same records, same loaded frames; the same final error unless
    both runs ended in an overrunning `io.ReadFull`. -/
theorem run_rel (t : Sizes.ColTree) (data : Bytes) (fail : Bool) (σ₁ σ₂ : List Beh) (B₁ B₂ : Nat)
    (c₁ : Contract σ₁) (c₂ : Contract σ₂) (hB₁ : Fd.skipChunk < B₁) (hB₂ : Fd.skipChunk < B₂)
    (maxReads : Nat) :
    (run B₁ t { data := data, fail := fail, sched := σ₁ } maxReads).1.header =
      (run B₂ t { data := data, fail := fail, sched := σ₂ } maxReads).1.header ∧
    (run B₁ t { data := data, fail := fail, sched := σ₁ } maxReads).1.records =
      (run B₂ t { data := data, fail := fail, sched := σ₂ } maxReads).1.records ∧
    (run B₁ t { data := data, fail := fail, sched := σ₁ } maxReads).1.frames =
      (run B₂ t { data := data, fail := fail, sched := σ₂ } maxReads).1.frames ∧
    ((run B₁ t { data := data, fail := fail, sched := σ₁ } maxReads).1.err =
      (run B₂ t { data := data, fail := fail, sched := σ₂ } maxReads).1.err ∨
     ((run B₁ t { data := data, fail := fail, sched := σ₁ } maxReads).2.fd.overrun = true ∧
      (run B₂ t { data := data, fail := fail, sched := σ₂ } maxReads).2.fd.overrun = true)) := by
  obtain ⟨hr, hs⟩ := open_sim t data fail σ₁ σ₂ B₁ B₂ c₁ c₂ hB₁ hB₂
  unfold run
  rcases h1 : open_ B₁ t { data := data, fail := fail, sched := σ₁ } with ⟨r₁, u₁⟩
  rcases h2 : open_ B₂ t { data := data, fail := fail, sched := σ₂ } with ⟨r₂, u₂⟩
  rw [h1, h2] at hr hs
  simp only at hr hs
  subst hr
  cases u₁ with
  | error e => exact ⟨rfl, rfl, rfl, Or.inl rfl⟩
  | ok hdr =>
    simp only
    obtain ⟨a1, a2, a3⟩ := readAll_rel maxReads r₁ r₂ hs
    rcases h3 : readAll maxReads r₁ with ⟨rs₁, q₁, z₁⟩
    rcases h4 : readAll maxReads r₂ with ⟨rs₂, q₂, z₂⟩
    rw [h3, h4] at a1 a2 a3
    simp only at a1 a2 a3 ⊢
    exact ⟨trivial, a1, by rw [a2], a3⟩

end Stef.ReaderIO
