/-
  Bit-list lemmas: reading an n-bit big-endian number back from `lowBits v n`.
-/
import Stef.Spec
import Stef.Proofs.BitStream

namespace Stef
open Stef.Spec

def bitW (b : Bool) : Word := if b then 1#64 else 0#64

def wordOfBits (bs : Bits) (acc : Word) : Word :=
  bs.foldl (fun a b => (a <<< 1) ||| bitW b) acc

theorem readBitsAux_append (bs rest : Bits) (acc : Word) :
    readBitsAux bs.length (bs ++ rest) acc = some (wordOfBits bs acc, rest) := by
  induction bs generalizing acc with
  | nil => simp [readBitsAux, wordOfBits]
  | cons b bs ih =>
    simp only [List.length_cons, List.cons_append, readBitsAux]
    rw [ih]
    simp [wordOfBits, bitW]

theorem wordOfBits_getLsbD (bs : Bits) (acc : Word) (j : Nat) (hj : j < 64) :
    (wordOfBits bs acc).getLsbD j =
      if j < bs.length then bs.getD (bs.length - 1 - j) false else acc.getLsbD (j - bs.length) := by
  induction bs generalizing acc j with
  | nil => simp [wordOfBits]
  | cons b bs ih =>
    have e : wordOfBits (b :: bs) acc = wordOfBits bs ((acc <<< 1) ||| bitW b) := by
      simp [wordOfBits]
    rw [e, ih _ _ hj]
    by_cases h1 : j < bs.length
    · have h2 : j < (b :: bs).length := by simp; omega
      simp only [h1, h2, ↓reduceIte]
      have : (b :: bs).length - 1 - j = (bs.length - 1 - j) + 1 := by simp; omega
      rw [this]
      simp
    · simp only [h1, ↓reduceIte]
      by_cases h2 : j < (b :: bs).length
      · have hj' : j = bs.length := by simp at h2; omega
        simp only [h2, ↓reduceIte]
        have : (b :: bs).length - 1 - j = 0 := by simp; omega
        rw [this]
        subst hj'
        simp only [Nat.sub_self, BitVec.getLsbD_or, BitVec.getLsbD_shiftLeft]
        cases b <;> simp [bitW]
      · simp only [h2, ↓reduceIte]
        simp only [List.length_cons] at h2 ⊢
        obtain ⟨k, hk⟩ : ∃ k, j = bs.length + 1 + k := ⟨j - (bs.length + 1), by omega⟩
        subst hk
        have e1 : bs.length + 1 + k - bs.length = k + 1 := by omega
        have e2 : bs.length + 1 + k - (bs.length + 1) = k := by omega
        rw [e1, e2]
        simp only [BitVec.getLsbD_or, BitVec.getLsbD_shiftLeft]
        have h4 : k + 1 < 64 := by omega
        cases b <;> simp [bitW, h4]

theorem wordOfBits_lowBits (v : Word) (n : Nat) (_hn : n ≤ 64) (hv : v.toNat < 2 ^ n) :
    wordOfBits (lowBits v n) 0#64 = v := by
  apply BitVec.eq_of_getLsbD_eq
  intro j hj
  rw [wordOfBits_getLsbD _ _ _ hj]
  simp only [lowBits_length]
  by_cases h : j < n
  · have hidx : n - 1 - j < (lowBits v n).length := by rw [lowBits_length]; omega
    simp only [h, ↓reduceIte]
    rw [List.getD_eq_getElem?_getD, List.getElem?_eq_getElem hidx, Option.getD_some]
    simp only [lowBits, List.getElem_map, List.getElem_range]
    congr 1; omega
  · simp only [h, ↓reduceIte]
    rw [getLsbD_of_lt_two_pow v n j hv (by omega)]
    simp

/-- reading `n` bits back from the `n`-bit big-endian representation of `v`. -/
theorem readBits_lowBits (v : Word) (n : Nat) (rest : Bits) (hn : n ≤ 64) (hv : v.toNat < 2 ^ n) :
    readBits n (lowBits v n ++ rest) = some (v, rest) := by
  have h := readBitsAux_append (lowBits v n) rest 0#64
  rw [lowBits_length] at h
  rw [readBits, h, wordOfBits_lowBits v n hn hv]

end Stef

namespace Stef

/-- concatenating two big-endian fields: `(a << n) | b` on `m + n` bits. -/
theorem lowBits_concat (a b : Word) (m n : Nat) (hmn : m + n ≤ 64) (hb : b.toNat < 2 ^ n) :
    lowBits ((a <<< n) ||| b) (m + n) = lowBits a m ++ lowBits b n := by
  apply List.ext_getElem
  · simp [lowBits]
  · intro i h1 h2
    have hi : i < m + n := by simpa [lowBits] using h1
    simp only [lowBits, List.getElem_map, List.getElem_range, List.getElem_append, List.length_map,
      List.length_range, BitVec.getLsbD_or, BitVec.getLsbD_shiftLeft]
    by_cases h : i < m
    · simp only [h, ↓reduceDIte]
      have hb0 : b.getLsbD (m + n - 1 - i) = false := getLsbD_of_lt_two_pow b n _ hb (by omega)
      have c1 : m + n - 1 - i < 64 := by omega
      have c2 : ¬ (m + n - 1 - i < n) := by omega
      have e : m + n - 1 - i - n = m - 1 - i := by omega
      rw [hb0, e]
      simp [c1, c2]
    · simp only [h, ↓reduceDIte]
      have c2 : m + n - 1 - i < n := by omega
      have e : m + n - 1 - i = n - 1 - (i - m) := by omega
      rw [e] at c2 ⊢
      simp [c2]

end Stef
