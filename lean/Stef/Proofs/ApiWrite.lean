/-
  `write` produces sound marks: if the record's marks are sound against the reader's value (`Snd`),
  then whatever `SpecEnc.encodeNode` makes of the value and the mark tree that `writeNode` hands over,
  the EFFECTIVE value it returns (= what the reader holds afterwards, `encode_decode_node`) SHOWS
  exactly the record written, and the record is left without marks (`Quiet`): `writeNode_sound`.
-/
import Stef.Proofs.ApiPath
import Stef.Proofs.ApiVis

set_option linter.unusedSimpArgs false

namespace Stef.Api
open Stef Stef.Spec Stef.SpecEnc

/-! ## side conditions: the column tree belongs to the schema -/

mutual
/-- the decoder tree agrees with the schema `C.σ` on what the API model takes from the schema: which
    structs are dictionary structs, which fields are optional, and all fields are kept (the
    writer's own schema) -/
def NodeOk (C : Ctx) : Node → Prop
  | .prim _ _ _ => True
  | .recur _ => True
  | .struct _ name dict kept _ fields =>
    dict.isSome = C.isDictName name ∧ kept = fields.length ∧ FlagsOk C (fieldsOf C name) fields
  | .oneof _ _ _ alts => NodesOk C alts
  | .arr _ _ _ elem => NodeOk C elem
  | .mmap _ _ _ _ k v => NodeOk C k ∧ NodeOk C v
def FlagsOk (C : Ctx) : List Field → List (Bool × Node) → Prop
  | _, [] => True
  | fds, (opt, n) :: rest => opt = fdOpt fds ∧ NodeOk C n ∧ FlagsOk C fds.tail rest
def NodesOk (C : Ctx) : List Node → Prop
  | [] => True
  | n :: ns => NodeOk C n ∧ NodesOk C ns
end

def EnvOk (C : Ctx) (env : List (String × Node)) : Prop := ∀ p ∈ env, NodeOk C p.2

/-- writer dictionary and reader dictionary hold the same entries under the same RefNums -/
def DictEntries (C : Ctx) : List AS → List (Option St) → Prop
  | [], [] => True
  | w :: ws, some v :: ts => Shows C w v ∧ DictEntries C ws ts
  | _, _ => False

def DictRel (C : Ctx) (ws : List AS) (ts : List (Option St)) : Prop :=
  (ws = [] ∧ ts = []) ∨ ∃ ts', ts = none :: ts' ∧ DictEntries C ws ts'

def DictOk (C : Ctx) (wd : WD) (td : List (String × List (Option St))) : Prop :=
  ∀ dn, DictRel C (lookupDict wd dn) (lookupDict td dn)

/-- `Ropt`, if it says anything, says `R` -/
def Compat (Ropt : Option St) (R : St) : Prop := ∀ r, Ropt = some r → r = R

theorem compat_none (R : St) : Compat none R := fun _ h => by simp at h
theorem compat_some (R : St) : Compat (some R) R := fun _ h => by simpa using h.symm

/-! ## primitives -/

theorem encodePrim_eff (col : Nat) (p : Prim) (d : Option String) (v : St) (ds : DS) (evs : List Ev) (ds' : DS) (eff : St)
    (h : encodePrim col p d v ds = some (evs, ds', eff)) : eff = v ∧ ds'.tdict = ds.tdict := by
  unfold encodePrim at h
  split at h
  · split at h <;> dsimp only at h <;> (repeat' split at h) <;> (try (simp at h; done)) <;>
      (simp only [Option.some.injEq, Prod.mk.injEq] at h; obtain ⟨_, rfl, rfl⟩ := h; exact ⟨rfl, rfl⟩)
  · simp at h

def isLeafSt : St → Bool
  | .b _ => true | .i _ => true | .f _ => true | .s _ => true
  | _ => false

theorem encodePrim_leaf (col : Nat) (p : Prim) (d : Option String) (v : St) (ds : DS) (r : List Ev × DS × St)
    (h : encodePrim col p d v ds = some r) : isLeafSt v = true := by
  unfold encodePrim at h
  split at h
  · split at h <;> first | rfl | (simp at h)
  · simp at h

theorem prim_of_vis_leaf (C : Ctx) (w : AS) (h : isLeafSt (vis C w) = true) : ∃ v, w = .prim v := by
  cases w with
  | prim v => exact ⟨v, rfl⟩
  | nil => simp [vis, isLeafSt] at h
  | struct n m p fr fs => simp [vis, isLeafSt] at h
  | oneof n t as =>
    simp only [vis] at h
    split at h <;> simp [isLeafSt] at h
  | arr e es hid => simp [vis, isLeafSt] at h
  | mmap n ps hid k v ml => simp [vis, isLeafSt] at h

/-! ## the statements, by the fuel that `writeNode` and `encodeNode` spend in the same way -/

/-- the previous value `encodeFields` hands to the encoder of a field -/
def actualPrev (σ : Schema) (opt : Bool) (n : Node) (rp oi : Nat) (rfs : List St) : St :=
  if opt && !isPrimNode n && !(rp.testBit oi) then altInit σ n else rfs.headD dflt

/-- what `writeFields` needs of the fields it walks: an encoded field is sound against something
    compatible with the previous value the encoder will use, a field that is not encoded is in sync
    with the reader's slot -/
def FieldsH (C : Ctx) : List (Bool × Node) → Nat → Nat → Nat → Nat → Nat → List St → List AS → Prop
  | (opt, n) :: rest, idx, oi, mask, p, rp, rfs, a :: as =>
    ((!opt || p.testBit oi) = true →
      (mask.testBit idx = true → ∃ Ro, Snd C a Ro ∧ (isPrimNode n = false → Compat Ro (actualPrev C.σ opt n rp oi rfs))) ∧
      (mask.testBit idx = false → Shows C a (rfs.headD dflt) ∧ Quiet C a)) ∧
    FieldsH C rest (idx + 1) (if opt then oi + 1 else oi) mask p rp rfs.tail as
  | _, _, _, _, _, _, _, _ => True

def WNode (C : Ctx) (fuel : Nat) : Prop :=
  ∀ env n W s mk W' s' Ropt R ds evs ds' eff,
    writeNode C fuel env n W s = some (mk, W', s') →
    encodeNode C.σ fuel env n R (vis C W) mk ds = some (evs, ds', eff) →
    Compat Ropt R → Snd C W Ropt → NodeOk C n → EnvOk C env → DictOk C s.wd ds.tdict →
    Shows C W' eff ∧ Quiet C W' ∧ DictOk C s'.wd ds'.tdict

def WFields (C : Ctx) (fuel : Nat) : Prop :=
  ∀ env fields fds idx oi mask p rp rfs fs subs fs' s s' ds evs ds' effs,
    writeFields C fuel env fields idx oi mask p fs s = some (subs, fs', s') →
    encodeFields C.σ fuel env fields idx oi mask p rp rfs (visFields C fds oi p fs) subs ds = some (evs, ds', effs) →
    FlagsOk C fds fields → fields.length = fs.length → EnvOk C env → DictOk C s.wd ds.tdict →
    FieldsH C fields idx oi mask p rp rfs fs →
    ShowsFields C fds oi p fs' effs ∧ QuietFields C fds oi p fs' ∧ DictOk C s'.wd ds'.tdict

def WElems (C : Ctx) (fuel : Nat) : Prop :=
  ∀ env elem ety es old rs subs es' s s' ds evs ds' effs,
    writeElems C fuel env elem es s = some (subs, es', s') →
    encodeElems C.σ fuel env elem ety (visList C es) old subs ds = some (evs, ds', effs) →
    NodeOk C elem → EnvOk C env → DictOk C s.wd ds.tdict →
    SndElems C es rs → (rs = [] ∨ rs = old) →
    ShowsElems C es' effs ∧ QuietElems C es' ∧ DictOk C s'.wd ds'.tdict

def WPairs (C : Ctx) (fuel : Nat) : Prop :=
  ∀ env k v kty vty ps old rs subs ps' s s' ds evs ds' effs,
    writePairs C fuel env k v ps s = some (subs, ps', s') →
    encodePairsFull C.σ fuel env k v kty vty (visPairs C ps) old subs ds = some (evs, ds', effs) →
    NodeOk C k → NodeOk C v → EnvOk C env → DictOk C s.wd ds.tdict →
    SndPairs C ps rs → (rs = [] ∨ rs = old) →
    ShowsPairs C ps' effs ∧ QuietPairs C ps' ∧ DictOk C s'.wd ds'.tdict

def WVals (C : Ctx) (fuel : Nat) : Prop :=
  ∀ env v vm changed idx ps old subs ps' s s' ds evs ds' effs,
    writeVals C fuel env v changed idx ps s = some (subs, ps', s') →
    encodeValuesOnly C.σ fuel env v changed idx old ((visPairs C ps).map (·.2)) subs ds = some (evs, ds', effs) →
    NodeOk C v → EnvOk C env → DictOk C s.wd ds.tdict →
    SndVals C vm idx ps old → old.length = ps.length →
    (∀ j, idx ≤ j → j < idx + ps.length → (decide (j < 64) && changed.testBit j) = vm.testBit j) →
    ShowsPairs C ps' effs ∧ QuietPairs C ps' ∧ DictOk C s'.wd ds'.tdict

/-! ## list steps -/

theorem elems_step (C : Ctx) (fuel : Nat) (hn : WNode C fuel) (he : WElems C fuel) : WElems C (fuel + 1) := by
  intro env elem ety es old rs subs es' s s' ds evs ds' effs hw henc hok henv hd hs hrs
  cases es with
  | nil =>
    simp only [writeElems, Option.some.injEq, Prod.mk.injEq] at hw
    obtain ⟨_, rfl, rfl⟩ := hw
    simp only [visList, encodeElems, Option.some.injEq, Prod.mk.injEq] at henc
    obtain ⟨_, rfl, rfl⟩ := henc
    exact ⟨by simp [ShowsElems], by simp [QuietElems], hd⟩
  | cons e es =>
    simp only [writeElems] at hw
    cases hw1 : writeNode C fuel env elem e s with
    | none => simp [hw1] at hw
    | some r1 =>
      obtain ⟨sub, e', s1⟩ := r1
      simp only [hw1] at hw
      cases hw2 : writeElems C fuel env elem es s1 with
      | none => simp [hw2] at hw
      | some r2 =>
        obtain ⟨subs2, es2, s2⟩ := r2
        simp only [hw2, Option.some.injEq, Prod.mk.injEq] at hw
        obtain ⟨rfl, rfl, rfl⟩ := hw
        simp only [visList, encodeElems, List.headD_cons, List.tail_cons] at henc
        cases he1 : encodeNode C.σ fuel env elem (elemPrev C.σ ety old) (vis C e) sub ds with
        | none => simp [he1] at henc
        | some q1 =>
          obtain ⟨ev1, ds1, v1⟩ := q1
          simp only [he1] at henc
          cases he2 : encodeElems C.σ fuel env elem ety (visList C es) old.tail subs2 ds1 with
          | none => simp [he2] at henc
          | some q2 =>
            obtain ⟨ev2, ds2, vs2⟩ := q2
            simp only [he2, Option.some.injEq, Prod.mk.injEq] at henc
            obtain ⟨_, rfl, rfl⟩ := henc
            simp only [SndElems, SndElemsG] at hs
            have hc : Compat rs.head? (elemPrev C.σ ety old) := by
              intro r hr
              rcases hrs with h | h
              · subst h; simp at hr
              · subst h
                cases rs with
                | nil => simp at hr
                | cons x xs => simp at hr; subst hr; rfl
            obtain ⟨h1, h2, h3⟩ := hn env elem e s sub e' s1 rs.head? _ ds ev1 ds1 v1 hw1 he1 hc hs.1 hok henv hd
            obtain ⟨g1, g2, g3⟩ := he env elem ety es old.tail rs.tail subs2 es2 s1 s2 ds1 ev2 ds2 vs2 hw2 he2 hok henv h3 hs.2
              (by rcases hrs with h | h
                  · left; simp [h]
                  · right; simp [h])
            exact ⟨by simp only [ShowsElems]; exact ⟨v1, vs2, rfl, h1, g1⟩, by simp only [QuietElems]; exact ⟨h2, g2⟩, g3⟩

theorem pairs_step (C : Ctx) (fuel : Nat) (hn : WNode C fuel) (hp : WPairs C fuel) : WPairs C (fuel + 1) := by
  intro env k v kty vty ps old rs subs ps' s s' ds evs ds' effs hw henc hok hov henv hd hs hrs
  cases ps with
  | nil =>
    simp only [writePairs, Option.some.injEq, Prod.mk.injEq] at hw
    obtain ⟨_, rfl, rfl⟩ := hw
    simp only [visPairs, encodePairsFull, Option.some.injEq, Prod.mk.injEq] at henc
    obtain ⟨_, rfl, rfl⟩ := henc
    exact ⟨by simp [ShowsPairs], by simp [QuietPairs], hd⟩
  | cons ab ps =>
    obtain ⟨a, b⟩ := ab
    simp only [writePairs] at hw
    cases hw1 : writeNode C fuel env k a s with
    | none => simp [hw1] at hw
    | some r1 =>
      obtain ⟨ks, a', s1⟩ := r1
      simp only [hw1] at hw
      cases hw2 : writeNode C fuel env v b s1 with
      | none => simp [hw2] at hw
      | some r2 =>
        obtain ⟨vs, b', s2⟩ := r2
        simp only [hw2] at hw
        cases hw3 : writePairs C fuel env k v ps s2 with
        | none => simp [hw3] at hw
        | some r3 =>
          obtain ⟨subs3, ps3, s3⟩ := r3
          simp only [hw3, Option.some.injEq, Prod.mk.injEq] at hw
          obtain ⟨rfl, rfl, rfl⟩ := hw
          simp only [visPairs, encodePairsFull, List.headD_cons, List.tail_cons] at henc
          cases he1 : encodeNode C.σ fuel env k (pairPrev C.σ kty vty old).1 (vis C a) ks ds with
          | none => simp [he1] at henc
          | some q1 =>
            obtain ⟨ev1, ds1, kv⟩ := q1
            simp only [he1] at henc
            cases he2 : encodeNode C.σ fuel env v (pairPrev C.σ kty vty old).2 (vis C b) vs ds1 with
            | none => simp [he2] at henc
            | some q2 =>
              obtain ⟨ev2, ds2, vv⟩ := q2
              simp only [he2] at henc
              cases he3 : encodePairsFull C.σ fuel env k v kty vty (visPairs C ps) old.tail subs3 ds2 with
              | none => simp [he3] at henc
              | some q3 =>
                obtain ⟨ev3, ds3, rest⟩ := q3
                simp only [he3, Option.some.injEq, Prod.mk.injEq] at henc
                obtain ⟨_, rfl, rfl⟩ := henc
                simp only [SndPairs, SndPairsG] at hs
                have hc1 : Compat (rs.head?.map (·.1)) (pairPrev C.σ kty vty old).1 := by
                  intro r hr
                  rcases hrs with h | h
                  · subst h; simp at hr
                  · subst h
                    cases rs with
                    | nil => simp at hr
                    | cons x xs => simp at hr; subst hr; rfl
                have hc2 : Compat (rs.head?.map (·.2)) (pairPrev C.σ kty vty old).2 := by
                  intro r hr
                  rcases hrs with h | h
                  · subst h; simp at hr
                  · subst h
                    cases rs with
                    | nil => simp at hr
                    | cons x xs => simp at hr; subst hr; rfl
                obtain ⟨h1, h2, h3⟩ := hn env k a s ks a' s1 _ _ ds ev1 ds1 kv hw1 he1 hc1 hs.1 hok henv hd
                obtain ⟨i1, i2, i3⟩ := hn env v b s1 vs b' s2 _ _ ds1 ev2 ds2 vv hw2 he2 hc2 hs.2.1 hov henv h3
                obtain ⟨g1, g2, g3⟩ := hp env k v kty vty ps old.tail rs.tail subs3 ps3 s2 s3 ds2 ev3 ds3 rest hw3 he3
                  hok hov henv i3 hs.2.2
                  (by rcases hrs with h | h
                      · left; simp [h]
                      · right; simp [h])
                exact ⟨by simp only [ShowsPairs]; exact ⟨kv, vv, rest, rfl, h1, i1, g1⟩,
                  by simp only [QuietPairs]; exact ⟨h2, i2, g2⟩, g3⟩

theorem vals_step (C : Ctx) (fuel : Nat) (hn : WNode C fuel) (hv : WVals C fuel) : WVals C (fuel + 1) := by
  intro env v vm changed idx ps old subs ps' s s' ds evs ds' effs hw henc hov henv hd hs hlen hbits
  cases ps with
  | nil =>
    simp only [writeVals, Option.some.injEq, Prod.mk.injEq] at hw
    obtain ⟨_, rfl, rfl⟩ := hw
    have : old = [] := by simpa using hlen
    subst this
    simp only [visPairs, List.map_nil, encodeValuesOnly, Option.some.injEq, Prod.mk.injEq] at henc
    obtain ⟨_, rfl, rfl⟩ := henc
    exact ⟨by simp [ShowsPairs], by simp [QuietPairs], hd⟩
  | cons ab ps =>
    obtain ⟨a, b⟩ := ab
    simp only [SndVals] at hs
    obtain ⟨⟨rk, rv, rs', e, hsa, hqa, hla, hb⟩, hs2⟩ := hs
    subst e
    have hbit : (decide (idx < 64) && changed.testBit idx) = vm.testBit idx :=
      hbits idx (Nat.le_refl _) (by simp)
    simp only [writeVals] at hw
    simp only [visPairs, List.map_cons, encodeValuesOnly, List.headD_cons, List.tail_cons] at henc
    by_cases hm : vm.testBit idx = true
    · rw [hm] at hbit
      simp only [hbit, if_true] at hw henc
      simp only [hm, if_true] at hb
      cases hw1 : writeNode C fuel env v b s with
      | none => simp [hw1] at hw
      | some r1 =>
        obtain ⟨sub, b', s1⟩ := r1
        simp only [hw1] at hw
        cases hw2 : writeVals C fuel env v changed (idx + 1) ps s1 with
        | none => simp [hw2] at hw
        | some r2 =>
          obtain ⟨subs2, ps2, s2⟩ := r2
          simp only [hw2, Option.some.injEq, Prod.mk.injEq] at hw
          obtain ⟨rfl, rfl, rfl⟩ := hw
          simp only [List.headD_cons, List.tail_cons] at henc
          cases he1 : encodeNode C.σ fuel env v rv (vis C b) sub ds with
          | none => simp [he1] at henc
          | some q1 =>
            obtain ⟨ev1, ds1, vv⟩ := q1
            simp only [he1] at henc
            cases he2 : encodeValuesOnly C.σ fuel env v changed (idx + 1) rs' ((visPairs C ps).map (·.2)) subs2 ds1 with
            | none => simp [he2] at henc
            | some q2 =>
              obtain ⟨ev2, ds2, rest⟩ := q2
              simp only [he2, Option.some.injEq, Prod.mk.injEq] at henc
              obtain ⟨_, rfl, rfl⟩ := henc
              obtain ⟨h1, h2, h3⟩ := hn env v b s sub b' s1 (some rv) rv ds ev1 ds1 vv hw1 he1 (compat_some rv) hb hov henv hd
              obtain ⟨g1, g2, g3⟩ := hv env v vm changed (idx + 1) ps rs' subs2 ps2 s1 s2 ds1 ev2 ds2 rest hw2 he2 hov henv h3
                (by simpa using hs2) (by simpa using hlen)
                (fun j hj1 hj2 => hbits j (by omega) (by simp; omega))
              exact ⟨by simp only [ShowsPairs]; exact ⟨rk, vv, rest, rfl, hsa, h1, g1⟩,
                by simp only [QuietPairs]; exact ⟨hqa, h2, g2⟩, g3⟩
    · have hm : vm.testBit idx = false := by simpa using hm
      rw [hm] at hbit
      simp only [hbit, Bool.false_eq_true, if_false] at hw henc
      simp only [hm, Bool.false_eq_true, if_false] at hb
      cases hw2 : writeVals C fuel env v changed (idx + 1) ps s with
      | none => simp [hw2] at hw
      | some r2 =>
        obtain ⟨subs2, ps2, s2⟩ := r2
        simp only [hw2, Option.some.injEq, Prod.mk.injEq] at hw
        obtain ⟨rfl, rfl, rfl⟩ := hw
        simp only [List.headD_cons, List.tail_cons] at henc
        cases he2 : encodeValuesOnly C.σ fuel env v changed (idx + 1) rs' ((visPairs C ps).map (·.2)) subs2 ds with
        | none => simp [he2] at henc
        | some q2 =>
          obtain ⟨ev2, ds2, rest⟩ := q2
          simp only [he2, Option.some.injEq, Prod.mk.injEq] at henc
          obtain ⟨_, rfl, rfl⟩ := henc
          obtain ⟨g1, g2, g3⟩ := hv env v vm changed (idx + 1) ps rs' subs2 ps2 s s2 ds ev2 ds2 rest hw2 he2 hov henv hd
            (by simpa using hs2) (by simpa using hlen)
            (fun j hj1 hj2 => hbits j (by omega) (by simp; omega))
          exact ⟨by simp only [ShowsPairs]; exact ⟨rk, rv, rest, rfl, hsa, hb.1, g1⟩,
            by simp only [QuietPairs]; exact ⟨hqa, hb.2.1, g2⟩, g3⟩

theorem wnode_prim (C : Ctx) (fuel : Nat) (env : List (String × Node)) (col : Nat) (p : Prim) (d : Option String)
    (W : AS) (s : WSt) (mk : Mk) (W' : AS) (s' : WSt) (R : St) (ds : DS) (evs : List Ev) (ds' : DS) (eff : St)
    (hw : writeNode C fuel env (.prim col p d) W s = some (mk, W', s'))
    (he : encodeNode C.σ fuel env (.prim col p d) R (vis C W) mk ds = some (evs, ds', eff)) :
    Shows C W' eff ∧ Quiet C W' ∧ s' = s ∧ ds'.tdict = ds.tdict := by
  cases fuel with
  | zero => simp [writeNode] at hw
  | succ fuel =>
    simp only [writeNode, Option.some.injEq, Prod.mk.injEq] at hw
    obtain ⟨_, rfl, rfl⟩ := hw
    simp only [encodeNode] at he
    obtain ⟨v, rfl⟩ := prim_of_vis_leaf C W (encodePrim_leaf _ _ _ _ _ _ he)
    obtain ⟨h1, h2⟩ := encodePrim_eff _ _ _ _ _ _ _ _ he
    simp only [vis] at h1
    subst h1
    exact ⟨by simp [Shows], by simp [Quiet], rfl, h2⟩

theorem isPrimNode_true (n : Node) (h : isPrimNode n = true) : ∃ col p d, n = .prim col p d := by
  cases n <;> simp [isPrimNode] at h
  exact ⟨_, _, _, rfl⟩

theorem encodeFields_cons (σ : Schema) (fuel : Nat) (env : List (String × Node)) (opt : Bool) (n : Node)
    (rest : List (Bool × Node)) (idx oi mask pres prevPres : Nat) (cur new : List St) (subs : List Mk) (ds : DS) :
    encodeFields σ (fuel + 1) env ((opt, n) :: rest) idx oi mask pres prevPres cur new subs ds =
    (match (if mask.testBit idx && (!opt || pres.testBit oi) then
              encodeNode σ fuel env n (actualPrev σ opt n prevPres oi cur) (new.headD dflt) (subs.headD .leaf) ds
            else some ([], ds, cur.headD dflt)) with
     | none => none
     | some (e1, ds, v) =>
       match encodeFields σ fuel env rest (idx + 1) (if opt then oi + 1 else oi) mask pres prevPres cur.tail new.tail subs.tail ds with
       | none => none
       | some (e2, ds, vs) => some (e1 ++ e2, ds, v :: vs)) := by
  simp only [encodeFields, actualPrev]
  rfl

theorem writeFields_cons (C : Ctx) (fuel : Nat) (env : List (String × Node)) (opt : Bool) (n : Node)
    (rest : List (Bool × Node)) (idx oi mask pres : Nat) (f : AS) (fs : List AS) (s : WSt) :
    writeFields C (fuel + 1) env ((opt, n) :: rest) idx oi mask pres (f :: fs) s =
    (match (if mask.testBit idx && (!opt || pres.testBit oi) then writeNode C fuel env n f s else some (.leaf, f, s)) with
     | none => none
     | some (sub, f', s) =>
       match writeFields C fuel env rest (idx + 1) (if opt then oi + 1 else oi) mask pres fs s with
       | none => none
       | some (subs, fs'', s) => some (sub :: subs, f' :: fs'', s)) := by
  simp only [writeFields]
  rfl

theorem visFields_cons (C : Ctx) (fds : List Field) (oi p : Nat) (a : AS) (as : List AS) :
    visFields C fds oi p (a :: as) =
    (if fdOpt fds && !p.testBit oi then (match a with | .prim v => primZero v | _ => St.oneof 0 none) else vis C a) ::
      visFields C fds.tail (if fdOpt fds then oi + 1 else oi) p as := by
  simp only [visFields, fdOpt]
  rfl

theorem fields_step (C : Ctx) (fuel : Nat) (hn : WNode C fuel) (hf : WFields C fuel) : WFields C (fuel + 1) := by
  intro env fields fds idx oi mask p rp rfs fs subs fs' s s' ds evs ds' effs hw henc hflags hlen henv hd hH
  cases fields with
  | nil =>
    have : fs = [] := by simpa using hlen.symm
    subst this
    simp only [writeFields, Option.some.injEq, Prod.mk.injEq] at hw
    obtain ⟨_, rfl, rfl⟩ := hw
    simp only [encodeFields, Option.some.injEq, Prod.mk.injEq] at henc
    obtain ⟨_, rfl, rfl⟩ := henc
    exact ⟨by simp [ShowsFields], by simp [QuietFields], hd⟩
  | cons on rest =>
    obtain ⟨opt, n⟩ := on
    cases fs with
    | nil => simp at hlen
    | cons f fs1 =>
      simp only [FlagsOk] at hflags
      obtain ⟨hopt, hnok, hflags'⟩ := hflags
      simp only [FieldsH] at hH
      obtain ⟨hH1, hH2⟩ := hH
      rw [writeFields_cons] at hw
      rw [visFields_cons, encodeFields_cons, ← hopt] at henc
      simp only [List.tail_cons] at henc
      by_cases hcond : (mask.testBit idx && (!opt || p.testBit oi)) = true
      · -- the field is encoded
        have hcond' := hcond
        simp only [Bool.and_eq_true] at hcond'
        obtain ⟨hmask, hpres⟩ := hcond'
        have hnabs : (opt && !p.testBit oi) = false := by
          cases opt <;> simp_all
        rw [if_pos hcond] at hw henc
        simp only [hnabs, Bool.false_eq_true, if_false, List.headD_cons] at henc
        cases hw1 : writeNode C fuel env n f s with
        | none => simp [hw1] at hw
        | some r1 =>
          obtain ⟨sub, f', s1⟩ := r1
          simp only [hw1] at hw
          cases hw2 : writeFields C fuel env rest (idx + 1) (if opt = true then oi + 1 else oi) mask p fs1 s1 with
          | none => simp [hw2] at hw
          | some r2 =>
            obtain ⟨subs2, fs2, s2⟩ := r2
            simp only [hw2, Option.some.injEq, Prod.mk.injEq] at hw
            obtain ⟨rfl, rfl, rfl⟩ := hw
            simp only [List.headD_cons, List.tail_cons] at henc
            cases he1 : encodeNode C.σ fuel env n (actualPrev C.σ opt n rp oi rfs) (vis C f) sub ds with
            | none => simp [he1] at henc
            | some q1 =>
              obtain ⟨ev1, ds1, v1⟩ := q1
              simp only [he1] at henc
              cases he2 : encodeFields C.σ fuel env rest (idx + 1) (if opt = true then oi + 1 else oi) mask p rp rfs.tail
                  (visFields C fds.tail (if opt = true then oi + 1 else oi) p fs1) subs2 ds1 with
              | none => simp [he2] at henc
              | some q2 =>
                obtain ⟨ev2, ds2, vs2⟩ := q2
                simp only [he2, Option.some.injEq, Prod.mk.injEq] at henc
                obtain ⟨_, rfl, rfl⟩ := henc
                have hfield : Shows C f' v1 ∧ Quiet C f' ∧ DictOk C s1.wd ds1.tdict := by
                  by_cases hprim : isPrimNode n = true
                  · obtain ⟨col, pp, d, rfl⟩ := isPrimNode_true n hprim
                    obtain ⟨a1, a2, a3, a4⟩ := wnode_prim C fuel env col pp d f s sub f' s1 _ ds ev1 ds1 v1 hw1 he1
                    subst a3
                    rw [a4]
                    exact ⟨a1, a2, hd⟩
                  · have hprim : isPrimNode n = false := by simpa using hprim
                    obtain ⟨Ro, hsnd, hcompat⟩ := (hH1 hpres).1 hmask
                    exact hn env n f s sub f' s1 Ro _ ds ev1 ds1 v1 hw1 he1 (hcompat hprim) hsnd hnok henv hd
                obtain ⟨a1, a2, a3⟩ := hfield
                obtain ⟨g1, g2, g3⟩ := hf env rest fds.tail (idx + 1) _ mask p rp rfs.tail fs1 subs2 fs2 s1 s2 ds1 ev2 ds2 vs2
                  hw2 he2 hflags' (by simpa using hlen) henv a3 hH2
                refine ⟨?_, ?_, g3⟩
                · simp only [ShowsFields]
                  refine ⟨v1, vs2, rfl, fun _ => a1, ?_⟩
                  rw [← hopt]; exact g1
                · simp only [QuietFields]
                  refine ⟨fun _ => a2, ?_⟩
                  rw [← hopt]; exact g2
      · -- the field is not encoded: it stays as it is, the reader keeps its slot
        rw [if_neg hcond] at hw henc
        have hcond : (mask.testBit idx && (!opt || p.testBit oi)) = false := by simpa using hcond
        simp only at hw henc
        cases hw2 : writeFields C fuel env rest (idx + 1) (if opt = true then oi + 1 else oi) mask p fs1 s with
        | none => simp [hw2] at hw
        | some r2 =>
          obtain ⟨subs2, fs2, s2⟩ := r2
          simp only [hw2, Option.some.injEq, Prod.mk.injEq] at hw
          obtain ⟨rfl, rfl, rfl⟩ := hw
          simp only [List.tail_cons] at henc
          cases he2 : encodeFields C.σ fuel env rest (idx + 1) (if opt = true then oi + 1 else oi) mask p rp rfs.tail
              (visFields C fds.tail (if opt = true then oi + 1 else oi) p fs1) subs2 ds with
          | none => simp [he2] at henc
          | some q2 =>
            obtain ⟨ev2, ds2, vs2⟩ := q2
            simp only [he2, Option.some.injEq, Prod.mk.injEq] at henc
            obtain ⟨_, rfl, rfl⟩ := henc
            obtain ⟨g1, g2, g3⟩ := hf env rest fds.tail (idx + 1) _ mask p rp rfs.tail fs1 subs2 fs2 s s2 ds ev2 ds2 vs2
              hw2 he2 hflags' (by simpa using hlen) henv hd hH2
            have hunm : (!opt || p.testBit oi) = true → mask.testBit idx = false := by
              intro hp
              simpa [hp] using hcond
            refine ⟨?_, ?_, g3⟩
            · simp only [ShowsFields]
              refine ⟨rfs.headD dflt, vs2, rfl, fun hp => ?_, ?_⟩
              · rw [← hopt] at hp
                exact ((hH1 hp).2 (hunm hp)).1
              · rw [← hopt]; exact g1
            · simp only [QuietFields]
              refine ⟨fun hp => ?_, ?_⟩
              · rw [← hopt] at hp
                exact ((hH1 hp).2 (hunm hp)).2
              · rw [← hopt]; exact g2

/-! ## dictionaries -/

theorem find?_map_key {α} (f : String × α → String × α) (hf : ∀ p, (f p).1 = p.1) (m : String) :
    ∀ (d : List (String × α)), (d.map f).find? (fun p => decide (p.1 = m)) = (d.find? (fun p => decide (p.1 = m))).map f
  | [] => by simp
  | x :: xs => by
    simp only [List.map_cons, List.find?_cons, hf x]
    by_cases hx : x.1 = m
    · simp [hx]
    · simp only [hx, decide_false]
      exact find?_map_key f hf m xs

theorem lookupDict_setDict_self {α} (d : List (String × List α)) (n : String) (v : List α) :
    lookupDict (setDict d n v) n = v := by
  unfold setDict lookupDict
  by_cases h : d.any (·.1 = n) = true
  · simp only [h, if_true]
    rw [find?_map_key _ (fun p => by by_cases hp : p.1 = n <;> simp [hp]) n d]
    obtain ⟨p, hp, hpn⟩ := List.any_eq_true.mp h
    cases hf : d.find? (fun p => decide (p.1 = n)) with
    | none =>
      have := List.find?_eq_none.mp hf p hp
      simp at hpn
      simp [hpn] at this
    | some q =>
      have hq := List.find?_some hf
      simp at hq
      simp [hq]
  · simp [h]

theorem lookupDict_setDict_ne {α} (d : List (String × List α)) (n m : String) (v : List α) (hne : m ≠ n) :
    lookupDict (setDict d n v) m = lookupDict d m := by
  unfold setDict lookupDict
  by_cases h : d.any (·.1 = n) = true
  · simp only [h, if_true]
    rw [find?_map_key _ (fun p => by by_cases hp : p.1 = n <;> simp [hp]) m d]
    cases hf : d.find? (fun p => decide (p.1 = m)) with
    | none => simp
    | some q =>
      have hq := List.find?_some hf
      simp at hq
      have : ¬ q.1 = n := by rw [hq]; exact hne
      simp [this]
  · have hm : ¬ (n = m) := fun e => hne e.symm
    simp [h, hm]

theorem dictEntries_get (C : Ctx) : ∀ (ws : List AS) (ts : List (Option St)) (r : Nat) (w : AS),
    DictEntries C ws ts → ws[r]? = some w → ∃ v, ts[r]? = some (some v) ∧ Shows C w v
  | [], _, _, _, _, h => by simp at h
  | w0 :: ws, [], _, _, hd, _ => by simp [DictEntries] at hd
  | w0 :: ws, none :: ts, _, _, hd, _ => by simp [DictEntries] at hd
  | w0 :: ws, some v0 :: ts, 0, w, hd, h => by
    simp only [List.getElem?_cons_zero, Option.some.injEq] at h
    subst h
    simp only [DictEntries] at hd
    exact ⟨v0, by simp, hd.1⟩
  | w0 :: ws, some v0 :: ts, r + 1, w, hd, h => by
    simp only [List.getElem?_cons_succ] at h
    simp only [DictEntries] at hd
    simpa using dictEntries_get C ws ts r w hd.2 h

theorem dictEntries_append (C : Ctx) : ∀ (ws : List AS) (ts : List (Option St)) (w : AS) (v : St),
    DictEntries C ws ts → Shows C w v → DictEntries C (ws ++ [w]) (ts ++ [some v])
  | [], [], w, v, _, h => by simp [DictEntries, h]
  | [], _ :: _, _, _, hd, _ => by simp [DictEntries] at hd
  | _ :: _, [], _, _, hd, _ => by simp [DictEntries] at hd
  | _ :: _, none :: _, _, _, hd, _ => by simp [DictEntries] at hd
  | w0 :: ws, some v0 :: ts, w, v, hd, h => by
    simp only [DictEntries, List.cons_append] at hd ⊢
    exact ⟨hd.1, dictEntries_append C ws ts w v hd.2 h⟩

/-- a new entry on both sides (`dict.Add` / the decoder's append) -/
theorem dictRel_append (C : Ctx) (ws : List AS) (ts : List (Option St)) (w : AS) (v : St)
    (h : DictRel C ws ts) (hs : Shows C w v) :
    DictRel C (ws ++ [w]) ((if ts.isEmpty then [none] else ts) ++ [some v]) := by
  rcases h with ⟨rfl, rfl⟩ | ⟨ts', rfl, hd⟩
  · exact Or.inr ⟨[some v], by simp, by simp [DictEntries, hs]⟩
  · exact Or.inr ⟨ts' ++ [some v], by simp, dictEntries_append C ws ts' w v hd hs⟩

theorem dictOk_add (C : Ctx) (wd : WD) (td : List (String × List (Option St))) (dn : String) (w : AS) (v : St)
    (h : DictOk C wd td) (hs : Shows C w v) :
    DictOk C (setDict wd dn (lookupDict wd dn ++ [w]))
      (setDict td dn ((if (lookupDict td dn).isEmpty then [none] else lookupDict td dn) ++ [some v])) := by
  intro m
  by_cases hm : m = dn
  · subst hm
    rw [lookupDict_setDict_self, lookupDict_setDict_self]
    exact dictRel_append C _ _ w v (h m) hs
  · rw [lookupDict_setDict_ne _ _ _ _ hm, lookupDict_setDict_ne _ _ _ _ hm]
    exact h m

/-- a dictionary hit: the entry the encoder refers to shows the value that was looked up -/
theorem dictRel_hit (C : Ctx) (ws : List AS) (ts : List (Option St)) (r : Nat) (w : AS) (v : St)
    (h : DictRel C ws ts) (hw : ws[r]? = some w) (ht : ts[r + 1]? = some (some v)) : Shows C w v := by
  rcases h with ⟨rfl, _⟩ | ⟨ts', rfl, hd⟩
  · simp at hw
  · obtain ⟨v', hv', hs⟩ := dictEntries_get C ws ts' r w hd hw
    simp only [List.getElem?_cons_succ] at ht
    rw [hv'] at ht
    simp only [Option.some.injEq] at ht
    subst ht
    exact hs

theorem findIdx?_some_get {α} (p : α → Bool) : ∀ (l : List α) (r : Nat), l.findIdx? p = some r →
    ∃ x, l[r]? = some x ∧ p x = true
  | [], _, h => by simp at h
  | x :: xs, r, h => by
    simp only [List.findIdx?_cons] at h
    by_cases hx : p x = true
    · simp only [hx, if_true, Option.some.injEq] at h
      subst h
      exact ⟨x, by simp, hx⟩
    · simp only [hx, Bool.false_eq_true, if_false, Option.map_eq_some_iff] at h
      obtain ⟨r', hr', rfl⟩ := h
      obtain ⟨y, hy, hpy⟩ := findIdx?_some_get p xs r' hr'
      exact ⟨y, by simpa using hy, hpy⟩

/-! ## structs -/

theorem fieldsH_of_snd (C : Ctx) (m mask p : Nat) (known : Bool) (rp' rp : Nat) :
    ∀ (fields : List (Bool × Node)) (fds : List Field) (idx oi : Nat) (rfs' rfs : List St) (fs : List AS),
    FlagsOk C fds fields → (known = true → rp' = rp ∧ rfs' = rfs) →
    (∀ j, idx ≤ j → j < idx + fields.length → m.testBit j = true → mask.testBit j = true) →
    SndFields C fds idx oi m p known rp' fs rfs' → FieldsH C fields idx oi mask p rp rfs fs
  | [], _, _, _, _, _, _, _, _, _, _ => by simp [FieldsH]
  | _ :: _, _, _, _, _, _, [], _, _, _, _ => by simp [FieldsH]
  | (opt, n) :: rest, fds, idx, oi, rfs', rfs, f :: fs, hfl, hk, hm, hs => by
    simp only [FlagsOk] at hfl
    obtain ⟨hopt, _, hfl'⟩ := hfl
    simp only [SndFields, SndFieldsG, Bool.false_eq_true, false_or] at hs
    simp only [FieldsH]
    rw [← hopt] at hs
    refine ⟨fun hp => ?_, ?_⟩
    · have h1 := hs.1 hp
      refine ⟨fun hmask => ?_, fun hmask => ?_⟩
      · by_cases hmb : m.testBit idx = true
        · have hsnd := h1.1 hmb
          by_cases hprim : isPrimAS f = true
          · obtain ⟨v, rfl⟩ := isPrimAS_true f hprim
            exact ⟨none, by simp [Snd, SndG], fun _ => compat_none _⟩
          · have hprim : isPrimAS f = false := by simpa using hprim
            refine ⟨_, hsnd, fun hpn => ?_⟩
            intro r hr
            unfold fieldPrev at hr
            rw [hprim] at hr
            split at hr
            · rename_i hc
              simp only [Option.some.injEq] at hr
              simp only [Bool.and_eq_true, Bool.not_eq_true', Bool.and_eq_false_imp] at hc
              obtain ⟨hkn, hc⟩ := hc
              obtain ⟨e1, e2⟩ := hk hkn
              subst e1 e2
              unfold actualPrev
              rw [hpn]
              have : (opt && !false && !rp'.testBit oi) = false := by
                cases opt <;> simp_all
              rw [this]
              simpa using hr.symm
            · simp at hr
        · have hmb : m.testBit idx = false := by simpa using hmb
          obtain ⟨⟨hkn, ho, hsh⟩, hq, hl⟩ := h1.2 hmb
          obtain ⟨e1, e2⟩ := hk hkn
          subst e1 e2
          refine ⟨some (rfs'.headD dflt), snd_of_sync C false f _ hsh hq hl, fun hpn => ?_⟩
          intro r hr
          simp only [Option.some.injEq] at hr
          unfold actualPrev
          have : (opt && !isPrimNode n && !rp'.testBit oi) = false := by
            cases hopt2 : opt
            · simp
            · simp [ho hopt2]
          rw [this]
          simpa using hr.symm
      · have hmb : m.testBit idx = false := by
          by_cases hmb : m.testBit idx = true
          · have := hm idx (Nat.le_refl _) (by simp) hmb
            rw [hmask] at this
            simp at this
          · simpa using hmb
        obtain ⟨⟨hkn, _, hsh⟩, hq, _⟩ := h1.2 hmb
        obtain ⟨_, e2⟩ := hk hkn
        subst e2
        exact ⟨hsh, hq⟩
    · exact fieldsH_of_snd C m mask p known rp' rp rest fds.tail (idx + 1) _ rfs'.tail rfs.tail fs hfl'
        (fun hkn => ⟨(hk hkn).1, by rw [(hk hkn).2]⟩)
        (fun j hj1 hj2 => hm j (by omega) (by simp; omega)) hs.2.2

theorem envOk_cons (C : Ctx) (env : List (String × Node)) (name : String) (n : Node) (henv : EnvOk C env)
    (hn : NodeOk C n) : EnvOk C ((name, n) :: env) := by
  intro p hp
  simp only [List.mem_cons] at hp
  rcases hp with rfl | hp
  · exact hn
  · exact henv p hp

theorem compat_struct (Ropt : Option St) (R : St) (hc : Compat Ropt R) :
    Ropt.isSome = true → optPres Ropt = structPres R ∧ optFields Ropt = structFields R := by
  intro h
  cases Ropt with
  | none => simp at h
  | some r =>
    have := hc r rfl
    subst this
    exact ⟨rfl, rfl⟩

/-- the fields of a struct in full-encoding form: `fieldMask = (mask | forced) & keep` -/
theorem struct_core (C : Ctx) (fuel : Nat) (hf : WFields C fuel) (env : List (String × Node)) (fields : List (Bool × Node))
    (fds : List Field) (m0 forced kept p : Nat) (fs0 fsv : List AS) (s0 s1 : WSt) (subs : List Mk) (fs' : List AS)
    (Ropt : Option St) (R : St) (ds ds1 : DS) (evs : List Ev) (effs : List St)
    (hw : writeFields C fuel env fields 0 0 ((m0 ||| forced) &&& (2 ^ kept - 1)) p fs0 s0 = some (subs, fs', s1))
    (hvis : visFields C fds 0 p fs0 = visFields C fds 0 p fsv)
    (henc : encodeFields C.σ fuel env fields 0 0 ((m0 ||| forced) &&& (2 ^ kept - 1)) p (structPres R) (structFields R)
      (visFields C fds 0 p fsv) subs ds = some (evs, ds1, effs))
    (hflags : FlagsOk C fds fields) (hlen : fields.length = fs0.length) (hkept : kept = fields.length)
    (henv : EnvOk C env) (hd : DictOk C s0.wd ds.tdict) (hc : Compat Ropt R)
    (hs : SndFields C fds 0 0 m0 p Ropt.isSome (optPres Ropt) fs0 (optFields Ropt)) :
    ShowsFields C fds 0 p fs' effs ∧ QuietFields C fds 0 p fs' ∧ DictOk C s1.wd ds1.tdict := by
  rw [← hvis] at henc
  refine hf env fields fds 0 0 _ p (structPres R) (structFields R) fs0 subs fs' s0 s1 ds evs ds1 effs hw henc hflags hlen
    henv hd ?_
  refine fieldsH_of_snd C m0 _ p Ropt.isSome (optPres Ropt) (structPres R) fields fds 0 0 (optFields Ropt) (structFields R) fs0
    hflags (compat_struct Ropt R hc) (fun j _ hj hmj => ?_) hs
  simp only [Nat.testBit_and, Nat.testBit_or, hmj, Bool.true_or, Bool.true_and, Nat.testBit_two_pow_sub_one]
  simp; omega

set_option linter.unusedVariables false in
theorem struct_step (C : Ctx) (fuel : Nat) (hf : WFields C fuel) :
  ∀ env col name dict kept optCount fields W s mk W' s' Ropt R ds evs ds' eff,
    writeNode C (fuel+1) env (.struct col name dict kept optCount fields) W s = some (mk, W', s') →
    encodeNode C.σ (fuel+1) env (.struct col name dict kept optCount fields) R (vis C W) mk ds = some (evs, ds', eff) →
    Compat Ropt R → Snd C W Ropt → NodeOk C (.struct col name dict kept optCount fields) → EnvOk C env → DictOk C s.wd ds.tdict →
    Shows C W' eff ∧ Quiet C W' ∧ DictOk C s'.wd ds'.tdict := by
  intro env col name dict kept optCount fields W s mk W' s' Ropt R ds evs ds' eff hw henc hc hs hok henv hd
  have henv' : EnvOk C ((name, Node.struct col name dict kept optCount fields) :: env) := envOk_cons C env name _ henv hok
  simp only [NodeOk] at hok
  obtain ⟨hdict, hkept, hflags⟩ := hok
  cases W with
  | struct n m p fr fs =>
    cases dict with
    | none =>
      simp only [writeNode] at hw
      simp only [vis, encodeNode] at henc
      split at hw
      · simp at hw
      · rename_i hbad
        have hn : n = name := by
          by_cases h : n = name
          · exact h
          · exact absurd (Or.inl h) hbad
        have hlen : fields.length = fs.length := by
          by_cases h : fields.length = fs.length
          · exact h
          · exact absurd (Or.inr h) hbad
        subst hn
        split at hw
        · simp at hw
        · rename_i subs fs' s1 hw1
          generalize hfm : ((m ||| if s.force.contains col = true then 2 ^ kept - 1 else 0) &&& 2 ^ kept - 1) = fm at hw hw1
          simp only [Option.some.injEq, Prod.mk.injEq] at hw
          obtain ⟨rfl, rfl, rfl⟩ := hw
          simp only at henc
          split at henc
          · split at henc
            · split at henc
              · simp at henc
              · rename_i ev1 ds1 effs he1
                simp only [Option.some.injEq, Prod.mk.injEq] at henc
                obtain ⟨_, rfl, rfl⟩ := henc
                have hnd : C.isDictName n = false := by simpa using hdict.symm
                simp only [Snd, SndG, hnd, Bool.false_eq_true, false_and, false_or, true_and] at hs
                subst hfm
                obtain ⟨g1, g2, g3⟩ := struct_core C fuel hf _ fields (fieldsOf C n) m _ kept p fs fs _ s1 subs fs'
                  Ropt R ds ds1 ev1 effs hw1 rfl he1 hflags hlen hkept henv' hd hc hs
                exact ⟨by simp only [Shows]; exact ⟨effs, rfl, g1⟩, by simp only [Quiet]; exact Or.inr ⟨trivial, g2⟩, g3⟩
            · simp at henc
          · simp at henc
    | some dn =>
      have hisd : C.isDictName name = true := by simpa using hdict.symm
      simp only [writeNode] at hw
      simp only [vis, encodeNode] at henc
      split at hw
      · simp at hw
      · rename_i hbad
        have hn : n = name := by
          by_cases h : n = name
          · exact h
          · exact absurd (Or.inl h) hbad
        have hlen : fields.length = fs.length := by
          by_cases h : fields.length = fs.length
          · exact h
          · exact absurd (Or.inr h) hbad
        subst hn
        split at hw
        · -- a dictionary hit: RefNum
          rename_i r hfind
          simp only [Option.some.injEq, Prod.mk.injEq] at hw
          obtain ⟨rfl, rfl, rfl⟩ := hw
          simp only at henc
          split at henc
          · split at henc
            · split at henc
              · rename_i v hv
                simp only [Option.some.injEq, Prod.mk.injEq] at henc
                obtain ⟨_, rfl, rfl⟩ := henc
                obtain ⟨w0, hw0, heq⟩ := findIdx?_some_get _ _ _ hfind
                have hsh := dictRel_hit C _ _ r w0 v (hd dn) hw0 hv
                have hsh2 := shows_setUnmodRec C _ v (shows_of_eqv C w0 _ v heq hsh)
                exact ⟨hsh2, (quiet_setUnmodRec C _ none (snd_lax C false _ _ _ hs)).1, hd⟩
              · simp at henc
            · simp at henc
          · simp at henc
        · -- a new entry: encoded in full
          split at hw
          · simp at hw
          · rename_i mk1 w1 s1 hfull
            simp only [Option.some.injEq, Prod.mk.injEq] at hw
            obtain ⟨rfl, rfl, rfl⟩ := hw
            split at hfull
            · simp at hfull
            · rename_i subs fs' s2 hw1
              generalize hfm : ((2 ^ fs.length - 1 ||| if s.force.contains col = true then 2 ^ kept - 1 else 0) &&& 2 ^ kept - 1) = fm at hfull hw1
              simp only [Option.some.injEq, Prod.mk.injEq] at hfull
              obtain ⟨rfl, rfl, rfl⟩ := hfull
              simp only at henc
              split at henc
              · split at henc
                · split at henc
                  · simp at henc
                  · rename_i ev1 ds1 effs he1
                    simp only [Option.some.injEq, Prod.mk.injEq] at henc
                    obtain ⟨_, rfl, rfl⟩ := henc
                    subst hfm
                    have hsf : SndFields C (fieldsOf C n) 0 0 (2 ^ fs.length - 1) p Ropt.isSome (optPres Ropt) (setModRecList fs) (optFields Ropt) :=
                      sndFields_setModRec C false (fieldsOf C n) 0 0 (2 ^ fs.length - 1) p fs _ _ _
                        (fun j hj => by simp [Nat.testBit_two_pow_sub_one]; omega)
                    obtain ⟨g1, g2, g3⟩ := struct_core C fuel hf _ fields (fieldsOf C n) (2 ^ fs.length - 1) _ kept p
                      (setModRecList fs) fs _ s2 subs fs' Ropt R ds ds1 ev1 effs hw1 (visFields_setModRec C _ 0 p fs) he1 hflags
                      (by rw [setModRecList_length]; exact hlen) hkept henv' hd hc hsf
                    have hshow : Shows C (AS.struct n 0 p fr fs') (St.struct p effs) := by
                      simp only [Shows]; exact ⟨effs, rfl, g1⟩
                    refine ⟨hshow, by simp only [Quiet]; exact Or.inr ⟨trivial, g2⟩, ?_⟩
                    exact dictOk_add C s2.wd ds1.tdict dn _ _ g3 hshow
                · simp at henc
              · simp at henc
  | _ => simp [writeNode] at hw

/-! ## oneof -/

theorem visAlt_get (C : Ctx) : ∀ (i : Nat) (as : List AS) (a : AS), as[i]? = some a → visAlt C i as = some (vis C a)
  | _, [], _, h => by simp at h
  | 0, x :: xs, a, h => by simp at h; subst h; simp [visAlt]
  | i + 1, x :: xs, a, h => by simp at h; simp only [visAlt]; exact visAlt_get C i xs a h

theorem sndAlt_get (C : Ctx) : ∀ (i : Nat) (as : List AS) (a : AS) (R : Option St), as[i]? = some a → SndAlt C i as R → Snd C a R
  | _, [], _, _, h, _ => by simp at h
  | 0, x :: xs, a, R, h, hs => by simp at h; subst h; simpa [SndAlt, SndAltG] using hs
  | i + 1, x :: xs, a, R, h, hs => by simp at h; simp only [SndAlt, SndAltG] at hs; exact sndAlt_get C i xs a R h hs

theorem nodesOk_get (C : Ctx) : ∀ (i : Nat) (ns : List Node) (n : Node), ns[i]? = some n → NodesOk C ns → NodeOk C n
  | _, [], _, h, _ => by simp at h
  | 0, x :: xs, n, h, hs => by simp at h; subst h; simp only [NodesOk] at hs; exact hs.1
  | i + 1, x :: xs, n, h, hs => by simp at h; simp only [NodesOk] at hs; exact nodesOk_get C i xs n h hs.2

theorem showsAlt_set_self (C : Ctx) : ∀ (i : Nat) (as : List AS) (a a' : AS) (r : St), as[i]? = some a → Shows C a' r →
    ShowsAlt C i (as.set i a') r
  | _, [], _, _, _, h, _ => by simp at h
  | 0, x :: xs, a, a', r, h, hs => by simpa [ShowsAlt] using hs
  | i + 1, x :: xs, a, a', r, h, hs => by
    simp at h; simp only [List.set_cons_succ, ShowsAlt]; exact showsAlt_set_self C i xs a a' r h hs

theorem quietAlt_set_self (C : Ctx) : ∀ (i : Nat) (as : List AS) (a a' : AS), as[i]? = some a → Quiet C a' →
    QuietAlt C i (as.set i a')
  | _, [], _, _, h, _ => by simp at h
  | 0, x :: xs, a, a', h, hs => by simpa [QuietAlt] using hs
  | i + 1, x :: xs, a, a', h, hs => by
    simp at h; simp only [List.set_cons_succ, QuietAlt]; exact quietAlt_set_self C i xs a a' h hs

set_option linter.unusedVariables false in
theorem oneof_step (C : Ctx) (fuel : Nat) (hn : WNode C fuel) :
  ∀ env col name kept alts W s mk W' s' Ropt R ds evs ds' eff,
    writeNode C (fuel+1) env (.oneof col name kept alts) W s = some (mk, W', s') →
    encodeNode C.σ (fuel+1) env (.oneof col name kept alts) R (vis C W) mk ds = some (evs, ds', eff) →
    Compat Ropt R → Snd C W Ropt → NodeOk C (.oneof col name kept alts) → EnvOk C env → DictOk C s.wd ds.tdict →
    Shows C W' eff ∧ Quiet C W' ∧ DictOk C s'.wd ds'.tdict := by
  intro env col name kept alts W s mk W' s' Ropt R ds evs ds' eff hw henc hc hs hok henv hd
  have henv' : EnvOk C ((name, Node.oneof col name kept alts) :: env) := envOk_cons C env name _ henv hok
  simp only [NodeOk] at hok
  cases W with
  | oneof n t as =>
    simp only [writeNode] at hw
    simp only [vis] at henc
    split at hw
    · simp at hw
    · by_cases hgt : t > kept
      · -- an alternative the column tree does not have: the encoder refuses
        simp only [hgt, if_true] at hw
        simp only [Option.some.injEq, Prod.mk.injEq] at hw
        obtain ⟨rfl, rfl, rfl⟩ := hw
        have ht0 : t ≠ 0 := by omega
        simp only [ht0, if_false, encodeNode] at henc
        split at henc
        · rename_i hcond
          omega
        · simp at henc
      · simp only [hgt, if_false] at hw
        by_cases ht : t = 0
        · subst ht
          simp only [if_true, Option.some.injEq, Prod.mk.injEq] at hw
          obtain ⟨rfl, rfl, rfl⟩ := hw
          simp only [if_true, encodeNode] at henc
          split at henc
          · simp only [if_true, Option.some.injEq, Prod.mk.injEq] at henc
            obtain ⟨_, rfl, rfl⟩ := henc
            exact ⟨by simp [Shows], by simp [Quiet], hd⟩
          · simp at henc
        · simp only [ht, if_false] at hw
          split at hw
          · rename_i an a han ha
            split at hw
            · simp at hw
            · rename_i sub a' s1 hw1
              simp only [Option.some.injEq, Prod.mk.injEq, setNth] at hw
              obtain ⟨rfl, rfl, rfl⟩ := hw
              simp only [ht, if_false, encodeNode, visAlt_get C (t - 1) as a ha] at henc
              split at henc
              · simp only [ht, if_false, han] at henc
                split at henc
                · simp at henc
                · rename_i ev1 ds1 e he1
                  simp only [Option.some.injEq, Prod.mk.injEq] at henc
                  obtain ⟨_, rfl, rfl⟩ := henc
                  have hsa : Snd C a (altOf t Ropt) := by
                    simp only [Snd, SndG] at hs
                    rcases hs with hs | hs
                    · exact absurd hs ht
                    · exact sndAlt_get C (t - 1) as a _ ha hs
                  have hca : Compat (altOf t Ropt) (oneofPrev C.σ an t R) := by
                    intro r hr
                    cases Ropt with
                    | none => simp [altOf] at hr
                    | some r0 =>
                      have := hc r0 rfl
                      subst this
                      cases r0 with
                      | oneof t' v =>
                        cases v with
                        | none => simp [altOf] at hr
                        | some rv =>
                          simp only [altOf] at hr
                          split at hr
                          · rename_i htt
                            simp only [Option.some.injEq] at hr
                            subst hr htt
                            simp [oneofPrev]
                          · simp at hr
                      | _ => simp [altOf] at hr
                  obtain ⟨g1, g2, g3⟩ := hn _ an a s sub a' s1 (altOf t Ropt) _ ds ev1 ds1 e hw1 he1 hca hsa
                    (nodesOk_get C (t - 1) alts an han hok) henv' hd
                  refine ⟨?_, ?_, g3⟩
                  · simp only [Shows]
                    exact Or.inr ⟨ht, e, rfl, showsAlt_set_self C (t - 1) as a a' e ha g1⟩
                  · simp only [Quiet]
                    exact Or.inr (quietAlt_set_self C (t - 1) as a a' ha g2)
              · simp at henc
          · simp at hw
  | _ => simp [writeNode] at hw

/-! ## arrays and multimaps -/

theorem compat_elems (Ropt : Option St) (R : St) (hc : Compat Ropt R) : optElems Ropt = [] ∨ optElems Ropt = arrElems R := by
  cases Ropt with
  | none => left; rfl
  | some r => right; rw [hc r rfl]; rfl

theorem compat_pairs (Ropt : Option St) (R : St) (hc : Compat Ropt R) : optPairs Ropt = [] ∨ optPairs Ropt = mmapPairs R := by
  cases Ropt with
  | none => left; rfl
  | some r => right; rw [hc r rfl]; rfl

set_option linter.unusedVariables false in
theorem arr_step (C : Ctx) (fuel : Nat) (he : WElems C fuel) :
  ∀ env col key ety elem W s mk W' s' Ropt R ds evs ds' eff,
    writeNode C (fuel+1) env (.arr col key ety elem) W s = some (mk, W', s') →
    encodeNode C.σ (fuel+1) env (.arr col key ety elem) R (vis C W) mk ds = some (evs, ds', eff) →
    Compat Ropt R → Snd C W Ropt → NodeOk C (.arr col key ety elem) → EnvOk C env → DictOk C s.wd ds.tdict →
    Shows C W' eff ∧ Quiet C W' ∧ DictOk C s'.wd ds'.tdict := by
  intro env col key ety elem W s mk W' s' Ropt R ds evs ds' eff hw henc hc hs hok henv hd
  have henv' : EnvOk C ((key, Node.arr col key ety elem) :: env) := envOk_cons C env key _ henv hok
  simp only [NodeOk] at hok
  cases W with
  | arr e es hid =>
    simp only [writeNode] at hw
    split at hw
    · simp at hw
    · rename_i subs es' s1 hw1
      simp only [Option.some.injEq, Prod.mk.injEq] at hw
      obtain ⟨rfl, rfl, rfl⟩ := hw
      simp only [vis, encodeNode] at henc
      split at henc
      · split at henc
        · simp at henc
        · rename_i ev1 ds1 effs he1
          simp only [Option.some.injEq, Prod.mk.injEq] at henc
          obtain ⟨_, rfl, rfl⟩ := henc
          simp only [Snd, SndG] at hs
          obtain ⟨g1, g2, g3⟩ := he _ elem ety es (arrElems R) (optElems Ropt) subs es' s s1 ds ev1 ds1 effs hw1 he1 hok henv' hd hs
            (compat_elems Ropt R hc)
          exact ⟨by simp only [Shows]; exact ⟨effs, rfl, g1⟩, by simpa only [Quiet] using g2, g3⟩
      · simp at henc
  | _ => simp [writeNode] at hw

theorem writeVals_zero (C : Ctx) : ∀ (fuel : Nat) (env : List (String × Node)) (v : Node) (idx : Nat) (ps : List (AS × AS))
    (s : WSt) (subs : List Mk) (ps' : List (AS × AS)) (s' : WSt),
    writeVals C fuel env v 0 idx ps s = some (subs, ps', s') → ps' = ps ∧ s' = s
  | 0, _, _, _, _, _, _, _, _, h => by simp [writeVals] at h
  | fuel + 1, env, v, idx, [], s, subs, ps', s', h => by
    simp only [writeVals, Option.some.injEq, Prod.mk.injEq] at h
    exact ⟨h.2.1.symm, h.2.2.symm⟩
  | fuel + 1, env, v, idx, (a, b) :: ps, s, subs, ps', s', h => by
    simp only [writeVals, Nat.zero_testBit, Bool.and_false, Bool.false_eq_true, if_false] at h
    split at h
    · simp at h
    · rename_i subs2 ps2 s2 h2
      simp only [Option.some.injEq, Prod.mk.injEq] at h
      obtain ⟨_, rfl, rfl⟩ := h
      obtain ⟨e1, e2⟩ := writeVals_zero C fuel env v (idx + 1) ps s subs2 ps2 s2 h2
      subst e1 e2
      exact ⟨rfl, rfl⟩

theorem sync_of_sndVals (C : Ctx) (vm : Nat) : ∀ (idx : Nat) (ps : List (AS × AS)) (old : List (St × St)),
    old.length = ps.length → (∀ j, idx ≤ j → j < idx + ps.length → vm.testBit j = false) → SndVals C vm idx ps old →
    ShowsPairs C ps old ∧ QuietPairs C ps
  | _, [], old, hl, _, _ => by
    have : old = [] := by simpa using hl
    subst this
    simp [ShowsPairs, QuietPairs]
  | idx, (a, b) :: ps, old, hl, hb, hs => by
    simp only [SndVals] at hs
    obtain ⟨⟨rk, rv, rs', e, hsa, hqa, _, hbb⟩, hs2⟩ := hs
    subst e
    have h0 := hb idx (Nat.le_refl _) (by simp)
    simp only [h0, Bool.false_eq_true, if_false] at hbb
    obtain ⟨g1, g2⟩ := sync_of_sndVals C vm (idx + 1) ps rs' (by simpa using hl)
      (fun j hj1 hj2 => hb j (by omega) (by simp; omega)) (by simpa using hs2)
    exact ⟨by simp only [ShowsPairs]; exact ⟨rk, rv, rs', rfl, hsa, hbb.1, g1⟩,
      by simp only [QuietPairs]; exact ⟨hqa, hbb.2.1, g2⟩⟩

theorem mod_two_pow_63_testBit (vm j : Nat) (hj : j < 63) : (vm % 2 ^ 63).testBit j = vm.testBit j := by
  rw [Nat.testBit_mod_two_pow]; simp [hj]

set_option linter.unusedVariables false in
theorem mmap_step (C : Ctx) (fuel : Nat) (hp : WPairs C fuel) (hv : WVals C fuel) :
  ∀ env col name kty vty k v W s mk W' s' Ropt R ds evs ds' eff,
    writeNode C (fuel+1) env (.mmap col name kty vty k v) W s = some (mk, W', s') →
    encodeNode C.σ (fuel+1) env (.mmap col name kty vty k v) R (vis C W) mk ds = some (evs, ds', eff) →
    Compat Ropt R → Snd C W Ropt → NodeOk C (.mmap col name kty vty k v) → EnvOk C env → DictOk C s.wd ds.tdict →
    Shows C W' eff ∧ Quiet C W' ∧ DictOk C s'.wd ds'.tdict := by
  intro env col name kty vty k v W s mk W' s' Ropt R ds evs ds' eff hw henc hc hs hok henv hd
  have henv' : EnvOk C ((name, Node.mmap col name kty vty k v) :: env) := envOk_cons C env name _ henv hok
  simp only [NodeOk] at hok
  cases W with
  | mmap n ps hid km vm ml =>
    simp only [writeNode] at hw
    simp only [vis, encodeNode] at henc
    split at hw
    · simp at hw
    · split at hw
      · -- empty: full form with count 0, the marks stay
        rename_i hlen0
        have hps : ps = [] := List.eq_nil_of_length_eq_zero hlen0
        subst hps
        simp only [Option.some.injEq, Prod.mk.injEq] at hw
        obtain ⟨rfl, rfl, rfl⟩ := hw
        simp only [visPairs] at henc
        split at henc
        · cases fuel with
          | zero => simp [encodePairsFull] at henc
          | succ fuel =>
            simp only [List.length_nil, encodePairsFull] at henc
            simp only [Nat.lt_add_one, Nat.zero_lt_succ, if_true, show (0:Nat) < 1024 by decide, Option.some.injEq, Prod.mk.injEq] at henc
            obtain ⟨_, rfl, rfl⟩ := henc
            exact ⟨by simp [Shows, ShowsPairs], by simp [Quiet], hd⟩
        · simp at henc
      · rename_i hlen0
        have hne : ps ≠ [] := by intro e; subst e; simp at hlen0
        split at hw
        · -- values-only form
          rename_i hcond
          simp only [Bool.and_eq_true, Bool.not_eq_true', Bool.or_eq_false_iff, decide_eq_true_eq, decide_eq_false_iff_not,
            Decidable.not_not] at hcond
          obtain ⟨⟨hml, hkm⟩, hl63⟩ := hcond
          split at hw
          · simp at hw
          · rename_i subs ps' s1 hw1
            simp only [Option.some.injEq, Prod.mk.injEq] at hw
            obtain ⟨rfl, rfl, rfl⟩ := hw
            simp only [Snd, SndG] at hs
            rcases hs with hs | ⟨hf, _⟩ | ⟨_, _, _, _, hR, hlenR, hsv⟩
            · exact absurd hs hne
            · rcases hf with hf | hf | hf | hf
              · simp at hf
              · rw [hml] at hf; simp at hf
              · exact absurd hkm hf
              · omega
            · have hold : optPairs Ropt = mmapPairs R := by
                cases Ropt with
                | none => simp at hR
                | some r => rw [hc r rfl]; rfl
              rw [hold] at hlenR hsv
              by_cases hch : vm % 2 ^ 63 = 0
              · -- nothing changed: written as 0
                simp only [hch, if_true] at henc hw1
                obtain ⟨e1, e2⟩ := writeVals_zero C fuel _ v 0 ps s subs ps' s1 hw1
                subst e1 e2
                split at henc
                · simp only [Option.some.injEq, Prod.mk.injEq] at henc
                  obtain ⟨_, rfl, rfl⟩ := henc
                  obtain ⟨g1, g2⟩ := sync_of_sndVals C vm 0 _ (mmapPairs R) hlenR
                    (fun j _ hj => by
                      have := mod_two_pow_63_testBit vm j (by omega)
                      rw [hch] at this
                      simpa using this.symm) hsv
                  exact ⟨by simp only [Shows]; exact ⟨_, rfl, g1⟩, by simp only [Quiet]; exact Or.inr ⟨trivial, trivial, trivial, g2⟩, hd⟩
                · simp at henc
              · simp only [hch, if_false] at henc
                split at henc
                · split at henc
                  · split at henc
                    · simp at henc
                    · rename_i ev1 ds1 effs he1
                      simp only [Option.some.injEq, Prod.mk.injEq] at henc
                      obtain ⟨_, rfl, rfl⟩ := henc
                      obtain ⟨g1, g2, g3⟩ := hv _ v vm (vm % 2 ^ 63) 0 ps (mmapPairs R) subs ps' s s1 ds ev1 ds1 effs hw1
                        (by simpa using he1) hok.2 henv' hd hsv hlenR
                        (fun j _ hj => by
                          rw [mod_two_pow_63_testBit vm j (by omega)]
                          have : j < 64 := by omega
                          simp [this])
                      exact ⟨by simp only [Shows]; exact ⟨_, rfl, g1⟩, by simp only [Quiet]; exact Or.inr ⟨trivial, trivial, trivial, g2⟩, g3⟩
                  · simp at henc
                · simp at henc
        · -- full form
          split at hw
          · simp at hw
          · rename_i subs ps' s1 hw1
            simp only [Option.some.injEq, Prod.mk.injEq] at hw
            obtain ⟨rfl, rfl, rfl⟩ := hw
            simp only at henc
            split at henc
            · split at henc
              · split at henc
                · simp at henc
                · rename_i ev1 ds1 effs he1
                  simp only [Option.some.injEq, Prod.mk.injEq] at henc
                  obtain ⟨_, rfl, rfl⟩ := henc
                  have hsp := sndPairs_of_snd_mmap C false n ps hid km vm ml Ropt hs
                  obtain ⟨g1, g2, g3⟩ := hp _ k v kty vty ps (mmapPairs R) (optPairs Ropt) subs ps' s s1 ds ev1 ds1 effs hw1 he1
                    hok.1 hok.2 henv' hd hsp (compat_pairs Ropt R hc)
                  exact ⟨by simp only [Shows]; exact ⟨_, rfl, g1⟩, by simp only [Quiet]; exact Or.inr ⟨trivial, trivial, trivial, g2⟩, g3⟩
              · simp at henc
            · simp at henc
  | _ => simp [writeNode] at hw

/-! ## the induction -/

theorem node_step (C : Ctx) (fuel : Nat) (hn : WNode C fuel) (hf : WFields C fuel) (he : WElems C fuel)
    (hp : WPairs C fuel) (hv : WVals C fuel) : WNode C (fuel + 1) := by
  intro env n W s mk W' s' Ropt R ds evs ds' eff hw henc hc hs hok henv hd
  cases n with
  | prim col p d =>
    obtain ⟨a1, a2, a3, a4⟩ := wnode_prim C (fuel + 1) env col p d W s mk W' s' R ds evs ds' eff hw henc
    subst a3
    rw [a4]
    exact ⟨a1, a2, hd⟩
  | recur key =>
    simp only [writeNode] at hw
    simp only [encodeNode] at henc
    split at hw
    · simp at hw
    · rename_i k' n' hfind
      rw [hfind] at henc
      simp only at henc
      have hmem := List.mem_of_find?_eq_some hfind
      exact hn env n' W s mk W' s' Ropt R ds evs ds' eff hw henc hc hs (henv _ hmem) henv hd
  | struct col name dict kept optCount fields =>
    exact struct_step C fuel hf env col name dict kept optCount fields W s mk W' s' Ropt R ds evs ds' eff hw henc hc hs hok henv hd
  | oneof col name kept alts =>
    exact oneof_step C fuel hn env col name kept alts W s mk W' s' Ropt R ds evs ds' eff hw henc hc hs hok henv hd
  | arr col key ety elem =>
    exact arr_step C fuel he env col key ety elem W s mk W' s' Ropt R ds evs ds' eff hw henc hc hs hok henv hd
  | mmap col name kty vty k v =>
    exact mmap_step C fuel hp hv env col name kty vty k v W s mk W' s' Ropt R ds evs ds' eff hw henc hc hs hok henv hd

theorem write_all (C : Ctx) : ∀ (fuel : Nat), WNode C fuel ∧ WFields C fuel ∧ WElems C fuel ∧ WPairs C fuel ∧ WVals C fuel
  | 0 => by
    refine ⟨?_, ?_, ?_, ?_, ?_⟩
    · intro env n W s mk W' s' Ropt R ds evs ds' eff hw; simp [writeNode] at hw
    · intro env fields fds idx oi mask p rp rfs fs subs fs' s s' ds evs ds' effs hw; simp [writeFields] at hw
    · intro env elem ety es old rs subs es' s s' ds evs ds' effs hw; simp [writeElems] at hw
    · intro env k v kty vty ps old rs subs ps' s s' ds evs ds' effs hw; simp [writePairs] at hw
    · intro env v vm changed idx ps old subs ps' s s' ds evs ds' effs hw; simp [writeVals] at hw
  | fuel + 1 => by
    obtain ⟨hn, hf, he, hp, hv⟩ := write_all C fuel
    exact ⟨node_step C fuel hn hf he hp hv, fields_step C fuel hn hf, elems_step C fuel hn he, pairs_step C fuel hn hp,
      vals_step C fuel hn hv⟩

/-- **writeNode_sound**: marks that are sound against the reader's value (`Snd`) make the proved
    encoder produce an effective value - what the reader holds afterwards - that shows exactly the
    record written; the record is left without marks, writer and reader dictionaries stay in step. -/
theorem writeNode_sound (C : Ctx) (fuel : Nat) (env : List (String × Node)) (n : Node) (W : AS) (s : WSt) (mk : Mk)
    (W' : AS) (s' : WSt) (Ropt : Option St) (R : St) (ds : DS) (evs : List Ev) (ds' : DS) (eff : St)
    (hw : writeNode C fuel env n W s = some (mk, W', s'))
    (henc : encodeNode C.σ fuel env n R (vis C W) mk ds = some (evs, ds', eff))
    (hc : Compat Ropt R) (hs : Snd C W Ropt) (hok : NodeOk C n) (henv : EnvOk C env) (hd : DictOk C s.wd ds.tdict) :
    Shows C W' eff ∧ Quiet C W' ∧ DictOk C s'.wd ds'.tdict :=
  (write_all C fuel).1 env n W s mk W' s' Ropt R ds evs ds' eff hw henc hc hs hok henv hd

end Stef.Api
