import Stef.Chunk

namespace Stef.Chunk

theorem take_append_drop_len {α} (n : Nat) (l : List α) :
    l.take n ++ l.drop (l.take n).length = l := by
  by_cases h : n ≤ l.length
  · have : (l.take n).length = n := by simp; omega
    rw [this, List.take_append_drop]
  · have h1 : l.take n = l := List.take_of_length_le (by omega)
    rw [h1]; simp

theorem recvChunk_some {src : List Msg} {acc data : Bytes} {rest : List Msg}
    (h : recvChunk src acc = some (data, rest)) :
    chunksAux src acc = data :: chunksAux rest [] ∧ rest.length < src.length := by
  induction src generalizing acc with
  | nil => simp [recvChunk] at h
  | cons m ms ih =>
    obtain ⟨b, e⟩ := m
    by_cases he : e
    · simp [recvChunk, he] at h
      obtain ⟨h1, h2⟩ := h
      subst h1; subst h2
      simp [chunksAux, he]
    · simp [recvChunk, he] at h
      have := ih h
      simp [chunksAux, he, this.1]
      omega

theorem recvChunk_none {src : List Msg} {acc : Bytes} (h : recvChunk src acc = none) :
    chunksAux src acc = [] := by
  induction src generalizing acc with
  | nil => simp [chunksAux]
  | cons m ms ih =>
    obtain ⟨b, e⟩ := m
    by_cases he : e
    · simp [recvChunk, he] at h
    · simp [recvChunk, he] at h
      simp [chunksAux, he, ih h]

/-- what the assembler still owes the consumer: the rest of the current chunk followed by
    all complete chunks still in the source. -/
def Asm.owed (a : Asm) : Bytes := a.buf.drop a.readIndex ++ (chunks a.src).flatten

theorem read_ok {a a' : Asm} {n : Nat} {out : Bytes} (h : a.read n = (a', some out)) :
    out ++ a'.owed = a.owed := by
  unfold Asm.read at h
  by_cases hi : a.readIndex ≥ a.buf.length
  · simp only [hi, ↓reduceIte] at h
    cases hr : recvChunk a.src [] with
    | none => simp [hr] at h
    | some p =>
      obtain ⟨data, rest⟩ := p
      simp only [hr] at h
      have hc := (recvChunk_some hr).1
      injection h with h1 h2
      injection h2 with h2
      subst h1; subst h2
      have hd : a.buf.drop a.readIndex = [] := by simp; omega
      simp only [Asm.owed, chunks, hd, hc, List.nil_append, List.flatten_cons]
      rw [← List.append_assoc]
      congr 1
      exact take_append_drop_len n data
  · simp only [hi, ↓reduceIte] at h
    injection h with h1 h2
    injection h2 with h2
    subst h1; subst h2
    simp only [Asm.owed]
    rw [← List.append_assoc]
    congr 1
    rw [← List.drop_drop]
    exact take_append_drop_len n (a.buf.drop a.readIndex)

theorem read_err {a a' : Asm} {n : Nat} (h : a.read n = (a', none)) :
    a.owed = [] ∧ a'.owed = [] := by
  unfold Asm.read at h
  by_cases hi : a.readIndex ≥ a.buf.length
  · simp only [hi, ↓reduceIte] at h
    cases hr : recvChunk a.src [] with
    | none =>
      simp only [hr] at h
      injection h with h1 _
      subst h1
      have hd : a.buf.drop a.readIndex = [] := by simp; omega
      simp [Asm.owed, chunks, recvChunk_none hr, hd, chunksAux]
    | some p => obtain ⟨data, rest⟩ := p; simp [hr] at h
  · simp only [hi, ↓reduceIte] at h
    injection h with _ h2
    simp at h2

/-- Everything delivered plus everything still owed is constant along a run. -/
theorem run_owed (a : Asm) (ns : List Nat) :
    let r := a.run ns
    r.1.flatten ++ r.2.1.owed = a.owed ∧ (r.2.2 = true → r.1.flatten = a.owed) := by
  induction ns generalizing a with
  | nil => simp [Asm.run]
  | cons n ns ih =>
    simp only [Asm.run]
    cases hr : a.read n with
    | mk a' o =>
      cases o with
      | none =>
        have := read_err hr
        simp [this.1, this.2]
      | some out =>
        have h1 := read_ok hr
        have h2 := ih a'
        simp only at h2 ⊢
        constructor
        · simp only [List.flatten_cons, List.append_assoc]
          rw [h2.1, h1]
        · intro he
          simp only [List.flatten_cons]
          rw [h2.2 he, h1]

end Stef.Chunk

namespace Stef.Chunk

theorem recvChunk_split {src : List Msg} {acc data : Bytes} {rest : List Msg}
    (h : recvChunk src acc = some (data, rest)) :
    ∃ pre, src = pre ++ rest ∧ pre ≠ [] ∧
      ∀ tail, chunksAux (pre ++ tail) acc = data :: chunksAux tail [] := by
  induction src generalizing acc with
  | nil => simp [recvChunk] at h
  | cons m ms ih =>
    obtain ⟨b, e⟩ := m
    by_cases he : e
    · simp [recvChunk, he] at h
      obtain ⟨h1, h2⟩ := h
      subst h1; subst h2
      exact ⟨[(b, e)], by simp, by simp, by intro tail; simp [chunksAux, he]⟩
    · simp [recvChunk, he] at h
      obtain ⟨pre, h1, _, h3⟩ := ih h
      refine ⟨(b, e) :: pre, by simp [h1], by simp, ?_⟩
      intro tail
      simp [chunksAux, he, h3 tail]

/-- `pre` ends on a chunk boundary: chunking distributes over it. -/
def Boundary (pre : List Msg) : Prop := ∀ tail, chunks (pre ++ tail) = chunks pre ++ chunks tail

theorem boundary_nil : Boundary [] := by intro tail; simp [chunks, chunksAux]

theorem boundary_append {p q : List Msg} (hp : Boundary p)
    (hq : ∀ tail, chunksAux (q ++ tail) [] = chunksAux q [] ++ chunksAux tail []) :
    Boundary (p ++ q) := by
  intro tail
  rw [List.append_assoc, hp (q ++ tail), hp q]
  simp only [chunks] at *
  rw [hq tail, List.append_assoc]

/-- State invariant relating what was delivered to the messages consumed from the source. -/
def Aligned (ms : List Msg) (a : Asm) (d : Bytes) : Prop :=
  ∃ pre, ms = pre ++ a.src ∧ Boundary pre ∧ d ++ a.buf.drop a.readIndex = (chunks pre).flatten

theorem aligned_init (ms : List Msg) : Aligned ms { src := ms } [] :=
  ⟨[], by simp, boundary_nil, by simp [chunks, chunksAux]⟩

theorem aligned_read {ms : List Msg} {a a' : Asm} {d out : Bytes} {n : Nat}
    (hA : Aligned ms a d) (h : a.read n = (a', some out)) : Aligned ms a' (d ++ out) := by
  obtain ⟨pre, h1, h2, h3⟩ := hA
  unfold Asm.read at h
  by_cases hi : a.readIndex ≥ a.buf.length
  · simp only [hi, ↓reduceIte] at h
    cases hr : recvChunk a.src [] with
    | none => simp [hr] at h
    | some p =>
      obtain ⟨data, rest⟩ := p
      simp only [hr] at h
      injection h with ha ho
      injection ho with ho
      subst ha; subst ho
      obtain ⟨q, hq1, _, hq3⟩ := recvChunk_split hr
      have hd : a.buf.drop a.readIndex = [] := by simp; omega
      have hq0 : chunksAux q [] = [data] := by
        have := hq3 []
        simpa [chunksAux] using this
      refine ⟨pre ++ q, ?_, ?_, ?_⟩
      · simp [h1, hq1]
      · apply boundary_append h2
        intro tail
        rw [hq3 tail, hq0]; simp
      · simp only
        have hb := h2 q
        rw [hb]
        simp only [chunks, hq0, List.flatten_append, List.flatten_cons, List.flatten_nil,
          List.append_nil]
        rw [hd, List.append_nil] at h3
        simp only [chunks] at h3
        rw [← h3, List.append_assoc]
        congr 1
        exact take_append_drop_len n data
  · simp only [hi, ↓reduceIte] at h
    injection h with ha ho
    injection ho with ho
    subst ha; subst ho
    refine ⟨pre, h1, h2, ?_⟩
    simp only
    rw [← h3, List.append_assoc]
    congr 1
    rw [← List.drop_drop]
    exact take_append_drop_len n (a.buf.drop a.readIndex)

theorem aligned_run {ms : List Msg} (a : Asm) (d : Bytes) (ns : List Nat) (hA : Aligned ms a d) :
    (a.run ns).2.2 = false → Aligned ms (a.run ns).2.1 (d ++ (a.run ns).1.flatten) := by
  induction ns generalizing a d with
  | nil => intro _; simpa [Asm.run] using hA
  | cons n ns ih =>
    simp only [Asm.run]
    cases hr : a.read n with
    | mk a' o =>
      cases o with
      | none => simp
      | some out =>
        intro he
        have := ih a' (d ++ out) (aligned_read hA hr) he
        simpa [List.append_assoc] using this

end Stef.Chunk
