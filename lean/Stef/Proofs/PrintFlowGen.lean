/-
  Stef.Proofs.PrintFlowGen: the schema printer and the wire-schema construction REGENERATED from the Go source
  (Stef/Gen/PrintFlow.lean, by extract/printflow.go) compute what the hand models say:

    prettyPrintFieldType_eq .. prettyPrintEnum_eq, sortedList_eq, prettyPrint_eq
        Gen.prettyPrint σ = Idl.prettyPrint σ (Stef/SchemaPrint.lean) for every schema whose maps have distinct keys;
    newWireSchema_eq
        Gen.newWireSchema σ root = the counts of Idl.wireEntries σ root (Stef/WireSchema.lean) whenever the hand model
        succeeds (sim_base / sim_step / fields_loop: one call of schemaToStructCountTree against wsType, on every
        stack with distinct names and every destination forest; setStructCountsFromTree_eq: pre-order flattening).

  These proofs are the tie of the hand models to the source text: a change of the Go functions either still
  proves equal here, or breaks this file (or makes the generator fail). Loop bodies are never restated for the
  printer (`forIn_id_yield` + `foldl_append_pieces` / `foldl_snoc` characterise them); the two loops over struct
  fields of the wire half are stated once in `fields_loop` and matched against the generated text by `rw`.
-/
import Stef.Gen.PrintFlow
import Stef.Proofs.SortNorm
import Stef.WireSchema

set_option linter.unusedSimpArgs false

namespace Stef.Proofs.PrintFlowGen
open Stef.Idl Stef.PrintFlowSem Stef.Gen.PrintFlow

/-! ## loops of `Id.run do` blocks -/

@[simp] theorem idPure {α : Type} (a : α) : (pure a : Id α) = a := rfl

theorem forIn_id_yield {α β : Type} (l : List α) (init : β) (f : α → β → β) :
    (forIn (m := Id) l init (fun a b => (ForInStep.yield (f a b) : Id (ForInStep β))))
      = l.foldl (fun b a => f a b) init := by
  induction l generalizing init with
  | nil => rfl
  | cons x xs ih => simp only [List.forIn_cons, List.foldl_cons]; exact ih _

/-- a loop `for x in l do out := out ++ g x` appends the pieces in order. -/
theorem foldl_append_pieces {α β : Type} (g : α → List β) (l : List α) (init : List β) :
    l.foldl (fun out x => out ++ g x) init = init ++ (l.map g).flatten := by
  induction l generalizing init with
  | nil => simp
  | cons x xs ih => simp [ih]

/-- a loop `for x in l do out := append(out, g x)`. -/
theorem foldl_snoc {α β : Type} (g : α → β) (l : List α) (init : List β) :
    l.foldl (fun out x => out ++ [g x]) init = init ++ l.map g := by
  induction l generalizing init with
  | nil => simp
  | cons x xs ih => simp [ih]

theorem ppEnumFields_flat (fs : List EnumField) :
    ppEnumFields fs = (fs.map (fun f => sNlIndent ++ f.name ++ sEq ++ natToDec f.value)).flatten := by
  induction fs with
  | nil => rfl
  | cons f fs ih => simp [ppEnumFields, ih]

theorem ppFields_flat (fs : List Field) :
    ppFields fs = (fs.map (fun f => sNlIndent ++ ppField f)).flatten := by
  induction fs with
  | nil => rfl
  | cons f fs ih => simp [ppFields, ih]

/-! ## the printer -/

theorem prettyPrintFieldType_base (b : BaseType) : prettyPrintFieldType (.base b) = ppBase b := by
  rw [prettyPrintFieldType]
  rcases b with ⟨p, st, mm, en, d⟩
  cases p with
  | none =>
    by_cases h1 : en = [] <;> by_cases h2 : st = [] <;> by_cases h3 : mm = [] <;>
      simp [Id.run, FType.goEnum, FType.goPrimitive, FType.goArray, FType.goStruct, FType.goMultiMap, ppBase,
        sUnknown, h1, h2, h3]
  | some p =>
    by_cases h1 : en = [] <;> cases p <;>
      simp [Id.run, FType.goEnum, FType.goPrimitive, ppBase, Prim.text, h1]

/-- **Gen.prettyPrintFieldType = ppFType** -/
theorem prettyPrintFieldType_eq (ft : FType) : prettyPrintFieldType ft = ppFType ft := by
  cases ft with
  | base b => exact prettyPrintFieldType_base b
  | array e d r =>
    rw [prettyPrintFieldType]
    by_cases hd : e.dict = [] <;>
      simp [Id.run, FType.goEnum, FType.goPrimitive, FType.goArray, FType.goDictName, ppFType, ppDict,
        prettyPrintFieldType_base, sDictOpen, hd]

/-- **Gen.prettyPrintStructField = ppField** -/
theorem prettyPrintStructField_eq (f : Field) : prettyPrintStructField f = ppField f := by
  unfold prettyPrintStructField ppField
  have hd : f.ty.goDictName = f.ty.dictName := by cases f.ty <;> rfl
  by_cases h1 : f.ty.dictName = [] <;> by_cases h2 : f.optional = true <;>
    simp [Id.run, prettyPrintFieldType_eq, ppDict, sDictOpen, sOptional, hd, h1, h2]

/-- **Gen.prettyPrintStruct = ppStruct** -/
theorem prettyPrintStruct_eq (s : Struct) : prettyPrintStruct s = ppStruct s := by
  unfold prettyPrintStruct ppStruct
  simp only [Id.run, bind, forIn_id_yield, foldl_append_pieces, ppFields_flat, prettyPrintStructField_eq]
  by_cases h1 : s.oneOf = true <;> by_cases h2 : s.dict = [] <;> by_cases h3 : s.isRoot = true <;>
    simp [forIn_id_yield, foldl_append_pieces, ppDict, sDictOpen, sOneof, sStruct, sOpen, sRoot, sNlIndent, sNlClose,
      h1, h2, h3]

/-- **Gen.prettyPrintMultimap = ppMultimap** -/
theorem prettyPrintMultimap_eq (m : Multimap) : prettyPrintMultimap m = ppMultimap m := by
  unfold prettyPrintMultimap ppMultimap
  have hk : m.key.goDictName = m.key.dictName := by cases m.key <;> rfl
  have hv : m.value.goDictName = m.value.dictName := by cases m.value <;> rfl
  by_cases h1 : m.key.dictName = [] <;> by_cases h2 : m.value.dictName = [] <;>
    simp [Id.run, prettyPrintFieldType_eq, ppDict, sDictOpen, sMultimap, sOpen, sKey, sValue, sNlClose, hk, hv, h1, h2]

/-- **Gen.prettyPrintEnum = ppEnum** -/
theorem prettyPrintEnum_eq (e : Enum) : prettyPrintEnum e = ppEnum e := by
  unfold prettyPrintEnum ppEnum
  simp only [Id.run, bind, forIn_id_yield, foldl_append_pieces, ppEnumFields_flat]
  simp [forIn_id_yield, foldl_append_pieces, fmtUint, sEnum, sOpen, sNlIndent, sEq, sNlClose]

/-! ## `sortedList`: collect the keys, `sort.Strings`, look every key up again -/

theorem map_insertBy {α : Type} (key : α → Name) (x : α) (l : List α) :
    (insertBy key x l).map key = insertBy (fun n => n) (key x) (l.map key) := by
  induction l with
  | nil => rfl
  | cons y ys ih =>
    simp only [insertBy, List.map_cons]
    split <;> simp [ih]

theorem map_sortBy {α : Type} (key : α → Name) (l : List α) :
    (sortBy key l).map key = sortStrings (l.map key) := by
  induction l with
  | nil => rfl
  | cons x xs ih =>
    simp only [sortBy, sortStrings, List.foldr_cons, List.map_cons] at ih ⊢
    rw [map_insertBy, ih]

theorem find_of_mem_nodup {α : Type} (key : α → Name) : ∀ (m : List α), (m.map key).Nodup → ∀ y ∈ m,
    m.find? (fun x => key x = key y) = some y
  | [], _, _, hy => by simp at hy
  | x :: xs, hn, y, hy => by
    simp only [List.map_cons, List.nodup_cons] at hn
    simp only [List.mem_cons] at hy
    rcases hy with rfl | hy
    · simp
    · have hne : key x ≠ key y := fun hc => hn.1 (hc ▸ List.mem_map_of_mem hy)
      simp [List.find?_cons, hne, find_of_mem_nodup key xs hn.2 y hy]

/-- looking the keys of a sub-list up in a map with distinct keys gives the sub-list back. -/
theorem lookup_all {α : Type} [Keyed α] (m : List α) (hn : (m.map Keyed.key).Nodup) :
    ∀ (l : List α) (init : List α), (∀ y ∈ l, y ∈ m) →
      (l.map Keyed.key).foldl (fun out n => appendPtr out (mapGet m n)) init = init ++ l
  | [], init, _ => by simp
  | y :: ys, init, hm => by
    simp only [List.map_cons, List.foldl_cons]
    rw [lookup_all m hn ys _ (fun z hz => hm z (by simp [hz]))]
    have := find_of_mem_nodup Keyed.key m hn y (hm y (by simp))
    simp [appendPtr, mapGet, this]

/-- **Gen.sortedList = sortBy** on a map (= a list with distinct keys). -/
theorem sortedList_eq {α : Type} [Keyed α] (m : List α) (hn : (m.map Keyed.key).Nodup) :
    sortedList m = sortBy Keyed.key m := by
  unfold sortedList
  simp only [Id.run, bind, forIn_id_yield, idPure, mapKeys]
  have hk : List.foldl (fun (b : List Name) a => b ++ [a]) [] (m.map Keyed.key) = m.map Keyed.key := by
    rw [foldl_snoc (fun a => a)]; simp
  rw [hk, ← map_sortBy]
  rw [lookup_all m hn (sortBy Keyed.key m) [] (fun y hy => (sortBy_perm Keyed.key m).mem_iff.1 hy)]
  simp

/-- **Gen.prettyPrint = Idl.prettyPrint** for every schema whose three maps have distinct keys (in Go: always). -/
theorem prettyPrint_eq (σ : Schema) (he : (σ.enums.map (·.name)).Nodup) (hm : (σ.multimaps.map (·.name)).Nodup)
    (hs : (σ.structs.map (·.name)).Nodup) : Gen.PrintFlow.prettyPrint σ = Idl.prettyPrint σ := by
  unfold Gen.PrintFlow.prettyPrint Idl.prettyPrint
  simp only [Id.run, bind, forIn_id_yield, idPure]
  rw [sortedList_eq σ.enums he, sortedList_eq σ.multimaps hm, sortedList_eq σ.structs hs]
  rw [foldl_snoc prettyPrintStruct, foldl_snoc prettyPrintMultimap, foldl_snoc prettyPrintEnum]
  simp [stringsJoin, Keyed.key, sPackage, sSep, prettyPrintEnum_eq, prettyPrintMultimap_eq, prettyPrintStruct_eq]
  rw [funext prettyPrintEnum_eq, funext prettyPrintMultimap_eq, funext prettyPrintStruct_eq]

/-! ## the wire-schema half -/

mutual
/-- pre-order list of (name, field count) of a `structCountTree`. -/
def flat : StructCountTree → List (Name × Nat)
  | .mk n c cs => (n, c) :: flatList cs
def flatList : List StructCountTree → List (Name × Nat)
  | [] => []
  | t :: ts => flat t ++ flatList ts
end

theorem flatList_append (a b : List StructCountTree) : flatList (a ++ b) = flatList a ++ flatList b := by
  induction a with
  | nil => simp [flatList]
  | cons t ts ih => simp [flatList, ih]

@[simp] theorem structFields_set (t : StructCountTree) (cs : List StructCountTree) :
    (t.setStructFields cs).structFields = cs := by cases t; rfl
@[simp] theorem setStructFields_set (t : StructCountTree) (a b : List StructCountTree) :
    (t.setStructFields a).setStructFields b = t.setStructFields b := by cases t; rfl

theorem flat_eq (t : StructCountTree) : flat t = (t.structName, t.fieldCount) :: flatList t.structFields := by
  cases t; simp [flat, StructCountTree.structName, StructCountTree.fieldCount, StructCountTree.structFields]

/-- what one call of the regenerated `schemaToStructCountTree` does when the hand model's `wsType` succeeds. -/
def Sim (σ : Schema) (f m : Nat) (ty : FType) : Prop :=
  ∀ (dst : List StructCountTree) (stk : RecurseStack) (o : List (Name × Nat)) (st' : WSt),
    stk.asMap.Nodup → wsType σ f ty.inner ⟨stk.asMap, o⟩ = .ok st' →
    ∃ dst', schemaToStructCountTree σ m ty dst stk = .ok (dst', ⟨stk.asStack, st'.asMap⟩) ∧ st'.asMap.Nodup ∧
      ∃ new, st'.out = o ++ new ∧ flatList dst' = flatList dst ++ new

/-- the loop over the fields of a struct (also the loop of `NewWireSchema`). -/
theorem fields_loop (σ : Schema) (f m : Nat) (IH : ∀ ty, Sim σ f m ty) :
    ∀ (fields : List Field) (sub : StructCountTree) (stk : RecurseStack) (o : List (Name × Nat)) (st' : WSt),
      stk.asMap.Nodup → wsFields (wsType σ f) (fields.map (·.ty)) ⟨stk.asMap, o⟩ = .ok st' →
      ∃ cs', forIn fields (stk, sub) (fun field (s : RecurseStack × StructCountTree) => do
                let x ← schemaToStructCountTree σ m field.ty s.snd.structFields s.fst
                pure (ForInStep.yield (x.snd, s.snd.setStructFields x.fst)))
            = (.ok (⟨stk.asStack, st'.asMap⟩, sub.setStructFields cs') : Except GErr _) ∧ st'.asMap.Nodup ∧
          ∃ new, st'.out = o ++ new ∧ flatList cs' = flatList sub.structFields ++ new
  | [], sub, stk, o, st', hn, h => by
    simp only [List.map_nil, wsFields, Except.ok.injEq] at h
    subst h
    refine ⟨sub.structFields, ?_, hn, [], by simp, by simp⟩
    cases sub; rfl
  | fd :: rest, sub, stk, o, st', hn, h => by
    simp only [List.map_cons, wsFields] at h
    cases h1 : wsType σ f fd.ty.inner ⟨stk.asMap, o⟩ with
    | error e => simp [h1] at h
    | ok st1 =>
      simp only [h1] at h
      obtain ⟨d1, hg, hn1, new1, ho1, hf1⟩ := IH fd.ty sub.structFields stk o st1 hn h1
      have hrec := fields_loop σ f m IH rest (sub.setStructFields d1) ⟨stk.asStack, st1.asMap⟩ st1.out st' hn1
        (by simpa using h)
      obtain ⟨cs', hl, hn', new2, ho2, hf2⟩ := hrec
      refine ⟨cs', ?_, hn', new1 ++ new2, by rw [ho2, ho1]; simp, by rw [hf2]; simp [hf1]⟩
      rw [List.forIn_cons, hg]
      rw [setStructFields_set] at hl
      exact hl

theorem ok_bind {ε α β : Type} (a : α) (f : α → Except ε β) : (Except.ok a >>= f) = f a := rfl

theorem sim_step (σ : Schema) (f k : Nat) (hb : ∀ b k', 2 * f ≤ k' + 1 → Sim σ f k' (.base b)) (hk : 2 * f ≤ k) :
    ∀ ty, Sim σ f k ty
  | .base b => hb b k (by omega)
  | .array e d r => by
    intro dst stk o st' hn h
    cases f with
    | zero => simp [wsType] at h
    | succ f' =>
      obtain ⟨j, rfl⟩ : ∃ j, k = j + 1 := ⟨k - 1, by omega⟩
      obtain ⟨dst', hg, hn', new, ho, hf⟩ := hb e j (by omega) dst stk o st' hn h
      refine ⟨dst', ?_, hn', new, ho, hf⟩
      simp only [schemaToStructCountTree]
      simp [FType.goPrimitive, FType.goStructDef, FType.goStruct, FType.goArray, hg, ok_bind]

theorem setTrue_new {l : List Name} {a : Name} (h : l.contains a = false) : setTrue l a = a :: l := by
  have : a ∉ l := by simpa using h
  simp [setTrue, this]

theorem nodup_cons_of_not_contains {l : List Name} {a : Name} (h : l.contains a = false) (hn : l.Nodup) :
    (a :: l).Nodup := by
  simp only [List.nodup_cons]
  exact ⟨by simpa using h, hn⟩

theorem dropLastE_concat {α : Type} (l : List α) (a : α) : dropLastE (l ++ [a]) = .ok l := by
  simp [dropLastE]

theorem sim_base (σ : Schema) : ∀ (f m : Nat) (b : BaseType), 2 * f ≤ m + 1 → Sim σ f m (.base b)
  | 0, _, _, _ => by intro dst stk o st' _ h; simp [wsType] at h
  | f + 1, m, b, hm => by
    obtain ⟨k, rfl⟩ : ∃ k, m = k + 1 := ⟨m - 1, by omega⟩
    have IH := sim_step σ f k (fun b k' h => sim_base σ f k' b h) (by omega)
    intro dst stk o st' hn h
    simp only [FType.inner, wsType] at h
    simp only [schemaToStructCountTree]
    by_cases hp : b.prim.isSome
    · -- a primitive
      simp only [hp, if_true, Except.ok.injEq] at h
      subst h
      have : b.prim ≠ none := by cases hb : b.prim <;> simp [hb] at hp ⊢
      exact ⟨dst, by simp [FType.goPrimitive, this]; rfl, hn, [], by simp, by simp⟩
    · have hp' : b.prim = none := by cases hb : b.prim <;> simp [hb] at hp ⊢
      simp only [hp, Bool.false_eq_true, if_false] at h
      by_cases hs : b.struct = []
      · -- not a struct
        simp only [hs, ne_eq, not_true, if_false] at h
        by_cases hmm : b.multimap = []
        · simp [hmm] at h
        · simp only [hmm, ne_eq, not_false_eq_true, if_true] at h
          cases hfm : σ.findMultimap b.multimap with
          | none => simp [hfm] at h
          | some mm =>
            simp only [hfm] at h
            by_cases hc : stk.asMap.contains mm.name = true
            · simp only [hc, if_true, Except.ok.injEq] at h
              subst h
              have hmem : mm.name ∈ stk.asMap := by simpa using hc
              refine ⟨dst, ?_, hn, [], by simp, by simp⟩
              simp [FType.goPrimitive, FType.goStructDef, FType.goStruct, FType.goArray, FType.goMultimapDef,
                FType.goMultiMap, hp', hs, hmm, hfm, setGet, hmem]
              rfl
            · have hc' : stk.asMap.contains mm.name = false := by simpa using hc
              simp only [hc', Bool.false_eq_true, if_false, Multimap.types, wsFields] at h
              cases h1 : wsType σ f mm.key.inner ⟨mm.name :: stk.asMap, o⟩ with
              | error e => simp [h1] at h
              | ok st1 =>
                simp only [h1] at h
                cases h2 : wsType σ f mm.value.inner st1 with
                | error e => simp [h2] at h
                | ok st2 =>
                  simp only [h2, Except.ok.injEq] at h
                  subst h
                  have hn0 := nodup_cons_of_not_contains hc' hn
                  obtain ⟨d1, hg1, hn1, new1, ho1, hf1⟩ := IH mm.key dst
                    ⟨stk.asStack ++ [mm.name], mm.name :: stk.asMap⟩ o st1 hn0 h1
                  obtain ⟨d2, hg2, hn2, new2, ho2, hf2⟩ := IH mm.value d1
                    ⟨stk.asStack ++ [mm.name], st1.asMap⟩ st1.out st2 hn1 h2
                  refine ⟨d2, ?_, ?_, new1 ++ new2, by simp [ho2, ho1], by simp [hf2, hf1]⟩
                  · have hnmem : mm.name ∉ stk.asMap := by simpa using hc'
                    simp [FType.goPrimitive, FType.goStructDef, FType.goStruct, FType.goArray, FType.goMultimapDef,
                      FType.goMultiMap, hp', hs, hmm, hfm, setGet, hnmem, setTrue_new hc', hg1, hg2, ok_bind,
                      dropLastE_concat, setDelete, hn2.erase_eq_filter]
                    rfl
                  · exact hn2.sublist (List.erase_sublist)
      · -- a struct
        simp only [hs, ne_eq, not_false_eq_true, if_true] at h
        cases hfs : σ.findStruct b.struct with
        | none => simp [hfs] at h
        | some s =>
          simp only [hfs] at h
          by_cases hc : stk.asMap.contains s.name = true
          · simp only [hc, if_true, Except.ok.injEq] at h
            subst h
            have hmem : s.name ∈ stk.asMap := by simpa using hc
            refine ⟨dst, ?_, hn, [], by simp, by simp⟩
            simp [FType.goPrimitive, FType.goStructDef, FType.goStruct, hp', hs, hfs, setGet, hmem]
            rfl
          · have hc' : stk.asMap.contains s.name = false := by simpa using hc
            simp only [hc', Bool.false_eq_true, if_false, Struct.types] at h
            have hn0 := nodup_cons_of_not_contains hc' hn
            obtain ⟨cs', hl, hn', new, ho, hf⟩ := fields_loop σ f k IH s.fields
              (StructCountTree.mk s.name s.fields.length []) ⟨stk.asStack ++ [s.name], s.name :: stk.asMap⟩
              (o ++ [(s.name, s.fields.length)]) st' hn0 h
            refine ⟨dst ++ [(StructCountTree.mk s.name s.fields.length []).setStructFields cs'], ?_, hn',
              (s.name, s.fields.length) :: new, by simp [ho], ?_⟩
            · simp only [FType.goPrimitive, FType.goStructDef, FType.goStruct, hp', hs, hfs, setGet, hc',
                setTrue_new hc', ne_eq, not_true_eq_false, not_false_eq_true, ite_true, ite_false, reduceIte,
                Bool.false_eq_true]
              rw [hl]
              simp [ok_bind, dropLastE_concat]
              rfl
            · rw [flatList_append]
              simp [flatList, flat_eq, StructCountTree.setStructFields, StructCountTree.structName,
                StructCountTree.fieldCount, StructCountTree.structFields, hf]

/-! ### `setStructCountsFromTree`: pre-order flattening -/

theorem depth_le_depthList : ∀ (cs : List StructCountTree) (c : StructCountTree), c ∈ cs →
    c.depth ≤ StructCountTree.depth.depthList cs
  | [], _, h => by simp at h
  | x :: xs, c, h => by
    simp only [List.mem_cons] at h
    simp only [StructCountTree.depth.depthList]
    rcases h with rfl | h
    · omega
    · have := depth_le_depthList xs c h; omega

theorem flatten_loop (n : Nat)
    (IH : ∀ (t : StructCountTree) (w : WireSchemaV), t.depth ≤ n →
      setStructCountsFromTree n w t = .ok ⟨w.structCounts ++ (flat t).map (·.2)⟩) :
    ∀ (cs : List StructCountTree) (w : WireSchemaV), (∀ c ∈ cs, c.depth ≤ n) →
      forIn cs w (fun c (s : WireSchemaV) => do
        let r ← setStructCountsFromTree n s c
        pure (ForInStep.yield r)) = (.ok ⟨w.structCounts ++ (flatList cs).map (·.2)⟩ : Except GErr _)
  | [], w, _ => by simp [flatList]; rfl
  | c :: cs, w, h => by
    rw [List.forIn_cons, IH c w (h c (by simp))]
    have := flatten_loop n IH cs ⟨w.structCounts ++ (flat c).map (·.2)⟩ (fun x hx => h x (by simp [hx]))
    simp only [flatList, List.map_append, ← List.append_assoc]
    exact this

/-- **Gen.setStructCountsFromTree** appends the pre-order list of the counts (never a panic; `treeFuel` is enough). -/
theorem setStructCountsFromTree_eq : ∀ (n : Nat) (t : StructCountTree) (w : WireSchemaV), t.depth ≤ n →
    setStructCountsFromTree n w t = .ok ⟨w.structCounts ++ (flat t).map (·.2)⟩
  | 0, t, _, h => by cases t; simp [StructCountTree.depth] at h
  | n + 1, t, w, h => by
    simp only [setStructCountsFromTree]
    have hc : ∀ c ∈ t.structFields, c.depth ≤ n := by
      intro c hc
      cases t with
      | mk nm cnt cs =>
        simp only [StructCountTree.depth] at h
        have := depth_le_depthList cs c hc
        omega
    rw [flatten_loop n (fun t w h => setStructCountsFromTree_eq n t w h) t.structFields _ hc]
    simp [flat_eq, ok_bind]

/-- every field type at the fuel `NewWireSchema` passes, against the hand model's fuel. -/
theorem sim_top (σ : Schema) (ty : FType) : Sim σ (wsFuel σ) (schemaFuel σ) ty :=
  sim_step σ (wsFuel σ) (schemaFuel σ) (fun b k' h => sim_base σ _ k' b h) (by simp [schemaFuel, wsFuel]) ty

/-- **Gen.newWireSchema = Idl.wireEntries** (names dropped) whenever the hand model succeeds: the regenerated
    `NewWireSchema` (tree construction by `schemaToStructCountTree`, then `setStructCountsFromTree`) returns exactly
    the counts the hand model lists in order of first entry - no panic, and the fuel of the model is never used up. -/
theorem newWireSchema_eq (σ : Schema) (root : Name) (w : List (Name × Nat)) (h : wireEntries σ root = .ok w) :
    newWireSchema σ root = .ok ⟨w.map (·.2)⟩ := by
  unfold wireEntries at h
  cases hf : σ.findStruct root with
  | none => simp [hf] at h
  | some r =>
    simp only [hf] at h
    cases hw : wsFields (wsType σ (wsFuel σ)) r.types ⟨[r.name], [(r.name, r.fields.length)]⟩ with
    | error e => simp [hw] at h
    | ok st =>
      simp only [hw, Except.ok.injEq] at h
      subst h
      obtain ⟨cs', hl, _, new, ho, hfl⟩ := fields_loop σ (wsFuel σ) (schemaFuel σ) (sim_top σ) r.fields
        (StructCountTree.mk r.name r.fields.length []) ⟨[r.name], [r.name]⟩ [(r.name, r.fields.length)] st
        (by simp) hw
      have hg : mapGet σ.structs root = some r := hf
      simp only [newWireSchema, hg, deref, ok_bind, setTrue, List.nil_append, List.contains_nil, Bool.false_eq_true,
        if_false]
      rw [hl]
      simp only [ok_bind]
      rw [treeFuel, setStructCountsFromTree_eq _ _ _ (Nat.le_refl _)]
      simp [ok_bind, flat_eq, StructCountTree.setStructFields, StructCountTree.structName, StructCountTree.fieldCount,
        StructCountTree.structFields, hfl, ho, flatList]

end Stef.Proofs.PrintFlowGen
