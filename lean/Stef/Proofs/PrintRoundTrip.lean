/-
  Assembly of the print -> parse round trip: lexing the printed text (`PrintLex`), the grammar
  phase on its tokens (`PrintParse`), `ResolveRefs` (`PrintResolve`); the recursion marking and
  the pruning are fixpoint hypotheses here, discharged for parsed schemas in `PrintFix`.
-/
import Stef.Proofs.PrintLex
import Stef.Proofs.PrintResolve
import Stef.Proofs.SortNorm

namespace Stef.Idl

/-- `Parser.Parse` on any token list with the kinds of the printed text of `σ`. -/
theorem parseTokens_print {σ : Schema} {ts : List Token} (hpp : PP σ) (hwf : σ.WF)
    (hfix1 : computeRecursive (unmark σ.norm) = .ok σ.norm)
    (hfix2 : pruneUnused σ.norm = some σ.norm)
    (h : Toks ts (tkSchema σ)) : parseTokens ts = .ok σ.norm := by
  obtain ⟨ts', hg⟩ := grammar_toks h hpp hwf
  simp only [parseTokens, hg, resolveRefs_raw hwf, hfix1, hfix2]

/-- A printable, well-formed schema whose recursion flags and reachability are already settled
    re-parses from its printed text to its name-sorted form (the empty schema included: its
    printed text is the package clause only). -/
theorem parse_print_of_wf {σ : Schema} (hpp : PP σ) (hwf : σ.WF)
    (hfix1 : computeRecursive (unmark σ.norm) = .ok σ.norm)
    (hfix2 : pruneUnused σ.norm = some σ.norm) :
    parse (prettyPrint σ) = .ok σ.norm :=
  parseTokens_print hpp hwf hfix1 hfix2
    (lex_of_lexes (lexes_prettyPrint hpp hwf.no_empty_type))

end Stef.Idl
