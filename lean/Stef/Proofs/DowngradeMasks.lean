/-
  Stef.Proofs.DowngradeMasks: the ROOT MODIFIED MASKS that `Spec.decodeStream` reports are the masks of
  the root marks the encoder was given (root = a struct without dictionary). `SpecEnc.go_roundtrip`
  speaks about the record values only; this file repeats its three steps (records, one frame at the
  column level, the frame loop) with the masks added.
-/
import Stef.Proofs.SpecEncStream

namespace Stef.SpecEnc
open Stef Stef.Spec

/-- the modified mask of the root marks -/
def rootMask : Mk → Nat
  | .struct m _ => m
  | _ => 0

/-- what `Spec.decodeRecords` peeks before it decodes a record -/
def peekMask (kept col : Nat) (D : DS) : Nat :=
  match readBits kept (D.col col).bits with
  | some (m, _) => m.toNat
  | none => 0

theorem peek_mask (σ : Schema) (f : Nat) (env : List (String × Node)) (col : Nat) (name : String) (kept oc : Nat)
    (fields : List (Bool × Node)) (cur new : St) (mk : Mk) (ds : DS) (e1 : List Ev) (ds1 : DS) (v : St) (tail : List Ev)
    (h : encodeNode σ f env (.struct col name none kept oc fields) cur new mk ds = some (e1, ds1, v)) :
    peekMask kept col (feed (e1 ++ tail) ds) = rootMask mk := by
  cases f with
  | zero => simp [encodeNode] at h
  | succ f =>
    simp only [encodeNode] at h
    split at h
    · rename_i hc
      obtain ⟨hb, hk, ho⟩ := hc
      split at h
      · simp at h
      · rename_i mask subs
        split at h
        · rename_i pres newFields
          split at h
          · rename_i hmp
            obtain ⟨hmask, hpres⟩ := hmp
            have hm64 : mask < 2 ^ 64 := Nat.lt_of_lt_of_le hmask (Nat.pow_le_pow_right (by omega) hk)
            have hmn : (BitVec.ofNat 64 mask).toNat = mask := ofNat_toNat_of_lt _ hm64
            have hrm : ∀ rest, readBits kept (lowBits (BitVec.ofNat 64 mask) kept ++ rest) = some (BitVec.ofNat 64 mask, rest) :=
              fun rest => readBits_lowBits _ _ rest hk (by rw [hmn]; exact hmask)
            split at h
            · simp at h
            · rename_i e2 ds2 effFields hfields
              simp only [Option.some.injEq, Prod.mk.injEq] at h
              obtain ⟨rfl, rfl, rfl⟩ := h
              have hbD : col < (feed (e2 ++ tail) ds).cols.size := by rw [size_feed]; exact hb
              rw [feed_hdr]
              unfold peekMask
              rw [col_feed1_self _ _ _ hbD]
              simp only [pre, List.nil_append, List.append_assoc, hrm, hmn, rootMask]
          · simp at h
        · simp at h
      · simp at h
    · simp at h

theorem records_masks (σ : Schema) (col : Nat) (name : String) (kept oc : Nat) (fields : List (Bool × Node)) (fuel : Nat) :
    ∀ (recs : List (St × Mk)) (cur : St) (ds : DS) (evs : List Ev) (ds' : DS) (effs : List St) (tail : List Ev)
      (acc : List (Nat × St)),
      encodeRecords σ (.struct col name none kept oc fields) fuel recs cur ds = some (evs, ds', effs) →
      ∃ out, decodeRecords σ (.struct col name none kept oc fields) kept fuel recs.length cur (feed (evs ++ tail) ds) acc =
          .ok (effs.getLast?.getD cur, feed tail ds', out) ∧
        out.map (·.2) = effs.reverse ++ acc.map (·.2) ∧
        out.map (·.1) = (recs.map (fun r => rootMask r.2)).reverse ++ acc.map (·.1) := by
  induction fuel with
  | zero => intro recs cur ds evs ds' effs tail acc h; simp [encodeRecords] at h
  | succ fuel ih =>
    intro recs cur ds evs ds' effs tail acc h
    cases recs with
    | nil =>
      simp only [encodeRecords, Option.some.injEq, Prod.mk.injEq] at h
      obtain ⟨rfl, rfl, rfl⟩ := h
      exact ⟨acc, by simp [decodeRecords], by simp, by simp⟩
    | cons r rest =>
      obtain ⟨new, mk⟩ := r
      simp only [encodeRecords] at h
      split at h
      · simp at h
      · rename_i e1 ds1 v hfirst
        split at h
        · simp at h
        · rename_i e2 ds2 vs hrest
          simp only [Option.some.injEq, Prod.mk.injEq] at h
          obtain ⟨rfl, rfl, rfl⟩ := h
          have h1 := (roundtrip_all σ (fuel * 64 + 100000)).1 _ _ _ _ _ _ _ _ _ (e2 ++ tail) hfirst
          have hpk := peek_mask σ _ [] col name kept oc fields cur new mk ds e1 ds1 v (e2 ++ tail) hfirst
          simp only [List.length_cons, decodeRecords, List.append_assoc]
          rw [h1]
          simp only [bind, Except.bind]
          obtain ⟨out, ho1, ho2, ho3⟩ := ih rest v ds1 e2 ds2 vs tail (_ :: acc) hrest
          refine ⟨out, ?_, ?_, ?_⟩
          · rw [ho1]
            cases vs with
            | nil => simp
            | cons a l =>
              simp only [List.getLast?_cons_cons]
              rw [List.getLast?_eq_some_getLast (List.cons_ne_nil a l)]; rfl
          · rw [ho2]; simp
          · rw [ho3]
            unfold peekMask at hpk
            simp only [List.map_cons, List.reverse_cons, List.append_assoc, List.cons_append, List.nil_append]
            exact congrArg (fun m => (List.map (fun r => rootMask r.snd) rest).reverse ++ m :: List.map (fun x => x.fst) acc) hpk

theorem frame_cols_masks (σ : Schema) (col : Nat) (name : String) (kept oc : Nat) (fields : List (Bool × Node))
    (flags fuel : Nat) (recs : List (St × Mk))
    (cur : St) (es : DS) (evs : List Ev) (es' : DS) (effs : List St)
    (inp0 inp : Nat → Bits × Bytes × Nat)
    (h : encodeRecords σ (.struct col name none kept oc fields) fuel recs cur (resetFor flags es) = some (evs, es', effs))
    (hc : Carries evs inp es.cols.size) :
    ∃ out, decodeRecords σ (.struct col name none kept oc fields) kept fuel recs.length cur
        (withInputs inp (resetFor flags (withInputs inp0 es))) [] =
        .ok (effs.getLast?.getD cur, withInputs (leftover evs inp) es', out) ∧ out.map (·.2) = effs.reverse ∧
        out.map (·.1) = (recs.map (fun r => rootMask r.2)).reverse := by
  rw [resetFor_withInputs, withInputs_withInputs]
  rw [loaded_eq_feed evs inp (resetFor flags es) (by rw [size_resetFor]; exact hc)]
  have h2 := encodeRecords_withInputs (leftover evs inp) σ (.struct col name none kept oc fields) fuel recs cur (resetFor flags es)
  rw [h] at h2
  simp only [mapI_some] at h2
  obtain ⟨out, h3, h4, h5⟩ := records_masks σ col name kept oc fields fuel recs cur _ evs _ effs [] [] h2
  refine ⟨out, ?_, by simpa using h4, by simpa using h5⟩
  simpa using h3

/-- the frame loop, with the reported root masks -/
theorem go_masks (σ : Schema) (hdr : Header) (col : Nat) (name : String) (kept oc : Nat) (fields : List (Bool × Node))
    (kinds : List (Nat × Bool)) (ncols : Nat) :
    ∀ (ins : List FrameIn) (evss : List (List Ev)) (frames : List Frame) (cur : St) (es es' : DS)
      (effss : List (List St)) (inp0 : Nat → Bits × Bytes × Nat) (infos : List FrameInfo) (recs : List (Nat × St)),
      encodeFrames σ (.struct col name none kept oc fields) ins cur es = some (evss, es', effss) →
      StreamMatches (.struct col name none kept oc fields) kinds ncols ins evss frames →
      es.cols.size = ncols →
      (decodeStream.go σ hdr (.struct col name none kept oc fields) kinds kept frames cur (withInputs inp0 es) infos recs).records.map (·.1) =
        recs.reverse.map (·.1) ++ ins.flatMap (fun fr => fr.recs.map (fun r => rootMask r.2)) := by
  intro ins
  induction ins with
  | nil =>
    intro evss frames cur es es' effss inp0 infos recs h hm hsz
    simp only [encodeFrames, Option.some.injEq, Prod.mk.injEq] at h
    obtain ⟨rfl, rfl, rfl⟩ := h
    cases frames with
    | nil =>
      simp only [decodeStream.go]
      simp
    | cons c cs => simp [StreamMatches] at hm
  | cons fr rest ih =>
    intro evss frames cur es es' effss inp0 infos recs h hm hsz
    simp only [encodeFrames] at h
    split at h
    · simp at h
    · rename_i evs es1 effs hrec
      split at h
      · simp at h
      · rename_i evss' es2 effss' hrest
        simp only [Option.some.injEq, Prod.mk.injEq] at h
        obtain ⟨rfl, rfl, rfl⟩ := h
        cases frames with
        | nil => simp [StreamMatches] at hm
        | cons f fs =>
          obtain ⟨hfl, hfu, hcar, hm'⟩ := hm
          obtain ⟨c1, sos, c2, sizeBytes, data, rb, sizes, p1, p2, p3, p4, p5⟩ := hcar
          have hsz1 : es1.cols.size = ncols := by
            rw [size_encodeRecords _ _ _ _ _ _ _ _ _ hrec, size_resetFor]; exact hsz
          obtain ⟨L, rest', hL, hcarL⟩ := p5 (resetFor f.flags (withInputs inp0 es))
            (by rw [size_resetFor, size_withInputs]; exact hsz)
          have hio := inputsOnly_eq _ _ (loadColumns_inputsOnly kinds sizes data _ L rest' hL)
          rw [hfl] at hio
          obtain ⟨out, h1, h2, h2m⟩ := frame_cols_masks σ col name kept oc fields fr.flags fr.fuel fr.recs cur es evs es1 effs inp0
            (inputsOf L) hrec (by rw [hsz]; exact hcarL)
          rw [← hio, hfu] at h1
          have hgo : decodeStream.go σ hdr (.struct col name none kept oc fields) kinds kept (f :: fs) cur (withInputs inp0 es) infos recs =
              decodeStream.go σ hdr (.struct col name none kept oc fields) kinds kept fs (effs.getLast?.getD cur)
                (withInputs (leftover evs (inputsOf L)) es1)
                ({ flags := f.flags, size := f.content.length, records := fr.recs.length,
                   dictPayloadAfter := (withInputs (leftover evs (inputsOf L)) es1).dictPayload } :: infos)
                (out ++ recs) := by
            rw [decodeStream.go]
            simp only [p1, p2, p3, p4]
            have hres : (if f.flags / 4 % 2 = 1 then
                ({ (if f.flags % 2 = 1 then (withInputs inp0 es).resetDicts else withInputs inp0 es) with
                    cols := Array.map ColSt.resetCodec
                      (if f.flags % 2 = 1 then (withInputs inp0 es).resetDicts else withInputs inp0 es).cols } : DS)
                else if f.flags % 2 = 1 then (withInputs inp0 es).resetDicts else withInputs inp0 es) =
                resetFor f.flags (withInputs inp0 es) := rfl
            rw [hres, hL]
            simp only
            rw [h1]
          rw [hgo]
          rw [ih evss' fs (effs.getLast?.getD cur) es1 es2 effss' (leftover evs (inputsOf L)) _ (out ++ recs) hrest hm' hsz1]
          simp [h2m]

end Stef.SpecEnc
