/-
  Generic lemmas about the stable insertion sort and the merge-equal-neighbours loop of the
  traces sorting mode (Stef/Otlp/Traces.lean).
-/
import Stef.Otlp.Traces

namespace Stef.Otlp

variable {α : Type}

theorem insertStable_perm (cmp : α → α → Int) (x : α) : ∀ (l : List α), (insertStable cmp x l).Perm (x :: l)
  | [] => List.Perm.refl _
  | y :: t => by
    simp only [insertStable]
    split
    · exact (List.Perm.cons y (insertStable_perm cmp x t)).trans (List.Perm.swap x y t)
    · exact List.Perm.refl _

theorem sortStable_perm (cmp : α → α → Int) : ∀ (l : List α), (sortStable cmp l).Perm l
  | [] => List.Perm.refl _
  | x :: t => (insertStable_perm cmp x (sortStable cmp t)).trans (List.Perm.cons x (sortStable_perm cmp t))

theorem insertSpan_perm (x : Span) : ∀ (l : List Span), (insertSpan x l).Perm (x :: l)
  | [] => List.Perm.refl _
  | y :: t => by
    simp only [insertSpan]
    split
    · exact (List.Perm.cons y (insertSpan_perm x t)).trans (List.Perm.swap x y t)
    · exact List.Perm.refl _

theorem sortSpans_perm : ∀ (l : List Span), (sortSpans l).Perm l
  | [] => List.Perm.refl _
  | x :: t => (insertSpan_perm x (sortSpans t)).trans (List.Perm.cons x (sortSpans_perm t))

/-! ### merging equal neighbours keeps every item under an equal key, in order -/

section merge
variable {K β : Type} (cmp : α → α → Int) (merge : α → α → α) (key : α → K) (items : α → List β)

/-- all (key, item) pairs of a list of containers -/
def flatItems (l : List α) : List (K × β) := (l.map fun x => (items x).map fun i => (key x, i)).flatten

theorem mergeFrom_flat (P : α → Prop)
    (hkey : ∀ x y, key (merge x y) = key x) (hitems : ∀ x y, items (merge x y) = items x ++ items y)
    (hP : ∀ x y, P x → P (merge x y))
    (hfaith : ∀ x y, P x → P y → cmp x y = 0 → key x = key y) :
    ∀ (rest : List α) (cur : α), P cur → (∀ y ∈ rest, P y) →
      flatItems key items (mergeFrom cmp merge cur rest) = flatItems key items (cur :: rest)
  | [], cur, _, _ => rfl
  | y :: t, cur, hc, hr => by
    simp only [mergeFrom]
    split
    · rename_i hc0
      have hc0 : cmp cur y = 0 := by simpa using hc0
      have hk : key cur = key y := hfaith cur y hc (hr y (by simp)) hc0
      rw [mergeFrom_flat P hkey hitems hP hfaith t (merge cur y) (hP cur y hc) (fun z hz => hr z (by simp [hz]))]
      simp [flatItems, hkey, hitems, hk]
    · have ih := mergeFrom_flat P hkey hitems hP hfaith t y (hr y (by simp)) (fun z hz => hr z (by simp [hz]))
      simp only [flatItems, List.map_cons, List.flatten_cons] at ih ⊢
      rw [ih]

theorem mergeAdjacent_flat (P : α → Prop)
    (hkey : ∀ x y, key (merge x y) = key x) (hitems : ∀ x y, items (merge x y) = items x ++ items y)
    (hP : ∀ x y, P x → P (merge x y))
    (hfaith : ∀ x y, P x → P y → cmp x y = 0 → key x = key y) (l : List α) (hl : ∀ y ∈ l, P y) :
    flatItems key items (mergeAdjacent cmp merge l) = flatItems key items l := by
  cases l with
  | nil => rfl
  | cons x t =>
    exact mergeFrom_flat cmp merge key items P hkey hitems hP hfaith t x (hl x (by simp)) (fun z hz => hl z (by simp [hz]))

/-- a property closed under merging (with any right operand having it) holds for every output element -/
theorem mergeFrom_all (Q : α → Prop) (hQ : ∀ x y, Q x → Q y → Q (merge x y)) :
    ∀ (rest : List α) (cur : α), Q cur → (∀ y ∈ rest, Q y) → ∀ z ∈ mergeFrom cmp merge cur rest, Q z
  | [], cur, hc, _ => by simp [mergeFrom]; exact hc
  | y :: t, cur, hc, hr => by
    simp only [mergeFrom]
    split
    · exact mergeFrom_all Q hQ t (merge cur y) (hQ cur y hc (hr y (by simp))) (fun z hz => hr z (by simp [hz]))
    · intro z hz
      simp only [List.mem_cons] at hz
      cases hz with
      | inl e => subst e; exact hc
      | inr hz => exact mergeFrom_all Q hQ t y (hr y (by simp)) (fun z hz => hr z (by simp [hz])) z hz

theorem mergeAdjacent_all (Q : α → Prop) (hQ : ∀ x y, Q x → Q y → Q (merge x y)) (l : List α)
    (hl : ∀ y ∈ l, Q y) : ∀ z ∈ mergeAdjacent cmp merge l, Q z := by
  cases l with
  | nil => simp [mergeAdjacent]
  | cons x t => exact mergeFrom_all cmp merge Q hQ t x (hl x (by simp)) (fun z hz => hl z (by simp [hz]))

theorem mergeFrom_count (hitems : ∀ x y, items (merge x y) = items x ++ items y) :
    ∀ (rest : List α) (cur : α),
      ((mergeFrom cmp merge cur rest).map fun x => (items x).length).sum
        = ((cur :: rest).map fun x => (items x).length).sum
  | [], cur => rfl
  | y :: t, cur => by
    simp only [mergeFrom]
    split
    · rw [mergeFrom_count hitems t (merge cur y)]
      simp [hitems]
      omega
    · have ih := mergeFrom_count hitems t y
      simp only [List.map_cons, List.sum_cons] at ih ⊢
      omega

theorem mergeAdjacent_count (hitems : ∀ x y, items (merge x y) = items x ++ items y) (l : List α) :
    ((mergeAdjacent cmp merge l).map fun x => (items x).length).sum = (l.map fun x => (items x).length).sum := by
  cases l with
  | nil => rfl
  | cons x t => exact mergeFrom_count cmp merge items hitems t x

end merge

theorem flatItems_perm {K β : Type} (key : α → K) (items : α → List β) {l l' : List α} (h : l.Perm l') :
    (flatItems key items l).Perm (flatItems key items l') := by
  unfold flatItems
  exact List.Perm.flatten (List.Perm.map _ h)

end Stef.Otlp
