/-
  Generic lemmas about the stable insertion sort and the merge-equal-neighbours loop of the
  traces sorting mode (Stef/Otlp/Traces.lean).
-/
import Stef.Otlp.Traces

namespace Stef.Otlp

variable {α : Type}

theorem insertStable_perm (cmp : α → α → Option Int) (x : α) : ∀ (l l' : List α),
    insertStable cmp x l = some l' → l'.Perm (x :: l)
  | [], l', h => by
    simp [insertStable] at h; subst h; exact List.Perm.refl _
  | y :: t, l', h => by
    simp only [insertStable] at h
    split at h
    · simp at h
    · rename_i c _
      split at h
      · split at h
        · simp at h
        · rename_i t' ht
          simp at h; subst h
          have ih := insertStable_perm cmp x t t' ht
          exact (List.Perm.cons y ih).trans (List.Perm.swap x y t)
      · simp at h; subst h; exact List.Perm.refl _

theorem sortStable_perm (cmp : α → α → Option Int) : ∀ (l l' : List α), sortStable cmp l = some l' → l'.Perm l
  | [], l', h => by simp [sortStable] at h; subst h; exact List.Perm.refl _
  | x :: t, l', h => by
    simp only [sortStable] at h
    split at h
    · simp at h
    · rename_i t' ht
      have ih := sortStable_perm cmp t t' ht
      exact (insertStable_perm cmp x t' l' h).trans (List.Perm.cons x ih)

theorem insertSpan_perm (x : Span) : ∀ (l : List Span), (insertSpan x l).Perm (x :: l)
  | [] => List.Perm.refl _
  | y :: t => by
    simp only [insertSpan]
    split
    · exact (List.Perm.cons y (insertSpan_perm x t)).trans (List.Perm.swap x y t)
    · exact List.Perm.refl _

theorem sortSpans_perm : ∀ (l : List Span), (sortSpans l).Perm l
  | [] => List.Perm.refl _
  | x :: t => (insertSpan_perm x (sortSpans t)).trans (List.Perm.cons x (sortSpans_perm t))

/-! ### merging equal neighbours keeps every item under an equal key, in order -/

section merge
variable {K β : Type} (cmp : α → α → Option Int) (merge : α → α → α) (key : α → K) (items : α → List β)

/-- all (key, item) pairs of a list of containers -/
def flatItems (l : List α) : List (K × β) := (l.map fun x => (items x).map fun i => (key x, i)).flatten

theorem mergeFrom_flat
    (hkey : ∀ x y, key (merge x y) = key x) (hitems : ∀ x y, items (merge x y) = items x ++ items y)
    (hcmp : ∀ x x' y, key x = key x' → cmp x y = cmp x' y) :
    ∀ (rest : List α) (cur : α) (out : List α),
      (∀ y ∈ rest, cmp cur y = some 0 → key cur = key y) →
      (∀ x ∈ rest, ∀ y ∈ rest, cmp x y = some 0 → key x = key y) →
      mergeFrom cmp merge cur rest = some out →
      flatItems key items out = flatItems key items (cur :: rest)
  | [], cur, out, _, _, h => by simp [mergeFrom] at h; subst h; rfl
  | y :: t, cur, out, h1, h2, h => by
    simp only [mergeFrom] at h
    split at h
    · simp at h
    · rename_i c hc
      split at h
      · rename_i hc0
        have hc0' : c = 0 := by simpa using hc0
        subst hc0'
        have hk : key cur = key y := h1 y (by simp) hc
        have ih := mergeFrom_flat hkey hitems hcmp t (merge cur y) out
          (by
            intro z hz hz0
            rw [hkey]
            rw [hcmp (merge cur y) cur z (hkey cur y)] at hz0
            exact h1 z (by simp [hz]) hz0)
          (by intro a ha b hb; exact h2 a (by simp [ha]) b (by simp [hb]))
          h
        rw [ih]
        simp [flatItems, hkey, hitems, hk]
      · split at h
        · simp at h
        · rename_i t' ht
          simp at h; subst h
          have ih := mergeFrom_flat hkey hitems hcmp t y t'
            (by intro z hz; exact h2 y (by simp) z (by simp [hz]))
            (by intro a ha b hb; exact h2 a (by simp [ha]) b (by simp [hb]))
            ht
          simp only [flatItems, List.map_cons, List.flatten_cons] at ih ⊢
          rw [ih]

theorem mergeAdjacent_flat
    (hkey : ∀ x y, key (merge x y) = key x) (hitems : ∀ x y, items (merge x y) = items x ++ items y)
    (hcmp : ∀ x x' y, key x = key x' → cmp x y = cmp x' y)
    (l out : List α) (hl : ∀ x ∈ l, ∀ y ∈ l, cmp x y = some 0 → key x = key y)
    (h : mergeAdjacent cmp merge l = some out) : flatItems key items out = flatItems key items l := by
  cases l with
  | nil => simp [mergeAdjacent] at h; subst h; rfl
  | cons x t =>
    exact mergeFrom_flat cmp merge key items hkey hitems hcmp t x out
      (by intro y hy; exact hl x (by simp) y (by simp [hy]))
      (by intro a ha b hb; exact hl a (by simp [ha]) b (by simp [hb])) h

/-- a property closed under merging holds for every output element -/
theorem mergeFrom_all (Q : α → Prop) (hQ : ∀ x y, Q x → Q y → Q (merge x y)) :
    ∀ (rest : List α) (cur : α) (out : List α), Q cur → (∀ y ∈ rest, Q y) →
      mergeFrom cmp merge cur rest = some out → ∀ z ∈ out, Q z
  | [], cur, out, hc, _, h => by simp [mergeFrom] at h; subst h; simpa using hc
  | y :: t, cur, out, hc, hr, h => by
    simp only [mergeFrom] at h
    split at h
    · simp at h
    · split at h
      · exact mergeFrom_all Q hQ t (merge cur y) out (hQ cur y hc (hr y (by simp)))
          (fun z hz => hr z (by simp [hz])) h
      · split at h
        · simp at h
        · rename_i t' ht
          simp at h; subst h
          intro z hz
          simp only [List.mem_cons] at hz
          cases hz with
          | inl e => subst e; exact hc
          | inr hz => exact mergeFrom_all Q hQ t y t' (hr y (by simp)) (fun z hz => hr z (by simp [hz])) ht z hz

theorem mergeAdjacent_all (Q : α → Prop) (hQ : ∀ x y, Q x → Q y → Q (merge x y)) (l out : List α)
    (hl : ∀ y ∈ l, Q y) (h : mergeAdjacent cmp merge l = some out) : ∀ z ∈ out, Q z := by
  cases l with
  | nil => simp [mergeAdjacent] at h; subst h; simp
  | cons x t =>
    exact mergeFrom_all cmp merge Q hQ t x out (hl x (by simp)) (fun z hz => hl z (by simp [hz])) h

end merge

theorem flatItems_perm {K β : Type} (key : α → K) (items : α → List β) {l l' : List α} (h : l.Perm l') :
    (flatItems key items l).Perm (flatItems key items l') := by
  unfold flatItems
  exact List.Perm.flatten (List.Perm.map _ h)

end Stef.Otlp
