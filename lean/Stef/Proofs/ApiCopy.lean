/-
  `copy<T>` (CopyFrom on structs, oneofs, arrays and multimaps) preserves the invariant, for schemas
  WITHOUT dictionary structs (`Ctx.NoDict`). The generated copy code is a composition of the same
  elementary steps as the public setters (presence change, primitive assignment, EnsureLen, SetType,
  recursive copy into a child); `Pres.trans` composes them, the child copies are the induction
  hypothesis (well-founded recursion on the size of the SOURCE, which is how `copy0` recurses).
  With dictionary structs the destination child may be shared/frozen and is replaced (`unshare`,
  `canBeShared`): that needs the functional correctness of the copy inside a dictionary struct and is
  not proved here (the model of those paths is tied to the code by the differential check only).
-/
import Stef.Proofs.ApiPath
namespace Stef.Api
open Stef Stef.Spec Stef.SpecEnc
set_option linter.unusedVariables false
set_option linter.unusedSimpArgs false

theorem join_eq_no (u1 u2 : Up) (h : u1.join u2 = .no) : u1 = .no ∧ u2 = .no := by
  cases u1 <;> cases u2 <;> simp [Up.join] at h ⊢

theorem Pres.trans (C : Ctx) (a b c : AS) (u1 u2 : Up) (h1 : Pres C a b u1) (h2 : Pres C b c u2) : Pres C a c (u1.join u2) := by
  refine ⟨fun R h => h2.snd R (h1.snd R h), fun hq hu => ?_, by rw [h2.kind, h1.kind]⟩
  obtain ⟨e1, e2⟩ := join_eq_no u1 u2 hu
  obtain ⟨q1, s1⟩ := h1.sync hq e1
  obtain ⟨q2, s2⟩ := h2.sync q1 e2
  exact ⟨q2, fun r hr => s2 r (s1 r hr)⟩

theorem canBeShared_false (C : Ctx) (hnd : ∀ n, C.isDictName n = false) (a : AS) : C.canBeShared a = false := by
  cases a <;> simp [Ctx.canBeShared, hnd]

theorem join_no_right (u : Up) : u.join .no = u := by cases u <;> rfl
theorem join_no_left (u : Up) : Up.no.join u = u := by cases u <;> rfl

/-- the value part of one field of `copy<Struct>` (no dictionary structs): unchanged, the copy into the
    current value, or (nil pointer) the copy into a new, fully marked value with the field marked -/
theorem copyFieldValue_cases (E : CopyEnv) (hnd : ∀ n, E.C.isDictName n = false) (fd : Field) (idx : Nat) (sHas gone : Bool)
    (d1 s : AS) (m1 p1 : Nat) (u1 : Up) (cp : AS → AS × Up) (hgs : gone = true → sHas = false ∧ fd.optional = true) :
    copyFieldValue E fd idx sHas gone d1 s m1 p1 u1 cp = (d1, m1, p1, u1) ∨
    gone = false ∧ copyFieldValue E fd idx sHas gone d1 s m1 p1 u1 cp =
      ((cp d1).1, (structRecv m1 idx (cp d1).2).1, p1, u1.join (structRecv m1 idx (cp d1).2).2) ∨
    (∃ y, AnySnd E.C y ∧ gone = false ∧ copyFieldValue E fd idx sHas gone d1 s m1 p1 u1 cp =
      ((cp y).1, (structRecv (structRecv m1 idx .direct).1 idx (cp y).2).1, p1,
      (u1.join (structRecv m1 idx .direct).2).join (structRecv (structRecv m1 idx .direct).1 idx (cp y).2).2)) := by
  have hcs : ∀ a, E.C.canBeShared a = false := canBeShared_false E.C hnd
  unfold copyFieldValue
  simp only [hcs, Bool.false_eq_true, if_false]
  by_cases hptr : E.C.isPtrTy fd.ty = true
  · simp only [hptr, if_true]
    generalize hcond : (if fd.optional = true then (match s with | .nil => false | _ => true) && sHas else true) = srcOk
    cases srcOk with
    | true =>
      simp only [if_true]
      have hg : gone = false := by
        cases hgg : gone with
        | false => rfl
        | true =>
          obtain ⟨h1, h2⟩ := hgs hgg
          simp [h1, h2] at hcond
      cases d1 with
      | nil => right; right; exact ⟨_, anySnd_setModRec _ _, hg, rfl⟩
      | _ => right; left; exact ⟨hg, rfl⟩
    | false =>
      simp only [Bool.false_eq_true, if_false]
      left; trivial
  · simp only [hptr, Bool.false_eq_true, if_false]
    by_cases hg : gone = true
    · simp only [hg, if_true]; left; trivial
    · simp only [hg, Bool.false_eq_true, if_false]
      right; left
      exact ⟨by simp [hg], trivial⟩

/-- one field of `copy<Struct>` as an operation on the destination struct (no dictionary structs) -/
theorem copyFieldStep_pres (E : CopyEnv) (hnd : ∀ n, E.C.isDictName n = false) (n : String) (m p : Nat) (fr : Bool)
    (dfs : List AS) (idx : Nat) (d s : AS) (fd : Field) (sp : Nat) (cp : AS → AS × Up)
    (hfd : (fieldsOf E.C n)[idx]? = some fd) (hd : dfs[idx]? = some d)
    (hcp : ∀ x, Pres E.C x (cp x).1 (cp x).2) :
    Pres E.C (.struct n m p fr dfs)
      (.struct n (copyFieldStep E fd idx (optIndex (fieldsOf E.C n) idx) sp d s m p cp).2.1
        (copyFieldStep E fd idx (optIndex (fieldsOf E.C n) idx) sp d s m p cp).2.2.1 fr
        (dfs.set idx (copyFieldStep E fd idx (optIndex (fieldsOf E.C n) idx) sp d s m p cp).1))
      (copyFieldStep E fd idx (optIndex (fieldsOf E.C n) idx) sp d s m p cp).2.2.2 := by
  have hopt := fdOpt_drop _ idx fd hfd
  have hndn : E.C.isDictName n = false := hnd n
  generalize hoi : optIndex (fieldsOf E.C n) idx = oi
  have hpb_or : ∀ o, (o ≠ optIndex (fieldsOf E.C n) idx ∨ fdOpt ((fieldsOf E.C n).drop idx) = false) →
      (if fd.optional = true then p ||| 2 ^ oi else p).testBit o = p.testBit o := by
    intro o ho
    by_cases hfo : fd.optional = true
    · simp only [hfo, if_true]
      rcases ho with ho | ho
      · rw [hoi] at ho; exact or_two_pow_testBit p _ o ho
      · rw [hopt, hfo] at ho; simp at ho
    · simp [hfo]
  have hpb_or' : fd.optional = true → ∀ o, (o ≠ optIndex (fieldsOf E.C n) idx ∨ fdOpt ((fieldsOf E.C n).drop idx) = false) →
      (p ||| 2 ^ oi).testBit o = p.testBit o := by
    intro hfo o ho
    rcases ho with ho | ho
    · rw [hoi] at ho; exact or_two_pow_testBit p _ o ho
    · rw [hopt, hfo] at ho; simp at ho
  have hpb_xor : fd.optional = true → ∀ o, (o ≠ optIndex (fieldsOf E.C n) idx ∨ fdOpt ((fieldsOf E.C n).drop idx) = false) →
      (p ^^^ 2 ^ oi).testBit o = p.testBit o := by
    intro hfo o ho
    rcases ho with ho | ho
    · rw [hoi] at ho; exact xor_two_pow_testBit p _ o ho
    · rw [hopt, hfo] at ho; simp at ho
  have hself : Pres E.C (.struct n m p fr dfs) (.struct n m p fr (dfs.set idx d)) .no := by
    rw [set_self dfs idx d hd]; exact Pres.refl _ _ _
  have hMset : (structRecv m idx .direct).1.testBit idx = true := structRecv_set m idx .direct (by simp)
  have hagain : ∀ u, structRecv (structRecv m idx .direct).1 idx u = ((structRecv m idx .direct).1, .no) :=
    fun u => structRecv_again _ idx u hMset
  unfold copyFieldStep
  by_cases hprim : isPrimTy fd.ty = true
  · simp only [hprim, if_true]
    split
    · rename_i sv dv
      by_cases hsHas : (!fd.optional || sp.testBit oi) = true
      · simp only [hsHas, if_true]
        split
        · exact pres_struct_mark E.C n m p _ fr dfs idx (.prim dv) (.prim sv) hd hndn hpb_or (fun _ => anySnd_prim _ sv)
        · exact hself
      · simp only [hsHas, Bool.false_eq_true, if_false]
        have hfo : fd.optional = true := by
          cases h : fd.optional <;> simp [h] at hsHas ⊢
        split
        · rename_i hbit
          refine pres_struct_mark E.C n m p _ fr dfs idx (.prim dv) (.prim dv) hd hndn (hpb_xor hfo) (fun hpres => ?_)
          rw [hopt, hfo, hoi] at hpres
          simp [Nat.testBit_xor, Nat.testBit_two_pow, hbit] at hpres
        · exact hself
    · exact hself
  · have hprim : isPrimTy fd.ty = false := by simpa using hprim
    simp only [hprim, Bool.false_eq_true, if_false]
    generalize hsH : (!fd.optional || sp.testBit oi) = sHas
    generalize hdH : (!fd.optional || p.testBit oi) = dHas
    unfold copyFieldPresence
    by_cases hchg : (fd.optional && (sHas != dHas)) = true
    · have hfo : fd.optional = true := by
        cases h : fd.optional <;> simp [h] at hchg ⊢
      simp only [hchg, if_true]
      cases sHas with
      | true =>
        -- becomes present
        have hdh : dHas = false := by cases dHas <;> simp [hfo] at hchg ⊢
        subst hdh
        simp only [if_true, Bool.and_false, Bool.false_and]
        have hx : ∀ a, AnySnd E.C (setModRec (resetAS E.C a)) := fun a => anySnd_setModRec _ _
        rcases copyFieldValue_cases E hnd fd idx true false _ s (structRecv m idx .direct).1 (p ||| 2 ^ oi)
          (structRecv m idx .direct).2 cp (by simp) with h | ⟨_, h⟩ | ⟨y, hy, _, h⟩
        · rw [h]
          exact pres_struct_mark E.C n m p _ fr dfs idx d _ hd hndn (hpb_or' hfo) (fun _ => hx _)
        · rw [h]
          simp only [hagain, join_no_right]
          exact pres_struct_mark E.C n m p _ fr dfs idx d _ hd hndn (hpb_or' hfo) (fun _ R => (hcp _).snd R (hx _ R))
        · rw [h]
          simp only [hagain, join_no_right]
          exact pres_struct_mark E.C n m p _ fr dfs idx d _ hd hndn (hpb_or' hfo) (fun _ R => (hcp _).snd R (hy R))
      | false =>
        -- present in the destination only
        have hdh : dHas = true := by cases dHas <;> simp [hfo] at hchg ⊢
        subst hdh
        simp only [Bool.false_eq_true, if_false, hfo, Bool.and_self, Bool.not_false, Bool.and_true]
        have hb : p.testBit oi = true := by simpa [hfo] using hdH
        rcases copyFieldValue_cases E hnd fd idx false true (resetAS E.C d) s (structRecv m idx .direct).1 (p ^^^ 2 ^ oi)
          (structRecv m idx .direct).2 cp (fun _ => ⟨rfl, hfo⟩) with h | ⟨hg, _⟩ | ⟨y, _, hg, _⟩
        · rw [h]
          refine pres_struct_mark E.C n m p _ fr dfs idx d _ hd hndn (hpb_xor hfo) (fun hpres => ?_)
          rw [hopt, hfo, hoi] at hpres
          simp [Nat.testBit_xor, Nat.testBit_two_pow, hb] at hpres
        · simp at hg
        · simp at hg
    · have hchg : (fd.optional && (sHas != dHas)) = false := by simpa using hchg
      simp only [hchg, Bool.false_eq_true, if_false]
      have hgone : (fd.optional && dHas && !sHas) = false := by
        cases h1 : fd.optional <;> cases sHas <;> cases dHas <;> simp [h1] at hchg ⊢
      rw [hgone]
      rcases copyFieldValue_cases E hnd fd idx sHas false d s m p .no cp (by simp) with h | ⟨_, h⟩ | ⟨y, hy, _, h⟩
      · rw [h]; exact hself
      · rw [h]
        simp only [join_no_left]
        exact pres_field E.C n m p fr dfs idx d _ _ hd (hcp d) hndn
      · rw [h]
        simp only [hagain, join_no_right, join_no_left]
        exact pres_struct_mark E.C n m p p fr dfs idx d _ hd hndn (fun _ _ => rfl) (fun _ R => (hcp _).snd R (hy R))

theorem optIndex_step (fs : List Field) (i : Nat) (fd : Field) (h : fs[i]? = some fd) :
    optIndex fs (i + 1) = optIndex fs i + (if fd.optional then 1 else 0) := by
  unfold optIndex
  rw [List.take_add_one, h]
  simp only [Option.toList, List.filter_append, List.length_append]
  by_cases ho : fd.optional = true <;> simp [List.filter_cons, ho]

theorem drop_eq_cons_get {α} (l : List α) (i : Nat) (x : α) (xs : List α) (h : l.drop i = x :: xs) :
    l[i]? = some x ∧ l.drop (i + 1) = xs := by
  constructor
  · have := congrArg (fun l => l[0]?) h
    simpa [List.getElem?_drop] using this
  · have := congrArg List.tail h
    simpa [List.tail_drop] using this

theorem copyFields_pres (E : CopyEnv) (hnd : ∀ n, E.C.isDictName n = false) :
    ∀ (sfs : List AS), (∀ s ∈ sfs, ∀ x, Pres E.C x (copy0 E x s).1 (copy0 E x s).2) →
    ∀ (fds : List Field) (dfs : List AS) (idx oi m p : Nat) (pre : List AS) (n : String) (fr : Bool) (sp : Nat),
    fds = (fieldsOf E.C n).drop idx → idx = pre.length → oi = optIndex (fieldsOf E.C n) idx →
    Pres E.C (.struct n m p fr (pre ++ dfs))
      (.struct n (copyFields E fds idx oi sp dfs sfs m p).2.1 (copyFields E fds idx oi sp dfs sfs m p).2.2.1 fr
        (pre ++ (copyFields E fds idx oi sp dfs sfs m p).1))
      (copyFields E fds idx oi sp dfs sfs m p).2.2.2
  | [], _, fds, dfs, idx, oi, m, p, pre, n, fr, sp, _, _, _ => by
    cases fds <;> cases dfs <;> (simp only [copyFields]; exact Pres.refl _ _ _)
  | s :: sfs, _, [], dfs, idx, oi, m, p, pre, n, fr, sp, _, _, _ => by
    simp only [copyFields]; exact Pres.refl _ _ _
  | s :: sfs, _, fd :: fds, [], idx, oi, m, p, pre, n, fr, sp, _, _, _ => by
    simp only [copyFields]; exact Pres.refl _ _ _
  | s :: sfs, ih, fd :: fds, d :: dfs, idx, oi, m, p, pre, n, fr, sp, hfds, hidx, hoi => by
    simp only [copyFields]
    obtain ⟨hfd, hfds'⟩ := drop_eq_cons_get _ idx fd fds hfds.symm
    subst hoi
    have hd : (pre ++ d :: dfs)[idx]? = some d := by
      rw [hidx]; simp
    have h1 := copyFieldStep_pres E hnd n m p fr (pre ++ d :: dfs) idx d s fd sp (fun x => copy0 E x s) hfd hd
      (fun x => ih s (by simp) x)
    have hset : (pre ++ d :: dfs).set idx (copyFieldStep E fd idx (optIndex (fieldsOf E.C n) idx) sp d s m p (fun x => copy0 E x s)).1 =
        (pre ++ [(copyFieldStep E fd idx (optIndex (fieldsOf E.C n) idx) sp d s m p (fun x => copy0 E x s)).1]) ++ dfs := by
      rw [hidx]; simp
    rw [hset] at h1
    have h2 := copyFields_pres E hnd sfs (fun s' hs' x => ih s' (by simp [hs']) x) fds dfs (idx + 1)
      (if fd.optional = true then optIndex (fieldsOf E.C n) idx + 1 else optIndex (fieldsOf E.C n) idx)
      (copyFieldStep E fd idx (optIndex (fieldsOf E.C n) idx) sp d s m p (fun x => copy0 E x s)).2.1
      (copyFieldStep E fd idx (optIndex (fieldsOf E.C n) idx) sp d s m p (fun x => copy0 E x s)).2.2.1
      (pre ++ [(copyFieldStep E fd idx (optIndex (fieldsOf E.C n) idx) sp d s m p (fun x => copy0 E x s)).1]) n fr sp
      hfds'.symm (by simp [hidx]) (by rw [optIndex_step _ idx fd hfd]; split <;> simp_all)
    have h3 := Pres.trans _ _ _ _ _ _ h1 h2
    simpa [List.append_assoc] using h3

theorem join_assoc (a b c : Up) : (a.join b).join c = a.join (b.join c) := by
  cases a <;> cases b <;> cases c <;> rfl

/-! ### oneof -/

theorem copyAlt_pres (E : CopyEnv) : ∀ (ss : List AS), (∀ s ∈ ss, ∀ x, Pres E.C x (copy0 E x s).1 (copy0 E x s).2) →
    ∀ (i : Nat) (das pre : List AS) (n : String) (t : Nat),
    Pres E.C (.oneof n t (pre ++ das)) (.oneof n t (pre ++ (copyAlt E i das ss).1)) (copyAlt E i das ss).2
  | [], _, i, das, pre, n, t => by simp only [copyAlt]; exact Pres.refl _ _ _
  | s :: ss, ih, 0, [], pre, n, t => by simp only [copyAlt]; exact Pres.refl _ _ _
  | s :: ss, ih, 0, d :: ds, pre, n, t => by
    simp only [copyAlt]
    have hc : (pre ++ d :: ds)[(pre.length + 1) - 1]? = some d := by simp
    have := pres_alt E.C n t (pre ++ d :: ds) (pre.length + 1) d _ _ hc (ih s (by simp) d)
    simpa using this
  | s :: ss, ih, i + 1, [], pre, n, t => by simp only [copyAlt]; exact Pres.refl _ _ _
  | s :: ss, ih, i + 1, d :: ds, pre, n, t => by
    simp only [copyAlt]
    have := copyAlt_pres E ss (fun s' hs' x => ih s' (by simp [hs']) x) i ds (pre ++ [d]) n t
    simpa [List.append_assoc] using this

theorem sndAlt_set_any (C : Ctx) : ∀ (i : Nat) (as : List AS) (x : AS) (R : Option St), AnySnd C x → SndAlt C i (as.set i x) R
  | _, [], _, _, _ => by simp [SndAlt]
  | 0, a :: as, x, R, hx => by simp only [List.set_cons_zero, SndAlt]; exact hx R
  | i + 1, a :: as, x, R, hx => by simp only [List.set_cons_succ, SndAlt]; exact sndAlt_set_any C i as x R hx

theorem getD_ne_default {α} (l : List α) (i : Nat) (dflt x : α) (h : l.getD i dflt = x) (hne : x ≠ dflt) : l[i]? = some x := by
  unfold List.getD at h
  cases hl : l[i]? with
  | none => rw [hl] at h; simp at h; exact absurd h.symm hne
  | some y => rw [hl] at h; simp at h; rw [h]

/-! ### arrays -/

theorem copyElems_snd (E : CopyEnv) (hnd : ∀ n, E.C.isDictName n = false) (ety : Ty) :
    ∀ (ses : List AS), (∀ s ∈ ses, ∀ x, Pres E.C x (copy0 E x s).1 (copy0 E x s).2) →
    ∀ (des : List AS) (rs : List St) (i minLen : Nat), SndElems E.C des rs → SndElems E.C (copyElems E ety i minLen des ses).1 rs
  | [], _, des, rs, i, minLen, h => by simpa [copyElems] using h
  | s :: ses, ih, [], rs, i, minLen, h => by simp [copyElems, SndElems]
  | s :: ses, ih, d :: ds, rs, i, minLen, h => by
    have hcs : ∀ a, E.C.canBeShared a = false := canBeShared_false E.C hnd
    simp only [copyElems, hcs, Bool.and_false, Bool.false_eq_true, if_false]
    simp only [SndElems] at h ⊢
    refine ⟨?_, copyElems_snd E hnd ety ses (fun s' hs' x => ih s' (by simp [hs']) x) ds rs.tail (i + 1) minLen h.2⟩
    by_cases hp : isPrimTy ety = true
    · simp only [hp, if_true]
      split
      · split
        · simp [Snd]
        · exact h.1
      · exact h.1
    · simp only [hp, Bool.false_eq_true, if_false]
      by_cases hi : i < minLen
      · simp only [hi, if_true]
        exact (ih s (by simp) d).snd _ h.1
      · simp only [hi, if_false]
        exact anySnd_setModRec _ _ _

theorem copyElems_unmod (E : CopyEnv) (hnd : ∀ n, E.C.isDictName n = false) (ety : Ty) :
    ∀ (ses des : List AS) (i minLen : Nat), (copyElems E ety i minLen des ses).2.1 = false →
    (copyElems E ety i minLen des ses).1 = des
  | [], des, i, minLen, _ => by simp [copyElems]
  | s :: ses, [], i, minLen, _ => by simp [copyElems]
  | s :: ses, d :: ds, i, minLen, h => by
    have hcs : ∀ a, E.C.canBeShared a = false := canBeShared_false E.C hnd
    simp only [copyElems, hcs, Bool.and_false, Bool.false_eq_true, if_false] at h ⊢
    simp only [Bool.or_eq_false_iff] at h
    obtain ⟨h1, h2⟩ := h
    have ih := copyElems_unmod E hnd ety ses ds (i + 1) minLen h2
    rw [ih]
    congr 1
    by_cases hp : isPrimTy ety = true
    · simp only [hp, if_true] at h1 ⊢
      split
      · split
        · rename_i hne
          simp [hne] at h1
        · rfl
      · rfl
    · simp only [hp, Bool.false_eq_true, if_false] at h1
      by_cases hi : i < minLen
      · simp [hi] at h1
      · simp [hi] at h1

/-- the element phase of `copy<Array>` as an operation on the (already resized) destination -/
theorem copyElems_pres (E : CopyEnv) (hnd : ∀ n, E.C.isDictName n = false) (ety e : Ty) (ses : List AS)
    (ih : ∀ s ∈ ses, ∀ x, Pres E.C x (copy0 E x s).1 (copy0 E x s).2) (des hid : List AS) (minLen : Nat) (isMod0 : Bool) :
    Pres E.C (.arr e des hid) (.arr e (copyElems E ety 0 minLen des ses).1 hid)
      ((copyElems E ety 0 minLen des ses).2.2.join
        (if (isMod0 || (copyElems E ety 0 minLen des ses).2.1) = true then Up.direct else Up.no)) := by
  refine ⟨fun R h => ?_, fun hq hu => ?_, rfl⟩
  · simp only [Snd] at h ⊢
    exact copyElems_snd E hnd ety ses ih des _ 0 minLen h
  · obtain ⟨_, h2⟩ := join_eq_no _ _ hu
    have hm : (copyElems E ety 0 minLen des ses).2.1 = false := by
      cases hh : (copyElems E ety 0 minLen des ses).2.1 with
      | false => rfl
      | true => simp [hh] at h2
    rw [copyElems_unmod E hnd ety ses des 0 minLen hm]
    exact ⟨hq, fun _ h => h⟩

/-! ### multimaps -/

theorem copyKV_cases (E : CopyEnv) (isPrim : Bool) (bit : Nat) (d s : AS) (mask : Nat) (cp : AS → AS × Up) :
    copyKV E isPrim bit d s mask cp = (d, mask, .no) ∨
    (∃ x y, d = .prim y ∧ copyKV E isPrim bit d s mask cp = (.prim x, (trackerRecv mask bit .direct).1, (trackerRecv mask bit .direct).2)) ∨
    copyKV E isPrim bit d s mask cp = ((cp d).1, (trackerRecv mask bit (cp d).2).1, (trackerRecv mask bit (cp d).2).2) := by
  unfold copyKV
  by_cases hp : isPrim = true
  · simp only [hp, if_true]
    split
    · rename_i x y
      split
      · right; left; exact ⟨x, y, rfl, rfl⟩
      · left; rfl
    · left; rfl
  · simp only [hp, Bool.false_eq_true, if_false]
    split
    · right; right; rfl
    · left; rfl

theorem copyPairs_pres (E : CopyEnv) (kPrim vPrim : Bool) :
    ∀ (sps : List (AS × AS)), (∀ s ∈ sps, (∀ x, Pres E.C x (copy0 E x s.1).1 (copy0 E x s.1).2) ∧
      (∀ x, Pres E.C x (copy0 E x s.2).1 (copy0 E x s.2).2)) →
    ∀ (dps pre hid : List (AS × AS)) (i k v : Nat) (ml : Bool) (n : String), i = pre.length →
    Pres E.C (.mmap n (pre ++ dps) hid k v ml)
      (.mmap n (pre ++ (copyPairs E kPrim vPrim i dps sps k v).1) hid (copyPairs E kPrim vPrim i dps sps k v).2.1
        (copyPairs E kPrim vPrim i dps sps k v).2.2.1 ml)
      (copyPairs E kPrim vPrim i dps sps k v).2.2.2
  | [], _, dps, pre, hid, i, k, v, ml, n, _ => by simp only [copyPairs]; exact Pres.refl _ _ _
  | (sk, sv) :: sps, ih, [], pre, hid, i, k, v, ml, n, _ => by simp only [copyPairs]; exact Pres.refl _ _ _
  | (sk, sv) :: sps, ih, (dk, dv) :: ds, pre, hid, i, k, v, ml, n, hi => by
    simp only [copyPairs]
    have hget : (pre ++ (dk, dv) :: ds)[i]? = some (dk, dv) := by rw [hi]; simp
    -- the key
    have hkey : Pres E.C (.mmap n (pre ++ (dk, dv) :: ds) hid k v ml)
        (.mmap n (pre ++ ((copyKV E kPrim (maskForIndex i) dk sk k (fun x => copy0 E x sk)).1, dv) :: ds) hid
          (copyKV E kPrim (maskForIndex i) dk sk k (fun x => copy0 E x sk)).2.1 v ml)
        (copyKV E kPrim (maskForIndex i) dk sk k (fun x => copy0 E x sk)).2.2 := by
      rcases copyKV_cases E kPrim (maskForIndex i) dk sk k (fun x => copy0 E x sk) with h | ⟨x, y, rfl, h⟩ | h
      · rw [h]; exact Pres.refl _ _ _
      · rw [h]
        have := pres_key E.C n (pre ++ (.prim y, dv) :: ds) hid k v ml i (.prim y) dv (.prim x) .direct hget (pres_prim_direct E.C y x)
        simpa [hi] using this
      · rw [h]
        have := pres_key E.C n (pre ++ (dk, dv) :: ds) hid k v ml i dk dv _ _ hget ((ih (sk, sv) (by simp)).1 dk)
        simpa [hi] using this
    -- the value
    have hget2 : ∀ dk', (pre ++ (dk', dv) :: ds)[i]? = some (dk', dv) := by intro dk'; rw [hi]; simp
    have hval : ∀ dk' k', Pres E.C (.mmap n (pre ++ (dk', dv) :: ds) hid k' v ml)
        (.mmap n (pre ++ (dk', (copyKV E vPrim (maskForIndex i) dv sv v (fun x => copy0 E x sv)).1) :: ds) hid k'
          (copyKV E vPrim (maskForIndex i) dv sv v (fun x => copy0 E x sv)).2.1 ml)
        (copyKV E vPrim (maskForIndex i) dv sv v (fun x => copy0 E x sv)).2.2 := by
      intro dk' k'
      rcases copyKV_cases E vPrim (maskForIndex i) dv sv v (fun x => copy0 E x sv) with h | ⟨x, y, rfl, h⟩ | h
      · rw [h]; exact Pres.refl _ _ _
      · rw [h]
        have := pres_val E.C n (pre ++ (dk', .prim y) :: ds) hid k' v ml i dk' (.prim y) (.prim x) .direct (hget2 dk') (pres_prim_direct E.C y x)
        simpa [hi] using this
      · rw [h]
        have := pres_val E.C n (pre ++ (dk', dv) :: ds) hid k' v ml i dk' dv _ _ (hget2 dk') ((ih (sk, sv) (by simp)).2 dv)
        simpa [hi] using this
    have hrest := copyPairs_pres E kPrim vPrim sps (fun s hs => ih s (by simp [hs])) ds
      (pre ++ [((copyKV E kPrim (maskForIndex i) dk sk k (fun x => copy0 E x sk)).1,
                (copyKV E vPrim (maskForIndex i) dv sv v (fun x => copy0 E x sv)).1)]) hid (i + 1)
      (copyKV E kPrim (maskForIndex i) dk sk k (fun x => copy0 E x sk)).2.1
      (copyKV E vPrim (maskForIndex i) dv sv v (fun x => copy0 E x sv)).2.1 ml n (by simp [hi])
    have hrest' := hrest
    simp only [List.append_assoc, List.singleton_append] at hrest'
    have h3 := Pres.trans _ _ _ _ _ _ (Pres.trans _ _ _ _ _ _ hkey (hval _ _)) hrest'
    simpa [List.append_assoc] using h3

theorem copy0_pres (E : CopyEnv) (hnd : ∀ n, E.C.isDictName n = false) :
    ∀ (src dst : AS), Pres E.C dst (copy0 E dst src).1 (copy0 E dst src).2
  | .struct sn sm sp sfr sfs, dst => by
    cases dst with
    | struct n m p fr dfs =>
      simp only [copy0]
      have := copyFields_pres E hnd sfs (fun s hs x => copy0_pres E hnd s x) (fieldsOf E.C n) dfs 0 0 m p [] n fr sp (by simp) rfl
        (by simp [optIndex])
      simpa using this
    | _ => simp only [copy0]; exact Pres.refl _ _ _
  | .oneof sn st salts, dst => by
    cases dst with
    | oneof n t dalts =>
      simp only [copy0]
      by_cases hst : st = 0
      · simp only [hst, if_true]
        by_cases ht : t = 0
        · simp only [ht, ne_eq, not_true_eq_false, if_false]
          exact Pres.refl _ _ _
        · simp only [ht, ne_eq, not_false_eq_true, if_true]
          exact pres_direct E.C _ _ rfl (fun R => by simp [Snd])
      · simp only [hst, if_false]
        split
        · -- a primitive alternative: dst.Set<Alt>(v)
          split
          · rename_i x y hsv hdv
            split
            · refine pres_direct E.C _ _ rfl (anySnd_oneof E.C n st _ (.prim x) ?_ (anySnd_prim _ x))
              exact getElem?_set_self dalts (st - 1) (.prim y) _ (getD_ne_default dalts (st - 1) .nil (.prim y) hdv (by simp))
            · exact Pres.refl _ _ _
          · exact Pres.refl _ _ _
        · -- a composite alternative: dst.SetType(typ); copy<T>(dst.alt, src.alt)
          have hcp := copyAlt_pres E salts (fun s hs x => copy0_pres E hnd s x) (st - 1)
          by_cases hts : t = st
          · subst hts
            simp only [ne_eq, not_true_eq_false, if_false]
            have h2 := hcp dalts [] n t
            simpa [join_no_left] using h2
          · simp only [hts, ne_eq, not_false_eq_true, if_true]
            have key : ∀ y, Pres E.C (.oneof n t dalts)
                (.oneof n st (copyAlt E (st - 1) (setNth dalts (st - 1) (setModRec y)) salts).1)
                (Up.direct.join (copyAlt E (st - 1) (setNth dalts (st - 1) (setModRec y)) salts).2) := by
              intro y
              have h1 : Pres E.C (.oneof n t dalts) (.oneof n st (setNth dalts (st - 1) (setModRec y))) .direct := by
                refine pres_direct E.C _ _ rfl (fun R => ?_)
                simp only [Snd]
                exact Or.inr (sndAlt_set_any E.C (st - 1) dalts _ _ (anySnd_setModRec _ _))
              have h2 := hcp (setNth dalts (st - 1) (setModRec y)) [] n st
              simpa using Pres.trans _ _ _ _ _ _ h1 h2
            exact key _
    | _ => simp only [copy0]; exact Pres.refl _ _ _
  | .arr se ses shid, dst => by
    cases dst with
    | arr e des dhid =>
      simp only [copy0]
      have ih : ∀ s ∈ ses, ∀ x, Pres E.C x (copy0 E x s).1 (copy0 E x s).2 := fun s hs x => copy0_pres E hnd s x
      by_cases hl : des.length = ses.length
      · simp only [hl, ne_eq, not_true_eq_false, if_false]
        have h2 := copyElems_pres E hnd e e ses ih des dhid (min ses.length ses.length) false
        simpa [join_no_left, hl] using h2
      · simp only [hl, ne_eq, not_false_eq_true, if_true]
        have h1 := arrEnsureLen_pres E.C e des dhid ses.length
        have h2 := copyElems_pres E hnd e e ses ih (arrEnsureLen E.C e des dhid ses.length).1
          (arrEnsureLen E.C e des dhid ses.length).2.1 (min des.length ses.length) true
        have h3 := Pres.trans _ _ _ _ _ _ h1 h2
        simpa [join_assoc] using h3
    | _ => simp only [copy0]; exact Pres.refl _ _ _
  | .mmap sn sps shid sk sv sml, dst => by
    cases dst with
    | mmap n dps dhid k v ml =>
      simp only [copy0]
      have ih : ∀ s ∈ sps, (∀ x, Pres E.C x (copy0 E x s.1).1 (copy0 E x s.1).2) ∧
          (∀ x, Pres E.C x (copy0 E x s.2).1 (copy0 E x s.2).2) :=
        fun s hs => match s, hs with
          | (a, b), hs => ⟨fun x => copy0_pres E hnd a x, fun x => copy0_pres E hnd b x⟩
      by_cases hl : dps.length = sps.length
      · simp only [hl, ne_eq, not_true_eq_false, if_false]
        have h2 := copyPairs_pres E (isPrimTy (mmapTys E.C n).1) (isPrimTy (mmapTys E.C n).2) sps ih dps [] dhid 0 k v ml n rfl
        simpa [join_no_left] using h2
      · simp only [hl, ne_eq, not_false_eq_true, if_true]
        have h1 := mmEnsureLen_pres E.C n dps dhid k v ml sps.length
        have h2 := copyPairs_pres E (isPrimTy (mmapTys E.C n).1) (isPrimTy (mmapTys E.C n).2) sps ih
          (mmEnsureLen E.C n dps dhid k v ml sps.length).1 [] (mmEnsureLen E.C n dps dhid k v ml sps.length).2.1 0
          (mmEnsureLen E.C n dps dhid k v ml sps.length).2.2.1 (mmEnsureLen E.C n dps dhid k v ml sps.length).2.2.2.1
          (mmEnsureLen E.C n dps dhid k v ml sps.length).2.2.2.2.1 n rfl
        have h3 := Pres.trans _ _ _ _ _ _ h1 h2
        simpa using h3
    | _ => simp only [copy0]; exact Pres.refl _ _ _
  | .prim v, dst => by simp only [copy0]; exact Pres.refl _ _ _
  | .nil, dst => by simp only [copy0]; exact Pres.refl _ _ _
termination_by src => sizeOf src
decreasing_by
  all_goals simp_wf
  all_goals
    have := List.sizeOf_lt_of_mem hs
    try simp only [Prod.mk.sizeOf_spec] at this
    omega

/-! ## CopyFrom as a public call -/

/-- the schema has no dictionary struct -/
def Ctx.NoDict (C : Ctx) : Prop := ∀ n, C.isDictName n = false

def Ctx.noDictB (C : Ctx) : Bool :=
  C.σ.defs.all (fun d => match d.2 with | .struct (some _) _ => false | _ => true)

theorem Ctx.noDict_of_b (C : Ctx) (h : C.noDictB = true) : C.NoDict := by
  intro n
  simp only [Ctx.noDictB, List.all_eq_true] at h
  unfold Ctx.isDictName Schema.find
  cases hf : C.σ.defs.find? (·.1 = n) with
  | none => rfl
  | some d =>
    have hm := h d (List.mem_of_find?_eq_some hf)
    simp only [Option.map_some]
    split
    · rename_i heq
      simp only [Option.some.injEq] at heq
      rw [heq] at hm
      simp at hm
    · rfl

theorem copyLvl_pres (C : Ctx) (hnd : C.NoDict) : ∀ (k : Nat) (dst src : AS), Pres C dst (copyLvl C k dst src).1 (copyLvl C k dst src).2
  | 0, dst, src => copy0_pres { C := C, unshare := fun _ sh => (sh, .no) } hnd src dst
  | k + 1, dst, src => copy0_pres { C := C, unshare := fun ty sh =>
      let (o, u) := copyLvl C k (C.init ty) sh
      (setUnmodRec o, u) } hnd src dst

theorem copy_pres (C : Ctx) (hnd : C.NoDict) (dst src : AS) : Pres C dst (C.copy dst src).1 (C.copy dst src).2 :=
  copyLvl_pres C hnd _ dst src

/-- `CopyFrom(src)` on a struct, a oneof or a multimap (any source state, any destination state) -/
theorem copyFrom_pres (C : Ctx) (hnd : C.NoDict) (src w w' : AS) (u : Up) (h : applyOp C (.copyFrom src) w = .ok (w', u)) :
    Pres C w w' u := by
  cases w with
  | struct n m p fr fs =>
    simp only [applyOp, Except.ok.injEq] at h
    have := copy_pres C hnd (.struct n m p fr fs) src; rw [h] at this; exact this
  | oneof n t as =>
    simp only [applyOp, Except.ok.injEq] at h
    have := copy_pres C hnd (.oneof n t as) src; rw [h] at this; exact this
  | mmap n ps hid k v ml =>
    simp only [applyOp, Except.ok.injEq] at h
    have := copy_pres C hnd (.mmap n ps hid k v ml) src; rw [h] at this; exact this
  | prim v => simp [applyOp] at h
  | nil => simp [applyOp] at h
  | arr e es hid => simp [applyOp] at h

/-- the calls covered by the preservation proof: everything except CopyFrom, and CopyFrom too when
    the schema has no dictionary struct -/
def OpOk (C : Ctx) (op : Op) : Prop := op.isCopy = false ∨ C.NoDict

theorem applyOp_pres' (C : Ctx) (op : Op) (hb : OpOk C op) (w w' : AS) (u : Up) (hnd : C.isDictNode w = false)
    (h : applyOp C op w = .ok (w', u)) : Pres C w w' u := by
  by_cases hc : op.isCopy = false
  · exact applyOp_pres C op hc w w' u hnd h
  · have hN : C.NoDict := by
      rcases hb with hb | hb
      · exact absurd hb hc
      · exact hb
    cases op with
    | copyFrom src => exact copyFrom_pres C hN src w w' u h
    | _ => simp [Op.isCopy] at hc

theorem call_snd' (C : Ctx) (path : List Step) (op : Op) (hb : OpOk C op) (w w' : AS) (R : Option St)
    (hnd : C.isDictNode w = false) (h : call C path op w = .ok w') (hs : Snd C w R) : Snd C w' R := by
  unfold call at h
  cases hr : applyAt C (applyOp C op) path w with
  | error e => simp [hr, Except.map] at h
  | ok r =>
    obtain ⟨w1, u⟩ := r
    simp only [hr, Except.map, Except.ok.injEq] at h
    subst h
    exact (applyAt_pres C (applyOp C op) (fun a a' ua hnd ha => applyOp_pres' C op hb a a' ua hnd ha) path w w1 u hnd hr).snd R hs

end Stef.Api
