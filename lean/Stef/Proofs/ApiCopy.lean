/-
  `copy<T>` (CopyFrom on structs, oneofs, arrays and multimaps) preserves the invariant, for EVERY schema
  (dictionary structs included). The generated copy code is a composition of the same elementary steps
  as the public setters (presence change, primitive assignment, EnsureLen, SetType, recursive copy into a
  child); `Pres.trans` composes them, the child copies are the induction hypothesis (well-founded
  recursion on the size of the SOURCE, which is how `copy0` recurses).
  Dictionary structs: a shared (frozen) source is assigned by reference (the field is marked); an owned
  destination child is an ordinary copy destination - its marks are up-closed (`UC`), so a change inside
  it reaches the parent; a shared destination child is replaced by an owned copy without marks first
  (`unshare`, `unshare_pres`: the copy compares equal to the shared value - checked by the model - hence
  shows the same reader value; it is the result of a copy into a new value, hence up-closed, hence
  without marks after `setUnmodifiedRecursively`).
-/
import Stef.Proofs.ApiLeaf
import Stef.Proofs.ApiVis
namespace Stef.Api
open Stef Stef.Spec Stef.SpecEnc
set_option linter.unusedVariables false
set_option linter.unusedSimpArgs false

theorem join_eq_no (u1 u2 : Up) (h : u1.join u2 = .no) : u1 = .no ∧ u2 = .no := by
  cases u1 <;> cases u2 <;> simp [Up.join] at h ⊢

theorem Pres.trans (C : Ctx) (a b c : AS) (u1 u2 : Up) (h1 : Pres C a b u1) (h2 : Pres C b c u2) : Pres C a c (u1.join u2) := by
  refine ⟨fun ℓ R h => h2.snd ℓ R (h1.snd ℓ R h), fun hq hu => ?_, by rw [h2.kind, h1.kind]⟩
  obtain ⟨e1, e2⟩ := join_eq_no u1 u2 hu
  obtain ⟨q1, s1⟩ := h1.sync hq e1
  obtain ⟨q2, s2⟩ := h2.sync q1 e2
  exact ⟨q2, fun r hr => s2 r (s1 r hr)⟩

theorem join_no_right (u : Up) : u.join .no = u := by cases u <;> rfl
theorem join_no_left (u : Up) : Up.no.join u = u := by cases u <;> rfl

/-! ## a new value has no marks; `reset()` keeps marks up-closed -/

def fieldA (C : Ctx) (fuel : Nat) (fd : Field) : AS :=
  if isPrimTy fd.ty then initAS C fuel fd.ty
  else if C.isPtrTy fd.ty && fd.optional then .nil
  else initAS C fuel fd.ty

theorem fieldA_req (C : Ctx) (fuel : Nat) (fd : Field) (h : fd.optional = false) : fieldA C fuel fd = initAS C fuel fd.ty := by
  unfold fieldA; simp [h]

theorem init_fields_uc (C : Ctx) (fuel : Nat) (ih : ∀ ty, Quiet C (initAS C fuel ty) ∧ UC C (initAS C fuel ty)) :
    ∀ (fds : List Field) (idx oi : Nat) (known : Bool) (rp : Nat) (rfs : List St),
      QuietFields C fds oi 0 (fds.map (fieldA C fuel)) ∧
      SndFieldsG C true fds idx oi 0 0 known rp (fds.map (fieldA C fuel)) rfs
  | [], _, _, _, _, _ => by simp [QuietFields, SndFieldsG]
  | fd :: fds, idx, oi, known, rp, rfs => by
    simp only [List.map_cons, QuietFields, SndFieldsG, List.tail_cons, fdOpt_cons, Nat.zero_testBit, Bool.or_false,
      Bool.not_eq_true', Bool.not_eq_false']
    obtain ⟨g1, g2⟩ := init_fields_uc C fuel ih fds (idx + 1) (if fd.optional = true then oi + 1 else oi) known rp rfs.tail
    have huc : UC C (fieldA C fuel fd) := by
      unfold fieldA
      split
      · exact (ih _).2
      · split
        · simp [UC, SndG]
        · exact (ih _).2
    refine ⟨⟨fun hp => ?_, g1⟩, fun hp => ⟨fun h0 => by simp at h0, fun _ => ⟨Or.inl trivial, ?_, huc⟩⟩, fun _ => huc, g2⟩
    · rw [fieldA_req C fuel fd hp]; exact (ih fd.ty).1
    · rw [fieldA_req C fuel fd hp]; exact (ih fd.ty).1

theorem initAS_quiet_uc (C : Ctx) : ∀ (fuel : Nat) (ty : Ty), Quiet C (initAS C fuel ty) ∧ UC C (initAS C fuel ty)
  | 0, ty => by simp [initAS, Quiet, UC, SndG]
  | fuel + 1, .prim p d => by simp [initAS, Quiet, UC, SndG]
  | fuel + 1, .arr e => by simp [initAS, Quiet, UC, SndG, QuietElems, SndElemsG]
  | fuel + 1, .ref n => by
    simp only [initAS]
    cases hf : C.σ.find n with
    | none => simp [Quiet, UC, SndG]
    | some d =>
      cases d with
      | struct dn fs =>
        simp only
        have hfo : fieldsOf C n = fs := by simp [fieldsOf, hf]
        obtain ⟨g1, g2⟩ := init_fields_uc C fuel (initAS_quiet_uc C fuel) fs 0 0 false 0 []
        constructor
        · simp only [Quiet, hfo]
          exact Or.inr ⟨trivial, g1⟩
        · simp only [UC, SndG, hfo]
          by_cases hd : C.isDictName n = true
          · exact Or.inl ⟨hd, Or.inr g2⟩
          · exact Or.inr ⟨by simpa using hd, g2⟩
      | oneof fs => simp [Quiet, UC, SndG]
      | mmap k v => simp [Quiet, UC, SndG]

theorem uc_init (C : Ctx) (ty : Ty) : UC C (C.init ty) := (initAS_quiet_uc C _ ty).2
theorem quiet_init (C : Ctx) (ty : Ty) : Quiet C (C.init ty) := (initAS_quiet_uc C _ ty).1

theorem uc_shared (C : Ctx) (a : AS) (h : C.canBeShared a = true) : UC C a := anySnd_shared C a h true none

/-- one field of `reset()` -/
def resetElem (C : Ctx) (fds : List Field) (a : AS) : AS :=
  match a with
  | .prim v => .prim (primZero v)
  | .nil => .nil
  | a => if (fds.head?.map (fun fd => C.isDictTy fd.ty)).getD false
         then C.emptyOf ((fds.head?.map (·.ty)).getD (.prim .bool none)) else resetAS C a

theorem resetFields_cons (C : Ctx) (fds : List Field) (a : AS) (as : List AS) :
    resetFields C fds (a :: as) = resetElem C fds a :: resetFields C fds.tail as := by
  cases a <;> simp only [resetFields, resetElem]

theorem resetElem_good (C : Ctx) (fds : List Field) (a : AS) (huc : UC C a)
    (ih1 : UC C a → UC C (resetAS C a)) (ih2 : Quiet C a → Quiet C (resetAS C a)) :
    UC C (resetElem C fds a) ∧ (Quiet C a → Quiet C (resetElem C fds a)) := by
  have hdt : (fds.head?.map (fun fd => C.isDictTy fd.ty)).getD false = true →
      C.isDictTy ((fds.head?.map (·.ty)).getD (.prim .bool none)) = true := by
    intro hdt
    cases fds with
    | nil => simp at hdt
    | cons fd fds => simpa using hdt
  have gen : UC C (if (fds.head?.map (fun fd => C.isDictTy fd.ty)).getD false
         then C.emptyOf ((fds.head?.map (·.ty)).getD (.prim .bool none)) else resetAS C a) ∧
      (Quiet C a → Quiet C (if (fds.head?.map (fun fd => C.isDictTy fd.ty)).getD false
         then C.emptyOf ((fds.head?.map (·.ty)).getD (.prim .bool none)) else resetAS C a)) := by
    split
    · rename_i h1
      exact ⟨uc_shared C _ (canBeShared_emptyOf C _ (hdt h1)), fun _ => quiet_shared C _ (canBeShared_emptyOf C _ (hdt h1))⟩
    · exact ⟨ih1 huc, ih2⟩
  cases a with
  | prim v => simp [resetElem, UC, SndG, Quiet]
  | nil => simp [resetElem, UC, SndG, Quiet]
  | struct n m' p' fr fs => exact gen
  | oneof n t as' => exact gen
  | arr e es hid => exact gen
  | mmap n ps hid k v ml => exact gen

mutual
theorem quiet_resetAS (C : Ctx) : ∀ (a : AS), Quiet C a → Quiet C (resetAS C a)
  | .prim _, _ => by simp [resetAS, Quiet]
  | .nil, _ => by simp [resetAS, Quiet]
  | .struct n m p fr fs, h => by
    simp only [resetAS, Quiet] at h ⊢
    rcases h with h | ⟨hm, h⟩
    · exact Or.inl h
    · exact Or.inr ⟨hm, quietFields_reset C (fieldsOf C n) 0 p fs h⟩
  | .oneof n t as, _ => by simp [resetAS, Quiet]
  | .arr e es hid, _ => by simp [resetAS, Quiet, QuietElems]
  | .mmap n ps hid k v ml, _ => by simp [resetAS, Quiet]
theorem quietFields_reset (C : Ctx) : ∀ (fds : List Field) (oi p : Nat) (as : List AS), QuietFields C fds oi p as →
    QuietFields C fds oi 0 (resetFields C fds as)
  | _, _, _, [], _ => by simp [resetFields, QuietFields]
  | fds, oi, p, a :: as, h => by
    rw [resetFields_cons]
    simp only [QuietFields] at h ⊢
    refine ⟨fun hp => ?_, quietFields_reset C fds.tail _ p as h.2⟩
    have hno : fdOpt fds = false := by simpa using hp
    have hq : Quiet C a := h.1 (by simp [hno])
    -- (the up-closed part of `resetElem_good` is not needed here)
    unfold resetElem
    cases a with
    | prim v => simp [Quiet]
    | nil => simp [Quiet]
    | struct n m p' fr fs =>
      simp only
      split
      · rename_i hdt
        refine quiet_shared C _ (canBeShared_emptyOf C _ ?_)
        cases fds with
        | nil => simp at hdt
        | cons fd fds => simpa using hdt
      · exact quiet_resetAS C _ hq
    | oneof n t as' =>
      simp only
      split
      · rename_i hdt
        refine quiet_shared C _ (canBeShared_emptyOf C _ ?_)
        cases fds with
        | nil => simp at hdt
        | cons fd fds => simpa using hdt
      · exact quiet_resetAS C _ hq
    | arr e es hid =>
      simp only
      split
      · rename_i hdt
        refine quiet_shared C _ (canBeShared_emptyOf C _ ?_)
        cases fds with
        | nil => simp at hdt
        | cons fd fds => simpa using hdt
      · exact quiet_resetAS C _ hq
    | mmap n ps hid k v ml =>
      simp only
      split
      · rename_i hdt
        refine quiet_shared C _ (canBeShared_emptyOf C _ ?_)
        cases fds with
        | nil => simp at hdt
        | cons fd fds => simpa using hdt
      · exact quiet_resetAS C _ hq
end

mutual
theorem uc_resetAS (C : Ctx) : ∀ (a : AS), UC C a → UC C (resetAS C a)
  | .prim _, _ => by simp [resetAS, UC, SndG]
  | .nil, _ => by simp [resetAS, UC, SndG]
  | .struct n m p fr fs, h => by
    simp only [resetAS, UC, SndG] at h ⊢
    rcases h with ⟨hd, hfr | h⟩ | ⟨hd, h⟩
    · exact Or.inl ⟨hd, Or.inl hfr⟩
    · exact Or.inl ⟨hd, Or.inr (ucFields_reset C (fieldsOf C n) 0 0 m p fs _ _ _ _ _ _ h)⟩
    · exact Or.inr ⟨hd, ucFields_reset C (fieldsOf C n) 0 0 m p fs _ _ _ _ _ _ h⟩
  | .oneof n t as, _ => by simp [resetAS, UC, SndG]
  | .arr e es hid, _ => by simp [resetAS, UC, SndG, SndElemsG]
  | .mmap n ps hid k v ml, _ => by simp [resetAS, UC, SndG]
theorem ucFields_reset (C : Ctx) : ∀ (fds : List Field) (idx oi m p : Nat) (as : List AS) (known : Bool) (rp : Nat)
    (rfs : List St) (known' : Bool) (rp' : Nat) (rfs' : List St), SndFieldsG C true fds idx oi m p known rp as rfs →
    SndFieldsG C true fds idx oi m 0 known' rp' (resetFields C fds as) rfs'
  | _, _, _, _, _, [], _, _, _, _, _, _, _ => by simp [resetFields, SndFieldsG]
  | fds, idx, oi, m, p, a :: as, known, rp, rfs, known', rp', rfs', h => by
    have huc := sndFields_uc_head C true fds idx oi m p known rp a as rfs h
    rw [resetFields_cons]
    simp only [SndFieldsG] at h ⊢
    have ih := ucFields_reset C fds.tail (idx + 1) (if fdOpt fds then oi + 1 else oi) m p as known rp rfs.tail known' rp' rfs'.tail h.2.2
    have key := resetElem_good C fds a huc (uc_resetAS C a) (quiet_resetAS C a)
    refine ⟨fun hp => ?_, fun _ => key.1, ih⟩
    have hno : fdOpt fds = false := by simpa using hp
    have hpo : (!fdOpt fds || p.testBit oi) = true := by simp [hno]
    exact ⟨fun _ => snd_lax C true _ _ _ key.1, fun hm => ⟨Or.inl trivial, key.2 ((h.1 hpo).2 hm).2.1, key.1⟩⟩
end

/-! ## `unshare` -/

theorem isPrimAS_setModRec (a : AS) : isPrimAS (setModRec a) = isPrimAS a := by cases a <;> rfl
theorem isPrimAS_setUnmodRec (a : AS) : isPrimAS (setUnmodRec a) = isPrimAS a := by cases a <;> rfl

theorem isPrimAS_init_ptr (C : Ctx) (ty : Ty) (h : C.isPtrTy ty = true) : isPrimAS (C.init ty) = false := by
  cases ty with
  | prim p d => simp [Ctx.isPtrTy] at h
  | arr e => simp [Ctx.isPtrTy] at h
  | ref n =>
    unfold Ctx.init initFuelA
    simp only [initAS]
    split <;> rfl

theorem isPtrTy_of_isDictTy (C : Ctx) (ty : Ty) (h : C.isDictTy ty = true) : C.isPtrTy ty = true := by
  cases ty with
  | prim p d => simp [Ctx.isDictTy] at h
  | arr e => simp [Ctx.isDictTy] at h
  | ref n =>
    simp only [Ctx.isDictTy, Ctx.isDictName] at h
    simp only [Ctx.isPtrTy]
    split at h
    · rename_i dn fs hfind
      rw [hfind]; simp
    · simp at h

theorem isPrimAS_shared (C : Ctx) (a : AS) (h : C.canBeShared a = true) : isPrimAS a = false := by
  cases a <;> simp [Ctx.canBeShared] at h <;> rfl

theorem isDictNode_of_eqv (C : Ctx) (a b : AS) (he : eqv C a b = true) (ha : C.isDictNode a = true) : C.isDictNode b = true := by
  cases a with
  | struct n m p fr fs =>
    cases b with
    | struct n' m' p' fr' fs' =>
      simp only [eqv, Bool.and_eq_true, beq_iff_eq] at he
      obtain ⟨⟨rfl, _⟩, _⟩ := he
      exact ha
    | _ => simp [eqv] at he
  | _ => simp [Ctx.isDictNode] at ha

/-- a shared destination child replaced by an owned copy: sound whatever the reader holds; when the
    parent is not told, the copy has no marks and shows what the shared value showed -/
theorem unshare_pres (C : Ctx) (cp : AS → AS → AS × Up) (hcp : ∀ dst src, Pres C dst (cp dst src).1 (cp dst src).2)
    (ty : Ty) (sh : AS) (hptr : C.isPtrTy ty = true) (hsh : C.canBeShared sh = true) :
    Pres C sh (unshareWith C cp ty sh).1 (unshareWith C cp ty sh).2 := by
  unfold unshareWith
  have hk : isPrimAS (cp (C.init ty) sh).1 = false := by
    rw [(hcp _ _).kind]; exact isPrimAS_init_ptr C ty hptr
  by_cases he : eqv C sh (setUnmodRec (cp (C.init ty) sh).1) = true
  · simp only [he, if_true]
    have hucr : UC C (cp (C.init ty) sh).1 := (hcp _ _).snd true none (uc_init C ty)
    have hq := quiet_setUnmodRec C _ none hucr
    have hdict := isDictNode_of_eqv C sh _ he (isDictNode_of_canBeShared C sh hsh)
    refine ⟨fun ℓ R _ => anySnd_dict C _ hdict hq.2 ℓ R, fun _ _ => ⟨hq.1, fun r hs => shows_of_eqv C sh _ r he hs⟩, ?_⟩
    rw [isPrimAS_setUnmodRec, hk, isPrimAS_shared C sh hsh]
  · simp only [he, Bool.false_eq_true, if_false]
    refine ⟨fun ℓ R _ => anySnd_setModRec C _ ℓ R, fun _ h => by simp at h, ?_⟩
    rw [isPrimAS_setModRec, hk, isPrimAS_shared C sh hsh]

/-- what the copy of a struct needs of `E.unshare` -/
def UnshareOk (E : CopyEnv) : Prop :=
  ∀ ty sh, E.C.isPtrTy ty = true → E.C.canBeShared sh = true → Pres E.C sh (E.unshare ty sh).1 (E.unshare ty sh).2

/-! ## structs -/

/-- the value part of one field of `copy<Struct>`: unchanged; a shared source assigned by reference with
    the field marked; or the copy into a value `o` that the current one was replaced by first (itself,
    a new fully marked value for a nil pointer, the unshared copy of a shared value) -/
theorem copyFieldValue_cases (E : CopyEnv) (hun : UnshareOk E) (fd : Field) (idx : Nat) (sHas gone : Bool)
    (d1 s : AS) (m1 p1 : Nat) (u1 : Up) (cp : AS → AS × Up) (hgs : gone = true → sHas = false ∧ fd.optional = true) :
    copyFieldValue E fd idx sHas gone d1 s m1 p1 u1 cp = (d1, m1, p1, u1) ∨
    (gone = false ∧ E.C.canBeShared s = true ∧ copyFieldValue E fd idx sHas gone d1 s m1 p1 u1 cp =
      (s, (structRecv m1 idx .direct).1, p1, u1.join (structRecv m1 idx .direct).2)) ∨
    (∃ o uo, Pres E.C d1 o uo ∧ gone = false ∧ copyFieldValue E fd idx sHas gone d1 s m1 p1 u1 cp =
      ((cp o).1, (structRecv (structRecv m1 idx uo).1 idx (cp o).2).1, p1,
      (u1.join (structRecv m1 idx uo).2).join (structRecv (structRecv m1 idx uo).1 idx (cp o).2).2)) := by
  unfold copyFieldValue
  by_cases hptr : E.C.isPtrTy fd.ty = true
  · simp only [hptr, if_true]
    generalize hcond : (if fd.optional = true then (match s with | .nil => false | _ => true) && sHas else true) = srcOk
    cases srcOk with
    | true =>
      simp only [if_true]
      have hg : gone = false := by
        cases hgg : gone with
        | false => rfl
        | true =>
          obtain ⟨h1, h2⟩ := hgs hgg
          simp [h1, h2] at hcond
      by_cases hss : E.C.canBeShared s = true
      · simp only [hss, if_true]
        split
        · right; left; exact ⟨hg, trivial, rfl⟩
        · left; rfl
      · simp only [hss, Bool.false_eq_true, if_false]
        right; right
        cases d1 with
        | nil =>
          refine ⟨setModRec (E.C.init fd.ty), .direct, pres_direct E.C _ _ ?_ (anySnd_setModRec _ _), hg, rfl⟩
          rw [isPrimAS_setModRec, isPrimAS_init_ptr E.C fd.ty hptr]; rfl
        | prim v =>
          refine ⟨.prim v, .no, Pres.refl _ _ _, hg, ?_⟩
          simp [Ctx.canBeShared, structRecv_no, join_no_right]
        | struct n m p fr fs =>
          by_cases hds : E.C.canBeShared (.struct n m p fr fs) = true
          · simp only [hds, if_true]
            exact ⟨_, _, hun fd.ty _ hptr hds, hg, rfl⟩
          · simp only [hds, Bool.false_eq_true, if_false]
            refine ⟨_, .no, Pres.refl _ _ _, hg, ?_⟩
            simp [structRecv_no, join_no_right]
        | oneof n t as =>
          refine ⟨_, .no, Pres.refl _ _ _, hg, ?_⟩
          simp [Ctx.canBeShared, structRecv_no, join_no_right]
        | arr e es hid =>
          refine ⟨_, .no, Pres.refl _ _ _, hg, ?_⟩
          simp [Ctx.canBeShared, structRecv_no, join_no_right]
        | mmap n ps hid k v ml =>
          refine ⟨_, .no, Pres.refl _ _ _, hg, ?_⟩
          simp [Ctx.canBeShared, structRecv_no, join_no_right]
    | false =>
      simp only [Bool.false_eq_true, if_false]
      left; trivial
  · simp only [hptr, Bool.false_eq_true, if_false]
    by_cases hg : gone = true
    · simp only [hg, if_true]; left; trivial
    · simp only [hg, Bool.false_eq_true, if_false]
      right; right
      exact ⟨d1, .no, Pres.refl _ _ _, by simp [hg], by simp [structRecv_no, join_no_right]⟩

theorem set_set {α} (l : List α) (i : Nat) (a b : α) : (l.set i a).set i b = l.set i b := by
  simp [List.set_set]

/-- one field of `copy<Struct>` as an operation on the destination struct -/
theorem copyFieldStep_pres (E : CopyEnv) (hun : UnshareOk E) (n : String) (m p : Nat) (fr : Bool)
    (hns : ¬ (E.C.isDictName n = true ∧ fr = true))
    (dfs : List AS) (idx : Nat) (d s : AS) (fd : Field) (sp : Nat) (cp : AS → AS × Up)
    (hfd : (fieldsOf E.C n)[idx]? = some fd) (hd : dfs[idx]? = some d)
    (hcp : ∀ x, Pres E.C x (cp x).1 (cp x).2) :
    Pres E.C (.struct n m p fr dfs)
      (.struct n (copyFieldStep E fd idx (optIndex (fieldsOf E.C n) idx) sp d s m p cp).2.1
        (copyFieldStep E fd idx (optIndex (fieldsOf E.C n) idx) sp d s m p cp).2.2.1 fr
        (dfs.set idx (copyFieldStep E fd idx (optIndex (fieldsOf E.C n) idx) sp d s m p cp).1))
      (copyFieldStep E fd idx (optIndex (fieldsOf E.C n) idx) sp d s m p cp).2.2.2 := by
  have hopt := fdOpt_drop _ idx fd hfd
  generalize hoi : optIndex (fieldsOf E.C n) idx = oi
  have hpb_or : ∀ o, (o ≠ optIndex (fieldsOf E.C n) idx ∨ fdOpt ((fieldsOf E.C n).drop idx) = false) →
      (if fd.optional = true then p ||| 2 ^ oi else p).testBit o = p.testBit o := by
    intro o ho
    by_cases hfo : fd.optional = true
    · simp only [hfo, if_true]
      rcases ho with ho | ho
      · rw [hoi] at ho; exact or_two_pow_testBit p _ o ho
      · rw [hopt, hfo] at ho; simp at ho
    · simp [hfo]
  have hpb_or' : fd.optional = true → ∀ o, (o ≠ optIndex (fieldsOf E.C n) idx ∨ fdOpt ((fieldsOf E.C n).drop idx) = false) →
      (p ||| 2 ^ oi).testBit o = p.testBit o := by
    intro hfo o ho
    rcases ho with ho | ho
    · rw [hoi] at ho; exact or_two_pow_testBit p _ o ho
    · rw [hopt, hfo] at ho; simp at ho
  have hpb_xor : fd.optional = true → ∀ o, (o ≠ optIndex (fieldsOf E.C n) idx ∨ fdOpt ((fieldsOf E.C n).drop idx) = false) →
      (p ^^^ 2 ^ oi).testBit o = p.testBit o := by
    intro hfo o ho
    rcases ho with ho | ho
    · rw [hoi] at ho; exact xor_two_pow_testBit p _ o ho
    · rw [hopt, hfo] at ho; simp at ho
  have hself : Pres E.C (.struct n m p fr dfs) (.struct n m p fr (dfs.set idx d)) .no := by
    rw [set_self dfs idx d hd]; exact Pres.refl _ _ _
  have hMset : (structRecv m idx .direct).1.testBit idx = true := structRecv_set m idx .direct (by simp)
  have hagain : ∀ u, structRecv (structRecv m idx .direct).1 idx u = ((structRecv m idx .direct).1, .no) :=
    fun u => structRecv_again _ idx u hMset
  -- marking the field and putting a value that is sound whatever the reader holds
  have hmark : ∀ (p' : Nat) (c' : AS),
      (∀ o, (o ≠ optIndex (fieldsOf E.C n) idx ∨ fdOpt ((fieldsOf E.C n).drop idx) = false) → p'.testBit o = p.testBit o) →
      AnySnd E.C c' →
      Pres E.C (.struct n m p fr dfs) (.struct n (structRecv m idx .direct).1 p' fr (dfs.set idx c')) (structRecv m idx .direct).2 :=
    fun p' c' hp hc => pres_struct_mark E.C n m p p' fr dfs idx d c' hd hns hp (fun _ => hc) (fun _ => hc true none)
  unfold copyFieldStep
  by_cases hprim : isPrimTy fd.ty = true
  · simp only [hprim, if_true]
    split
    · rename_i sv dv
      by_cases hsHas : (!fd.optional || sp.testBit oi) = true
      · simp only [hsHas, if_true]
        split
        · exact hmark _ _ hpb_or (anySnd_prim _ sv)
        · exact hself
      · simp only [hsHas, Bool.false_eq_true, if_false]
        have hfo : fd.optional = true := by
          cases h : fd.optional <;> simp [h] at hsHas ⊢
        split
        · rename_i hbit
          exact hmark _ _ (hpb_xor hfo) (anySnd_prim _ dv)
        · exact hself
    · exact hself
  · have hprim : isPrimTy fd.ty = false := by simpa using hprim
    simp only [hprim, Bool.false_eq_true, if_false]
    generalize hsH : (!fd.optional || sp.testBit oi) = sHas
    generalize hdH : (!fd.optional || p.testBit oi) = dHas
    unfold copyFieldPresence
    by_cases hchg : (fd.optional && (sHas != dHas)) = true
    · have hfo : fd.optional = true := by
        cases h : fd.optional <;> simp [h] at hchg ⊢
      simp only [hchg, if_true]
      cases sHas with
      | true =>
        -- becomes present
        have hdh : dHas = false := by cases dHas <;> simp [hfo] at hchg ⊢
        subst hdh
        simp only [if_true, Bool.and_false, Bool.false_and]
        have hx : ∀ a, AnySnd E.C (setModRec (resetAS E.C a)) := fun a => anySnd_setModRec _ _
        rcases copyFieldValue_cases E hun fd idx true false _ s (structRecv m idx .direct).1 (p ||| 2 ^ oi)
          (structRecv m idx .direct).2 cp (by simp) with h | ⟨_, hss, h⟩ | ⟨o, uo, ho, _, h⟩
        · rw [h]
          exact hmark _ _ (hpb_or' hfo) (hx _)
        · rw [h]
          simp only [hagain, join_no_right]
          exact hmark _ _ (hpb_or' hfo) (anySnd_shared E.C s hss)
        · rw [h]
          simp only [hagain, join_no_right]
          exact hmark _ _ (hpb_or' hfo) (fun ℓ R => (hcp _).snd ℓ R (ho.snd ℓ R (hx _ ℓ R)))
      | false =>
        -- present in the destination only
        have hdh : dHas = true := by cases dHas <;> simp [hfo] at hchg ⊢
        subst hdh
        simp only [Bool.false_eq_true, if_false, hfo, Bool.and_self, Bool.not_false, Bool.and_true]
        have hb : p.testBit oi = true := by simpa [hfo] using hdH
        rcases copyFieldValue_cases E hun fd idx false true (resetAS E.C d) s (structRecv m idx .direct).1 (p ^^^ 2 ^ oi)
          (structRecv m idx .direct).2 cp (fun _ => ⟨rfl, hfo⟩) with h | ⟨hg, _⟩ | ⟨_, _, _, hg, _⟩
        · rw [h]
          refine pres_struct_mark E.C n m p _ fr dfs idx d _ hd hns (hpb_xor hfo) (fun hpres => ?_) (uc_resetAS E.C d)
          rw [hopt, hfo, hoi] at hpres
          simp [Nat.testBit_xor, Nat.testBit_two_pow, hb] at hpres
        · simp at hg
        · simp at hg
    · have hchg : (fd.optional && (sHas != dHas)) = false := by simpa using hchg
      simp only [hchg, Bool.false_eq_true, if_false]
      have hgone : (fd.optional && dHas && !sHas) = false := by
        cases h1 : fd.optional <;> cases sHas <;> cases dHas <;> simp [h1] at hchg ⊢
      rw [hgone]
      rcases copyFieldValue_cases E hun fd idx sHas false d s m p .no cp (by simp) with h | ⟨_, hss, h⟩ | ⟨o, uo, ho, _, h⟩
      · rw [h]; exact hself
      · rw [h]
        simp only [join_no_left]
        exact hmark p s (fun _ _ => rfl) (anySnd_shared E.C s hss)
      · rw [h]
        simp only [join_no_left]
        have h1 := pres_field E.C n m p fr dfs idx d o uo hd ho hns
        have hd2 : (dfs.set idx o)[idx]? = some o := getElem?_set_self dfs idx d o hd
        have h2 := pres_field E.C n (structRecv m idx uo).1 p fr (dfs.set idx o) idx o _ _ hd2 (hcp o) hns
        rw [set_set] at h2
        exact Pres.trans _ _ _ _ _ _ h1 h2

theorem optIndex_step (fs : List Field) (i : Nat) (fd : Field) (h : fs[i]? = some fd) :
    optIndex fs (i + 1) = optIndex fs i + (if fd.optional then 1 else 0) := by
  unfold optIndex
  rw [List.take_add_one, h]
  simp only [Option.toList, List.filter_append, List.length_append]
  by_cases ho : fd.optional = true <;> simp [List.filter_cons, ho]

theorem drop_eq_cons_get {α} (l : List α) (i : Nat) (x : α) (xs : List α) (h : l.drop i = x :: xs) :
    l[i]? = some x ∧ l.drop (i + 1) = xs := by
  constructor
  · have := congrArg (fun l => l[0]?) h
    simpa [List.getElem?_drop] using this
  · have := congrArg List.tail h
    simpa [List.tail_drop] using this

theorem copyFields_pres (E : CopyEnv) (hun : UnshareOk E) :
    ∀ (sfs : List AS), (∀ s ∈ sfs, ∀ x, Pres E.C x (copy0 E x s).1 (copy0 E x s).2) →
    ∀ (fds : List Field) (dfs : List AS) (idx oi m p : Nat) (pre : List AS) (n : String) (fr : Bool) (sp : Nat),
    ¬ (E.C.isDictName n = true ∧ fr = true) →
    fds = (fieldsOf E.C n).drop idx → idx = pre.length → oi = optIndex (fieldsOf E.C n) idx →
    Pres E.C (.struct n m p fr (pre ++ dfs))
      (.struct n (copyFields E fds idx oi sp dfs sfs m p).2.1 (copyFields E fds idx oi sp dfs sfs m p).2.2.1 fr
        (pre ++ (copyFields E fds idx oi sp dfs sfs m p).1))
      (copyFields E fds idx oi sp dfs sfs m p).2.2.2
  | [], _, fds, dfs, idx, oi, m, p, pre, n, fr, sp, _, _, _, _ => by
    cases fds <;> cases dfs <;> (simp only [copyFields]; exact Pres.refl _ _ _)
  | s :: sfs, _, [], dfs, idx, oi, m, p, pre, n, fr, sp, _, _, _, _ => by
    simp only [copyFields]; exact Pres.refl _ _ _
  | s :: sfs, _, fd :: fds, [], idx, oi, m, p, pre, n, fr, sp, _, _, _, _ => by
    simp only [copyFields]; exact Pres.refl _ _ _
  | s :: sfs, ih, fd :: fds, d :: dfs, idx, oi, m, p, pre, n, fr, sp, hns, hfds, hidx, hoi => by
    simp only [copyFields]
    obtain ⟨hfd, hfds'⟩ := drop_eq_cons_get _ idx fd fds hfds.symm
    subst hoi
    have hd : (pre ++ d :: dfs)[idx]? = some d := by
      rw [hidx]; simp
    have h1 := copyFieldStep_pres E hun n m p fr hns (pre ++ d :: dfs) idx d s fd sp (fun x => copy0 E x s) hfd hd
      (fun x => ih s (by simp) x)
    have hset : (pre ++ d :: dfs).set idx (copyFieldStep E fd idx (optIndex (fieldsOf E.C n) idx) sp d s m p (fun x => copy0 E x s)).1 =
        (pre ++ [(copyFieldStep E fd idx (optIndex (fieldsOf E.C n) idx) sp d s m p (fun x => copy0 E x s)).1]) ++ dfs := by
      rw [hidx]; simp
    rw [hset] at h1
    have h2 := copyFields_pres E hun sfs (fun s' hs' x => ih s' (by simp [hs']) x) fds dfs (idx + 1)
      (if fd.optional = true then optIndex (fieldsOf E.C n) idx + 1 else optIndex (fieldsOf E.C n) idx)
      (copyFieldStep E fd idx (optIndex (fieldsOf E.C n) idx) sp d s m p (fun x => copy0 E x s)).2.1
      (copyFieldStep E fd idx (optIndex (fieldsOf E.C n) idx) sp d s m p (fun x => copy0 E x s)).2.2.1
      (pre ++ [(copyFieldStep E fd idx (optIndex (fieldsOf E.C n) idx) sp d s m p (fun x => copy0 E x s)).1]) n fr sp hns
      hfds'.symm (by simp [hidx]) (by rw [optIndex_step _ idx fd hfd]; split <;> simp_all)
    have h3 := Pres.trans _ _ _ _ _ _ h1 h2
    simpa [List.append_assoc] using h3

theorem join_assoc (a b c : Up) : (a.join b).join c = a.join (b.join c) := by
  cases a <;> cases b <;> cases c <;> rfl

/-! ### oneof -/

theorem copyAlt_pres (E : CopyEnv) : ∀ (ss : List AS), (∀ s ∈ ss, ∀ x, Pres E.C x (copy0 E x s).1 (copy0 E x s).2) →
    ∀ (i : Nat) (das pre : List AS) (n : String) (t : Nat),
    Pres E.C (.oneof n t (pre ++ das)) (.oneof n t (pre ++ (copyAlt E i das ss).1)) (copyAlt E i das ss).2
  | [], _, i, das, pre, n, t => by simp only [copyAlt]; exact Pres.refl _ _ _
  | s :: ss, ih, 0, [], pre, n, t => by simp only [copyAlt]; exact Pres.refl _ _ _
  | s :: ss, ih, 0, d :: ds, pre, n, t => by
    simp only [copyAlt]
    have hc : (pre ++ d :: ds)[(pre.length + 1) - 1]? = some d := by simp
    have := pres_alt E.C n t (pre ++ d :: ds) (pre.length + 1) d _ _ hc (ih s (by simp) d)
    simpa using this
  | s :: ss, ih, i + 1, [], pre, n, t => by simp only [copyAlt]; exact Pres.refl _ _ _
  | s :: ss, ih, i + 1, d :: ds, pre, n, t => by
    simp only [copyAlt]
    have := copyAlt_pres E ss (fun s' hs' x => ih s' (by simp [hs']) x) i ds (pre ++ [d]) n t
    simpa [List.append_assoc] using this

theorem sndAlt_set_any (C : Ctx) (ℓ : Bool) : ∀ (i : Nat) (as : List AS) (x : AS) (R : Option St), AnySnd C x → SndAltG C ℓ i (as.set i x) R
  | _, [], _, _, _ => by simp [SndAltG]
  | 0, a :: as, x, R, hx => by simp only [List.set_cons_zero, SndAltG]; exact hx ℓ R
  | i + 1, a :: as, x, R, hx => by simp only [List.set_cons_succ, SndAltG]; exact sndAlt_set_any C ℓ i as x R hx

theorem getD_ne_default {α} (l : List α) (i : Nat) (dflt x : α) (h : l.getD i dflt = x) (hne : x ≠ dflt) : l[i]? = some x := by
  unfold List.getD at h
  cases hl : l[i]? with
  | none => rw [hl] at h; simp at h; exact absurd h.symm hne
  | some y => rw [hl] at h; simp at h; rw [h]

/-! ### arrays -/

theorem isDictNode_init (C : Ctx) (ty : Ty) (h : C.isDictTy ty = true) : C.isDictNode (C.init ty) = true := by
  cases ty with
  | prim p d => simp [Ctx.isDictTy] at h
  | arr e => simp [Ctx.isDictTy] at h
  | ref n =>
    simp only [Ctx.isDictTy] at h
    have hd := h
    unfold Ctx.isDictName at hd
    unfold Ctx.init initFuelA
    simp only [initAS]
    split at hd
    · rename_i dn fs hfind
      rw [hfind]
      simpa [Ctx.isDictNode] using h
    · simp at hd

theorem anySnd_init_dict (C : Ctx) (ty : Ty) (h : C.isDictTy ty = true) : AnySnd C (C.init ty) :=
  anySnd_dict C _ (isDictNode_init C ty h) (uc_init C ty)

theorem copyElems_snd (E : CopyEnv) (ℓ : Bool) (ety : Ty) :
    ∀ (ses : List AS), (∀ s ∈ ses, ∀ x, Pres E.C x (copy0 E x s).1 (copy0 E x s).2) →
    ∀ (des : List AS) (rs : List St) (i minLen : Nat), SndElemsG E.C ℓ des rs → SndElemsG E.C ℓ (copyElems E ety i minLen des ses).1 rs
  | [], _, des, rs, i, minLen, h => by simpa [copyElems] using h
  | s :: ses, ih, [], rs, i, minLen, h => by simp [copyElems, SndElemsG]
  | s :: ses, ih, d :: ds, rs, i, minLen, h => by
    simp only [copyElems]
    simp only [SndElemsG] at h ⊢
    refine ⟨?_, copyElems_snd E ℓ ety ses (fun s' hs' x => ih s' (by simp [hs']) x) ds rs.tail (i + 1) minLen h.2⟩
    by_cases hp : isPrimTy ety = true
    · simp only [hp, if_true]
      split
      · split
        · simp [SndG]
        · exact h.1
      · exact h.1
    · simp only [hp, Bool.false_eq_true, if_false]
      by_cases hi : i < minLen
      · simp only [hi, if_true]
        by_cases hss : E.C.canBeShared s = true
        · simp only [hss, if_true]
          split
          · exact anySnd_shared E.C s hss ℓ _
          · exact h.1
        · simp only [hss, Bool.false_eq_true, if_false]
          by_cases hdd : (E.C.isDictTy ety && E.C.canBeShared d) = true
          · simp only [hdd, if_true]
            simp only [Bool.and_eq_true] at hdd
            exact (ih s (by simp) _).snd ℓ _ (anySnd_init_dict E.C ety hdd.1 ℓ _)
          · simp only [hdd, Bool.false_eq_true, if_false]
            exact (ih s (by simp) d).snd ℓ _ h.1
      · simp only [hi, if_false]
        split
        · exact anySnd_setModRec _ _ ℓ _
        · exact anySnd_setModRec _ _ ℓ _

theorem copyElems_unmod (E : CopyEnv) (ety : Ty) :
    ∀ (ses des : List AS) (i minLen : Nat), (copyElems E ety i minLen des ses).2.1 = false →
    (copyElems E ety i minLen des ses).1 = des
  | [], des, i, minLen, _ => by simp [copyElems]
  | s :: ses, [], i, minLen, _ => by simp [copyElems]
  | s :: ses, d :: ds, i, minLen, h => by
    simp only [copyElems] at h ⊢
    simp only [Bool.or_eq_false_iff] at h
    obtain ⟨h1, h2⟩ := h
    have ih := copyElems_unmod E ety ses ds (i + 1) minLen h2
    rw [ih]
    congr 1
    by_cases hp : isPrimTy ety = true
    · simp only [hp, if_true] at h1 ⊢
      split
      · split
        · rename_i hne
          simp [hne] at h1
        · rfl
      · rfl
    · simp only [hp, Bool.false_eq_true, if_false] at h1 ⊢
      by_cases hi : i < minLen
      · simp only [hi, if_true] at h1 ⊢
        by_cases hss : E.C.canBeShared s = true
        · simp only [hss, if_true] at h1 ⊢
          split
          · rename_i hdf
            simp [hdf] at h1
          · rfl
        · simp [hss] at h1
      · simp only [hi, if_false] at h1
        split at h1 <;> simp at h1

/-- the element phase of `copy<Array>` as an operation on the (already resized) destination -/
theorem copyElems_pres (E : CopyEnv) (ety e : Ty) (ses : List AS)
    (ih : ∀ s ∈ ses, ∀ x, Pres E.C x (copy0 E x s).1 (copy0 E x s).2) (des hid : List AS) (minLen : Nat) (isMod0 : Bool) :
    Pres E.C (.arr e des hid) (.arr e (copyElems E ety 0 minLen des ses).1 hid)
      ((copyElems E ety 0 minLen des ses).2.2.join
        (if (isMod0 || (copyElems E ety 0 minLen des ses).2.1) = true then Up.direct else Up.no)) := by
  refine ⟨fun ℓ R h => ?_, fun hq hu => ?_, rfl⟩
  · simp only [SndG] at h ⊢
    exact copyElems_snd E ℓ ety ses ih des _ 0 minLen h
  · obtain ⟨_, h2⟩ := join_eq_no _ _ hu
    have hm : (copyElems E ety 0 minLen des ses).2.1 = false := by
      cases hh : (copyElems E ety 0 minLen des ses).2.1 with
      | false => rfl
      | true => simp [hh] at h2
    rw [copyElems_unmod E ety ses des 0 minLen hm]
    exact ⟨hq, fun _ h => h⟩

/-! ### multimaps -/

theorem trackerRecv_direct' (k bit : Nat) : trackerRecv k bit .direct = trackerMark k bit := rfl

/-- `SetKey` / `SetValue` of a dictionary-struct member: nothing happens, or the member is replaced by a
    value that is sound whenever the old one was, and its tracker bit is marked -/
theorem setDictElem_cases (C : Ctx) (unshare : Ty → AS → AS × Up) (cp : AS → AS × Up) (ty : Ty) (bit : Nat) (d s : AS)
    (mask : Nat) (hun : ∀ sh, C.canBeShared sh = true → Pres C sh (unshare ty sh).1 (unshare ty sh).2)
    (hcp : ∀ x, Pres C x (cp x).1 (cp x).2) :
    setDictElem C unshare cp ty bit d s mask = (d, mask, .no) ∨
    ∃ a', (∀ ℓ R, SndG C ℓ d R → SndG C ℓ a' R) ∧
      setDictElem C unshare cp ty bit d s mask = (a', (trackerMark mask bit).1, (trackerMark mask bit).2) := by
  unfold setDictElem
  by_cases hss : C.canBeShared s = true
  · simp only [hss, if_true]
    split
    · right; exact ⟨s, fun ℓ R _ => anySnd_shared C s hss ℓ R, rfl⟩
    · left; rfl
  · simp only [hss, Bool.false_eq_true, if_false]
    split
    · right
      by_cases hds : C.canBeShared d = true
      · simp only [hds, if_true]
        exact ⟨_, fun ℓ R h => (hcp _).snd ℓ R ((hun d hds).snd ℓ R h), rfl⟩
      · simp only [hds, Bool.false_eq_true, if_false]
        exact ⟨_, fun ℓ R h => (hcp _).snd ℓ R h, rfl⟩
    · left; rfl

theorem copyKV_cases (E : CopyEnv) (hun : UnshareOk E) (ty : Ty) (bit : Nat) (d s : AS) (mask : Nat) (cp : AS → AS × Up)
    (hcp : ∀ x, Pres E.C x (cp x).1 (cp x).2) :
    copyKV E ty bit d s mask cp = (d, mask, .no) ∨
    (∃ a', (∀ ℓ R, SndG E.C ℓ d R → SndG E.C ℓ a' R) ∧
      copyKV E ty bit d s mask cp = (a', (trackerRecv mask bit .direct).1, (trackerRecv mask bit .direct).2)) ∨
    copyKV E ty bit d s mask cp = ((cp d).1, (trackerRecv mask bit (cp d).2).1, (trackerRecv mask bit (cp d).2).2) := by
  unfold copyKV
  by_cases hp : isPrimTy ty = true
  · simp only [hp, if_true]
    split
    · rename_i x y
      split
      · right; left; exact ⟨.prim x, fun ℓ R _ => anySnd_prim E.C x ℓ R, rfl⟩
      · left; rfl
    · left; rfl
  · simp only [hp, Bool.false_eq_true, if_false]
    by_cases hd : E.C.isDictTy ty = true
    · simp only [hd, if_true]
      rcases setDictElem_cases E.C E.unshare cp ty bit d s mask
        (fun sh hsh => hun ty sh (isPtrTy_of_isDictTy E.C ty hd) hsh) hcp with h | ⟨a', ha, h⟩
      · left; exact h
      · right; left; exact ⟨a', ha, h⟩
    · simp only [hd, Bool.false_eq_true, if_false]
      split
      · right; right; rfl
      · left; rfl

theorem copyPairs_pres (E : CopyEnv) (hun : UnshareOk E) (kt vt : Ty) :
    ∀ (sps : List (AS × AS)), (∀ s ∈ sps, (∀ x, Pres E.C x (copy0 E x s.1).1 (copy0 E x s.1).2) ∧
      (∀ x, Pres E.C x (copy0 E x s.2).1 (copy0 E x s.2).2)) →
    ∀ (dps pre hid : List (AS × AS)) (i k v : Nat) (ml : Bool) (n : String), i = pre.length →
    Pres E.C (.mmap n (pre ++ dps) hid k v ml)
      (.mmap n (pre ++ (copyPairs E kt vt i dps sps k v).1) hid (copyPairs E kt vt i dps sps k v).2.1
        (copyPairs E kt vt i dps sps k v).2.2.1 ml)
      (copyPairs E kt vt i dps sps k v).2.2.2
  | [], _, dps, pre, hid, i, k, v, ml, n, _ => by simp only [copyPairs]; exact Pres.refl _ _ _
  | (sk, sv) :: sps, ih, [], pre, hid, i, k, v, ml, n, _ => by simp only [copyPairs]; exact Pres.refl _ _ _
  | (sk, sv) :: sps, ih, (dk, dv) :: ds, pre, hid, i, k, v, ml, n, hi => by
    simp only [copyPairs]
    have hget : (pre ++ (dk, dv) :: ds)[i]? = some (dk, dv) := by rw [hi]; simp
    -- the key
    have hkey : Pres E.C (.mmap n (pre ++ (dk, dv) :: ds) hid k v ml)
        (.mmap n (pre ++ ((copyKV E kt (maskForIndex i) dk sk k (fun x => copy0 E x sk)).1, dv) :: ds) hid
          (copyKV E kt (maskForIndex i) dk sk k (fun x => copy0 E x sk)).2.1 v ml)
        (copyKV E kt (maskForIndex i) dk sk k (fun x => copy0 E x sk)).2.2 := by
      rcases copyKV_cases E hun kt (maskForIndex i) dk sk k (fun x => copy0 E x sk) (fun x => (ih (sk, sv) (by simp)).1 x)
        with h | ⟨a', ha, h⟩ | h
      · rw [h]; exact Pres.refl _ _ _
      · rw [h]
        have := pres_key E.C n (pre ++ (dk, dv) :: ds) hid k v ml i dk dv a' .direct hget ha (fun _ h => by simp at h)
        simpa [hi] using this
      · rw [h]
        have := pres_key E.C n (pre ++ (dk, dv) :: ds) hid k v ml i dk dv _ _ hget ((ih (sk, sv) (by simp)).1 dk).snd
          ((ih (sk, sv) (by simp)).1 dk).sync
        simpa [hi] using this
    -- the value
    have hget2 : ∀ dk', (pre ++ (dk', dv) :: ds)[i]? = some (dk', dv) := by intro dk'; rw [hi]; simp
    have hval : ∀ dk' k', Pres E.C (.mmap n (pre ++ (dk', dv) :: ds) hid k' v ml)
        (.mmap n (pre ++ (dk', (copyKV E vt (maskForIndex i) dv sv v (fun x => copy0 E x sv)).1) :: ds) hid k'
          (copyKV E vt (maskForIndex i) dv sv v (fun x => copy0 E x sv)).2.1 ml)
        (copyKV E vt (maskForIndex i) dv sv v (fun x => copy0 E x sv)).2.2 := by
      intro dk' k'
      rcases copyKV_cases E hun vt (maskForIndex i) dv sv v (fun x => copy0 E x sv) (fun x => (ih (sk, sv) (by simp)).2 x)
        with h | ⟨b', hb, h⟩ | h
      · rw [h]; exact Pres.refl _ _ _
      · rw [h]
        have := pres_val E.C n (pre ++ (dk', dv) :: ds) hid k' v ml i dk' dv b' .direct (hget2 dk') hb (fun _ h => by simp at h)
        simpa [hi] using this
      · rw [h]
        have := pres_val E.C n (pre ++ (dk', dv) :: ds) hid k' v ml i dk' dv _ _ (hget2 dk') ((ih (sk, sv) (by simp)).2 dv).snd
          ((ih (sk, sv) (by simp)).2 dv).sync
        simpa [hi] using this
    have hrest := copyPairs_pres E hun kt vt sps (fun s hs => ih s (by simp [hs])) ds
      (pre ++ [((copyKV E kt (maskForIndex i) dk sk k (fun x => copy0 E x sk)).1,
                (copyKV E vt (maskForIndex i) dv sv v (fun x => copy0 E x sv)).1)]) hid (i + 1)
      (copyKV E kt (maskForIndex i) dk sk k (fun x => copy0 E x sk)).2.1
      (copyKV E vt (maskForIndex i) dv sv v (fun x => copy0 E x sv)).2.1 ml n (by simp [hi])
    have hrest' := hrest
    simp only [List.append_assoc, List.singleton_append] at hrest'
    have h3 := Pres.trans _ _ _ _ _ _ (Pres.trans _ _ _ _ _ _ hkey (hval _ _)) hrest'
    simpa [List.append_assoc] using h3

theorem copy0_pres (E : CopyEnv) (hun : UnshareOk E) :
    ∀ (src dst : AS), Pres E.C dst (copy0 E dst src).1 (copy0 E dst src).2
  | .struct sn sm sp sfr sfs, dst => by
    cases dst with
    | struct n m p fr dfs =>
      simp only [copy0]
      by_cases hsh : (fr && E.C.isDictName n) = true
      · simp only [hsh, if_true]
        exact Pres.refl _ _ _
      · simp only [hsh, Bool.false_eq_true, if_false]
        have hns : ¬ (E.C.isDictName n = true ∧ fr = true) := by
          intro h; simp [h.1, h.2] at hsh
        have := copyFields_pres E hun sfs (fun s hs x => copy0_pres E hun s x) (fieldsOf E.C n) dfs 0 0 m p [] n fr sp hns
          (by simp) rfl (by simp [optIndex])
        simpa using this
    | _ => simp only [copy0]; exact Pres.refl _ _ _
  | .oneof sn st salts, dst => by
    cases dst with
    | oneof n t dalts =>
      simp only [copy0]
      by_cases hst : st = 0
      · simp only [hst, if_true]
        by_cases ht : t = 0
        · simp only [ht, ne_eq, not_true_eq_false, if_false]
          exact Pres.refl _ _ _
        · simp only [ht, ne_eq, not_false_eq_true, if_true]
          exact pres_direct E.C _ _ rfl (fun ℓ R => by simp [SndG])
      · simp only [hst, if_false]
        split
        · -- a primitive alternative: dst.Set<Alt>(v)
          split
          · rename_i x y hsv hdv
            split
            · refine pres_direct E.C _ _ rfl (anySnd_oneof E.C n st _ (.prim x) ?_ (anySnd_prim _ x))
              exact getElem?_set_self dalts (st - 1) (.prim y) _ (getD_ne_default dalts (st - 1) .nil (.prim y) hdv (by simp))
            · exact Pres.refl _ _ _
          · exact Pres.refl _ _ _
        · -- a composite alternative: dst.SetType(typ); copy<T>(dst.alt, src.alt)
          have hcp := copyAlt_pres E salts (fun s hs x => copy0_pres E hun s x) (st - 1)
          by_cases hts : t = st
          · subst hts
            simp only [ne_eq, not_true_eq_false, if_false]
            have h2 := hcp dalts [] n t
            simpa [join_no_left] using h2
          · simp only [hts, ne_eq, not_false_eq_true, if_true]
            have key : ∀ y, Pres E.C (.oneof n t dalts)
                (.oneof n st (copyAlt E (st - 1) (setNth dalts (st - 1) (setModRec y)) salts).1)
                (Up.direct.join (copyAlt E (st - 1) (setNth dalts (st - 1) (setModRec y)) salts).2) := by
              intro y
              have h1 : Pres E.C (.oneof n t dalts) (.oneof n st (setNth dalts (st - 1) (setModRec y))) .direct := by
                refine pres_direct E.C _ _ rfl (fun ℓ R => ?_)
                simp only [SndG]
                exact Or.inr (sndAlt_set_any E.C ℓ (st - 1) dalts _ _ (anySnd_setModRec _ _))
              have h2 := hcp (setNth dalts (st - 1) (setModRec y)) [] n st
              simpa using Pres.trans _ _ _ _ _ _ h1 h2
            exact key _
    | _ => simp only [copy0]; exact Pres.refl _ _ _
  | .arr se ses shid, dst => by
    cases dst with
    | arr e des dhid =>
      simp only [copy0]
      have ih : ∀ s ∈ ses, ∀ x, Pres E.C x (copy0 E x s).1 (copy0 E x s).2 := fun s hs x => copy0_pres E hun s x
      by_cases hl : des.length = ses.length
      · simp only [hl, ne_eq, not_true_eq_false, if_false]
        have h2 := copyElems_pres E e e ses ih des dhid (min ses.length ses.length) false
        simpa [join_no_left, hl] using h2
      · simp only [hl, ne_eq, not_false_eq_true, if_true]
        have h1 := arrEnsureLen_pres E.C e des dhid ses.length
        have h2 := copyElems_pres E e e ses ih (arrEnsureLen E.C e des dhid ses.length).1
          (arrEnsureLen E.C e des dhid ses.length).2.1 (min des.length ses.length) true
        have h3 := Pres.trans _ _ _ _ _ _ h1 h2
        simpa [join_assoc] using h3
    | _ => simp only [copy0]; exact Pres.refl _ _ _
  | .mmap sn sps shid sk sv sml, dst => by
    cases dst with
    | mmap n dps dhid k v ml =>
      simp only [copy0]
      have ih : ∀ s ∈ sps, (∀ x, Pres E.C x (copy0 E x s.1).1 (copy0 E x s.1).2) ∧
          (∀ x, Pres E.C x (copy0 E x s.2).1 (copy0 E x s.2).2) :=
        fun s hs => match s, hs with
          | (a, b), hs => ⟨fun x => copy0_pres E hun a x, fun x => copy0_pres E hun b x⟩
      by_cases hl : dps.length = sps.length
      · simp only [hl, ne_eq, not_true_eq_false, if_false]
        have h2 := copyPairs_pres E hun (mmapTys E.C n).1 (mmapTys E.C n).2 sps ih dps [] dhid 0 k v ml n rfl
        simpa [join_no_left] using h2
      · simp only [hl, ne_eq, not_false_eq_true, if_true]
        have h1 := mmEnsureLen_pres E.C n dps dhid k v ml sps.length
        have h2 := copyPairs_pres E hun (mmapTys E.C n).1 (mmapTys E.C n).2 sps ih
          (mmEnsureLen E.C n dps dhid k v ml sps.length).1 [] (mmEnsureLen E.C n dps dhid k v ml sps.length).2.1 0
          (mmEnsureLen E.C n dps dhid k v ml sps.length).2.2.1 (mmEnsureLen E.C n dps dhid k v ml sps.length).2.2.2.1
          (mmEnsureLen E.C n dps dhid k v ml sps.length).2.2.2.2.1 n rfl
        have h3 := Pres.trans _ _ _ _ _ _ h1 h2
        simpa using h3
    | _ => simp only [copy0]; exact Pres.refl _ _ _
  | .prim v, dst => by simp only [copy0]; exact Pres.refl _ _ _
  | .nil, dst => by simp only [copy0]; exact Pres.refl _ _ _
termination_by src => sizeOf src
decreasing_by
  all_goals simp_wf
  all_goals
    have := List.sizeOf_lt_of_mem hs
    try simp only [Prod.mk.sizeOf_spec] at this
    omega

/-! ## CopyFrom as a public call -/

theorem copyLvl_pres (C : Ctx) : ∀ (k : Nat) (dst src : AS), Pres C dst (copyLvl C k dst src).1 (copyLvl C k dst src).2
  | 0, dst, src => copy0_pres { C := C, unshare := fun _ sh => (sh, .no) } (fun _ _ _ _ => Pres.refl _ _ _) src dst
  | k + 1, dst, src => copy0_pres { C := C, unshare := unshareWith C (copyLvl C k) }
      (fun ty sh hptr hsh => unshare_pres C (copyLvl C k) (copyLvl_pres C k) ty sh hptr hsh) src dst

/-- `copy<T>(dst, src)`: any schema, any destination and source state -/
theorem copy_pres (C : Ctx) (dst src : AS) : Pres C dst (C.copy dst src).1 (C.copy dst src).2 :=
  copyLvl_pres C _ dst src

/-- `CopyFrom(src)` on a struct, a oneof or a multimap (any schema, any source state, any destination state) -/
theorem copyFrom_pres (C : Ctx) (src w w' : AS) (u : Up) (h : applyOp C (.copyFrom src) w = .ok (w', u)) :
    Pres C w w' u := by
  cases w with
  | struct n m p fr fs =>
    simp only [applyOp, Except.ok.injEq] at h
    have := copy_pres C (.struct n m p fr fs) src; rw [h] at this; exact this
  | oneof n t as =>
    simp only [applyOp, Except.ok.injEq] at h
    have := copy_pres C (.oneof n t as) src; rw [h] at this; exact this
  | mmap n ps hid k v ml =>
    simp only [applyOp, Except.ok.injEq] at h
    have := copy_pres C (.mmap n ps hid k v ml) src; rw [h] at this; exact this
  | prim v => simp [applyOp] at h
  | nil => simp [applyOp] at h
  | arr e es hid => simp [applyOp] at h

/-! ## Set<F>(v) of a dictionary-struct field -/

theorem sndFields_uc_at (C : Ctx) (ℓ : Bool) : ∀ (fds : List Field) (idx oi m p : Nat) (known : Bool) (rp : Nat)
    (as : List AS) (rfs : List St) (i : Nat) (c : AS), as[i]? = some c → SndFieldsG C ℓ fds idx oi m p known rp as rfs → UC C c
  | _, _, _, _, _, _, _, [], _, _, _, h, _ => by simp at h
  | fds, idx, oi, m, p, known, rp, a :: as, rfs, 0, c, hi, h => by
    simp only [List.getElem?_cons_zero, Option.some.injEq] at hi
    subst hi
    exact sndFields_uc_head C ℓ fds idx oi m p known rp a as rfs h
  | fds, idx, oi, m, p, known, rp, a :: as, rfs, i + 1, c, hi, h => by
    simp only [List.getElem?_cons_succ] at hi
    simp only [SndFieldsG] at h
    exact sndFields_uc_at C ℓ fds.tail (idx + 1) _ m p known rp as rfs.tail i c hi h.2.2

/-- every field value of a struct with sound marks (present or not, marked or not) has up-closed marks -/
theorem uc_field (C : Ctx) (ℓ : Bool) (n : String) (m p : Nat) (fr : Bool) (fs : List AS) (R : Option St) (i : Nat) (c : AS)
    (hns : ¬ (C.isDictName n = true ∧ fr = true)) (hc : fs[i]? = some c) (h : SndG C ℓ (.struct n m p fr fs) R) : UC C c := by
  simp only [SndG] at h
  rcases h with ⟨hd, hfr | h⟩ | ⟨hd, h⟩
  · exact absurd ⟨hd, hfr⟩ hns
  · exact sndFields_uc_at C true _ _ _ _ _ _ _ _ _ i c hc h
  · exact sndFields_uc_at C ℓ _ _ _ _ _ _ _ _ _ i c hc h

/-- `pres_struct_mark` when the new value is only known to be sound if the old value was up-closed (which
    it is, by the invariant) -/
theorem pres_struct_mark' (C : Ctx) (n : String) (m p p' : Nat) (fr : Bool) (fs : List AS) (i : Nat) (c c' : AS)
    (hc : fs[i]? = some c) (hns : ¬ (C.isDictName n = true ∧ fr = true))
    (hp : ∀ o, (o ≠ optIndex (fieldsOf C n) i ∨ fdOpt ((fieldsOf C n).drop i) = false) → p'.testBit o = p.testBit o)
    (hc' : UC C c → AnySnd C c') :
    Pres C (.struct n m p fr fs) (.struct n (structRecv m i .direct).1 p' fr (fs.set i c')) (structRecv m i .direct).2 := by
  refine ⟨fun ℓ R h => ?_, fun hq hno => ?_, rfl⟩
  · have huc := uc_field C ℓ n m p fr fs R i c hns hc h
    exact (pres_struct_mark C n m p p' fr fs i c c' hc hns hp (fun _ => hc' huc) (fun _ => hc' huc true none)).snd ℓ R h
  · simp only [Quiet] at hq
    rcases hq with hq | hq
    · exact absurd hq hns
    obtain ⟨hm, _⟩ := hq
    subst hm
    have := structRecv_up_no 0 i .direct hno (Nat.zero_testBit i)
    simp at this

theorem setObj_pres (C : Ctx) (i : Nat) (v : AS) (w w' : AS) (u : Up) (hnd : C.isDictNode w = false)
    (h : applyOp C (.setObj i v) w = .ok (w', u)) : Pres C w w' u := by
  cases w with
  | struct n m p fr fs =>
    simp only [Ctx.isDictNode] at hnd
    have hns := not_shared_of_not_dict C n fr hnd
    simp only [applyOp] at h
    split at h
    · rename_i fd cur hfd hfs
      have hopt := fdOpt_drop _ i fd hfd
      have hpb : ∀ o, (o ≠ optIndex (fieldsOf C n) i ∨ fdOpt ((fieldsOf C n).drop i) = false) →
          (if fd.optional = true then p ||| 2 ^ optIdx (fieldsOf C n) i else p).testBit o = p.testBit o := by
        intro o ho
        by_cases hfo : fd.optional = true
        · simp only [hfo, if_true, optIdx]
          rcases ho with ho | ho
          · exact or_two_pow_testBit p _ o ho
          · rw [hopt, hfo] at ho; simp at ho
        · simp [hfo]
      have hset : (structRecv m i .direct).1.testBit i = true := structRecv_set m i .direct (by simp)
      split at h
      · simp at h
      · rename_i hdty
        have hdty : C.isDictTy fd.ty = true := by simpa using hdty
        by_cases hsh : C.canBeShared v = true
        · -- a value that can be shared
          simp only [hsh, if_true] at h
          split at h
          · simp only [Except.ok.injEq, Prod.mk.injEq] at h
            obtain ⟨rfl, rfl⟩ := h
            exact pres_struct_mark C n m p _ fr fs i cur v hfs hns hpb
              (fun _ => anySnd_shared C v hsh) (fun _ => uc_shared C v hsh)
          · simp only [Except.ok.injEq, Prod.mk.injEq] at h
            obtain ⟨rfl, rfl⟩ := h
            exact Pres.refl C _ _
        · -- an owned value: copied into the (unshared) current one
          simp only [hsh, if_false, Bool.false_eq_true] at h
          by_cases hcs : C.canBeShared cur = true
          · simp only [hcs, if_true, structRecv_again _ i _ hset, join_no_no] at h
            split at h
            · simp at h
            · rename_i hdict
              simp only [Except.ok.injEq, Prod.mk.injEq] at h
              obtain ⟨rfl, rfl⟩ := h
              refine pres_struct_mark' C n m p _ fr fs i cur _ hfs hns hpb (fun huc => ?_)
              have h1 := unshare_pres C C.copy (copy_pres C) fd.ty cur (isPtrTy_of_isDictTy C fd.ty hdty) hcs
              have h2 := copy_pres C (C.unshare fd.ty cur).1 v
              exact anySnd_dict C _ (by simpa using hdict) (h2.snd true none (h1.snd true none huc))
          · simp only [hcs, if_false, Bool.false_eq_true, structRecv_again _ i _ hset, join_no_no] at h
            split at h
            · simp at h
            · rename_i hdict
              simp only [Except.ok.injEq, Prod.mk.injEq] at h
              obtain ⟨rfl, rfl⟩ := h
              refine pres_struct_mark' C n m p _ fr fs i cur _ hfs hns hpb (fun huc => ?_)
              exact anySnd_dict C _ (by simpa using hdict) ((copy_pres C cur v).snd true none huc)
    · simp at h
  | _ => simp [applyOp] at h

/-! ## SetKey(i, k) / SetValue(i, v) of a dictionary-struct key / value of a multimap -/

theorem setKeyObj_pres (C : Ctx) (i : Nat) (src : AS) (w w' : AS) (u : Up)
    (h : applyOp C (.setKeyObj i src) w = .ok (w', u)) : Pres C w w' u := by
  cases w with
  | mmap n ps hid k v ml =>
    simp only [applyOp] at h
    split at h
    · simp at h
    · rename_i hdty
      have hdty : C.isDictTy (mmapTys C n).1 = true := by simpa using hdty
      split at h
      · rename_i a b hc
        simp only [Except.ok.injEq, Prod.mk.injEq, setNth] at h
        obtain ⟨rfl, rfl⟩ := h
        rcases setDictElem_cases C C.unshare (fun x => C.copy x src) (mmapTys C n).1 (maskForIndex i) a src k
          (fun sh hsh => unshare_pres C C.copy (copy_pres C) _ sh (isPtrTy_of_isDictTy C _ hdty) hsh)
          (fun x => copy_pres C x src) with e | ⟨a', ha, e⟩
        · rw [e]
          simp only [set_self ps i (a, b) hc]
          exact Pres.refl C _ _
        · rw [e]
          have := pres_key C n ps hid k v ml i a b a' .direct hc ha (fun _ h => by simp at h)
          simpa [trackerRecv_direct] using this
      · simp at h
  | _ => simp [applyOp] at h

theorem setValueObj_pres (C : Ctx) (i : Nat) (src : AS) (w w' : AS) (u : Up)
    (h : applyOp C (.setValueObj i src) w = .ok (w', u)) : Pres C w w' u := by
  cases w with
  | mmap n ps hid k v ml =>
    simp only [applyOp] at h
    split at h
    · simp at h
    · rename_i hdty
      have hdty : C.isDictTy (mmapTys C n).2 = true := by simpa using hdty
      split at h
      · rename_i a b hc
        simp only [Except.ok.injEq, Prod.mk.injEq, setNth] at h
        obtain ⟨rfl, rfl⟩ := h
        rcases setDictElem_cases C C.unshare (fun x => C.copy x src) (mmapTys C n).2 (maskForIndex i) b src v
          (fun sh hsh => unshare_pres C C.copy (copy_pres C) _ sh (isPtrTy_of_isDictTy C _ hdty) hsh)
          (fun x => copy_pres C x src) with e | ⟨b', hb, e⟩
        · rw [e]
          simp only [set_self ps i (a, b) hc]
          exact Pres.refl C _ _
        · rw [e]
          have := pres_val C n ps hid k v ml i a b b' .direct hc hb (fun _ h => by simp at h)
          simpa [trackerRecv_direct] using this
      · simp at h
  | _ => simp [applyOp] at h

end Stef.Api
