/-
  C03 at the level of the string / bytes decoders: whatever the (untrusted) column holds, a decoded
  value lies inside the column or is an entry of the dictionary; nothing is fabricated.
-/
import Stef.Codec

namespace Stef.Codec
open Stef

theorem decodeAux_length (bs : Bytes) (shift acc i : Nat) (x : Word) (rest : Bytes)
    (h : Varint.decodeAux bs shift acc i = some (x, rest)) : rest.length < bs.length := by
  induction bs generalizing shift acc i with
  | nil => simp [Varint.decodeAux] at h
  | cons b bs ih =>
    unfold Varint.decodeAux at h
    split at h
    · cases h
    · split at h
      · split at h
        · cases h
        · simp only [Option.some.injEq, Prod.mk.injEq] at h
          rw [← h.2]; simp
      · have := ih _ _ _ h
        simp; omega

theorem decodeSigned_length (bs : Bytes) (x : Word) (rest : Bytes)
    (h : Varint.decodeSigned bs = some (x, rest)) : rest.length < bs.length := by
  unfold Varint.decodeSigned Varint.decode at h
  cases hd : Varint.decodeAux bs 0 0 0 with
  | none => rw [hd] at h; cases h
  | some p =>
    rw [hd] at h
    simp only [Option.map_some, Option.some.injEq, Prod.mk.injEq] at h
    have := decodeAux_length bs 0 0 0 p.1 p.2 (by rw [hd])
    rw [← h.2]; exact this

/-- `StringDecoder.Decode` / `BytesDecoder.Decode`: the value and what is left are disjoint parts of
    the column; a length that exceeds the column (however large) is an error. -/
theorem strDecode_within (buf v rest : Bytes) (h : strDecode buf = .ok (v, rest)) :
    v.length + rest.length < buf.length := by
  unfold strDecode at h
  cases hd : Varint.decodeSigned buf with
  | none => rw [hd] at h; cases h
  | some p =>
    obtain ⟨x, r⟩ := p
    rw [hd] at h
    simp only at h
    have hl := decodeSigned_length buf x r hd
    split at h
    · cases h
    · split at h
      · simp only [Except.ok.injEq, Prod.mk.injEq] at h
        rw [← h.1, ← h.2]; simpa using hl
      · split at h
        · cases h
        · rename_i hlen
          simp only [Except.ok.injEq, Prod.mk.injEq] at h
          rw [← h.1, ← h.2]
          simp only [List.length_take, List.length_drop]
          omega

/-- `StringDictDecoder.Decode`: the value is an entry of the reader's dictionary or a part of the
    column, and the dictionary only grows by values that were read from the column. -/
theorem strDictDecode_within (d d' : List Bytes) (buf v rest : Bytes)
    (h : strDictDecode d buf = .ok (d', v, rest)) :
    rest.length < buf.length ∧ (v ∈ d ∨ v.length + rest.length < buf.length) ∧ (d' = d ∨ d' = d ++ [v]) := by
  unfold strDictDecode at h
  cases hd : Varint.decodeSigned buf with
  | none => rw [hd] at h; cases h
  | some p =>
    obtain ⟨x, r⟩ := p
    rw [hd] at h
    simp only at h
    have hl := decodeSigned_length buf x r hd
    split at h
    · split at h
      · cases h
      · rename_i v0 hv
        simp only [Except.ok.injEq, Prod.mk.injEq] at h
        obtain ⟨h1, h2, h3⟩ := h
        subst h1 h2 h3
        exact ⟨hl, Or.inl (List.mem_of_getElem? hv), Or.inl rfl⟩
    · split at h
      · simp only [Except.ok.injEq, Prod.mk.injEq] at h
        obtain ⟨h1, h2, h3⟩ := h
        subst h1 h2 h3
        exact ⟨hl, Or.inr (by simpa using hl), Or.inl rfl⟩
      · split at h
        · cases h
        · rename_i hlen
          simp only [Except.ok.injEq, Prod.mk.injEq] at h
          obtain ⟨h1, h2, h3⟩ := h
          subst h2 h3
          refine ⟨by simp only [List.length_drop]; omega, Or.inr (by simp only [List.length_take, List.length_drop]; omega), ?_⟩
          rw [← h1]
          split
          · exact Or.inr rfl
          · exact Or.inl rfl

end Stef.Codec
