/-
  Stef.Proofs.ForwardCex: concrete schemas and streams for Props/C04:
  * `cA ≼ cB` with two structs sharing a struct dictionary: the record-level forward statement FAILS;
  * `dA ≼ dB` with a dangling type reference in A that B defines: it FAILS as well;
  * `exA ≼ exB` (Proofs/Override) with a real two-record stream: the hypotheses of the corrected
    theorem are satisfiable.
  Everything here is evaluation of `Spec.decodeStream` on literal bytes by the kernel.
-/
import Stef.Proofs.ForwardWF

namespace Stef.Proofs.Forward.Cex
open Stef Stef.Spec Stef.Proofs.Override Stef.Proofs.Forward

def ofNats (l : List Nat) : Bytes := l.map (BitVec.ofNat 8)

/-! ## 1. two structs share a struct dictionary -/

def cA : Schema := { defs := [
  ("R", .struct none [⟨"a", false, .ref "S1"⟩, ⟨"b", false, .ref "S2"⟩]),
  ("S1", .struct (some "d") [⟨"p", false, .prim .bool none⟩, ⟨"q", false, .prim .bool none⟩]),
  ("S2", .struct (some "d") [⟨"p", false, .prim .bool none⟩])] }

def cB : Schema := { defs := [
  ("R", .struct none [⟨"a", false, .ref "S1"⟩, ⟨"b", false, .ref "S2"⟩]),
  ("S1", .struct (some "d") [⟨"p", false, .prim .bool none⟩, ⟨"q", false, .prim .bool none⟩]),
  ("S2", .struct (some "d") [⟨"p", false, .prim .bool none⟩, ⟨"z", false, .prim .i64 none⟩])] }

/-- header with descriptor [2, 2, 1]; one frame, three records:
    1. a = S1{T,T} (full, stored as dictionary entry 1), b = S2{T} (full, entry 2);
    2. a = reference to entry 2 (the S2 value);
    3. a = full encoding with an empty modified mask (every field "as before"). -/
def cStream : Bytes := ofNats [83, 84, 69, 70, 2, 0, 0, 0, 6, 4, 3, 2, 2, 1, 0, 0, 12, 3, 3, 86, 85, 85, 212, 230, 128,
  128, 128, 192, 128]

theorem cA_le_cB : SchemaLe cA cB := by
  intro n dA h
  simp only [Schema.find, cA, List.find?] at h
  by_cases h1 : "R" = n
  · subst h1
    simp at h
    subst h
    exact ⟨_, rfl, rfl, ⟨[], rfl⟩⟩
  · by_cases h2 : "S1" = n
    · subst h2
      simp at h
      subst h
      exact ⟨_, rfl, rfl, ⟨[], rfl⟩⟩
    · by_cases h3 : "S2" = n
      · subst h3
        simp at h
        subst h
        exact ⟨_, rfl, rfl, ⟨[_], rfl⟩⟩
      · simp [h1, h2, h3] at h

theorem cA_closed : Closed cA := closed_of_closedB cA (by decide)

def cRecsA : List St := [
  .struct 0 [.struct 0 [.b true, .b true], .struct 0 [.b true]],
  .struct 0 [.struct 0 [.b true], .struct 0 [.b true]],
  .struct 0 [.struct 0 [.b true, .oneof 0 none], .struct 0 [.b true]]]

def cRecsB : List St := [
  .struct 0 [.struct 0 [.b true, .b true], .struct 0 [.b true, .i 0#64]],
  .struct 0 [.struct 0 [.b true, .i 0#64], .struct 0 [.b true, .i 0#64]],
  .struct 0 [.struct 0 [.b true, .i 0#64], .struct 0 [.b true, .i 0#64]]]

set_option maxRecDepth 100000 in
theorem c_mkNode : ∃ nodeA bA, mkNode cA 200 [] (.ref "R") {} = .ok (nodeA, bA) ∧ wireOf bA = [2, 2, 1] :=
  ⟨_, _, rfl, rfl⟩

set_option maxRecDepth 100000 in
theorem c_runA : (decodeStream cA "R" cStream).error = none ∧
    (decodeStream cA "R" cStream).header.wireCounts = some [2, 2, 1] ∧
    (decodeStream cA "R" cStream).records.map (·.2) = cRecsA := by
  refine ⟨?_, ?_, ?_⟩ <;> with_unfolding_all rfl

set_option maxRecDepth 100000 in
theorem c_runB : (decodeStream cB "R" cStream).error = none ∧
    (decodeStream cB "R" cStream).records.map (·.2) = cRecsB := by
  refine ⟨?_, ?_⟩ <;> with_unfolding_all rfl

/-- the third records are not related: A holds the placeholder `.oneof 0 none` where B holds the
    default of S2's B-only field `z` -/
theorem c_not_ext : ¬ ExtL cRecsA cRecsB := by
  intro h
  simp only [cRecsA, cRecsB] at h
  cases h with
  | cons _ _ _ _ _ h =>
  cases h with
  | cons _ _ _ _ _ h =>
  cases h with
  | cons _ _ _ _ h3 _ =>
  generalize hx : St.struct 0 [St.struct 0 [St.b true, St.i 0#64], St.struct 0 [St.b true, St.i 0#64]] = x at h3
  cases h3 with
  | struct p fa fb extra hl =>
    injection hx with _ hx
    cases hl with
    | cons a b as bs hab hr =>
      simp only [List.cons_append] at hx
      injection hx with hx1 hx2
      subst hx1
      generalize hy : St.struct 0 [St.b true, St.i 0#64] = y at hab
      cases hab with
      | struct p' fa' fb' extra' hl' =>
        injection hy with _ hy
        cases hl' with
        | cons a1 b1 as1 bs1 _ hr1 =>
          simp only [List.cons_append] at hy
          injection hy with _ hy
          cases hr1 with
          | cons a2 b2 as2 bs2 hab2 _ =>
            simp only [List.cons_append] at hy
            injection hy with hy _
            subst hy
            cases hab2

/-! ## 2. a dangling type reference in A (resolved by an array key) that B defines -/

def dA : Schema := { defs := [
  ("R", .struct none [⟨"x", false, .arr (.ref "S")⟩]),
  ("S", .struct none [⟨"y", false, .ref "[]S"⟩])] }

def dB : Schema := { defs := [
  ("R", .struct none [⟨"x", false, .arr (.ref "S")⟩]),
  ("S", .struct none [⟨"y", false, .ref "[]S"⟩]),
  ("[]S", .struct none [⟨"k", false, .prim .bool none⟩])] }

/-- header with descriptor [1, 1]; one frame, one record: x = [S{}] with S's field `y` unmodified -/
def dStream : Bytes := ofNats [83, 84, 69, 70, 2, 0, 0, 0, 5, 3, 2, 1, 1, 0, 0, 7, 1, 2, 85, 80, 128, 80, 0]

theorem dA_le_dB : SchemaLe dA dB := by
  intro n dA' h
  simp only [Schema.find, dA, List.find?] at h
  by_cases h1 : "R" = n
  · subst h1
    simp at h
    subst h
    exact ⟨_, rfl, rfl, ⟨[], rfl⟩⟩
  · by_cases h2 : "S" = n
    · subst h2
      simp at h
      subst h
      exact ⟨_, rfl, rfl, ⟨[], rfl⟩⟩
    · simp [h1, h2] at h

theorem dA_dictInj : DictInj dA := dictInj_of_dictInjB dA (by decide)

def dRecsA : List St := [.struct 0 [.arr [.struct 0 [.oneof 0 none]]]]
def dRecsB : List St := [.struct 0 [.arr [.struct 0 [.struct 0 [.b false]]]]]

set_option maxRecDepth 100000 in
theorem d_mkNode : ∃ nodeA bA, mkNode dA 200 [] (.ref "R") {} = .ok (nodeA, bA) ∧ wireOf bA = [1, 1] :=
  ⟨_, _, rfl, rfl⟩

set_option maxRecDepth 100000 in
theorem d_runA : (decodeStream dA "R" dStream).error = none ∧
    (decodeStream dA "R" dStream).header.wireCounts = some [1, 1] ∧
    (decodeStream dA "R" dStream).records.map (·.2) = dRecsA := by
  refine ⟨?_, ?_, ?_⟩ <;> with_unfolding_all rfl

set_option maxRecDepth 100000 in
theorem d_runB : (decodeStream dB "R" dStream).error = none ∧
    (decodeStream dB "R" dStream).records.map (·.2) = dRecsB := by
  refine ⟨?_, ?_⟩ <;> with_unfolding_all rfl

theorem d_not_ext : ¬ ExtL dRecsA dRecsB := by
  intro h
  simp only [dRecsA, dRecsB] at h
  cases h with
  | cons _ _ _ _ h1 _ =>
  generalize hx : St.struct 0 [St.arr [St.struct 0 [St.struct 0 [St.b false]]]] = x at h1
  cases h1 with
  | struct p fa fb extra hl =>
    injection hx with _ hx
    cases hl with
    | cons a b as bs hab hr =>
      simp only [List.cons_append] at hx
      injection hx with hx1 _
      subst hx1
      cases hab with
      | arr _ _ hl2 =>
        cases hl2 with
        | cons _ _ _ _ h2 _ =>
          generalize hy : St.struct 0 [St.struct 0 [St.b false]] = y at h2
          cases h2 with
          | struct p' fa' fb' extra' hl' =>
            injection hy with _ hy
            cases hl' with
            | cons a1 b1 as1 bs1 hab1 _ =>
              simp only [List.cons_append] at hy
              injection hy with hy _
              subst hy
              cases hab1

/-! ## 3. the pair exA ≼ exB of Proofs/Override with a real stream -/

/-- header with exA's own descriptor [3, 1, 2]; one frame, two records:
    1. R{x = 5, s = S{a = 2.0}, t = [T.u 7, T.r R{x = 9, s = S{}, t = []}]}  (everything modified);
    2. the same with x = 6 (only `x` modified). -/
def exStream : Bytes := ofNats [83, 84, 69, 70, 2, 0, 0, 0, 6, 4, 3, 3, 1, 2, 0, 0, 17, 2, 4, 103, 86, 85, 80, 244, 128,
  10, 1, 13, 192, 194, 4, 104, 96, 14]

theorem exA_closed : Closed exA := closed_of_closedB exA (by decide)
theorem exA_dictInj : DictInj exA := dictInj_of_dictInjB exA (by decide)

def exRec (x : Word) : St :=
  .struct 0 [.i x, .struct 1 [.f 0x4000000000000000#64], .arr [.oneof 1 (some (.i 7#64)),
    .oneof 2 (some (.struct 0 [.i 9#64, .struct 0 [.f 0#64], .arr []]))]]

set_option maxRecDepth 100000 in
theorem ex_runA : (decodeStream exA "R" exStream).error = none ∧
    (decodeStream exA "R" exStream).header.wireCounts = some [3, 1, 2] ∧
    (decodeStream exA "R" exStream).records = [(7, exRec 5#64), (1, exRec 6#64)] := by
  refine ⟨?_, ?_, ?_⟩ <;> with_unfolding_all rfl

/-- what the B reader returns: the same records with the B-only fields (`S.n`, `R.y`) at their defaults -/
def exRecB (x : Word) : St :=
  .struct 0 [.i x, .struct 1 [.f 0x4000000000000000#64, .struct 0 [.b false]], .arr [.oneof 1 (some (.i 7#64)),
    .oneof 2 (some (.struct 0 [.i 9#64, .struct 0 [.f 0#64, .struct 0 [.b false]], .arr [], .s []]))], .s []]

set_option maxRecDepth 100000 in
theorem ex_runB : (decodeStream exB "R" exStream).records = [(7, exRecB 5#64), (1, exRecB 6#64)] := by
  with_unfolding_all rfl

end Stef.Proofs.Forward.Cex
