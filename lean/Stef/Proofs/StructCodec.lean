import Stef.StructCodec
import Stef.Proofs.Bits

namespace Stef.StructCodec
open Stef Stef.Spec

variable {K : Codec}

theorem maskOf_lt (fs : List (WField K)) : maskOf fs < 2 ^ fs.length := by
  induction fs with
  | nil => simp [maskOf]
  | cons f fs ih =>
    simp only [maskOf, List.length_cons, Nat.pow_succ]
    split <;> omega

/-- what one `write` appends to each field's column -/
def outs : List (WField K) → List (List K.C)
  | [] => []
  | f :: fs => (if f.modified then (K.enc f.st f.val).2 else []) :: outs fs

/-- writer/reader agreement between operations: same codec states, and every field the writer
    has NOT marked modified holds the value the reader already has. -/
def Inv : List (WField K) → List (RField K) → Prop
  | [], [] => True
  | f :: fs, g :: gs => g.st = f.st ∧ K.ok f.st ∧ (f.modified = false → g.val = f.val) ∧ Inv fs gs
  | _, _ => False

/-- the reader's columns start with what this write appends -/
def Feeds : List (WField K) → List (RField K) → List (List K.C) → Prop
  | [], [], [] => True
  | f :: fs, g :: gs, t :: ts =>
    g.col = (if f.modified then (K.enc f.st f.val).2 else []) ++ t ∧ Feeds fs gs ts
  | _, _, _ => False

/-- the fields after a write, on the writer side -/
def written (fs : List (WField K)) : List (WField K) :=
  fs.map (fun f =>
    if f.modified then
      let (s', out) := K.enc f.st f.val
      { f with st := s', col := f.col ++ out, modified := false }
    else f)

/-- the reader fields after decoding one record: writer's values, writer's new states, tails -/
def Result : List (WField K) → List (RField K) → List (List K.C) → Prop
  | [], [], [] => True
  | f :: fs, g :: gs, t :: ts => g.val = f.val ∧ g.st = f.st ∧ K.ok f.st ∧ g.col = t ∧ Result fs gs ts
  | _, _, _ => False

theorem decFields_step (hK : K.Lawful) : ∀ (fs : List (WField K)) (gs : List (RField K)) (ts : List (List K.C)),
    Inv fs gs → Feeds fs gs ts →
    ∃ gs', decFields gs (maskOf fs) = some gs' ∧ Result (written fs) gs' ts := by
  intro fs
  induction fs with
  | nil =>
    intro gs ts hi hf
    cases gs with
    | nil => cases ts with
      | nil => exact ⟨[], rfl, trivial⟩
      | cons _ _ => simp [Feeds] at hf
    | cons _ _ => simp [Inv] at hi
  | cons f fs ih =>
    intro gs ts hi hf
    cases gs with
    | nil => simp [Inv] at hi
    | cons g gs =>
      cases ts with
      | nil => simp [Feeds] at hf
      | cons t ts =>
        obtain ⟨hst, hok, hval, hi'⟩ := hi
        obtain ⟨hcol, hf'⟩ := hf
        obtain ⟨gs', hd, hr⟩ := ih gs ts hi' hf'
        cases hm : f.modified with
        | true =>
          have h1 : maskOf (f :: fs) % 2 = 1 := by simp [maskOf, hm]
          have h2 : maskOf (f :: fs) / 2 = maskOf fs := by simp [maskOf, hm]; omega
          simp only [decFields, h1, ↓reduceIte, h2]
          rw [hcol, hst]
          simp only [hm, ↓reduceIte]
          rw [(hK f.st f.val t hok).1, hd]
          refine ⟨_, rfl, ?_⟩
          simp only [written, List.map_cons, hm, ↓reduceIte, Result]
          exact ⟨trivial, trivial, (hK f.st f.val t hok).2, trivial, hr⟩
        | false =>
          have h1 : ¬ maskOf (f :: fs) % 2 = 1 := by simp [maskOf, hm]
          have h2 : maskOf (f :: fs) / 2 = maskOf fs := by simp [maskOf, hm]
          simp only [decFields, h1, ↓reduceIte, h2, hd]
          refine ⟨_, rfl, ?_⟩
          simp only [written, List.map_cons, hm, Bool.false_eq_true, ↓reduceIte, Result]
          refine ⟨hval hm, hst, hok, ?_, hr⟩
          simpa [hm] using hcol

theorem written_length (fs : List (WField K)) : (written fs).length = fs.length := by simp [written]

theorem inv_length : ∀ (fs : List (WField K)) (gs : List (RField K)), Inv fs gs → gs.length = fs.length := by
  intro fs
  induction fs with
  | nil => intro gs h; cases gs <;> simp_all [Inv]
  | cons f fs ih => intro gs h; cases gs with
    | nil => simp [Inv] at h
    | cons g gs => simp [Inv] at h; simp [ih gs h.2.2.2]

/-- **one record**: the reader decodes exactly the record the writer encoded, from columns that
    start with what the writer appended, and is left with the tails. -/
theorem read_step (hK : K.Lawful) (w : Writer K) (r : Reader K) (ts : List (List K.C)) (tm : Bits)
    (hn : w.fields.length ≤ 64) (hi : Inv w.fields r.fields) (hf : Feeds w.fields r.fields ts)
    (hm : r.maskCol = lowBits (BitVec.ofNat 64 (maskOf w.fields)) w.fields.length ++ tm) :
    ∃ r', r.read = some r' ∧ Result w.write.fields r'.fields ts ∧ r'.maskCol = tm := by
  have hlen := inv_length _ _ hi
  have hlt := maskOf_lt w.fields
  have h64 : maskOf w.fields < 2 ^ 64 := Nat.lt_of_lt_of_le hlt (Nat.pow_le_pow_right (by omega) hn)
  have htn : (BitVec.ofNat 64 (maskOf w.fields)).toNat = maskOf w.fields := by
    simp [BitVec.toNat_ofNat]; omega
  obtain ⟨gs', hd, hr⟩ := decFields_step hK w.fields r.fields ts hi hf
  unfold Reader.read
  rw [hlen, hm, readBits_lowBits _ _ tm hn (by rw [htn]; exact hlt)]
  simp only [htn, hd]
  exact ⟨_, rfl, hr, rfl⟩

end Stef.StructCodec

namespace Stef.StructCodec
open Stef Stef.Spec

variable {K : Codec}

def setFields (fs : List (WField K)) (i : Nat) (v : Word) : List (WField K) :=
  fs.mapIdx (fun j f => if j = i ∧ f.val ≠ v then { f with val := v, modified := true } else f)

theorem set_fields (w : Writer K) (i : Nat) (v : Word) : (w.set i v).fields = setFields w.fields i v := rfl
theorem write_fields (w : Writer K) : w.write.fields = written w.fields := rfl

def zipApp {α} : List (List α) → List (List α) → List (List α)
  | a :: as, b :: bs => (a ++ b) :: zipApp as bs
  | _, _ => []

/-- everything the remaining operations will append to each field's column -/
def futureCols : List (WField K) → List Op → List (List K.C)
  | fs, [] => fs.map (fun _ => [])
  | fs, .set i v :: ops => futureCols (setFields fs i v) ops
  | fs, .write :: ops => zipApp (outs fs) (futureCols (written fs) ops)

def futureMask : List (WField K) → List Op → Bits
  | _, [] => []
  | fs, .set i v :: ops => futureMask (setFields fs i v) ops
  | fs, .write :: ops => lowBits (BitVec.ofNat 64 (maskOf fs)) fs.length ++ futureMask (written fs) ops

def writes : List Op → Nat
  | [] => 0
  | .set _ _ :: ops => writes ops
  | .write :: ops => writes ops + 1

/-- reader columns = future output followed by tails -/
def FeedsF : List (RField K) → List (List K.C) → List (List K.C) → Prop
  | [], [], [] => True
  | g :: gs, u :: us, t :: ts => g.col = u ++ t ∧ FeedsF gs us ts
  | _, _, _ => False

theorem setFields_length (fs : List (WField K)) (i : Nat) (v : Word) : (setFields fs i v).length = fs.length := by
  simp [setFields]

/-- a setter keeps the agreement: it marks exactly when it changes a value. -/
theorem inv_set : ∀ (fs : List (WField K)) (gs : List (RField K)) (i : Nat) (v : Word),
    Inv fs gs → Inv (setFields fs i v) gs := by
  intro fs gs i v h
  suffices hgen : ∀ (fs : List (WField K)) (gs : List (RField K)) (k : Nat), Inv fs gs →
      Inv (fs.mapIdx (fun j f => if j + k = i ∧ f.val ≠ v then { f with val := v, modified := true } else f)) gs by
    simpa [setFields] using hgen fs gs 0 h
  intro fs
  induction fs with
  | nil => intro gs k h; cases gs <;> simp_all [Inv]
  | cons f fs ih =>
    intro gs k h
    cases gs with
    | nil => simp [Inv] at h
    | cons g gs =>
      obtain ⟨h1, hok, h2, h3⟩ := h
      simp only [List.mapIdx_cons, Inv]
      have hrest := ih gs (k + 1) h3
      have e : (fun j (f : WField K) => if j + 1 + k = i ∧ f.val ≠ v then { f with val := v, modified := true } else f)
          = (fun j (f : WField K) => if j + (k + 1) = i ∧ f.val ≠ v then { f with val := v, modified := true } else f) := by
        funext j f
        have : j + 1 + k = j + (k + 1) := by omega
        rw [this]
      simp only [e]
      refine ⟨?_, ?_, ?_, hrest⟩
      · split <;> simp [h1]
      · split <;> simp [hok]
      · split
        · simp
        · exact h2

theorem feedsF_split : ∀ (fs : List (WField K)) (gs : List (RField K)) (us ts : List (List K.C)),
    fs.length = gs.length → us.length = gs.length →
    FeedsF gs (zipApp (outs fs) us) ts → Feeds fs gs (zipApp us ts) := by
  intro fs
  induction fs with
  | nil => intro gs us ts h1 h2 h
           cases gs with
           | nil => cases us with
             | nil => cases ts with
               | nil => simp [zipApp, Feeds]
               | cons t ts => simp [FeedsF, zipApp, outs] at h
             | cons _ _ => simp at h2
           | cons _ _ => simp at h1
  | cons f fs ih =>
    intro gs us ts h1 h2 h
    cases gs with
    | nil => simp at h1
    | cons g gs =>
      cases us with
      | nil => simp at h2
      | cons u us =>
        cases ts with
        | nil => simp [FeedsF, zipApp, outs] at h
        | cons t ts =>
          simp only [outs, zipApp, FeedsF] at h
          simp only [zipApp, Feeds]
          refine ⟨by rw [h.1, List.append_assoc], ?_⟩
          exact ih gs us ts (by simpa using h1) (by simpa using h2) h.2

theorem feedsF_length : ∀ (gs : List (RField K)) (us ts : List (List K.C)),
    FeedsF gs us ts → ts.length = gs.length ∧ us.length = gs.length := by
  intro gs
  induction gs with
  | nil => intro us ts h; cases us <;> cases ts <;> simp_all [FeedsF]
  | cons g gs ih =>
    intro us ts h
    cases us with
    | nil => cases ts <;> simp [FeedsF] at h
    | cons u us =>
      cases ts with
      | nil => simp [FeedsF] at h
      | cons t ts => simp only [FeedsF] at h; have := ih us ts h.2; simp [this.1, this.2]

theorem result_to_next : ∀ (fs : List (WField K)) (gs : List (RField K)) (us ts : List (List K.C)),
    us.length = fs.length → ts.length = fs.length → Result fs gs (zipApp us ts) →
    (∀ f ∈ fs, f.modified = false) → Inv fs gs ∧ FeedsF gs us ts := by
  intro fs
  induction fs with
  | nil => intro gs us ts h1 h1' h _
           cases gs with
           | nil => cases us with
             | nil => cases ts with
               | nil => simp [Inv, FeedsF]
               | cons _ _ => simp at h1'
             | cons _ _ => simp at h1
           | cons _ _ => cases us <;> cases ts <;> simp_all [Result, zipApp]
  | cons f fs ih =>
    intro gs us ts h1 h1' h hm
    cases us with
    | nil => simp at h1
    | cons u us =>
      cases gs with
      | nil => cases ts <;> simp [Result, zipApp] at h
      | cons g gs =>
        cases ts with
        | nil => simp [Result, zipApp] at h
        | cons t ts =>
          simp only [zipApp, Result] at h
          obtain ⟨a, b, bok, c, d⟩ := h
          have := ih gs us ts (by simpa using h1) (by simpa using h1') d (fun f hf => hm f (by simp [hf]))
          exact ⟨⟨b, bok, fun _ => a, this.1⟩, ⟨c, this.2⟩⟩

theorem written_unmodified (fs : List (WField K)) : ∀ f ∈ written fs, f.modified = false := by
  intro f hf
  simp only [written, List.mem_map] at hf
  obtain ⟨g, _, hg⟩ := hf
  by_cases h : g.modified = true
  · simp [h] at hg; rw [← hg]
  · simp [h] at hg; rw [← hg]; simpa using h

theorem outs_length (fs : List (WField K)) : (outs fs).length = fs.length := by
  induction fs with
  | nil => simp [outs]
  | cons f fs ih => simp [outs, ih]

theorem zipApp_length {α} : ∀ (a b : List (List α)), a.length = b.length → (zipApp a b).length = a.length := by
  intro a
  induction a with
  | nil => intro b _; cases b <;> simp [zipApp]
  | cons x a ih =>
    intro b h
    cases b with
    | nil => simp at h
    | cons y b => simp [zipApp, ih b (by simpa using h)]

theorem futureCols_length : ∀ (ops : List Op) (fs : List (WField K)), (futureCols fs ops).length = fs.length := by
  intro ops
  induction ops with
  | nil => intro fs; simp [futureCols]
  | cons op ops ih =>
    intro fs
    cases op with
    | set i v => simp [futureCols, ih, setFields_length]
    | write =>
      simp only [futureCols]
      have h1 := ih (written fs)
      rw [written_length] at h1
      rw [zipApp_length _ _ (by rw [outs_length, h1]), outs_length]

/-- **the round trip of the differential struct encoding**: for every operation history
    (setters and writes in any order), the reader - holding columns that start with everything
    the writer will append - returns exactly the writer's record at every `write`, in order. -/
theorem readN_snapshots (hK : K.Lawful) : ∀ (ops : List Op) (w : Writer K) (r : Reader K)
    (ts : List (List K.C)) (tm : Bits),
    w.fields.length ≤ 64 → Inv w.fields r.fields →
    FeedsF r.fields (futureCols w.fields ops) ts → r.maskCol = futureMask w.fields ops ++ tm →
    ∃ r', r.readN (writes ops) = some (snapshots w ops, r') ∧ r'.maskCol = tm ∧
      FeedsF r'.fields (r'.fields.map (fun _ => [])) ts := by
  intro ops
  induction ops with
  | nil =>
    intro w r ts tm _ hi hf hm
    refine ⟨r, by simp [writes, Reader.readN, snapshots], by simpa [futureMask] using hm, ?_⟩
    have hl := inv_length _ _ hi
    simp only [futureCols] at hf
    -- same shape, both lists of empty futures
    have : ∀ (gs : List (RField K)) (fs : List (WField K)) (ts : List (List K.C)), gs.length = fs.length →
        FeedsF gs (fs.map (fun _ => [])) ts → FeedsF gs (gs.map (fun _ => [])) ts := by
      intro gs
      induction gs with
      | nil => intro fs ts h1 h; cases fs <;> simp_all
      | cons g gs ih => intro fs ts h1 h
                        cases fs with
                        | nil => simp at h1
                        | cons f fs => cases ts with
                          | nil => simp [FeedsF] at h
                          | cons t ts => simp only [List.map_cons, FeedsF] at h ⊢
                                         exact ⟨h.1, ih fs ts (by simpa using h1) h.2⟩
    exact this r.fields w.fields ts hl hf
  | cons op ops ih =>
    intro w r ts tm hn hi hf hm
    cases op with
    | set i v =>
      simp only [writes, snapshots]
      have := ih (w.set i v) r ts tm (by rw [set_fields, setFields_length]; exact hn)
        (by rw [set_fields]; exact inv_set _ _ i v hi)
        (by rw [set_fields]; simpa [futureCols] using hf)
        (by rw [set_fields]; simpa [futureMask] using hm)
      exact this
    | write =>
      simp only [writes, snapshots, Reader.readN]
      simp only [futureCols] at hf
      simp only [futureMask, List.append_assoc] at hm
      have hl := inv_length _ _ hi
      have hfl := futureCols_length ops (written w.fields)
      rw [written_length] at hfl
      have hfeeds := feedsF_split w.fields r.fields _ ts hl.symm (by rw [hfl, hl]) hf
      obtain ⟨r1, h1, h2, h3⟩ := read_step hK w r _ _ hn hi hfeeds hm
      rw [h1]
      simp only
      rw [write_fields] at h2
      have htl := (feedsF_length _ _ _ hf).1
      obtain ⟨hi2, hf2⟩ := result_to_next (written w.fields) r1.fields (futureCols (written w.fields) ops) ts
        (by rw [hfl, written_length]) (by rw [written_length, htl, hl]) h2 (written_unmodified w.fields)
      obtain ⟨r2, h4, h5, h6⟩ := ih w.write r1 ts tm (by rw [write_fields, written_length]; exact hn)
        (by rw [write_fields]; exact hi2) (by rw [write_fields]; exact hf2) (by rw [write_fields]; exact h3)
      rw [h4]
      refine ⟨r2, ?_, h5, h6⟩
      simp only
      -- the record just read equals the writer's record at this write
      have hv : r1.fields.map (·.val) = w.fields.map (·.val) := by
        have : ∀ (fs : List (WField K)) (gs : List (RField K)) (us : List (List K.C)),
            Result (written fs) gs us → gs.map (·.val) = fs.map (·.val) := by
          intro fs
          induction fs with
          | nil => intro gs us h; cases gs <;> cases us <;> simp_all [written, Result]
          | cons f fs ihf =>
            intro gs us h
            cases gs with
            | nil => cases us <;> simp [written, Result] at h
            | cons g gs =>
              cases us with
              | nil => simp [written, Result] at h
              | cons u us =>
                simp only [written, List.map_cons, Result] at h
                simp only [List.map_cons]
                have hrest := ihf gs us h.2.2.2.2
                rw [hrest]
                congr 1
                rw [h.1]
                split <;> rfl
        exact this w.fields r1.fields _ h2
      rw [hv]

end Stef.StructCodec
