/-
  Stef.Proofs.ExporterGen: the REGENERATED exporter (Gen/ExporterFlow.lean: the bodies of pushMetrics,
  onGrpcAck and the arms of the flusher of the current otelcol/internal/stefexporter/exporter.go,
  interpreted by ExporterFlowSem.lean) makes exactly the exporter-side steps of the hand model
  Stef/Pipeline.lean, on every state:
    push_char      pushMetrics for every outcome of its callees (conversion error, no writer, the k-th Write
                   fails, success = the hand model's `push`), with the lock / unlock / Write actions it made
    ack_eq         onGrpcAck(a) = the exporter half of the hand model's `ackrecv` (loop by induction)
    flushTick_char one tick of the flusher = Flush() under writeMutex = `emit` of everything open or nothing
    gstep_eq / grun_eq   the pipeline with the regenerated exporter IS the hand pipeline
  A change of exporter.go that is not an equivalent rewriting makes one of these proofs fail.
-/
import Stef.Gen.ExporterFlow
import Stef.Proofs.Pipeline

set_option linter.unusedSimpArgs false

namespace Stef.Proofs.ExporterGen
open Stef.Pipeline Stef.ExporterFlowSem Stef.Gen.ExporterFlow

def handPush (p : PState) (pts : List Pt) : PState := (step p (.push pts)).getD p

theorem step_push (p : PState) (pts : List Pt) : step p (.push pts) = some (handPush p pts) := rfl

/-- the exporter half of the hand model's `ackrecv` -/
def handAck (p : PState) (a : Nat) : PState :=
  { p with pending := p.pending.filter (fun k => ¬ (p.lastAckedX ≤ k ∧ k < a)),
           lastAckedX := if p.lastAckedX < a then a else p.lastAckedX }

def ackLoop : Stmt :=
  .forLoop (.lt (.field .lastAcked) (.param 0)) (.incField .lastAcked) (.mapDelete (.field .lastAcked))

def ackC : Ex → Bool := fun y => (Cond.lt (.field .lastAcked) (.param 0)).eval y
def ackF (fuel : Nat) : Ex → Ex := fun y =>
        let y0 := { y with s := (Cond.lt (.field .lastAcked) (.param 0)).touch y.s }
        let y1 := exec .ok [] fuel (.mapDelete (.field .lastAcked)) y0
        if y1.returned.isSome then y1 else exec .ok [] fuel (.incField .lastAcked) y1

theorem ackLoop_unfold (fuel : Nat) (x : Ex) : exec .ok [] fuel ackLoop x = iter ackC (ackF fuel) fuel x := rfl

theorem handAck_step (p : PState) (a : Nat) (h : p.lastAckedX < a) :
    handAck { p with pending := p.pending.filter (fun j => j != p.lastAckedX), lastAckedX := p.lastAckedX + 1 } a
      = handAck p a := by
  simp only [handAck, List.filter_filter]
  congr 1
  · split <;> (try split) <;> omega
  · apply List.filter_congr
    intro k _
    rw [Bool.eq_iff_iff]
    simp only [Bool.and_eq_true, decide_eq_true_eq, bne_iff_ne, ne_eq]
    omega

theorem handAck_noop (p : PState) (a : Nat) (h : ¬ p.lastAckedX < a) : handAck p a = p := by
  have hf : p.pending.filter (fun k => ¬ (p.lastAckedX ≤ k ∧ k < a)) = p.pending := by
    apply List.filter_eq_self.mpr
    intro k _
    simp only [decide_eq_true_eq]
    omega
  simp only [handAck, hf, h, if_false]

theorem ack_iter (fuel a : Nat) : ∀ (n : Nat) (p : PState) (hw wh v pn dv : Bool) (acts : List Act)
    (tr : Nat → List Pt) (er : Nat → Bool) (d : List Mutex), a - p.lastAckedX ≤ n →
    iter ackC (ackF fuel) n
      { s := { p := p, hasWriter := hw, wHeld := wh, aHeld := true, viol := v, panicked := pn, diverged := dv, acts := acts },
        trees := tr, errs := er, params := [a], defers := d, returned := none } =
      { s := { p := handAck p a, hasWriter := hw, wHeld := wh, aHeld := true, viol := v, panicked := pn, diverged := dv, acts := acts },
        trees := tr, errs := er, params := [a], defers := d, returned := none }
  | 0, p, hw, wh, v, pn, dv, acts, tr, er, d, h => by
    have h' : ¬ p.lastAckedX < a := by omega
    simp [iter, ackC, Cond.eval, NExpr.eval, getField, h', handAck_noop]
  | n + 1, p, hw, wh, v, pn, dv, acts, tr, er, d, h => by
    by_cases h' : p.lastAckedX < a
    · have ih := ack_iter fuel a n { p with pending := p.pending.filter (fun j => j != p.lastAckedX), lastAckedX := p.lastAckedX + 1 }
        hw wh v pn dv acts tr er d (by simp; omega)
      rw [handAck_step p a h'] at ih
      rw [← ih]
      simp [iter, ackC, ackF, Cond.eval, Cond.touch, NExpr.eval, NExpr.touch, getField, setField, h', exec, XSt.need, XSt.held]
    · simp [iter, ackC, Cond.eval, NExpr.eval, getField, h', handAck_noop]


theorem onGrpcAckBody_shape : onGrpcAckBody = (.lock .ack ;; .deferUnlock .ack ;; ackLoop ;; .ret none) := rfl

theorem ack_eq (a : Nat) (s : XSt) (h : s.aHeld = false) :
    onGrpcAck a s = ({ s with p := handAck s.p a, acts := s.acts ++ [.lock .ack, .unlock .ack] }, some false) := by
  obtain ⟨p, hw, wh, ah, v, pn, dv, acts⟩ := s
  simp only at h
  subst h
  simp [onGrpcAck, runBody, onGrpcAckBody_shape, exec, opLock, XSt.held, XSt.setHeld, ackLoop_unfold,
    ack_iter a a a p hw wh v pn dv _ _ _ _ (Nat.sub_le _ _), runDefers, opUnlock]


/-! ### pushMetrics, every outcome -/

/-- which Write() of ToStef fails, if any (`toStefFailsAfter = some k` with k beyond the batch: none does) -/
def failsAt (o : Oracle) (n : Nat) : Option Nat :=
  match o.toStefFailsAfter with
  | some k => if k < n then some k else none
  | none => none

/-- `l` written to the remote writer, nothing else -/
def writeP (p : PState) (l : List Pt) : PState :=
  { p with written := p.written + l.length, open_ := p.open_ ++ l, pushed := p.pushed ++ l }

def pushResult (o : Oracle) (pts : List Pt) (s : XSt) : XSt × Option Bool :=
  if o.convertFails then (s, some true)
  else if s.hasWriter = false then
    ({ s with acts := s.acts ++ [.lock .write, .unlock .write] }, some false)
  else match failsAt o pts.length with
    | some k =>
      ({ s with p := writeP s.p (pts.take k),
                acts := s.acts ++ [.lock .write, .wrote k, .unlock .write] }, some true)
    | none =>
      ({ s with p := handPush s.p pts,
                acts := s.acts ++ [.lock .write, .wrote pts.length, .lock .ack, .unlock .ack, .unlock .write] },
       some false)

/-- unfold the interpreter on the regenerated pushMetrics -/
macro "push_simp" : tactic =>
  `(tactic| simp [pushMetrics, pushMetricsBody, runBody, exec, Cond.eval, Cond.touch, NExpr.eval, NExpr.touch,
      upd, opLock, opUnlock, XSt.held, XSt.setHeld, XSt.need, XSt.needWriter, opWrite, runDefers,
      getField, setField, step, handPush, pushResult, failsAt, writeP, *])

theorem push_char (o : Oracle) (pts : List Pt) (s : XSt) (hw : s.wHeld = false) (ha : s.aHeld = false) :
    pushMetrics o pts s = pushResult o pts s := by
  obtain ⟨p, hasW, wh, ah, v, pn, dv, acts⟩ := s
  obtain ⟨cf, tf, ff⟩ := o
  simp only at hw ha
  subst hw ha
  -- the comparison of lastAckedRecordId with the new lastSentRecordId, in both spellings
  have hcmp : (p.lastAckedX ≥ p.written + pts.length ∧ ¬ p.lastAckedX < p.written + pts.length) ∨
      (¬ p.lastAckedX ≥ p.written + pts.length ∧ p.lastAckedX < p.written + pts.length) := by omega
  cases cf <;> cases hasW
  all_goals
    cases tf with
    | none =>
      rcases hcmp with ⟨h1, h2⟩ | ⟨h1, h2⟩ <;> push_simp
    | some k =>
      by_cases hk : k < pts.length <;> rcases hcmp with ⟨h1, h2⟩ | ⟨h1, h2⟩ <;> push_simp <;> omega

/-! ### the flusher -/

theorem flushTick_char (o : Oracle) (s : XSt) (hw : s.wHeld = false) (hasW : s.hasWriter = true) :
    flusherTick o s =
      ({ s with p := flushP s.p, acts := s.acts ++ [.lock .write, .flushed, .unlock .write] }, none) := by
  obtain ⟨p, hasW', wh, ah, v, pn, dv, acts⟩ := s
  obtain ⟨cf, tf, ff⟩ := o
  simp only at hw hasW
  subst hw hasW
  cases ff <;>
  simp [flusherTick, flusherTickArm, runBody, exec, Cond.eval, Cond.touch, upd, opLock, opUnlock, XSt.held,
    XSt.setHeld, XSt.need, XSt.needWriter, runDefers]

theorem flushP_emit (p : PState) (h : p.open_.length ≠ 0) : step p (.emit p.open_.length) = some (flushP p) := by
  have h1 : 1 ≤ p.open_.length := by omega
  simp [step, flushP, h, h1]

theorem flushP_noop (p : PState) (h : p.open_.length = 0) : flushP p = p := by
  simp [flushP, h]

theorem flusherStop_char (s : XSt) : flusherStop s = (s, some false) := by
  simp [flusherStop, flusherStopArm, runBody, exec, runDefers]

/-- closed facts about the regenerated data -/
theorem tick_arm_static :
    flusherTickArm.has Stmt.isFlush = true ∧ flusherTickArm.has Stmt.isWriterWrite = false ∧
    flusherTickArm.has Stmt.isAckFieldWrite = false := by decide

theorem push_static : pushMetricsBody.has Stmt.isFlush = false ∧ pushMetricsBody.has Stmt.isWriterWrite = true := by
  decide

theorem ack_static : onGrpcAckBody.has Stmt.isFlush = false ∧ onGrpcAckBody.has Stmt.isWriterWrite = false := by
  decide

/-! ### the pipeline whose exporter is the regenerated code -/

/-- `Pipeline.step` with the exporter's transitions computed by the regenerated functions: `push` is one
    call of pushMetrics in which every callee succeeds, `emit k` for k = everything open is one tick of the
    flusher, the exporter half of `ackrecv` is one call of onGrpcAck with the oldest id in flight. A frame
    that leaves inside `Write()` (`emit k` otherwise: Gen/WriterFlow.lean), the transport and the receiver
    are the hand model's. -/
def gstep (p : PState) : Event → Option PState
  | .push pts => some (pushMetrics .ok pts (.of p)).1.p
  | .emit k =>
    if k = p.open_.length ∧ k ≠ 0 then some (flusherTick .ok (.of p)).1.p else step p (.emit k)
  | .ackrecv =>
    match p.back with
    | a :: rest => some { (onGrpcAck a (.of p)).1.p with back := rest }
    | [] => none
  | e => step p e

def grun : PState → List Event → Option PState
  | s, [] => some s
  | s, e :: es =>
    match gstep s e with
    | some s' => grun s' es
    | none => none

theorem gstep_eq (p : PState) (e : Event) : gstep p e = step p e := by
  cases e with
  | push pts =>
    simp only [gstep]
    rw [push_char .ok pts (.of p) rfl rfl]
    simp [pushResult, Oracle.ok, failsAt, XSt.of, step_push]
  | emit k =>
    simp only [gstep]
    split
    · rename_i h
      obtain ⟨h1, h2⟩ := h
      subst h1
      rw [flushTick_char .ok (.of p) rfl rfl, flushP_emit p h2]
      rfl
    · rfl
  | ackrecv =>
    simp only [gstep]
    cases hb : p.back with
    | nil => simp [step, hb]
    | cons a rest =>
      dsimp only
      rw [ack_eq a (.of p) rfl]
      by_cases h : p.lastAckedX < a <;> simp [step, hb, handAck, XSt.of, h]
  | deliver => rfl
  | accept => rfl
  | tick => rfl

theorem grun_eq : ∀ (evs : List Event) (p : PState), grun p evs = run p evs
  | [], _ => rfl
  | e :: es, p => by
    simp only [grun, run, gstep_eq]
    cases step p e with
    | none => rfl
    | some s' => exact grun_eq es s'

end Stef.Proofs.ExporterGen
