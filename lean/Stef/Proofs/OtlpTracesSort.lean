/-
  The sorting mode of the traces converter writes a permutation of the spans
  (with their resource and scope).
-/
import Stef.Proofs.OtlpSort
import Stef.Proofs.OtlpTraces

namespace Stef.Otlp

abbrev RKey := Str × KVs × Nat
abbrev SKey := Str × Str × Str × KVs × Nat

/-- what a record shows of its resource -/
def rKey (r : ResourceSpans) : RKey := (r.url, r.attrs, r.dropped)
/-- what a record shows of its scope -/
def sKey (s : ScopeSpans) : SKey := (s.name, s.ver, s.url, s.attrs, s.dropped)

def scopeItems (l : List ScopeSpans) : List (SKey × Span) := flatItems sKey (fun s => s.spans) l

/-- every span of a list of resources with the resource and scope it is written under -/
def triples (l : List ResourceSpans) : List (RKey × SKey × Span) :=
  (l.map fun r => (scopeItems r.scopes).map fun p => (rKey r, p)).flatten

/-- the sorting mode only merges resources that a record cannot tell apart -/
def ResMergeOK (t : Traces) : Prop :=
  ∀ a ∈ t.rss, ∀ b ∈ t.rss, cmpResourceSpans a b = some 0 → rKey a = rKey b

/-- ... and scopes that a record cannot tell apart -/
def allScopes (t : Traces) : List ScopeSpans := t.rss.flatMap fun r => r.scopes

def ScopeMergeOK (t : Traces) : Prop :=
  ∀ a ∈ allScopes t, ∀ b ∈ allScopes t, cmpScopeSpans a b = some 0 → sKey a = sKey b

theorem triples_via_flat (l : List ResourceSpans) :
    triples l = ((flatItems rKey (fun r => r.scopes) l).map fun p =>
      p.2.spans.map fun sp => (p.1, sKey p.2, sp)).flatten := by
  induction l with
  | nil => rfl
  | cons r t ih =>
    simp only [triples, flatItems, List.map_cons, List.flatten_cons, List.map_append, List.flatten_append] at ih ⊢
    rw [← ih]
    congr 1
    simp only [scopeItems, flatItems, List.map_map, List.map_flatten, Function.comp_def]

theorem cmpResourceSpans_key (x x' y : ResourceSpans) (h : rKey x = rKey x') :
    cmpResourceSpans x y = cmpResourceSpans x' y := by
  simp only [rKey, Prod.mk.injEq] at h
  simp [cmpResourceSpans, h.1, h.2.1]

theorem cmpScopeSpans_key (x x' y : ScopeSpans) (h : sKey x = sKey x') :
    cmpScopeSpans x y = cmpScopeSpans x' y := by
  simp only [sKey, Prod.mk.injEq] at h
  simp [cmpScopeSpans, h.1, h.2.1, h.2.2.1, h.2.2.2.1]

theorem scopeItems_sortSpans (l : List ScopeSpans) :
    (scopeItems (l.map fun s => { s with spans := sortSpans s.spans })).Perm (scopeItems l) := by
  induction l with
  | nil => exact List.Perm.refl _
  | cons s t ih =>
    simp only [scopeItems, flatItems, List.map_cons, List.flatten_cons] at ih ⊢
    apply List.Perm.append _ ih
    exact List.Perm.map _ (sortSpans_perm s.spans)

theorem sortResourceScopes_spec (r r' : ResourceSpans)
    (hok : ∀ a ∈ r.scopes, ∀ b ∈ r.scopes, cmpScopeSpans a b = some 0 → sKey a = sKey b)
    (h : sortResourceScopes r = some r') :
    rKey r' = rKey r ∧ (scopeItems r'.scopes).Perm (scopeItems r.scopes) := by
  simp only [sortResourceScopes] at h
  split at h
  · simp at h
  · rename_i ss1 h1
    split at h
    · simp at h
    · rename_i ss2 h2
      simp at h; subst h
      have p1 := sortStable_perm _ _ _ h1
      have e2 := mergeAdjacent_flat cmpScopeSpans mergeScopes sKey (fun s => s.spans)
        (by intro x y; rfl) (by intro x y; rfl) cmpScopeSpans_key ss1 ss2
        (by
          intro a ha b hb
          exact hok a (p1.mem_iff.mp ha) b (p1.mem_iff.mp hb))
        h2
      refine ⟨rfl, ?_⟩
      refine (scopeItems_sortSpans ss2).trans ?_
      show (flatItems sKey (fun s => s.spans) ss2).Perm _
      rw [e2]
      exact flatItems_perm _ _ p1

theorem mapOpt_sortResourceScopes_triples : ∀ (l l' : List ResourceSpans),
    (∀ r ∈ l, ∀ a ∈ r.scopes, ∀ b ∈ r.scopes, cmpScopeSpans a b = some 0 → sKey a = sKey b) →
    mapOpt sortResourceScopes l = some l' → (triples l').Perm (triples l)
  | [], l', _, h => by simp [mapOpt] at h; subst h; exact List.Perm.refl _
  | r :: t, l', hok, h => by
    simp only [mapOpt] at h
    split at h
    · simp at h
    · rename_i r' hr
      split at h
      · simp at h
      · rename_i t' ht
        simp at h; subst h
        have h1 := sortResourceScopes_spec r r' (hok r (by simp)) hr
        have h2 := mapOpt_sortResourceScopes_triples t t' (fun x hx => hok x (by simp [hx])) ht
        simp only [triples, List.map_cons, List.flatten_cons] at h2 ⊢
        apply List.Perm.append _ h2
        rw [h1.1]
        exact List.Perm.map _ h1.2

/-- the sorting mode writes the spans of a permutation of the input -/
theorem sortTraces_triples (t t' : Traces) (hr : ResMergeOK t) (hs : ScopeMergeOK t)
    (h : sortTraces t = some t') : (triples t'.rss).Perm (triples t.rss) := by
  simp only [sortTraces] at h
  split at h
  · simp at h
  · rename_i rs1 h1
    split at h
    · simp at h
    · rename_i rs2 h2
      split at h
      · simp at h
      · rename_i rs3 h3
        simp at h; subst h
        have p1 := sortStable_perm _ _ _ h1
        have e2 := mergeAdjacent_flat cmpResourceSpans mergeResources rKey (fun r => r.scopes)
          (by intro x y; rfl) (by intro x y; rfl) cmpResourceSpans_key rs1 rs2
          (by intro a ha b hb; exact hr a (p1.mem_iff.mp ha) b (p1.mem_iff.mp hb)) h2
        -- every scope of a merged resource is a scope of the input
        have hq := mergeAdjacent_all cmpResourceSpans mergeResources
          (fun r => ∀ s ∈ r.scopes, ∃ r0 ∈ t.rss, s ∈ r0.scopes)
          (by
            intro x y hx hy s hsm
            simp only [mergeResources, List.mem_append] at hsm
            cases hsm with
            | inl h => exact hx s h
            | inr h => exact hy s h)
          rs1 rs2 (by intro y hy s hsm; exact ⟨y, p1.mem_iff.mp hy, hsm⟩) h2
        have p3 := mapOpt_sortResourceScopes_triples rs2 rs3
          (by
            intro r hrm a ha b hb hc
            obtain ⟨ra, hra, haa⟩ := hq r hrm a ha
            obtain ⟨rb, hrb, hbb⟩ := hq r hrm b hb
            exact hs a (List.mem_flatMap.mpr ⟨ra, hra, haa⟩) b (List.mem_flatMap.mpr ⟨rb, hrb, hbb⟩) hc)
          h3
        refine p3.trans ?_
        rw [triples_via_flat rs2, e2, ← triples_via_flat rs1]
        unfold triples
        exact List.Perm.flatten (List.Perm.map _ p1)

end Stef.Otlp

namespace Stef.Otlp

/-! ### records of both modes -/

/-- the record the property asks for, from what a record shows of resource and scope -/
def expectedOfKeys (sortedAttrs : Bool) (p : RKey × SKey × Span) : SpanRecord :=
  expectedRecord { url := p.1.1, attrs := p.1.2.1, dropped := p.1.2.2 }
    { name := p.2.1.1, ver := p.2.1.2.1, url := p.2.1.2.2.1, attrs := p.2.1.2.2.2.1, dropped := p.2.1.2.2.2.2 } p.2.2 sortedAttrs

theorem expected_via_triples (b : Bool) (l : List ResourceSpans) :
    ((l.map fun r => (r.scopes.map fun s => s.spans.map fun sp => expectedRecord r s sp b).flatten).flatten)
      = (triples l).map (expectedOfKeys b) := by
  induction l with
  | nil => rfl
  | cons r t ih =>
    simp only [triples, List.map_cons, List.flatten_cons, List.map_append] at ih ⊢
    rw [ih]
    congr 1
    simp only [scopeItems, flatItems, List.map_map, List.map_flatten, Function.comp_def]
    congr 1

theorem flattenSpans_expected (b : Bool) (t : Traces) :
    (flattenSpans t).map (fun x => expectedRecord x.1 x.2.1 x.2.2 b)
      = ((t.rss.map fun r => (r.scopes.map fun s => s.spans.map fun sp => expectedRecord r s sp b).flatten).flatten) := by
  simp only [flattenSpans, List.map_flatten, List.map_map, Function.comp_def]

/-- the records written in either mode, for every batch -/
theorem tracesToStef_records (sorted : Bool) (t : Traces) :
    (writeResourceSpans sorted t.rss {}).out.reverse
      = (flattenSpans t).map (fun x => expectedRecord x.1 x.2.1 x.2.2 sorted) := by
  rw [writeResourceSpans_spec sorted t.rss {}, flattenSpans_expected]
  simp

end Stef.Otlp

namespace Stef.Otlp

/-! ### the sorting mode keeps the number of spans -/

theorem mergeFrom_count {α β : Type} (cmp : α → α → Option Int) (merge : α → α → α) (items : α → List β)
    (hitems : ∀ x y, items (merge x y) = items x ++ items y) :
    ∀ (rest : List α) (cur : α) (out : List α), mergeFrom cmp merge cur rest = some out →
      (out.map fun x => (items x).length).sum = ((cur :: rest).map fun x => (items x).length).sum
  | [], cur, out, h => by simp [mergeFrom] at h; subst h; rfl
  | y :: t, cur, out, h => by
    simp only [mergeFrom] at h
    split at h
    · simp at h
    · split at h
      · rw [mergeFrom_count cmp merge items hitems t (merge cur y) out h]
        simp [hitems]
        omega
      · split at h
        · simp at h
        · rename_i t' ht
          simp at h; subst h
          have ih := mergeFrom_count cmp merge items hitems t y t' ht
          simp only [List.map_cons, List.sum_cons] at ih ⊢
          omega

theorem mergeAdjacent_count {α β : Type} (cmp : α → α → Option Int) (merge : α → α → α) (items : α → List β)
    (hitems : ∀ x y, items (merge x y) = items x ++ items y) (l out : List α)
    (h : mergeAdjacent cmp merge l = some out) :
    (out.map fun x => (items x).length).sum = (l.map fun x => (items x).length).sum := by
  cases l with
  | nil => simp [mergeAdjacent] at h; subst h; rfl
  | cons x t => exact mergeFrom_count cmp merge items hitems t x out h

theorem sortResourceScopes_count (r r' : ResourceSpans) (h : sortResourceScopes r = some r') :
    spanCountScopes r'.scopes = spanCountScopes r.scopes := by
  simp only [sortResourceScopes] at h
  split at h
  · simp at h
  · rename_i ss1 h1
    split at h
    · simp at h
    · rename_i ss2 h2
      simp at h; subst h
      have p1 := sortStable_perm _ _ _ h1
      have e2 := mergeAdjacent_count cmpScopeSpans mergeScopes (fun s => s.spans) (by intro x y; rfl) ss1 ss2 h2
      simp only [spanCountScopes, List.map_map, Function.comp_def]
      have : (ss2.map fun s => (sortSpans s.spans).length) = ss2.map fun s => s.spans.length := by
        apply List.map_congr_left
        intro s _
        exact (sortSpans_perm s.spans).length_eq
      rw [this, e2]
      exact (List.Perm.map _ p1).sum_nat

theorem mapOpt_sortResourceScopes_count : ∀ (l l' : List ResourceSpans), mapOpt sortResourceScopes l = some l' →
    spanCountResources l' = spanCountResources l
  | [], l', h => by simp [mapOpt] at h; subst h; rfl
  | r :: t, l', h => by
    simp only [mapOpt] at h
    split at h
    · simp at h
    · rename_i r' hr
      split at h
      · simp at h
      · rename_i t' ht
        simp at h; subst h
        have h1 := sortResourceScopes_count r r' hr
        have h2 := mapOpt_sortResourceScopes_count t t' ht
        simp only [spanCountResources, List.map_cons, List.sum_cons] at h2 ⊢
        omega

theorem sortTraces_count (t t' : Traces) (h : sortTraces t = some t') :
    spanCountResources t'.rss = spanCountResources t.rss := by
  simp only [sortTraces] at h
  split at h
  · simp at h
  · rename_i rs1 h1
    split at h
    · simp at h
    · rename_i rs2 h2
      split at h
      · simp at h
      · rename_i rs3 h3
        simp at h; subst h
        have p1 := sortStable_perm _ _ _ h1
        have e3 := mapOpt_sortResourceScopes_count rs2 rs3 h3
        rw [e3]
        have hm : ∀ (l : List ResourceSpans),
            spanCountResources l = (l.map fun r => ((r.scopes.map fun s => s.spans).flatten).length).sum := by
          intro l
          simp only [spanCountResources, spanCountScopes, List.length_flatten, List.map_map, Function.comp_def]
        have e2 := mergeAdjacent_count cmpResourceSpans mergeResources (fun r => (r.scopes.map fun s => s.spans).flatten)
          (by intro x y; simp [mergeResources]) rs1 rs2 h2
        rw [hm rs2, e2, hm t.rss]
        exact (List.Perm.map _ p1).sum_nat

end Stef.Otlp
