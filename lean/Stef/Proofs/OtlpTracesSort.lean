/-
  The sorting mode of the traces converter writes a permutation of the spans
  (with their resource and scope).
-/
import Stef.Proofs.OtlpSort
import Stef.Proofs.OtlpCmp
import Stef.Proofs.OtlpTraces

namespace Stef.Otlp

abbrev RKey := Str × KVs × Nat
abbrev SKey := Str × Str × Str × KVs × Nat

/-- what a record shows of its resource -/
def rKey (r : ResourceSpans) : RKey := (r.url, r.attrs, r.dropped)
/-- what a record shows of its scope -/
def sKey (s : ScopeSpans) : SKey := (s.name, s.ver, s.url, s.attrs, s.dropped)

def scopeItems (l : List ScopeSpans) : List (SKey × Span) := flatItems sKey (fun s => s.spans) l

/-- every span of a list of resources with the resource and scope it is written under -/
def triples (l : List ResourceSpans) : List (RKey × SKey × Span) :=
  (l.map fun r => (scopeItems r.scopes).map fun p => (rKey r, p)).flatten

/-- the numbers in resource and scope attributes (the things the sorting mode compares) are 64-bit
    patterns -/
def ResourceSpans.keysB64 (r : ResourceSpans) : Bool := r.attrs.b64 && r.scopes.all (fun s => s.attrs.b64)
def Traces.keysB64 (t : Traces) : Bool := t.rss.all ResourceSpans.keysB64

/-- CmpResourceSpans returns 0 only for resources a record cannot tell apart (since repo commit
    679d5d5, which made it compare the dropped-attributes count) -/
theorem cmpResourceSpans_faithful (x y : ResourceSpans) (hx : x.attrs.b64 = true) (hy : y.attrs.b64 = true)
    (h : cmpResourceSpans x y = 0) : rKey x = rKey y := by
  unfold cmpResourceSpans at h
  have h1 := firstNonZero_eq_zero h
  have h2 := firstNonZero_eq_zero h1.2
  simp [rKey, strCompare_eq _ _ h1.1, cmpAttrs_eq _ _ hx hy h2.1, natCompare_eq h2.2]

theorem cmpScopeSpans_faithful (x y : ScopeSpans) (hx : x.attrs.b64 = true) (hy : y.attrs.b64 = true)
    (h : cmpScopeSpans x y = 0) : sKey x = sKey y := by
  unfold cmpScopeSpans at h
  have h1 := firstNonZero_eq_zero h
  have h2 := firstNonZero_eq_zero h1.2
  have h3 := firstNonZero_eq_zero h2.2
  have h4 := firstNonZero_eq_zero h3.2
  simp [sKey, strCompare_eq _ _ h1.1, strCompare_eq _ _ h2.1, strCompare_eq _ _ h3.1, cmpAttrs_eq _ _ hx hy h4.1,
    natCompare_eq h4.2]

theorem triples_via_flat (l : List ResourceSpans) :
    triples l = ((flatItems rKey (fun r => r.scopes) l).map fun p =>
      p.2.spans.map fun sp => (p.1, sKey p.2, sp)).flatten := by
  induction l with
  | nil => rfl
  | cons r t ih =>
    simp only [triples, flatItems, List.map_cons, List.flatten_cons, List.map_append, List.flatten_append] at ih ⊢
    rw [← ih]
    congr 1
    simp only [scopeItems, flatItems, List.map_map, List.map_flatten, Function.comp_def]

theorem scopeItems_sortSpans (l : List ScopeSpans) : (scopeItems (l.map sortScopeSpans)).Perm (scopeItems l) := by
  induction l with
  | nil => exact List.Perm.refl _
  | cons s t ih =>
    simp only [scopeItems, flatItems, List.map_cons, List.flatten_cons] at ih ⊢
    apply List.Perm.append _ ih
    exact List.Perm.map _ (sortSpans_perm s.spans)

theorem sortResourceScopes_spec (r : ResourceSpans) (hb : ∀ s ∈ r.scopes, s.attrs.b64 = true) :
    rKey (sortResourceScopes r) = rKey r ∧ (scopeItems (sortResourceScopes r).scopes).Perm (scopeItems r.scopes) := by
  have p1 := sortStable_perm cmpScopeSpans r.scopes
  have e2 := mergeAdjacent_flat cmpScopeSpans mergeScopes sKey (fun s => s.spans) (fun s => s.attrs.b64 = true)
    (by intro x y; rfl) (by intro x y; rfl) (by intro x y hx; exact hx)
    (by intro x y hx hy h; exact cmpScopeSpans_faithful x y hx hy h)
    (sortStable cmpScopeSpans r.scopes) (by intro y hy; exact hb y (p1.mem_iff.mp hy))
  refine ⟨rfl, ?_⟩
  refine (scopeItems_sortSpans _).trans ?_
  show (flatItems sKey (fun s => s.spans) _).Perm _
  rw [e2]
  exact flatItems_perm _ _ p1

theorem map_sortResourceScopes_triples : ∀ (l : List ResourceSpans),
    (∀ r ∈ l, ∀ s ∈ r.scopes, s.attrs.b64 = true) → (triples (l.map sortResourceScopes)).Perm (triples l)
  | [], _ => List.Perm.refl _
  | r :: t, hb => by
    have h1 := sortResourceScopes_spec r (hb r (by simp))
    have h2 := map_sortResourceScopes_triples t (fun x hx => hb x (by simp [hx]))
    simp only [triples, List.map_cons, List.flatten_cons] at h2 ⊢
    apply List.Perm.append _ h2
    rw [h1.1]
    exact List.Perm.map _ h1.2

/-- the sorting mode writes the spans of a permutation of the input -/
theorem sortTraces_triples (t : Traces) (hb : t.keysB64 = true) : (triples (sortTraces t).rss).Perm (triples t.rss) := by
  have hall : ∀ r ∈ t.rss, r.attrs.b64 = true ∧ ∀ s ∈ r.scopes, s.attrs.b64 = true := by
    intro r hr
    have := (List.all_eq_true.mp hb) r hr
    simp only [ResourceSpans.keysB64, Bool.and_eq_true, List.all_eq_true] at this
    exact this
  have p1 := sortStable_perm cmpResourceSpans t.rss
  have e2 := mergeAdjacent_flat cmpResourceSpans mergeResources rKey (fun r => r.scopes) (fun r => r.attrs.b64 = true)
    (by intro x y; rfl) (by intro x y; rfl) (by intro x y hx; exact hx)
    (by intro x y hx hy h; exact cmpResourceSpans_faithful x y hx hy h)
    (sortStable cmpResourceSpans t.rss) (by intro y hy; exact (hall y (p1.mem_iff.mp hy)).1)
  have hq := mergeAdjacent_all cmpResourceSpans mergeResources (fun r => ∀ s ∈ r.scopes, s.attrs.b64 = true)
    (by
      intro x y hx hy s hsm
      simp only [mergeResources, List.mem_append] at hsm
      cases hsm with
      | inl h => exact hx s h
      | inr h => exact hy s h)
    (sortStable cmpResourceSpans t.rss) (by intro y hy; exact (hall y (p1.mem_iff.mp hy)).2)
  have p3 := map_sortResourceScopes_triples _ hq
  simp only [sortTraces]
  refine p3.trans ?_
  rw [triples_via_flat, e2, ← triples_via_flat]
  unfold triples
  exact List.Perm.flatten (List.Perm.map _ p1)

end Stef.Otlp

namespace Stef.Otlp

/-! ### records of both modes -/

/-- the record the property asks for, from what a record shows of resource and scope -/
def expectedOfKeys (sortedAttrs : Bool) (p : RKey × SKey × Span) : SpanRecord :=
  expectedRecord { url := p.1.1, attrs := p.1.2.1, dropped := p.1.2.2 }
    { name := p.2.1.1, ver := p.2.1.2.1, url := p.2.1.2.2.1, attrs := p.2.1.2.2.2.1, dropped := p.2.1.2.2.2.2 } p.2.2 sortedAttrs

theorem expected_via_triples (b : Bool) (l : List ResourceSpans) :
    ((l.map fun r => (r.scopes.map fun s => s.spans.map fun sp => expectedRecord r s sp b).flatten).flatten)
      = (triples l).map (expectedOfKeys b) := by
  induction l with
  | nil => rfl
  | cons r t ih =>
    simp only [triples, List.map_cons, List.flatten_cons, List.map_append] at ih ⊢
    rw [ih]
    congr 1
    simp only [scopeItems, flatItems, List.map_map, List.map_flatten, Function.comp_def]
    congr 1

theorem flattenSpans_expected (b : Bool) (t : Traces) :
    (flattenSpans t).map (fun x => expectedRecord x.1 x.2.1 x.2.2 b)
      = ((t.rss.map fun r => (r.scopes.map fun s => s.spans.map fun sp => expectedRecord r s sp b).flatten).flatten) := by
  simp only [flattenSpans, List.map_flatten, List.map_map, Function.comp_def]

/-- the records written in either mode, for every batch -/
theorem tracesToStef_records (sorted : Bool) (t : Traces) :
    (writeResourceSpans sorted t.rss {}).out.reverse
      = (flattenSpans t).map (fun x => expectedRecord x.1 x.2.1 x.2.2 sorted) := by
  rw [writeResourceSpans_spec sorted t.rss {}, flattenSpans_expected]
  simp

end Stef.Otlp

namespace Stef.Otlp

/-! ### the sorting mode keeps the number of spans -/

theorem sortResourceScopes_count (r : ResourceSpans) :
    spanCountScopes (sortResourceScopes r).scopes = spanCountScopes r.scopes := by
  have p1 := sortStable_perm cmpScopeSpans r.scopes
  have e2 := mergeAdjacent_count cmpScopeSpans mergeScopes (fun s => s.spans) (by intro x y; rfl)
    (sortStable cmpScopeSpans r.scopes)
  simp only [sortResourceScopes, spanCountScopes, List.map_map, Function.comp_def, sortScopeSpans]
  have : ∀ (l : List ScopeSpans), (l.map fun s => (sortSpans s.spans).length) = l.map fun s => s.spans.length := by
    intro l
    apply List.map_congr_left
    intro s _
    exact (sortSpans_perm s.spans).length_eq
  rw [this, e2]
  exact (List.Perm.map _ p1).sum_nat

theorem sortTraces_count (t : Traces) : spanCountResources (sortTraces t).rss = spanCountResources t.rss := by
  have p1 := sortStable_perm cmpResourceSpans t.rss
  have hm : ∀ (l : List ResourceSpans),
      spanCountResources l = (l.map fun r => ((r.scopes.map fun s => s.spans).flatten).length).sum := by
    intro l
    simp only [spanCountResources, spanCountScopes, List.length_flatten, List.map_map, Function.comp_def]
  have e2 := mergeAdjacent_count cmpResourceSpans mergeResources (fun r => (r.scopes.map fun s => s.spans).flatten)
    (by intro x y; simp [mergeResources]) (sortStable cmpResourceSpans t.rss)
  have e3 : ∀ (l : List ResourceSpans), spanCountResources (l.map sortResourceScopes) = spanCountResources l := by
    intro l
    simp only [spanCountResources, List.map_map, Function.comp_def, sortResourceScopes_count]
  simp only [sortTraces]
  rw [e3, hm, e2, hm t.rss]
  exact (List.Perm.map _ p1).sum_nat

end Stef.Otlp
