/-
  Helper lemmas for the metrics converter models (Stef/Otlp/Metrics.lean).
-/
import Stef.Proofs.OtlpValue

namespace Stef.Otlp

/-! ### number of records written by the unsorted converter -/

theorem write_len (st : WState) : st.write.out.length = st.out.length + 1 := by simp [WState.write]

theorem writeNumeric_len : ∀ (ps : List Point) (st st' : WState), writeNumeric ps st = .ok st' →
    st'.out.length = st.out.length + ps.length
  | [], st, st', h => by simp [writeNumeric] at h; subst h; simp
  | p :: ps, st, st', h => by
    simp only [writeNumeric] at h
    split at h
    · simp at h
    · split at h
      · simp at h
      · have := writeNumeric_len ps _ st' h
        simp only [write_len, List.length_cons] at this ⊢
        omega

theorem writeHistogram_len : ∀ (ps : List Point) (st st' : WState), writeHistogram ps st = .ok st' →
    st'.out.length = st.out.length + ps.length
  | [], st, st', h => by simp [writeHistogram] at h; subst h; simp
  | p :: ps, st, st', h => by
    simp only [writeHistogram] at h
    split at h
    · simp at h
    · split at h
      · simp at h
      · have := writeHistogram_len ps _ st' h
        simp only [write_len, List.length_cons] at this ⊢
        omega

theorem writeExpHistogram_len : ∀ (ps : List Point) (st st' : WState), writeExpHistogram ps st = .ok st' →
    st'.out.length = st.out.length + ps.length
  | [], st, st', h => by simp [writeExpHistogram] at h; subst h; simp
  | p :: ps, st, st', h => by
    simp only [writeExpHistogram] at h
    split at h
    · simp at h
    · split at h
      · simp at h
      · have := writeExpHistogram_len ps _ st' h
        simp only [write_len, List.length_cons] at this ⊢
        omega

theorem writeSummary_len : ∀ (ps : List Point) (st st' : WState), writeSummary ps st = .ok st' →
    st'.out.length = st.out.length + ps.length
  | [], st, st', h => by simp [writeSummary] at h; subst h; simp
  | p :: ps, st, st', h => by
    simp only [writeSummary] at h
    have := writeSummary_len ps _ st' h
    simp only [write_len, List.length_cons] at this ⊢
    omega

theorem writeMetric_len (m : Metric) (st st' : WState) (h : writeMetric m st = .ok st') :
    st'.out.length = st.out.length + m.points.length := by
  simp only [writeMetric] at h
  split at h
  · simp at h
  · split at h
    · have := writeNumeric_len _ _ _ h; simpa using this
    · have := writeNumeric_len _ _ _ h; simpa using this
    · have := writeHistogram_len _ _ _ h; simpa using this
    · have := writeExpHistogram_len _ _ _ h; simpa using this
    · have := writeSummary_len _ _ _ h; simpa using this

def pointCountMetrics (l : List Metric) : Nat := (l.map fun m => m.points.length).sum
def pointCountScopes (l : List ScopeMetrics) : Nat := (l.map fun s => pointCountMetrics s.metrics).sum
def pointCountResources (l : List ResourceMetrics) : Nat := (l.map fun r => pointCountScopes r.scopes).sum

theorem writeMetrics_len : ∀ (ms : List Metric) (st st' : WState), writeMetrics ms st = .ok st' →
    st'.out.length = st.out.length + pointCountMetrics ms
  | [], st, st', h => by simp [writeMetrics] at h; subst h; simp [pointCountMetrics]
  | m :: ms, st, st', h => by
    simp only [writeMetrics] at h
    split at h
    · simp at h
    · rename_i st1 h1
      have a := writeMetric_len m st st1 h1
      have b := writeMetrics_len ms st1 st' h
      simp only [pointCountMetrics, List.map_cons, List.sum_cons] at b ⊢
      omega

theorem writeScopes_len : ∀ (ss : List ScopeMetrics) (st st' : WState), writeScopes ss st = .ok st' →
    st'.out.length = st.out.length + pointCountScopes ss
  | [], st, st', h => by simp [writeScopes] at h; subst h; simp [pointCountScopes]
  | s :: ss, st, st', h => by
    simp only [writeScopes] at h
    split at h
    · simp at h
    · rename_i st1 h1
      have a := writeMetrics_len s.metrics _ st1 h1
      have b := writeScopes_len ss st1 st' h
      simp only [pointCountScopes, List.map_cons, List.sum_cons] at b ⊢
      simp only at a
      omega

theorem writeResources_len : ∀ (rs : List ResourceMetrics) (st st' : WState), writeResources rs st = .ok st' →
    st'.out.length = st.out.length + pointCountResources rs
  | [], st, st', h => by simp [writeResources] at h; subst h; simp [pointCountResources]
  | r :: rs, st, st', h => by
    simp only [writeResources] at h
    split at h
    · simp at h
    · rename_i st1 h1
      have a := writeScopes_len r.scopes _ st1 h1
      have b := writeResources_len rs st1 st' h
      simp only [pointCountResources, List.map_cons, List.sum_cons] at b ⊢
      simp only at a
      omega

theorem flatten_length (m : Metrics) : (flatten m).length = pointCountResources m.rms := by
  simp only [flatten, flattenResource, flattenScope, flattenMetric, pointCountResources, pointCountScopes,
    pointCountMetrics, List.length_flatten, List.map_map, Function.comp_def, List.length_map]

end Stef.Otlp

namespace Stef.Otlp

/-! ### the unsorted reader: whatever the grouping, the data points are those of the records -/

/-- the data point a reader makes of one record (otlptools.MetricToOtlp + AppendOTLPPoint) -/
def pointOfRecord (r : SRecord) : Except String DataPoint :=
  match metricToOtlp r.metric with
  | .error e => .error e
  | .ok m =>
    match pointToOtlp m.type r.metric r.attrs r.point with
    | .error e => .error e
    | .ok p => .ok (dataPoint r.resource.id r.scope.id m p)

/-- data points of the tree under construction (kept newest-first at every level) -/
def flattenAcc (acc : List ResourceMetrics) : List DataPoint := flatten { rms := (acc.map revResource).reverse }

theorem flattenAcc_nil : flattenAcc [] = [] := rfl

theorem flattenAcc_cons (r : ResourceMetrics) (rs : List ResourceMetrics) :
    flattenAcc (r :: rs) = flattenAcc rs ++ flattenResource (revResource r) := by
  simp [flattenAcc, flatten]

theorem flattenResource_rev_cons (r : ResourceMetrics) (s : ScopeMetrics) (ss : List ScopeMetrics) (h : r.scopes = s :: ss) :
    flattenResource (revResource r) =
      flattenResource (revResource { r with scopes := ss }) ++ flattenScope (resId r) (revScope s) := by
  simp [flattenResource, revResource, h, resId]

theorem flattenScope_rev_cons (rid : ResId) (s : ScopeMetrics) (m : Metric) (ms : List Metric) (h : s.metrics = m :: ms) :
    flattenScope rid (revScope s) =
      flattenScope rid (revScope { s with metrics := ms }) ++ flattenMetric rid (scopeId s) (revMetric m) := by
  simp [flattenScope, revScope, h, scopeId]

theorem flattenMetric_rev_cons (rid : ResId) (sid : ScopeId) (m : Metric) (p : Point) :
    flattenMetric rid sid (revMetric { m with points := p :: m.points }) =
      flattenMetric rid sid (revMetric m) ++ [dataPoint rid sid m p] := by
  simp [flattenMetric, revMetric, dataPoint, metricId]

theorem flattenMetric_rev_nil (rid : ResId) (sid : ScopeId) (m : Metric) (h : m.points = []) :
    flattenMetric rid sid (revMetric m) = [] := by
  simp [flattenMetric, revMetric, h]

theorem flattenAcc_addPoint (p : Point) (r : ResourceMetrics) (rs : List ResourceMetrics) (s : ScopeMetrics)
    (ss : List ScopeMetrics) (m : Metric) (ms : List Metric) (hs : r.scopes = s :: ss) (hm : s.metrics = m :: ms) :
    flattenAcc (addPoint p (r :: rs)) = flattenAcc (r :: rs) ++ [dataPoint (resId r) (scopeId s) m p] := by
  simp only [addPoint, hs, hm]
  rw [flattenAcc_cons, flattenAcc_cons]
  rw [flattenResource_rev_cons _ { s with metrics := { m with points := p :: m.points } :: ms } ss rfl]
  rw [flattenResource_rev_cons r s ss hs]
  rw [flattenScope_rev_cons _ _ { m with points := p :: m.points } ms rfl]
  rw [flattenScope_rev_cons _ s m ms hm]
  rw [flattenMetric_rev_cons]
  simp [resId, scopeId, List.append_assoc]

theorem flattenAcc_addMetric (m' : Metric) (hm' : m'.points = []) (r : ResourceMetrics) (rs : List ResourceMetrics)
    (s : ScopeMetrics) (ss : List ScopeMetrics) (hs : r.scopes = s :: ss) :
    flattenAcc (addMetric m' (r :: rs)) = flattenAcc (r :: rs) := by
  simp only [addMetric, hs]
  rw [flattenAcc_cons, flattenAcc_cons]
  rw [flattenResource_rev_cons _ { s with metrics := m' :: s.metrics } ss rfl, flattenResource_rev_cons r s ss hs]
  rw [flattenScope_rev_cons _ _ m' s.metrics rfl, flattenMetric_rev_nil _ _ m' hm']
  simp [resId, scopeId]

theorem flattenAcc_addScope (s' : ScopeMetrics) (hs' : s'.metrics = []) (r : ResourceMetrics) (rs : List ResourceMetrics) :
    flattenAcc (addScope s' (r :: rs)) = flattenAcc (r :: rs) := by
  simp only [addScope]
  rw [flattenAcc_cons, flattenAcc_cons, flattenResource_rev_cons _ s' r.scopes rfl]
  simp [flattenScope, revScope, hs', resId]

theorem flattenAcc_newResource (r' : ResourceMetrics) (hr' : r'.scopes = []) (acc : List ResourceMetrics) :
    flattenAcc (r' :: acc) = flattenAcc acc := by
  rw [flattenAcc_cons]
  simp [flattenResource, revResource, hr']

/-- header of a metric (everything but its points) -/
def hdr (m : Metric) : Metric := { m with points := [] }

theorem metricToOtlp_points {m : SMetric} {m0 : Metric} (h : metricToOtlp m = .ok m0) : m0.points = [] := by
  simp only [metricToOtlp] at h
  split at h
  · simp at h
  · split at h
    · simp at h
    · simp at h; subst h; rfl

/-- the tree under construction ends in a resource / scope / metric that show record `r` -/
def Tracks (r : SRecord) (acc : List ResourceMetrics) : Prop :=
  ∃ rm rs sm ss mm ms, acc = rm :: rs ∧ rm.scopes = sm :: ss ∧ sm.metrics = mm :: ms ∧
    resId rm = r.resource.id ∧ scopeId sm = r.scope.id ∧ metricToOtlp r.metric = .ok (hdr mm)

theorem id_of_vis_res {a b : SResource} (h : a.vis = b.vis) : a.id = b.id := by
  simp only [SResource.vis, Prod.mk.injEq] at h
  simp [SResource.id, SAttrs.toOtlp, h.1, h.2.1, h.2.2]

theorem id_of_vis_scope {a b : SScope} (h : a.vis = b.vis) : a.id = b.id := by
  simp only [SScope.vis, Prod.mk.injEq] at h
  simp [SScope.id, SAttrs.toOtlp, h.1, h.2.1, h.2.2.1, h.2.2.2.1, h.2.2.2.2]

theorem metricToOtlp_of_vis {a b : SMetric} (h : a.vis = b.vis) : metricToOtlp a = metricToOtlp b := by
  simp only [SMetric.vis, Prod.mk.injEq] at h
  simp [metricToOtlp, SAttrs.toOtlp, h.1, h.2.1, h.2.2.1, h.2.2.2.1, h.2.2.2.2.1, h.2.2.2.2.2.2.1, h.2.2.2.2.2.2.2]

theorem hdr_of_points_nil {m : Metric} (h : m.points = []) : hdr m = m := by
  cases m
  simp_all [hdr]

theorem resId_scopes (rm : ResourceMetrics) (x : List ScopeMetrics) : resId { rm with scopes := x } = resId rm := rfl
theorem scopeId_metrics (sm : ScopeMetrics) (x : List Metric) : scopeId { sm with metrics := x } = scopeId sm := rfl
theorem scopeId_scopeToOtlp (s : SScope) (x : List Metric) : scopeId { scopeToOtlp s with metrics := x } = s.id := rfl
theorem resId_resourceToOtlp (r : SResource) (x : List ScopeMetrics) :
    resId { resourceToOtlp r with scopes := x } = r.id := rfl

theorem dataPoint_hdr (rid : ResId) (sid : ScopeId) (m : Metric) (p : Point) :
    dataPoint rid sid (hdr m) p = dataPoint rid sid m p := by
  simp [dataPoint, hdr, metricId]

theorem readStep_spec (prev : Option SRecord) (r : SRecord) (acc : List ResourceMetrics) (d : DataPoint)
    (hp : match prev with | none => acc = [] | some p => Tracks p acc)
    (hd : pointOfRecord r = .ok d) :
    ∃ acc', readStep prev.isNone (modsOf prev r) r acc = .ok acc' ∧ Tracks r acc' ∧
      flattenAcc acc' = flattenAcc acc ++ [d] := by
  -- what the record converts to
  simp only [pointOfRecord] at hd
  split at hd
  · simp at hd
  · rename_i m0 hm0
    split at hd
    · simp at hd
    · rename_i p0 hp0
      simp at hd; subst hd
      have hm0p := metricToOtlp_points hm0
      have hh : hdr m0 = m0 := hdr_of_points_nil hm0p
      have hm0h : metricToOtlp r.metric = .ok (hdr m0) := by rw [hh]; exact hm0
      cases prev with
      | none =>
        simp only at hp; subst hp
        refine ⟨addPoint p0 (addMetric m0 (addScope (scopeToOtlp r.scope) [resourceToOtlp r.resource])), ?_, ?_, ?_⟩
        · simp [readStep, modsOf, hm0, addScope, addMetric, curMetricType, resourceToOtlp, scopeToOtlp, hp0, Except.map]
        · exact ⟨_, _, _, _, _, _, rfl, rfl, rfl, rfl, rfl, hm0h⟩
        · simp only [addScope, addMetric, resourceToOtlp, scopeToOtlp]
          rw [flattenAcc_addPoint p0 _ [] _ [] m0 [] rfl rfl]
          rw [flattenAcc_cons, flattenAcc_nil]
          simp [flattenResource, flattenScope, revResource, revScope, flattenMetric_rev_nil _ _ m0 hm0p, resId, scopeId,
            SResource.id, SScope.id]
      | some p =>
        obtain ⟨rm, rs, sm, ss, mm, ms, hacc, hsc, hme, hrid, hsid, hmid⟩ := hp
        subst hacc
        by_cases hres : (p.resource.vis != r.resource.vis) = true
        · -- new resource, scope and metric
          refine ⟨addPoint p0 (addMetric m0 (addScope (scopeToOtlp r.scope) (resourceToOtlp r.resource :: rm :: rs))), ?_, ?_, ?_⟩
          · simp [readStep, modsOf, hres, hm0, addScope, addMetric, curMetricType, resourceToOtlp, scopeToOtlp, hp0,
              Except.map]
          · exact ⟨_, _, _, _, _, _, rfl, rfl, rfl, rfl, rfl, hm0h⟩
          · simp only [addScope, addMetric, resourceToOtlp, scopeToOtlp]
            rw [flattenAcc_addPoint p0 _ (rm :: rs) _ [] m0 [] rfl rfl]
            rw [flattenAcc_cons _ (rm :: rs)]
            simp [flattenResource, flattenScope, revResource, revScope, flattenMetric_rev_nil _ _ m0 hm0p, resId, scopeId,
              SResource.id, SScope.id]
        · have hres' : p.resource.vis = r.resource.vis := by simpa using hres
          have hrid' : resId rm = r.resource.id := by rw [hrid]; exact id_of_vis_res hres'
          by_cases hscope : (p.scope.vis != r.scope.vis) = true
          · -- same resource, new scope and metric
            refine ⟨addPoint p0 (addMetric m0 (addScope (scopeToOtlp r.scope) (rm :: rs))), ?_, ?_, ?_⟩
            · simp [readStep, modsOf, hres', hscope, hm0, addScope, addMetric, curMetricType, scopeToOtlp, hp0, Except.map]
            · exact ⟨_, _, _, _, _, _, rfl, rfl, rfl, by simpa [resId] using hrid', rfl, hm0h⟩
            · simp only [addScope, addMetric, scopeToOtlp]
              rw [flattenAcc_addPoint p0 _ rs _ rm.scopes m0 [] rfl rfl]
              have e1 := flattenAcc_addMetric m0 hm0p { rm with scopes := scopeToOtlp r.scope :: rm.scopes } rs
                (scopeToOtlp r.scope) rm.scopes rfl
              simp only [addMetric, scopeToOtlp] at e1
              rw [e1]
              have e2 := flattenAcc_addScope (scopeToOtlp r.scope) rfl rm rs
              simp only [addScope, scopeToOtlp] at e2
              rw [e2]
              simp only [resId_scopes, scopeId, SScope.id, hrid']
          · have hscope' : p.scope.vis = r.scope.vis := by simpa using hscope
            have hsid' : scopeId sm = r.scope.id := by rw [hsid]; exact id_of_vis_scope hscope'
            by_cases hmet : (p.metric.vis != r.metric.vis) = true
            · -- same resource and scope, new metric
              refine ⟨addPoint p0 (addMetric m0 (rm :: rs)), ?_, ?_, ?_⟩
              · simp [readStep, modsOf, hres', hscope', hmet, hm0, addMetric, curMetricType, hsc, hp0, Except.map]
              · refine ⟨{ rm with scopes := { sm with metrics := { m0 with points := p0 :: m0.points } :: sm.metrics } :: ss },
                  rs, { sm with metrics := { m0 with points := p0 :: m0.points } :: sm.metrics }, ss,
                  { m0 with points := p0 :: m0.points }, sm.metrics, ?_, rfl, rfl, ?_, ?_, ?_⟩
                · simp only [addPoint, addMetric, hsc]
                · simpa [resId] using hrid'
                · simpa [scopeId] using hsid'
                · exact hm0h
              · simp only [addMetric, hsc]
                rw [flattenAcc_addPoint p0 _ rs _ ss m0 sm.metrics rfl rfl]
                have e1 := flattenAcc_addMetric m0 hm0p rm rs sm ss hsc
                simp only [addMetric, hsc] at e1
                rw [e1]
                have h1 : resId { rm with scopes := { sm with metrics := m0 :: sm.metrics } :: ss } = r.resource.id := by
                  simpa [resId] using hrid'
                have h2 : scopeId { sm with metrics := m0 :: sm.metrics } = r.scope.id := by simpa [scopeId] using hsid'
                rw [h1, h2]
            · -- nothing changed: the point goes to the current metric
              have hmet' : p.metric.vis = r.metric.vis := by simpa using hmet
              have hmm : metricToOtlp r.metric = .ok (hdr mm) := by rw [← metricToOtlp_of_vis hmet']; exact hmid
              have hm0' : m0 = hdr mm := by rw [hm0] at hmm; simpa using hmm
              refine ⟨addPoint p0 (rm :: rs), ?_, ?_, ?_⟩
              · have ht : mm.type = m0.type := by rw [hm0']; rfl
                simp [readStep, modsOf, hres', hscope', hmet', curMetricType, hsc, hme, ht, hp0]
              · refine ⟨{ rm with scopes := { sm with metrics := { mm with points := p0 :: mm.points } :: ms } :: ss },
                  rs, { sm with metrics := { mm with points := p0 :: mm.points } :: ms }, ss,
                  { mm with points := p0 :: mm.points }, ms, ?_, rfl, rfl, ?_, ?_, ?_⟩
                · simp only [addPoint, hsc, hme]
                · simpa [resId] using hrid'
                · simpa [scopeId] using hsid'
                · exact hmm
              · rw [flattenAcc_addPoint p0 rm rs sm ss mm ms hsc hme, hrid', hsid', hm0', dataPoint_hdr]

theorem readLoop_spec : ∀ (recs : List SRecord) (prev : Option SRecord) (acc : List ResourceMetrics) (ds : List DataPoint),
    (match prev with | none => acc = [] | some p => Tracks p acc) →
    recs.map pointOfRecord = ds.map Except.ok →
    ∃ acc', readLoop prev recs acc = .ok acc' ∧ flattenAcc acc' = flattenAcc acc ++ ds
  | [], prev, acc, ds, _, hd => by
    cases ds with
    | nil => exact ⟨acc, rfl, by simp⟩
    | cons _ _ => simp at hd
  | r :: recs, prev, acc, ds, hp, hd => by
    cases ds with
    | nil => simp at hd
    | cons d ds =>
      simp only [List.map_cons, List.cons.injEq] at hd
      obtain ⟨acc1, h1, ht, hf⟩ := readStep_spec prev r acc d hp hd.1
      obtain ⟨acc2, h2, hf2⟩ := readLoop_spec recs (some r) acc1 ds ht hd.2
      refine ⟨acc2, ?_, ?_⟩
      · simp [readLoop, h1, h2]
      · rw [hf2, hf, List.append_assoc]; rfl

/-- the unsorted reader turns records into exactly their data points, in order -/
theorem stefToOtlpUnsorted_flatten (recs : List SRecord) (ds : List DataPoint)
    (hd : recs.map pointOfRecord = ds.map Except.ok) :
    ∃ m, stefToOtlpUnsorted recs = .ok m ∧ flatten m = ds := by
  obtain ⟨acc, h, hf⟩ := readLoop_spec recs none [] ds rfl hd
  refine ⟨{ rms := (acc.map revResource).reverse }, ?_, ?_⟩
  · simp [stefToOtlpUnsorted, h]
  · have : flatten { rms := (acc.map revResource).reverse } = flattenAcc acc := rfl
    rw [this, hf, flattenAcc_nil, List.nil_append]

end Stef.Otlp
