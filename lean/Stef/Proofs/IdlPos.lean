/-
  Positions: every token produced by the lexer starts at a position within the input, and every
  error the parser reports carries the position of one of those tokens.
-/
import Stef.Proofs.SchemaDefs

namespace Stef.Idl

/-! ### lexer -/

/-- lexer state invariant for an input of `n` characters. -/
def LexSt.Inv (n : Nat) (s : LexSt) : Prop :=
  s.cur.ofs + s.rest.length = n ∧ 1 ≤ s.cur.line ∧ 1 ≤ s.cur.col ∧
    s.cur.line + s.cur.col ≤ s.cur.ofs + 2

theorem LexSt.Inv.within {n : Nat} {s : LexSt} (h : s.Inv n) : s.cur.Within n := by
  obtain ⟨h1, h2, h3, h4⟩ := h
  exact ⟨by omega, h2, h3, h4⟩

theorem LexSt.adv_inv {n : Nat} {s : LexSt} (h : s.Inv n) : s.adv.Inv n := by
  obtain ⟨h1, h2, h3, h4⟩ := h
  unfold LexSt.adv
  cases hr : s.rest with
  | nil => simp [LexSt.Inv, hr] at *; omega
  | cons c r =>
    simp only [hr, List.length_cons] at h1
    simp only
    split
    · simp [LexSt.Inv]; omega
    · split
      · split
        · simp [LexSt.Inv]; omega
        · simp [LexSt.Inv]; omega
      · simp [LexSt.Inv]; omega

theorem skipLine_inv {n : Nat} : ∀ (f : Nat) (s : LexSt), s.Inv n → (skipLine f s).Inv n
  | 0, s, h => by simpa [skipLine] using h
  | f + 1, s, h => by
    unfold skipLine
    split
    · exact skipLine_inv f _ (LexSt.adv_inv h)
    · exact h

theorem skipComment_inv {n : Nat} {s : LexSt} (h : s.Inv n) : (skipComment s).Inv n := by
  unfold skipComment
  simp only
  split
  · exact LexSt.adv_inv h
  · exact skipLine_inv _ _ (LexSt.adv_inv h)

theorem skipWs_inv {n : Nat} : ∀ (f : Nat) (s : LexSt), s.Inv n → (skipWs f s).Inv n
  | 0, s, h => by simpa [skipWs] using h
  | f + 1, s, h => by
    unfold skipWs
    split
    · exact h
    · split
      · exact skipWs_inv f _ (LexSt.adv_inv h)
      · split
        · exact skipWs_inv f _ (skipComment_inv h)
        · exact h

theorem readIdentChars_inv {n : Nat} :
    ∀ (f : Nat) (s : LexSt) (acc : List Char), s.Inv n → (readIdentChars f s acc).2.Inv n
  | 0, s, acc, h => by simpa [readIdentChars] using h
  | f + 1, s, acc, h => by
    unfold readIdentChars
    split
    · simp only
      split
      · exact LexSt.adv_inv h
      · exact readIdentChars_inv f _ _ (LexSt.adv_inv h)
    · exact h

theorem readNumChars_inv {n : Nat} :
    ∀ (f : Nat) (s : LexSt) (acc : List Char), s.Inv n → (readNumChars f s acc).2.Inv n
  | 0, s, acc, h => by simpa [readNumChars] using h
  | f + 1, s, acc, h => by
    unfold readNumChars
    simp only
    split
    · exact LexSt.adv_inv h
    · exact readNumChars_inv f _ _ (LexSt.adv_inv h)

theorem nextTok_inv {n : Nat} {s : LexSt} (h : s.Inv n) :
    (nextTok s).1.pos = s.cur ∧ (nextTok s).2.Inv n := by
  have hw := skipWs_inv (s.rest.length + 1) s h
  unfold nextTok
  simp only
  split
  · exact ⟨rfl, hw⟩
  · split
    · exact ⟨rfl, LexSt.adv_inv hw⟩
    · split
      · have := readIdentChars_inv ((skipWs (s.rest.length + 1) s).rest.length + 1) _ [] hw
        split <;> exact ⟨rfl, this⟩
      · split
        · have := readNumChars_inv ((skipWs (s.rest.length + 1) s).rest.length + 1) _ [] hw
          split <;> exact ⟨rfl, this⟩
        · exact ⟨rfl, LexSt.adv_inv hw⟩

theorem lexLoop_within {n : Nat} :
    ∀ (f : Nat) (s : LexSt), s.Inv n → ∀ t ∈ lexLoop f s, t.pos.Within n
  | 0, s, h, t, ht => by
    simp [lexLoop] at ht
    subst ht
    exact h.within
  | f + 1, s, h, t, ht => by
    have hn := nextTok_inv h
    unfold lexLoop at ht
    simp only at ht
    split at ht
    · simp at ht
      subst ht
      rw [hn.1]; exact h.within
    · simp at ht
      rcases ht with ht | ht
      · subst ht
        rw [hn.1]; exact h.within
      · exact lexLoop_within f _ hn.2 t ht

/-- every token of `lex input` starts at a position within the input. -/
theorem lex_within (input : List Char) : ∀ t ∈ lex input, t.pos.Within input.length := by
  unfold lex
  apply lexLoop_within
  apply LexSt.adv_inv
  simp [LexSt.Inv]

end Stef.Idl

namespace Stef.Idl

/-! ### parser

  The parser only ever looks at the current token and advances: whatever holds for every token
  of the input stream (and for the default EOF token used for an exhausted list) holds for every
  token the parser looks at. The lemmas are generic in the token predicate `P`; they are used
  with "the position lies within the input" here and with "identifier tokens are identifier
  shaped" in Proofs/IdlNames. -/

def dfltTok : Token := ⟨.eof, ⟨0, 1, 1⟩⟩

def TsOk (P : Token → Prop) (ts : List Token) : Prop := P dfltTok ∧ ∀ t ∈ ts, P t

theorem cur_P {P : Token → Prop} {ts : List Token} (h : TsOk P ts) : P (cur ts) := by
  unfold cur
  cases ts with
  | nil => exact h.1
  | cons t r => exact h.2 t (by simp)

theorem cur_err {P : Token → Prop} {ts : List Token} (h : TsOk P ts) :
    ∃ t, P t ∧ t.pos = (cur ts).pos := ⟨cur ts, cur_P h, rfl⟩

theorem adv_ok {P : Token → Prop} {ts : List Token} (h : TsOk P ts) : TsOk P (adv ts) := by
  refine ⟨h.1, ?_⟩
  intro t ht
  unfold adv at ht
  split at ht
  · simp at ht
  · exact h.2 t ht
  · exact h.2 t (by simp [ht])

/-- a parser result is good: the remaining tokens still satisfy `P` / the error position is
    the position of a token satisfying `P`. -/
def PR.Good {α : Type} (P : Token → Prop) : PR α → Prop
  | .ok _ ts => TsOk P ts
  | .err p _ => ∃ t, P t ∧ t.pos = p

theorem eat_good {P : Token → Prop} {ts : List Token} (w : Tok) (h : TsOk P ts) : (eat w ts).Good P := by
  unfold eat
  split
  · exact adv_ok h
  · exact cur_err h

theorem parseDictModifier_good {P : Token → Prop} {ts : List Token} (h : TsOk P ts) :
    (parseDictModifier ts).Good P := by
  unfold parseDictModifier
  have h1 := eat_good (.punct '(') (adv_ok h)
  split
  · rename_i p c heq; rw [heq] at h1; exact h1
  · rename_i u ts1 heq
    rw [heq] at h1
    split
    · have h2 := eat_good (.punct ')') (adv_ok h1)
      split
      · rename_i heq2; rw [heq2] at h2; exact h2
      · rename_i heq2; rw [heq2] at h2; exact h2
    · exact cur_err h1


theorem PR.Good.ok_of {α : Type} {P : Token → Prop} {r : PR α} {a : α} {ts : List Token}
    (h : r.Good P) (e : r = .ok a ts) : TsOk P ts := by
  subst e; exact h

theorem PR.Good.err_of {α : Type} {P : Token → Prop} {r : PR α} {p : Pos} {c : ErrClass}
    (h : r.Good P) (e : r = .err p c) : ∃ t, P t ∧ t.pos = p := by
  subst e; exact h

theorem parseFieldType_good {P : Token → Prop} {ts : List Token} (h : TsOk P ts) :
    (parseFieldType ts).Good P := by
  unfold parseFieldType
  simp only
  have hr : (if (cur ts).tok = .punct '[' then eat (.punct ']') (adv ts) else PR.ok () ts).Good P := by
    split
    · exact eat_good _ (adv_ok h)
    · exact h
  cases h1 : (if (cur ts).tok = .punct '[' then eat (.punct ']') (adv ts) else PR.ok () ts) with
  | err p c => exact hr.err_of h1
  | ok u ts1 =>
    have k1 := hr.ok_of h1
    simp only
    cases typeOfTok (cur ts1).tok with
    | none => simp only; split <;> exact cur_err k1
    | some ft =>
      simp only
      split
      · split
        · exact cur_err (adv_ok k1)
        · have hd := parseDictModifier_good (adv_ok k1)
          cases h2 : parseDictModifier (adv ts1) with
          | err p c => exact hd.err_of h2
          | ok d ts2 => simp only; split <;> exact hd.ok_of h2
      · split <;> exact adv_ok k1

theorem skipOptionals_ok {P : Token → Prop} : ∀ (ts : List Token) (o : Bool), TsOk P ts →
    TsOk P (skipOptionals ts o).2
  | [], o, h => by simpa [skipOptionals] using h
  | t :: r, o, h => by
    unfold skipOptionals
    split
    · exact skipOptionals_ok r true ⟨h.1, fun x hx => h.2 x (by simp [hx])⟩
    · exact h

theorem parseStructFields_good {P : Token → Prop} : ∀ (f : Nat) (fs : List Field) (ts : List Token),
    TsOk P ts → (parseStructFields f fs ts).Good P
  | 0, fs, ts, h => by unfold parseStructFields; exact cur_err h
  | f + 1, fs, ts, h => by
    unfold parseStructFields
    split
    · split
      · exact cur_err h
      · have hf := parseFieldType_good (adv_ok h)
        cases h1 : parseFieldType (adv ts) with
        | err p c => exact hf.err_of h1
        | ok ty ts1 =>
          simp only
          exact parseStructFields_good f _ _ (skipOptionals_ok _ _ (hf.ok_of h1))
    · exact h

theorem parseStruct_good {P : Token → Prop} {ts : List Token} (isOneOf : Bool) (σ : Schema)
    (h : TsOk P ts) : (parseStruct isOneOf σ ts).Good P := by
  unfold parseStruct
  simp only
  have ha := adv_ok h
  split
  · rename_i sname _
    split
    · exact cur_err ha
    · have haa := adv_ok ha
      -- the modifier step
      have hm : ∀ (mods : PR (Name × Bool)), mods.Good P →
          (match mods with
            | .err p c => PR.err p c
            | .ok (dict, isRoot) ts =>
              match eat (.punct '{') ts with
              | .err p c => .err p c
              | .ok _ ts =>
                match parseStructFields (ts.length + 1) [] ts with
                | .err p c => .err p c
                | .ok fs ts =>
                  if isRoot && fs.isEmpty then .err (cur ts).pos .rootEmpty
                  else match eat (.punct '}') ts with
                    | .err p c => .err p c
                    | .ok _ ts =>
                      .ok { σ with structs := σ.structs ++
                        [{ name := sname, oneOf := isOneOf, dict := dict, isRoot := isRoot, fields := fs }] } ts
            : PR Schema).Good P := by
        intro mods hg
        cases mods with
        | err p c => exact hg
        | ok a ts1 =>
          obtain ⟨dict, isRoot⟩ := a
          have k1 : TsOk P ts1 := hg
          simp only
          have he := eat_good (P := P) (.punct '{') k1
          cases h2 : eat (.punct '{') ts1 with
          | err p c => exact he.err_of h2
          | ok u ts2 =>
            have k2 := he.ok_of h2
            simp only
            have hf := parseStructFields_good (P := P) (ts2.length + 1) [] ts2 k2
            cases h3 : parseStructFields (ts2.length + 1) [] ts2 with
            | err p c => exact hf.err_of h3
            | ok fs ts3 =>
              have k3 := hf.ok_of h3
              simp only
              split
              · exact cur_err k3
              · have he2 := eat_good (P := P) (.punct '}') k3
                cases h4 : eat (.punct '}') ts3 with
                | err p c => exact he2.err_of h4
                | ok u ts4 => exact he2.ok_of h4
      apply hm
      split
      · split
        · exact cur_err haa
        · have hd := parseDictModifier_good haa
          cases h2 : parseDictModifier (adv (adv ts)) with
          | err p c => exact hd.err_of h2
          | ok d ts2 => exact hd.ok_of h2
      · split
        · exact cur_err haa
        · exact adv_ok haa
      · exact haa
  · exact cur_err ha


theorem parseMultimapField_good {P : Token → Prop} {ts : List Token} (h : TsOk P ts) :
    (parseMultimapField ts).Good P := by
  unfold parseMultimapField
  have hf := parseFieldType_good h
  cases h1 : parseFieldType ts with
  | err p c => exact hf.err_of h1
  | ok ty ts1 =>
    have k1 := hf.ok_of h1
    simp only
    split
    · have hd := parseDictModifier_good k1
      cases h2 : parseDictModifier ts1 with
      | err p c => exact hd.err_of h2
      | ok d ts2 => exact hd.ok_of h2
    · exact k1

theorem parseMultimap_good {P : Token → Prop} {ts : List Token} (σ : Schema) (h : TsOk P ts) :
    (parseMultimap σ ts).Good P := by
  unfold parseMultimap
  simp only
  have ha := adv_ok h
  split
  · split
    · exact cur_err ha
    · have e1 := eat_good (P := P) (.punct '{') (adv_ok ha)
      cases h1 : eat (.punct '{') (adv (adv ts)) with
      | err p c => exact e1.err_of h1
      | ok u ts1 =>
      have k1 := e1.ok_of h1
      simp only
      have e2 := eat_good (P := P) (.kw .key) k1
      cases h2 : eat (.kw .key) ts1 with
      | err p c => exact e2.err_of h2
      | ok u ts2 =>
      have k2 := e2.ok_of h2
      simp only
      have e3 := parseMultimapField_good k2
      cases h3 : parseMultimapField ts2 with
      | err p c => exact e3.err_of h3
      | ok kt ts3 =>
      have k3 := e3.ok_of h3
      simp only
      have e4 := eat_good (P := P) (.kw .value) k3
      cases h4 : eat (.kw .value) ts3 with
      | err p c => exact e4.err_of h4
      | ok u ts4 =>
      have k4 := e4.ok_of h4
      simp only
      have e5 := parseMultimapField_good k4
      cases h5 : parseMultimapField ts4 with
      | err p c => exact e5.err_of h5
      | ok vt ts5 =>
      have k5 := e5.ok_of h5
      simp only
      have e6 := eat_good (P := P) (.punct '}') k5
      cases h6 : eat (.punct '}') ts5 with
      | err p c => exact e6.err_of h6
      | ok u ts6 => exact e6.ok_of h6
  · exact cur_err ha

theorem parseEnumFields_good {P : Token → Prop} : ∀ (f : Nat) (fs : List EnumField) (ts : List Token),
    TsOk P ts → (parseEnumFields f fs ts).Good P
  | 0, fs, ts, h => by unfold parseEnumFields; exact cur_err h
  | f + 1, fs, ts, h => by
    unfold parseEnumFields
    split
    · split
      · exact cur_err h
      · have e1 := eat_good (P := P) (.punct '=') (adv_ok h)
        cases h1 : eat (.punct '=') (adv ts) with
        | err p c => exact e1.err_of h1
        | ok u ts1 =>
          have k1 := e1.ok_of h1
          simp only
          split
          · exact parseEnumFields_good f _ _ (adv_ok k1)
          · exact cur_err k1
    · exact h

theorem parseEnum_good {P : Token → Prop} {ts : List Token} (σ : Schema) (h : TsOk P ts) :
    (parseEnum σ ts).Good P := by
  unfold parseEnum
  simp only
  have ha := adv_ok h
  split
  · split
    · exact cur_err ha
    · have e1 := eat_good (P := P) (.punct '{') (adv_ok ha)
      cases h1 : eat (.punct '{') (adv (adv ts)) with
      | err p c => exact e1.err_of h1
      | ok u ts1 =>
      have k1 := e1.ok_of h1
      simp only
      have e2 := parseEnumFields_good (P := P) (ts1.length + 1) [] ts1 k1
      cases h2 : parseEnumFields (ts1.length + 1) [] ts1 with
      | err p c => exact e2.err_of h2
      | ok fs ts2 =>
      have k2 := e2.ok_of h2
      simp only
      have e3 := eat_good (P := P) (.punct '}') k2
      cases h3 : eat (.punct '}') ts2 with
      | err p c => exact e3.err_of h3
      | ok u ts3 => exact e3.ok_of h3
  · exact cur_err ha

theorem parsePackageLoop_good {P : Token → Prop} : ∀ (f : Nat) (acc : List Name) (ts : List Token),
    TsOk P ts → (parsePackageLoop f acc ts).Good P
  | 0, acc, ts, h => by unfold parsePackageLoop; exact cur_err h
  | f + 1, acc, ts, h => by
    unfold parsePackageLoop
    split
    · simp only
      split
      · exact parsePackageLoop_good f _ _ (adv_ok (adv_ok h))
      · exact adv_ok h
    · exact cur_err h

theorem parsePackage_good {P : Token → Prop} {ts : List Token} (h : TsOk P ts) :
    (parsePackage ts).Good P := by
  unfold parsePackage
  have e1 := eat_good (P := P) (.kw .package) h
  cases h1 : eat (.kw .package) ts with
  | err p c => exact e1.err_of h1
  | ok u ts1 => exact parsePackageLoop_good _ _ _ (e1.ok_of h1)

theorem parseDefs_good {P : Token → Prop} : ∀ (f : Nat) (σ : Schema) (ts : List Token),
    TsOk P ts → (parseDefs f σ ts).Good P
  | 0, σ, ts, h => by unfold parseDefs; exact cur_err h
  | f + 1, σ, ts, h => by
    unfold parseDefs
    simp only
    have hm : ∀ (r : PR Schema), r.Good P →
        (match r with
          | .err p c => PR.err p c
          | .ok σ ts => if (cur ts).tok = Tok.eof then PR.ok σ ts else parseDefs f σ ts).Good P := by
      intro r hr
      cases r with
      | err p c => exact hr
      | ok σ1 ts1 =>
        have k1 : TsOk P ts1 := hr
        simp only
        split
        · exact k1
        · exact parseDefs_good f _ _ k1
    apply hm
    split
    · exact parseStruct_good _ _ h
    · exact parseStruct_good _ _ h
    · exact parseMultimap_good _ h
    · exact parseEnum_good _ h
    · exact cur_err h

theorem grammar_good {P : Token → Prop} {ts : List Token} (h : TsOk P ts) : (grammar ts).Good P := by
  unfold grammar
  have e1 := parsePackage_good h
  cases h1 : parsePackage ts with
  | err p c => exact e1.err_of h1
  | ok pkg ts1 =>
    simp only
    split
    · exact e1.ok_of h1
    · exact parseDefs_good _ _ _ (e1.ok_of h1)

/-- every error of `parseTokens` carries the position of one of the tokens (or of the default
    EOF token). -/
theorem parseTokens_err_tok {P : Token → Prop} {ts : List Token} (h : TsOk P ts) {p : Pos}
    {c : ErrClass} (he : parseTokens ts = .error p c) : ∃ t, P t ∧ t.pos = p := by
  unfold parseTokens at he
  have g := grammar_good h
  cases h1 : grammar ts with
  | err p' c' =>
    rw [h1] at he
    simp only at he
    cases he
    exact g.err_of h1
  | ok σ ts1 =>
    rw [h1] at he
    simp only at he
    have k1 := g.ok_of h1
    split at he
    · cases he; exact cur_err k1
    · split at he
      · cases he
      · split at he <;> cases he

/-- ... hence a position within the input. -/
theorem parseTokens_err_within {n : Nat} {ts : List Token} (h : ∀ t ∈ ts, t.pos.Within n)
    {p : Pos} {c : ErrClass} (he : parseTokens ts = .error p c) : p.Within n := by
  obtain ⟨t, ht, rfl⟩ := parseTokens_err_tok (P := fun t => t.pos.Within n)
    ⟨by simp [dfltTok, Pos.Within], h⟩ he
  exact ht

end Stef.Idl
