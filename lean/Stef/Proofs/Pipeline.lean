/-
  Helper lemmas for Stef/Props/C19.lean: invariants of the pipeline model and the canonical
  continuation (flush, deliver, tick, ack).
-/
import Stef.Pipeline

namespace Stef.Pipeline

theorem getLast?_cons_getD (a : Nat) (l : List Nat) (d : Nat) :
    ((a :: l).getLast?).getD d = (l.getLast?).getD a := by
  cases l with
  | nil => simp
  | cons b t =>
    have : ∃ v, (b :: t).getLast? = some v := ⟨(b :: t).getLast (by simp), List.getLast?_eq_some_getLast (by simp)⟩
    obtain ⟨v, hv⟩ := this
    simp [List.getLast?_cons_cons, hv]

theorem chain_le_last : ∀ (l : List Nat) (x0 : Nat), (x0 :: l).Pairwise (· < ·) →
    ∀ x ∈ x0 :: l, x ≤ (l.getLast?).getD x0
  | [], x0, _, x, hx => by simp at hx; simp [hx]
  | b :: t, x0, h, x, hx => by
    rw [getLast?_cons_getD]
    have h' : (b :: t).Pairwise (· < ·) := (List.pairwise_cons.mp h).2
    have hb : x0 < b := (List.pairwise_cons.mp h).1 b (by simp)
    have ih := chain_le_last t b h'
    rcases List.mem_cons.mp hx with rfl | hx
    · have := ih b (by simp); omega
    · exact ih x hx


structure PInv (s : PState) : Prop where
  once : s.pushed = s.delivered ++ s.cur ++ s.fwd.flatten ++ s.open_
  idle : s.busy = false → s.cur = []
  written : s.written = s.pushed.length ∧ s.lastSent = s.written
  decoded : s.decoded = (s.delivered ++ s.cur).length
  ids : ∀ id ∈ s.batchIds, id ≤ s.nextAck
  nextAck_le : s.nextAck ≤ s.decoded
  ackedR_le : s.lastAckedR ≤ s.nextAck
  chain : (s.lastAckedX :: s.back).Pairwise (· < ·)
  last : (s.back.getLast?).getD s.lastAckedX = s.lastAckedR
  pend : ∀ k ∈ s.pending, s.lastAckedX ≤ k ∧ k ≤ s.lastSent

theorem pinv_init : PInv init := by
  constructor <;> simp [init]

theorem pinv_step {s s' : PState} {e : Event} (hi : PInv s) (h : step s e = some s') : PInv s' := by
  have hcl := chain_le_last s.back s.lastAckedX hi.chain
  obtain ⟨h1, h2, h3, h4, h5, h6, h7, h8, h9, h10⟩ := hi
  cases e with
  | push pts =>
    simp only [step, Option.some.injEq] at h; subst h
    constructor <;> simp_all [List.append_assoc]
    all_goals (try omega)
    intro k hk
    split at hk
    · have := h10 k hk; omega
    · split at hk
      · have := h10 k hk; omega
      · rcases List.mem_cons.mp hk with rfl | hk
        · omega
        · have := h10 k hk; omega
  | emit k =>
    simp only [step] at h
    split at h
    · simp only [Option.some.injEq] at h; subst h
      constructor <;> simp_all [List.append_assoc]
    · cases h
  | deliver =>
    simp only [step] at h
    split at h
    · simp only [Option.some.injEq] at h; subst h
      constructor <;> simp_all [List.append_assoc]
      all_goals (try omega)
    · cases h
  | accept =>
    simp only [step] at h
    split at h
    · simp only [Option.some.injEq] at h; subst h
      constructor <;> simp_all [List.append_assoc]
      all_goals (try omega)
      intro id hid
      rcases hid with hid | hid
      · have := h5 id hid; omega
      · omega
    · cases h
  | tick =>
    simp only [step] at h
    split at h
    · rename_i hlt
      simp only [Option.some.injEq] at h; subst h
      have hall : ∀ x ∈ s.lastAckedX :: s.back, x < s.nextAck := by
        intro x hx; have := hcl x hx; omega
      constructor <;> simp_all [List.append_assoc]
      refine ⟨?_, ?_⟩
      · intro a ha
        rcases ha with ha | ha
        · exact h8.1 a ha
        · omega
      · rw [List.pairwise_append]
        refine ⟨h8.2, by simp, ?_⟩
        intro x hx y hy
        simp at hy; subst hy
        exact hall.2 x hx
    · simp only [Option.some.injEq] at h; subst h
      exact ⟨h1, h2, h3, h4, h5, h6, h7, h8, h9, h10⟩
  | ackrecv =>
    simp only [step] at h
    split at h
    · rename_i a rest hb
      simp only [Option.some.injEq] at h; subst h
      rw [hb, getLast?_cons_getD] at h9
      have hxa : s.lastAckedX < a := by
        have := (List.pairwise_cons.mp h8).1 a (by simp [hb]); exact this
      constructor <;> simp_all [List.append_assoc]
      intro k hk hor
      have := h10 k hk
      omega
    · cases h

theorem pinv_run : ∀ (evs : List Event) (s s' : PState), PInv s → run s evs = some s' → PInv s'
  | [], s, s', hi, h => by simp [run] at h; subst h; exact hi
  | e :: es, s, s', hi, h => by
    simp only [run] at h
    split at h
    · rename_i s1 hs1
      exact pinv_run es s1 s' (pinv_step hi hs1) h
    · cases h

theorem run_append : ∀ (a b : List Event) (s : PState),
    run s (a ++ b) = (run s a).bind (fun s1 => run s1 b)
  | [], b, s => by simp [run]
  | e :: a, b, s => by
    simp only [List.cons_append, run]
    cases step s e with
    | none => simp
    | some s1 => simpa using run_append a b s1


/-! ### the canonical continuation -/

/-- the receiver takes every chunk in flight -/
theorem deliver_all : ∀ (n : Nat) (s : PState), s.busy = false → s.fwd.length = n →
    ∃ s1, run s (List.replicate n [Event.deliver, Event.accept]).flatten = some s1 ∧
      s1.busy = false ∧ s1.fwd = [] ∧ s1.open_ = s.open_ ∧ s1.pushed = s.pushed ∧
      ∃ more, s1.batchIds = s.batchIds ++ more
  | 0, s, hb, hn => by
    refine ⟨s, by simp [run], hb, ?_, rfl, rfl, [], by simp⟩
    exact List.length_eq_zero_iff.mp hn
  | n + 1, s, hb, hn => by
    cases hf : s.fwd with
    | nil => simp [hf] at hn
    | cons c rest =>
      let sd : PState := { s with fwd := rest, cur := c, busy := true, decoded := s.decoded + c.length }
      have e1 : step s .deliver = some sd := by simp [step, hb, hf, sd]
      let sa : PState := { sd with delivered := sd.delivered ++ sd.cur, cur := [], busy := false,
                                   batchIds := sd.batchIds ++ [sd.decoded], nextAck := sd.decoded }
      have e2 : step sd .accept = some sa := by simp [step, sd, sa]
      have hlen : sa.fwd.length = n := by simp [sa, sd]; simp [hf] at hn; omega
      obtain ⟨s1, hr, h1, h2, h3, hp, more, h4⟩ := deliver_all n sa rfl hlen
      refine ⟨s1, ?_, h1, h2, by simpa [sa, sd] using h3, by simpa [sa, sd] using hp, [sd.decoded] ++ more, ?_⟩
      · simp only [List.replicate_succ, List.flatten_cons, List.cons_append, List.nil_append, run, e1, e2]
        exact hr
      · rw [h4]; simp [sa, sd]

/-- the exporter receives every acknowledgement in flight -/
theorem ack_all : ∀ (n : Nat) (s : PState), s.back.length = n →
    ∃ s', run s (List.replicate n Event.ackrecv) = some s' ∧ s'.back = [] ∧ s'.busy = s.busy ∧
      s'.fwd = s.fwd ∧ s'.open_ = s.open_ ∧ s'.nextAck = s.nextAck ∧ s'.lastAckedR = s.lastAckedR ∧
      s'.batchIds = s.batchIds ∧ s'.pushed = s.pushed ∧ s'.delivered = s.delivered
  | 0, s, hn => ⟨s, by simp [run], List.length_eq_zero_iff.mp hn, rfl, rfl, rfl, rfl, rfl, rfl, rfl, rfl⟩
  | n + 1, s, hn => by
    cases hb : s.back with
    | nil => simp [hb] at hn
    | cons a rest =>
      let s1 : PState := { s with back := rest,
                                  pending := s.pending.filter (fun k => ¬ (s.lastAckedX ≤ k ∧ k < a)),
                                  lastAckedX := if s.lastAckedX < a then a else s.lastAckedX }
      have e1 : step s .ackrecv = some s1 := by simp [step, hb, s1]
      have hlen : s1.back.length = n := by simp [s1]; simp [hb] at hn; omega
      obtain ⟨s', hr, h1, h2, h3, h4, h5, h6, h7, h8, h9⟩ := ack_all n s1 hlen
      exact ⟨s', by simp only [List.replicate_succ, run, e1]; exact hr, h1, h2, h3, h4, h5, h6, h7, h8, h9⟩

theorem drainRecv_spec (s : PState) :
    ∃ s1, run s (drainRecv s) = some s1 ∧ s1.busy = false ∧ s1.fwd = [] ∧ s1.open_ = [] ∧
      s1.pushed = s.pushed ∧ ∃ more, s1.batchIds = s.batchIds ++ more := by
  -- (a) finish the batch being consumed
  have ha : ∃ sa, run s (if s.busy then [Event.accept] else []) = some sa ∧ sa.busy = false ∧
      sa.fwd = s.fwd ∧ sa.open_ = s.open_ ∧ sa.pushed = s.pushed ∧ ∃ more, sa.batchIds = s.batchIds ++ more := by
    cases hb : s.busy
    · exact ⟨s, by simp [run], hb, rfl, rfl, rfl, [], by simp⟩
    · let sa : PState := { s with delivered := s.delivered ++ s.cur, cur := [], busy := false,
                                  batchIds := s.batchIds ++ [s.decoded], nextAck := s.decoded }
      exact ⟨sa, by simp [run, step, hb, sa], rfl, rfl, rfl, rfl, [s.decoded], rfl⟩
  obtain ⟨sa, ra, a1, a2, a3, ap, morea, a4⟩ := ha
  -- (b) flush the open frame
  have hbb : ∃ sb, run sa (if s.open_.length = 0 then [] else [Event.emit s.open_.length]) = some sb ∧
      sb.busy = false ∧ sb.open_ = [] ∧
      sb.fwd.length = s.fwd.length + (if s.open_.length = 0 then 0 else 1) ∧ sb.batchIds = sa.batchIds ∧
      sb.pushed = sa.pushed := by
    by_cases h0 : s.open_.length = 0
    · refine ⟨sa, by simp [h0, run], a1, ?_, by simp [h0, a2], rfl, rfl⟩
      rw [a3]; exact List.length_eq_zero_iff.mp h0
    · let sb : PState := { sa with fwd := sa.fwd ++ [sa.open_.take s.open_.length],
                                   open_ := sa.open_.drop s.open_.length }
      have : 1 ≤ s.open_.length ∧ s.open_.length ≤ sa.open_.length := by rw [a3]; omega
      exact ⟨sb, by simp [h0, run, step, this, sb], a1, by simp [sb, a3], by simp [sb, h0, a2], rfl, rfl⟩
  obtain ⟨sb, rb, b1, b2, b3, b4, bp⟩ := hbb
  -- (c) every chunk in flight
  obtain ⟨s1, rc, c1, c2, c3, cp, morec, c4⟩ := deliver_all _ sb b1 b3
  refine ⟨s1, ?_, c1, c2, by rw [c3, b2], by rw [cp, bp, ap], morea ++ morec, by rw [c4, b4, a4, List.append_assoc]⟩
  simp only [drainRecv, List.append_assoc, run_append, ra, rb, Option.bind_some]
  exact rc



/-- `drain s` is enabled in every state and ends quiescent with the tick done -/
theorem drain_spec (s : PState) :
    ∃ s', run s (drain s) = some s' ∧ s'.busy = false ∧ s'.fwd = [] ∧ s'.open_ = [] ∧ s'.back = [] ∧
      s'.nextAck ≤ s'.lastAckedR ∧ s'.pushed = s.pushed ∧ ∃ more, s'.batchIds = s.batchIds ++ more := by
  obtain ⟨s1, r1, b1, f1, o1, p1, more, m1⟩ := drainRecv_spec s
  -- the tick
  have ht : ∃ s2, step s1 .tick = some s2 ∧ s2.busy = false ∧ s2.fwd = [] ∧ s2.open_ = [] ∧
      s2.nextAck ≤ s2.lastAckedR ∧ s2.batchIds = s1.batchIds ∧ s2.pushed = s1.pushed := by
    by_cases hlt : s1.nextAck > s1.lastAckedR
    · exact ⟨{ s1 with lastAckedR := s1.nextAck, back := s1.back ++ [s1.nextAck] },
        by simp [step, hlt], b1, f1, o1, Nat.le_refl _, rfl, rfl⟩
    · exact ⟨s1, by simp [step, hlt], b1, f1, o1, by omega, rfl, rfl⟩
  obtain ⟨s2, t2, b2, f2, o2, n2, m2, p2⟩ := ht
  have r2 : run s (drainRecv s ++ [.tick]) = some s2 := by
    simp [run_append, r1, run, t2]
  obtain ⟨s', r3, k1, k2, k3, k4, k5, k6, k7, k8, _⟩ := ack_all s2.back.length s2 rfl
  refine ⟨s', ?_, by rw [k2, b2], by rw [k3, f2], by rw [k4, o2], k1, by rw [k5, k6]; exact n2,
    by rw [k8, p2, p1], more, by rw [k7, m2, m1]⟩
  simp only [drain, r2, run_append, Option.bind_some]
  exact r3


end Stef.Pipeline
