/-
  Marks are not part of the value: `setModifiedRecursively` / `setUnmodifiedRecursively` change neither the
  visible value (`vis`) nor what a reader value shows (`Shows`); states that `eqv` identifies (the
  dictionary lookup) show the same reader values.
-/
import Stef.Proofs.ApiInv

set_option linter.unusedSimpArgs false

namespace Stef.Api
open Stef Stef.Spec Stef.SpecEnc

mutual
theorem vis_setModRec (C : Ctx) : ∀ (a : AS), vis C (setModRec a) = vis C a
  | .prim _ => by simp [setModRec]
  | .nil => by simp [setModRec]
  | .struct n m p fr fs => by simp only [setModRec, vis, visFields_setModRec C (fieldsOf C n) 0 p fs]
  | .oneof n t as => by
    simp only [setModRec, vis]
    by_cases ht : t = 0
    · simp [ht]
    · have : (t == 0) = false := by simp [ht]
      simp only [ht, if_false, this, visAlt_setModRec C (t - 1) as]
  | .arr e es hid => by simp only [setModRec, vis, visList_setModRec C es]
  | .mmap n ps hid k v ml => by simp only [setModRec, vis, visPairs_setModRec C ps]
theorem visFields_setModRec (C : Ctx) : ∀ (fds : List Field) (oi p : Nat) (as : List AS),
    visFields C fds oi p (setModRecList as) = visFields C fds oi p as
  | _, _, _, [] => by simp [setModRecList, visFields]
  | fds, oi, p, a :: as => by
    simp only [setModRecList, visFields, vis_setModRec C a, visFields_setModRec C fds.tail _ p as]
    congr 1
    cases a <;> simp [setModRec]
theorem visAlt_setModRec (C : Ctx) : ∀ (i : Nat) (as : List AS), visAlt C i (setModRecAlt i false as) = visAlt C i as
  | _, [] => by simp [setModRecAlt, visAlt]
  | 0, a :: as => by simp [setModRecAlt, visAlt, vis_setModRec C a]
  | i + 1, a :: as => by simp only [setModRecAlt, visAlt, visAlt_setModRec C i as]
theorem visList_setModRec (C : Ctx) : ∀ (as : List AS), visList C (setModRecList as) = visList C as
  | [] => by simp [setModRecList, visList]
  | a :: as => by simp only [setModRecList, visList, vis_setModRec C a, visList_setModRec C as]
theorem visPairs_setModRec (C : Ctx) : ∀ (ps : List (AS × AS)), visPairs C (setModRecPairs ps) = visPairs C ps
  | [] => by simp [setModRecPairs, visPairs]
  | (a, b) :: ps => by simp only [setModRecPairs, visPairs, vis_setModRec C a, vis_setModRec C b, visPairs_setModRec C ps]
end

mutual
theorem shows_setUnmodRec (C : Ctx) : ∀ (a : AS) (r : St), Shows C a r → Shows C (setUnmodRec a) r
  | .prim _, _, h => by simpa [setUnmodRec] using h
  | .nil, _, h => by simp [Shows] at h
  | .struct n m p fr fs, r, h => by
    simp only [setUnmodRec, Shows] at h ⊢
    obtain ⟨rfs, e, h⟩ := h
    exact ⟨rfs, e, showsFields_setUnmodRec C m (fieldsOf C n) 0 0 p fs rfs h⟩
  | .oneof n t as, r, h => by
    simp only [setUnmodRec, Shows] at h ⊢
    rcases h with h | ⟨ht, rv, e, h⟩
    · exact Or.inl h
    · have : (t == 0) = false := by simp [ht]
      rw [this]
      exact Or.inr ⟨ht, rv, e, showsAlt_setUnmodRec C (t - 1) as rv h⟩
  | .arr e es hid, r, h => by
    simp only [setUnmodRec, Shows] at h ⊢
    obtain ⟨rs, e, h⟩ := h
    exact ⟨rs, e, showsElems_setUnmodRec C es rs h⟩
  | .mmap n ps hid k v ml, r, h => by
    simp only [setUnmodRec, Shows] at h ⊢
    obtain ⟨rs, e, h⟩ := h
    exact ⟨rs, e, showsPairs_setUnmodRec C ps rs h⟩
theorem showsFields_setUnmodRec (C : Ctx) (m : Nat) : ∀ (fds : List Field) (i oi p : Nat) (as : List AS) (rs : List St),
    ShowsFields C fds oi p as rs → ShowsFields C fds oi p (setUnmodRecFields m i as) rs
  | _, _, _, _, [], _, _ => by simp [setUnmodRecFields, ShowsFields]
  | fds, i, oi, p, a :: as, rs, h => by
    simp only [setUnmodRecFields, ShowsFields] at h ⊢
    obtain ⟨r, rs', e, h1, h2⟩ := h
    refine ⟨r, rs', e, fun hp => ?_, showsFields_setUnmodRec C m fds.tail (i + 1) _ p as rs' h2⟩
    by_cases hm : m.testBit i = true
    · simp only [hm, if_true]; exact shows_setUnmodRec C a r (h1 hp)
    · simp only [hm, Bool.false_eq_true, if_false]; exact h1 hp
theorem showsAlt_setUnmodRec (C : Ctx) : ∀ (i : Nat) (as : List AS) (r : St),
    ShowsAlt C i as r → ShowsAlt C i (setUnmodRecAlt i false as) r
  | _, [], _, h => by simp [ShowsAlt] at h
  | 0, a :: as, r, h => by simp only [setUnmodRecAlt, ShowsAlt] at h ⊢; simpa using shows_setUnmodRec C a r h
  | i + 1, a :: as, r, h => by simp only [setUnmodRecAlt, ShowsAlt] at h ⊢; exact showsAlt_setUnmodRec C i as r h
theorem showsElems_setUnmodRec (C : Ctx) : ∀ (as : List AS) (rs : List St),
    ShowsElems C as rs → ShowsElems C (setUnmodRecList as) rs
  | [], _, h => by simpa [setUnmodRecList, ShowsElems] using h
  | a :: as, rs, h => by
    simp only [setUnmodRecList, ShowsElems] at h ⊢
    obtain ⟨r, rs', e, h1, h2⟩ := h
    exact ⟨r, rs', e, shows_setUnmodRec C a r h1, showsElems_setUnmodRec C as rs' h2⟩
theorem showsPairs_setUnmodRec (C : Ctx) : ∀ (ps : List (AS × AS)) (rs : List (St × St)),
    ShowsPairs C ps rs → ShowsPairs C (setUnmodRecPairs ps) rs
  | [], _, h => by simpa [setUnmodRecPairs, ShowsPairs] using h
  | (a, b) :: ps, rs, h => by
    simp only [setUnmodRecPairs, ShowsPairs] at h ⊢
    obtain ⟨rk, rv, rs', e, h1, h2, h3⟩ := h
    exact ⟨rk, rv, rs', e, shows_setUnmodRec C a rk h1, shows_setUnmodRec C b rv h2, showsPairs_setUnmodRec C ps rs' h3⟩
end

/-! ## `stEq` decides equality; `eqv` identifies states that show the same -/

mutual
theorem stEq_eq : ∀ (x y : St), stEq x y = true → x = y
  | .b x, .b y, h => by simp only [stEq, beq_iff_eq] at h; rw [h]
  | .i x, .i y, h => by simp only [stEq, beq_iff_eq] at h; rw [h]
  | .f x, .f y, h => by simp only [stEq, beq_iff_eq] at h; rw [h]
  | .s x, .s y, h => by simp only [stEq, beq_iff_eq] at h; rw [h]
  | .struct p fs, .struct q gs, h => by
    simp only [stEq, Bool.and_eq_true, beq_iff_eq] at h
    rw [h.1, stEqList_eq fs gs h.2]
  | .oneof t v, .oneof u w, h => by
    simp only [stEq, Bool.and_eq_true, beq_iff_eq] at h
    rw [h.1, stEqOpt_eq v w h.2]
  | .arr es, .arr fs, h => by
    simp only [stEq] at h
    rw [stEqList_eq es fs h]
  | .mmap ps, .mmap qs, h => by
    simp only [stEq] at h
    rw [stEqPairs_eq ps qs h]
  | .b _, .i _, h | .b _, .f _, h | .b _, .s _, h | .b _, .struct .., h | .b _, .oneof .., h | .b _, .arr _, h | .b _, .mmap _, h
  | .i _, .b _, h | .i _, .f _, h | .i _, .s _, h | .i _, .struct .., h | .i _, .oneof .., h | .i _, .arr _, h | .i _, .mmap _, h
  | .f _, .b _, h | .f _, .i _, h | .f _, .s _, h | .f _, .struct .., h | .f _, .oneof .., h | .f _, .arr _, h | .f _, .mmap _, h
  | .s _, .b _, h | .s _, .i _, h | .s _, .f _, h | .s _, .struct .., h | .s _, .oneof .., h | .s _, .arr _, h | .s _, .mmap _, h
  | .struct .., .b _, h | .struct .., .i _, h | .struct .., .f _, h | .struct .., .s _, h | .struct .., .oneof .., h
  | .struct .., .arr _, h | .struct .., .mmap _, h
  | .oneof .., .b _, h | .oneof .., .i _, h | .oneof .., .f _, h | .oneof .., .s _, h | .oneof .., .struct .., h
  | .oneof .., .arr _, h | .oneof .., .mmap _, h
  | .arr _, .b _, h | .arr _, .i _, h | .arr _, .f _, h | .arr _, .s _, h | .arr _, .struct .., h | .arr _, .oneof .., h
  | .arr _, .mmap _, h
  | .mmap _, .b _, h | .mmap _, .i _, h | .mmap _, .f _, h | .mmap _, .s _, h | .mmap _, .struct .., h | .mmap _, .oneof .., h
  | .mmap _, .arr _, h => by simp [stEq] at h
theorem stEqList_eq : ∀ (xs ys : List St), stEqList xs ys = true → xs = ys
  | [], [], _ => rfl
  | a :: as, b :: bs, h => by
    simp only [stEqList, Bool.and_eq_true] at h
    rw [stEq_eq a b h.1, stEqList_eq as bs h.2]
  | [], _ :: _, h => by simp [stEqList] at h
  | _ :: _, [], h => by simp [stEqList] at h
theorem stEqOpt_eq : ∀ (x y : Option St), stEqOpt x y = true → x = y
  | none, none, _ => rfl
  | some a, some b, h => by simp only [stEqOpt] at h; rw [stEq_eq a b h]
  | none, some _, h => by simp [stEqOpt] at h
  | some _, none, h => by simp [stEqOpt] at h
theorem stEqPairs_eq : ∀ (xs ys : List (St × St)), stEqPairs xs ys = true → xs = ys
  | [], [], _ => rfl
  | (a1, a2) :: as, (b1, b2) :: bs, h => by
    simp only [stEqPairs, Bool.and_eq_true] at h
    rw [stEq_eq a1 b1 h.1.1, stEq_eq a2 b2 h.1.2, stEqPairs_eq as bs h.2]
  | [], _ :: _, h => by simp [stEqPairs] at h
  | _ :: _, [], h => by simp [stEqPairs] at h
end

theorem eqvAlt_nil (C : Ctx) : ∀ (i : Nat) (as : List AS), eqvAlt C i as [] = false
  | _, [] => by simp [eqvAlt]
  | 0, a :: as => by simp [eqvAlt]
  | i + 1, a :: as => by simp only [eqvAlt, List.tail_nil]; exact eqvAlt_nil C i as

mutual
theorem shows_of_eqv (C : Ctx) : ∀ (a b : AS) (r : St), eqv C a b = true → Shows C a r → Shows C b r
  | .prim x, b, r, he, h => by
    cases b with
    | prim y =>
      simp only [eqv] at he
      simp only [Shows] at h ⊢
      rw [h, stEq_eq x y he]
    | _ => simp [eqv] at he
  | .nil, _, _, he, _ => by simp [eqv] at he
  | .struct n m p fr fs, b, r, he, h => by
    cases b with
    | struct n' m' p' fr' fs' =>
      simp only [eqv, Bool.and_eq_true, beq_iff_eq] at he
      obtain ⟨⟨rfl, rfl⟩, he⟩ := he
      simp only [Shows] at h ⊢
      obtain ⟨rfs, e, h⟩ := h
      exact ⟨rfs, e, showsFields_of_eqv C (fieldsOf C n) 0 p fs fs' rfs he h⟩
    | _ => simp [eqv] at he
  | .oneof n t as, b, r, he, h => by
    cases b with
    | oneof n' t' as' =>
      simp only [eqv, Bool.and_eq_true, beq_iff_eq, Bool.or_eq_true] at he
      obtain ⟨⟨_, rfl⟩, he⟩ := he
      simp only [Shows] at h ⊢
      rcases h with h | ⟨ht, rv, e, h⟩
      · exact Or.inl h
      · rcases he with he | he
        · exact absurd he ht
        · exact Or.inr ⟨ht, rv, e, showsAlt_of_eqv C (t - 1) as as' rv he h⟩
    | _ => simp [eqv] at he
  | .arr e es hid, b, r, he, h => by
    cases b with
    | arr e' es' hid' =>
      simp only [eqv] at he
      simp only [Shows] at h ⊢
      obtain ⟨rs, e, h⟩ := h
      exact ⟨rs, e, showsElems_of_eqv C es es' rs he h⟩
    | _ => simp [eqv] at he
  | .mmap n ps hid k v ml, b, r, he, h => by
    cases b with
    | mmap n' ps' hid' k' v' ml' =>
      simp only [eqv, Bool.and_eq_true, beq_iff_eq] at he
      simp only [Shows] at h ⊢
      obtain ⟨rs, e, h⟩ := h
      exact ⟨rs, e, showsPairs_of_eqv C ps ps' rs he.2 h⟩
    | _ => simp [eqv] at he
theorem showsFields_of_eqv (C : Ctx) : ∀ (fds : List Field) (oi p : Nat) (as bs : List AS) (rs : List St),
    eqvFields C fds oi p as bs = true → ShowsFields C fds oi p as rs → ShowsFields C fds oi p bs rs
  | _, _, _, [], bs, _, he, _ => by
    simp only [eqvFields, List.isEmpty_iff] at he
    subst he
    simp [ShowsFields]
  | fds, oi, p, a :: as, bs, rs, he, h => by
    cases bs with
    | nil => simp [eqvFields] at he
    | cons b bs =>
      simp only [eqvFields, Bool.and_eq_true] at he
      simp only [ShowsFields] at h ⊢
      obtain ⟨r, rs', e, h1, h2⟩ := h
      refine ⟨r, rs', e, fun hp => ?_, showsFields_of_eqv C fds.tail _ p as bs rs' he.2 h2⟩
      have hnabs : (fdOpt fds && !p.testBit oi) = false := by
        cases hh : fdOpt fds <;> simp_all
      have he1 := he.1
      split at he1
      · rename_i habs
        have : (fdOpt fds && !p.testBit oi) = true := by
          simp only [Bool.and_eq_true]; exact habs
        rw [hnabs] at this
        simp at this
      · exact shows_of_eqv C a b r he1 (h1 hp)
theorem showsAlt_of_eqv (C : Ctx) : ∀ (i : Nat) (as bs : List AS) (r : St),
    eqvAlt C i as bs = true → ShowsAlt C i as r → ShowsAlt C i bs r
  | _, [], _, _, he, _ => by simp [eqvAlt] at he
  | 0, a :: as, bs, r, he, h => by
    cases bs with
    | nil => simp [eqvAlt] at he
    | cons b bs =>
      simp only [eqvAlt] at he
      simp only [ShowsAlt] at h ⊢
      exact shows_of_eqv C a b r he h
  | i + 1, a :: as, bs, r, he, h => by
    cases bs with
    | nil => rw [eqvAlt_nil] at he; simp at he
    | cons b bs =>
      simp only [eqvAlt, List.tail_cons] at he
      simp only [ShowsAlt] at h ⊢
      exact showsAlt_of_eqv C i as bs r he h
theorem showsElems_of_eqv (C : Ctx) : ∀ (as bs : List AS) (rs : List St),
    eqvElems C as bs = true → ShowsElems C as rs → ShowsElems C bs rs
  | [], bs, _, he, h => by
    simp only [eqvElems, List.isEmpty_iff] at he
    subst he
    exact h
  | a :: as, bs, rs, he, h => by
    cases bs with
    | nil => simp [eqvElems] at he
    | cons b bs =>
      simp only [eqvElems, Bool.and_eq_true] at he
      simp only [ShowsElems] at h ⊢
      obtain ⟨r, rs', e, h1, h2⟩ := h
      exact ⟨r, rs', e, shows_of_eqv C a b r he.1 h1, showsElems_of_eqv C as bs rs' he.2 h2⟩
theorem showsPairs_of_eqv (C : Ctx) : ∀ (ps qs : List (AS × AS)) (rs : List (St × St)),
    eqvPairs C ps qs = true → ShowsPairs C ps rs → ShowsPairs C qs rs
  | [], qs, _, he, h => by
    simp only [eqvPairs, List.isEmpty_iff] at he
    subst he
    exact h
  | (a1, a2) :: ps, qs, rs, he, h => by
    cases qs with
    | nil => simp [eqvPairs] at he
    | cons q qs =>
      obtain ⟨b1, b2⟩ := q
      simp only [eqvPairs, Bool.and_eq_true] at he
      simp only [ShowsPairs] at h ⊢
      obtain ⟨rk, rv, rs', e, h1, h2, h3⟩ := h
      exact ⟨rk, rv, rs', e, shows_of_eqv C a1 b1 rk he.1.1 h1, shows_of_eqv C a2 b2 rv he.1.2 h2,
        showsPairs_of_eqv C ps qs rs' he.2 h3⟩
end

end Stef.Api
