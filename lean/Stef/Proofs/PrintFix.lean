/-
  Fixpoint property of accepted schemas (C13): re-running the recursion marking and the pruning on
  the name-sorted accepted schema changes nothing (`parseTokens_fixpoint`).

  Outline. `parseTokens ts = .ok σ` unfolds to: grammar `σ0`, `resolveRefs σ0 = σ1`, marks
  `m = crRoots σ1`, `σ2 = applyMarks σ1 m`, reach set `r = mrRoots σ2`, `σ = σ2` filtered by `r`.
   (a)  `σ1` carries no recursion flag, so `unmark σ.norm` is `σ1` restricted to `r`, reordered.
   (b1) marks are only consed in front (frame property): the marks of `crRoots` are the union of
        the marks of the single roots, whatever the order of the roots.
   (b2) more fuel does not change a successful traversal; (b3) the traversal only looks at the
        definitions it reaches, which `r` contains: a root run on `unmark σ.norm` equals the run on `σ1`.
   (b5)-(b8) a root struct that is not kept (it can only be one with the empty name, which no
        lexer output contains) still contributes marks to `m`. Every mark is a frame of the loop
        of a lasso (simple path + back edge) and the traversal sets the marks of every lasso that
        starts at its root; a loop through a kept definition is reached by a simple path from a
        kept root, so the kept roots set the same marks on the kept definitions.
   (c)  `r` is the least closed set containing the named roots, hence contained in the reach set
        of `σ.norm`: pruning `σ.norm` removes nothing.
-/
import Stef.Proofs.PrintDefs
import Stef.Proofs.IdlNoEmpty
import Stef.Proofs.WireEquiv

namespace Stef.Idl

/-! ### (a) no recursion flag is set before the marking -/

theorem parseFieldType_noflag {ts ts' : List Token} {ty : FType}
    (h : parseFieldType ts = .ok ty ts') : ty.NoFlag := by
  unfold parseFieldType at h
  simp only at h
  split at h
  · cases h
  · split at h
    · split at h <;> cases h
    · split at h
      · split at h
        · cases h
        · split at h
          · cases h
          · split at h <;> cases h <;> simp [FType.NoFlag]
      · split at h <;> cases h <;> simp [FType.NoFlag]

theorem parseMultimapField_noflag {ts ts' : List Token} {ty : FType}
    (h : parseMultimapField ts = .ok ty ts') : ty.NoFlag := by
  unfold parseMultimapField at h
  split at h
  · cases h
  · rename_i ty0 ts0 h0
    have hr := parseFieldType_noflag h0
    split at h
    · split at h
      · cases h
      · cases h
        cases ty0 with
        | base b => trivial
        | array e d r => exact hr
    · cases h; exact hr

theorem parseStructFields_noflag : ∀ (f : Nat) (fs : List Field) (ts : List Token) (fs' : List Field)
    (ts' : List Token), parseStructFields f fs ts = .ok fs' ts' →
    (∀ x ∈ fs, x.ty.NoFlag) → (∀ x ∈ fs', x.ty.NoFlag)
  | 0, fs, ts, fs', ts', h, _ => by simp [parseStructFields] at h
  | f + 1, fs, ts, fs', ts', h, hr => by
    unfold parseStructFields at h
    split at h
    · split at h
      · cases h
      · split at h
        · cases h
        · rename_i ty ts1 hty
          simp only at h
          refine parseStructFields_noflag f _ _ _ _ h ?_
          intro x hx
          simp only [List.mem_append, List.mem_singleton] at hx
          rcases hx with hx | hx
          · exact hr x hx
          · subst hx; exact parseFieldType_noflag hty
    · cases h
      exact hr

theorem NoFlags.addStruct {σ : Schema} (h : NoFlags σ) (s : Struct) (hr : s.recursive = false)
    (ht : ∀ ty ∈ s.types, ty.NoFlag) : NoFlags { σ with structs := σ.structs ++ [s] } := by
  refine ⟨?_, h.multimaps⟩
  intro x hx
  simp only [List.mem_append, List.mem_singleton] at hx
  rcases hx with hx | hx
  · exact h.structs x hx
  · subst hx; exact ⟨hr, ht⟩

theorem NoFlags.addMultimap {σ : Schema} (h : NoFlags σ) (m : Multimap) (hr : m.recursive = false)
    (ht : ∀ ty ∈ m.types, ty.NoFlag) : NoFlags { σ with multimaps := σ.multimaps ++ [m] } := by
  refine ⟨h.structs, ?_⟩
  intro x hx
  simp only [List.mem_append, List.mem_singleton] at hx
  rcases hx with hx | hx
  · exact h.multimaps x hx
  · subst hx; exact ⟨hr, ht⟩

theorem parseStruct_noflags {σ σ' : Schema} {ts ts' : List Token} {o : Bool} (hg : NoFlags σ)
    (h : parseStruct o σ ts = .ok σ' ts') : NoFlags σ' := by
  unfold parseStruct at h
  simp only at h
  repeat' (split at h)
  all_goals first
    | (cases h; done)
    | skip
  rename_i _ sname _ hfresh _ dict isRoot _ _ _ _ _ _ _ fs _ hfs hroot _ _ _ _
  cases h
  have hf := parseStructFields_noflag _ _ _ _ _ hfs (by simp)
  refine hg.addStruct _ rfl ?_
  intro ty hty
  simp only [Struct.types, List.mem_map] at hty
  obtain ⟨x, hx, rfl⟩ := hty
  exact hf x hx

theorem parseMultimap_noflags {σ σ' : Schema} {ts ts' : List Token} (hg : NoFlags σ)
    (h : parseMultimap σ ts = .ok σ' ts') : NoFlags σ' := by
  unfold parseMultimap at h
  simp only at h
  repeat' (split at h)
  all_goals first
    | (cases h; done)
    | skip
  rename_i _ mname _ hfresh _ _ _ _ _ _ _ _ _ kt _ hk _ _ _ _ _ vt _ hv _ _ _ _
  cases h
  refine hg.addMultimap _ rfl ?_
  intro ty hty
  simp only [Multimap.types, List.mem_cons, List.mem_nil_iff, or_false] at hty
  rcases hty with rfl | rfl
  · exact parseMultimapField_noflag hk
  · exact parseMultimapField_noflag hv

theorem parseEnum_noflags {σ σ' : Schema} {ts ts' : List Token} (hg : NoFlags σ)
    (h : parseEnum σ ts = .ok σ' ts') : NoFlags σ' := by
  unfold parseEnum at h
  simp only at h
  repeat' (split at h)
  all_goals first
    | (cases h; done)
    | skip
  cases h
  exact ⟨hg.structs, hg.multimaps⟩

theorem parseDefs_noflags : ∀ (f : Nat) (σ σ' : Schema) (ts ts' : List Token), NoFlags σ →
    parseDefs f σ ts = .ok σ' ts' → NoFlags σ'
  | 0, σ, σ', ts, ts', _, h => by simp [parseDefs] at h
  | f + 1, σ, σ', ts, ts', hg, h => by
    unfold parseDefs at h
    simp only at h
    split at h
    · cases h
    · rename_i σ1 ts1 h1
      have hg1 : NoFlags σ1 := by
        split at h1
        · exact parseStruct_noflags hg h1
        · exact parseStruct_noflags hg h1
        · exact parseMultimap_noflags hg h1
        · exact parseEnum_noflags hg h1
        · cases h1
      split at h
      · cases h; exact hg1
      · exact parseDefs_noflags f _ _ _ _ hg1 h

theorem grammar_noflags {σ : Schema} {ts ts' : List Token} (h : grammar ts = .ok σ ts') :
    NoFlags σ := by
  unfold grammar at h
  split at h
  · cases h
  · split at h
    · cases h; exact ⟨by simp, by simp⟩
    · exact parseDefs_noflags _ _ _ _ _ ⟨by simp, by simp⟩ h

theorem resolveFType_noflag {σ : Schema} {ty ty' : FType} (h : resolveFType σ ty = .ok ty')
    (hn : ty.NoFlag) : ty'.NoFlag := by
  cases ty with
  | base b =>
    simp only [resolveFType] at h
    cases hb : resolveBase σ b with
    | error e => simp [hb, Except.map] at h
    | ok b' => simp [hb, Except.map] at h; subst h; trivial
  | array e d r =>
    simp only [resolveFType] at h
    cases hb : resolveBase σ e with
    | error e => simp [hb, Except.map] at h
    | ok b' => simp [hb, Except.map] at h; subst h; exact hn

theorem resolveStructs_rec {σ : Schema} : ∀ (ss ss' : List Struct),
    resolveStructs σ ss = .ok ss' → ∀ s' ∈ ss', ∃ s ∈ ss, s'.recursive = s.recursive
  | [], ss', h => by simp [resolveStructs] at h; subst h; simp
  | s :: ss, ss', h => by
    unfold resolveStructs at h
    split at h
    · cases h
    · split at h
      · cases h
      · rename_i ss1 hss
        cases h
        intro s' hs'
        simp only [List.mem_cons] at hs'
        rcases hs' with rfl | hs'
        · exact ⟨s, by simp, rfl⟩
        · obtain ⟨x, hx, h1⟩ := resolveStructs_rec ss ss1 hss s' hs'
          exact ⟨x, by simp [hx], h1⟩

theorem resolveMultimaps_rec {σ : Schema} : ∀ (ms ms' : List Multimap),
    resolveMultimaps σ ms = .ok ms' → ∀ m' ∈ ms', ∃ m ∈ ms, m'.recursive = m.recursive
  | [], ms', h => by simp [resolveMultimaps] at h; subst h; simp
  | m :: ms, ms', h => by
    unfold resolveMultimaps at h
    split at h
    · cases h
    · split at h
      · cases h
      · split at h
        · cases h
        · rename_i ms1 hms
          cases h
          intro m' hm'
          simp only [List.mem_cons] at hm'
          rcases hm' with rfl | hm'
          · exact ⟨m, by simp, rfl⟩
          · obtain ⟨x, hx, h1⟩ := resolveMultimaps_rec ms ms1 hms m' hm'
            exact ⟨x, by simp [hx], h1⟩

theorem resolveRefs_noflags {σ σ1 : Schema} (hg : NoFlags σ) (h : resolveRefs σ = .ok σ1) :
    NoFlags σ1 := by
  unfold resolveRefs at h
  split at h
  · cases h
  · rename_i ss hss
    split at h
    · cases h
    · rename_i ms hms
      cases h
      refine ⟨?_, ?_⟩
      · intro s' hs'
        obtain ⟨s, hs, hrec⟩ := resolveStructs_rec _ _ hss s' hs'
        refine ⟨by rw [hrec]; exact (hg.structs s hs).1, ?_⟩
        intro ty' hty'
        obtain ⟨s0, hs0, ty, hty, h1⟩ := resolveStructs_pointwise _ _ hss s' hs' ty' hty'
        exact resolveFType_noflag h1 ((hg.structs s0 hs0).2 ty hty)
      · intro m' hm'
        obtain ⟨m, hm, hrec⟩ := resolveMultimaps_rec _ _ hms m' hm'
        refine ⟨by rw [hrec]; exact (hg.multimaps m hm).1, ?_⟩
        intro ty' hty'
        obtain ⟨m0, hm0, ty, hty, h1⟩ := resolveMultimaps_pointwise _ _ hms m' hm' ty' hty'
        exact resolveFType_noflag h1 ((hg.multimaps m0 hm0).2 ty hty)

/-! ### (b1) the marks are only consed at the front: frame property -/

def Marks.app (a b : Marks) : Marks :=
  ⟨a.structs ++ b.structs, a.multimaps ++ b.multimaps, a.arrays ++ b.arrays⟩

def RSt.addM (st : RSt) (m0 : Marks) : RSt := { st with marks := st.marks.app m0 }

def emap (m0 : Marks) : Except PanicSite RSt → Except PanicSite RSt
  | .ok st => .ok (st.addM m0)
  | .error e => .error e

def mmap (m0 : Marks) : Except PanicSite Marks → Except PanicSite Marks
  | .ok m => .ok (m.app m0)
  | .error e => .error e

theorem setRecursive_frame (f : Frame) (m m0 : Marks) :
    setRecursive f (m.app m0) = mmap m0 (setRecursive f m) := by
  unfold setRecursive
  cases f.ty with
  | array e d r => rfl
  | base b =>
    by_cases h1 : b.prim.isSome = true
    · simp [h1, mmap]
    · by_cases h2 : b.struct = []
      · by_cases h3 : b.multimap = []
        · simp [h1, h2, h3, mmap]
        · simp [h1, h2, h3, mmap, Marks.app]
      · simp [h1, h2, mmap, Marks.app]

theorem setRecursiveAll_frame : ∀ (fs : List Frame) (m m0 : Marks),
    setRecursiveAll fs (m.app m0) = mmap m0 (setRecursiveAll fs m)
  | [], m, m0 => rfl
  | f :: fs, m, m0 => by
    simp only [setRecursiveAll, setRecursive_frame]
    cases setRecursive f m with
    | error e => rfl
    | ok m' => exact setRecursiveAll_frame fs m' m0

theorem markRecursive_frame (n : Name) (st : RSt) (m0 : Marks) :
    markRecursive n (st.addM m0) = emap m0 (markRecursive n st) := by
  unfold markRecursive
  have e1 : (st.addM m0).asStack = st.asStack := rfl
  have e2 : (st.addM m0).fields = st.fields := rfl
  have e3 : (st.addM m0).marks = st.marks.app m0 := rfl
  rw [e1, e2, e3]
  cases findLast st.asStack n with
  | none => rfl
  | some i =>
    simp only [setRecursiveAll_frame]
    cases setRecursiveAll (st.fields.drop i) st.marks with
    | error e => rfl
    | ok m => rfl

def Framed (m0 : Marks) (rec : BaseType → RSt → Except PanicSite RSt) : Prop :=
  ∀ b st, rec b (st.addM m0) = emap m0 (rec b st)

theorem crFields_frame {m0 : Marks} {rec : BaseType → RSt → Except PanicSite RSt}
    (hrec : Framed m0 rec) (isMM : Bool) (owner : Name) :
    ∀ (tys : List FType) (i : Nat) (st : RSt),
      crFields rec isMM owner tys i (st.addM m0) = emap m0 (crFields rec isMM owner tys i st)
  | [], i, st => rfl
  | ty :: rest, i, st => by
    unfold crFields
    have e1 : ({ st.addM m0 with fields := (st.addM m0).fields ++ [⟨isMM, owner, i, ty⟩] } : RSt)
        = ({ st with fields := st.fields ++ [⟨isMM, owner, i, ty⟩] } : RSt).addM m0 := rfl
    rw [e1, hrec]
    cases rec ty.inner { st with fields := st.fields ++ [⟨isMM, owner, i, ty⟩] } with
    | error e => rfl
    | ok st2 =>
      exact crFields_frame hrec isMM owner rest (i + 1) { st2 with fields := st2.fields.dropLast }

theorem crEnter_frame {m0 : Marks} {rec : BaseType → RSt → Except PanicSite RSt}
    (hrec : Framed m0 rec) (isMM : Bool) (name : Name) (tys : List FType) (st : RSt) :
    crEnter rec isMM name tys (st.addM m0) = emap m0 (crEnter rec isMM name tys st) := by
  unfold crEnter
  have e1 : ({ st.addM m0 with asStack := (st.addM m0).asStack ++ [name] } : RSt)
      = ({ st with asStack := st.asStack ++ [name] } : RSt).addM m0 := rfl
  rw [e1, crFields_frame hrec]
  cases crFields rec isMM name tys 0 { st with asStack := st.asStack ++ [name] } with
  | error e => rfl
  | ok st2 => rfl

theorem crType_frame (σ : Schema) (m0 : Marks) : ∀ f, Framed m0 (crType σ f)
  | 0 => fun b st => rfl
  | f + 1 => by
    intro b st
    have ih := crType_frame σ m0 f
    unfold crType
    have es : (st.addM m0).asStack = st.asStack := rfl
    rw [es]
    by_cases hp : b.prim.isSome = true
    · simp only [hp, if_true]; rfl
    · simp only [hp]
      by_cases hs : b.struct = []
      · simp only [hs, ne_eq, not_true_eq_false, if_false]
        by_cases hm : b.multimap = []
        · simp only [hm, not_true_eq_false, if_false]; rfl
        · simp only [hm, not_false_eq_true, if_true]
          by_cases hc : st.asStack.contains b.multimap = true
          · simp only [hc, if_true]; exact markRecursive_frame _ _ _
          · simp only [hc]
            cases σ.findMultimap b.multimap with
            | none => rfl
            | some m => exact crEnter_frame ih true m.name m.types st
      · simp only [hs, ne_eq, not_false_eq_true, if_true]
        by_cases hc : st.asStack.contains b.struct = true
        · simp only [hc, if_true]; exact markRecursive_frame _ _ _
        · simp only [hc]
          cases σ.findStruct b.struct with
          | none => rfl
          | some s => exact crEnter_frame ih false s.name s.types st

/-! ### (b2) fuel monotonicity -/

def RecLe (rec rec' : BaseType → RSt → Except PanicSite RSt) : Prop :=
  ∀ b st x, rec b st = .ok x → rec' b st = .ok x

theorem crFields_mono {rec rec' : BaseType → RSt → Except PanicSite RSt} (h : RecLe rec rec')
    (isMM : Bool) (owner : Name) : ∀ (tys : List FType) (i : Nat) (st x : RSt),
      crFields rec isMM owner tys i st = .ok x → crFields rec' isMM owner tys i st = .ok x
  | [], i, st, x, hx => hx
  | ty :: rest, i, st, x, hx => by
    unfold crFields at hx ⊢
    split at hx
    · cases hx
    · rename_i st2 h2
      rw [h _ _ _ h2]
      exact crFields_mono h isMM owner rest (i + 1) _ x hx

theorem crEnter_mono {rec rec' : BaseType → RSt → Except PanicSite RSt} (h : RecLe rec rec')
    (isMM : Bool) (name : Name) (tys : List FType) (st x : RSt)
    (hx : crEnter rec isMM name tys st = .ok x) : crEnter rec' isMM name tys st = .ok x := by
  unfold crEnter at hx ⊢
  split at hx
  · cases hx
  · rename_i st2 h2
    rw [crFields_mono h _ _ _ _ _ _ h2]
    exact hx

theorem crType_mono (σ : Schema) : ∀ f, RecLe (crType σ f) (crType σ (f + 1))
  | 0 => by intro b st x hx; simp [crType] at hx
  | f + 1 => by
    intro b st x hx
    have ih := crType_mono σ f
    unfold crType at hx ⊢
    split at hx
    · rename_i hp; rw [if_pos hp]; exact hx
    · rename_i hp
      rw [if_neg hp]
      split at hx
      · rename_i hs
        rw [if_pos hs]
        split at hx
        · rename_i hc; rw [if_pos hc]; exact hx
        · rename_i hc
          rw [if_neg hc]
          split at hx
          · cases hx
          · rename_i s hf
            exact crEnter_mono ih _ _ _ _ _ hx
      · rename_i hs
        rw [if_neg hs]
        split at hx
        · rename_i hm
          rw [if_pos hm]
          split at hx
          · rename_i hc; rw [if_pos hc]; exact hx
          · rename_i hc
            rw [if_neg hc]
            split at hx
            · cases hx
            · rename_i m hf
              exact crEnter_mono ih _ _ _ _ _ hx
        · cases hx

theorem crType_mono_le (σ : Schema) {f f' : Nat} (h : f ≤ f') : RecLe (crType σ f) (crType σ f') := by
  induction h with
  | refl => intro b st x hx; exact hx
  | step _ ih => intro b st x hx; exact crType_mono σ _ _ _ _ (ih _ _ _ hx)

/-! ### (b3) the traversal only looks at the definitions it reaches -/

structure LookEq (σ σ' : Schema) (r : Reach) : Prop where
  structs : ∀ n ∈ r.structs, σ'.findStruct n = σ.findStruct n
  multimaps : ∀ n ∈ r.multimaps, σ'.findMultimap n = σ.findMultimap n
  closedS : ∀ n ∈ r.structs, ∀ s, σ.findStruct n = some s → ∀ ty ∈ s.types, Covered r ty.inner
  closedM : ∀ n ∈ r.multimaps, ∀ m, σ.findMultimap n = some m → ∀ ty ∈ m.types, Covered r ty.inner

theorem crFields_congr {r : Reach} {rec rec' : BaseType → RSt → Except PanicSite RSt}
    (h : ∀ b st, Covered r b → rec' b st = rec b st) (isMM : Bool) (owner : Name) :
    ∀ (tys : List FType) (i : Nat) (st : RSt), (∀ ty ∈ tys, Covered r ty.inner) →
      crFields rec' isMM owner tys i st = crFields rec isMM owner tys i st
  | [], i, st, _ => rfl
  | ty :: rest, i, st, hc => by
    unfold crFields
    rw [h _ _ (hc ty (by simp))]
    cases rec ty.inner { st with fields := st.fields ++ [⟨isMM, owner, i, ty⟩] } with
    | error e => rfl
    | ok st2 => exact crFields_congr h isMM owner rest (i + 1) _ (fun x hx => hc x (by simp [hx]))

theorem crEnter_congr {r : Reach} {rec rec' : BaseType → RSt → Except PanicSite RSt}
    (h : ∀ b st, Covered r b → rec' b st = rec b st) (isMM : Bool) (name : Name)
    (tys : List FType) (st : RSt) (hc : ∀ ty ∈ tys, Covered r ty.inner) :
    crEnter rec' isMM name tys st = crEnter rec isMM name tys st := by
  unfold crEnter
  rw [crFields_congr h isMM name tys 0 _ hc]

theorem crType_congr {σ σ' : Schema} {r : Reach} (hl : LookEq σ σ' r) :
    ∀ (f : Nat) (b : BaseType) (st : RSt), Covered r b → crType σ' f b st = crType σ f b st
  | 0, b, st, _ => rfl
  | f + 1, b, st, hc => by
    have ih := crType_congr hl f
    unfold crType
    by_cases hp : b.prim.isSome = true
    · simp only [hp, if_true]
    · simp only [hp]
      by_cases hs : b.struct = []
      · simp only [hs, ne_eq, not_true_eq_false, if_false]
        by_cases hm : b.multimap = []
        · simp only [hm, not_true_eq_false, if_false]
        · simp only [hm, not_false_eq_true, if_true]
          have hin := hc.2.1 hs hm
          rw [hl.multimaps _ hin]
          cases hf : σ.findMultimap b.multimap with
          | none => rfl
          | some m =>
            simp only
            rw [crEnter_congr ih true m.name m.types st (hl.closedM _ hin m hf)]
      · simp only [hs, ne_eq, not_false_eq_true, if_true]
        have hin := hc.1 hs
        rw [hl.structs _ hin]
        cases hf : σ.findStruct b.struct with
        | none => rfl
        | some s =>
          simp only
          rw [crEnter_congr ih false s.name s.types st (hl.closedS _ hin s hf)]

/-! ### (b4) the marks of `crRoots` are the union of the marks of the single roots -/

def rootRun (σ : Schema) (s : Struct) : Except PanicSite RSt :=
  crEnter (crType σ (crFuel σ)) false s.name s.types {}

def rootMarks (σ : Schema) (s : Struct) : Marks :=
  match rootRun σ s with
  | .ok st => st.marks
  | .error _ => {}

def foldRoots (g : Struct → Marks) : List Struct → Marks → Marks
  | [], m => m
  | s :: ss, m => foldRoots g ss (if s.isRoot then (g s).app m else m)

theorem crRoots_root_eq (σ : Schema) (s : Struct) (m : Marks) :
    crEnter (crType σ (crFuel σ)) false s.name s.types { marks := m } = emap m (rootRun σ s) :=
  crEnter_frame (crType_frame σ m _) false s.name s.types {}

theorem crRoots_fold {σ : Schema} : ∀ (ss : List Struct) (m m' : Marks), crRoots σ ss m = .ok m' →
    (∀ s ∈ ss, s.isRoot = true → ∃ st, rootRun σ s = .ok st) ∧ m' = foldRoots (rootMarks σ) ss m
  | [], m, m', h => by simp [crRoots] at h; subst h; exact ⟨by simp, rfl⟩
  | s :: ss, m, m', h => by
    unfold crRoots at h
    split at h
    · rename_i hroot
      rw [crRoots_root_eq] at h
      cases hrun : rootRun σ s with
      | error e => simp [hrun, emap] at h
      | ok st =>
        simp only [hrun, emap] at h
        obtain ⟨a1, a2⟩ := crRoots_fold ss _ m' h
        refine ⟨?_, ?_⟩
        · intro x hx hxr
          simp only [List.mem_cons] at hx
          rcases hx with rfl | hx
          · exact ⟨st, hrun⟩
          · exact a1 x hx hxr
        · rw [a2]
          simp only [foldRoots, hroot, if_true, rootMarks, hrun]
          rfl
    · rename_i hroot
      obtain ⟨a1, a2⟩ := crRoots_fold ss _ m' h
      refine ⟨?_, ?_⟩
      · intro x hx hxr
        simp only [List.mem_cons] at hx
        rcases hx with rfl | hx
        · exact absurd hxr hroot
        · exact a1 x hx hxr
      · rw [a2]
        simp only [foldRoots, hroot]
        rfl

theorem crRoots_of_runs {σ : Schema} : ∀ (ss : List Struct) (m : Marks),
    (∀ s ∈ ss, s.isRoot = true → ∃ st, rootRun σ s = .ok st) →
    crRoots σ ss m = .ok (foldRoots (rootMarks σ) ss m)
  | [], m, _ => rfl
  | s :: ss, m, h => by
    unfold crRoots
    by_cases hroot : s.isRoot = true
    · rw [if_pos hroot, crRoots_root_eq]
      obtain ⟨st, hrun⟩ := h s (by simp) hroot
      simp only [hrun, emap]
      rw [crRoots_of_runs ss _ (fun x hx => h x (by simp [hx]))]
      simp only [foldRoots, hroot, if_true, rootMarks, hrun]
      rfl
    · rw [if_neg hroot]
      rw [crRoots_of_runs ss _ (fun x hx => h x (by simp [hx]))]
      simp only [foldRoots, hroot]
      rfl

theorem foldRoots_mem {α : Type} (p : Marks → List α) (hp : ∀ a b, p (a.app b) = p a ++ p b)
    (g : Struct → Marks) : ∀ (ss : List Struct) (m : Marks) (x : α),
      x ∈ p (foldRoots g ss m) ↔ x ∈ p m ∨ ∃ s ∈ ss, s.isRoot = true ∧ x ∈ p (g s)
  | [], m, x => by simp [foldRoots]
  | s :: ss, m, x => by
    unfold foldRoots
    rw [foldRoots_mem p hp g ss]
    by_cases hroot : s.isRoot = true
    · simp only [hroot, if_true, hp, List.mem_append, List.mem_cons, exists_eq_or_imp, true_and]
      constructor
      · rintro ((h | h) | h)
        · exact Or.inr (Or.inl h)
        · exact Or.inl h
        · exact Or.inr (Or.inr h)
      · rintro (h | h | h)
        · exact Or.inl (Or.inr h)
        · exact Or.inl (Or.inl h)
        · exact Or.inr h
    · simp only [hroot, List.mem_cons, exists_eq_or_imp]
      simp

def Marks.Eqv (a b : Marks) : Prop :=
  (∀ x, x ∈ a.structs ↔ x ∈ b.structs) ∧ (∀ x, x ∈ a.multimaps ↔ x ∈ b.multimaps) ∧
  (∀ x, x ∈ a.arrays ↔ x ∈ b.arrays)

theorem foldRoots_eqv {g g' : Struct → Marks} {ss ss' : List Struct} (m : Marks)
    (h1 : ∀ s, (s ∈ ss' ∧ s.isRoot = true) ↔ (s ∈ ss ∧ s.isRoot = true))
    (h2 : ∀ s ∈ ss, s.isRoot = true → g' s = g s) :
    (foldRoots g' ss' m).Eqv (foldRoots g ss m) := by
  have key : ∀ {α : Type} (p : Marks → List α), (∀ a b, p (a.app b) = p a ++ p b) →
      ∀ x, x ∈ p (foldRoots g' ss' m) ↔ x ∈ p (foldRoots g ss m) := by
    intro α p hp x
    rw [foldRoots_mem p hp, foldRoots_mem p hp]
    constructor
    · rintro (h | ⟨s, hs, hr, hx⟩)
      · exact Or.inl h
      · obtain ⟨hs', _⟩ := (h1 s).1 ⟨hs, hr⟩
        exact Or.inr ⟨s, hs', hr, by rw [← h2 s hs' hr]; exact hx⟩
    · rintro (h | ⟨s, hs, hr, hx⟩)
      · exact Or.inl h
      · obtain ⟨hs', _⟩ := (h1 s).2 ⟨hs, hr⟩
        exact Or.inr ⟨s, hs', hr, by rw [h2 s hs hr]; exact hx⟩
  exact ⟨key (·.structs) (fun _ _ => rfl), key (·.multimaps) (fun _ _ => rfl),
    key (·.arrays) (fun _ _ => rfl)⟩

/-! ### marking depends on the marks as sets; unmarking undoes it on flag-free definitions -/

theorem contains_congr {α : Type} [BEq α] [LawfulBEq α] {l l' : List α}
    (h : ∀ x, x ∈ l ↔ x ∈ l') (a : α) : l.contains a = l'.contains a := by
  rw [Bool.eq_iff_iff, List.contains_iff_mem, List.contains_iff_mem]
  exact h a

theorem applyMarksFields_congr {a b : Marks} (h : a.Eqv b) (isMM : Bool) (o : Name) :
    ∀ (tys : List FType) (i : Nat), applyMarksFields a isMM o tys i = applyMarksFields b isMM o tys i
  | [], i => rfl
  | ty :: rest, i => by
    simp only [applyMarksFields, applyMarksFields_congr h isMM o rest (i + 1),
      contains_congr h.2.2]

theorem markStruct_congr {a b : Marks} (h : a.Eqv b) (s : Struct) : markStruct a s = markStruct b s := by
  simp only [markStruct, applyMarksFields_congr h, contains_congr h.1]

theorem markMultimap_congr {a b : Marks} (h : a.Eqv b) (mm : Multimap) :
    markMultimap a mm = markMultimap b mm := by
  simp only [markMultimap, applyMarksFields_congr h, contains_congr h.2.1]

theorem unmark_zip (m : Marks) (isMM : Bool) (o : Name) : ∀ (fs : List Field) (i : Nat),
    (∀ f ∈ fs, f.ty.NoFlag) →
    (zipFieldTypes fs (applyMarksFields m isMM o (fs.map (·.ty)) i)).map unmarkField = fs
  | [], i, _ => rfl
  | f :: fs, i, h => by
    simp only [List.map_cons, applyMarksFields, zipFieldTypes]
    rw [unmark_zip m isMM o fs (i + 1) (fun x hx => h x (by simp [hx]))]
    congr 1
    have hf := h f (by simp)
    cases f with
    | mk name ty opt =>
      cases ty with
      | base b => rfl
      | array e d r =>
        simp only [FType.NoFlag] at hf
        subst hf
        rfl

theorem unmark_markStruct (m : Marks) {s : Struct} (hr : s.recursive = false)
    (ht : ∀ ty ∈ s.types, ty.NoFlag) : unmarkStruct (markStruct m s) = s := by
  cases s with
  | mk name oneOf dict isRoot fields recursive =>
    simp only at hr
    subst hr
    simp only [unmarkStruct, markStruct, Struct.types]
    rw [unmark_zip m false name fields 0 (fun f hf => ht f.ty (by simp [Struct.types]; exact ⟨f, hf, rfl⟩))]

theorem unmark_markMultimap (m : Marks) {mm : Multimap} (hr : mm.recursive = false)
    (ht : ∀ ty ∈ mm.types, ty.NoFlag) : unmarkMultimap (markMultimap m mm) = mm := by
  cases mm with
  | mk name key value recursive =>
    simp only at hr
    subst hr
    have hk := ht key (by simp [Multimap.types])
    have hv := ht value (by simp [Multimap.types])
    cases key <;> cases value <;> simp only [FType.NoFlag] at hk hv <;>
      (try subst hk) <;> (try subst hv) <;> rfl

/-! ### (b5) what a traversal marks: the back edges it finds -/

/-- one recursion mark. -/
inductive MK
  | s (n : Name)
  | m (n : Name)
  | a (isMM : Bool) (o : Name) (i : Nat)

def Marks.has (M : Marks) : MK → Prop
  | .s n => n ∈ M.structs
  | .m n => n ∈ M.multimaps
  | .a b o i => (b, o, i) ∈ M.arrays

/-- the mark `SetRecursive` sets on a frame (when it does not panic). -/
def mkOf (f : Frame) : MK :=
  match f.ty with
  | .array _ _ _ => .a f.isMM f.owner f.idx
  | .base b => if b.struct ≠ [] then .s b.struct else .m b.multimap

theorem Marks.has_app (a b : Marks) (x : MK) : (a.app b).has x ↔ a.has x ∨ b.has x := by
  cases x <;> simp [Marks.has, Marks.app]

theorem setRecursive_has {f : Frame} {m m' : Marks} (h : setRecursive f m = .ok m') (x : MK) :
    m'.has x ↔ m.has x ∨ x = mkOf f := by
  unfold setRecursive at h
  unfold mkOf
  cases hty : f.ty with
  | array e d r =>
    rw [hty] at h
    simp only [Except.ok.injEq] at h
    subst h
    cases x <;> simp [Marks.has]
    rename_i b o i
    constructor
    · rintro (⟨h1, h2, h3⟩ | h)
      · exact Or.inr ⟨h1, h2, h3⟩
      · exact Or.inl h
    · rintro (h | ⟨h1, h2, h3⟩)
      · exact Or.inr h
      · exact Or.inl ⟨h1, h2, h3⟩
  | base b =>
    rw [hty] at h
    simp only at h
    split at h
    · cases h
    · split at h
      · rename_i hs
        simp only [Except.ok.injEq] at h
        subst h
        simp only [hs, ne_eq, not_false_eq_true, if_true]
        cases x <;> simp [Marks.has]
        rename_i n
        constructor
        · rintro (h | h)
          · exact Or.inr h
          · exact Or.inl h
        · rintro (h | h)
          · exact Or.inr h
          · exact Or.inl h
      · rename_i hs
        split at h
        · simp only [Except.ok.injEq] at h
          subst h
          simp only [hs, if_false]
          cases x <;> simp [Marks.has]
          rename_i n
          constructor
          · rintro (h | h)
            · exact Or.inr h
            · exact Or.inl h
          · rintro (h | h)
            · exact Or.inr h
            · exact Or.inl h
        · cases h

theorem setRecursiveAll_has : ∀ (fs : List Frame) (m m' : Marks), setRecursiveAll fs m = .ok m' →
    ∀ x, m'.has x ↔ m.has x ∨ ∃ f ∈ fs, x = mkOf f
  | [], m, m', h, x => by simp [setRecursiveAll] at h; subst h; simp
  | f :: fs, m, m', h, x => by
    unfold setRecursiveAll at h
    split at h
    · cases h
    · rename_i m1 h1
      rw [setRecursiveAll_has fs m1 m' h x, setRecursive_has h1 x]
      simp only [List.mem_cons, exists_eq_or_imp]
      constructor
      · rintro ((h | h) | h)
        · exact Or.inl h
        · exact Or.inr (Or.inl h)
        · exact Or.inr (Or.inr h)
      · rintro (h | h | h)
        · exact Or.inl (Or.inl h)
        · exact Or.inl (Or.inr h)
        · exact Or.inr h

theorem markRecursive_has {n : Name} {st st' : RSt} (h : markRecursive n st = .ok st') :
    st'.asStack = st.asStack ∧ st'.fields = st.fields ∧
    ∃ i, findLast st.asStack n = some i ∧
      ∀ x, st'.marks.has x ↔ st.marks.has x ∨ ∃ f ∈ st.fields.drop i, x = mkOf f := by
  unfold markRecursive at h
  split at h
  · cases h
  · rename_i i hi
    split at h
    · cases h
    · rename_i m hm
      cases h
      exact ⟨rfl, rfl, i, hi, setRecursiveAll_has _ _ _ hm⟩

/-- `Finds σ S Fr b x`: the traversal that stands at a field of type `b` with stack `S` and
    frames `Fr` sets the mark `x` (it walks down a simple path and meets a name on its stack). -/
inductive Finds (σ : Schema) : List Name → List Frame → BaseType → MK → Prop
  | backS {S : List Name} {Fr : List Frame} {b : BaseType} {i : Nat} {f : Frame} :
      b.prim.isSome = false → b.struct ≠ [] → S.contains b.struct = true →
      findLast S b.struct = some i → f ∈ Fr.drop i → Finds σ S Fr b (mkOf f)
  | downS {S : List Name} {Fr : List Frame} {b : BaseType} {s : Struct} {j : Nat} {ty : FType}
      {x : MK} :
      b.prim.isSome = false → b.struct ≠ [] → S.contains b.struct = false →
      σ.findStruct b.struct = some s → s.types[j]? = some ty →
      Finds σ (S ++ [s.name]) (Fr ++ [⟨false, s.name, j, ty⟩]) ty.inner x → Finds σ S Fr b x
  | backM {S : List Name} {Fr : List Frame} {b : BaseType} {i : Nat} {f : Frame} :
      b.prim.isSome = false → b.struct = [] → b.multimap ≠ [] → S.contains b.multimap = true →
      findLast S b.multimap = some i → f ∈ Fr.drop i → Finds σ S Fr b (mkOf f)
  | downM {S : List Name} {Fr : List Frame} {b : BaseType} {mm : Multimap} {j : Nat} {ty : FType}
      {x : MK} :
      b.prim.isSome = false → b.struct = [] → b.multimap ≠ [] → S.contains b.multimap = false →
      σ.findMultimap b.multimap = some mm → mm.types[j]? = some ty →
      Finds σ (S ++ [mm.name]) (Fr ++ [⟨true, mm.name, j, ty⟩]) ty.inner x → Finds σ S Fr b x

def CrSpec (σ : Schema) (rec : BaseType → RSt → Except PanicSite RSt) : Prop :=
  ∀ b st st', rec b st = .ok st' → st'.asStack = st.asStack ∧ st'.fields = st.fields ∧
    ∀ x, st'.marks.has x ↔ st.marks.has x ∨ Finds σ st.asStack st.fields b x

theorem crFields_spec {σ : Schema} {rec : BaseType → RSt → Except PanicSite RSt}
    (hrec : CrSpec σ rec) (isMM : Bool) (owner : Name) :
    ∀ (tys : List FType) (i : Nat) (st st' : RSt), crFields rec isMM owner tys i st = .ok st' →
      st'.asStack = st.asStack ∧ st'.fields = st.fields ∧
      ∀ x, st'.marks.has x ↔ st.marks.has x ∨ ∃ k ty, tys[k]? = some ty ∧
        Finds σ st.asStack (st.fields ++ [⟨isMM, owner, i + k, ty⟩]) ty.inner x
  | [], i, st, st', h => by
    simp [crFields] at h; subst h
    exact ⟨rfl, rfl, by simp⟩
  | ty :: rest, i, st, st', h => by
    unfold crFields at h
    split at h
    · cases h
    · rename_i st2 h2
      obtain ⟨a1, a2, a3⟩ := hrec _ _ _ h2
      simp only at a1 a2 a3
      obtain ⟨b1, b2, b3⟩ := crFields_spec hrec isMM owner rest (i + 1) _ st' h
      simp only at b1 b2 b3
      have hdl : st2.fields.dropLast = st.fields := by rw [a2]; simp
      rw [hdl] at b2 b3
      rw [a1] at b1 b3
      refine ⟨b1, b2, ?_⟩
      intro x
      rw [b3 x, a3 x]
      constructor
      · rintro ((h | h) | ⟨k, ty', hk, hf⟩)
        · exact Or.inl h
        · exact Or.inr ⟨0, ty, by simp, by simpa using h⟩
        · refine Or.inr ⟨k + 1, ty', by simpa using hk, ?_⟩
          have : i + (k + 1) = i + 1 + k := by omega
          rw [this]; exact hf
      · rintro (h | ⟨k, ty', hk, hf⟩)
        · exact Or.inl (Or.inl h)
        · cases k with
          | zero =>
            simp only [List.getElem?_cons_zero, Option.some.injEq] at hk
            subst hk
            exact Or.inl (Or.inr (by simpa using hf))
          | succ k =>
            refine Or.inr ⟨k, ty', by simpa using hk, ?_⟩
            have : i + (k + 1) = i + 1 + k := by omega
            rw [← this]; exact hf

theorem crEnter_spec {σ : Schema} {rec : BaseType → RSt → Except PanicSite RSt}
    (hrec : CrSpec σ rec) (isMM : Bool) (name : Name) (tys : List FType) (st st' : RSt)
    (h : crEnter rec isMM name tys st = .ok st') :
    st'.asStack = st.asStack ∧ st'.fields = st.fields ∧
    ∀ x, st'.marks.has x ↔ st.marks.has x ∨ ∃ k ty, tys[k]? = some ty ∧
      Finds σ (st.asStack ++ [name]) (st.fields ++ [⟨isMM, name, k, ty⟩]) ty.inner x := by
  unfold crEnter at h
  split at h
  · cases h
  · rename_i st2 h2
    cases h
    obtain ⟨a1, a2, a3⟩ := crFields_spec hrec isMM name tys 0 _ _ h2
    simp only at a1 a2 a3
    refine ⟨by simp [a1], a2, ?_⟩
    intro x
    rw [a3 x]
    simp only [Nat.zero_add]

theorem findLastGo_mem (n : Name) : ∀ (l : List Name) (i : Nat) (acc : Option Nat) (j : Nat),
    findLastGo n l i acc = some j → acc = some j ∨ (i ≤ j ∧ l[j - i]? = some n)
  | [], i, acc, j, h => Or.inl h
  | x :: xs, i, acc, j, h => by
    unfold findLastGo at h
    rcases findLastGo_mem n xs (i + 1) _ j h with h1 | ⟨h1, h2⟩
    · by_cases hx : x = n
      · simp only [hx, if_true, Option.some.injEq] at h1
        subst h1
        exact Or.inr ⟨Nat.le_refl _, by simp [hx]⟩
      · simp only [hx, if_false] at h1
        exact Or.inl h1
    · refine Or.inr ⟨by omega, ?_⟩
      have : j - i = (j - (i + 1)) + 1 := by omega
      rw [this, List.getElem?_cons_succ]
      exact h2

theorem findLast_get {S : List Name} {n : Name} {i : Nat} (h : findLast S n = some i) :
    S[i]? = some n := by
  rcases findLastGo_mem n S 0 none i h with h1 | ⟨_, h2⟩
  · cases h1
  · simpa using h2

theorem crType_spec (σ : Schema) : ∀ fuel, CrSpec σ (crType σ fuel)
  | 0 => by intro b st st' h; simp [crType] at h
  | fuel + 1 => by
    intro b st st' h
    have ih := crType_spec σ fuel
    unfold crType at h
    split at h
    · rename_i hp
      cases h
      refine ⟨rfl, rfl, fun x => ⟨Or.inl, ?_⟩⟩
      rintro (h | h)
      · exact h
      · cases h <;> simp_all
    · rename_i hp
      have hp' : b.prim.isSome = false := by simpa using hp
      split at h
      · rename_i hs
        split at h
        · rename_i hc
          obtain ⟨a1, a2, i, hi, a3⟩ := markRecursive_has h
          refine ⟨a1, a2, ?_⟩
          intro x
          rw [a3 x]
          constructor
          · rintro (h | ⟨f, hf, rfl⟩)
            · exact Or.inl h
            · exact Or.inr (Finds.backS hp' hs hc hi hf)
          · rintro (h | h)
            · exact Or.inl h
            · cases h with
              | backS _ _ _ hi' hf =>
                rw [hi] at hi'; cases hi'
                exact Or.inr ⟨_, hf, rfl⟩
              | downS _ _ hc' _ _ _ => rw [hc] at hc'; cases hc'
              | backM _ hs' _ _ _ _ => exact absurd hs' hs
              | downM _ hs' _ _ _ _ _ => exact absurd hs' hs
        · rename_i hc
          have hc' : st.asStack.contains b.struct = false := by simpa using hc
          split at h
          · cases h
          · rename_i s hf
            obtain ⟨a1, a2, a3⟩ := crEnter_spec ih false s.name s.types st st' h
            refine ⟨a1, a2, ?_⟩
            intro x
            rw [a3 x]
            constructor
            · rintro (h | ⟨k, ty, hk, hF⟩)
              · exact Or.inl h
              · exact Or.inr (Finds.downS hp' hs hc' hf hk hF)
            · rintro (h | h)
              · exact Or.inl h
              · cases h with
                | backS _ _ hc'' _ _ => rw [hc'] at hc''; cases hc''
                | downS _ _ _ hf' hk hF =>
                  rw [hf] at hf'; cases hf'
                  exact Or.inr ⟨_, _, hk, hF⟩
                | backM _ hs' _ _ _ _ => exact absurd hs' hs
                | downM _ hs' _ _ _ _ _ => exact absurd hs' hs
      · rename_i hs
        have hs' : b.struct = [] := by simpa using hs
        split at h
        · rename_i hm
          split at h
          · rename_i hc
            obtain ⟨a1, a2, i, hi, a3⟩ := markRecursive_has h
            refine ⟨a1, a2, ?_⟩
            intro x
            rw [a3 x]
            constructor
            · rintro (h | ⟨f, hf, rfl⟩)
              · exact Or.inl h
              · exact Or.inr (Finds.backM hp' hs' hm hc hi hf)
            · rintro (h | h)
              · exact Or.inl h
              · cases h with
                | backS _ hs'' _ _ _ => exact absurd hs' hs''
                | downS _ hs'' _ _ _ _ => exact absurd hs' hs''
                | backM _ _ _ _ hi' hf =>
                  rw [hi] at hi'; cases hi'
                  exact Or.inr ⟨_, hf, rfl⟩
                | downM _ _ _ hc' _ _ _ => rw [hc] at hc'; cases hc'
          · rename_i hc
            have hc' : st.asStack.contains b.multimap = false := by simpa using hc
            split at h
            · cases h
            · rename_i mm hf
              obtain ⟨a1, a2, a3⟩ := crEnter_spec ih true mm.name mm.types st st' h
              refine ⟨a1, a2, ?_⟩
              intro x
              rw [a3 x]
              constructor
              · rintro (h | ⟨k, ty, hk, hF⟩)
                · exact Or.inl h
                · exact Or.inr (Finds.downM hp' hs' hm hc' hf hk hF)
              · rintro (h | h)
                · exact Or.inl h
                · cases h with
                  | backS _ hs'' _ _ _ => exact absurd hs' hs''
                  | downS _ hs'' _ _ _ _ => exact absurd hs' hs''
                  | backM _ _ _ hc'' _ _ => rw [hc'] at hc''; cases hc''
                  | downM _ _ _ _ hf' hk hF =>
                    rw [hf] at hf'; cases hf'
                    exact Or.inr ⟨_, _, hk, hF⟩
        · cases h

/-! ### (b6) paths of frames; a found mark lies on a lasso (simple path + back edge) -/

/-- `f` is field `idx` (key/value) of the definition named `owner`, with its type. -/
def FrameOk (σ : Schema) (f : Frame) : Prop :=
  (f.isMM = false ∧ ∃ s, σ.findStruct f.owner = some s ∧ s.types[f.idx]? = some f.ty) ∨
  (f.isMM = true ∧ ∃ mm, σ.findMultimap f.owner = some mm ∧ mm.types[f.idx]? = some f.ty)

/-- `b` refers to the struct (`isMM = false`) / multimap (`isMM = true`) named `n`, the way
    `computeRecursiveType` reads it. -/
def RefTo (b : BaseType) (isMM : Bool) (n : Name) : Prop :=
  b.prim.isSome = false ∧
  ((b.struct ≠ [] ∧ isMM = false ∧ n = b.struct) ∨
   (b.struct = [] ∧ b.multimap ≠ [] ∧ isMM = true ∧ n = b.multimap))

def Link (l h : Frame) : Prop := RefTo l.ty.inner h.isMM h.owner

/-- consecutive frames: each one is a field of the definition the previous one refers to. -/
def ChainFrom (σ : Schema) : Option Frame → List Frame → Prop
  | _, [] => True
  | prev, f :: rest => FrameOk σ f ∧ (∀ l, prev = some l → Link l f) ∧ ChainFrom σ (some f) rest

def lastOr : Option Frame → List Frame → Option Frame
  | p, [] => p
  | _, f :: rest => lastOr (some f) rest

theorem lastOr_append : ∀ (A B : List Frame) (p : Option Frame),
    lastOr p (A ++ B) = lastOr (lastOr p A) B
  | [], B, p => rfl
  | a :: A, B, p => by simp only [List.cons_append, lastOr]; exact lastOr_append A B _

theorem lastOr_some : ∀ (A : List Frame) (c : Frame), ∃ l, lastOr (some c) A = some l
  | [], c => ⟨c, rfl⟩
  | a :: A, _ => lastOr_some A a

theorem lastOr_mem : ∀ (A : List Frame) (l : Frame), lastOr none A = some l → l ∈ A
  | [], l, h => by simp [lastOr] at h
  | a :: A, l, h => by
    cases A with
    | nil => simp [lastOr] at h; simp [h]
    | cons b B =>
      have : lastOr none (b :: B) = some l := h
      exact List.mem_cons_of_mem _ (lastOr_mem (b :: B) l this)

theorem chainFrom_append {σ : Schema} : ∀ (A B : List Frame) (p : Option Frame),
    ChainFrom σ p (A ++ B) ↔ ChainFrom σ p A ∧ ChainFrom σ (lastOr p A) B
  | [], B, p => by simp [ChainFrom, lastOr]
  | a :: A, B, p => by
    simp only [List.cons_append, ChainFrom, lastOr, chainFrom_append A B (some a), and_assoc]

theorem chainFrom_frameOk {σ : Schema} : ∀ (A : List Frame) (p : Option Frame),
    ChainFrom σ p A → ∀ f ∈ A, FrameOk σ f
  | [], _, _, f, hf => by simp at hf
  | a :: A, p, h, f, hf => by
    simp only [List.mem_cons] at hf
    rcases hf with rfl | hf
    · exact h.1
    · exact chainFrom_frameOk A _ h.2.2 f hf

theorem chainFrom_weaken {σ : Schema} : ∀ (A : List Frame) (p : Option Frame),
    ChainFrom σ p A → ChainFrom σ none A
  | [], _, _ => trivial
  | a :: A, p, h => And.intro h.1 (And.intro (fun l hl => by cases hl) h.2.2)

theorem frame_res3 {σ : Schema} (hres : ∀ ty ∈ σ.allTypes, ty.inner.Res3 σ) {f : Frame}
    (hf : FrameOk σ f) : f.ty.inner.Res3 σ := by
  rcases hf with ⟨_, s, hs, hk⟩ | ⟨_, mm, hs, hk⟩
  · exact hres _ (mem_allTypes.2 (Or.inl ⟨s, (findStruct_spec hs).1, List.mem_of_getElem? hk⟩))
  · exact hres _ (mem_allTypes.2 (Or.inr ⟨mm, (findMultimap_spec hs).1, List.mem_of_getElem? hk⟩))

/-- a name is a struct or a multimap, not both: the kind of a frame is determined by its owner. -/
theorem kind_of_ref {σ : Schema} (hd : Disjoint σ) {b : BaseType} (hres : b.Res3 σ) {k : Bool}
    {n : Name} (hr : RefTo b k n) {c : Frame} (hc : FrameOk σ c) (ho : c.owner = n) : c.isMM = k := by
  have hl := res3_lookup hres
  rcases hr with ⟨_, ⟨hs, hk, hn⟩ | ⟨hs, hm, hk, hn⟩⟩
  · subst hk hn
    rcases hc with ⟨h1, _⟩ | ⟨_, mm, hmm, _⟩
    · exact h1
    · exfalso
      have := hl.1 hs
      cases hfs : σ.findStruct b.struct with
      | none => simp [hfs] at this
      | some s => rw [ho] at hmm; exact hd _ _ _ hfs hmm
  · subst hk hn
    rcases hc with ⟨_, s, hss, _⟩ | ⟨h1, _⟩
    · exfalso
      have := hl.2 hs hm
      cases hfs : σ.findMultimap b.multimap with
      | none => simp [hfs] at this
      | some mm => rw [ho] at hss; exact hd _ _ _ hss hfs
    · exact h1

theorem kind_same {σ : Schema} (hd : Disjoint σ) {c c' : Frame} (hc : FrameOk σ c)
    (hc' : FrameOk σ c') (ho : c.owner = c'.owner) : c.isMM = c'.isMM := by
  rcases hc with ⟨h1, s, hs, _⟩ | ⟨h1, mm, hm, _⟩ <;> rcases hc' with ⟨h2, s', hs', _⟩ | ⟨h2, mm', hm', _⟩
  · rw [h1, h2]
  · exfalso; rw [ho] at hs; exact hd _ _ _ hs hm'
  · exfalso; rw [ho] at hm; exact hd _ _ _ hs' hm
  · rw [h1, h2]

/-- a simple path of frames `A ++ C` whose last frame refers back to the head of `C`. -/
def Lasso (σ : Schema) (A C : List Frame) : Prop :=
  ChainFrom σ none (A ++ C) ∧ ((A ++ C).map (·.owner)).Nodup ∧
  ∃ c C' l, C = c :: C' ∧ lastOr none C = some l ∧ Link l c

theorem findLastGo_notin (n : Name) : ∀ (l : List Name) (i : Nat) (acc : Option Nat), n ∉ l →
    findLastGo n l i acc = acc
  | [], i, acc, _ => rfl
  | x :: xs, i, acc, h => by
    simp only [List.mem_cons, not_or] at h
    unfold findLastGo
    rw [findLastGo_notin n xs (i + 1) _ h.2]
    simp [Ne.symm h.1]

theorem findLastGo_split (n : Name) : ∀ (l1 l2 : List Name) (i : Nat) (acc : Option Nat), n ∉ l2 →
    findLastGo n (l1 ++ n :: l2) i acc = some (i + l1.length)
  | [], l2, i, acc, h => by
    simp only [List.nil_append, findLastGo, if_true, List.length_nil, Nat.add_zero]
    exact findLastGo_notin n l2 _ _ h
  | x :: l1, l2, i, acc, h => by
    simp only [List.cons_append, findLastGo, List.length_cons]
    rw [findLastGo_split n l1 l2 (i + 1) _ h]
    congr 1; omega

theorem findLast_nodup {l1 l2 : List Name} {n : Name} (h : (l1 ++ n :: l2).Nodup) :
    findLast (l1 ++ n :: l2) n = some l1.length := by
  have hn : n ∉ l2 := by
    rw [List.nodup_append] at h
    exact (List.nodup_cons.1 h.2.1).1
  unfold findLast
  rw [findLastGo_split n l1 l2 0 none hn]
  simp

theorem finds_lasso {σ : Schema} (hd : Disjoint σ) (hres : ∀ ty ∈ σ.allTypes, ty.inner.Res3 σ)
    {S : List Name} {Fr : List Frame} {b : BaseType} {x : MK} (hF : Finds σ S Fr b x) :
    S = Fr.map (·.owner) → S.Nodup → ChainFrom σ none Fr →
    (∃ l, lastOr none Fr = some l ∧ l.ty.inner = b) →
    ∃ Q A C f, Fr ++ Q = A ++ C ∧ Lasso σ A C ∧ f ∈ C ∧ x = mkOf f := by
  induction hF with
  | @backS S Fr b i f hp hs hc hi hf =>
    intro hS hnd hch ⟨l, hl, hlb⟩
    have hget := findLast_get hi
    rw [hS, List.getElem?_map] at hget
    cases hci : Fr[i]? with
    | none => simp [hci] at hget
    | some c =>
      simp only [hci, Option.map_some, Option.some.injEq] at hget
      obtain ⟨hlt, hcv⟩ := List.getElem?_eq_some_iff.1 hci
      have hdrop : Fr.drop i = c :: Fr.drop (i + 1) := by
        rw [List.drop_eq_getElem_cons hlt, hcv]
      have hsplit : Fr.take i ++ (c :: Fr.drop (i + 1)) = Fr := by
        rw [← hdrop]; exact List.take_append_drop i Fr
      have hlC : lastOr none (c :: Fr.drop (i + 1)) = some l := by
        have := hl
        rw [← hsplit, lastOr_append] at this
        exact this
      have hfo := chainFrom_frameOk _ _ hch
      have hlres : b.Res3 σ := by
        rw [← hlb]; exact frame_res3 hres (hfo l (lastOr_mem _ _ hl))
      have hcm : c ∈ Fr := List.mem_of_getElem? hci
      have hkind : c.isMM = false :=
        kind_of_ref hd hlres (k := false) ⟨hp, Or.inl ⟨hs, rfl, rfl⟩⟩ (hfo c hcm) hget
      refine ⟨[], Fr.take i, c :: Fr.drop (i + 1), f, by simp [hsplit], ?_, by rw [← hdrop]; exact hf, rfl⟩
      refine ⟨by rw [hsplit]; exact hch, by rw [hsplit, ← hS]; exact hnd, c, _, l, rfl, hlC, ?_⟩
      show RefTo l.ty.inner c.isMM c.owner
      rw [hlb, hkind, hget]
      exact ⟨hp, Or.inl ⟨hs, rfl, rfl⟩⟩
  | @downS S Fr b s j ty x hp hs hc hf hk _ ih =>
    intro hS hnd hch ⟨l, hl, hlb⟩
    have hsn := (findStruct_spec hf).2
    have hnot : s.name ∉ S := by rw [hsn]; simpa using hc
    obtain ⟨Q, A, C, f, h1, h2, h3, h4⟩ := ih (by simp [hS])
      (by
        rw [List.nodup_append]
        refine ⟨hnd, by simp, ?_⟩
        intro a ha b' hb'
        simp only [List.mem_singleton] at hb'
        subst hb'
        intro hab; subst hab; exact hnot ha)
      (by
        rw [chainFrom_append]
        refine ⟨hch, ?_, ?_, trivial⟩
        · exact Or.inl ⟨rfl, s, by show σ.findStruct s.name = some s; rw [hsn]; exact hf, hk⟩
        · intro l' hl'
          rw [hl] at hl'; cases hl'
          show RefTo l.ty.inner false s.name
          rw [hlb]
          exact ⟨hp, Or.inl ⟨hs, rfl, hsn⟩⟩)
      (Exists.intro (Frame.mk false s.name j ty) ⟨by rw [lastOr_append]; rfl, rfl⟩)
    exact ⟨Frame.mk false s.name j ty :: Q, A, C, f, by rw [← h1]; simp, h2, h3, h4⟩
  | @backM S Fr b i f hp hs hm hc hi hf =>
    intro hS hnd hch ⟨l, hl, hlb⟩
    have hget := findLast_get hi
    rw [hS, List.getElem?_map] at hget
    cases hci : Fr[i]? with
    | none => simp [hci] at hget
    | some c =>
      simp only [hci, Option.map_some, Option.some.injEq] at hget
      obtain ⟨hlt, hcv⟩ := List.getElem?_eq_some_iff.1 hci
      have hdrop : Fr.drop i = c :: Fr.drop (i + 1) := by
        rw [List.drop_eq_getElem_cons hlt, hcv]
      have hsplit : Fr.take i ++ (c :: Fr.drop (i + 1)) = Fr := by
        rw [← hdrop]; exact List.take_append_drop i Fr
      have hlC : lastOr none (c :: Fr.drop (i + 1)) = some l := by
        have := hl
        rw [← hsplit, lastOr_append] at this
        exact this
      have hfo := chainFrom_frameOk _ _ hch
      have hlres : b.Res3 σ := by
        rw [← hlb]; exact frame_res3 hres (hfo l (lastOr_mem _ _ hl))
      have hcm : c ∈ Fr := List.mem_of_getElem? hci
      have hkind : c.isMM = true :=
        kind_of_ref hd hlres (k := true) ⟨hp, Or.inr ⟨hs, hm, rfl, rfl⟩⟩ (hfo c hcm) hget
      refine ⟨[], Fr.take i, c :: Fr.drop (i + 1), f, by simp [hsplit], ?_, by rw [← hdrop]; exact hf, rfl⟩
      refine ⟨by rw [hsplit]; exact hch, by rw [hsplit, ← hS]; exact hnd, c, _, l, rfl, hlC, ?_⟩
      show RefTo l.ty.inner c.isMM c.owner
      rw [hlb, hkind, hget]
      exact ⟨hp, Or.inr ⟨hs, hm, rfl, rfl⟩⟩
  | @downM S Fr b mm j ty x hp hs hm hc hf hk _ ih =>
    intro hS hnd hch ⟨l, hl, hlb⟩
    have hsn := (findMultimap_spec hf).2
    have hnot : mm.name ∉ S := by rw [hsn]; simpa using hc
    obtain ⟨Q, A, C, f, h1, h2, h3, h4⟩ := ih (by simp [hS])
      (by
        rw [List.nodup_append]
        refine ⟨hnd, by simp, ?_⟩
        intro a ha b' hb'
        simp only [List.mem_singleton] at hb'
        subst hb'
        intro hab; subst hab; exact hnot ha)
      (by
        rw [chainFrom_append]
        refine ⟨hch, ?_, ?_, trivial⟩
        · exact Or.inr ⟨rfl, mm, by show σ.findMultimap mm.name = some mm; rw [hsn]; exact hf, hk⟩
        · intro l' hl'
          rw [hl] at hl'; cases hl'
          show RefTo l.ty.inner true mm.name
          rw [hlb]
          exact ⟨hp, Or.inr ⟨hs, hm, rfl, hsn⟩⟩)
      (Exists.intro (Frame.mk true mm.name j ty) ⟨by rw [lastOr_append]; rfl, rfl⟩)
    exact ⟨Frame.mk true mm.name j ty :: Q, A, C, f, by rw [← h1]; simp, h2, h3, h4⟩

theorem lasso_finds {σ : Schema} {A C : List Frame} {f : Frame} (hL : Lasso σ A C) (hf : f ∈ C) :
    ∀ (Q Fr : List Frame) (l : Frame), Fr ++ Q = A ++ C → lastOr none Fr = some l →
      Finds σ (Fr.map (·.owner)) Fr l.ty.inner (mkOf f)
  | [], Fr, l, h, hl => by
    simp only [List.append_nil] at h
    subst h
    obtain ⟨hch, hnd, c, C', l', rfl, hl', hlink⟩ := hL
    have e : lastOr none (A ++ c :: C') = lastOr none (c :: C') := by rw [lastOr_append]; rfl
    rw [e, hl'] at hl; cases hl
    have hS : (A ++ c :: C').map (·.owner) = A.map (·.owner) ++ c.owner :: C'.map (·.owner) := by simp
    have hi : findLast ((A ++ c :: C').map (·.owner)) c.owner = some A.length := by
      rw [hS]; rw [hS] at hnd
      have := findLast_nodup hnd
      simpa using this
    have hdrop : (A ++ c :: C').drop A.length = c :: C' := List.drop_left
    have hmem : ((A ++ c :: C').map (·.owner)).contains c.owner = true := by simp
    rcases hlink with ⟨hp, ⟨hs, hk, hn⟩ | ⟨hs, hm, hk, hn⟩⟩
    · rw [hn] at hi hmem
      exact Finds.backS hp hs hmem hi (by rw [hdrop]; exact hf)
    · rw [hn] at hi hmem
      exact Finds.backM hp hs hm hmem hi (by rw [hdrop]; exact hf)
  | q :: Q, Fr, l, h, hl => by
    have hch := hL.1
    rw [← h, chainFrom_append] at hch
    obtain ⟨_, hq, hlq, _⟩ := hch
    have hlink := hlq l hl
    have hnd := hL.2.1
    rw [← h] at hnd
    have hnotin : q.owner ∉ Fr.map (·.owner) := by
      simp only [List.map_append, List.map_cons] at hnd
      rw [List.nodup_append] at hnd
      intro hin
      exact hnd.2.2 _ hin _ (by simp) rfl
    have ih := lasso_finds hL hf Q (Fr ++ [q]) q (by simp [← h]) (by rw [lastOr_append]; rfl)
    rw [List.map_append] at ih
    obtain ⟨qm, qo, qi, qt⟩ := q
    simp only [List.map_cons, List.map_nil] at ih hnotin
    rcases hlink with ⟨hp, ⟨hs, hk, hn⟩ | ⟨hs, hm, hk, hn⟩⟩
    · simp only at hk hn
      subst hk hn
      rcases hq with ⟨_, s, hfs, hty⟩ | ⟨hk', _⟩
      · simp only at hfs hty
        have hsn := (findStruct_spec hfs).2
        rw [← hsn] at ih
        exact Finds.downS hp hs (by simpa using hnotin) hfs hty ih
      · simp at hk'
    · simp only at hk hn
      subst hk hn
      rcases hq with ⟨hk', _⟩ | ⟨_, mm, hfs, hty⟩
      · simp at hk'
      · simp only at hfs hty
        have hsn := (findMultimap_spec hfs).2
        rw [← hsn] at ih
        exact Finds.downM hp hs hm (by simpa using hnotin) hfs hty ih

/-! ### (b7) a lasso can be re-rooted at any root that reaches its loop -/

theorem first_hit (P : Frame → Prop) : ∀ (G : List Frame), (∃ g ∈ G, P g) →
    ∃ W h T, G = W ++ h :: T ∧ P h ∧ ∀ w ∈ W, ¬ P w
  | [], ⟨g, hg, _⟩ => by simp at hg
  | a :: G, ⟨g, hg, hP⟩ => by
    by_cases ha : P a
    · exact ⟨[], a, G, rfl, ha, by simp⟩
    · simp only [List.mem_cons] at hg
      rcases hg with rfl | hg
      · exact absurd hP ha
      · obtain ⟨W, h, T, e, hh, hW⟩ := first_hit P G ⟨g, hg, hP⟩
        refine ⟨a :: W, h, T, by simp [e], hh, ?_⟩
        intro w hw
        simp only [List.mem_cons] at hw
        rcases hw with rfl | hw
        · exact ha
        · exact hW w hw

theorem lasso_loop_chain {σ : Schema} {A C : List Frame} (hL : Lasso σ A C) : ChainFrom σ none C := by
  have := hL.1
  rw [chainFrom_append] at this
  exact chainFrom_weaken _ _ this.2

theorem lasso_succ {σ : Schema} {A C : List Frame} (hL : Lasso σ A C) {f : Frame} (hf : f ∈ C) :
    ∃ g ∈ C, Link f g := by
  have hch := lasso_loop_chain hL
  obtain ⟨_, _, c, C', l, hC, hl, hlink⟩ := hL
  obtain ⟨C1, T, e⟩ := List.append_of_mem hf
  cases T with
  | nil =>
    have : lastOr none C = some f := by rw [e, lastOr_append]; rfl
    rw [hl] at this; cases this
    exact ⟨c, by rw [hC]; simp, hlink⟩
  | cons g T' =>
    rw [e, chainFrom_append] at hch
    have h2 := hch.2
    have h3 : ChainFrom σ (some f) (g :: T') := h2.2.2
    exact ⟨g, by rw [e]; simp, h3.2.1 f rfl⟩

theorem lasso_reroot {σ : Schema} {A C : List Frame} (hL : Lasso σ A C) {c' : Frame} (hc' : c' ∈ C)
    {W : List Frame} (hW : ChainFrom σ none W) (hWnd : (W.map (·.owner)).Nodup)
    (hdisj : ∀ w ∈ W, ∀ g ∈ C, w.owner ≠ g.owner)
    (hend : ∀ l, lastOr none W = some l → Link l c') :
    ∃ T, Lasso σ W (c' :: T) ∧ ∀ f, f ∈ C → f ∈ c' :: T := by
  have hch := lasso_loop_chain hL
  obtain ⟨_, hnd, c, C', l, hC, hl, hlink⟩ := hL
  obtain ⟨C1, T2, e⟩ := List.append_of_mem hc'
  have hndC : (C.map (·.owner)).Nodup := by
    rw [List.map_append, List.nodup_append] at hnd
    exact hnd.2.1
  rw [e, chainFrom_append] at hch
  obtain ⟨hch1, hch2⟩ := hch
  have hlast : lastOr (some c') T2 = some l := by
    rw [← hl, e, lastOr_append]; rfl
  have hmem : ∀ f, f ∈ C ↔ f ∈ (c' :: T2) ++ C1 := by
    intro f; rw [e]; simp only [List.mem_append, List.mem_cons]
    constructor
    · rintro (h | h | h)
      · exact Or.inr h
      · exact Or.inl (Or.inl h)
      · exact Or.inl (Or.inr h)
    · rintro ((h | h) | h)
      · exact Or.inr (Or.inl h)
      · exact Or.inr (Or.inr h)
      · exact Or.inl h
  refine ⟨T2 ++ C1, ⟨?_, ?_, c', T2 ++ C1, ?_⟩, fun f hf => (hmem f).1 hf⟩
  · -- chain
    rw [chainFrom_append]
    refine ⟨hW, ?_⟩
    show ChainFrom σ (lastOr none W) ((c' :: T2) ++ C1)
    rw [chainFrom_append]
    refine ⟨And.intro hch2.1 (And.intro hend hch2.2.2), ?_⟩
    show ChainFrom σ (lastOr (some c') T2) C1
    rw [hlast]
    cases C1 with
    | nil => trivial
    | cons c1 C1' =>
      have hc1 : c1 = c := by
        rw [hC] at e; simp only [List.cons_append, List.cons.injEq] at e; exact e.1.symm
      subst hc1
      exact And.intro hch1.1 (And.intro (fun l' hl' => by cases hl'; exact hlink) hch1.2.2)
  · -- nodup
    have hp : (((c' :: T2) ++ C1).map (·.owner)).Perm (C.map (·.owner)) := by
      rw [e]; exact (List.perm_append_comm).map _
    have hnd2 := hp.nodup_iff.2 hndC
    show ((W ++ ((c' :: T2) ++ C1)).map (·.owner)).Nodup
    rw [List.map_append, List.nodup_append]
    refine ⟨hWnd, hnd2, ?_⟩
    intro a ha b hb
    simp only [List.mem_map] at ha hb
    obtain ⟨w, hw, rfl⟩ := ha
    obtain ⟨g, hg, rfl⟩ := hb
    exact hdisj w hw g ((hmem g).2 hg)
  · -- back edge
    cases C1 with
    | nil =>
      have hcc : c' = c := by
        rw [hC] at e; simp only [List.nil_append, List.cons.injEq] at e; exact e.1.symm
      refine ⟨l, rfl, ?_, by rw [hcc]; exact hlink⟩
      show lastOr (some c') (T2 ++ []) = some l
      rw [List.append_nil]; exact hlast
    | cons c1 C1' =>
      obtain ⟨l1, hl1⟩ := lastOr_some C1' c1
      refine ⟨l1, rfl, ?_, hch2.2.1 l1 hl1⟩
      show lastOr (some c') (T2 ++ c1 :: C1') = some l1
      rw [lastOr_append]; exact hl1

/-- a simple frame path leads from a named root struct to the definition of kind `k` named `n`. -/
def HasChain (σ : Schema) (k : Bool) (n : Name) : Prop :=
  ∃ R ∈ σ.structs, R.isRoot = true ∧ R.name ≠ [] ∧ ∃ G : List Frame,
    ChainFrom σ none G ∧ (G.map (·.owner) ++ [n]).Nodup ∧
    ((G = [] ∧ k = false ∧ n = R.name) ∨
     (∃ h T l, G = h :: T ∧ h.owner = R.name ∧ h.isMM = false ∧ lastOr none G = some l ∧
        RefTo l.ty.inner k n))

theorem hasChain_step {σ : Schema} (hd : Disjoint σ) (hres : ∀ ty ∈ σ.allTypes, ty.inner.Res3 σ)
    {k : Bool} {n : Name} (h : HasChain σ k n) {f : Frame} (hf : FrameOk σ f) (hfo : f.owner = n)
    (hfk : f.isMM = k) {k' : Bool} {n' : Name} (href : RefTo f.ty.inner k' n') : HasChain σ k' n' := by
  obtain ⟨R, hR, hroot, hname, G, hch, hnd, hend⟩ := h
  refine ⟨R, hR, hroot, hname, ?_⟩
  -- the extended path
  have hch' : ChainFrom σ none (G ++ [f]) := by
    rw [chainFrom_append]
    refine ⟨hch, And.intro hf (And.intro ?_ trivial)⟩
    intro l hl
    rcases hend with ⟨hG, _, _⟩ | ⟨h0, T, l', hG, _, _, hl', hr⟩
    · rw [hG] at hl; cases hl
    · rw [hl'] at hl; cases hl
      show RefTo l.ty.inner f.isMM f.owner
      rw [hfk, hfo]; exact hr
  have hown : (G ++ [f]).map (·.owner) = G.map (·.owner) ++ [n] := by simp [hfo]
  have hhead : ∃ h0 T0, G ++ [f] = h0 :: T0 ∧ h0.owner = R.name ∧ h0.isMM = false := by
    rcases hend with ⟨hG, hk, hn⟩ | ⟨h0, T, l', hG, h1, h2, _, _⟩
    · exact ⟨f, [], by rw [hG]; rfl, by rw [hfo, hn], by rw [hfk, hk]⟩
    · exact ⟨h0, T ++ [f], by rw [hG]; rfl, h1, h2⟩
  have hlast : lastOr none (G ++ [f]) = some f := by rw [lastOr_append]; rfl
  by_cases hin : n' ∈ (G ++ [f]).map (·.owner)
  · -- cut the path at the first frame owned by n'
    simp only [List.mem_map] at hin
    obtain ⟨g, hg, hgo⟩ := hin
    obtain ⟨W, h1, T1, e, hh1, hW⟩ := first_hit (fun g => g.owner = n') (G ++ [f]) ⟨g, hg, hgo⟩
    have hfo1 : FrameOk σ h1 := chainFrom_frameOk _ _ hch' h1 (by rw [e]; simp)
    have hk1 : h1.isMM = k' := kind_of_ref hd (frame_res3 hres hf) href hfo1 hh1
    rw [e, chainFrom_append] at hch'
    refine ⟨W, hch'.1, ?_, ?_⟩
    · rw [hown.symm, e] at hnd
      simp only [List.map_append, List.map_cons, hh1] at hnd
      rw [List.nodup_append] at hnd ⊢
      refine ⟨hnd.1, by simp, ?_⟩
      intro a ha b hb
      simp only [List.mem_singleton] at hb
      subst hb
      exact hnd.2.2 a ha b (by simp)
    · obtain ⟨h0, T0, e0, a1, a2⟩ := hhead
      cases W with
      | nil =>
        left
        rw [e] at e0
        simp only [List.nil_append, List.cons.injEq] at e0
        refine ⟨rfl, ?_, ?_⟩
        · rw [← hk1, e0.1, a2]
        · rw [← hh1, e0.1, a1]
      | cons w0 W' =>
        right
        rw [e] at e0
        simp only [List.cons_append, List.cons.injEq] at e0
        obtain ⟨lw, hlw⟩ := lastOr_some W' w0
        refine ⟨w0, W', lw, rfl, by rw [e0.1]; exact a1, by rw [e0.1]; exact a2, hlw, ?_⟩
        have := hch'.2.2.1 lw hlw
        show RefTo lw.ty.inner k' n'
        rw [← hk1, ← hh1]; exact this
  · refine ⟨G ++ [f], hch', ?_, Or.inr ?_⟩
    · rw [List.nodup_append]
      rw [hown]
      refine ⟨hnd, by simp, ?_⟩
      intro a ha b hb
      simp only [List.mem_singleton] at hb
      subst hb
      intro hab; subst hab
      exact hin (by rw [hown]; exact ha)
    · obtain ⟨h0, T0, e0, a1, a2⟩ := hhead
      exact ⟨h0, T0, f, e0, a1, a2, hlast, href⟩

/-! minimality of the reachable set, with predicates -/

def CoveredP (PS PM : Name → Prop) (b : BaseType) : Prop :=
  (b.struct ≠ [] → PS b.struct) ∧ (b.struct = [] → b.multimap ≠ [] → PM b.multimap)

def Reach.sub (r : Reach) (PS PM : Name → Prop) : Prop :=
  (∀ n ∈ r.structs, PS n) ∧ (∀ n ∈ r.multimaps, PM n)

def MrMinP (PS PM : Name → Prop) (rec : BaseType → Reach → Option Reach) : Prop :=
  ∀ b r0 r1, rec b r0 = some r1 → CoveredP PS PM b → r0.sub PS PM → r1.sub PS PM

theorem mrFields_minP {PS PM : Name → Prop} {rec : BaseType → Reach → Option Reach}
    (hrec : MrMinP PS PM rec) : ∀ (tys : List FType) (r0 r1 : Reach), mrFields rec tys r0 = some r1 →
      (∀ ty ∈ tys, CoveredP PS PM ty.inner) → r0.sub PS PM → r1.sub PS PM
  | [], r0, r1, h, _, hle => by simp [mrFields] at h; subst h; exact hle
  | ty :: rest, r0, r1, h, hc, hle => by
    unfold mrFields at h
    split at h
    · cases h
    · rename_i r' h'
      exact mrFields_minP hrec rest r' r1 h (fun x hx => hc x (by simp [hx]))
        (hrec _ _ _ h' (hc ty (by simp)) hle)

theorem mrBase_minP {σ : Schema} {PS PM : Name → Prop}
    (hcS : ∀ n, PS n → ∀ s, σ.findStruct n = some s → ∀ ty ∈ s.types, CoveredP PS PM ty.inner)
    (hcM : ∀ n, PM n → ∀ m, σ.findMultimap n = some m → ∀ ty ∈ m.types, CoveredP PS PM ty.inner) :
    ∀ fuel, MrMinP PS PM (mrBase σ fuel)
  | 0 => by intro b r0 r1 h; simp [mrBase] at h
  | fuel + 1 => by
    intro b r0 r1 h hc hle
    have ih := mrBase_minP hcS hcM fuel
    unfold mrBase at h
    split at h
    · rename_i hs
      split at h
      · cases h; exact hle
      · split at h
        · cases h; exact hle
        · rename_i s hf
          have hin := hc.1 hs
          refine mrFields_minP ih s.types _ r1 h (hcS _ hin s hf) ⟨?_, hle.2⟩
          intro x hx
          simp only [List.mem_cons] at hx
          rcases hx with rfl | hx
          · exact hin
          · exact hle.1 x hx
    · rename_i hs
      simp only [ne_eq, Decidable.not_not] at hs
      split at h
      · rename_i hm
        split at h
        · cases h; exact hle
        · split at h
          · cases h; exact hle
          · rename_i mm hf
            have hin := hc.2 hs hm
            refine mrFields_minP ih mm.types _ r1 h (hcM _ hin mm hf) ⟨hle.1, ?_⟩
            intro x hx
            simp only [List.mem_cons] at hx
            rcases hx with rfl | hx
            · exact hin
            · exact hle.2 x hx
      · split at h
        · cases h; exact hle
        · cases h; exact hle

theorem mrRoots_minP {σ : Schema} {PS PM : Name → Prop}
    (hcS : ∀ n, PS n → ∀ s, σ.findStruct n = some s → ∀ ty ∈ s.types, CoveredP PS PM ty.inner)
    (hcM : ∀ n, PM n → ∀ m, σ.findMultimap n = some m → ∀ ty ∈ m.types, CoveredP PS PM ty.inner) :
    ∀ (ss : List Struct) (r0 r1 : Reach), mrRoots σ ss r0 = some r1 →
      (∀ s ∈ ss, s.isRoot = true → s.name ≠ [] → PS s.name) → r0.sub PS PM → r1.sub PS PM
  | [], r0, r1, h, _, hle => by simp [mrRoots] at h; subst h; exact hle
  | s :: ss, r0, r1, h, hroots, hle => by
    unfold mrRoots at h
    split at h
    · rename_i hroot
      split at h
      · cases h
      · rename_i r' hr'
        have hstep : r'.sub PS PM := by
          by_cases hn : s.name = []
          · unfold mrBase at hr'
            simp [hn] at hr'
            subst hr'
            exact hle
          · exact mrBase_minP hcS hcM _ _ _ _ hr'
              ⟨fun _ => hroots s (by simp) hroot hn, fun a => absurd a hn⟩ hle
        exact mrRoots_minP hcS hcM ss r' r1 h (fun x hx => hroots x (by simp [hx])) hstep
    · exact mrRoots_minP hcS hcM ss r0 r1 h (fun x hx => hroots x (by simp [hx])) hle

/-! ### (b8) a mark that concerns a reachable definition is set from a named root -/

/-- the mark concerns a definition of the reach set `r`. -/
def MK.InK (r : Reach) : MK → Prop
  | .s n => n ∈ r.structs
  | .m n => n ∈ r.multimaps
  | .a false o _ => o ∈ r.structs
  | .a true o _ => o ∈ r.multimaps

theorem rootRun_has {σ : Schema} {s : Struct} {st : RSt} (h : rootRun σ s = .ok st) (x : MK) :
    st.marks.has x ↔ ∃ k ty, s.types[k]? = some ty ∧
      Finds σ [s.name] [⟨false, s.name, k, ty⟩] ty.inner x := by
  obtain ⟨_, _, a3⟩ := crEnter_spec (crType_spec σ _) false s.name s.types {} st h
  rw [a3 x]
  constructor
  · rintro (h | h)
    · cases x <;> simp [Marks.has] at h
    · simpa using h
  · intro h
    exact Or.inr (by simpa using h)

theorem root_marks_reroot {σ : Schema} (hi : RInv σ) {r : Reach}
    (hKS : ∀ n ∈ r.structs, HasChain σ false n) (hKM : ∀ n ∈ r.multimaps, HasChain σ true n)
    (hruns : ∀ s ∈ σ.structs, s.isRoot = true → ∃ st, rootRun σ s = .ok st)
    {s0 : Struct} (hs0 : s0 ∈ σ.structs) (hroot0 : s0.isRoot = true) {x : MK}
    (hx : (rootMarks σ s0).has x) (hxK : x.InK r) :
    ∃ R ∈ σ.structs, R.isRoot = true ∧ R.name ≠ [] ∧ (rootMarks σ R).has x := by
  have hd := disjoint_of_top hi.top
  obtain ⟨hsn, _⟩ := structs_names_nodup hi.top
  obtain ⟨st0, hrun0⟩ := hruns s0 hs0 hroot0
  have hx0 : st0.marks.has x := by simpa [rootMarks, hrun0] using hx
  obtain ⟨k0, ty0, hk0, hF0⟩ := (rootRun_has hrun0 x).1 hx0
  have hfind0 : σ.findStruct s0.name = some s0 := find?_of_nodup_struct _ s0 hsn hs0
  -- the lasso of the mark
  obtain ⟨Q, A, C, f, _, hL, hfC, hxf⟩ := finds_lasso hd hi.res hF0 rfl (by simp)
    (And.intro (Or.inl ⟨rfl, s0, hfind0, hk0⟩) (And.intro (fun l hl => by cases hl) trivial))
    ⟨_, rfl, rfl⟩
  have hCfo : ∀ g ∈ C, FrameOk σ g := fun g hg =>
    chainFrom_frameOk _ _ (lasso_loop_chain hL) g hg
  -- a frame of the loop whose owner is reachable from a named root
  have hK : ∃ g ∈ C, HasChain σ g.isMM g.owner := by
    obtain ⟨g', hg', hlink⟩ := lasso_succ hL hfC
    subst hxf
    unfold mkOf at hxK
    cases hty : f.ty with
    | array e d rr =>
      rw [hty] at hxK
      cases hm : f.isMM with
      | false => rw [hm] at hxK; exact ⟨f, hfC, by rw [hm]; exact hKS _ hxK⟩
      | true => rw [hm] at hxK; exact ⟨f, hfC, by rw [hm]; exact hKM _ hxK⟩
    | base b =>
      rw [hty] at hxK
      have hl : RefTo b g'.isMM g'.owner := by
        have := hlink; unfold Link at this; rw [hty] at this; exact this
      by_cases hs : b.struct = []
      · simp only [hs, ne_eq, not_true_eq_false, if_false] at hxK
        rcases hl with ⟨_, ⟨hs', _⟩ | ⟨_, _, hk, hn⟩⟩
        · exact absurd hs hs'
        · exact ⟨g', hg', by rw [hk, hn]; exact hKM _ hxK⟩
      · simp only [hs, ne_eq, not_false_eq_true, if_true] at hxK
        rcases hl with ⟨_, ⟨_, hk, hn⟩ | ⟨hs', _⟩⟩
        · exact ⟨g', hg', by rw [hk, hn]; exact hKS _ hxK⟩
        · exact absurd hs' hs
  obtain ⟨g, hgC, R, hR, hRroot, hRname, G, hGch, hGnd, hGend⟩ := hK
  refine ⟨R, hR, hRroot, hRname, ?_⟩
  have hfindR : σ.findStruct R.name = some R := find?_of_nodup_struct _ R hsn hR
  -- a simple path from R to the loop that meets the loop only at its end
  have hW : ∃ (W : List Frame) (c' : Frame), c' ∈ C ∧ ChainFrom σ none W ∧
      (W.map (·.owner)).Nodup ∧ (∀ w ∈ W, ∀ g ∈ C, w.owner ≠ g.owner) ∧
      (∀ l, lastOr none W = some l → Link l c') ∧
      ((W = [] ∧ c'.owner = R.name ∧ c'.isMM = false) ∨
       (∃ w0 W', W = w0 :: W' ∧ w0.owner = R.name ∧ w0.isMM = false)) := by
    have hGnd' : (G.map (·.owner)).Nodup := by
      rw [List.nodup_append] at hGnd; exact hGnd.1
    rcases hGend with ⟨hG, hk, hn⟩ | ⟨h, T, l, hG, h1, h2, hl, href⟩
    · exact ⟨[], g, hgC, trivial, by simp, by simp, (by intro l hl; cases hl),
        Or.inl ⟨rfl, hn, hk⟩⟩
    · by_cases hit : ∃ w ∈ G, ∃ c ∈ C, w.owner = c.owner
      · obtain ⟨W, h1', T1, e, ⟨c', hc'C, hc'o⟩, hWno⟩ :=
          first_hit (fun w => ∃ c ∈ C, w.owner = c.owner) G hit
        have hfo1 : FrameOk σ h1' := chainFrom_frameOk _ _ hGch h1' (by rw [e]; simp)
        have hkind : h1'.isMM = c'.isMM := kind_same hd hfo1 (hCfo c' hc'C) hc'o
        have hch2 := hGch
        rw [e, chainFrom_append] at hch2
        refine ⟨W, c', hc'C, hch2.1, ?_, ?_, ?_, ?_⟩
        · rw [e] at hGnd'
          simp only [List.map_append] at hGnd'
          rw [List.nodup_append] at hGnd'
          exact hGnd'.1
        · intro w hw g' hg' hEq
          exact hWno w hw ⟨g', hg', hEq⟩
        · intro l' hl'
          have := hch2.2.2.1 l' hl'
          show RefTo l'.ty.inner c'.isMM c'.owner
          rw [← hkind, ← hc'o]; exact this
        · cases W with
          | nil =>
            left
            rw [hG] at e
            simp only [List.nil_append, List.cons.injEq] at e
            refine ⟨rfl, ?_, ?_⟩
            · rw [← hc'o, ← e.1]; exact h1
            · rw [← hkind, ← e.1]; exact h2
          | cons w0 W' =>
            right
            rw [hG] at e
            simp only [List.cons_append, List.cons.injEq] at e
            exact ⟨w0, W', rfl, by rw [← e.1]; exact h1, by rw [← e.1]; exact h2⟩
      · refine ⟨G, g, hgC, hGch, hGnd', ?_, ?_, Or.inr ⟨h, T, hG, h1, h2⟩⟩
        · intro w hw g' hg' hEq
          exact hit ⟨w, hw, g', hg', hEq⟩
        · intro l' hl'
          rw [hl] at hl'; cases hl'
          exact href
  obtain ⟨W, c', hc'C, hWch, hWnd, hWdis, hWend, hWhead⟩ := hW
  obtain ⟨T, hL', hmem'⟩ := lasso_reroot hL hc'C hWch hWnd hWdis hWend
  have hf' : f ∈ c' :: T := hmem' f hfC
  -- the head of the new lasso is a field of R
  have hhead : ∃ h0 T0, W ++ c' :: T = h0 :: T0 ∧ h0.owner = R.name ∧ h0.isMM = false := by
    rcases hWhead with ⟨hW0, a1, a2⟩ | ⟨w0, W', hW0, a1, a2⟩
    · exact ⟨c', T, by rw [hW0]; rfl, a1, a2⟩
    · exact ⟨w0, W' ++ c' :: T, by rw [hW0]; rfl, a1, a2⟩
  obtain ⟨h0, T0, e0, a1, a2⟩ := hhead
  have hF := lasso_finds hL' hf' T0 [h0] h0 e0.symm rfl
  have hfo0 : FrameOk σ h0 := chainFrom_frameOk _ _ hL'.1 h0 (by rw [e0]; simp)
  obtain ⟨h0m, h0o, h0i, h0t⟩ := h0
  simp only at a1 a2 hF
  subst a1 a2
  rcases hfo0 with ⟨_, s, hs, hk⟩ | ⟨hk', _⟩
  · simp only at hs hk
    rw [hfindR] at hs
    cases hs
    obtain ⟨stR, hrunR⟩ := hruns R hR hRroot
    have : stR.marks.has x := by
      rw [rootRun_has hrunR x, hxf]
      exact ⟨h0i, h0t, hk, by simpa using hF⟩
    simpa [rootMarks, hrunR] using this
  · simp at hk'

/-! ### lookups in a filtered definition list; names up to permutation -/

theorem find?_filter_struct (R : List Name) (n : Name) (hn : n ∈ R) : ∀ (l : List Struct),
    (l.filter (fun s => R.contains s.name)).find? (·.name = n) = l.find? (·.name = n)
  | [] => rfl
  | a :: l => by
    have ih := find?_filter_struct R n hn l
    by_cases ha : a.name = n
    · have hc : R.contains a.name = true := by rw [ha]; simpa using hn
      simp [hn, ha]
    · by_cases hc : R.contains a.name = true
      · simp only [List.filter_cons, hc, if_true, List.find?_cons, ha, decide_false]
        exact ih
      · simp only [List.filter_cons, hc, List.find?_cons, ha, decide_false]
        exact ih

theorem find?_filter_multimap (R : List Name) (n : Name) (hn : n ∈ R) : ∀ (l : List Multimap),
    (l.filter (fun s => R.contains s.name)).find? (·.name = n) = l.find? (·.name = n)
  | [] => rfl
  | a :: l => by
    have ih := find?_filter_multimap R n hn l
    by_cases ha : a.name = n
    · have hc : R.contains a.name = true := by rw [ha]; simpa using hn
      simp [hn, ha]
    · by_cases hc : R.contains a.name = true
      · simp only [List.filter_cons, hc, if_true, List.find?_cons, ha, decide_false]
        exact ih
      · simp only [List.filter_cons, hc, List.find?_cons, ha, decide_false]
        exact ih

structure NamesPerm (σ σ' : Schema) : Prop where
  structs : (σ'.structs.map (·.name)).Perm (σ.structs.map (·.name))
  multimaps : (σ'.multimaps.map (·.name)).Perm (σ.multimaps.map (·.name))
  enums : (σ'.enums.map (·.name)).Perm (σ.enums.map (·.name))

theorem NamesPerm.res3 {σ σ' : Schema} {b : BaseType} (h : NamesPerm σ σ') (hb : b.Res3 σ) :
    b.Res3 σ' := by
  have e1 : ∀ n, σ'.hasStruct n = σ.hasStruct n := by
    intro n; rw [Bool.eq_iff_iff, hasStruct_iff, hasStruct_iff, h.structs.mem_iff]
  have e2 : ∀ n, σ'.hasMultimap n = σ.hasMultimap n := by
    intro n; rw [Bool.eq_iff_iff, hasMultimap_iff, hasMultimap_iff, h.multimaps.mem_iff]
  have e3 : ∀ n, σ'.hasEnum n = σ.hasEnum n := by
    intro n; rw [Bool.eq_iff_iff, hasEnum_iff, hasEnum_iff, h.enums.mem_iff]
  have e4 : ∀ n, σ'.topNames.count n = σ.topNames.count n := by
    intro n
    simp only [Schema.topNames, List.count_append, h.structs.count_eq, h.multimaps.count_eq,
      h.enums.count_eq]
  unfold BaseType.Res3
  simp only [e1, e2, e3, e4]
  exact hb

theorem NamesPerm.top {σ σ' : Schema} (h : NamesPerm σ σ') (hn : σ.topNames.Nodup) :
    σ'.topNames.Nodup := by
  have : σ'.topNames.Perm σ.topNames := by
    simp only [Schema.topNames]
    exact (h.structs.append h.multimaps).append h.enums
  exact this.nodup_iff.2 hn

theorem unmarkFType_inner (ty : FType) : (unmarkFType ty).inner = ty.inner := by
  cases ty <;> rfl

theorem unmarkStruct_types_inner (s : Struct) :
    (unmarkStruct s).types.map FType.inner = s.types.map FType.inner := by
  simp only [unmarkStruct, Struct.types, List.map_map]
  apply List.map_congr_left
  intro f _
  exact unmarkFType_inner f.ty

theorem unmarkMultimap_types_inner (m : Multimap) :
    (unmarkMultimap m).types.map FType.inner = m.types.map FType.inner := by
  simp [unmarkMultimap, Multimap.types, unmarkFType_inner]

theorem map_name_unmarkStruct (l : List Struct) :
    (l.map unmarkStruct).map (·.name) = l.map (·.name) := by
  rw [List.map_map]; rfl

theorem map_name_unmarkMultimap (l : List Multimap) :
    (l.map unmarkMultimap).map (·.name) = l.map (·.name) := by
  rw [List.map_map]; rfl

theorem unmark_filter_structs (m : Marks) (R : List Name) : ∀ (l : List Struct),
    (∀ s ∈ l, s.recursive = false ∧ ∀ ty ∈ s.types, ty.NoFlag) →
    (((l.map (markStruct m)).filter (fun s => R.contains s.name)).map unmarkStruct)
      = l.filter (fun s => R.contains s.name)
  | [], _ => rfl
  | a :: l, hl => by
    have ha := unmark_markStruct m (hl a (by simp)).1 (hl a (by simp)).2
    have ih := unmark_filter_structs m R l (fun s hs => hl s (by simp [hs]))
    have hname : (markStruct m a).name = a.name := rfl
    simp only [List.map_cons, List.filter_cons, hname]
    by_cases hc : R.contains a.name = true
    · simp only [hc, if_true, List.map_cons, ha, ih]
    · simp only [hc]
      exact ih

theorem unmark_filter_multimaps (m : Marks) (R : List Name) : ∀ (l : List Multimap),
    (∀ s ∈ l, s.recursive = false ∧ ∀ ty ∈ s.types, ty.NoFlag) →
    (((l.map (markMultimap m)).filter (fun s => R.contains s.name)).map unmarkMultimap)
      = l.filter (fun s => R.contains s.name)
  | [], _ => rfl
  | a :: l, hl => by
    have ha := unmark_markMultimap m (hl a (by simp)).1 (hl a (by simp)).2
    have ih := unmark_filter_multimaps m R l (fun s hs => hl s (by simp [hs]))
    have hname : (markMultimap m a).name = a.name := (markMultimap_spec m a).1
    simp only [List.map_cons, List.filter_cons, hname]
    by_cases hc : R.contains a.name = true
    · simp only [hc, if_true, List.map_cons, ha, ih]
    · simp only [hc]
      exact ih

/-! ### (c) the reachable set is the least closed set containing the roots -/

def MrMin (R' : Reach) (rec : BaseType → Reach → Option Reach) : Prop :=
  ∀ b r0 r1, rec b r0 = some r1 → Covered R' b → r0.le R' → r1.le R'

theorem mrFields_min {R' : Reach} {rec : BaseType → Reach → Option Reach} (hrec : MrMin R' rec) :
    ∀ (tys : List FType) (r0 r1 : Reach), mrFields rec tys r0 = some r1 →
      (∀ ty ∈ tys, Covered R' ty.inner) → r0.le R' → r1.le R'
  | [], r0, r1, h, _, hle => by simp [mrFields] at h; subst h; exact hle
  | ty :: rest, r0, r1, h, hc, hle => by
    unfold mrFields at h
    split at h
    · cases h
    · rename_i r' h'
      exact mrFields_min hrec rest r' r1 h (fun x hx => hc x (by simp [hx]))
        (hrec _ _ _ h' (hc ty (by simp)) hle)

theorem mrBase_min {σ : Schema} {R' : Reach}
    (hcS : ∀ n ∈ R'.structs, ∀ s, σ.findStruct n = some s → ∀ ty ∈ s.types, Covered R' ty.inner)
    (hcM : ∀ n ∈ R'.multimaps, ∀ m, σ.findMultimap n = some m → ∀ ty ∈ m.types, Covered R' ty.inner) :
    ∀ fuel, MrMin R' (mrBase σ fuel)
  | 0 => by intro b r0 r1 h; simp [mrBase] at h
  | fuel + 1 => by
    intro b r0 r1 h hc hle
    have ih := mrBase_min hcS hcM fuel
    unfold mrBase at h
    split at h
    · rename_i hs
      split at h
      · cases h; exact hle
      · split at h
        · cases h; exact hle
        · rename_i s hf
          have hin := hc.1 hs
          refine mrFields_min ih s.types _ r1 h (hcS _ hin s hf) ⟨?_, hle.2.1, hle.2.2⟩
          intro x hx
          simp only [List.mem_cons] at hx
          rcases hx with rfl | hx
          · exact hin
          · exact hle.1 hx
    · rename_i hs
      simp only [ne_eq, Decidable.not_not] at hs
      split at h
      · rename_i hm
        split at h
        · cases h; exact hle
        · split at h
          · cases h; exact hle
          · rename_i mm hf
            have hin := hc.2.1 hs hm
            refine mrFields_min ih mm.types _ r1 h (hcM _ hin mm hf) ⟨hle.1, ?_, hle.2.2⟩
            intro x hx
            simp only [List.mem_cons] at hx
            rcases hx with rfl | hx
            · exact hin
            · exact hle.2.1 hx
      · rename_i hm
        simp only [ne_eq, Decidable.not_not] at hm
        split at h
        · rename_i he
          cases h
          refine ⟨hle.1, hle.2.1, ?_⟩
          intro x hx
          simp only [List.mem_cons] at hx
          rcases hx with rfl | hx
          · exact hc.2.2 hs hm he
          · exact hle.2.2 hx
        · cases h; exact hle

theorem mrRoots_min {σ : Schema} {R' : Reach}
    (hcS : ∀ n ∈ R'.structs, ∀ s, σ.findStruct n = some s → ∀ ty ∈ s.types, Covered R' ty.inner)
    (hcM : ∀ n ∈ R'.multimaps, ∀ m, σ.findMultimap n = some m → ∀ ty ∈ m.types, Covered R' ty.inner) :
    ∀ (ss : List Struct) (r0 r1 : Reach), mrRoots σ ss r0 = some r1 →
      (∀ s ∈ ss, s.isRoot = true → s.name ≠ [] → s.name ∈ R'.structs) → r0.le R' → r1.le R'
  | [], r0, r1, h, _, hle => by simp [mrRoots] at h; subst h; exact hle
  | s :: ss, r0, r1, h, hroots, hle => by
    unfold mrRoots at h
    split at h
    · rename_i hroot
      split at h
      · cases h
      · rename_i r' hr'
        have hstep : r'.le R' := by
          by_cases hn : s.name = []
          · unfold mrBase at hr'
            simp [hn] at hr'
            subst hr'
            exact hle
          · exact mrBase_min hcS hcM _ _ _ _ hr'
              ⟨fun _ => hroots s (by simp) hroot hn, fun a => absurd a hn, fun a => absurd a hn⟩ hle
        exact mrRoots_min hcS hcM ss r' r1 h (fun x hx => hroots x (by simp [hx])) hstep
    · exact mrRoots_min hcS hcM ss r0 r1 h (fun x hx => hroots x (by simp [hx])) hle

theorem mrRoots_roots {σ : Schema} (hall : ∀ ty ∈ σ.allTypes, Lookup σ ty.inner) :
    ∀ (ss : List Struct) (r0 r1 : Reach), mrRoots σ ss r0 = some r1 → (∀ s ∈ ss, s ∈ σ.structs) →
      r0.le r1 ∧ ∀ s ∈ ss, s.isRoot = true → s.name ≠ [] → s.name ∈ r1.structs
  | [], r0, r1, h, _ => by simp [mrRoots] at h; subst h; exact ⟨Reach.le_refl _, by simp⟩
  | s :: ss, r0, r1, h, hmem => by
    unfold mrRoots at h
    split at h
    · rename_i hroot
      split at h
      · cases h
      · rename_i r' hr'
        have hl : Lookup σ { struct := s.name } := by
          refine ⟨fun _ => ?_, fun a b => by simp at b⟩
          simp only [Schema.findStruct, List.find?_isSome, decide_eq_true_eq]
          exact ⟨s, hmem s (by simp), rfl⟩
        obtain ⟨a1, a2, _⟩ := mrBase_spec hall _ _ _ _ hr' hl
        obtain ⟨b1, b2⟩ := mrRoots_roots hall ss r' r1 h (fun x hx => hmem x (by simp [hx]))
        refine ⟨Reach.le_trans a1 b1, ?_⟩
        intro x hx hxr hxn
        simp only [List.mem_cons] at hx
        rcases hx with rfl | hx
        · exact b1.1 (a2.1 hxn)
        · exact b2 x hx hxr hxn
    · rename_i hroot
      obtain ⟨b1, b2⟩ := mrRoots_roots hall ss r0 r1 h (fun x hx => hmem x (by simp [hx]))
      refine ⟨b1, ?_⟩
      intro x hx hxr hxn
      simp only [List.mem_cons] at hx
      rcases hx with rfl | hx
      · exact absurd hxr hroot
      · exact b2 x hx hxr hxn

theorem mrRoots_reachOk {σ : Schema} : ∀ (ss : List Struct) (r r' : Reach), ReachOk σ r →
    mrRoots σ ss r = some r' → ReachOk σ r'
  | [], r, r', h, hr => by simp [mrRoots] at hr; subst hr; exact h
  | s :: ss, r, r', h, hr => by
    unfold mrRoots at hr
    split at hr
    · obtain ⟨r1, h1, h1o, _⟩ := mrBase_ok (σ := σ) (crFuel σ + 1) { struct := s.name } r h
        (by rw [← defNames_length]; omega)
      rw [h1] at hr
      exact mrRoots_reachOk ss r1 r' h1o hr
    · exact mrRoots_reachOk ss r r' h hr

/-! ### marks restricted to the reachable definitions -/

theorem foldRoots_has (g : Struct → Marks) (ss : List Struct) (m : Marks) (x : MK) :
    (foldRoots g ss m).has x ↔ m.has x ∨ ∃ s ∈ ss, s.isRoot = true ∧ (g s).has x := by
  cases x with
  | s n => exact foldRoots_mem (·.structs) (fun _ _ => rfl) g ss m n
  | m n => exact foldRoots_mem (·.multimaps) (fun _ _ => rfl) g ss m n
  | a b o i => exact foldRoots_mem (·.arrays) (fun _ _ => rfl) g ss m (b, o, i)

theorem applyMarksFields_congrOn {a b : Marks} {r : Reach}
    (h : ∀ x, x.InK r → (a.has x ↔ b.has x)) (isMM : Bool) (o : Name)
    (ho : (MK.a isMM o 0).InK r) :
    ∀ (tys : List FType) (i : Nat), applyMarksFields a isMM o tys i = applyMarksFields b isMM o tys i
  | [], i => rfl
  | ty :: rest, i => by
    have hc : a.arrays.contains (isMM, o, i) = b.arrays.contains (isMM, o, i) := by
      rw [Bool.eq_iff_iff, List.contains_iff_mem, List.contains_iff_mem]
      exact h (.a isMM o i) (by cases isMM <;> exact ho)
    simp only [applyMarksFields, applyMarksFields_congrOn h isMM o ho rest (i + 1), hc]

theorem markStruct_congrOn {a b : Marks} {r : Reach} (h : ∀ x, x.InK r → (a.has x ↔ b.has x))
    (s : Struct) (hs : s.name ∈ r.structs) : markStruct a s = markStruct b s := by
  have hc : a.structs.contains s.name = b.structs.contains s.name := by
    rw [Bool.eq_iff_iff, List.contains_iff_mem, List.contains_iff_mem]
    exact h (.s s.name) hs
  simp only [markStruct, applyMarksFields_congrOn h false s.name hs, hc]

theorem markMultimap_congrOn {a b : Marks} {r : Reach} (h : ∀ x, x.InK r → (a.has x ↔ b.has x))
    (mm : Multimap) (hs : mm.name ∈ r.multimaps) : markMultimap a mm = markMultimap b mm := by
  have hc : a.multimaps.contains mm.name = b.multimaps.contains mm.name := by
    rw [Bool.eq_iff_iff, List.contains_iff_mem, List.contains_iff_mem]
    exact h (.m mm.name) hs
  simp only [markMultimap, applyMarksFields_congrOn h true mm.name hs, hc]

/-- every reachable definition lies on a simple frame path from a named root. -/
theorem reach_hasChain {σ1 : Schema} {m : Marks} {r : Reach} (hi1 : RInv σ1)
    (hr : mrRoots (applyMarks σ1 m) (applyMarks σ1 m).structs {} = some r) :
    (∀ n ∈ r.structs, HasChain σ1 false n) ∧ (∀ n ∈ r.multimaps, HasChain σ1 true n) := by
  have hd := disjoint_of_top hi1.top
  have hcov : ∀ (k : Bool) (n : Name) (j : Nat) (ty1 ty : FType), HasChain σ1 k n →
      FrameOk σ1 ⟨k, n, j, ty1⟩ → ty1.inner = ty.inner →
      CoveredP (HasChain σ1 false) (HasChain σ1 true) ty.inner := by
    intro k n j ty1 ty hn hfo he
    have hres := frame_res3 hi1.res hfo
    simp only at hres
    rw [he] at hres
    refine ⟨fun hs => ?_, fun hs hm => ?_⟩
    · refine hasChain_step hd hi1.res hn hfo rfl rfl (k' := false) ?_
      show RefTo ty1.inner false ty.inner.struct
      rw [he]
      exact ⟨by rw [(hres.1 hs).2.2.1]; rfl, Or.inl ⟨hs, rfl, rfl⟩⟩
    · refine hasChain_step hd hi1.res hn hfo rfl rfl (k' := true) ?_
      show RefTo ty1.inner true ty.inner.multimap
      rw [he]
      exact ⟨by rw [(hres.2.1 hm).2.2.1]; rfl, Or.inr ⟨hs, hm, rfl, rfl⟩⟩
  apply mrRoots_minP (σ := applyMarks σ1 m) (PS := HasChain σ1 false) (PM := HasChain σ1 true)
    ?_ ?_ _ _ _ hr ?_ ⟨by simp, by simp⟩
  · intro n hn s2 hs2 ty hty
    rw [findStruct_applyMarks] at hs2
    cases hf : σ1.findStruct n with
    | none => simp [hf] at hs2
    | some s1 =>
      simp only [hf, Option.map_some, Option.some.injEq] at hs2
      subst hs2
      obtain ⟨ty1, h1, he⟩ := mem_of_map_inner_eq (markStruct_spec m s1).2.2.2.2.2.1 hty
      obtain ⟨j, hj⟩ := List.mem_iff_getElem?.1 h1
      exact hcov false n j ty1 ty hn (Or.inl ⟨rfl, s1, hf, hj⟩) he
  · intro n hn m2 hm2 ty hty
    rw [findMultimap_applyMarks] at hm2
    cases hf : σ1.findMultimap n with
    | none => simp [hf] at hm2
    | some m1 =>
      simp only [hf, Option.map_some, Option.some.injEq] at hm2
      subst hm2
      obtain ⟨ty1, h1, he⟩ := mem_of_map_inner_eq (markMultimap_spec m m1).2 hty
      obtain ⟨j, hj⟩ := List.mem_iff_getElem?.1 h1
      exact hcov true n j ty1 ty hn (Or.inr ⟨rfl, m1, hf, hj⟩) he
  · intro s hs hsr hsn
    have hs' : s ∈ σ1.structs.map (markStruct m) := hs
    simp only [List.mem_map] at hs'
    obtain ⟨s1, hs1, rfl⟩ := hs'
    exact ⟨s1, hs1, hsr, hsn, [], trivial, by simp, Or.inl ⟨rfl, rfl, rfl⟩⟩

/-! ### assembly -/

theorem fix_core {σ1 : Schema} {m : Marks} {r : Reach} (hi1 : RInv σ1) (hnf : NoFlags σ1)
    (hm : crRoots σ1 σ1.structs {} = .ok m)
    (hr : mrRoots (applyMarks σ1 m) (applyMarks σ1 m).structs {} = some r)
    {σ : Schema}
    (hσs : σ.structs = (σ1.structs.map (markStruct m)).filter (fun s => r.structs.contains s.name))
    (hσm : σ.multimaps =
      (σ1.multimaps.map (markMultimap m)).filter (fun mm => r.multimaps.contains mm.name))
    (hσe : σ.enums = σ1.enums.filter (fun e => r.enums.contains e.name))
    (hwf : WF0 σ) (hne : σ.NoEmptyType) :
    computeRecursive (unmark σ.norm) = .ok σ.norm ∧ pruneUnused σ.norm = some σ.norm := by
  have hi2 : RInv (applyMarks σ1 m) := applyMarks_inv m hi1
  obtain ⟨hsn1, hmn1⟩ := structs_names_nodup hi1.top
  obtain ⟨hsn2, hmn2⟩ := structs_names_nodup hi2.top
  have hall2 : ∀ ty ∈ (applyMarks σ1 m).allTypes, Lookup (applyMarks σ1 m) ty.inner :=
    fun ty hty => res3_lookup (hi2.res ty hty)
  have hcl2 := mrRoots_spec hall2 _ {} r hr (fun _ h => h) ⟨by simp, by simp⟩
  obtain ⟨_, hroots2⟩ := mrRoots_roots hall2 _ _ _ hr (fun _ h => h)
  have h2s : (applyMarks σ1 m).structs = σ1.structs.map (markStruct m) := rfl
  have h2m : (applyMarks σ1 m).multimaps = σ1.multimaps.map (markMultimap m) := rfl
  -- the definitions of `unmark σ.norm` are those of `σ1` that are kept, in another order
  have S1 : (unmark σ.norm).structs.Perm (σ1.structs.filter (fun s => r.structs.contains s.name)) := by
    show ((sortBy (·.name) σ.structs).map unmarkStruct).Perm _
    rw [← unmark_filter_structs m r.structs σ1.structs hnf.structs, ← hσs]
    exact (sortBy_perm _ _).map _
  have M1 : (unmark σ.norm).multimaps.Perm
      (σ1.multimaps.filter (fun s => r.multimaps.contains s.name)) := by
    show ((sortBy (·.name) σ.multimaps).map unmarkMultimap).Perm _
    rw [← unmark_filter_multimaps m r.multimaps σ1.multimaps hnf.multimaps, ← hσm]
    exact (sortBy_perm _ _).map _
  have hnfs : ((σ1.structs.filter (fun s => r.structs.contains s.name)).map (·.name)).Nodup :=
    hsn1.sublist (List.filter_sublist.map _)
  have hnfm : ((σ1.multimaps.filter (fun s => r.multimaps.contains s.name)).map (·.name)).Nodup :=
    hmn1.sublist (List.filter_sublist.map _)
  -- closure of `r` in σ1
  have hclS : ∀ n ∈ r.structs, ∀ s, σ1.findStruct n = some s → ∀ ty ∈ s.types, Covered r ty.inner := by
    intro n hn s hs ty hty
    have h2 : (applyMarks σ1 m).findStruct n = some (markStruct m s) := by
      rw [findStruct_applyMarks, hs]; rfl
    obtain ⟨ty2, hty2, he⟩ := mem_of_map_inner_eq (markStruct_spec m s).2.2.2.2.2.1.symm hty
    rw [← he]
    exact hcl2.1 n hn (by simp) _ h2 ty2 hty2
  have hclM : ∀ n ∈ r.multimaps, ∀ mm, σ1.findMultimap n = some mm →
      ∀ ty ∈ mm.types, Covered r ty.inner := by
    intro n hn mm hs ty hty
    have h2 : (applyMarks σ1 m).findMultimap n = some (markMultimap m mm) := by
      rw [findMultimap_applyMarks, hs]; rfl
    obtain ⟨ty2, hty2, he⟩ := mem_of_map_inner_eq (markMultimap_spec m mm).2.symm hty
    rw [← he]
    exact hcl2.2 n hn (by simp) _ h2 ty2 hty2
  have hle : LookEq σ1 (unmark σ.norm) r := by
    refine ⟨?_, ?_, hclS, hclM⟩
    · intro n hn
      show (unmark σ.norm).structs.find? (·.name = n) = σ1.structs.find? (·.name = n)
      rw [findStruct_of_perm S1 hnfs n, find?_filter_struct _ n hn]
    · intro n hn
      show (unmark σ.norm).multimaps.find? (·.name = n) = σ1.multimaps.find? (·.name = n)
      rw [findMultimap_of_perm M1 hnfm n, find?_filter_multimap _ n hn]
  -- names of σ.norm and of unmark σ.norm
  have hnpN : NamesPerm σ σ.norm :=
    ⟨(sortBy_perm _ _).map _, (sortBy_perm _ _).map _, (sortBy_perm _ _).map _⟩
  have hnpT : NamesPerm σ (unmark σ.norm) := by
    refine ⟨?_, ?_, (sortBy_perm _ _).map _⟩
    · show (((sortBy (·.name) σ.structs).map unmarkStruct).map (·.name)).Perm _
      rw [map_name_unmarkStruct]; exact (sortBy_perm _ _).map _
    · show (((sortBy (·.name) σ.multimaps).map unmarkMultimap).map (·.name)).Perm _
      rw [map_name_unmarkMultimap]; exact (sortBy_perm _ _).map _
  have htyN : ∀ ty ∈ σ.norm.allTypes, ty ∈ σ.allTypes := by
    intro ty hty
    rw [mem_allTypes] at hty ⊢
    rcases hty with ⟨s, hs, hty⟩ | ⟨mm, hmm, hty⟩
    · exact Or.inl ⟨s, (sortBy_perm _ _).mem_iff.1 hs, hty⟩
    · exact Or.inr ⟨mm, (sortBy_perm _ _).mem_iff.1 hmm, hty⟩
  have htyT : ∀ ty ∈ (unmark σ.norm).allTypes, ∃ ty2 ∈ σ.allTypes, ty2.inner = ty.inner := by
    intro ty hty
    rw [mem_allTypes] at hty
    rcases hty with ⟨s, hs, hty⟩ | ⟨mm, hmm, hty⟩
    · have hs' : s ∈ (sortBy (·.name) σ.structs).map unmarkStruct := hs
      simp only [List.mem_map] at hs'
      obtain ⟨s2, hs2, rfl⟩ := hs'
      obtain ⟨ty2, h1, h2⟩ := mem_of_map_inner_eq (unmarkStruct_types_inner s2) hty
      exact ⟨ty2, mem_allTypes.2 (Or.inl ⟨s2, (sortBy_perm _ _).mem_iff.1 hs2, h1⟩), h2⟩
    · have hmm' : mm ∈ (sortBy (·.name) σ.multimaps).map unmarkMultimap := hmm
      simp only [List.mem_map] at hmm'
      obtain ⟨m2, hm2, rfl⟩ := hmm'
      obtain ⟨ty2, h1, h2⟩ := mem_of_map_inner_eq (unmarkMultimap_types_inner m2) hty
      exact ⟨ty2, mem_allTypes.2 (Or.inr ⟨m2, (sortBy_perm _ _).mem_iff.1 hm2, h1⟩), h2⟩
  have hallT : ∀ ty ∈ (unmark σ.norm).allTypes, GoodType (unmark σ.norm) ty.inner := by
    intro ty hty
    obtain ⟨ty2, h1, h2⟩ := htyT ty hty
    rw [← h2]
    exact ⟨hnpT.res3 (hwf.refs ty2 h1), hne ty2 h1⟩
  -- fuel
  have hfuel : crFuel (unmark σ.norm) ≤ crFuel σ1 := by
    have a := S1.length_eq
    have b := M1.length_eq
    have c := List.length_filter_le (fun s : Struct => r.structs.contains s.name) σ1.structs
    have d := List.length_filter_le (fun s : Multimap => r.multimaps.contains s.name) σ1.multimaps
    simp only [crFuel]
    omega
  -- roots
  have hrootIn : ∀ s ∈ σ1.structs, s.isRoot = true → s.name ≠ [] → s.name ∈ r.structs := by
    intro s hs hsr hsn
    exact hroots2 (markStruct m s) (by rw [h2s]; exact List.mem_map_of_mem hs) hsr hsn
  have hmemT : ∀ s, s ∈ (unmark σ.norm).structs ↔ s ∈ σ1.structs ∧ s.name ∈ r.structs := by
    intro s
    rw [S1.mem_iff, List.mem_filter, List.contains_iff_mem]
  obtain ⟨hruns1, hmfold⟩ := crRoots_fold _ _ _ hm
  have hrun : ∀ s ∈ σ1.structs, s.isRoot = true → s.name ∈ r.structs →
      rootRun (unmark σ.norm) s = rootRun σ1 s := by
    intro s hs hsr hin
    have hsT : s ∈ (unmark σ.norm).structs := (hmemT s).2 ⟨hs, hin⟩
    have hfind : σ1.findStruct s.name = some s := find?_of_nodup_struct _ s hsn1 hs
    have hcov : ∀ ty ∈ s.types, Covered r ty.inner := hclS _ hin s hfind
    have hS : StackOk (unmark σ.norm) ([] ++ [s.name]) (crFuel (unmark σ.norm)) := by
      refine ⟨by simp, ?_, ?_⟩
      · intro x hx
        simp only [List.nil_append, List.mem_singleton] at hx
        subst hx
        simp only [Schema.defNames, List.mem_append, List.mem_map]
        exact Or.inl ⟨s, hsT, rfl⟩
      · rw [← defNames_length]; simp
    obtain ⟨y, hy, _, _⟩ := crEnter_ok (crType_ok hallT _ _ hS) false s.types {} rfl (by simp)
      (fun ty hty => hallT ty (mem_allTypes.2 (Or.inl ⟨s, hsT, hty⟩)))
    have h1 : crEnter (crType σ1 (crFuel (unmark σ.norm))) false s.name s.types {} = .ok y := by
      rw [← crEnter_congr (fun b st hc => crType_congr hle (crFuel (unmark σ.norm)) b st hc)
        false s.name s.types {} hcov]
      exact hy
    have h2 := crEnter_mono (crType_mono_le σ1 hfuel) false s.name s.types {} y h1
    unfold rootRun
    rw [hy, h2]
  have hm' : crRoots (unmark σ.norm) (unmark σ.norm).structs {} =
      .ok (foldRoots (rootMarks (unmark σ.norm)) (unmark σ.norm).structs {}) := by
    apply crRoots_of_runs
    intro s hs hsr
    have hs1 := (hmemT s).1 hs
    rw [hrun s hs1.1 hsr hs1.2]
    exact hruns1 s hs1.1 hsr
  -- the marks of `unmark σ.norm` are those of the roots of σ1 that are kept ...
  have heqv : (foldRoots (rootMarks (unmark σ.norm)) (unmark σ.norm).structs {}).Eqv
      (foldRoots (rootMarks σ1) (σ1.structs.filter (fun s => r.structs.contains s.name)) {}) := by
    apply foldRoots_eqv
    · intro s
      rw [hmemT, List.mem_filter, List.contains_iff_mem]
    · intro s hs hsr
      rw [List.mem_filter, List.contains_iff_mem] at hs
      unfold rootMarks
      rw [hrun s hs.1 hsr hs.2]
  -- ... and on the kept definitions these are all the marks of σ1
  obtain ⟨hKS, hKM⟩ := reach_hasChain hi1 hr
  have hOn : ∀ x, x.InK r →
      ((foldRoots (rootMarks σ1) (σ1.structs.filter (fun s => r.structs.contains s.name)) {}).has x
        ↔ m.has x) := by
    intro x hxK
    rw [hmfold, foldRoots_has, foldRoots_has]
    constructor
    · rintro (h | ⟨s, hs, hsr, hx⟩)
      · exact Or.inl h
      · exact Or.inr ⟨s, (List.mem_filter.1 hs).1, hsr, hx⟩
    · rintro (h | ⟨s0, hs0, hsr0, hx⟩)
      · exact Or.inl h
      · obtain ⟨R, hR, hRr, hRn, hRx⟩ := root_marks_reroot hi1 hKS hKM hruns1 hs0 hsr0 hx hxK
        refine Or.inr ⟨R, ?_, hRr, hRx⟩
        rw [List.mem_filter, List.contains_iff_mem]
        exact ⟨hR, hrootIn R hR hRr hRn⟩
  refine ⟨?_, ?_⟩
  · -- marks
    unfold computeRecursive
    rw [hm']
    simp only [Except.ok.injEq]
    rw [applyMarks_eq]
    have e1 : (unmark σ.norm).structs.map
        (markStruct (foldRoots (rootMarks (unmark σ.norm)) (unmark σ.norm).structs {}))
        = sortBy (·.name) σ.structs := by
      show ((sortBy (·.name) σ.structs).map unmarkStruct).map _ = _
      rw [List.map_map]
      conv => rhs; rw [← List.map_id (sortBy (·.name) σ.structs)]
      apply List.map_congr_left
      intro s2 hs2
      have hs2' := (sortBy_perm _ _).mem_iff.1 hs2
      rw [hσs, List.mem_filter, List.mem_map] at hs2'
      obtain ⟨⟨s1, hs1, rfl⟩, hin⟩ := hs2'
      simp only [Function.comp, id]
      rw [unmark_markStruct m (hnf.structs s1 hs1).1 (hnf.structs s1 hs1).2]
      rw [markStruct_congr heqv s1]
      have hin' : (markStruct m s1).name ∈ r.structs := by simpa using hin
      exact markStruct_congrOn hOn s1 hin'
    have e2 : (unmark σ.norm).multimaps.map
        (markMultimap (foldRoots (rootMarks (unmark σ.norm)) (unmark σ.norm).structs {}))
        = sortBy (·.name) σ.multimaps := by
      show ((sortBy (·.name) σ.multimaps).map unmarkMultimap).map _ = _
      rw [List.map_map]
      conv => rhs; rw [← List.map_id (sortBy (·.name) σ.multimaps)]
      apply List.map_congr_left
      intro s2 hs2
      have hs2' := (sortBy_perm _ _).mem_iff.1 hs2
      rw [hσm, List.mem_filter, List.mem_map] at hs2'
      obtain ⟨⟨s1, hs1, rfl⟩, hin⟩ := hs2'
      simp only [Function.comp, id]
      rw [unmark_markMultimap m (hnf.multimaps s1 hs1).1 (hnf.multimaps s1 hs1).2]
      rw [markMultimap_congr heqv s1]
      refine markMultimap_congrOn hOn s1 ?_
      rw [(markMultimap_spec m s1).1] at hin
      simpa using hin
    rw [e1, e2]
    rfl
  · -- pruning
    have hallN : ∀ ty ∈ σ.norm.allTypes, Lookup σ.norm ty.inner :=
      fun ty hty => res3_lookup (hnpN.res3 (hwf.refs ty (htyN ty hty)))
    obtain ⟨hsnN, hmnN⟩ := structs_names_nodup (hnpN.top hwf.top_unique)
    obtain ⟨r', hr'⟩ := mrRoots_ok (σ := σ.norm) σ.norm.structs {}
      ⟨by simp, by simp, by simp, by simp⟩
    have hok' := mrRoots_reachOk _ _ _ ⟨by simp, by simp, by simp, by simp⟩ hr'
    have hclN := mrRoots_spec hallN _ {} r' hr' (fun _ h => h) ⟨by simp, by simp⟩
    obtain ⟨_, hrootsN⟩ := mrRoots_roots hallN _ _ _ hr' (fun _ h => h)
    have hNs : ∀ s, s ∈ σ.norm.structs ↔ s ∈ σ.structs := fun s => (sortBy_perm _ _).mem_iff
    have hNm : ∀ s, s ∈ σ.norm.multimaps ↔ s ∈ σ.multimaps := fun s => (sortBy_perm _ _).mem_iff
    have hNe : ∀ s, s ∈ σ.norm.enums ↔ s ∈ σ.enums := fun s => (sortBy_perm _ _).mem_iff
    have hσs2 : ∀ s, s ∈ σ.structs ↔ s ∈ (applyMarks σ1 m).structs ∧ s.name ∈ r.structs := by
      intro s; rw [hσs, List.mem_filter, List.contains_iff_mem, h2s]
    have hσm2 : ∀ s, s ∈ σ.multimaps ↔ s ∈ (applyMarks σ1 m).multimaps ∧ s.name ∈ r.multimaps := by
      intro s; rw [hσm, List.mem_filter, List.contains_iff_mem, h2m]
    -- r' is closed in σ2
    have hcS : ∀ n ∈ r'.structs, ∀ s, (applyMarks σ1 m).findStruct n = some s →
        ∀ ty ∈ s.types, Covered r' ty.inner := by
      intro n hn s hs
      have hnN := hok'.2.1 hn
      simp only [List.mem_map] at hnN
      obtain ⟨sN, hsN, hname⟩ := hnN
      have h2 : sN ∈ (applyMarks σ1 m).structs := ((hσs2 sN).1 ((hNs sN).1 hsN)).1
      have hf2 := find?_of_nodup_struct _ sN hsn2 h2
      have hfN := find?_of_nodup_struct _ sN hsnN hsN
      rw [hname] at hf2 hfN
      have : s = sN := by
        have : (applyMarks σ1 m).findStruct n = some sN := hf2
        rw [hs] at this; exact Option.some.inj this
      subst this
      exact hclN.1 n hn (by simp) s hfN
    have hcM : ∀ n ∈ r'.multimaps, ∀ mm, (applyMarks σ1 m).findMultimap n = some mm →
        ∀ ty ∈ mm.types, Covered r' ty.inner := by
      intro n hn mm hs
      have hnN := hok'.2.2.2 hn
      simp only [List.mem_map] at hnN
      obtain ⟨sN, hsN, hname⟩ := hnN
      have h2 : sN ∈ (applyMarks σ1 m).multimaps := ((hσm2 sN).1 ((hNm sN).1 hsN)).1
      have hf2 := find?_of_nodup_multimap _ sN hmn2 h2
      have hfN := find?_of_nodup_multimap _ sN hmnN hsN
      rw [hname] at hf2 hfN
      have : mm = sN := by
        have : (applyMarks σ1 m).findMultimap n = some sN := hf2
        rw [hs] at this; exact Option.some.inj this
      subst this
      exact hclN.2 n hn (by simp) mm hfN
    have hrr' : r.le r' := by
      refine mrRoots_min hcS hcM _ _ _ hr ?_ ⟨by simp, by simp, by simp⟩
      intro s hs hsr hsn
      have hin := hroots2 s hs hsr hsn
      exact hrootsN s ((hNs s).2 ((hσs2 s).2 ⟨hs, hin⟩)) hsr hsn
    unfold pruneUnused
    rw [hr']
    simp only [Option.some.injEq]
    have f1 : σ.norm.structs.filter (fun s => r'.structs.contains s.name) = σ.norm.structs := by
      rw [List.filter_eq_self]
      intro s hs
      rw [List.contains_iff_mem]
      exact hrr'.1 ((hσs2 s).1 ((hNs s).1 hs)).2
    have f2 : σ.norm.multimaps.filter (fun s => r'.multimaps.contains s.name) = σ.norm.multimaps := by
      rw [List.filter_eq_self]
      intro s hs
      rw [List.contains_iff_mem]
      exact hrr'.2.1 ((hσm2 s).1 ((hNm s).1 hs)).2
    have f3 : σ.norm.enums.filter (fun s => r'.enums.contains s.name) = σ.norm.enums := by
      rw [List.filter_eq_self]
      intro s hs
      rw [List.contains_iff_mem]
      have := (hNe s).1 hs
      rw [hσe, List.mem_filter, List.contains_iff_mem] at this
      exact hrr'.2.2 this.2
    rw [f1, f2, f3]

/-- the pipeline of `parseTokens`, opened up. -/
theorem parseTokens_stages {ts : List Token} {σ : Schema} (h : parseTokens ts = .ok σ) :
    ∃ σ0 ts0 σ1 m r, grammar ts = .ok σ0 ts0 ∧ resolveRefs σ0 = .ok σ1 ∧
      crRoots σ1 σ1.structs {} = .ok m ∧
      mrRoots (applyMarks σ1 m) (applyMarks σ1 m).structs {} = some r ∧
      σ.structs = (σ1.structs.map (markStruct m)).filter (fun s => r.structs.contains s.name) ∧
      σ.multimaps =
        (σ1.multimaps.map (markMultimap m)).filter (fun mm => r.multimaps.contains mm.name) ∧
      σ.enums = σ1.enums.filter (fun e => r.enums.contains e.name) := by
  unfold parseTokens at h
  split at h
  · cases h
  · rename_i σ0 ts0 hg
    split at h
    · cases h
    · rename_i σ1 hres
      split at h
      · cases h
      · rename_i σ2 hcr
        split at h
        · cases h
        · rename_i σ3 hp
          cases h
          unfold computeRecursive at hcr
          split at hcr
          · cases hcr
          · rename_i m hm
            cases hcr
            unfold pruneUnused at hp
            split at hp
            · cases hp
            · rename_i r hr
              cases hp
              exact ⟨σ0, ts0, σ1, m, r, hg, hres, hm, hr, rfl, rfl, rfl⟩

/-- re-running the recursion marking and the pruning on the (name-sorted) accepted schema changes
    nothing. -/
theorem parseTokens_fixpoint {ts : List Token} {σ : Schema} (h : parseTokens ts = .ok σ) :
    computeRecursive (unmark σ.norm) = .ok σ.norm ∧ pruneUnused σ.norm = some σ.norm := by
  obtain ⟨σ0, ts0, σ1, m, r, hg, hres, hm, hr, e1, e2, e3⟩ := parseTokens_stages h
  have hi1 := resolveRefs_inv (grammar_inv hg) hres
  have hnf := resolveRefs_noflags (grammar_noflags hg) hres
  exact fix_core hi1 hnf hm hr e1 e2 e3 (parseTokens_wf0 h) (parseTokens_noEmpty h)

theorem parseTokens_fix_marks {ts : List Token} {σ : Schema} (h : parseTokens ts = .ok σ) :
    computeRecursive (unmark σ.norm) = .ok σ.norm := (parseTokens_fixpoint h).1

theorem parseTokens_fix_prune {ts : List Token} {σ : Schema} (h : parseTokens ts = .ok σ) :
    pruneUnused σ.norm = some σ.norm := (parseTokens_fixpoint h).2

/-- the same for `idl.Parse`. -/
theorem parse_fixpoint {t : List Char} {σ : Schema} (h : parse t = .ok σ) :
    computeRecursive (unmark σ.norm) = .ok σ.norm ∧ pruneUnused σ.norm = some σ.norm :=
  parseTokens_fixpoint h

end Stef.Idl
