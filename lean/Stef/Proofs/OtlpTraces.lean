/-
  Helper lemmas for the traces converter model (Stef/Otlp/Traces.lean).
-/
import Stef.Proofs.OtlpValue

namespace Stef.Otlp

/-! ### number of records written -/

theorem writeSpans_len (sorted : Bool) : ∀ (ss : List Span) (st : TState),
    (writeSpans sorted ss st).out.length = st.out.length + ss.length
  | [], st => by simp [writeSpans]
  | s :: ss, st => by
    simp only [writeSpans]
    rw [writeSpans_len sorted ss]
    simp only [List.length_cons]
    omega

def spanCountScopes (l : List ScopeSpans) : Nat := (l.map fun s => s.spans.length).sum
def spanCountResources (l : List ResourceSpans) : Nat := (l.map fun r => spanCountScopes r.scopes).sum

theorem writeScopeSpans_len (sorted : Bool) : ∀ (l : List ScopeSpans) (st : TState),
    (writeScopeSpans sorted l st).out.length = st.out.length + spanCountScopes l
  | [], st => by simp [writeScopeSpans, spanCountScopes]
  | s :: l, st => by
    simp only [writeScopeSpans]
    rw [writeScopeSpans_len sorted l, writeSpans_len]
    simp only [spanCountScopes, List.map_cons, List.sum_cons]
    omega

theorem writeResourceSpans_len (sorted : Bool) : ∀ (l : List ResourceSpans) (st : TState),
    (writeResourceSpans sorted l st).out.length = st.out.length + spanCountResources l
  | [], st => by simp [writeResourceSpans, spanCountResources]
  | r :: l, st => by
    simp only [writeResourceSpans]
    rw [writeResourceSpans_len sorted l, writeScopeSpans_len]
    simp only [spanCountResources, List.map_cons, List.sum_cons]
    omega

theorem flattenSpans_length (t : Traces) : (flattenSpans t).length = spanCountResources t.rss := by
  unfold flattenSpans spanCountResources spanCountScopes
  simp only [List.length_flatten, List.map_map]
  congr 1
  apply List.map_congr_left
  intro r _
  simp only [Function.comp, List.length_flatten, List.map_map]
  congr 1
  apply List.map_congr_left
  intro s _
  simp [Function.comp]

end Stef.Otlp


namespace Stef.Otlp

/-! ### content of the records (both modes): every record is exactly the expected record of its
    span, for every batch - the converter overwrites every field and every revealed array element -/

def eventRec (e : Event) : EventRec := { name := e.name, ts := e.ts, attrs := e.attrs, dropped := e.dropped }
def linkRec (l : Link) : LinkRec :=
  { traceID := idText l.traceID, spanID := idText l.spanID, traceState := l.traceState, flags := l.flags, attrs := l.attrs,
    dropped := l.dropped }

theorem convEvent_spec (e : Event) (d : SEvent) : (convEvent e d).toRec = eventRec e := by
  simp [convEvent, SEvent.toRec, eventRec, mapUnsorted_spec]

theorem convEvents_spec : ∀ (es : List Event) (st : List SEvent),
    ((convEvents es st).take es.length).map SEvent.toRec = es.map eventRec
  | [], st => by simp [convEvents]
  | e :: es, d :: ds => by simp [convEvents, convEvent_spec e d, convEvents_spec es ds]
  | e :: es, [] => by simp [convEvents, convEvent_spec e {}, convEvents_spec es []]

theorem convLink_spec (l : Link) (d : SLink) : (convLink l d).toRec = linkRec l := by
  simp [convLink, SLink.toRec, linkRec, mapUnsorted_spec]

theorem convLinks_spec : ∀ (ls : List Link) (st : List SLink),
    ((convLinks ls st).take ls.length).map SLink.toRec = ls.map linkRec
  | [], st => by simp [convLinks]
  | l :: ls, d :: ds => by simp [convLinks, convLink_spec l d, convLinks_spec ls ds]
  | l :: ls, [] => by simp [convLinks, convLink_spec l {}, convLinks_spec ls []]

/-- the record held after converting span `sp` into a record whose resource and scope parts are
    `res`, `sc` -/
def recordOf (sorted : Bool) (res : STRes) (sc : STScope) (sp : Span) : SpanRecord :=
  { resURL := res.url, resAttrs := res.attrs.visible, resDropped := res.dropped,
    scName := sc.name, scVer := sc.ver, scURL := sc.url, scAttrs := sc.attrs.visible, scDropped := sc.dropped,
    traceID := idText sp.traceID, spanID := idText sp.spanID, parent := idText sp.parent, traceState := sp.traceState,
    flags := sp.flags, name := sp.name, kind := sp.kind, start := sp.start, stop := sp.stop,
    attrs := if sorted then sp.attrs.sortByKey else sp.attrs, dropped := sp.dropped, statusMsg := sp.statusMsg,
    statusCode := sp.statusCode, events := sp.events.map eventRec, links := sp.links.map linkRec }

theorem convSpan_spec (sorted : Bool) (sp : Span) (cur : STRecord) :
    ({ cur with span := convSpan sorted sp cur.span } : STRecord).visible = recordOf sorted cur.resource cur.scope sp := by
  have he := convEvents_spec sp.events (evEnsureLen cur.span.evStore cur.span.evLen sp.events.length)
  have hl := convLinks_spec sp.links (lnEnsureLen cur.span.lnStore cur.span.lnLen sp.links.length)
  cases sorted
  · simp [STRecord.visible, recordOf, convSpan, mapUnsorted_spec, he, hl]
  · simp [STRecord.visible, recordOf, convSpan, mapSorted_spec, he, hl]

theorem writeSpans_spec (sorted : Bool) : ∀ (ss : List Span) (st : TState),
    (writeSpans sorted ss st).out = (ss.map (recordOf sorted st.cur.resource st.cur.scope)).reverse ++ st.out ∧
    (writeSpans sorted ss st).cur.resource = st.cur.resource ∧ (writeSpans sorted ss st).cur.scope = st.cur.scope
  | [], st => by simp [writeSpans]
  | s :: ss, st => by
    have h1 := convSpan_spec sorted s st.cur
    have h2 := writeSpans_spec sorted ss
      { cur := { st.cur with span := convSpan sorted s st.cur.span },
        out := ({ st.cur with span := convSpan sorted s st.cur.span } : STRecord).visible :: st.out }
    simp only [writeSpans]
    refine ⟨?_, h2.2.1, h2.2.2⟩
    rw [h2.1, h1]
    simp

/-- the resource part of the writer's record shows resource `r` -/
def ShowsRes (res : STRes) (r : ResourceSpans) : Prop :=
  res.url = r.url ∧ res.attrs.visible = r.attrs ∧ res.dropped = r.dropped

theorem recordOf_eq_expected (sorted : Bool) {res : STRes} {r : ResourceSpans} (h : ShowsRes res r) (sc : STScope)
    (s : ScopeSpans)
    (hs : sc.url = s.url ∧ sc.name = s.name ∧ sc.ver = s.ver ∧ sc.attrs.visible = s.attrs ∧ sc.dropped = s.dropped)
    (sp : Span) : recordOf sorted res sc sp = expectedRecord r s sp sorted := by
  obtain ⟨h1, h2, h3⟩ := h
  obtain ⟨s1, s2, s3, s4, s5⟩ := hs
  simp [recordOf, expectedRecord, h1, h2, h3, s1, s2, s3, s4, s5, eventRec, linkRec]

theorem writeScopeSpans_spec (sorted : Bool) (r : ResourceSpans) : ∀ (l : List ScopeSpans) (st : TState),
    ShowsRes st.cur.resource r →
    (writeScopeSpans sorted l st).out
      = ((l.map fun s => s.spans.map fun sp => expectedRecord r s sp sorted).flatten).reverse ++ st.out ∧
    (writeScopeSpans sorted l st).cur.resource = st.cur.resource
  | [], st, _ => by simp [writeScopeSpans]
  | s :: l, st, hr => by
    let sc : STScope := { url := s.url, name := s.name, ver := s.ver,
                          attrs := SAttrs.mapUnsorted s.attrs st.cur.scope.attrs, dropped := s.dropped }
    have h1 := writeSpans_spec sorted s.spans { st with cur := { st.cur with scope := sc } }
    have hr' : ShowsRes (writeSpans sorted s.spans { st with cur := { st.cur with scope := sc } }).cur.resource r := by
      rw [h1.2.1]; exact hr
    have h2 := writeScopeSpans_spec sorted r l _ hr'
    simp only [writeScopeSpans]
    refine ⟨?_, ?_⟩
    · rw [h2.1, h1.1]
      have : (s.spans.map (recordOf sorted st.cur.resource sc)) = s.spans.map (fun sp => expectedRecord r s sp sorted) := by
        apply List.map_congr_left
        intro sp _
        exact recordOf_eq_expected sorted hr sc s ⟨rfl, rfl, rfl, mapUnsorted_spec _ _, rfl⟩ sp
      simp [this]
    · rw [h2.2, h1.2.1]

theorem writeResourceSpans_spec (sorted : Bool) : ∀ (l : List ResourceSpans) (st : TState),
    (writeResourceSpans sorted l st).out
      = ((l.map fun r => (r.scopes.map fun s => s.spans.map fun sp => expectedRecord r s sp sorted).flatten).flatten).reverse
        ++ st.out
  | [], st => by simp [writeResourceSpans]
  | r :: l, st => by
    let res : STRes := { url := r.url, attrs := SAttrs.mapUnsorted r.attrs st.cur.resource.attrs, dropped := r.dropped }
    have h1 := writeScopeSpans_spec sorted r r.scopes { st with cur := { st.cur with resource := res } }
      ⟨rfl, mapUnsorted_spec _ _, rfl⟩
    have h2 := writeResourceSpans_spec sorted l
      (writeScopeSpans sorted r.scopes { st with cur := { st.cur with resource := res } })
    simp only [writeResourceSpans]
    rw [h2, h1.1]
    simp

end Stef.Otlp

namespace Stef.Otlp

/-! ### ids: the hex text determines the id -/

theorem hexDigitByte_inj {a b : Nat} (ha : a < 16) (hb : b < 16) (h : hexDigitByte a = hexDigitByte b) : a = b := by
  unfold hexDigitByte at h
  split at h <;> split at h <;> omega

theorem hexText_inj : ∀ (a b : Str), a.length = b.length → (∀ x ∈ a, x < 256) → (∀ x ∈ b, x < 256) →
    hexText a = hexText b → a = b
  | [], [], _, _, _, _ => rfl
  | [], _ :: _, hl, _, _, _ => by simp at hl
  | _ :: _, [], hl, _, _, _ => by simp at hl
  | x :: a, y :: b, hl, ha, hb, h => by
    simp only [hexText, List.cons.injEq] at h
    have hx : x < 256 := ha x (by simp)
    have hy : y < 256 := hb y (by simp)
    have h1 := hexDigitByte_inj (by omega) (by omega) h.1
    have h2 := hexDigitByte_inj (Nat.mod_lt _ (by omega)) (Nat.mod_lt _ (by omega)) h.2.1
    have hxy : x = y := by omega
    have ht := hexText_inj a b (by simpa using hl) (fun z hz => ha z (by simp [hz])) (fun z hz => hb z (by simp [hz])) h.2.2
    rw [hxy, ht]

theorem allZero_eq : ∀ (a b : Str), a.length = b.length → allZero a = true → allZero b = true → a = b
  | [], [], _, _, _ => rfl
  | [], _ :: _, hl, _, _ => by simp at hl
  | _ :: _, [], hl, _, _ => by simp at hl
  | x :: a, y :: b, hl, ha, hb => by
    simp only [allZero, Bool.and_eq_true, beq_iff_eq] at ha hb
    rw [ha.1, hb.1, allZero_eq a b (by simpa using hl) ha.2 hb.2]

theorem hexText_nil : ∀ (a : Str), hexText a = [] → a = []
  | [], _ => rfl
  | _ :: _, h => by simp [hexText] at h

/-- two ids of the same size with the same text are the same id: a reader recovers the id exactly -/
theorem idText_inj (n : Nat) (a b : Str) (ha : idOk n a = true) (hb : idOk n b = true) (h : idText a = idText b) :
    a = b := by
  simp only [idOk, Bool.and_eq_true, beq_iff_eq, List.all_eq_true, decide_eq_true_eq] at ha hb
  have hl : a.length = b.length := by rw [ha.1, hb.1]
  unfold idText at h
  by_cases za : allZero a = true <;> by_cases zb : allZero b = true
  · exact allZero_eq a b hl za zb
  · simp only [za, zb, if_true] at h
    have := hexText_nil b (by simpa using h.symm)
    subst this
    simp [allZero] at zb
  · simp only [za, zb, if_true] at h
    have := hexText_nil a (by simpa using h)
    subst this
    simp [allZero] at za
  · simp only [za, zb] at h
    exact hexText_inj a b hl ha.2 hb.2 (by simpa using h)

end Stef.Otlp
