/-
  Helper lemmas for the traces converter model (Stef/Otlp/Traces.lean).
-/
import Stef.Proofs.OtlpValue

namespace Stef.Otlp

/-! ### number of records written -/

theorem writeSpans_len (sorted : Bool) : ∀ (ss : List Span) (st : TState),
    (writeSpans sorted ss st).out.length = st.out.length + ss.length
  | [], st => by simp [writeSpans]
  | s :: ss, st => by
    simp only [writeSpans]
    rw [writeSpans_len sorted ss]
    simp only [List.length_cons]
    omega

def spanCountScopes (l : List ScopeSpans) : Nat := (l.map fun s => s.spans.length).sum
def spanCountResources (l : List ResourceSpans) : Nat := (l.map fun r => spanCountScopes r.scopes).sum

theorem writeScopeSpans_len (sorted : Bool) : ∀ (l : List ScopeSpans) (st : TState),
    (writeScopeSpans sorted l st).out.length = st.out.length + spanCountScopes l
  | [], st => by simp [writeScopeSpans, spanCountScopes]
  | s :: l, st => by
    simp only [writeScopeSpans]
    rw [writeScopeSpans_len sorted l, writeSpans_len]
    simp only [spanCountScopes, List.map_cons, List.sum_cons]
    omega

theorem writeResourceSpans_len (sorted : Bool) : ∀ (l : List ResourceSpans) (st : TState),
    (writeResourceSpans sorted l st).out.length = st.out.length + spanCountResources l
  | [], st => by simp [writeResourceSpans, spanCountResources]
  | r :: l, st => by
    simp only [writeResourceSpans]
    rw [writeResourceSpans_len sorted l, writeScopeSpans_len]
    simp only [spanCountResources, List.map_cons, List.sum_cons]
    omega

theorem flattenSpans_length (t : Traces) : (flattenSpans t).length = spanCountResources t.rss := by
  unfold flattenSpans spanCountResources spanCountScopes
  simp only [List.length_flatten, List.map_map]
  congr 1
  apply List.map_congr_left
  intro r _
  simp only [Function.comp, List.length_flatten, List.map_map]
  congr 1
  apply List.map_congr_left
  intro s _
  simp [Function.comp]

end Stef.Otlp

namespace Stef.Otlp

/-! ### content of the records (plain mode) -/

def SEvent.nnz (e : SEvent) : Bool := e.attrs.nnz
def SLink.nnz (l : SLink) : Bool := l.attrs.nnz

def STRecord.nnz (r : STRecord) : Bool :=
  r.resource.attrs.nnz && r.scope.attrs.nnz && r.span.attrs.nnz && r.span.evStore.all SEvent.nnz &&
  r.span.lnStore.all SLink.nnz

theorem nnz_empty_attrs : ({} : SAttrs).nnz = true := by simp [SAttrs.nnz, SKVs.nnz]

theorem evEnsure_nnz : ∀ (n : Nat) (st : List SEvent), st.all SEvent.nnz = true → (evEnsure n st).all SEvent.nnz = true
  | 0, st, h => by simpa [evEnsure] using h
  | n + 1, [], _ => by
    have := evEnsure_nnz n [] (by simp)
    simp [evEnsure, SEvent.nnz, nnz_empty_attrs, this]
  | n + 1, e :: t, h => by
    simp only [List.all_cons, Bool.and_eq_true] at h
    simp [evEnsure, h.1, evEnsure_nnz n t h.2]

theorem evResetRange_nnz : ∀ (st : List SEvent) (lo c : Nat), st.all SEvent.nnz = true →
    (evResetRange lo c st).all SEvent.nnz = true
  | [], lo, c, _ => by cases lo <;> cases c <;> simp [evResetRange]
  | e :: t, 0, 0, h => by simpa [evResetRange] using h
  | e :: t, 0, c + 1, h => by
    simp only [List.all_cons, Bool.and_eq_true] at h
    have h1 : e.reset.nnz = true := by simpa [SEvent.nnz, SEvent.reset, SAttrs.nnz] using h.1
    simp [evResetRange, h1, evResetRange_nnz t 0 c h.2]
  | e :: t, lo + 1, c, h => by
    simp only [List.all_cons, Bool.and_eq_true] at h
    simp [evResetRange, h.1, evResetRange_nnz t lo c h.2]

theorem evEnsureLen_nnz (st : List SEvent) (len n : Nat) (h : st.all SEvent.nnz = true) :
    (evEnsureLen st len n).all SEvent.nnz = true :=
  evResetRange_nnz _ _ _ (evEnsure_nnz n st h)

theorem lnEnsure_nnz : ∀ (n : Nat) (st : List SLink), st.all SLink.nnz = true → (lnEnsure n st).all SLink.nnz = true
  | 0, st, h => by simpa [lnEnsure] using h
  | n + 1, [], _ => by
    have := lnEnsure_nnz n [] (by simp)
    simp [lnEnsure, SLink.nnz, nnz_empty_attrs, this]
  | n + 1, e :: t, h => by
    simp only [List.all_cons, Bool.and_eq_true] at h
    simp [lnEnsure, h.1, lnEnsure_nnz n t h.2]

theorem lnResetRange_nnz : ∀ (st : List SLink) (lo c : Nat), st.all SLink.nnz = true →
    (lnResetRange lo c st).all SLink.nnz = true
  | [], lo, c, _ => by cases lo <;> cases c <;> simp [lnResetRange]
  | e :: t, 0, 0, h => by simpa [lnResetRange] using h
  | e :: t, 0, c + 1, h => by
    simp only [List.all_cons, Bool.and_eq_true] at h
    have h1 : e.reset.nnz = true := by simpa [SLink.nnz, SLink.reset, SAttrs.nnz] using h.1
    simp [lnResetRange, h1, lnResetRange_nnz t 0 c h.2]
  | e :: t, lo + 1, c, h => by
    simp only [List.all_cons, Bool.and_eq_true] at h
    simp [lnResetRange, h.1, lnResetRange_nnz t lo c h.2]

theorem lnEnsureLen_nnz (st : List SLink) (len n : Nat) (h : st.all SLink.nnz = true) :
    (lnEnsureLen st len n).all SLink.nnz = true :=
  lnResetRange_nnz _ _ _ (lnEnsure_nnz n st h)

def eventRec (e : Event) : EventRec := { name := e.name, ts := e.ts, attrs := e.attrs, dropped := e.dropped }
def linkRec (l : Link) : LinkRec :=
  { traceID := idText l.traceID, spanID := idText l.spanID, traceState := l.traceState, flags := l.flags, attrs := l.attrs,
    dropped := l.dropped }

theorem clean_small_nnz {a : KVs} (h : a.clean = true) : a.small = true ∧ a.nnz = true := by
  simp only [KVs.clean, Bool.and_eq_true] at h
  exact ⟨h.1.2, h.2⟩

theorem convEvent_spec (e : Event) (d : SEvent) (hc : e.clean = true) (hd : d.nnz = true) :
    (convEvent e d).toRec = eventRec e ∧ (convEvent e d).nnz = true := by
  have h := mapUnsorted_spec e.attrs d.attrs (clean_small_nnz hc).1 (clean_small_nnz hc).2 hd
  simp [convEvent, SEvent.toRec, eventRec, SEvent.nnz, h.1, h.2]

theorem convEvents_spec : ∀ (es : List Event) (st : List SEvent), es.all Event.clean = true → st.all SEvent.nnz = true →
    ((convEvents es st).take es.length).map SEvent.toRec = es.map eventRec ∧ (convEvents es st).all SEvent.nnz = true
  | [], st, _, hs => by simp [convEvents, hs]
  | e :: es, d :: ds, hc, hs => by
    simp only [List.all_cons, Bool.and_eq_true] at hc hs
    have h1 := convEvent_spec e d hc.1 hs.1
    have h2 := convEvents_spec es ds hc.2 hs.2
    simp [convEvents, h1.1, h1.2, h2.1, h2.2]
  | e :: es, [], hc, _ => by
    simp only [List.all_cons, Bool.and_eq_true] at hc
    have h1 := convEvent_spec e {} hc.1 (by simp [SEvent.nnz, nnz_empty_attrs])
    have h2 := convEvents_spec es [] hc.2 (by simp)
    simp [convEvents, h1.1, h1.2, h2.1, h2.2]

theorem convLink_spec (l : Link) (d : SLink) (hc : l.clean = true) (hd : d.nnz = true) :
    (convLink l d).toRec = linkRec l ∧ (convLink l d).nnz = true := by
  simp only [Link.clean, Bool.and_eq_true] at hc
  have h := mapUnsorted_spec l.attrs d.attrs (clean_small_nnz hc.1.1).1 (clean_small_nnz hc.1.1).2 hd
  simp [convLink, SLink.toRec, linkRec, SLink.nnz, h.1, h.2]

theorem convLinks_spec : ∀ (ls : List Link) (st : List SLink), ls.all Link.clean = true → st.all SLink.nnz = true →
    ((convLinks ls st).take ls.length).map SLink.toRec = ls.map linkRec ∧ (convLinks ls st).all SLink.nnz = true
  | [], st, _, hs => by simp [convLinks, hs]
  | l :: ls, d :: ds, hc, hs => by
    simp only [List.all_cons, Bool.and_eq_true] at hc hs
    have h1 := convLink_spec l d hc.1 hs.1
    have h2 := convLinks_spec ls ds hc.2 hs.2
    simp [convLinks, h1.1, h1.2, h2.1, h2.2]
  | l :: ls, [], hc, _ => by
    simp only [List.all_cons, Bool.and_eq_true] at hc
    have h1 := convLink_spec l {} hc.1 (by simp [SLink.nnz, nnz_empty_attrs])
    have h2 := convLinks_spec ls [] hc.2 (by simp)
    simp [convLinks, h1.1, h1.2, h2.1, h2.2]

/-- the record held after converting span `sp` into a record whose resource and scope parts show
    `(r, s)` -/
def recordOf (sorted : Bool) (res : STRes) (sc : STScope) (sp : Span) : SpanRecord :=
  { resURL := res.url, resAttrs := res.attrs.visible, resDropped := res.dropped,
    scName := sc.name, scVer := sc.ver, scURL := sc.url, scAttrs := sc.attrs.visible, scDropped := sc.dropped,
    traceID := idText sp.traceID, spanID := idText sp.spanID, parent := idText sp.parent, traceState := sp.traceState,
    flags := sp.flags, name := sp.name, kind := sp.kind, start := sp.start, stop := sp.stop,
    attrs := if sorted then sp.attrs.sortByKey else sp.attrs, dropped := sp.dropped, statusMsg := sp.statusMsg,
    statusCode := sp.statusCode, events := sp.events.map eventRec, links := sp.links.map linkRec }

theorem convSpan_spec (sorted : Bool) (sp : Span) (cur : STRecord) (hc : sp.clean = true) (hn : cur.nnz = true) :
    ({ cur with span := convSpan sorted sp cur.span } : STRecord).visible = recordOf sorted cur.resource cur.scope sp ∧
    ({ cur with span := convSpan sorted sp cur.span } : STRecord).nnz = true := by
  simp only [Span.clean, Bool.and_eq_true] at hc
  simp only [STRecord.nnz, Bool.and_eq_true] at hn
  have ha := mapUnsorted_spec sp.attrs cur.span.attrs (clean_small_nnz hc.1.1.1.1.1).1 (clean_small_nnz hc.1.1.1.1.1).2 hn.1.1.2
  have hb := mapSorted_spec sp.attrs cur.span.attrs (clean_small_nnz hc.1.1.1.1.1).1 (clean_small_nnz hc.1.1.1.1.1).2 hn.1.1.2
  have he := convEvents_spec sp.events (evEnsureLen cur.span.evStore cur.span.evLen sp.events.length) hc.1.2
    (evEnsureLen_nnz _ _ _ hn.1.2)
  have hl := convLinks_spec sp.links (lnEnsureLen cur.span.lnStore cur.span.lnLen sp.links.length) hc.2
    (lnEnsureLen_nnz _ _ _ hn.2)
  cases sorted
  · constructor
    · simp [STRecord.visible, recordOf, convSpan, ha.1, he.1, hl.1]
    · simp [STRecord.nnz, convSpan, ha.2, he.2, hl.2, hn.1.1.1.1, hn.1.1.1.2]
  · constructor
    · simp [STRecord.visible, recordOf, convSpan, hb.1, he.1, hl.1]
    · simp [STRecord.nnz, convSpan, hb.2, he.2, hl.2, hn.1.1.1.1, hn.1.1.1.2]

theorem writeSpans_spec (sorted : Bool) : ∀ (ss : List Span) (st : TState), ss.all Span.clean = true → st.cur.nnz = true →
    (writeSpans sorted ss st).out = (ss.map (recordOf sorted st.cur.resource st.cur.scope)).reverse ++ st.out ∧
    (writeSpans sorted ss st).cur.nnz = true ∧
    (writeSpans sorted ss st).cur.resource = st.cur.resource ∧ (writeSpans sorted ss st).cur.scope = st.cur.scope
  | [], st, _, hn => by simp [writeSpans, hn]
  | s :: ss, st, hc, hn => by
    simp only [List.all_cons, Bool.and_eq_true] at hc
    have h1 := convSpan_spec sorted s st.cur hc.1 hn
    have h2 := writeSpans_spec sorted ss
      { cur := { st.cur with span := convSpan sorted s st.cur.span },
        out := ({ st.cur with span := convSpan sorted s st.cur.span } : STRecord).visible :: st.out } hc.2 h1.2
    simp only [writeSpans]
    refine ⟨?_, h2.2.1, h2.2.2.1, h2.2.2.2⟩
    rw [h2.1, h1.1]
    simp

end Stef.Otlp

namespace Stef.Otlp

/-- the resource part of the writer's record shows resource `r` -/
def ShowsRes (res : STRes) (r : ResourceSpans) : Prop :=
  res.url = r.url ∧ res.attrs.visible = r.attrs ∧ res.dropped = r.dropped

theorem recordOf_eq_expected (sorted : Bool) {res : STRes} {r : ResourceSpans} (h : ShowsRes res r) (sc : STScope)
    (s : ScopeSpans)
    (hs : sc.url = s.url ∧ sc.name = s.name ∧ sc.ver = s.ver ∧ sc.attrs.visible = s.attrs ∧ sc.dropped = s.dropped)
    (sp : Span) : recordOf sorted res sc sp = expectedRecord r s sp sorted := by
  obtain ⟨h1, h2, h3⟩ := h
  obtain ⟨s1, s2, s3, s4, s5⟩ := hs
  simp [recordOf, expectedRecord, h1, h2, h3, s1, s2, s3, s4, s5, eventRec, linkRec]

theorem writeScopeSpans_spec (sorted : Bool) (r : ResourceSpans) : ∀ (l : List ScopeSpans) (st : TState),
    l.all ScopeSpans.clean = true → st.cur.nnz = true → ShowsRes st.cur.resource r →
    (writeScopeSpans sorted l st).out
      = ((l.map fun s => s.spans.map fun sp => expectedRecord r s sp sorted).flatten).reverse ++ st.out ∧
    (writeScopeSpans sorted l st).cur.nnz = true ∧ (writeScopeSpans sorted l st).cur.resource = st.cur.resource
  | [], st, _, hn, _ => by simp [writeScopeSpans, hn]
  | s :: l, st, hc, hn, hr => by
    simp only [List.all_cons, Bool.and_eq_true, ScopeSpans.clean] at hc
    simp only [STRecord.nnz, Bool.and_eq_true] at hn
    have ha := mapUnsorted_spec s.attrs st.cur.scope.attrs (clean_small_nnz hc.1.1).1 (clean_small_nnz hc.1.1).2 hn.1.1.1.2
    let sc : STScope := { url := s.url, name := s.name, ver := s.ver,
                          attrs := SAttrs.mapUnsorted s.attrs st.cur.scope.attrs, dropped := s.dropped }
    have hn' : ({ st.cur with scope := sc } : STRecord).nnz = true := by
      simp [STRecord.nnz, sc, ha.2, hn.1.1.1.1, hn.1.1.2, hn.1.2, hn.2]
    have h1 := writeSpans_spec sorted s.spans { st with cur := { st.cur with scope := sc } } hc.1.2 hn'
    have hr' : ShowsRes (writeSpans sorted s.spans { st with cur := { st.cur with scope := sc } }).cur.resource r := by
      rw [h1.2.2.1]; exact hr
    have h2 := writeScopeSpans_spec sorted r l _ hc.2 h1.2.1 hr'
    simp only [writeScopeSpans]
    refine ⟨?_, h2.2.1, ?_⟩
    · rw [h2.1, h1.1]
      have : (s.spans.map (recordOf sorted st.cur.resource sc)) = s.spans.map (fun sp => expectedRecord r s sp sorted) := by
        apply List.map_congr_left
        intro sp _
        exact recordOf_eq_expected sorted hr sc s ⟨rfl, rfl, rfl, ha.1, rfl⟩ sp
      simp [this]
    · rw [h2.2.2, h1.2.2.1]

theorem writeResourceSpans_spec (sorted : Bool) : ∀ (l : List ResourceSpans) (st : TState),
    l.all ResourceSpans.clean = true → st.cur.nnz = true →
    (writeResourceSpans sorted l st).out
      = ((l.map fun r => (r.scopes.map fun s => s.spans.map fun sp => expectedRecord r s sp sorted).flatten).flatten).reverse
        ++ st.out ∧
    (writeResourceSpans sorted l st).cur.nnz = true
  | [], st, _, hn => by simp [writeResourceSpans, hn]
  | r :: l, st, hc, hn => by
    simp only [List.all_cons, Bool.and_eq_true, ResourceSpans.clean] at hc
    simp only [STRecord.nnz, Bool.and_eq_true] at hn
    have ha := mapUnsorted_spec r.attrs st.cur.resource.attrs (clean_small_nnz hc.1.1).1 (clean_small_nnz hc.1.1).2
      hn.1.1.1.1
    let res : STRes := { url := r.url, attrs := SAttrs.mapUnsorted r.attrs st.cur.resource.attrs, dropped := r.dropped }
    have hn' : ({ st.cur with resource := res } : STRecord).nnz = true := by
      simp [STRecord.nnz, res, ha.2, hn.1.1.1.2, hn.1.1.2, hn.1.2, hn.2]
    have h1 := writeScopeSpans_spec sorted r r.scopes { st with cur := { st.cur with resource := res } } hc.1.2 hn'
      ⟨rfl, ha.1, rfl⟩
    have h2 := writeResourceSpans_spec sorted l _ hc.2 h1.2.1
    simp only [writeResourceSpans]
    refine ⟨?_, h2.2⟩
    rw [h2.1, h1.1]
    simp

theorem init_nnz : ({} : TState).cur.nnz = true := by
  simp [STRecord.nnz, SAttrs.nnz, SKVs.nnz]

end Stef.Otlp

namespace Stef.Otlp

/-! ### ids: the hex text determines the id -/

theorem hexDigitByte_inj {a b : Nat} (ha : a < 16) (hb : b < 16) (h : hexDigitByte a = hexDigitByte b) : a = b := by
  unfold hexDigitByte at h
  split at h <;> split at h <;> omega

theorem hexText_inj : ∀ (a b : Str), a.length = b.length → (∀ x ∈ a, x < 256) → (∀ x ∈ b, x < 256) →
    hexText a = hexText b → a = b
  | [], [], _, _, _, _ => rfl
  | [], _ :: _, hl, _, _, _ => by simp at hl
  | _ :: _, [], hl, _, _, _ => by simp at hl
  | x :: a, y :: b, hl, ha, hb, h => by
    simp only [hexText, List.cons.injEq] at h
    have hx : x < 256 := ha x (by simp)
    have hy : y < 256 := hb y (by simp)
    have h1 := hexDigitByte_inj (by omega) (by omega) h.1
    have h2 := hexDigitByte_inj (Nat.mod_lt _ (by omega)) (Nat.mod_lt _ (by omega)) h.2.1
    have hxy : x = y := by omega
    have ht := hexText_inj a b (by simpa using hl) (fun z hz => ha z (by simp [hz])) (fun z hz => hb z (by simp [hz])) h.2.2
    rw [hxy, ht]

theorem allZero_eq : ∀ (a b : Str), a.length = b.length → allZero a = true → allZero b = true → a = b
  | [], [], _, _, _ => rfl
  | [], _ :: _, hl, _, _ => by simp at hl
  | _ :: _, [], hl, _, _ => by simp at hl
  | x :: a, y :: b, hl, ha, hb => by
    simp only [allZero, Bool.and_eq_true, beq_iff_eq] at ha hb
    rw [ha.1, hb.1, allZero_eq a b (by simpa using hl) ha.2 hb.2]

theorem hexText_nil : ∀ (a : Str), hexText a = [] → a = []
  | [], _ => rfl
  | _ :: _, h => by simp [hexText] at h

/-- two ids of the same size with the same text are the same id: a reader recovers the id exactly -/
theorem idText_inj (n : Nat) (a b : Str) (ha : idOk n a = true) (hb : idOk n b = true) (h : idText a = idText b) :
    a = b := by
  simp only [idOk, Bool.and_eq_true, beq_iff_eq, List.all_eq_true, decide_eq_true_eq] at ha hb
  have hl : a.length = b.length := by rw [ha.1, hb.1]
  unfold idText at h
  by_cases za : allZero a = true <;> by_cases zb : allZero b = true
  · exact allZero_eq a b hl za zb
  · simp only [za, zb, if_true] at h
    have := hexText_nil b (by simpa using h.symm)
    subst this
    simp [allZero] at zb
  · simp only [za, zb, if_true] at h
    have := hexText_nil a (by simpa using h)
    subst this
    simp [allZero] at za
  · simp only [za, zb] at h
    exact hexText_inj a b hl ha.2 hb.2 (by simpa using h)

end Stef.Otlp
