/-
  `write` keeps the marks UP-CLOSED, hidden values included (`UC`, the lax mode of the invariant): what
  `writeNode` leaves behind has no marks in its visible part (`Quiet`, `writeNode_sound`) and its hidden
  parts - stale values of absent optional fields, which `Write` does not touch, and everything below a
  dictionary struct that was marked or unmarked as a whole - are still up-closed. Together with
  `writeNode_sound` this re-establishes the full invariant after every Write (`snd_of_sync`).
-/
import Stef.Proofs.ApiWrite

set_option linter.unusedSimpArgs false
set_option linter.unusedVariables false

namespace Stef.Api
open Stef Stef.Spec Stef.SpecEnc

def LNode (C : Ctx) (fuel : Nat) : Prop :=
  ∀ env n W s mk W' s' Ropt,
    writeNode C fuel env n W s = some (mk, W', s') → Snd C W Ropt → NodeOk C n → EnvOk C env → Quiet C W' → UC C W'

def LFields (C : Ctx) (fuel : Nat) : Prop :=
  ∀ env fields fds idx oi mask p fs subs fs' s s' m known rp rfs,
    writeFields C fuel env fields idx oi mask p fs s = some (subs, fs', s') →
    FlagsOk C fds fields → fields.length = fs.length → EnvOk C env →
    SndFieldsG C false fds idx oi m p known rp fs rfs →
    (∀ j, idx ≤ j → j < idx + fields.length → m.testBit j = true → mask.testBit j = true) →
    QuietFields C fds oi p fs' → SndFieldsG C true fds idx oi 0 p false 0 fs' []

def LElems (C : Ctx) (fuel : Nat) : Prop :=
  ∀ env elem es subs es' s s' rs,
    writeElems C fuel env elem es s = some (subs, es', s') → NodeOk C elem → EnvOk C env →
    SndElemsG C false es rs → QuietElems C es' → SndElemsG C true es' []

def LPairs (C : Ctx) (fuel : Nat) : Prop :=
  ∀ env k v ps subs ps' s s' rs,
    writePairs C fuel env k v ps s = some (subs, ps', s') → NodeOk C k → NodeOk C v → EnvOk C env →
    SndPairsG C false ps rs → QuietPairs C ps' → SndPairsG C true ps' []

def LVals (C : Ctx) (fuel : Nat) : Prop :=
  ∀ env v vm changed idx ps subs ps' s s' old,
    writeVals C fuel env v changed idx ps s = some (subs, ps', s') → NodeOk C v → EnvOk C env →
    SndVals C vm idx ps old →
    (∀ j, idx ≤ j → j < idx + ps.length → (decide (j < 64) && changed.testBit j) = vm.testBit j) →
    QuietPairs C ps' → SndPairsG C true ps' []

theorem lelems_step (C : Ctx) (fuel : Nat) (hn : LNode C fuel) (he : LElems C fuel) : LElems C (fuel + 1) := by
  intro env elem es subs es' s s' rs hw hok henv hs hq
  cases es with
  | nil =>
    simp only [writeElems, Option.some.injEq, Prod.mk.injEq] at hw
    obtain ⟨_, rfl, rfl⟩ := hw
    simp [SndElemsG]
  | cons e es =>
    simp only [writeElems] at hw
    cases hw1 : writeNode C fuel env elem e s with
    | none => simp [hw1] at hw
    | some r1 =>
      obtain ⟨sub, e', s1⟩ := r1
      simp only [hw1] at hw
      cases hw2 : writeElems C fuel env elem es s1 with
      | none => simp [hw2] at hw
      | some r2 =>
        obtain ⟨subs2, es2, s2⟩ := r2
        simp only [hw2, Option.some.injEq, Prod.mk.injEq] at hw
        obtain ⟨rfl, rfl, rfl⟩ := hw
        simp only [SndElemsG, QuietElems] at hs hq ⊢
        exact ⟨snd_lax C true _ _ _ (hn env elem e s sub e' s1 _ hw1 hs.1 hok henv hq.1),
          by simpa using he env elem es subs2 es2 s1 s2 _ hw2 hok henv hs.2 hq.2⟩

theorem lpairs_step (C : Ctx) (fuel : Nat) (hn : LNode C fuel) (hp : LPairs C fuel) : LPairs C (fuel + 1) := by
  intro env k v ps subs ps' s s' rs hw hok hov henv hs hq
  cases ps with
  | nil =>
    simp only [writePairs, Option.some.injEq, Prod.mk.injEq] at hw
    obtain ⟨_, rfl, rfl⟩ := hw
    simp [SndPairsG]
  | cons ab ps =>
    obtain ⟨a, b⟩ := ab
    simp only [writePairs] at hw
    cases hw1 : writeNode C fuel env k a s with
    | none => simp [hw1] at hw
    | some r1 =>
      obtain ⟨ks, a', s1⟩ := r1
      simp only [hw1] at hw
      cases hw2 : writeNode C fuel env v b s1 with
      | none => simp [hw2] at hw
      | some r2 =>
        obtain ⟨vs, b', s2⟩ := r2
        simp only [hw2] at hw
        cases hw3 : writePairs C fuel env k v ps s2 with
        | none => simp [hw3] at hw
        | some r3 =>
          obtain ⟨subs3, ps3, s3⟩ := r3
          simp only [hw3, Option.some.injEq, Prod.mk.injEq] at hw
          obtain ⟨rfl, rfl, rfl⟩ := hw
          simp only [SndPairsG, QuietPairs] at hs hq ⊢
          exact ⟨snd_lax C true _ _ _ (hn env k a s ks a' s1 _ hw1 hs.1 hok henv hq.1),
            snd_lax C true _ _ _ (hn env v b s1 vs b' s2 _ hw2 hs.2.1 hov henv hq.2.1),
            by simpa using hp env k v ps subs3 ps3 s2 s3 _ hw3 hok hov henv hs.2.2 hq.2.2⟩

theorem lvals_step (C : Ctx) (fuel : Nat) (hn : LNode C fuel) (hv : LVals C fuel) : LVals C (fuel + 1) := by
  intro env v vm changed idx ps subs ps' s s' old hw hov henv hs hbits hq
  cases ps with
  | nil =>
    simp only [writeVals, Option.some.injEq, Prod.mk.injEq] at hw
    obtain ⟨_, rfl, rfl⟩ := hw
    simp [SndPairsG]
  | cons ab ps =>
    obtain ⟨a, b⟩ := ab
    simp only [SndVals] at hs
    obtain ⟨⟨rk, rv, rs', e, hsa, hqa, hla, hb⟩, hs2⟩ := hs
    subst e
    have hbit : (decide (idx < 64) && changed.testBit idx) = vm.testBit idx :=
      hbits idx (Nat.le_refl _) (by simp)
    simp only [writeVals] at hw
    by_cases hm : vm.testBit idx = true
    · rw [hm] at hbit
      simp only [hbit, if_true] at hw
      simp only [hm, if_true] at hb
      cases hw1 : writeNode C fuel env v b s with
      | none => simp [hw1] at hw
      | some r1 =>
        obtain ⟨sub, b', s1⟩ := r1
        simp only [hw1] at hw
        cases hw2 : writeVals C fuel env v changed (idx + 1) ps s1 with
        | none => simp [hw2] at hw
        | some r2 =>
          obtain ⟨subs2, ps2, s2⟩ := r2
          simp only [hw2, Option.some.injEq, Prod.mk.injEq] at hw
          obtain ⟨rfl, rfl, rfl⟩ := hw
          simp only [SndPairsG, QuietPairs] at hq ⊢
          have ih := hv env v vm changed (idx + 1) ps subs2 ps2 s1 s2 rs' hw2 hov henv (by simpa using hs2)
            (fun j hj1 hj2 => hbits j (by omega) (by simp; omega)) hq.2.2
          exact ⟨snd_lax C true _ _ _ hla, snd_lax C true _ _ _ (hn env v b s sub b' s1 _ hw1 hb hov henv hq.2.1),
            by simpa using ih⟩
    · have hm : vm.testBit idx = false := by simpa using hm
      rw [hm] at hbit
      simp only [hbit, Bool.false_eq_true, if_false] at hw
      simp only [hm, Bool.false_eq_true, if_false] at hb
      cases hw2 : writeVals C fuel env v changed (idx + 1) ps s with
      | none => simp [hw2] at hw
      | some r2 =>
        obtain ⟨subs2, ps2, s2⟩ := r2
        simp only [hw2, Option.some.injEq, Prod.mk.injEq] at hw
        obtain ⟨rfl, rfl, rfl⟩ := hw
        simp only [SndPairsG, QuietPairs] at hq ⊢
        have ih := hv env v vm changed (idx + 1) ps subs2 ps2 s s2 rs' hw2 hov henv (by simpa using hs2)
          (fun j hj1 hj2 => hbits j (by omega) (by simp; omega)) hq.2.2
        exact ⟨snd_lax C true _ _ _ hla, snd_lax C true _ _ _ hb.2.2, by simpa using ih⟩

theorem lfields_step (C : Ctx) (fuel : Nat) (hn : LNode C fuel) (hf : LFields C fuel) : LFields C (fuel + 1) := by
  intro env fields fds idx oi mask p fs subs fs' s s' m known rp rfs hw hflags hlen henv hs hmask hq
  cases fields with
  | nil =>
    have : fs = [] := by simpa using hlen.symm
    subst this
    simp only [writeFields, Option.some.injEq, Prod.mk.injEq] at hw
    obtain ⟨_, rfl, rfl⟩ := hw
    simp [SndFieldsG]
  | cons on rest =>
    obtain ⟨opt, n⟩ := on
    cases fs with
    | nil => simp at hlen
    | cons f fs1 =>
      simp only [FlagsOk] at hflags
      obtain ⟨hopt, hnok, hflags'⟩ := hflags
      have huc : UC C f := sndFields_uc_head C false fds idx oi m p known rp f fs1 rfs hs
      simp only [SndFieldsG, Bool.false_eq_true, false_or] at hs
      rw [writeFields_cons] at hw
      have hmask' : ∀ j, idx + 1 ≤ j → j < idx + 1 + rest.length → m.testBit j = true → mask.testBit j = true :=
        fun j hj1 hj2 => hmask j (by omega) (by simp; omega)
      by_cases hcond : (mask.testBit idx && (!opt || p.testBit oi)) = true
      · have hcond' := hcond
        simp only [Bool.and_eq_true] at hcond'
        obtain ⟨hmk, hpres⟩ := hcond'
        rw [if_pos hcond] at hw
        cases hw1 : writeNode C fuel env n f s with
        | none => simp [hw1] at hw
        | some r1 =>
          obtain ⟨sub, f', s1⟩ := r1
          simp only [hw1] at hw
          cases hw2 : writeFields C fuel env rest (idx + 1) (if opt = true then oi + 1 else oi) mask p fs1 s1 with
          | none => simp [hw2] at hw
          | some r2 =>
            obtain ⟨subs2, fs2, s2⟩ := r2
            simp only [hw2, Option.some.injEq, Prod.mk.injEq] at hw
            obtain ⟨rfl, rfl, rfl⟩ := hw
            simp only [QuietFields, SndFieldsG] at hq ⊢
            rw [← hopt] at hq hs ⊢
            have hsf : ∃ Ro, Snd C f Ro := by
              by_cases hmb : m.testBit idx = true
              · exact ⟨_, (hs.1 hpres).1 hmb⟩
              · obtain ⟨⟨_, _, hsh⟩, hqf, hl⟩ := (hs.1 hpres).2 (by simpa using hmb)
                exact ⟨_, snd_of_sync C false f _ hsh hqf hl⟩
            obtain ⟨Ro, hsf⟩ := hsf
            have hqf' : Quiet C f' := hq.1 hpres
            have hucf' : UC C f' := hn env n f s sub f' s1 Ro hw1 hsf hnok henv hqf'
            have ih := hf env rest fds.tail (idx + 1) _ mask p fs1 subs2 fs2 s1 s2 m known rp rfs.tail hw2 hflags'
              (by simpa using hlen) henv hs.2.2 hmask' hq.2
            exact ⟨fun _ => ⟨fun h0 => by simp at h0, fun _ => ⟨Or.inl trivial, hqf', hucf'⟩⟩, fun habs => by simp [hpres] at habs,
              by simpa using ih⟩
      · rw [if_neg hcond] at hw
        have hcond : (mask.testBit idx && (!opt || p.testBit oi)) = false := by simpa using hcond
        simp only at hw
        cases hw2 : writeFields C fuel env rest (idx + 1) (if opt = true then oi + 1 else oi) mask p fs1 s with
        | none => simp [hw2] at hw
        | some r2 =>
          obtain ⟨subs2, fs2, s2⟩ := r2
          simp only [hw2, Option.some.injEq, Prod.mk.injEq] at hw
          obtain ⟨rfl, rfl, rfl⟩ := hw
          simp only [QuietFields, SndFieldsG] at hq ⊢
          rw [← hopt] at hq hs ⊢
          have ih := hf env rest fds.tail (idx + 1) _ mask p fs1 subs2 fs2 s s2 m known rp rfs.tail hw2 hflags'
            (by simpa using hlen) henv hs.2.2 hmask' hq.2
          exact ⟨fun hp => ⟨fun h0 => by simp at h0, fun _ => ⟨Or.inl trivial, hq.1 hp, huc⟩⟩, fun _ => huc, by simpa using ih⟩

theorem lstruct_step (C : Ctx) (fuel : Nat) (hf : LFields C fuel) :
  ∀ env col name dict kept optCount fields W s mk W' s' Ropt,
    writeNode C (fuel+1) env (.struct col name dict kept optCount fields) W s = some (mk, W', s') →
    Snd C W Ropt → NodeOk C (.struct col name dict kept optCount fields) → EnvOk C env → Quiet C W' → UC C W' := by
  intro env col name dict kept optCount fields W s mk W' s' Ropt hw hs hok henv hq
  have henv' : EnvOk C ((name, Node.struct col name dict kept optCount fields) :: env) := envOk_cons C env name _ henv hok
  simp only [NodeOk] at hok
  obtain ⟨hdict, hkept, hflags⟩ := hok
  have hmaskok : ∀ (m0 forced : Nat) j, 0 ≤ j → j < 0 + fields.length → m0.testBit j = true →
      ((m0 ||| forced) &&& (2 ^ kept - 1)).testBit j = true := by
    intro m0 forced j _ hj hmj
    simp only [Nat.testBit_and, Nat.testBit_or, hmj, Bool.true_or, Bool.true_and, Nat.testBit_two_pow_sub_one]
    simp; omega
  cases W with
  | struct n m p fr fs =>
    cases dict with
    | none =>
      simp only [writeNode] at hw
      split at hw
      · simp at hw
      · rename_i hbad
        have hn : n = name := by
          by_cases h : n = name
          · exact h
          · exact absurd (Or.inl h) hbad
        have hlen : fields.length = fs.length := by
          by_cases h : fields.length = fs.length
          · exact h
          · exact absurd (Or.inr h) hbad
        subst hn
        split at hw
        · simp at hw
        · rename_i subs fs' s1 hw1
          simp only [Option.some.injEq, Prod.mk.injEq] at hw
          obtain ⟨rfl, rfl, rfl⟩ := hw
          have hnd : C.isDictName n = false := by simpa using hdict.symm
          simp only [Snd, SndG, hnd, Bool.false_eq_true, false_and, false_or, true_and] at hs
          simp only [Quiet, hnd, Bool.false_eq_true, false_and, false_or, true_and] at hq
          have := hf _ fields (fieldsOf C n) 0 0 _ p fs subs fs' _ s1 m _ _ _ hw1 hflags hlen henv' hs
            (hmaskok m _) hq
          simp only [UC, SndG, hnd, Bool.false_eq_true, false_and, false_or, true_and]
          exact this
    | some dn =>
      have hisd : C.isDictName name = true := by simpa using hdict.symm
      simp only [writeNode] at hw
      split at hw
      · simp at hw
      · rename_i hbad
        have hn : n = name := by
          by_cases h : n = name
          · exact h
          · exact absurd (Or.inl h) hbad
        have hlen : fields.length = fs.length := by
          by_cases h : fields.length = fs.length
          · exact h
          · exact absurd (Or.inr h) hbad
        subst hn
        split at hw
        · -- a dictionary hit
          simp only [Option.some.injEq, Prod.mk.injEq] at hw
          obtain ⟨rfl, rfl, rfl⟩ := hw
          exact (quiet_setUnmodRec C _ none (snd_lax C false _ _ _ hs)).2
        · -- a new entry: encoded in full
          split at hw
          · simp at hw
          · rename_i mk1 w1 s1 hfull
            simp only [Option.some.injEq, Prod.mk.injEq] at hw
            obtain ⟨rfl, rfl, rfl⟩ := hw
            split at hfull
            · simp at hfull
            · rename_i subs fs' s2 hw1
              simp only [Option.some.injEq, Prod.mk.injEq] at hfull
              obtain ⟨rfl, rfl, rfl⟩ := hfull
              simp only [UC, SndG]
              simp only [Quiet] at hq
              rcases hq with ⟨_, hfr⟩ | ⟨_, hq⟩
              · exact Or.inl ⟨hisd, Or.inl hfr⟩
              · have hsf : SndFieldsG C false (fieldsOf C n) 0 0 (2 ^ fs.length - 1) p false 0 (setModRecList fs) [] :=
                  sndFields_setModRec C false (fieldsOf C n) 0 0 (2 ^ fs.length - 1) p fs _ _ _
                    (fun j hj => by simp [Nat.testBit_two_pow_sub_one]; omega)
                have := hf _ fields (fieldsOf C n) 0 0 _ p (setModRecList fs) subs fs' _ s2 (2 ^ fs.length - 1) _ _ _ hw1 hflags
                  (by rw [setModRecList_length]; exact hlen) henv' hsf (hmaskok _ _) hq
                exact Or.inl ⟨hisd, Or.inr this⟩
  | _ => simp [writeNode] at hw

theorem quietAlt_get (C : Ctx) : ∀ (i : Nat) (as : List AS) (a : AS), as[i]? = some a → QuietAlt C i as → Quiet C a
  | _, [], _, h, _ => by simp at h
  | 0, x :: xs, a, h, hs => by simp at h; subst h; simpa [QuietAlt] using hs
  | i + 1, x :: xs, a, h, hs => by simp at h; simp only [QuietAlt] at hs; exact quietAlt_get C i xs a h hs

theorem sndAltG_set_self (C : Ctx) (ℓ : Bool) : ∀ (i : Nat) (as : List AS) (a a' : AS) (R : Option St), as[i]? = some a →
    SndG C ℓ a' R → SndAltG C ℓ i (as.set i a') R
  | _, [], _, _, _, h, _ => by simp at h
  | 0, x :: xs, a, a', R, h, hs => by simpa [SndAltG] using hs
  | i + 1, x :: xs, a, a', R, h, hs => by
    simp at h; simp only [List.set_cons_succ, SndAltG]; exact sndAltG_set_self C ℓ i xs a a' R h hs

theorem loneof_step (C : Ctx) (fuel : Nat) (hn : LNode C fuel) :
  ∀ env col name kept alts W s mk W' s' Ropt,
    writeNode C (fuel+1) env (.oneof col name kept alts) W s = some (mk, W', s') →
    Snd C W Ropt → NodeOk C (.oneof col name kept alts) → EnvOk C env → Quiet C W' → UC C W' := by
  intro env col name kept alts W s mk W' s' Ropt hw hs hok henv hq
  have henv' : EnvOk C ((name, Node.oneof col name kept alts) :: env) := envOk_cons C env name _ henv hok
  simp only [NodeOk] at hok
  cases W with
  | oneof n t as =>
    simp only [writeNode] at hw
    split at hw
    · simp at hw
    · by_cases hgt : t > kept
      · simp only [hgt, if_true] at hw
        simp only [Option.some.injEq, Prod.mk.injEq] at hw
        obtain ⟨rfl, rfl, rfl⟩ := hw
        exact snd_lax C false _ _ _ hs
      · simp only [hgt, if_false] at hw
        by_cases ht : t = 0
        · subst ht
          simp only [if_true, Option.some.injEq, Prod.mk.injEq] at hw
          obtain ⟨rfl, rfl, rfl⟩ := hw
          exact snd_lax C false _ _ _ hs
        · simp only [ht, if_false] at hw
          split at hw
          · rename_i an a han ha
            split at hw
            · simp at hw
            · rename_i sub a' s1 hw1
              simp only [Option.some.injEq, Prod.mk.injEq, setNth] at hw
              obtain ⟨rfl, rfl, rfl⟩ := hw
              have hsa : Snd C a (altOf t Ropt) := by
                simp only [Snd, SndG] at hs
                rcases hs with hs | hs
                · exact absurd hs ht
                · exact sndAlt_get C (t - 1) as a _ ha hs
              simp only [Quiet] at hq
              rcases hq with hq | hq
              · exact absurd hq ht
              · have hqa : Quiet C a' := quietAlt_get C (t - 1) _ a' (getElem?_set_self as (t - 1) a a' ha) hq
                have := hn _ an a s sub a' s1 (altOf t Ropt) hw1 hsa (nodesOk_get C (t - 1) alts an han hok) henv' hqa
                simp only [UC, SndG]
                exact Or.inr (sndAltG_set_self C true (t - 1) as a a' _ ha (snd_lax C true _ _ _ this))
          · simp at hw
  | _ => simp [writeNode] at hw

theorem larr_step (C : Ctx) (fuel : Nat) (he : LElems C fuel) :
  ∀ env col key ety elem W s mk W' s' Ropt,
    writeNode C (fuel+1) env (.arr col key ety elem) W s = some (mk, W', s') →
    Snd C W Ropt → NodeOk C (.arr col key ety elem) → EnvOk C env → Quiet C W' → UC C W' := by
  intro env col key ety elem W s mk W' s' Ropt hw hs hok henv hq
  have henv' : EnvOk C ((key, Node.arr col key ety elem) :: env) := envOk_cons C env key _ henv hok
  simp only [NodeOk] at hok
  cases W with
  | arr e es hid =>
    simp only [writeNode] at hw
    split at hw
    · simp at hw
    · rename_i subs es' s1 hw1
      simp only [Option.some.injEq, Prod.mk.injEq] at hw
      obtain ⟨rfl, rfl, rfl⟩ := hw
      simp only [Snd, SndG] at hs
      simp only [Quiet] at hq
      simp only [UC, SndG, optElems]
      exact he _ elem es subs es' s s1 _ hw1 hok henv' hs hq
  | _ => simp [writeNode] at hw

theorem lmmap_step (C : Ctx) (fuel : Nat) (hp : LPairs C fuel) (hv : LVals C fuel) :
  ∀ env col name kty vty k v W s mk W' s' Ropt,
    writeNode C (fuel+1) env (.mmap col name kty vty k v) W s = some (mk, W', s') →
    Snd C W Ropt → NodeOk C (.mmap col name kty vty k v) → EnvOk C env → Quiet C W' → UC C W' := by
  intro env col name kty vty k v W s mk W' s' Ropt hw hs hok henv hq
  have henv' : EnvOk C ((name, Node.mmap col name kty vty k v) :: env) := envOk_cons C env name _ henv hok
  simp only [NodeOk] at hok
  cases W with
  | mmap n ps hid km vm ml =>
    simp only [writeNode] at hw
    split at hw
    · simp at hw
    · split at hw
      · simp only [Option.some.injEq, Prod.mk.injEq] at hw
        obtain ⟨rfl, rfl, rfl⟩ := hw
        exact snd_lax C false _ _ _ hs
      · rename_i hlen0
        have hne : ps ≠ [] := by intro e; subst e; simp at hlen0
        split at hw
        · -- values-only form
          rename_i hcond
          simp only [Bool.and_eq_true, Bool.not_eq_true', Bool.or_eq_false_iff, decide_eq_true_eq, decide_eq_false_iff_not,
            Decidable.not_not] at hcond
          obtain ⟨⟨hml, hkm⟩, hl63⟩ := hcond
          split at hw
          · simp at hw
          · rename_i subs ps' s1 hw1
            simp only [Option.some.injEq, Prod.mk.injEq] at hw
            obtain ⟨rfl, rfl, rfl⟩ := hw
            simp only [Snd, SndG] at hs
            rcases hs with hs | ⟨hf, _⟩ | ⟨_, _, _, _, hR, hlenR, hsv⟩
            · exact absurd hs hne
            · rcases hf with hf | hf | hf | hf
              · simp at hf
              · rw [hml] at hf; simp at hf
              · exact absurd hkm hf
              · omega
            · simp only [Quiet] at hq
              simp only [UC, SndG, optPairs]
              rcases hq with hq | ⟨_, _, _, hq⟩
              · exact Or.inl hq
              · refine Or.inr (Or.inl ⟨Or.inl trivial, ?_⟩)
                exact hv _ v vm (vm % 2 ^ 63) 0 ps subs ps' s s1 _ hw1 hok.2 henv' hsv
                  (fun j _ hj => by
                    rw [mod_two_pow_63_testBit vm j (by omega)]
                    have : j < 64 := by omega
                    simp [this]) hq
        · -- full form
          split at hw
          · simp at hw
          · rename_i subs ps' s1 hw1
            simp only [Option.some.injEq, Prod.mk.injEq] at hw
            obtain ⟨rfl, rfl, rfl⟩ := hw
            have hsp := sndPairs_of_snd_mmap C false n ps hid km vm ml Ropt hs
            simp only [Quiet] at hq
            simp only [UC, SndG, optPairs]
            rcases hq with hq | ⟨_, _, _, hq⟩
            · exact Or.inl hq
            · exact Or.inr (Or.inl ⟨Or.inl trivial, hp _ k v ps subs ps' s s1 _ hw1 hok.1 hok.2 henv' hsp hq⟩)
  | _ => simp [writeNode] at hw

theorem lnode_step (C : Ctx) (fuel : Nat) (hn : LNode C fuel) (hf : LFields C fuel) (he : LElems C fuel)
    (hp : LPairs C fuel) (hv : LVals C fuel) : LNode C (fuel + 1) := by
  intro env n W s mk W' s' Ropt hw hs hok henv hq
  cases n with
  | prim col p d =>
    simp only [writeNode, Option.some.injEq, Prod.mk.injEq] at hw
    obtain ⟨_, rfl, rfl⟩ := hw
    exact snd_lax C false _ _ _ hs
  | recur key =>
    simp only [writeNode] at hw
    split at hw
    · simp at hw
    · rename_i k' n' hfind
      have hmem := List.mem_of_find?_eq_some hfind
      exact hn env n' W s mk W' s' Ropt hw hs (henv _ hmem) henv hq
  | struct col name dict kept optCount fields =>
    exact lstruct_step C fuel hf env col name dict kept optCount fields W s mk W' s' Ropt hw hs hok henv hq
  | oneof col name kept alts =>
    exact loneof_step C fuel hn env col name kept alts W s mk W' s' Ropt hw hs hok henv hq
  | arr col key ety elem =>
    exact larr_step C fuel he env col key ety elem W s mk W' s' Ropt hw hs hok henv hq
  | mmap col name kty vty k v =>
    exact lmmap_step C fuel hp hv env col name kty vty k v W s mk W' s' Ropt hw hs hok henv hq

theorem lwrite_all (C : Ctx) : ∀ (fuel : Nat), LNode C fuel ∧ LFields C fuel ∧ LElems C fuel ∧ LPairs C fuel ∧ LVals C fuel
  | 0 => by
    refine ⟨?_, ?_, ?_, ?_, ?_⟩
    · intro env n W s mk W' s' Ropt hw; simp [writeNode] at hw
    · intro env fields fds idx oi mask p fs subs fs' s s' m known rp rfs hw; simp [writeFields] at hw
    · intro env elem es subs es' s s' rs hw; simp [writeElems] at hw
    · intro env k v ps subs ps' s s' rs hw; simp [writePairs] at hw
    · intro env v vm changed idx ps subs ps' s s' old hw; simp [writeVals] at hw
  | fuel + 1 => by
    obtain ⟨hn, hf, he, hp, hv⟩ := lwrite_all C fuel
    exact ⟨lnode_step C fuel hn hf he hp hv, lfields_step C fuel hn hf, lelems_step C fuel hn he, lpairs_step C fuel hn hp,
      lvals_step C fuel hn hv⟩

/-- **writeNode_uc**: after `Write` the marks are up-closed, hidden values included -/
theorem writeNode_uc (C : Ctx) (fuel : Nat) (env : List (String × Node)) (n : Node) (W : AS) (s : WSt) (mk : Mk)
    (W' : AS) (s' : WSt) (Ropt : Option St)
    (hw : writeNode C fuel env n W s = some (mk, W', s')) (hs : Snd C W Ropt) (hok : NodeOk C n) (henv : EnvOk C env)
    (hq : Quiet C W') : UC C W' :=
  (lwrite_all C fuel).1 env n W s mk W' s' Ropt hw hs hok henv hq

end Stef.Api
