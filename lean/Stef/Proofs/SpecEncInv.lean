/-
  Invariants of the encoder state: any property of the state that is kept by writing a column and
  by replacing the dictionaries is kept by `encodeNode` (in particular the number of columns).
-/
import Stef.Proofs.SpecEncBase

namespace Stef.SpecEnc
open Stef Stef.Spec

section
variable (P : DS → Prop) (hset : ∀ ds i c, P ds → P (ds.setCol i c)) (haux : ∀ (ds : DS) (a : Aux), a.dictViolations = ds.dictViolations → P ds → P (ds.withAux a))

include hset haux in
theorem prim_preserves (col : Nat) (p : Prim) (d : Option String) (v : St) (ds : DS) (evs : List Ev) (ds' : DS) (eff : St)
    (h : encodePrim col p d v ds = some (evs, ds', eff)) (hp : P ds) : P ds' := by
  unfold encodePrim at h
  split at h
  · cases p <;> cases v <;> simp only [reduceCtorEq] at h
    case bool.b b =>
      simp only [Option.some.injEq, Prod.mk.injEq] at h; obtain ⟨_, rfl, _⟩ := h; exact hp
    case i64.i x =>
      simp only [Option.some.injEq, Prod.mk.injEq] at h; obtain ⟨_, rfl, _⟩ := h; exact hset _ _ _ hp
    case u64.i x =>
      simp only [Option.some.injEq, Prod.mk.injEq] at h; obtain ⟨_, rfl, _⟩ := h; exact hset _ _ _ hp
    case f64.f x =>
      split at h
      · simp only [Option.some.injEq, Prod.mk.injEq] at h; obtain ⟨_, rfl, _⟩ := h; exact hset _ _ _ hp
      · simp at h
    case str.s x =>
      split at h
      · cases d with
        | none => simp only [Option.some.injEq, Prod.mk.injEq] at h; obtain ⟨_, rfl, _⟩ := h; exact hp
        | some dn =>
          simp only at h
          split at h
          · split at h
            · simp only [Option.some.injEq, Prod.mk.injEq] at h; obtain ⟨_, rfl, _⟩ := h; exact hp
            · simp at h
          · split at h
            · simp only [Option.some.injEq, Prod.mk.injEq] at h; obtain ⟨_, rfl, _⟩ := h
              exact haux ds ⟨_, ds.tdict, ds.dictViolations, _, _⟩ rfl hp
            · simp only [Option.some.injEq, Prod.mk.injEq] at h; obtain ⟨_, rfl, _⟩ := h; exact hp
      · simp at h
    case byts.s x =>
      split at h
      · cases d with
        | none => simp only [Option.some.injEq, Prod.mk.injEq] at h; obtain ⟨_, rfl, _⟩ := h; exact hp
        | some dn =>
          simp only at h
          split at h
          · split at h
            · simp only [Option.some.injEq, Prod.mk.injEq] at h; obtain ⟨_, rfl, _⟩ := h; exact hp
            · simp at h
          · split at h
            · simp only [Option.some.injEq, Prod.mk.injEq] at h; obtain ⟨_, rfl, _⟩ := h
              exact haux ds ⟨_, ds.tdict, ds.dictViolations, _, _⟩ rfl hp
            · simp only [Option.some.injEq, Prod.mk.injEq] at h; obtain ⟨_, rfl, _⟩ := h; exact hp
      · simp at h
  · simp at h

def RNode (σ : Schema) (fuel : Nat) : Prop :=
  ∀ env n cur new mk ds evs ds' eff, encodeNode σ fuel env n cur new mk ds = some (evs, ds', eff) → P ds → P ds'
def RFields (σ : Schema) (fuel : Nat) : Prop :=
  ∀ env fields idx optIdx mask pres prevPres cur new subs ds evs ds' effs,
    encodeFields σ fuel env fields idx optIdx mask pres prevPres cur new subs ds = some (evs, ds', effs) → P ds → P ds'
def RElems (σ : Schema) (fuel : Nat) : Prop :=
  ∀ env elem ety xs old subs ds evs ds' effs,
    encodeElems σ fuel env elem ety xs old subs ds = some (evs, ds', effs) → P ds → P ds'
def RPairs (σ : Schema) (fuel : Nat) : Prop :=
  ∀ env k v kty vty ps old subs ds evs ds' effs,
    encodePairsFull σ fuel env k v kty vty ps old subs ds = some (evs, ds', effs) → P ds → P ds'
def RVals (σ : Schema) (fuel : Nat) : Prop :=
  ∀ env v changed idx old new subs ds evs ds' effs,
    encodeValuesOnly σ fuel env v changed idx old new subs ds = some (evs, ds', effs) → P ds → P ds'

include hset haux in
theorem preserves_all (σ : Schema) (fuel : Nat) :
    RNode P σ fuel ∧ RFields P σ fuel ∧ RElems P σ fuel ∧ RPairs P σ fuel ∧ RVals P σ fuel := by
  induction fuel with
  | zero =>
    refine ⟨?_, ?_, ?_, ?_, ?_⟩
    · intro env n cur new mk ds evs ds' eff h; simp [encodeNode] at h
    · intro env fields idx optIdx mask pres prevPres cur new subs ds evs ds' effs h; simp [encodeFields] at h
    · intro env elem ety xs old subs ds evs ds' effs h; simp [encodeElems] at h
    · intro env k v kty vty ps old subs ds evs ds' effs h; simp [encodePairsFull] at h
    · intro env v changed idx old new subs ds evs ds' effs h; simp [encodeValuesOnly] at h
  | succ fuel ih =>
    obtain ⟨hn, hf, he, hpp, hv⟩ := ih
    refine ⟨?_, ?_, ?_, ?_, ?_⟩
    · -- node
      intro env n cur new mk ds evs ds' eff h hp
      cases n with
      | prim col p d =>
        simp only [encodeNode] at h
        exact prim_preserves P hset haux _ _ _ _ _ _ _ _ h hp
      | recur key =>
        simp only [encodeNode] at h
        split at h
        · simp at h
        · exact hn _ _ _ _ _ _ _ _ _ h hp
      | struct col name dict kept optCount fields =>
        simp only [encodeNode] at h
        split at h
        · split at h
          · split at h
            · simp at h
            · split at h
              · split at h
                · simp only [Option.some.injEq, Prod.mk.injEq] at h; obtain ⟨_, rfl, _⟩ := h; exact hp
                · simp at h
              · simp at h
          · split at h
            · split at h
              · split at h
                · simp at h
                · rename_i e2 ds2 effs hfields
                  have h2 := hf _ _ _ _ _ _ _ _ _ _ _ _ _ _ hfields hp
                  cases dict with
                  | none => simp only [Option.some.injEq, Prod.mk.injEq] at h; obtain ⟨_, rfl, _⟩ := h; exact h2
                  | some dn =>
                    simp only [Option.some.injEq, Prod.mk.injEq] at h; obtain ⟨_, rfl, _⟩ := h
                    exact haux ds2 ⟨ds2.sdict, _, ds2.dictViolations, ds2.dictPayload, ds2.maxDictPayload⟩ rfl h2
              · simp at h
            · simp at h
          · simp at h
        · simp at h
      | oneof col name kept alts =>
        simp only [encodeNode] at h
        split at h
        · split at h
          · split at h
            · simp only [Option.some.injEq, Prod.mk.injEq] at h; obtain ⟨_, rfl, _⟩ := h; exact hp
            · split at h
              · split at h
                · simp at h
                · rename_i e2 ds2 e hsub
                  simp only [Option.some.injEq, Prod.mk.injEq] at h; obtain ⟨_, rfl, _⟩ := h
                  exact hn _ _ _ _ _ _ _ _ _ hsub hp
              · simp at h
          · simp at h
        · simp at h
      | arr col key ety elem =>
        simp only [encodeNode] at h
        split at h
        · split at h
          · split at h
            · simp at h
            · rename_i e2 ds2 effs hel
              simp only [Option.some.injEq, Prod.mk.injEq] at h; obtain ⟨_, rfl, _⟩ := h
              exact he _ _ _ _ _ _ _ _ _ _ hel hp
          · simp at h
        · simp at h
      | mmap col name kty vty k v =>
        simp only [encodeNode] at h
        split at h
        · split at h
          · simp only [Option.some.injEq, Prod.mk.injEq] at h; obtain ⟨_, rfl, _⟩ := h; exact hp
          · split at h
            · split at h
              · split at h
                · simp at h
                · rename_i e2 ds2 effp hpairs
                  simp only [Option.some.injEq, Prod.mk.injEq] at h; obtain ⟨_, rfl, _⟩ := h
                  exact hpp _ _ _ _ _ _ _ _ _ _ _ _ hpairs hp
              · simp at h
            · simp at h
          · split at h
            · split at h
              · split at h
                · simp at h
                · rename_i e2 ds2 effp hvals
                  simp only [Option.some.injEq, Prod.mk.injEq] at h; obtain ⟨_, rfl, _⟩ := h
                  exact hv _ _ _ _ _ _ _ _ _ _ _ hvals hp
              · simp at h
            · simp at h
          · simp at h
        · simp at h
    · -- fields
      intro env fields idx optIdx mask pres prevPres cur new subs ds evs ds' effs h hp
      cases fields with
      | nil =>
        simp only [encodeFields, Option.some.injEq, Prod.mk.injEq] at h; obtain ⟨_, rfl, _⟩ := h; exact hp
      | cons fd rest =>
        obtain ⟨opt, n⟩ := fd
        simp only [encodeFields] at h
        split at h
        · simp at h
        · rename_i e1 ds1 v hfirst
          split at h
          · simp at h
          · rename_i e2 ds2 vs hrest
            simp only [Option.some.injEq, Prod.mk.injEq] at h; obtain ⟨_, rfl, _⟩ := h
            have h1 : P ds1 := by
              split at hfirst
              · exact hn _ _ _ _ _ _ _ _ _ hfirst hp
              · simp only [Option.some.injEq, Prod.mk.injEq] at hfirst; obtain ⟨_, rfl, _⟩ := hfirst; exact hp
            exact hf _ _ _ _ _ _ _ _ _ _ _ _ _ _ hrest h1
    · -- elems
      intro env elem ety xs old subs ds evs ds' effs h hp
      cases xs with
      | nil => simp only [encodeElems, Option.some.injEq, Prod.mk.injEq] at h; obtain ⟨_, rfl, _⟩ := h; exact hp
      | cons x xs =>
        simp only [encodeElems] at h
        split at h
        · simp at h
        · rename_i e1 ds1 v hfirst
          split at h
          · simp at h
          · rename_i e2 ds2 vs hrest
            simp only [Option.some.injEq, Prod.mk.injEq] at h; obtain ⟨_, rfl, _⟩ := h
            exact he _ _ _ _ _ _ _ _ _ _ hrest (hn _ _ _ _ _ _ _ _ _ hfirst hp)
    · -- pairs
      intro env k v kty vty ps old subs ds evs ds' effs h hp
      cases ps with
      | nil => simp only [encodePairsFull, Option.some.injEq, Prod.mk.injEq] at h; obtain ⟨_, rfl, _⟩ := h; exact hp
      | cons p ps =>
        simp only [encodePairsFull] at h
        split at h
        · simp at h
        · rename_i e1 ds1 kv hk
          split at h
          · simp at h
          · rename_i e2 ds2 vv hvv
            split at h
            · simp at h
            · rename_i e3 ds3 rest hrest
              simp only [Option.some.injEq, Prod.mk.injEq] at h; obtain ⟨_, rfl, _⟩ := h
              exact hpp _ _ _ _ _ _ _ _ _ _ _ _ hrest (hn _ _ _ _ _ _ _ _ _ hvv (hn _ _ _ _ _ _ _ _ _ hk hp))
    · -- values only
      intro env v changed idx old new subs ds evs ds' effs h hp
      cases old with
      | nil => simp only [encodeValuesOnly, Option.some.injEq, Prod.mk.injEq] at h; obtain ⟨_, rfl, _⟩ := h; exact hp
      | cons o os =>
        obtain ⟨pk, pv⟩ := o
        simp only [encodeValuesOnly] at h
        split at h
        · simp at h
        · rename_i e1 ds1 vv hfirst
          split at h
          · simp at h
          · rename_i e2 ds2 rs hrest
            simp only [Option.some.injEq, Prod.mk.injEq] at h; obtain ⟨_, rfl, _⟩ := h
            have h1 : P ds1 := by
              split at hfirst
              · exact hn _ _ _ _ _ _ _ _ _ hfirst hp
              · simp only [Option.some.injEq, Prod.mk.injEq] at hfirst; obtain ⟨_, rfl, _⟩ := hfirst; exact hp
            exact hv _ _ _ _ _ _ _ _ _ _ _ hrest h1

include hset haux in
theorem records_preserve (σ : Schema) (root : Node) (fuel : Nat) :
    ∀ (recs : List (St × Mk)) (cur : St) (ds : DS) (evs : List Ev) (ds' : DS) (effs : List St),
      encodeRecords σ root fuel recs cur ds = some (evs, ds', effs) → P ds → P ds' := by
  induction fuel with
  | zero => intro recs cur ds evs ds' effs h; simp [encodeRecords] at h
  | succ fuel ih =>
    intro recs cur ds evs ds' effs h hp
    cases recs with
    | nil => simp only [encodeRecords, Option.some.injEq, Prod.mk.injEq] at h; obtain ⟨_, rfl, _⟩ := h; exact hp
    | cons r rest =>
      obtain ⟨new, mk⟩ := r
      simp only [encodeRecords] at h
      split at h
      · simp at h
      · rename_i e1 ds1 v hfirst
        split at h
        · simp at h
        · rename_i e2 ds2 vs hrest
          simp only [Option.some.injEq, Prod.mk.injEq] at h; obtain ⟨_, rfl, _⟩ := h
          exact ih _ _ _ _ _ _ hrest ((preserves_all P hset haux σ _).1 _ _ _ _ _ _ _ _ _ hfirst hp)

end

/-- the encoder keeps the number of columns -/
theorem size_encodeRecords (σ : Schema) (root : Node) (fuel : Nat) (recs : List (St × Mk)) (cur : St) (ds : DS)
    (evs : List Ev) (ds' : DS) (effs : List St) (h : encodeRecords σ root fuel recs cur ds = some (evs, ds', effs)) :
    ds'.cols.size = ds.cols.size :=
  records_preserve (fun d => d.cols.size = ds.cols.size) (fun d i c hd => by rw [size_setCol]; exact hd)
    (fun d a _ hd => hd) σ root fuel recs cur ds evs ds' effs h rfl

/-- the encoder never counts a dictionary violation (a value that is in its dictionary is always
    sent as a reference) -/
theorem dv_encodeRecords (σ : Schema) (root : Node) (fuel : Nat) (recs : List (St × Mk)) (cur : St) (ds : DS)
    (evs : List Ev) (ds' : DS) (effs : List St) (h : encodeRecords σ root fuel recs cur ds = some (evs, ds', effs)) :
    ds'.dictViolations = ds.dictViolations :=
  records_preserve (fun d => d.dictViolations = ds.dictViolations) (fun d i c hd => hd)
    (fun d a ha hd => by rw [← hd]; exact ha) σ root fuel recs cur ds evs ds' effs h rfl

end Stef.SpecEnc
