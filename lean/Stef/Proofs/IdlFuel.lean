/-
  Fuel: the fuel-driven loops of the IDL front end model (Stef/Idl.lean) never run out of fuel.

  Part A (parser): `parse input` is never `.error p .outOfFuel`: the token stream produced by the
  lexer ends with its only EOF token, every loop iteration of the parser consumes at least one
  (non-EOF) token, and the loops start with fuel `ts.length + 1`.

  Part B (lexer): giving `lexLoop` more fuel than `lex` does leaves the token list unchanged, so
  the fuel-0 branch of `lexLoop` is never what ends the list.
-/
import Stef.Proofs.IdlPos

namespace Stef.Idl

/-! ## Part A: parser -/

/-- well-formed token stream: non-empty, exactly one EOF token, which is the last one. -/
def WFS : List Token → Prop
  | [] => False
  | [e] => e.tok = .eof
  | t :: u :: r => t.tok ≠ .eof ∧ WFS (u :: r)

theorem WFS_cons {t : Token} {r : List Token} (ht : t.tok ≠ .eof) (hr : WFS r) : WFS (t :: r) := by
  cases r with
  | nil => exact hr.elim
  | cons u r => exact ⟨ht, hr⟩

/-- the description of `WFS` as "some non-EOF tokens followed by one EOF token". -/
theorem WFS_iff (ts : List Token) :
    WFS ts ↔ ∃ pre e, ts = pre ++ [e] ∧ e.tok = .eof ∧ ∀ t ∈ pre, t.tok ≠ .eof := by
  induction ts with
  | nil => simp [WFS]
  | cons t r ih =>
    cases r with
    | nil =>
      constructor
      · intro h; exact ⟨[], t, rfl, h, by simp⟩
      · rintro ⟨pre, e, h1, h2, _⟩
        cases pre with
        | nil => simp at h1; subst h1; exact h2
        | cons a pre => simp at h1
    | cons u r =>
      constructor
      · intro h
        obtain ⟨pre, e, h1, h2, h3⟩ := ih.1 h.2
        refine ⟨t :: pre, e, by simp [h1], h2, ?_⟩
        intro x hx
        simp at hx
        rcases hx with hx | hx
        · subst hx; exact h.1
        · exact h3 x hx
      · rintro ⟨pre, e, h1, h2, h3⟩
        cases pre with
        | nil => simp at h1
        | cons a pre =>
          simp at h1
          obtain ⟨rfl, h1⟩ := h1
          exact ⟨h3 _ (by simp), ih.2 ⟨pre, e, h1, h2, fun x hx => h3 x (by simp [hx])⟩⟩

theorem lexLoop_wfs : ∀ (f : Nat) (s : LexSt), WFS (lexLoop f s)
  | 0, s => by simp [lexLoop, WFS]
  | f + 1, s => by
    unfold lexLoop
    simp only
    split
    · rename_i h; exact h
    · rename_i h; exact WFS_cons h (lexLoop_wfs f _)

theorem lex_wfs (input : List Char) : WFS (lex input) := lexLoop_wfs _ _

theorem adv_wfs {ts : List Token} (h : WFS ts) : WFS (adv ts) := by
  cases ts with
  | nil => exact h.elim
  | cons t r =>
    cases r with
    | nil => exact h
    | cons u r => exact h.2

theorem adv_len_le (ts : List Token) : (adv ts).length ≤ ts.length := by
  unfold adv
  split <;> simp

theorem adv_len_lt {ts : List Token} (h : WFS ts) (hc : (cur ts).tok ≠ .eof) :
    (adv ts).length < ts.length := by
  cases ts with
  | nil => exact h.elim
  | cons t r =>
    cases r with
    | nil => exact (hc h).elim
    | cons u r => simp [adv]

/-- a parser result is fine relative to the stream it was started on: it leaves a well-formed
    stream that is not longer, or fails with an error other than `outOfFuel`. -/
def PR.Fine {α : Type} (ts : List Token) : PR α → Prop
  | .ok _ ts' => WFS ts' ∧ ts'.length ≤ ts.length
  | .err _ c => c ≠ .outOfFuel

theorem PR.Fine.ok_of {α : Type} {ts0 : List Token} {r : PR α} {a : α} {ts : List Token}
    (h : r.Fine ts0) (e : r = .ok a ts) : WFS ts ∧ ts.length ≤ ts0.length := by
  subst e; exact h

theorem PR.Fine.err_of {α : Type} {ts0 : List Token} {r : PR α} {p : Pos} {c : ErrClass}
    (h : r.Fine ts0) (e : r = .err p c) : c ≠ .outOfFuel := by
  subst e; exact h

theorem PR.Fine.mono {α : Type} {ts1 ts : List Token} {r : PR α} (hl : ts1.length ≤ ts.length)
    (h : r.Fine ts1) : r.Fine ts := by
  cases r with
  | ok a ts' => exact ⟨h.1, Nat.le_trans h.2 hl⟩
  | err p c => exact h

theorem eat_fine {ts : List Token} (w : Tok) (h : WFS ts) : (eat w ts).Fine ts := by
  unfold eat
  split
  · exact ⟨adv_wfs h, adv_len_le ts⟩
  · simp [PR.Fine]

theorem parseDictModifier_fine {ts : List Token} (h : WFS ts) : (parseDictModifier ts).Fine ts := by
  unfold parseDictModifier
  have ha := adv_wfs h
  have la := adv_len_le ts
  have e1 := eat_fine (.punct '(') ha
  cases h1 : eat (.punct '(') (adv ts) with
  | err p c => exact e1.err_of h1
  | ok u ts1 =>
    have k1 := e1.ok_of h1
    simp only
    split
    · have e2 := eat_fine (.punct ')') (adv_wfs k1.1)
      have la1 := adv_len_le ts1
      cases h2 : eat (.punct ')') (adv ts1) with
      | err p c => exact e2.err_of h2
      | ok u ts2 =>
        have k2 := e2.ok_of h2
        exact ⟨k2.1, by omega⟩
    · simp [PR.Fine]

theorem parseFieldType_fine {ts : List Token} (h : WFS ts) : (parseFieldType ts).Fine ts := by
  unfold parseFieldType
  simp only
  have hr : (if (cur ts).tok = .punct '[' then eat (.punct ']') (adv ts) else PR.ok () ts).Fine ts := by
    split
    · exact (eat_fine _ (adv_wfs h)).mono (adv_len_le ts)
    · exact ⟨h, Nat.le_refl _⟩
  cases h1 : (if (cur ts).tok = .punct '[' then eat (.punct ']') (adv ts) else PR.ok () ts) with
  | err p c => exact hr.err_of h1
  | ok u ts1 =>
    have k1 := hr.ok_of h1
    have la1 := adv_len_le ts1
    simp only
    cases typeOfTok (cur ts1).tok with
    | none =>
      simp only
      split <;> simp [PR.Fine]
    | some ft =>
      simp only
      split
      · split
        · simp [PR.Fine]
        · have hd := parseDictModifier_fine (adv_wfs k1.1)
          cases h2 : parseDictModifier (adv ts1) with
          | err p c => exact hd.err_of h2
          | ok d ts2 =>
            have k2 := hd.ok_of h2
            simp only
            split <;> exact ⟨k2.1, by omega⟩
      · split <;> exact ⟨adv_wfs k1.1, by omega⟩

theorem skipOptionals_wfs : ∀ (ts : List Token) (o : Bool), WFS ts →
    WFS (skipOptionals ts o).2 ∧ (skipOptionals ts o).2.length ≤ ts.length
  | [], o, h => h.elim
  | t :: r, o, h => by
    unfold skipOptionals
    split
    · rename_i hc
      cases r with
      | nil => simp at hc
      | cons u r =>
        have := skipOptionals_wfs (u :: r) true h.2
        exact ⟨this.1, by simp at this ⊢; omega⟩
    · exact ⟨h, Nat.le_refl _⟩

theorem parseStructFields_fine : ∀ (f : Nat) (fs : List Field) (ts : List Token),
    WFS ts → ts.length < f → (parseStructFields f fs ts).Fine ts
  | 0, fs, ts, h, hl => by omega
  | f + 1, fs, ts, h, hl => by
    unfold parseStructFields
    split
    · rename_i fname hc
      split
      · simp [PR.Fine]
      · have hlt : (adv ts).length < ts.length := adv_len_lt h (by rw [hc]; simp)
        have hf := parseFieldType_fine (adv_wfs h)
        cases h1 : parseFieldType (adv ts) with
        | err p c => exact hf.err_of h1
        | ok ty ts1 =>
          have k1 := hf.ok_of h1
          simp only
          have k2 := skipOptionals_wfs ts1 false k1.1
          exact (parseStructFields_fine f _ _ k2.1 (by omega)).mono (by omega)
    · exact ⟨h, Nat.le_refl _⟩

theorem parseStruct_fine {ts : List Token} (isOneOf : Bool) (σ : Schema) (h : WFS ts) :
    (parseStruct isOneOf σ ts).Fine (adv ts) := by
  unfold parseStruct
  simp only
  have ha := adv_wfs h
  have la := adv_len_le ts
  split
  · rename_i sname _
    split
    · simp [PR.Fine]
    · have haa := adv_wfs ha
      have laa := adv_len_le (adv ts)
      have hm : ∀ (mods : PR (Name × Bool)), mods.Fine (adv ts) →
          (match mods with
            | .err p c => PR.err p c
            | .ok (dict, isRoot) ts =>
              match eat (.punct '{') ts with
              | .err p c => .err p c
              | .ok _ ts =>
                match parseStructFields (ts.length + 1) [] ts with
                | .err p c => .err p c
                | .ok fs ts =>
                  if isRoot && fs.isEmpty then .err (cur ts).pos .rootEmpty
                  else match eat (.punct '}') ts with
                    | .err p c => .err p c
                    | .ok _ ts =>
                      .ok { σ with structs := σ.structs ++
                        [{ name := sname, oneOf := isOneOf, dict := dict, isRoot := isRoot, fields := fs }] } ts
            : PR Schema).Fine (adv ts) := by
        intro mods hg
        cases mods with
        | err p c => exact hg
        | ok a ts1 =>
          obtain ⟨dict, isRoot⟩ := a
          have k1 : WFS ts1 ∧ ts1.length ≤ (adv ts).length := hg
          simp only
          have he := eat_fine (.punct '{') k1.1
          cases h2 : eat (.punct '{') ts1 with
          | err p c => exact he.err_of h2
          | ok u ts2 =>
            have k2 := he.ok_of h2
            simp only
            have hf := parseStructFields_fine (ts2.length + 1) [] ts2 k2.1 (Nat.lt_succ_self _)
            cases h3 : parseStructFields (ts2.length + 1) [] ts2 with
            | err p c => exact hf.err_of h3
            | ok fs ts3 =>
              have k3 := hf.ok_of h3
              simp only
              split
              · simp [PR.Fine]
              · have he2 := eat_fine (.punct '}') k3.1
                cases h4 : eat (.punct '}') ts3 with
                | err p c => exact he2.err_of h4
                | ok u ts4 =>
                  have k4 := he2.ok_of h4
                  exact ⟨k4.1, by omega⟩
      apply hm
      split
      · split
        · simp [PR.Fine]
        · have hd := parseDictModifier_fine haa
          cases h2 : parseDictModifier (adv (adv ts)) with
          | err p c => exact hd.err_of h2
          | ok d ts2 =>
            have k2 := hd.ok_of h2
            exact ⟨k2.1, by omega⟩
      · split
        · simp [PR.Fine]
        · have := adv_len_le (adv (adv ts))
          exact ⟨adv_wfs haa, by omega⟩
      · exact ⟨haa, by omega⟩
  · simp [PR.Fine]

theorem parseMultimapField_fine {ts : List Token} (h : WFS ts) :
    (parseMultimapField ts).Fine ts := by
  unfold parseMultimapField
  have hf := parseFieldType_fine h
  cases h1 : parseFieldType ts with
  | err p c => exact hf.err_of h1
  | ok ty ts1 =>
    have k1 := hf.ok_of h1
    simp only
    split
    · have hd := parseDictModifier_fine k1.1
      cases h2 : parseDictModifier ts1 with
      | err p c => exact hd.err_of h2
      | ok d ts2 =>
        have k2 := hd.ok_of h2
        exact ⟨k2.1, by omega⟩
    · exact k1

theorem parseMultimap_fine {ts : List Token} (σ : Schema) (h : WFS ts) :
    (parseMultimap σ ts).Fine (adv ts) := by
  unfold parseMultimap
  simp only
  have ha := adv_wfs h
  have la := adv_len_le ts
  have laa := adv_len_le (adv ts)
  split
  · split
    · simp [PR.Fine]
    · have e1 := eat_fine (.punct '{') (adv_wfs ha)
      cases h1 : eat (.punct '{') (adv (adv ts)) with
      | err p c => exact e1.err_of h1
      | ok u ts1 =>
      have k1 := e1.ok_of h1
      simp only
      have e2 := eat_fine (.kw .key) k1.1
      cases h2 : eat (.kw .key) ts1 with
      | err p c => exact e2.err_of h2
      | ok u ts2 =>
      have k2 := e2.ok_of h2
      simp only
      have e3 := parseMultimapField_fine k2.1
      cases h3 : parseMultimapField ts2 with
      | err p c => exact e3.err_of h3
      | ok kt ts3 =>
      have k3 := e3.ok_of h3
      simp only
      have e4 := eat_fine (.kw .value) k3.1
      cases h4 : eat (.kw .value) ts3 with
      | err p c => exact e4.err_of h4
      | ok u ts4 =>
      have k4 := e4.ok_of h4
      simp only
      have e5 := parseMultimapField_fine k4.1
      cases h5 : parseMultimapField ts4 with
      | err p c => exact e5.err_of h5
      | ok vt ts5 =>
      have k5 := e5.ok_of h5
      simp only
      have e6 := eat_fine (.punct '}') k5.1
      cases h6 : eat (.punct '}') ts5 with
      | err p c => exact e6.err_of h6
      | ok u ts6 =>
      have k6 := e6.ok_of h6
      exact ⟨k6.1, by omega⟩
  · simp [PR.Fine]

theorem parseEnumFields_fine : ∀ (f : Nat) (fs : List EnumField) (ts : List Token),
    WFS ts → ts.length < f → (parseEnumFields f fs ts).Fine ts
  | 0, fs, ts, h, hl => by omega
  | f + 1, fs, ts, h, hl => by
    unfold parseEnumFields
    split
    · rename_i fname hc
      split
      · simp [PR.Fine]
      · have hlt : (adv ts).length < ts.length := adv_len_lt h (by rw [hc]; simp)
        have e1 := eat_fine (.punct '=') (adv_wfs h)
        cases h1 : eat (.punct '=') (adv ts) with
        | err p c => exact e1.err_of h1
        | ok u ts1 =>
          have k1 := e1.ok_of h1
          have la1 := adv_len_le ts1
          simp only
          split
          · exact (parseEnumFields_fine f _ _ (adv_wfs k1.1) (by omega)).mono (by omega)
          · simp [PR.Fine]
    · exact ⟨h, Nat.le_refl _⟩

theorem parseEnum_fine {ts : List Token} (σ : Schema) (h : WFS ts) :
    (parseEnum σ ts).Fine (adv ts) := by
  unfold parseEnum
  simp only
  have ha := adv_wfs h
  have la := adv_len_le ts
  have laa := adv_len_le (adv ts)
  split
  · split
    · simp [PR.Fine]
    · have e1 := eat_fine (.punct '{') (adv_wfs ha)
      cases h1 : eat (.punct '{') (adv (adv ts)) with
      | err p c => exact e1.err_of h1
      | ok u ts1 =>
      have k1 := e1.ok_of h1
      simp only
      have e2 := parseEnumFields_fine (ts1.length + 1) [] ts1 k1.1 (Nat.lt_succ_self _)
      cases h2 : parseEnumFields (ts1.length + 1) [] ts1 with
      | err p c => exact e2.err_of h2
      | ok fs ts2 =>
      have k2 := e2.ok_of h2
      simp only
      have e3 := eat_fine (.punct '}') k2.1
      cases h3 : eat (.punct '}') ts2 with
      | err p c => exact e3.err_of h3
      | ok u ts3 =>
      have k3 := e3.ok_of h3
      exact ⟨k3.1, by omega⟩
  · simp [PR.Fine]

theorem parsePackageLoop_fine : ∀ (f : Nat) (acc : List Name) (ts : List Token),
    WFS ts → ts.length < f → (parsePackageLoop f acc ts).Fine ts
  | 0, acc, ts, h, hl => by omega
  | f + 1, acc, ts, h, hl => by
    unfold parsePackageLoop
    split
    · rename_i c hc
      have hlt : (adv ts).length < ts.length := adv_len_lt h (by rw [hc]; simp)
      have laa := adv_len_le (adv ts)
      simp only
      split
      · exact (parsePackageLoop_fine f _ _ (adv_wfs (adv_wfs h)) (by omega)).mono (by omega)
      · exact ⟨adv_wfs h, by omega⟩
    · simp [PR.Fine]

theorem parsePackage_fine {ts : List Token} (h : WFS ts) : (parsePackage ts).Fine ts := by
  unfold parsePackage
  have e1 := eat_fine (.kw .package) h
  cases h1 : eat (.kw .package) ts with
  | err p c => exact e1.err_of h1
  | ok u ts1 =>
    have k1 := e1.ok_of h1
    exact (parsePackageLoop_fine _ _ _ k1.1 (Nat.lt_succ_self _)).mono k1.2

/-- like `Fine`, but the remaining stream is strictly shorter. -/
def PR.FineLt {α : Type} (ts : List Token) : PR α → Prop
  | .ok _ ts' => WFS ts' ∧ ts'.length < ts.length
  | .err _ c => c ≠ .outOfFuel

/-- a definition (`struct`/`oneof`/`multimap`/`enum`) consumes at least its keyword. -/
theorem PR.Fine.lt {α : Type} {ts : List Token} {r : PR α} (h : WFS ts) (hc : (cur ts).tok ≠ .eof)
    (hr : r.Fine (adv ts)) : r.FineLt ts := by
  have hlt := adv_len_lt h hc
  cases r with
  | ok a ts' => exact ⟨hr.1, Nat.lt_of_le_of_lt hr.2 hlt⟩
  | err p c => exact hr

theorem parseDefs_fine : ∀ (f : Nat) (σ : Schema) (ts : List Token),
    WFS ts → ts.length < f → (parseDefs f σ ts).Fine ts
  | 0, σ, ts, h, hl => by omega
  | f + 1, σ, ts, h, hl => by
    unfold parseDefs
    simp only
    have hm : ∀ (r : PR Schema), r.FineLt ts →
        (match r with
          | .err p c => PR.err p c
          | .ok σ ts => if (cur ts).tok = Tok.eof then PR.ok σ ts else parseDefs f σ ts).Fine ts := by
      intro r hr
      cases r with
      | err p c => exact hr
      | ok σ1 ts1 =>
        have k1 : WFS ts1 ∧ ts1.length < ts.length := hr
        simp only
        split
        · exact ⟨k1.1, by omega⟩
        · exact (parseDefs_fine f _ _ k1.1 (by omega)).mono (by omega)
    apply hm
    split
    · rename_i hc; exact (parseStruct_fine _ _ h).lt h (by rw [hc]; simp)
    · rename_i hc; exact (parseStruct_fine _ _ h).lt h (by rw [hc]; simp)
    · rename_i hc; exact (parseMultimap_fine _ h).lt h (by rw [hc]; simp)
    · rename_i hc; exact (parseEnum_fine _ h).lt h (by rw [hc]; simp)
    · simp [PR.FineLt]

theorem grammar_fine {ts : List Token} (h : WFS ts) : (grammar ts).Fine ts := by
  unfold grammar
  have e1 := parsePackage_fine h
  cases h1 : parsePackage ts with
  | err p c => exact e1.err_of h1
  | ok pkg ts1 =>
    have k1 := e1.ok_of h1
    simp only
    split
    · exact k1
    · exact (parseDefs_fine _ _ _ k1.1 (Nat.lt_succ_self _)).mono k1.2

/-! ### `resolveRefs` reports only `unknownType` / `ambiguousType` -/

theorem resolveBase_err {σ : Schema} {b : BaseType} {c : ErrClass}
    (h : resolveBase σ b = .error c) : c ≠ .outOfFuel := by
  unfold resolveBase at h
  extract_lets tn isS isM isE b1 b2 m at h
  split at h
  · split at h
    · cases h; simp
    · split at h
      · cases h; simp
      · cases h
  · cases h

theorem resolveFType_err {σ : Schema} {t : FType} {c : ErrClass}
    (h : resolveFType σ t = .error c) : c ≠ .outOfFuel := by
  cases t with
  | base b =>
    simp only [resolveFType] at h
    cases h1 : resolveBase σ b with
    | error e => rw [h1] at h; simp [Except.map] at h; subst h; exact resolveBase_err h1
    | ok v => rw [h1] at h; simp [Except.map] at h
  | array e d r =>
    simp only [resolveFType] at h
    cases h1 : resolveBase σ e with
    | error e' => rw [h1] at h; simp [Except.map] at h; subst h; exact resolveBase_err h1
    | ok v => rw [h1] at h; simp [Except.map] at h

theorem resolveFields_err {σ : Schema} : ∀ {fs : List Field} {c : ErrClass},
    resolveFields σ fs = .error c → c ≠ .outOfFuel
  | [], c, h => by simp [resolveFields] at h
  | f :: fs, c, h => by
    unfold resolveFields at h
    cases h1 : resolveFType σ f.ty with
    | error e => rw [h1] at h; simp only at h; cases h; exact resolveFType_err h1
    | ok ty =>
      rw [h1] at h; simp only at h
      cases h2 : resolveFields σ fs with
      | error e => rw [h2] at h; simp only at h; cases h; exact resolveFields_err h2
      | ok fs' => rw [h2] at h; simp only at h; cases h

theorem resolveStructs_err {σ : Schema} : ∀ {ss : List Struct} {c : ErrClass},
    resolveStructs σ ss = .error c → c ≠ .outOfFuel
  | [], c, h => by simp [resolveStructs] at h
  | s :: ss, c, h => by
    unfold resolveStructs at h
    cases h1 : resolveFields σ s.fields with
    | error e => rw [h1] at h; simp only at h; cases h; exact resolveFields_err h1
    | ok fs =>
      rw [h1] at h; simp only at h
      cases h2 : resolveStructs σ ss with
      | error e => rw [h2] at h; simp only at h; cases h; exact resolveStructs_err h2
      | ok ss' => rw [h2] at h; simp only at h; cases h

theorem resolveMultimaps_err {σ : Schema} : ∀ {ms : List Multimap} {c : ErrClass},
    resolveMultimaps σ ms = .error c → c ≠ .outOfFuel
  | [], c, h => by simp [resolveMultimaps] at h
  | m :: ms, c, h => by
    unfold resolveMultimaps at h
    cases h1 : resolveFType σ m.key with
    | error e => rw [h1] at h; simp only at h; cases h; exact resolveFType_err h1
    | ok k =>
      rw [h1] at h; simp only at h
      cases h2 : resolveFType σ m.value with
      | error e => rw [h2] at h; simp only at h; cases h; exact resolveFType_err h2
      | ok v =>
        rw [h2] at h; simp only at h
        cases h3 : resolveMultimaps σ ms with
        | error e => rw [h3] at h; simp only at h; cases h; exact resolveMultimaps_err h3
        | ok ms' => rw [h3] at h; simp only at h; cases h

theorem resolveRefs_err {σ : Schema} {c : ErrClass} (h : resolveRefs σ = .error c) :
    c ≠ .outOfFuel := by
  unfold resolveRefs at h
  cases h1 : resolveStructs σ σ.structs with
  | error e => rw [h1] at h; simp only at h; cases h; exact resolveStructs_err h1
  | ok ss =>
    rw [h1] at h; simp only at h
    cases h2 : resolveMultimaps σ σ.multimaps with
    | error e => rw [h2] at h; simp only at h; cases h; exact resolveMultimaps_err h2
    | ok ms => rw [h2] at h; simp only at h; cases h

/-- on a well-formed token stream the parser never runs out of fuel. -/
theorem parseTokens_fuel_of_wfs {ts : List Token} (h : WFS ts) (p : Pos) :
    parseTokens ts ≠ .error p .outOfFuel := by
  intro he
  unfold parseTokens at he
  have g := grammar_fine h
  cases h1 : grammar ts with
  | err p' c' =>
    rw [h1] at he
    simp only at he
    cases he
    exact g.err_of h1 rfl
  | ok σ ts1 =>
    rw [h1] at he
    simp only at he
    split at he
    · rename_i c hc
      cases he
      exact resolveRefs_err hc rfl
    · split at he
      · cases he
      · split at he <;> cases he

/-- **Parser fuel is sufficient**: `parse input = parseTokens (lex input)` never reports
    `outOfFuel`, i.e. the fuel-0 branches of `parseStructFields`, `parseEnumFields`,
    `parsePackageLoop` and `parseDefs` are unreachable from `parse`. -/
theorem parseTokens_fuel (input : List Char) (p : Pos) :
    parseTokens (lex input) ≠ .error p .outOfFuel :=
  parseTokens_fuel_of_wfs (lex_wfs input) p

theorem parse_fuel (input : List Char) (p : Pos) : parse input ≠ .error p .outOfFuel :=
  parseTokens_fuel input p

/-! ## Part B: lexer -/

/-- lexer measure: unread characters, plus one while EOF has not been observed. -/
def mu (s : LexSt) : Nat := s.rest.length + (if s.isEOF then 0 else 1)

theorem LexSt.adv_mu (s : LexSt) :
    mu s.adv ≤ mu s ∧ (s.isEOF = false → mu s.adv + 1 = mu s) := by
  unfold LexSt.adv
  cases hr : s.rest with
  | nil =>
    cases he : s.isEOF <;> simp [mu, hr, he]
  | cons c r =>
    simp only
    split
    · cases he : s.isEOF <;> simp [mu, hr, he]
    · split
      · split
        · cases he : s.isEOF <;> simp [mu, hr, he]
        · cases he : s.isEOF <;> simp [mu, hr, he]
      · cases he : s.isEOF <;> simp [mu, hr, he]

theorem LexSt.adv_mu_le (s : LexSt) : mu s.adv ≤ mu s := (LexSt.adv_mu s).1

theorem LexSt.adv_mu_lt {s : LexSt} (h : s.isEOF = false) : mu s.adv < mu s := by
  have := (LexSt.adv_mu s).2 h; omega

theorem skipLine_mu : ∀ (f : Nat) (s : LexSt), mu (skipLine f s) ≤ mu s
  | 0, s => by simp [skipLine]
  | f + 1, s => by
    unfold skipLine
    split
    · exact Nat.le_trans (skipLine_mu f _) (LexSt.adv_mu_le s)
    · exact Nat.le_refl _

theorem skipComment_mu (s : LexSt) : mu (skipComment s) ≤ mu s := by
  unfold skipComment
  simp only
  split
  · exact LexSt.adv_mu_le s
  · exact Nat.le_trans (skipLine_mu _ _) (LexSt.adv_mu_le s)

theorem skipWs_mu : ∀ (f : Nat) (s : LexSt), mu (skipWs f s) ≤ mu s
  | 0, s => by simp [skipWs]
  | f + 1, s => by
    unfold skipWs
    split
    · exact Nat.le_refl _
    · split
      · exact Nat.le_trans (skipWs_mu f _) (LexSt.adv_mu_le s)
      · split
        · exact Nat.le_trans (skipWs_mu f _) (skipComment_mu s)
        · exact Nat.le_refl _

theorem readIdentChars_mu : ∀ (f : Nat) (s : LexSt) (acc : List Char),
    mu (readIdentChars f s acc).2 ≤ mu s
  | 0, s, acc => by simp [readIdentChars]
  | f + 1, s, acc => by
    unfold readIdentChars
    split
    · simp only
      split
      · exact LexSt.adv_mu_le s
      · exact Nat.le_trans (readIdentChars_mu f _ _) (LexSt.adv_mu_le s)
    · exact Nat.le_refl _

theorem readIdentChars_mu_lt (f : Nat) (s : LexSt) (acc : List Char) (he : s.isEOF = false)
    (hc : isIdentChar s.next = true) : mu (readIdentChars (f + 1) s acc).2 < mu s := by
  have hlt := LexSt.adv_mu_lt he
  unfold readIdentChars
  rw [if_pos hc]
  simp only
  split
  · exact hlt
  · exact Nat.lt_of_le_of_lt (readIdentChars_mu f _ _) hlt

theorem readNumChars_mu : ∀ (f : Nat) (s : LexSt) (acc : List Char),
    mu (readNumChars f s acc).2 ≤ mu s
  | 0, s, acc => by simp [readNumChars]
  | f + 1, s, acc => by
    unfold readNumChars
    simp only
    split
    · exact LexSt.adv_mu_le s
    · exact Nat.le_trans (readNumChars_mu f _ _) (LexSt.adv_mu_le s)

theorem readNumChars_mu_lt (f : Nat) (s : LexSt) (acc : List Char) (he : s.isEOF = false) :
    mu (readNumChars (f + 1) s acc).2 < mu s := by
  have hlt := LexSt.adv_mu_lt he
  unfold readNumChars
  simp only
  split
  · exact hlt
  · exact Nat.lt_of_le_of_lt (readNumChars_mu f _ _) hlt

/-- every non-EOF token consumes input. -/
theorem nextTok_mu_lt (s : LexSt) (h : (nextTok s).1.tok ≠ .eof) : mu (nextTok s).2 < mu s := by
  have hw := skipWs_mu (s.rest.length + 1) s
  unfold nextTok at h ⊢
  simp only at h ⊢
  split
  · rename_i he; rw [if_pos he] at h; exact (h rfl).elim
  · rename_i he
    have he' : (skipWs (s.rest.length + 1) s).isEOF = false := by simpa using he
    have hlt := LexSt.adv_mu_lt he'
    split
    · simp only; omega
    · split
      · rename_i hl
        have := readIdentChars_mu_lt (skipWs (s.rest.length + 1) s).rest.length _ [] he'
          (by simp [isIdentChar, hl])
        split <;> (simp only; omega)
      · split
        · have := readNumChars_mu_lt (skipWs (s.rest.length + 1) s).rest.length _ [] he'
          split <;> (simp only; omega)
        · simp only; omega

theorem lexLoop_fuel : ∀ (f1 f2 : Nat) (s : LexSt), mu s < f1 → mu s < f2 →
    lexLoop f1 s = lexLoop f2 s
  | 0, _, s, h1, _ => by omega
  | _ + 1, 0, s, _, h2 => by omega
  | f1 + 1, f2 + 1, s, h1, h2 => by
    simp only [lexLoop]
    split
    · rfl
    · rename_i h
      have := nextTok_mu_lt s h
      rw [lexLoop_fuel f1 f2 _ (by omega) (by omega)]

/-- **Lexer fuel is sufficient**: more fuel than `lex` supplies yields the same token list, so
    the fuel-0 branch of `lexLoop` is never what terminates `lex input`. -/
theorem lex_fuel_irrelevant (input : List Char) (k : Nat) :
    lexLoop (input.length + 2 + k) (LexSt.adv { rest := input }) = lex input := by
  unfold lex
  have h := LexSt.adv_mu_le { rest := input }
  have h0 : mu { rest := input } = input.length + 1 := by simp [mu]
  exact lexLoop_fuel _ _ _ (by omega) (by omega)

/-! ## Non-vacuity -/

/-- `parse` does produce positioned errors (of other classes). -/
example : parse "package a struct".toList = .error ⟨16, 1, 17⟩ .structName := by decide +kernel

/-- the `outOfFuel` result is a real behaviour of the loops when the fuel is too small (here 1 for
    two fields), so its unreachability from `parse` is a statement about the fuel supplied. -/
example : parseStructFields 1 [] (lex "x int64 y int64 }".toList) = .err ⟨8, 1, 9⟩ .outOfFuel := by
  rfl

/-- likewise too little lexer fuel does change the token list. -/
example : lexLoop 2 (LexSt.adv { rest := "a b c".toList }) ≠ lex "a b c".toList := by
  decide +kernel

end Stef.Idl
