/-
  Stef.Proofs.DowngradeCex: why the downgrade statement is about PROJECTED inputs, and a concrete
  downgraded stream (non-vacuity of Props/C04Down).

  * `encode_refuses_*`: the encoder model refuses (returns `none` for) a modified mask with a bit
    beyond the node's kept field count, presence bits beyond the kept optional count, and a oneof
    alternative beyond the kept alternatives. The Go writer masks these away
    (`fieldMask &= keepFieldMask`, `optionalFieldsPresent & ^(^0 << optionalFieldCount)`,
    `if uint(typ) > e.fieldCount { typ = None }`); in the model that masking is `restrict` /
    `restrictMk`, applied to the history before it is encoded.
  * `Ex`: the pair exA ≼ exB of Proofs/Override, a history of two B records that use every B-only
    feature (B-only optional field present, B-only struct field, B-only oneof alternative).
-/
import Stef.Proofs.DowngradeTop

namespace Stef.Proofs.Downgrade
open Stef Stef.Spec Stef.Proofs.Override Stef.Proofs.Forward
open Stef.SpecEnc (Mk Ev encodeNode FrameIn)

theorem encode_refuses_wide_mask (σ : Schema) (f : Nat) (env : List (String × Node)) (col : Nat) (name : String)
    (d : Option String) (kept oc : Nat) (fields : List (Bool × Node)) (cur new : St) (mask : Nat) (subs : List Mk) (ds : DS)
    (h : 2 ^ kept ≤ mask) :
    encodeNode σ f env (.struct col name d kept oc fields) cur new (.struct mask subs) ds = none := by
  cases f with
  | zero => simp [encodeNode]
  | succ f =>
    simp only [encodeNode]
    split
    · split
      · split
        · rename_i hc; omega
        · rfl
      · rfl
    · rfl

theorem encode_refuses_wide_presence (σ : Schema) (f : Nat) (env : List (String × Node)) (col : Nat) (name : String)
    (d : Option String) (kept oc : Nat) (fields : List (Bool × Node)) (cur : St) (pres : Nat) (nf : List St)
    (mask : Nat) (subs : List Mk) (ds : DS) (h : 2 ^ oc ≤ pres) :
    encodeNode σ f env (.struct col name d kept oc fields) cur (.struct pres nf) (.struct mask subs) ds = none := by
  cases f with
  | zero => simp [encodeNode]
  | succ f =>
    simp only [encodeNode]
    split
    · split
      · rename_i hc; omega
      · rfl
    · rfl

theorem encode_refuses_alternative (σ : Schema) (f : Nat) (env : List (String × Node)) (col : Nat) (name : String)
    (kept : Nat) (alts : List Node) (cur : St) (typ : Nat) (val : Option St) (sub : Mk) (ds : DS) (h : kept < typ) :
    encodeNode σ f env (.oneof col name kept alts) cur (.oneof typ val) (.oneof sub) ds = none := by
  cases f with
  | zero => simp [encodeNode]
  | succ f =>
    simp only [encodeNode]
    split
    · rename_i hc; omega
    · rfl

/-! ## a concrete downgraded stream: exB writes in schema exA -/

theorem map_fst_some {α β} (x : Option (α × β)) (a : α) (h : x.map (·.1) = some a) : ∃ b, x = some (a, b) := by
  cases x with
  | none => simp at h
  | some p =>
    obtain ⟨a', b⟩ := p
    simp only [Option.map_some, Option.some.injEq] at h
    subst h
    exact ⟨b, rfl⟩

theorem isSome_false_none {α} (x : Option α) (h : x.isSome = false) : x = none := by
  cases x with
  | none => rfl
  | some _ => simp at h

namespace Ex

def two : Word := 0x4000000000000000#64

/-- B's inner R (alternative `r` of T): the B-only fields `S.n`, `R.y` at their defaults -/
def bInner : St := .struct 0 [.i 9#64, .struct 0 [.f 0#64, .struct 0 [.b false]], .arr [], .s []]

/-- a B record: `y` (B-only, optional) PRESENT = "hi", `s.n` (B-only) = N{k = true},
    `t = [T.u 7, T.n N{true} (B-only alternative), T.r R{..}]` -/
def recB (x : Word) : St :=
  .struct 1 [.i x, .struct 1 [.f two, .struct 0 [.b true]],
    .arr [.oneof 1 (some (.i 7#64)), .oneof 3 (some (.struct 0 [.b true])), .oneof 2 (some bInner)], .s [104#8, 105#8]]

/-- B's marks: record 1 everything modified (mask 15 = four fields), record 2 fields `x` and `y` (mask 9) -/
def mkB1 : Mk := .struct 15 [.leaf, .struct 3 [.leaf, .struct 1 [.leaf]],
  .arr [.oneof .leaf, .oneof (.struct 1 [.leaf]), .oneof (.struct 5 [.leaf, .leaf, .arr []])], .leaf]
def mkB2 : Mk := .struct 9 [.leaf, .leaf, .leaf, .leaf]

def insB : List FrameIn := [{ flags := 0, fuel := 1138, recs := [(recB 5#64, mkB1), (recB 6#64, mkB2)] }]

/-- the A view of the records: `y` gone (presence 1 -> 0), `s.n` gone, `T.n` read as none -/
def recA (x : Word) : St :=
  .struct 0 [.i x, .struct 1 [.f two], .arr [.oneof 1 (some (.i 7#64)), .oneof 0 none,
    .oneof 2 (some (.struct 0 [.i 9#64, .struct 0 [.f 0#64], .arr []]))]]

theorem restrict_recB (x : Word) : restrict exA (.ref "R") (recB x) = recA x := by
  with_unfolding_all rfl

def bytesD : Bytes := ([83, 84, 69, 70, 2, 0, 0, 0, 6, 4, 3, 3, 1, 2, 0, 0, 17, 2, 4, 103, 86, 85, 80, 244, 128, 10, 1,
  13, 192, 194, 4, 120, 72, 14] : List Nat).map (BitVec.ofNat 8)

set_option maxRecDepth 1000000 in
/-- the downgrade writer produces `bytesD` -/
theorem down_bytes : ∃ effssB, downgradeStream exA exB "R" insB = some (bytesD, effssB) := by
  have h : (downgradeStream exA exB "R" insB).map (·.1) = some bytesD := by decide +kernel
  exact map_fst_some _ _ h

set_option maxRecDepth 1000000 in
/-- on the UNPROJECTED history (mask 15 on a three-field tree, presence bit of `y`, alternative 3 of
    two) the model encoder refuses -/
theorem raw_refused : encodeStreamWith exB "R" [3, 1, 2] insB = none := by
  have h : (encodeStreamWith exB "R" [3, 1, 2] insB).isSome = false := by decide +kernel
  exact isSome_false_none _ h

set_option maxRecDepth 100000 in
set_option maxHeartbeats 4000000 in
/-- what the A reader returns on `bytesD`: the restricted records, root masks 15 % 8 and 9 % 8 -/
theorem readA : (decodeStream exA "R" bytesD).error = none ∧
    (decodeStream exA "R" bytesD).records = [(7, recA 5#64), (1, recA 6#64)] := by
  refine ⟨?_, ?_⟩ <;> with_unfolding_all rfl

end Ex

end Stef.Proofs.Downgrade
