import Stef.Varint

namespace Stef.Varint

theorem encodeNat_lt (v : Nat) (h : v < 128) : encodeNat v = [BitVec.ofNat 8 v] := by
  rw [encodeNat]; simp [h]

theorem encodeNat_ge (v : Nat) (h : ¬ v < 128) :
    encodeNat v = BitVec.ofNat 8 (v % 128 + 128) :: encodeNat (v / 128) := by
  rw [encodeNat]; simp [h]

theorem encodeNat_ne_nil (v : Nat) : encodeNat v ≠ [] := by
  by_cases h : v < 128
  · rw [encodeNat_lt v h]; simp
  · rw [encodeNat_ge v h]; simp

/-- decoding what was encoded, starting at byte index `i` with `shift = 7 i` conceptually. -/
theorem decodeAux_encodeNat (v : Nat) : ∀ (i shift acc : Nat) (rest : Bytes),
    i ≤ 9 → v < 2 ^ (64 - 7 * i) →
    decodeAux (encodeNat v ++ rest) shift acc i = some (BitVec.ofNat 64 (acc + v * 2 ^ shift), rest) := by
  induction v using Nat.strongRecOn with
  | _ v ih =>
    intro i shift acc rest hi hv
    by_cases h : v < 128
    · rw [encodeNat_lt v h]
      simp only [List.cons_append, List.nil_append, decodeAux]
      have h10 : i ≠ 10 := by omega
      have hb : (BitVec.ofNat 8 v).toNat = v := by
        simp [BitVec.toNat_ofNat]; omega
      simp only [h10, ↓reduceIte, hb, h]
      have h9 : ¬ (i = 9 ∧ v > 1) := by
        intro ⟨h9, hv1⟩
        subst h9
        simp at hv
        omega
      simp [h9]
    · rw [encodeNat_ge v h]
      simp only [List.cons_append, decodeAux]
      have hi8 : i ≤ 8 := by
        rcases Nat.lt_or_ge i 9 with h' | h'
        · omega
        · have : i = 9 := by omega
          subst this
          simp at hv
          omega
      have h10 : i ≠ 10 := by omega
      have hb : (BitVec.ofNat 8 (v % 128 + 128)).toNat = v % 128 + 128 := by
        simp [BitVec.toNat_ofNat]; omega
      have hge : ¬ (v % 128 + 128 < 128) := by omega
      simp only [h10, ↓reduceIte, hb, hge]
      have hlt : v / 128 < v := by omega
      have hv' : v / 128 < 2 ^ (64 - 7 * (i + 1)) := by
        have e : 2 ^ (64 - 7 * i) = 2 ^ (64 - 7 * (i + 1)) * 128 := by
          have : 64 - 7 * i = (64 - 7 * (i + 1)) + 7 := by omega
          rw [this, Nat.pow_add]
        rw [e] at hv
        exact Nat.div_lt_of_lt_mul (by rw [Nat.mul_comm]; exact hv)
      rw [ih (v / 128) hlt (i + 1) (shift + 7) _ rest (by omega) hv']
      have e1 : v % 128 + 128 - 128 = v % 128 := by omega
      have key : acc + (v % 128 + 128 - 128) * 2 ^ shift + v / 128 * 2 ^ (shift + 7) = acc + v * 2 ^ shift := by
        rw [e1, Nat.pow_add]
        have h128 : (2:Nat) ^ 7 = 128 := rfl
        rw [h128]
        have : (v % 128 + 128 * (v / 128)) * 2 ^ shift
            = v % 128 * 2 ^ shift + v / 128 * (2 ^ shift * 128) := by
          have h2 : 128 * (v / 128) * 2 ^ shift = v / 128 * (2 ^ shift * 128) := by
            rw [Nat.mul_comm 128 (v / 128), Nat.mul_assoc, Nat.mul_comm 128 (2 ^ shift)]
          rw [Nat.add_mul, h2]
        rw [Nat.mod_add_div] at this
        omega
      rw [key]

/-- **uvarint round trip**: every 64-bit value decodes back, whatever follows it. -/
theorem decode_encode (v : Word) (rest : Bytes) : decode (encode v ++ rest) = some (v, rest) := by
  unfold decode encode
  rw [decodeAux_encodeNat v.toNat 0 0 0 rest (by omega) (by simpa using v.isLt)]
  simp

end Stef.Varint

namespace Stef.Varint

theorem and_one_eq (z : Word) : z &&& 1#64 = if z.getLsbD 0 then 1#64 else 0#64 := by
  apply BitVec.eq_of_getLsbD_eq
  intro j hj
  by_cases h0 : j = 0
  · subst h0
    cases hz : z.getLsbD 0 <;> simp_all
  · have : (1#64).getLsbD j = false := by
      simp [BitVec.getLsbD_one, h0]
    cases hz : z.getLsbD 0 <;> simp_all

theorem zigzag_bit (x : Word) (j : Nat) (hj : j < 64) :
    (zigzag x).getLsbD j = (x.msb ^^ (decide (0 < j) && x.getLsbD (j - 1))) := by
  unfold zigzag
  rw [BitVec.getLsbD_xor, BitVec.getLsbD_sshiftRight, BitVec.getLsbD_shiftLeft]
  have h1 : ¬ (64 ≤ j) := by omega
  have h2 : ¬ (63 + j < 64) ∨ j = 0 := by omega
  rcases h2 with h2 | h2
  · have h3 : ¬ j < 1 := by omega
    have h4 : 0 < j := by omega
    simp [h1, h2, h3, h4, hj]
  · subst h2
    simp [BitVec.msb_eq_getLsbD_last]

theorem neg_mask (b : Bool) (j : Nat) (hj : j < 64) :
    (0#64 - (if b then 1#64 else 0#64)).getLsbD j = b := by
  cases b
  · simp
  · have hones : (0#64 - 1#64) = BitVec.allOnes 64 := by decide
    simp only [↓reduceIte]
    rw [hones, BitVec.getLsbD_allOnes]
    simp [hj]

/-- **zig-zag round trip** on all 64-bit values. -/
theorem unzigzag_zigzag (x : Word) : unzigzag (zigzag x) = x := by
  apply BitVec.eq_of_getLsbD_eq
  intro j hj
  unfold unzigzag
  rw [and_one_eq, zigzag_bit x 0 (by omega)]
  simp only [Nat.lt_irrefl, decide_false, Bool.false_and, Bool.xor_false]
  rw [BitVec.getLsbD_xor, neg_mask _ j hj, BitVec.getLsbD_ushiftRight]
  by_cases h63 : j = 63
  · subst h63
    have : (zigzag x).getLsbD (1 + 63) = false := by
      apply BitVec.getLsbD_of_ge; omega
    rw [this]
    simp [BitVec.msb_eq_getLsbD_last]
  · rw [zigzag_bit x (1 + j) (by omega)]
    have h1 : 0 < 1 + j := by omega
    have h2 : 1 + j - 1 = j := by omega
    simp only [h1, decide_true, Bool.true_and, h2]
    cases x.msb <;> cases x.getLsbD j <;> rfl

theorem decodeSigned_encodeSigned (v : Word) (rest : Bytes) :
    decodeSigned (encodeSigned v ++ rest) = some (v, rest) := by
  simp [decodeSigned, encodeSigned, decode_encode, unzigzag_zigzag]

end Stef.Varint
