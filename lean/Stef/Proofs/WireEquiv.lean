/-
  Equivalent schemas (same definitions up to definition order) have the same wire schema for
  every root: `NewWireSchema` only looks definitions up by name.
-/
import Stef.Proofs.IdlWF

namespace Stef.Idl

theorem insertBy_perm {α : Type} (key : α → Name) (x : α) : ∀ l : List α, (insertBy key x l).Perm (x :: l)
  | [] => by simp [insertBy]
  | y :: ys => by
    unfold insertBy
    split
    · exact List.Perm.refl _
    · exact ((insertBy_perm key x ys).cons y).trans (List.Perm.swap x y ys)

theorem sortBy_perm {α : Type} (key : α → Name) : ∀ l : List α, (sortBy key l).Perm l
  | [] => by simp [sortBy]
  | x :: xs => by
    have ih := sortBy_perm key xs
    simp only [sortBy, List.foldr_cons] at ih ⊢
    exact (insertBy_perm key x _).trans (ih.cons x)

theorem findStruct_of_perm {l l' : List Struct} (hp : l'.Perm l) (hn : (l.map (·.name)).Nodup)
    (n : Name) : l'.find? (·.name = n) = l.find? (·.name = n) := by
  have hn' : (l'.map (·.name)).Nodup := (hp.map _).nodup_iff.2 hn
  by_cases hex : ∃ s ∈ l, s.name = n
  · obtain ⟨s, hs, rfl⟩ := hex
    have h1 := find?_of_nodup_struct l s hn hs
    have h2 := find?_of_nodup_struct l' s hn' (hp.mem_iff.2 hs)
    rw [h1, h2]
  · have e1 : l.find? (·.name = n) = none := by
      rw [List.find?_eq_none]; intro x hx; simp; intro hxn; exact hex ⟨x, hx, hxn⟩
    have e2 : l'.find? (·.name = n) = none := by
      rw [List.find?_eq_none]; intro x hx; simp; intro hxn; exact hex ⟨x, hp.mem_iff.1 hx, hxn⟩
    rw [e1, e2]

theorem findMultimap_of_perm {l l' : List Multimap} (hp : l'.Perm l) (hn : (l.map (·.name)).Nodup)
    (n : Name) : l'.find? (·.name = n) = l.find? (·.name = n) := by
  have hn' : (l'.map (·.name)).Nodup := (hp.map _).nodup_iff.2 hn
  by_cases hex : ∃ s ∈ l, s.name = n
  · obtain ⟨s, hs, rfl⟩ := hex
    have h1 := find?_of_nodup_multimap l s hn hs
    have h2 := find?_of_nodup_multimap l' s hn' (hp.mem_iff.2 hs)
    rw [h1, h2]
  · have e1 : l.find? (·.name = n) = none := by
      rw [List.find?_eq_none]; intro x hx; simp; intro hxn; exact hex ⟨x, hx, hxn⟩
    have e2 : l'.find? (·.name = n) = none := by
      rw [List.find?_eq_none]; intro x hx; simp; intro hxn; exact hex ⟨x, hp.mem_iff.1 hx, hxn⟩
    rw [e1, e2]

/-- the traversal depends on the schema only through the two lookup functions. -/
theorem wsType_congr {σ σ' : Schema} (hs : ∀ n, σ'.findStruct n = σ.findStruct n)
    (hm : ∀ n, σ'.findMultimap n = σ.findMultimap n) : ∀ f, wsType σ' f = wsType σ f
  | 0 => by funext b st; simp [wsType]
  | f + 1 => by
    funext b st
    simp only [wsType, hs, hm, wsType_congr hs hm f]

theorem structs_nodup_of_top {σ : Schema} (h : σ.topNames.Nodup) :
    (σ.structs.map (·.name)).Nodup ∧ (σ.multimaps.map (·.name)).Nodup := by
  simp only [Schema.topNames, List.nodup_append] at h
  exact ⟨h.1.1, h.1.2.1⟩

/-- "... hence the same wire schema for every root". -/
theorem wire_of_equiv {σ σ' : Schema} (h : σ'.Equiv σ) (hw : σ.topNames.Nodup)
    (hw' : σ'.topNames.Nodup) (root : Name) : wire σ' root = wire σ root := by
  obtain ⟨hsn, hmn⟩ := structs_nodup_of_top hw
  obtain ⟨hsn', hmn'⟩ := structs_nodup_of_top hw'
  unfold Schema.Equiv at h
  have hst : sortBy (·.name) σ'.structs = sortBy (·.name) σ.structs := congrArg Schema.structs h
  have hmt : sortBy (·.name) σ'.multimaps = sortBy (·.name) σ.multimaps := congrArg Schema.multimaps h
  have ps : σ'.structs.Perm σ.structs :=
    (sortBy_perm _ _).symm.trans (hst ▸ sortBy_perm _ σ.structs)
  have pm : σ'.multimaps.Perm σ.multimaps :=
    (sortBy_perm _ _).symm.trans (hmt ▸ sortBy_perm _ σ.multimaps)
  have hs : ∀ n, σ'.findStruct n = σ.findStruct n := fun n => findStruct_of_perm ps hsn n
  have hm : ∀ n, σ'.findMultimap n = σ.findMultimap n := fun n => findMultimap_of_perm pm hmn n
  have hf : wsFuel σ' = wsFuel σ := by
    simp only [wsFuel, ps.length_eq, pm.length_eq]
  simp only [wire, wireEntries, hs, hf, wsType_congr hs hm]

end Stef.Idl
