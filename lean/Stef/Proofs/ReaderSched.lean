/-
  Schedule independence: where every multi-byte read has full-read semantics, no function of
  the reader inspects the read schedule, so changing the schedule commutes with every step.
-/
import Stef.Proofs.Reader

namespace Stef.Reader

def Src.ws (s : Src) (σ : List Nat) : Src := { s with sched := σ }
def Rd.ws (r : Rd) (σ : List Nat) : Rd := { r with src := r.src.ws σ }

theorem readByte_ws (s : Src) (σ : List Nat) :
    (s.ws σ).readByte = ((s.readByte).1.ws σ, (s.readByte).2) := by
  unfold Src.readByte Src.ws
  cases s.data <;> simp

theorem readFull_ws (s : Src) (σ : List Nat) (n : Nat) :
    (s.ws σ).readFull n = ((s.readFull n).1.ws σ, (s.readFull n).2) := by
  unfold Src.readFull Src.ws
  by_cases h0 : n = 0
  · simp [h0]
  · by_cases h1 : s.data.length ≥ n
    · simp [h0, h1]
    · by_cases h2 : s.data.isEmpty = true
      · simp [h0, h1, h2]
      · simp [h0, h1, h2]

theorem readUvarintAux_ws (fuel : Nat) : ∀ (s : Src) (σ : List Nat) (shift acc i : Nat),
    Src.readUvarintAux fuel (s.ws σ) shift acc i =
      ((Src.readUvarintAux fuel s shift acc i).1.ws σ, (Src.readUvarintAux fuel s shift acc i).2) := by
  induction fuel with
  | zero => intro s σ shift acc i; simp [Src.readUvarintAux]
  | succ fuel ih =>
    intro s σ shift acc i
    simp only [Src.readUvarintAux, readByte_ws]
    cases hb : s.readByte with
    | mk s' res =>
      cases res with
      | error e => simp
      | ok b =>
        simp only
        by_cases h1 : b.toNat < 128
        · by_cases h2 : i = 9 ∧ b.toNat > 1
          · simp [h1, h2]
          · simp [h1, h2]
        · simp only [h1, ↓reduceIte]
          exact ih s' σ _ _ _

theorem readUvarint_ws (s : Src) (σ : List Nat) :
    (s.ws σ).readUvarint = ((s.readUvarint).1.ws σ, (s.readUvarint).2) := by
  simp [Src.readUvarint, readUvarintAux_ws]

theorem fill_full_ws (s : Src) (σ : List Nat) (n : Nat) :
    (s.ws σ).fill true n = ((s.fill true n).1.ws σ, (s.fill true n).2) := by
  simp [Src.fill, readFull_ws]

theorem fdReadUvarintAux_ws (fuel : Nat) : ∀ (r : Rd) (σ : List Nat) (shift acc i : Nat),
    fdReadUvarintAux fuel (r.ws σ) shift acc i =
      ((fdReadUvarintAux fuel r shift acc i).1.ws σ, (fdReadUvarintAux fuel r shift acc i).2) := by
  induction fuel with
  | zero => intro r σ shift acc i; simp [fdReadUvarintAux]
  | succ fuel ih =>
    intro r σ shift acc i
    simp only [fdReadUvarintAux]
    by_cases h0 : r.remaining = 0
    · simp [h0, Rd.ws]
    · have h0' : ¬ (r.ws σ).remaining = 0 := by simpa [Rd.ws] using h0
      simp only [h0, h0', ↓reduceIte]
      have hs : (r.ws σ).src = r.src.ws σ := rfl
      rw [hs, readByte_ws]
      cases hb : r.src.readByte with
      | mk s' res =>
        cases res with
        | error e => simp [Rd.ws]
        | ok b =>
          simp only
          by_cases h1 : b.toNat < 128
          · by_cases h2 : i = 9 ∧ b.toNat > 1
            · simp [h1, h2, Rd.ws]
            · simp [h1, h2, Rd.ws]
          · simp only [h1, ↓reduceIte]
            have := ih { r with src := s', remaining := r.remaining - 1 } σ (shift + 7)
              (acc + (b.toNat - 128) * 2 ^ shift) (i + 1)
            simpa [Rd.ws] using this

theorem fdNext_ws (r : Rd) (σ : List Nat) :
    fdNext (r.ws σ) = ((fdNext r).1.ws σ, (fdNext r).2) := by
  unfold fdNext
  have hs : (r.ws σ).src = r.src.ws σ := rfl
  have hr : (r.ws σ).remaining = r.remaining := rfl
  simp only [hs, hr]
  by_cases h0 : r.remaining = 0
  · simp only [h0, ↓reduceIte, readByte_ws]
    cases hb : r.src.readByte with
    | mk s' res =>
      cases res with
      | error e => simp [Rd.ws]
      | ok fb =>
        simp only
        by_cases hf : fb.toNat > Gen.frameFlagsMask
        · simp [hf, Rd.ws]
        · simp only [hf, ↓reduceIte, readUvarint_ws]
          cases hu : s'.readUvarint with
          | mk s'' res2 =>
            cases res2 with
            | error e => simp [Rd.ws]
            | ok sz =>
              simp only
              by_cases hz : sz > Gen.frameSizeLimit <;> simp [hz, Rd.ws]
  · simp only [h0, ↓reduceIte, readFull_ws]
    cases hb : r.src.readFull r.remaining with
    | mk s' res =>
      cases res with
      | error e => simp [Rd.ws]
      | ok _ =>
        simp only [readByte_ws]
        cases hb2 : s'.readByte with
        | mk s2 res2 =>
          cases res2 with
          | error e => simp [Rd.ws]
          | ok fb =>
            simp only
            by_cases hf : fb.toNat > Gen.frameFlagsMask
            · simp [hf, Rd.ws]
            · simp only [hf, ↓reduceIte, readUvarint_ws]
              cases hu : s2.readUvarint with
              | mk s'' res3 =>
                cases res3 with
                | error e => simp [Rd.ws]
                | ok sz =>
                  simp only
                  by_cases hz : sz > Gen.frameSizeLimit <;> simp [hz, Rd.ws]

theorem nextFrame_ws (sites : Sites) (hfull : sites.frameContentFull = true) (r : Rd) (σ : List Nat) :
    nextFrame sites (r.ws σ) = ((nextFrame sites r).1.ws σ, (nextFrame sites r).2) := by
  unfold nextFrame
  rw [fdNext_ws]
  cases h1 : fdNext r with
  | mk r1 res =>
    cases res with
    | error e => simp
    | ok flags =>
      simp only [fdReadUvarintAux_ws]
      cases h2 : fdReadUvarintAux 10 r1 0 0 0 with
      | mk r2 res2 =>
        cases res2 with
        | error e => simp
        | ok nrec =>
          simp only [hfull, ↓reduceIte]
          have hs : (r2.ws σ).src = r2.src.ws σ := rfl
          have hr : (r2.ws σ).remaining = r2.remaining := rfl
          simp only [Rd.ws] at hs hr ⊢
          simp only [readFull_ws]
          cases h3 : r2.src.readFull r2.remaining with
          | mk s3 res3 =>
            cases res3 with
            | error e => simp [Src.ws]
            | ok b => simp [Src.ws]

theorem read_ws (sites : Sites) (hfull : sites.frameContentFull = true) (till : Bool) (fuel : Nat) :
    ∀ (r : Rd) (σ : List Nat),
    read sites till fuel (r.ws σ) = ((read sites till fuel r).1.ws σ, (read sites till fuel r).2) := by
  induction fuel with
  | zero => intro r σ; simp [read]
  | succ fuel ih =>
    intro r σ
    simp only [read]
    have hc : (r.ws σ).frameRecordCount = r.frameRecordCount := rfl
    rw [hc]
    by_cases h0 : r.frameRecordCount = 0
    · simp only [h0, ↓reduceIte]
      cases till with
      | true => simp
      | false =>
        simp only [Bool.false_eq_true, ↓reduceIte, nextFrame_ws sites hfull]
        cases h1 : nextFrame sites r with
        | mk r1 res =>
          cases res with
          | error e => simp
          | ok _ => simp only; exact ih r1 σ
    · simp [h0, Rd.ws]

theorem readFuel_ws (r : Rd) (σ : List Nat) : readFuel (r.ws σ) = readFuel r := rfl

theorem readAll_ws (sites : Sites) (hfull : sites.frameContentFull = true) (fuel : Nat) :
    ∀ (r : Rd) (σ : List Nat),
    readAll sites fuel (r.ws σ) =
      ((readAll sites fuel r).1, (readAll sites fuel r).2.1, (readAll sites fuel r).2.2.ws σ) := by
  induction fuel with
  | zero => intro r σ; simp [readAll]
  | succ fuel ih =>
    intro r σ
    simp only [readAll, readFuel_ws, read_ws sites hfull]
    cases h1 : read sites false (readFuel r) r with
    | mk r1 out =>
      cases out with
      | err e => simp
      | record f i =>
        simp only
        rw [ih r1 σ]

end Stef.Reader

namespace Stef.Reader

theorem readFixedHeader_ws (sites : Sites) (h1 : sites.fixedHdrSignatureFull = true)
    (h2 : sites.fixedHdrContentFull = true) (s : Src) (σ : List Nat) :
    readFixedHeader sites (s.ws σ) = ((readFixedHeader sites s).1.ws σ, (readFixedHeader sites s).2) := by
  unfold readFixedHeader
  simp only [h1, h2, fill_full_ws]
  cases ha : s.fill true 4 with
  | mk s1 res =>
    cases res with
    | error e => simp
    | ok sg =>
      simp only
      by_cases hs : sg ≠ sigBytes
      · simp [hs]
      · simp only [hs, ↓reduceIte, readUvarint_ws]
        cases hb : s1.readUvarint with
        | mk s2 res2 =>
          cases res2 with
          | error e => simp
          | ok sz =>
            simp only
            by_cases hz : sz < 2 ∨ sz > Gen.fixedHdrContentSizeLimit
            · simp [hz]
            · simp only [hz, ↓reduceIte, fill_full_ws]
              cases hc : s2.fill true sz with
              | mk s3 res3 =>
                cases res3 with
                | error e => simp
                | ok content =>
                  simp only
                  split
                  · rfl
                  · split <;> rfl

theorem readVarHeaderBytes_ws (sites : Sites) (h : sites.varHdrFull = true) (r : Rd) (σ : List Nat) :
    readVarHeaderBytes sites (r.ws σ) =
      ((readVarHeaderBytes sites r).1.ws σ, (readVarHeaderBytes sites r).2) := by
  unfold readVarHeaderBytes
  rw [fdNext_ws]
  cases h1 : fdNext r with
  | mk r1 res =>
    cases res with
    | error e => simp
    | ok _ =>
      simp only
      have hr : (r1.ws σ).remaining = r1.remaining := rfl
      have hs : (r1.ws σ).src = r1.src.ws σ := rfl
      rw [hr]
      by_cases ha : r1.remaining > Gen.varHdrContentSizeLimit
      · simp [ha]
      · by_cases hb : r1.remaining = 0
        · simp [ha, hb]
        · simp only [ha, hb, ↓reduceIte, h, hs, readFull_ws]
          cases hc : r1.src.readFull r1.remaining with
          | mk s2 res2 =>
            cases res2 <;> simp [Rd.ws]

/-- **C07 core**: with full-read semantics at every call site, opening a stream and reading it
    to the first error gives the same header bytes, records and error under every schedule. -/
theorem open_ws (sites : Sites) (h1 : sites.fixedHdrSignatureFull = true)
    (h2 : sites.fixedHdrContentFull = true) (h3 : sites.varHdrFull = true) (s : Src) (σ : List Nat) :
    open_ sites (s.ws σ) = ((open_ sites s).1.ws σ, (open_ sites s).2) := by
  unfold open_
  rw [readFixedHeader_ws sites h1 h2]
  cases ha : readFixedHeader sites s with
  | mk s1 res =>
    cases res with
    | error e => simp [Rd.ws]
    | ok comp =>
      simp only
      by_cases hc : comp ≠ 0
      · simp [hc, Rd.ws]
      · simp only [hc, ↓reduceIte]
        have : ({ src := s1.ws σ } : Rd) = ({ src := s1 } : Rd).ws σ := rfl
        rw [this, readVarHeaderBytes_ws sites h3]

end Stef.Reader
