import Stef.Proofs.WireOrder

namespace Stef.Idl

/-
  WireOrderRec: `initEntries σ root = wireEntries σ root` for schemas that MAY BE RECURSIVE
  (no `Schema.Acyclic` hypothesis). Main results at the end of the file:
    * `init_ok_of_wire_ok_rec`   `wireEntries = .ok w` ∧ `root ≠ []`  ⟹  `initEntries = .ok w`
    * `wire_order_rec`           both `.ok`  ⟹  equal

  Proof outline. `Sil σ F K T` is the derivation tree of a SILENT run of `initType` on `T` with
  `fetched = F`, `onStack = K`: every struct it enters is already in `F`, so nothing is emitted
  and the state is returned unchanged (`initType_sil`, which also shows that the fuel
  `stackGap σ K + 1` suffices, `stackGap` = number of possible encoder keys not on the stack).
  `Sil` is monotone in `F` and `K` (`Sil.mono`), and a key can be taken off the stack again if
  the type it belongs to is itself silent (`Sil.unpush`) - this replaces the "paths avoiding
  the stack" of the classical DFS argument. `RelR` relates a wire state and an `Init` state:
  same output, `asMap` = fetched structs + multimaps on the stack, and every fetched struct
  that is not on the stack ("black") is silent. `main_rec`: by induction on the `Init` fuel,
  for related states `Init` succeeds where the wire traversal does, the states stay related,
  and the visited type is silent afterwards.
-/

/-! ## Resolved types, keys -/

/-- the side conditions on the schema (no rank). -/
structure SC (σ : Schema) : Prop where
  names : ∀ n, (σ.findStruct n).isSome = true ∨ (σ.findMultimap n).isSome = true →
    n.head? ≠ some '['
  disj : ∀ n, (σ.findStruct n).isSome = true → (σ.findMultimap n).isSome = true → False

/-- the name a non-primitive type refers to. -/
def refn (T : FType) : Name :=
  if T.inner.struct ≠ [] then T.inner.struct else T.inner.multimap

theorem encoderKey_refn (T : FType) : encoderKey T = keyOf T (refn T) := by
  cases T <;> rfl

/-- a non-primitive type whose definition exists (what `wsType` checks before anything else). -/
def Res (σ : Schema) (T : FType) : Prop :=
  T.inner.prim.isSome = false ∧
  ((T.inner.struct ≠ [] ∧ (σ.findStruct T.inner.struct).isSome = true) ∨
   (T.inner.struct = [] ∧ T.inner.multimap ≠ [] ∧
      (σ.findMultimap T.inner.multimap).isSome = true))

theorem Res.refn_def {σ : Schema} {T : FType} (h : Res σ T) :
    (σ.findStruct (refn T)).isSome = true ∨ (σ.findMultimap (refn T)).isSome = true := by
  rcases h.2 with ⟨hs, hf⟩ | ⟨hs, _, hf⟩
  · left; unfold refn; rw [if_pos hs]; exact hf
  · right; unfold refn; rw [if_neg (fun h => h hs)]; exact hf

theorem Res.head {σ : Schema} (H : SC σ) {T : FType} (h : Res σ T) :
    (refn T).head? ≠ some '[' := H.names _ h.refn_def

/-- same array-ness and same reference. -/
def Sim (T T0 : FType) : Prop :=
  isArr T = isArr T0 ∧ T.inner.struct = T0.inner.struct ∧
    (T.inner.struct = [] → T.inner.multimap = T0.inner.multimap)

theorem arrayKey_inj {a b : Name} (h : arrayKey a = arrayKey b) : a = b := by
  simpa [arrayKey] using h

theorem key_inj {σ : Schema} (H : SC σ) {T T0 : FType} (h : Res σ T) (h0 : Res σ T0)
    (hk : encoderKey T = encoderKey T0) : Sim T T0 := by
  rw [encoderKey_refn, encoderKey_refn] at hk
  have hh := h.head H
  have hh0 := h0.head H
  have harr : isArr T = isArr T0 ∧ refn T = refn T0 := by
    cases T with
    | base b =>
      cases T0 with
      | base b0 => exact ⟨rfl, hk⟩
      | array e0 d0 r0 => exact (arrayKey_ne_of_head hh hk).elim
    | array e d r =>
      cases T0 with
      | base b0 => exact (arrayKey_ne_of_head hh0 hk.symm).elim
      | array e0 d0 r0 => exact ⟨rfl, arrayKey_inj hk⟩
  obtain ⟨ha, hr⟩ := harr
  refine ⟨ha, ?_⟩
  unfold refn at hr
  rcases h.2 with ⟨hs, hf⟩ | ⟨hs, hm, hf⟩
  · rw [if_pos hs] at hr
    rcases h0.2 with ⟨hs0, hf0⟩ | ⟨hs0, hm0, hf0⟩
    · rw [if_pos hs0] at hr
      exact ⟨hr, fun e => (hs e).elim⟩
    · rw [if_neg (fun h => h hs0)] at hr
      rw [hr] at hf
      exact (H.disj _ hf hf0).elim
  · rw [if_neg (fun h => h hs)] at hr
    rcases h0.2 with ⟨hs0, hf0⟩ | ⟨hs0, hm0, hf0⟩
    · rw [if_pos hs0] at hr
      rw [hr] at hf
      exact (H.disj _ hf0 hf).elim
    · rw [if_neg (fun h => h hs0)] at hr
      exact ⟨by rw [hs, hs0], fun _ => hr⟩

/-! ## Silent runs -/

/-- the derivation tree of a run of `initType` on `T` with `fetched = F`, `onStack = K` that
    only enters structs which are already fetched. -/
inductive Sil (σ : Schema) (F : List Name) : List Name → FType → Prop
  | prim {K : List Name} {T : FType} : T.inner.prim.isSome = true → Sil σ F K T
  | cut {K : List Name} {T : FType} : Res σ T → encoderKey T ∈ K → Sil σ F K T
  | arr {K : List Name} {e : BaseType} {d : Name} {r : Bool} :
      Sil σ F (encoderKey (.array e d r) :: K) (.base e) → Sil σ F K (.array e d r)
  | st {K : List Name} {b : BaseType} {s : Struct} : b.prim.isSome = false → b.struct ≠ [] →
      σ.findStruct b.struct = some s → b.struct ∈ F →
      (∀ ty ∈ s.types, Sil σ F (b.struct :: K) ty) → Sil σ F K (.base b)
  | mm {K : List Name} {b : BaseType} {m : Multimap} : b.prim.isSome = false → b.struct = [] →
      b.multimap ≠ [] → σ.findMultimap b.multimap = some m →
      (∀ ty ∈ m.types, Sil σ F (b.multimap :: K) ty) → Sil σ F K (.base b)

theorem Sil.res {σ : Schema} {F K : List Name} {T : FType} (h : Sil σ F K T)
    (hp : T.inner.prim.isSome = false) : Res σ T := by
  induction h with
  | prim hq => rw [hp] at hq; cases hq
  | cut hr _ => exact hr
  | arr _ ih => exact ih hp
  | @st K b s hp' hs hf _ _ _ =>
    exact ⟨hp', Or.inl ⟨hs, by show (σ.findStruct b.struct).isSome = true; rw [hf]; rfl⟩⟩
  | @mm K b m hp' hs hm hf _ _ =>
    exact ⟨hp', Or.inr ⟨hs, hm, by show (σ.findMultimap b.multimap).isSome = true; rw [hf]; rfl⟩⟩

theorem Sil.mono {σ : Schema} {F F' K : List Name} {T : FType} (h : Sil σ F K T)
    (hF : ∀ x ∈ F, x ∈ F') : ∀ K', (∀ k ∈ K, k ∈ K') → Sil σ F' K' T := by
  induction h with
  | prim hp => intro K' _; exact .prim hp
  | cut hr hk => intro K' hK; exact .cut hr (hK _ hk)
  | arr _ ih =>
    intro K' hK
    refine .arr (ih _ ?_)
    intro k hk
    rcases List.mem_cons.mp hk with rfl | hk
    · exact List.mem_cons_self ..
    · exact List.mem_cons_of_mem _ (hK _ hk)
  | st hp hs hf hmem _ ih =>
    intro K' hK
    refine .st hp hs hf (hF _ hmem) (fun ty hty => ih ty hty _ ?_)
    intro k hk
    rcases List.mem_cons.mp hk with rfl | hk
    · exact List.mem_cons_self ..
    · exact List.mem_cons_of_mem _ (hK _ hk)
  | mm hp hs hm hf _ ih =>
    intro K' hK
    refine .mm hp hs hm hf (fun ty hty => ih ty hty _ ?_)
    intro k hk
    rcases List.mem_cons.mp hk with rfl | hk
    · exact List.mem_cons_self ..
    · exact List.mem_cons_of_mem _ (hK _ hk)

theorem Sim.key {T T0 : FType} (h : Sim T T0) : encoderKey T = encoderKey T0 := by
  obtain ⟨ha, hs, hm⟩ := h
  have hr : refn T = refn T0 := by
    unfold refn
    by_cases e : T.inner.struct = []
    · have e0 : T0.inner.struct = [] := by rw [← hs]; exact e
      rw [if_neg (fun h => h e), if_neg (fun h => h e0)]; exact hm e
    · have e0 : T0.inner.struct ≠ [] := by rw [← hs]; exact e
      rw [if_pos e, if_pos e0]; exact hs
  rw [encoderKey_refn, encoderKey_refn, hr]
  cases T <;> cases T0 <;> first | rfl | (simp [isArr] at ha)

/-- a silent run only depends on the array-ness and the reference of the type. -/
theorem Sil.congr {σ : Schema} {F K : List Name} {T0 : FType} (h : Sil σ F K T0) :
    ∀ T, Sim T T0 → Res σ T → Res σ T0 → Sil σ F K T := by
  induction h with
  | prim hp => intro T _ _ hr0; rw [hr0.1] at hp; cases hp
  | cut hr hk => intro T hsim hres _; exact .cut hres (by rw [hsim.key]; exact hk)
  | @arr K e0 d0 r0 _ ih =>
    intro T hsim hres hres0
    cases T with
    | base b => exact absurd hsim.1 (by simp [isArr])
    | array e d r =>
      have hk := hsim.key
      refine .arr ?_
      rw [hk]
      exact ih (.base e) ⟨rfl, hsim.2.1, hsim.2.2⟩ hres hres0
  | @st K b0 s hp hs hf hmem hch _ =>
    intro T hsim hres _
    cases T with
    | array e d r => exact absurd hsim.1 (by simp [isArr])
    | base b =>
      have e : b.struct = b0.struct := hsim.2.1
      have hp' : b.prim.isSome = false := hres.1
      exact .st hp' (by rw [e]; exact hs) (by rw [e]; exact hf) (by rw [e]; exact hmem)
        (by rw [e]; exact hch)
  | @mm K b0 m hp hs hm hf hch _ =>
    intro T hsim hres _
    cases T with
    | array e d r => exact absurd hsim.1 (by simp [isArr])
    | base b =>
      have e : b.struct = b0.struct := hsim.2.1
      have es : b.struct = [] := by rw [e]; exact hs
      have e2 : b.multimap = b0.multimap := hsim.2.2 es
      have hp' : b.prim.isSome = false := hres.1
      exact .mm hp' es (by rw [e2]; exact hm) (by rw [e2]; exact hf) (by rw [e2]; exact hch)

/-- a key can be taken off the stack when the type it belongs to is silent itself. -/
theorem Sil.unpush {σ : Schema} (H : SC σ) {F K0 : List Name} {T0 : FType}
    (h0 : Sil σ F K0 T0) (hres0 : Res σ T0) {K' : List Name} {T : FType} (h : Sil σ F K' T) :
    ∀ K, (∀ c ∈ K', c = encoderKey T0 ∨ c ∈ K) → (∀ c ∈ K0, c ∈ K) → Sil σ F K T := by
  induction h with
  | prim hp => intro K _ _; exact .prim hp
  | cut hr hk =>
    intro K hK hK0
    rcases hK _ hk with e | hk'
    · exact (h0.mono (fun _ h => h) K hK0).congr _ (key_inj H hr hres0 e) hr hres0
    · exact .cut hr hk'
  | arr _ ih =>
    intro K hK hK0
    refine .arr (ih _ ?_ (fun c hc => List.mem_cons_of_mem _ (hK0 c hc)))
    intro c hc
    rcases List.mem_cons.mp hc with rfl | hc
    · exact Or.inr (List.mem_cons_self ..)
    · exact (hK c hc).imp id (List.mem_cons_of_mem _)
  | st hp hs hf hmem _ ih =>
    intro K hK hK0
    refine .st hp hs hf hmem (fun ty hty => ih ty hty _ ?_
      (fun c hc => List.mem_cons_of_mem _ (hK0 c hc)))
    intro c hc
    rcases List.mem_cons.mp hc with rfl | hc
    · exact Or.inr (List.mem_cons_self ..)
    · exact (hK c hc).imp id (List.mem_cons_of_mem _)
  | mm hp hs hm hf _ ih =>
    intro K hK hK0
    refine .mm hp hs hm hf (fun ty hty => ih ty hty _ ?_
      (fun c hc => List.mem_cons_of_mem _ (hK0 c hc)))
    intro c hc
    rcases List.mem_cons.mp hc with rfl | hc
    · exact Or.inr (List.mem_cons_self ..)
    · exact (hK c hc).imp id (List.mem_cons_of_mem _)

/-! ## Fuel: the number of encoder keys that are not on the stack -/

def allKeys (σ : Schema) : List Name := defNames σ ++ (defNames σ).map arrayKey

def stackGap (σ : Schema) (K : List Name) : Nat :=
  ((allKeys σ).filter (fun u => !K.contains u)).length

theorem stackGap_le (σ : Schema) (K : List Name) :
    stackGap σ K ≤ 2 * (σ.structs.length + σ.multimaps.length) := by
  unfold stackGap
  refine Nat.le_trans (List.length_filter_le _ _) ?_
  simp [allKeys, defNames]
  omega

theorem stackGap_push {σ : Schema} {K : List Name} {k : Name} (hk : k ∈ allKeys σ) (hn : k ∉ K) :
    stackGap σ (k :: K) < stackGap σ K := by
  unfold stackGap
  refine filter_length_lt ?_ _ k hk ?_ ?_
  · intro x hx
    simp only [Bool.not_eq_true', List.contains_eq_mem, decide_eq_false_iff_not,
      List.mem_cons, not_or] at hx ⊢
    exact hx.2
  · simpa using hn
  · simp

theorem Res.key_mem {σ : Schema} {T : FType} (h : Res σ T) : encoderKey T ∈ allKeys σ := by
  have hd : refn T ∈ defNames σ := by
    rcases h.refn_def with hf | hf
    · obtain ⟨s, hs⟩ := Option.isSome_iff_exists.mp hf
      exact mem_defNames_of_struct hs
    · obtain ⟨m, hm⟩ := Option.isSome_iff_exists.mp hf
      exact mem_defNames_of_mm hm
  rw [encoderKey_refn]
  cases T with
  | base b => exact List.mem_append_left _ hd
  | array e d r => exact List.mem_append_right _ (List.mem_map.mpr ⟨_, hd, rfl⟩)

theorem initFields_same {rec : FType → ISt → Except WErr ISt} {st : ISt} :
    ∀ tys, (∀ ty ∈ tys, rec ty st = .ok st) → initFields rec tys st = .ok st := by
  intro tys
  induction tys with
  | nil => intro _; rfl
  | cons ty rest ih =>
    intro h
    rw [initFields_cons_ok (h ty (List.mem_cons_self ..))]
    exact ih (fun t ht => h t (List.mem_cons_of_mem _ ht))

/-- a silent run succeeds with fuel `stackGap + 1` and returns the state unchanged. -/
theorem initType_sil (σ : Schema) :
    ∀ f T st, Sil σ st.fetched st.onStack T → stackGap σ st.onStack + 1 ≤ f →
      initType σ f T st = .ok st := by
  intro f
  induction f with
  | zero => intro T st _ hfu; omega
  | succ g ih =>
    intro T st hsil hfu
    rw [initType_succ]
    by_cases hp : T.inner.prim.isSome = true
    · rw [if_pos hp]
    rw [if_neg hp]
    have hp' : T.inner.prim.isSome = false := by simpa using hp
    by_cases hc : st.onStack.contains (encoderKey T) = true
    · rw [if_pos hc]
    rw [if_neg hc]
    have hnk : encoderKey T ∉ st.onStack := fun h => hc (List.contains_iff_mem.mpr h)
    have hres := hsil.res hp'
    have hmu := stackGap_push hres.key_mem hnk
    suffices hb : initBody σ g T { st with onStack := encoderKey T :: st.onStack } =
        .ok { st with onStack := encoderKey T :: st.onStack } by
      rw [hb]
      cases st
      simp only [List.erase_cons_head]
    cases hsil with
    | prim hq => exact absurd hq hp
    | cut _ hk => exact absurd hk hnk
    | arr h =>
      exact ih _ { st with onStack := _ :: st.onStack } h (by
        show stackGap σ (_ :: st.onStack) + 1 ≤ g; omega)
    | @st _ b s hp'' hs hf hmem hch =>
      have hn := findStruct_name hf
      have hk : encoderKey (.base b) = b.struct := encoderKey_struct (ty := .base b) hs
      rw [initBody_struct_eq hs hf, hn]
      have hcont : ({ st with onStack := encoderKey (FType.base b) :: st.onStack } :
          ISt).fetched.contains b.struct = true := List.contains_iff_mem.mpr hmem
      rw [if_pos hcont]
      refine initFields_same _ (fun ty hty => ih ty _ ?_ ?_)
      · show Sil σ st.fetched (encoderKey (.base b) :: st.onStack) ty
        rw [hk]; exact hch ty hty
      · show stackGap σ (encoderKey (.base b) :: st.onStack) + 1 ≤ g; omega
    | @mm _ b m hp'' hs hm hf hch =>
      have hk : encoderKey (.base b) = b.multimap := encoderKey_mm (ty := .base b) hs
      rw [initBody_mm_eq hs hm hf]
      refine initFields_same _ (fun ty hty => ih ty _ ?_ ?_)
      · show Sil σ st.fetched (encoderKey (.base b) :: st.onStack) ty
        rw [hk]; exact hch ty hty
      · show stackGap σ (encoderKey (.base b) :: st.onStack) + 1 ≤ g; omega

/-! ## The relation between the two traversals -/

structure RelR (σ : Schema) (st : WSt) (ist : ISt) : Prop where
  out : st.out = ist.out
  nodup : st.asMap.Nodup
  a_sub : ∀ x ∈ st.asMap, x ∈ ist.fetched ∨ ((σ.findMultimap x).isSome = true ∧ x ∈ ist.onStack)
  f_sub : ∀ x ∈ ist.fetched, x ∈ st.asMap
  f_struct : ∀ x ∈ ist.fetched, (σ.findStruct x).isSome = true
  m_sub : ∀ x ∈ ist.onStack, (σ.findMultimap x).isSome = true → x ∈ st.asMap
  s_sub : ∀ x ∈ ist.onStack, (σ.findStruct x).isSome = true → x ∈ ist.fetched
  closed : ∀ x ∈ ist.fetched, x ∉ ist.onStack → ∀ s, σ.findStruct x = some s →
    ∀ ty ∈ s.types, Sil σ ist.fetched (x :: ist.onStack) ty

theorem RelR.init (σ : Schema) : RelR σ {} {} where
  out := rfl
  nodup := List.nodup_nil
  a_sub := fun _ h => by cases h
  f_sub := fun _ h => by cases h
  f_struct := fun _ h => by cases h
  m_sub := fun _ h => by cases h
  s_sub := fun _ h => by cases h
  closed := fun _ h => by cases h

theorem sub_insert {x k : Name} {K : List Name} : ∀ c ∈ x :: K, c ∈ x :: k :: K := by
  intro c hc
  rcases List.mem_cons.mp hc with rfl | hc
  · exact List.mem_cons_self ..
  · exact List.mem_cons_of_mem _ (List.mem_cons_of_mem _ hc)

theorem RelR.push_key {σ : Schema} {st : WSt} {ist : ISt} (h : RelR σ st ist) (k : Name)
    (hkm : (σ.findMultimap k).isSome = true → k ∈ st.asMap)
    (hks : (σ.findStruct k).isSome = true → k ∈ ist.fetched) :
    RelR σ st { ist with onStack := k :: ist.onStack } where
  out := h.out
  nodup := h.nodup
  a_sub := fun x hx => (h.a_sub x hx).imp id (fun ⟨a, b⟩ => ⟨a, List.mem_cons_of_mem _ b⟩)
  f_sub := h.f_sub
  f_struct := h.f_struct
  m_sub := by
    intro x hx hm
    rcases List.mem_cons.mp hx with rfl | hx
    · exact hkm hm
    · exact h.m_sub x hx hm
  s_sub := by
    intro x hx hs
    rcases List.mem_cons.mp hx with rfl | hx
    · exact hks hs
    · exact h.s_sub x hx hs
  closed := by
    intro x hx hk s hf ty hty
    have hk' : x ∉ ist.onStack := fun hk' => hk (List.mem_cons_of_mem _ hk')
    exact (h.closed x hx hk' s hf ty hty).mono (fun _ h => h) _ sub_insert

theorem RelR.push_struct {σ : Schema} {st : WSt} {ist : ISt} (hrel : RelR σ st ist) {n : Name}
    (len : Nat) (hstruct : (σ.findStruct n).isSome = true) (hnA : n ∉ st.asMap) :
    RelR σ { asMap := n :: st.asMap, out := st.out ++ [(n, len)] }
      { onStack := n :: ist.onStack, fetched := n :: ist.fetched,
        out := ist.out ++ [(n, len)] } where
  out := by show st.out ++ _ = ist.out ++ _; rw [hrel.out]
  nodup := List.nodup_cons.mpr ⟨hnA, hrel.nodup⟩
  a_sub := by
    intro x hx
    rcases List.mem_cons.mp hx with rfl | hx
    · exact Or.inl (List.mem_cons_self ..)
    · exact (hrel.a_sub x hx).imp (List.mem_cons_of_mem _)
        (fun ⟨a, c⟩ => ⟨a, List.mem_cons_of_mem _ c⟩)
  f_sub := by
    intro x hx
    rcases List.mem_cons.mp hx with rfl | hx
    · exact List.mem_cons_self ..
    · exact List.mem_cons_of_mem _ (hrel.f_sub x hx)
  f_struct := by
    intro x hx
    rcases List.mem_cons.mp hx with rfl | hx
    · exact hstruct
    · exact hrel.f_struct x hx
  m_sub := by
    intro x hx hm
    rcases List.mem_cons.mp hx with rfl | hx
    · exact List.mem_cons_self ..
    · exact List.mem_cons_of_mem _ (hrel.m_sub x hx hm)
  s_sub := by
    intro x hx hs
    rcases List.mem_cons.mp hx with rfl | hx
    · exact List.mem_cons_self ..
    · exact List.mem_cons_of_mem _ (hrel.s_sub x hx hs)
  closed := by
    intro x hx hxk s' hf' ty hty
    have hne : x ≠ n := fun e => hxk (e ▸ List.mem_cons_self ..)
    have hxF : x ∈ ist.fetched := by
      rcases List.mem_cons.mp hx with e | h
      · exact (hne e).elim
      · exact h
    have hxK : x ∉ ist.onStack := fun h => hxk (List.mem_cons_of_mem _ h)
    exact (hrel.closed x hxF hxK s' hf' ty hty).mono
      (fun y hy => List.mem_cons_of_mem _ hy) _ sub_insert

theorem RelR.push_mm {σ : Schema} {st : WSt} {ist : ISt} (hrel : RelR σ st ist) {n : Name}
    (hmm : (σ.findMultimap n).isSome = true) (hnotst : (σ.findStruct n).isSome = true → False)
    (hnA : n ∉ st.asMap) :
    RelR σ { st with asMap := n :: st.asMap } { ist with onStack := n :: ist.onStack } where
  out := hrel.out
  nodup := List.nodup_cons.mpr ⟨hnA, hrel.nodup⟩
  a_sub := by
    intro x hx
    rcases List.mem_cons.mp hx with rfl | hx
    · exact Or.inr ⟨hmm, List.mem_cons_self ..⟩
    · exact (hrel.a_sub x hx).imp id (fun ⟨a, c⟩ => ⟨a, List.mem_cons_of_mem _ c⟩)
  f_sub := fun x hx => List.mem_cons_of_mem _ (hrel.f_sub x hx)
  f_struct := hrel.f_struct
  m_sub := by
    intro x hx hm
    rcases List.mem_cons.mp hx with rfl | hx
    · exact List.mem_cons_self ..
    · exact List.mem_cons_of_mem _ (hrel.m_sub x hx hm)
  s_sub := by
    intro x hx hs
    rcases List.mem_cons.mp hx with rfl | hx
    · exact (hnotst hs).elim
    · exact hrel.s_sub x hx hs
  closed := by
    intro x hx hk s hf ty hty
    have hk' : x ∉ ist.onStack := fun hk' => hk (List.mem_cons_of_mem _ hk')
    exact (hrel.closed x hx hk' s hf ty hty).mono (fun _ h => h) _ sub_insert

/-- black structs stay silent when the key `k` of the silent type `T0` is popped. -/
theorem closed_pop {σ : Schema} (H : SC σ) {F K : List Name} {k : Name} {T0 : FType}
    (hcl : ∀ x ∈ F, x ∉ k :: K → ∀ s, σ.findStruct x = some s →
      ∀ ty ∈ s.types, Sil σ F (x :: k :: K) ty)
    (h0 : Sil σ F K T0) (hk : encoderKey T0 = k) (hres : Res σ T0) :
    ∀ x ∈ F, x ∉ K → ∀ s, σ.findStruct x = some s → ∀ ty ∈ s.types, Sil σ F (x :: K) ty := by
  intro x hx hxK s hf ty hty
  have hxs : (σ.findStruct x).isSome = true := by rw [hf]; rfl
  by_cases e : x = k
  · subst e
    cases h0 with
    | prim hp => rw [hres.1] at hp; cases hp
    | cut _ hmem => rw [hk] at hmem; exact absurd hmem hxK
    | arr _ =>
      have := H.names _ (Or.inl hxs)
      rw [← hk] at this
      exact (this rfl).elim
    | @st _ b s' hp hs hf' hmem hch =>
      have hk' : encoderKey (.base b) = b.struct := encoderKey_struct (ty := .base b) hs
      rw [hk'] at hk
      rw [hk] at hf' hch
      rw [hf] at hf'; cases hf'
      exact hch ty hty
    | @mm _ b m hp hs hm hf' hch =>
      have hk' : encoderKey (.base b) = b.multimap := encoderKey_mm (ty := .base b) hs
      rw [hk'] at hk
      rw [hk] at hf'
      exact (H.disj _ hxs (by rw [hf']; rfl)).elim
  · have hxk : x ∉ k :: K := by
      intro hm
      rcases List.mem_cons.mp hm with e' | hm
      · exact e e'
      · exact hxK hm
    refine Sil.unpush H h0 hres (hcl x hx hxk s hf ty hty) (x :: K) ?_
      (fun c hc => List.mem_cons_of_mem _ hc)
    intro c hc
    rcases List.mem_cons.mp hc with rfl | hc
    · exact Or.inr (List.mem_cons_self ..)
    · rcases List.mem_cons.mp hc with rfl | hc
      · exact Or.inl hk.symm
      · exact Or.inr (List.mem_cons_of_mem _ hc)

theorem RelR.pop {σ : Schema} (H : SC σ) {st : WSt} {ist : ISt} {k : Name} {K : List Name}
    {T0 : FType} (h : RelR σ st ist) (hK : ist.onStack = k :: K)
    (h0 : Sil σ ist.fetched K T0) (hk : encoderKey T0 = k) (hres : Res σ T0)
    (hk1 : (σ.findMultimap k).isSome = true → k ∈ st.asMap → k ∈ ist.fetched) :
    RelR σ st { ist with onStack := K } where
  out := h.out
  nodup := h.nodup
  a_sub := by
    intro x hx
    rcases h.a_sub x hx with hf | ⟨hm, hs⟩
    · exact Or.inl hf
    · rw [hK] at hs
      rcases List.mem_cons.mp hs with rfl | hs
      · exact Or.inl (hk1 hm hx)
      · exact Or.inr ⟨hm, hs⟩
  f_sub := h.f_sub
  f_struct := h.f_struct
  m_sub := fun x hx hm => h.m_sub x (by rw [hK]; exact List.mem_cons_of_mem _ hx) hm
  s_sub := fun x hx hs => h.s_sub x (by rw [hK]; exact List.mem_cons_of_mem _ hx) hs
  closed := by
    have hcl := h.closed
    rw [hK] at hcl
    exact closed_pop H hcl h0 hk hres

theorem RelR.pop_mm {σ : Schema} (H : SC σ) {st : WSt} {ist : ISt} {n : Name} {K : List Name}
    {T0 : FType} (h : RelR σ st ist) (hK : ist.onStack = n :: K) (hnK : n ∉ K)
    (hnotst : (σ.findStruct n).isSome = true → False)
    (h0 : Sil σ ist.fetched K T0) (hk : encoderKey T0 = n) (hres : Res σ T0) :
    RelR σ { st with asMap := st.asMap.erase n } { ist with onStack := K } where
  out := h.out
  nodup := h.nodup.erase n
  a_sub := by
    intro x hx
    have hx' := h.nodup.mem_erase_iff.mp hx
    rcases h.a_sub x hx'.2 with hf | ⟨hm, hs⟩
    · exact Or.inl hf
    · rw [hK] at hs
      rcases List.mem_cons.mp hs with e | hs
      · exact (hx'.1 e).elim
      · exact Or.inr ⟨hm, hs⟩
  f_sub := by
    intro x hx
    have hne : x ≠ n := fun e => hnotst (e ▸ h.f_struct x hx)
    exact (List.mem_erase_of_ne hne).mpr (h.f_sub x hx)
  f_struct := h.f_struct
  m_sub := by
    intro x hx hm
    have hne : x ≠ n := fun e => hnK (e ▸ hx)
    exact (List.mem_erase_of_ne hne).mpr
      (h.m_sub x (by rw [hK]; exact List.mem_cons_of_mem _ hx) hm)
  s_sub := fun x hx hs => h.s_sub x (by rw [hK]; exact List.mem_cons_of_mem _ hx) hs
  closed := by
    have hcl := h.closed
    rw [hK] at hcl
    exact closed_pop H hcl h0 hk hres

/-! ## The main lemma -/

/-- an array key on the stack is followed by the key of its element, except at the very call
    on the element type. -/
def AK (K : List Name) (T : FType) : Prop :=
  ∀ n, arrayKey n ∈ K → n ∈ K ∨ (isArr T = 0 ∧ refn T = n)

theorem wire_res {σ : Schema} {f1 : Nat} {T : FType} {st st' : WSt}
    (hw : wsType σ f1 T.inner st = .ok st') (hp : T.inner.prim.isSome = false) : Res σ T := by
  obtain ⟨g, _, hc⟩ := wsType_inv hw
  rcases hc with ⟨hp', _⟩ | ⟨_, hs, s, hf, _⟩ | ⟨_, hs, hm, m, hf, _⟩
  · rw [hp] at hp'; cases hp'
  · exact ⟨hp, Or.inl ⟨hs, by rw [hf]; rfl⟩⟩
  · exact ⟨hp, Or.inr ⟨hs, hm, by rw [hf]; rfl⟩⟩

/-- when the referenced definition is on the `Init` stack, the wire traversal cuts. -/
theorem wire_cut {σ : Schema} {st : WSt} {ist : ISt} {f1 : Nat} {T : FType} {st' : WSt}
    (hrel : RelR σ st ist) (hk : refn T ∈ ist.onStack)
    (hw : wsType σ f1 T.inner st = .ok st') : st' = st := by
  obtain ⟨g, _, hc⟩ := wsType_inv hw
  rcases hc with ⟨_, e⟩ | ⟨_, hs, s, hf, hw'⟩ | ⟨_, hs, hm, m, hf, hw'⟩
  · exact e
  · have hr : refn T = T.inner.struct := by unfold refn; rw [if_pos hs]
    have hn := findStruct_name hf
    have hA : s.name ∈ st.asMap := by
      rw [hn, ← hr]
      exact hrel.f_sub _ (hrel.s_sub _ hk (by rw [hr, hf]; rfl))
    rcases hw' with ⟨_, e⟩ | ⟨hc, _⟩
    · exact e
    · rw [List.contains_iff_mem.mpr hA] at hc; cases hc
  · have hr : refn T = T.inner.multimap := by unfold refn; rw [if_neg (fun h => h hs)]
    have hn := findMultimap_name hf
    have hA : m.name ∈ st.asMap := by
      rw [hn, ← hr]
      exact hrel.m_sub _ hk (by rw [hr, hf]; rfl)
    rcases hw' with ⟨_, e⟩ | ⟨hc, _⟩
    · exact e
    · rw [List.contains_iff_mem.mpr hA] at hc; cases hc

/-- statement of the main lemma at `Init` fuel `f2` (any wire fuel): `Init` succeeds where the
    wire traversal does, the states stay related, the visited type is silent afterwards. -/
def PRec (σ : Schema) (f2 : Nat) : Prop :=
  ∀ f1 T st st' ist, RelR σ st ist → AK ist.onStack T → stackGap σ ist.onStack + 1 ≤ f2 →
    wsType σ f1 T.inner st = .ok st' →
    ∃ ist', initType σ f2 T ist = .ok ist' ∧ RelR σ st' ist' ∧
      Sil σ ist'.fetched ist.onStack T ∧ (∀ x ∈ ist.fetched, x ∈ ist'.fetched)

theorem fields_rec {σ : Schema} {f2 : Nat} (hP : PRec σ f2) (f1 : Nat) :
    ∀ tys st st' ist, RelR σ st ist → (∀ ty ∈ tys, AK ist.onStack ty) →
      stackGap σ ist.onStack + 1 ≤ f2 → wsFields (wsType σ f1) tys st = .ok st' →
      ∃ ist', initFields (initType σ f2) tys ist = .ok ist' ∧ RelR σ st' ist' ∧
        (∀ ty ∈ tys, Sil σ ist'.fetched ist.onStack ty) ∧
        (∀ x ∈ ist.fetched, x ∈ ist'.fetched) := by
  intro tys
  induction tys with
  | nil =>
    intro st st' ist hrel _ _ hw
    rw [wsFields_nil_inv hw]
    exact ⟨ist, rfl, hrel, fun _ h => (by cases h), fun _ h => h⟩
  | cons ty rest ih =>
    intro st st' ist hrel hak hfu hw
    obtain ⟨st1, hw1, hw2⟩ := wsFields_cons_inv hw
    obtain ⟨ist1, hi1, hrel1, hsil1, hsub1⟩ :=
      hP f1 ty st st1 ist hrel (hak ty (List.mem_cons_self ..)) hfu hw1
    have hK : ist1.onStack = ist.onStack := initType_onStack σ _ _ _ _ hi1
    obtain ⟨ist2, hi2, hrel2, hsil2, hsub2⟩ := ih st1 st' ist1 hrel1
      (fun t ht => by rw [hK]; exact hak t (List.mem_cons_of_mem _ ht)) (by rw [hK]; exact hfu) hw2
    refine ⟨ist2, by rw [initFields_cons_ok hi1]; exact hi2, hrel2, ?_,
      fun x hx => hsub2 x (hsub1 x hx)⟩
    intro t ht
    rcases List.mem_cons.mp ht with rfl | ht
    · exact hsil1.mono hsub2 _ (fun _ h => h)
    · have := hsil2 t ht
      rwa [hK] at this

theorem main_rec {σ : Schema} (H : SC σ) : ∀ f2, PRec σ f2 := by
  intro f2
  induction f2 with
  | zero => intro f1 T st st' ist _ _ hfu _; omega
  | succ g2 ih =>
    intro f1 T st st' ist hrel hak hfu hw
    by_cases hp : T.inner.prim.isSome = true
    · obtain ⟨_, _, hwc⟩ := wsType_inv hw
      have e : st' = st := by
        rcases hwc with ⟨_, e⟩ | ⟨hp', _⟩ | ⟨hp', _⟩
        · exact e
        · rw [hp] at hp'; cases hp'
        · rw [hp] at hp'; cases hp'
      subst e
      exact ⟨ist, by rw [initType_succ, if_pos hp], hrel, .prim hp, fun _ h => h⟩
    have hp' : T.inner.prim.isSome = false := by simpa using hp
    have hres := wire_res hw hp'
    have hhead := hres.head H
    have hkey := encoderKey_refn T
    by_cases hc : ist.onStack.contains (encoderKey T) = true
    · -- `Init` cuts: so does the wire traversal
      have hmem : encoderKey T ∈ ist.onStack := List.contains_iff_mem.mp hc
      have hn : refn T ∈ ist.onStack := by
        cases T with
        | base b => rw [hkey] at hmem; exact hmem
        | array e d r =>
          rw [hkey] at hmem
          rcases hak _ hmem with h | ⟨h, _⟩
          · exact h
          · simp [isArr] at h
      have e := wire_cut hrel hn hw
      subst e
      exact ⟨ist, by rw [initType_succ, if_neg hp, if_pos hc], hrel, .cut hres hmem,
        fun _ h => h⟩
    have hc' : ist.onStack.contains (encoderKey T) = false := by simpa using hc
    have hnk : encoderKey T ∉ ist.onStack := fun h => hc (List.contains_iff_mem.mpr h)
    have hmu := stackGap_push hres.key_mem hnk
    cases T with
    | array e d r =>
      have hkA : encoderKey (.array e d r) = arrayKey (refn (.array e d r)) := hkey
      have hbad : ∀ {P : Prop}, (σ.findStruct (encoderKey (.array e d r))).isSome = true ∨
          (σ.findMultimap (encoderKey (.array e d r))).isSome = true → P := by
        intro P h
        have := H.names _ h
        rw [hkA] at this
        exact (this rfl).elim
      have hrel1 := hrel.push_key (encoderKey (.array e d r)) (fun h => hbad (Or.inr h))
        (fun h => hbad (Or.inl h))
      have hak1 : AK (encoderKey (.array e d r) :: ist.onStack) (.base e) := by
        intro n hn
        rcases List.mem_cons.mp hn with e' | hn
        · rw [hkA] at e'
          exact Or.inr ⟨rfl, (arrayKey_inj e').symm⟩
        · rcases hak n hn with h | ⟨h, _⟩
          · exact Or.inl (List.mem_cons_of_mem _ h)
          · simp [isArr] at h
      obtain ⟨ist3, hi3, hrel3, hsil3, hsub3⟩ :=
        ih f1 (.base e) st st' _ hrel1 hak1
          (by show stackGap σ (encoderKey (.array e d r) :: ist.onStack) + 1 ≤ g2; omega) hw
      have hK3 : ist3.onStack = encoderKey (.array e d r) :: ist.onStack :=
        initType_onStack σ _ _ _ _ hi3
      have herase : ist3.onStack.erase (encoderKey (.array e d r)) = ist.onStack := by
        rw [hK3, List.erase_cons_head]
      have hsil : Sil σ ist3.fetched ist.onStack (.array e d r) := .arr hsil3
      refine ⟨_, initType_of_body hp' hc' hi3, ?_, hsil, hsub3⟩
      show RelR σ st' { ist3 with onStack := ist3.onStack.erase (encoderKey (.array e d r)) }
      rw [herase]
      exact hrel3.pop H hK3 hsil rfl hres (fun h _ => hbad (Or.inr h))
    | base b =>
      have hp'' : b.prim.isSome = false := hp'
      obtain ⟨g1, _, hwc⟩ := wsType_inv hw
      rcases hwc with ⟨hq, _⟩ | ⟨_, hs, s, hf, hw'⟩ | ⟨_, hs, hm, m, hf, hw'⟩
      · have hq' : b.prim.isSome = true := hq
        rw [hp''] at hq'; cases hq'
      · -- struct
        have hs' : b.struct ≠ [] := hs
        have hf' : σ.findStruct b.struct = some s := hf
        have hn : s.name = b.struct := findStruct_name hf'
        have hk : encoderKey (.base b) = b.struct := encoderKey_struct (ty := .base b) hs'
        have hrn : refn (.base b) = b.struct := by unfold refn; exact if_pos hs'
        have hstruct : (σ.findStruct b.struct).isSome = true := by rw [hf']; rfl
        have hnotmm : (σ.findMultimap b.struct).isSome = true → False := H.disj _ hstruct
        rw [hk] at hnk hmu hc'
        rw [hrn] at hhead
        rw [hn] at hw'
        rcases hw' with ⟨hcA, e⟩ | ⟨hcA, hw'⟩
        · -- the wire traversal cuts: `Init` re-traverses silently
          subst e
          have hnA : b.struct ∈ st'.asMap := List.contains_iff_mem.mp hcA
          have hnF : b.struct ∈ ist.fetched := by
            rcases hrel.a_sub _ hnA with h | ⟨h, _⟩
            · exact h
            · exact (hnotmm h).elim
          have hsil : Sil σ ist.fetched ist.onStack (.base b) :=
            .st hp'' hs' hf' hnF (hrel.closed _ hnF hnk s hf')
          exact ⟨ist, initType_sil σ _ _ _ hsil hfu, hrel, hsil, fun _ h => h⟩
        · -- first visit: both emit
          have hnA : b.struct ∉ st.asMap := fun h => by
            rw [List.contains_iff_mem.mpr h] at hcA; cases hcA
          have hnF : b.struct ∉ ist.fetched := fun h => hnA (hrel.f_sub _ h)
          have hrel2 := hrel.push_struct s.fields.length hstruct hnA
          have hak2 : ∀ ty ∈ s.types, AK (b.struct :: ist.onStack) ty := by
            intro ty _ n' hn'
            rcases List.mem_cons.mp hn' with e' | hn'
            · exact (arrayKey_ne_of_head hhead e'.symm).elim
            · rcases hak n' hn' with h | ⟨_, h⟩
              · exact Or.inl (List.mem_cons_of_mem _ h)
              · rw [hrn] at h; rw [← h]; exact Or.inl (List.mem_cons_self ..)
          obtain ⟨ist3, hi3, hrel3, hsil3, hsub3⟩ :=
            fields_rec ih g1 s.types _ st' _ hrel2 hak2
              (by show stackGap σ (b.struct :: ist.onStack) + 1 ≤ g2; omega) hw'
          have hK3 : ist3.onStack = b.struct :: ist.onStack :=
            initFields_onStack (initType_onStack σ g2) _ _ _ hi3
          have hb : initBody σ g2 (.base b)
              { ist with onStack := encoderKey (.base b) :: ist.onStack } = .ok ist3 := by
            rw [initBody_struct_eq hs' hf', hn, hk]
            have hcF : ¬ (({ ist with onStack := b.struct :: ist.onStack } :
                ISt).fetched.contains b.struct = true) :=
              fun h => hnF (List.contains_iff_mem.mp h)
            rw [if_neg hcF]
            exact hi3
          have herase : ist3.onStack.erase (encoderKey (.base b)) = ist.onStack := by
            rw [hK3, hk, List.erase_cons_head]
          have hsil : Sil σ ist3.fetched ist.onStack (.base b) :=
            .st hp'' hs' hf' (hsub3 _ (List.mem_cons_self ..)) hsil3
          refine ⟨_, initType_of_body hp' (by rw [hk]; exact hc') hb, ?_, hsil,
            fun x hx => hsub3 x (List.mem_cons_of_mem _ hx)⟩
          show RelR σ st' { ist3 with onStack := ist3.onStack.erase (encoderKey (.base b)) }
          rw [herase]
          exact hrel3.pop H hK3 hsil hk hres (fun h _ => (hnotmm h).elim)
      · -- multimap
        have hs' : b.struct = [] := hs
        have hm' : b.multimap ≠ [] := hm
        have hf' : σ.findMultimap b.multimap = some m := hf
        have hn : m.name = b.multimap := findMultimap_name hf'
        have hk : encoderKey (.base b) = b.multimap := encoderKey_mm (ty := .base b) hs'
        have hrn : refn (.base b) = b.multimap := by
          unfold refn; exact if_neg (fun h => h hs')
        have hmm : (σ.findMultimap b.multimap).isSome = true := by rw [hf']; rfl
        have hnotst : (σ.findStruct b.multimap).isSome = true → False :=
          fun h => H.disj _ h hmm
        rw [hk] at hnk hmu hc'
        rw [hrn] at hhead
        rw [hn] at hw'
        have hnA : b.multimap ∉ st.asMap := by
          intro h
          rcases hrel.a_sub _ h with h' | ⟨_, h'⟩
          · exact hnotst (hrel.f_struct _ h')
          · exact hnk h'
        rcases hw' with ⟨hcA, _⟩ | ⟨_, st2, hw', e⟩
        · exact (hnA (List.contains_iff_mem.mp hcA)).elim
        · subst e
          have hrel2 := hrel.push_mm hmm hnotst hnA
          have hak2 : ∀ ty ∈ m.types, AK (b.multimap :: ist.onStack) ty := by
            intro ty _ n' hn'
            rcases List.mem_cons.mp hn' with e' | hn'
            · exact (arrayKey_ne_of_head hhead e'.symm).elim
            · rcases hak n' hn' with h | ⟨_, h⟩
              · exact Or.inl (List.mem_cons_of_mem _ h)
              · rw [hrn] at h; rw [← h]; exact Or.inl (List.mem_cons_self ..)
          obtain ⟨ist3, hi3, hrel3, hsil3, hsub3⟩ :=
            fields_rec ih g1 m.types _ st2 _ hrel2 hak2
              (by show stackGap σ (b.multimap :: ist.onStack) + 1 ≤ g2; omega) hw'
          have hK3 : ist3.onStack = b.multimap :: ist.onStack :=
            initFields_onStack (initType_onStack σ g2) _ _ _ hi3
          have hb : initBody σ g2 (.base b)
              { ist with onStack := encoderKey (.base b) :: ist.onStack } = .ok ist3 := by
            rw [initBody_mm_eq hs' hm' hf', hk]
            exact hi3
          have herase : ist3.onStack.erase (encoderKey (.base b)) = ist.onStack := by
            rw [hK3, hk, List.erase_cons_head]
          have hsil : Sil σ ist3.fetched ist.onStack (.base b) :=
            .mm hp'' hs' hm' hf' hsil3
          refine ⟨_, initType_of_body hp' (by rw [hk]; exact hc') hb, ?_, hsil, hsub3⟩
          show RelR σ { st2 with asMap := st2.asMap.erase b.multimap }
            { ist3 with onStack := ist3.onStack.erase (encoderKey (.base b)) }
          rw [herase]
          exact hrel3.pop_mm H hK3 hnk hnotst hsil hk hres

/-! ## The theorems -/

/-- **Wire order, recursion allowed.** If `NewWireSchema` succeeds, the generated `Init` order is
    defined (the fuel `initFuel` suffices and every lookup succeeds) and is the same list. The
    side conditions are those of `init_ok_of_wire_ok` minus `Schema.Acyclic`. -/
theorem init_ok_of_wire_ok_rec0 (σ : Schema) (root : Name)
    (hnames : ∀ n, (σ.findStruct n).isSome ∨ (σ.findMultimap n).isSome → n.head? ≠ some '[')
    (hdisj : ∀ n, (σ.findStruct n).isSome → (σ.findMultimap n).isSome → False)
    (hroot : root ≠ []) (w : List (Name × Nat))
    (h1 : wireEntries σ root = .ok w) : initEntries σ root = .ok w := by
  have H : SC σ := ⟨hnames, hdisj⟩
  unfold wireEntries at h1
  cases hfr : σ.findStruct root with
  | none => rw [hfr] at h1; cases h1
  | some r =>
    rw [hfr] at h1
    dsimp only at h1
    cases hws : wsFields (wsType σ (wsFuel σ)) r.types
        { asMap := [r.name], out := [(r.name, r.fields.length)] } with
    | error e => rw [hws] at h1; cases h1
    | ok st =>
      rw [hws] at h1
      have e1 : w = st.out := by cases h1; rfl
      have hw := wsType_root hfr hroot hws
      have hfu : stackGap σ ({} : ISt).onStack + 1 ≤ initFuel σ := by
        have := stackGap_le σ ({} : ISt).onStack
        unfold initFuel; omega
      obtain ⟨ist, hin, hrel, _, _⟩ := main_rec H (initFuel σ) (wsFuel σ + 1)
        (.base { struct := root }) {} st {} (RelR.init σ) (fun _ hk => by cases hk) hfu hw
      unfold initEntries
      rw [hfr]
      dsimp only
      rw [hin, e1, hrel.out]

/-- the same with the side conditions in the form delivered by the parser
    (`Schema.WF.top_unique`; identifiers start with a letter). No acyclicity. -/
theorem init_ok_of_wire_ok_rec (σ : Schema) (root : Name)
    (hnd : σ.topNames.Nodup)
    (hs : ∀ s ∈ σ.structs, s.name.head? ≠ some '[')
    (hm : ∀ m ∈ σ.multimaps, m.name.head? ≠ some '[')
    (hroot : root ≠ []) (w : List (Name × Nat))
    (h1 : wireEntries σ root = .ok w) : initEntries σ root = .ok w :=
  init_ok_of_wire_ok_rec0 σ root (names_of_lists hs hm) (disj_of_topNames_nodup hnd) hroot w h1

/-- both defined ⟹ equal (`root ≠ []` follows from `initEntries` being defined). -/
theorem wire_order_rec (σ : Schema) (root : Name)
    (hnd : σ.topNames.Nodup)
    (hs : ∀ s ∈ σ.structs, s.name.head? ≠ some '[')
    (hm : ∀ m ∈ σ.multimaps, m.name.head? ≠ some '[')
    (w w' : List (Name × Nat))
    (h1 : wireEntries σ root = .ok w) (h2 : initEntries σ root = .ok w') : w = w' := by
  by_cases hroot : root = []
  · exfalso
    subst hroot
    unfold initEntries at h2
    cases hfr : σ.findStruct [] with
    | none => rw [hfr] at h2; cases h2
    | some r =>
      rw [hfr] at h2
      dsimp only at h2
      cases hin : initType σ (initFuel σ) (.base { struct := [] }) {} with
      | error e => rw [hin] at h2; cases h2
      | ok ist =>
        obtain ⟨g, _, hc⟩ := initType_inv hin
        rcases hc with ⟨hp, _⟩ | ⟨_, hc, _⟩ | ⟨_, _, st3, hb, _⟩
        · cases hp
        · cases hc
        · rcases initBody_base_inv hb with ⟨hs', _⟩ | ⟨_, hm', _⟩
          · exact hs' rfl
          · exact hm' rfl
  · have := init_ok_of_wire_ok_rec σ root hnd hs hm hroot w h1
    rw [this] at h2
    cases h2; rfl

/-! ## Non-vacuity: recursive schemas -/

/-- `struct R { X A; Y B; L []R; M MM }  struct A { F B }  struct B { G A; H C; S []B }
    struct C { }  multimap MM { key A; value []MM }`: mutual recursion `A ↔ B`, recursion through
    arrays (`[]R`, `[]B`) and through a multimap (`MM → []MM`), `B` reached first inside `A`. -/
def recR : Struct :=
  { name := ['R'], isRoot := true,
    fields := [ { name := ['X'], ty := .base { struct := ['A'] } },
                { name := ['Y'], ty := .base { struct := ['B'] } },
                { name := ['L'], ty := .array { struct := ['R'] } [] false },
                { name := ['M'], ty := .base { multimap := ['M', 'M'] } } ] }

def recSchema : Schema :=
  { structs :=
      [ recR,
        { name := ['A'], fields := [ { name := ['F'], ty := .base { struct := ['B'] } } ] },
        { name := ['B'],
          fields := [ { name := ['G'], ty := .base { struct := ['A'] } },
                      { name := ['H'], ty := .base { struct := ['C'] } },
                      { name := ['S'], ty := .array { struct := ['B'] } [] false } ] },
        { name := ['C'], fields := [] } ],
    multimaps :=
      [ { name := ['M', 'M'], key := .base { struct := ['A'] },
          value := .array { multimap := ['M', 'M'] } [] false } ] }

example : wireEntries recSchema ['R'] = .ok [(['R'], 4), (['A'], 1), (['B'], 3), (['C'], 0)] := by
  decide

/-- the schema is NOT acyclic, so `init_ok_of_wire_ok'` does not apply to it. -/
theorem recSchema_not_acyclic : ¬ recSchema.Acyclic := by
  rintro ⟨rank, hrs, _⟩
  have h := hrs recR (by decide) (.array { struct := ['R'] } [] false) (by decide) ['R']
    (by decide)
  exact Nat.lt_irrefl _ h

example : initEntries recSchema ['R'] = .ok [(['R'], 4), (['A'], 1), (['B'], 3), (['C'], 0)] :=
  init_ok_of_wire_ok_rec recSchema ['R'] (by decide) (by decide) (by decide) (by decide) _
    (by decide)

end Stef.Idl
