/-
  Stef.Proofs.HandshakeGen: the handshake decision logic REGENERATED from the Go source
  (Stef/Gen/Handshake.lean, by extract/handshake.go) computes exactly what the hand model
  Stef.Handshake says. These proofs are the tie of the hand model to the source text: a change
  of `WireSchema.Compatible`, of the decision part of `Client.Connect` or of the option
  handling of `New<Root>Writer` either still proves equal here, or breaks this file (or makes
  the generator fail).
-/
import Stef.Gen.Handshake

namespace Stef.Proofs.HandshakeGen
open Stef.Handshake Stef.HandshakeSem

theorem idPure {α : Type} (a : α) : (pure a : Id α) = a := rfl

theorem take_succ_sum (w : List Nat) (n : Nat) :
    (w.take (n + 1)).sum = (w.take n).sum + w[n]?.getD 0 := by
  induction w generalizing n with
  | nil => simp
  | cons x xs ih =>
    cases n with
    | zero => simp
    | succ k => simp [List.take_succ_cons, ih k]; omega

/-- the loop of `Compatible` totals the first `n` counts of both schemas. -/
theorem sumLoop (w old : List Nat) (n : Nat) (a b : Nat) :
    List.foldl (fun (r : Nat × Nat) i => (r.fst + w[i]?.getD 0, r.snd + old[i]?.getD 0)) (a, b) (List.range n)
      = (a + (w.take n).sum, b + (old.take n).sum) := by
  induction n with
  | zero => simp
  | succ k ih =>
    rw [List.range_succ, List.foldl_append, ih]
    simp [take_succ_sum]; omega

/-- **Gen.compatible = Handshake.compatible**, and the error of the Go function is non-nil exactly
    for the verdict "incompatible". -/
theorem compatibleE_eq (w old : List Nat) :
    Gen.Hs.compatibleE w old = (compatible w old, decide (compatible w old = .incompatible)) := by
  unfold Gen.Hs.compatibleE compatible
  simp only [Id.run]
  by_cases h1 : w.length > old.length
  · simp [h1, idPure]
  · by_cases h2 : w.length < old.length
    · simp [h1, h2, idPure]
    · have hl : w.length = old.length := by omega
      have ht : List.take w.length old = old := by rw [hl]; exact List.take_length
      simp [h1, h2, sumLoop, ht]
      by_cases h3 : old.sum < w.sum
      · simp [h3, idPure]
      · by_cases h4 : w.sum < old.sum
        · simp [h3, h4, idPure]
        · simp [h3, h4, idPure]

theorem compatible_eq (w old : List Nat) : (Gen.Hs.compatibleE w old).1 = compatible w old := by
  rw [compatibleE_eq]

theorem compatible_err_iff (w old : List Nat) :
    (Gen.Hs.compatibleE w old).2 = true ↔ (Gen.Hs.compatibleE w old).1 = .incompatible := by
  rw [compatibleE_eq]; simp

/-- **Gen.connect = Handshake.connect**: the regenerated Connect returns the hand model's options
    (a nil `DictionaryLimits` leaves the limit 0) and never touches the frame size. -/
theorem connect_eq (c s : List Nat) (lim : Option Nat) :
    Gen.Hs.connect c s lim = (connect c s (lim.getD 0)).map (WOpts.ofOpts · 0) := by
  unfold Gen.Hs.connect connect
  simp only [Id.run, compatibleE_eq]
  cases lim <;> cases compatible s c <;> cases compatible c s <;> simp [idPure] <;> rfl

/-- **Gen.writerOpts = Handshake.writerOpts** on the fields of the hand model. -/
theorem writerOpts_eq (own : List Nat) (o : WOpts) :
    (Gen.Hs.writerOpts own o).map WOpts.toOpts = writerOpts own o.toOpts := by
  unfold Gen.Hs.writerOpts writerOpts
  simp only [Id.run, compatibleE_eq]
  rcases o with ⟨d, sch, m, f⟩
  cases sch with
  | none => by_cases hm : m = 0 <;> by_cases hf : f = 0 <;> simp [WOpts.toOpts, hm, hf, idPure]
  | some sv =>
    by_cases hm : m = 0 <;> by_cases hf : f = 0 <;> cases hc : compatible own sv <;>
      simp [WOpts.toOpts, hm, hf, hc, idPure]

/-- the field the hand model does not have: the frame size gets its default. -/
theorem writerOpts_frame (own : List Nat) (o o' : WOpts) (h : Gen.Hs.writerOpts own o = some o') :
    o'.maxUncompressedFrameByteSize =
      (if o.maxUncompressedFrameByteSize = 0 then Gen.defaultMaxFrameSize else o.maxUncompressedFrameByteSize) := by
  unfold Gen.Hs.writerOpts at h
  simp only [Id.run, compatibleE_eq] at h
  rcases o with ⟨d, sch, m, f⟩
  cases sch with
  | none => by_cases hm : m = 0 <;> by_cases hf : f = 0 <;> simp [hm, hf, idPure] at h ⊢ <;> cases h <;> rfl
  | some sv =>
    by_cases hm : m = 0 <;> by_cases hf : f = 0 <;> cases hc : compatible own sv <;>
      simp [hm, hf, hc, idPure] at h ⊢ <;> cases h <;> rfl

end Stef.Proofs.HandshakeGen
