/-
  Refinement of the 64-bit staging register of `BitsWriter` to bit lists.
-/
import Stef.BitStream

namespace Stef
namespace BitsWriter

/-- The bits a writer holds: the flushed bytes followed by the used part of the register. -/
def toBits (w : BitsWriter) : Bits := bytesBits w.stream ++ highBits w.bitsBuf w.bitsBufUsed

/-- Register invariant: at most 64 bits used and the unused low part is zero. -/
def Inv (w : BitsWriter) : Prop :=
  w.bitsBufUsed ≤ 64 ∧ ∀ i, w.bitsBufUsed ≤ i → w.bitsBuf.getMsbD i = false

theorem inv_init : Inv {} := by
  constructor
  · simp
  · intro i _; simp [BitVec.getMsbD]

end BitsWriter

theorem highBits_length (v : Word) (n : Nat) : (highBits v n).length = n := by simp [highBits]
theorem lowBits_length (v : Word) (n : Nat) : (lowBits v n).length = n := by simp [lowBits]

theorem getLsbD_of_lt_two_pow (v : Word) (n j : Nat) (h : v.toNat < 2 ^ n) (hj : n ≤ j) :
    v.getLsbD j = false := by
  rw [BitVec.getLsbD]
  apply Nat.testBit_lt_two_pow
  exact Nat.lt_of_lt_of_le h (Nat.pow_le_pow_right (by omega) hj)

/-- Appending `n` bits in the register without spilling. -/
theorem highBits_or_shift (buf v : Word) (used n : Nat) (hn : used + n ≤ 64)
    (hz : ∀ i, used ≤ i → buf.getMsbD i = false) (hv : v.toNat < 2 ^ n) :
    highBits (buf ||| (v <<< (64 - n - used))) (used + n) = highBits buf used ++ lowBits v n := by
  apply List.ext_getElem
  · simp [highBits, lowBits]
  · intro i h1 h2
    simp only [highBits, lowBits, List.getElem_map, List.getElem_range, List.getElem_append,
      List.length_map, List.length_range]
    have hi : i < used + n := by simpa [highBits] using h1
    by_cases hlt : i < used
    · simp only [hlt, ↓reduceDIte]
      rw [BitVec.getMsbD_or]
      have : (v <<< (64 - n - used)).getMsbD i = false := by
        simp only [BitVec.getMsbD, BitVec.getLsbD_shiftLeft]
        have : v.getLsbD (64 - 1 - i - (64 - n - used)) = false :=
          getLsbD_of_lt_two_pow v n _ hv (by omega)
        simp [this]
      simp [this]
    · simp only [hlt, ↓reduceDIte]
      rw [BitVec.getMsbD_or, hz i (by omega)]
      simp only [BitVec.getMsbD, BitVec.getLsbD_shiftLeft, Bool.false_or]
      have h64 : i < 64 := by omega
      have e : 64 - 1 - i - (64 - n - used) = n - 1 - (i - used) := by omega
      have h3 : ¬ (64 - 1 - i < 64 - n - used) := by omega
      have h4 : 64 - 1 - i < 64 := by omega
      simp [h64, e, h3, h4]


theorem bytesBits_append (a b : Bytes) : bytesBits (a ++ b) = bytesBits a ++ bytesBits b := by
  induction a with
  | nil => simp [bytesBits]
  | cons x xs ih => simp [bytesBits, ih]

theorem bytesBits_length (a : Bytes) : (bytesBits a).length = 8 * a.length := by
  induction a with
  | nil => simp [bytesBits]
  | cons x xs ih => simp [bytesBits, byteBits, ih]; omega

theorem bytesBits_be64 (w : Word) : bytesBits (be64 w) = highBits w 64 := by
  simp [be64, bytesBits, byteBits, highBits, List.range, List.range.loop, BitVec.getMsbD,
    BitVec.getLsbD_extractLsb']

/-- Spilling: the register is completed to 64 bits, flushed, and restarted with the rest. -/
theorem highBits_spill (buf v : Word) (used n : Nat) (hu : used ≤ 64) (hn : n ≤ 64)
    (hs : 64 < used + n)
    (hz : ∀ i, used ≤ i → buf.getMsbD i = false) (hv : v.toNat < 2 ^ n) :
    highBits (buf ||| (v >>> (n - (64 - used)))) 64
        ++ highBits (v <<< (64 - (n - (64 - used)))) (n - (64 - used))
      = highBits buf used ++ lowBits v n := by
  apply List.ext_getElem
  · simp [highBits, lowBits]; omega
  · intro i h1 h2
    have hi : i < used + n := by simpa [highBits, lowBits] using h2
    simp only [highBits, lowBits, List.getElem_map, List.getElem_range, List.getElem_append,
      List.length_map, List.length_range]
    by_cases h64 : i < 64
    · simp only [h64, ↓reduceDIte]
      rw [BitVec.getMsbD_or]
      by_cases hlt : i < used
      · simp only [hlt, ↓reduceDIte]
        have : (v >>> (n - (64 - used))).getMsbD i = false := by
          simp only [BitVec.getMsbD, BitVec.getLsbD_ushiftRight]
          have : v.getLsbD (n - (64 - used) + (64 - 1 - i)) = false :=
            getLsbD_of_lt_two_pow v n _ hv (by omega)
          simp [this]
        simp [this]
      · simp only [hlt, ↓reduceDIte]
        rw [hz i (by omega)]
        simp only [BitVec.getMsbD, BitVec.getLsbD_ushiftRight, Bool.false_or]
        have e : n - (64 - used) + (64 - 1 - i) = n - 1 - (i - used) := by omega
        simp [h64, e]
    · simp only [h64, ↓reduceDIte]
      have hlt : ¬ i < used := by omega
      simp only [hlt, ↓reduceDIte]
      simp only [BitVec.getMsbD, BitVec.getLsbD_shiftLeft]
      have a1 : i - 64 < 64 := by omega
      have a2 : 64 - 1 - (i - 64) < 64 := by omega
      have a3 : ¬ (64 - 1 - (i - 64) < 64 - (n - (64 - used))) := by omega
      have e : 64 - 1 - (i - 64) - (64 - (n - (64 - used))) = n - 1 - (i - used) := by omega
      simp [a1, a2, a3, e]

namespace BitsWriter

/-- `WriteBits(v, n)` appends exactly the `n`-bit big-endian representation of `v`,
    at every register fill level, provided `v` fits in `n` bits (the caller contract). -/
theorem writeBits_spec (w : BitsWriter) (v : Word) (n : Nat) (hI : w.Inv) (hn : n ≤ 64)
    (hv : v.toNat < 2 ^ n) :
    (w.writeBits v n).toBits = w.toBits ++ lowBits v n ∧ (w.writeBits v n).Inv := by
  obtain ⟨hu, hz⟩ := hI
  unfold writeBits
  by_cases hfast : w.bitsBufUsed ≤ 64 - n
  · simp only [hfast, ↓reduceIte]
    constructor
    · simp only [toBits]
      rw [highBits_or_shift w.bitsBuf v w.bitsBufUsed n (by omega) hz hv]
      simp [List.append_assoc]
    · constructor
      · simp; omega
      · intro i hi
        simp only at hi
        rw [BitVec.getMsbD_or, hz i (by omega)]
        simp only [BitVec.getMsbD, BitVec.getLsbD_shiftLeft, Bool.false_or]
        by_cases h64 : i < 64
        · have : 64 - 1 - i < 64 - n - w.bitsBufUsed := by omega
          simp [this]
        · simp [h64]
  · simp only [hfast, ↓reduceIte, writeBitsSlow]
    constructor
    · simp only [toBits, bytesBits_append, bytesBits_be64, List.append_assoc]
      rw [highBits_spill w.bitsBuf v w.bitsBufUsed n hu hn (by omega) hz hv]
    · constructor
      · simp; omega
      · intro i hi
        simp only at hi
        simp only [BitVec.getMsbD, BitVec.getLsbD_shiftLeft]
        by_cases h64 : i < 64
        · have : 64 - 1 - i < 64 - (n - (64 - w.bitsBufUsed)) := by omega
          simp [this]
        · simp [h64]

theorem lowBits_one (bit : Word) (_h : bit.toNat < 2) : lowBits bit 1 = [bit.getLsbD 0] := by
  simp [lowBits, List.range, List.range.loop]

/-- `WriteBit(b)` for `b ∈ {0,1}` appends exactly that bit. -/
theorem writeBit_spec (w : BitsWriter) (bit : Word) (hI : w.Inv) (hb : bit.toNat < 2) :
    (w.writeBit bit).toBits = w.toBits ++ [bit.getLsbD 0] ∧ (w.writeBit bit).Inv := by
  have h := writeBits_spec w bit 1 hI (by omega) (by simpa using hb)
  have e : w.writeBit bit = w.writeBits bit 1 := by
    unfold writeBit writeBits
    have : (w.bitsBufUsed ≤ 63) = (w.bitsBufUsed ≤ 64 - 1) := by simp
    simp only [this]
  rw [e, ← lowBits_one bit hb]
  exact h

end BitsWriter
end Stef
