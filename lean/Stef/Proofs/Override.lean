/-
  Stef.Proofs.Override: the descriptor-driven construction of the column tree (`Spec.mkNode`)
  under append-only schema evolution (helper lemmas of Props/C04).
-/
import Stef.Spec

namespace Stef.Proofs.Override
open Stef Stef.Spec

/-- the reader's own field count of a definition (multimaps have none) -/
def ownCount : Def → Option Nat
  | .struct _ fs => some fs.length
  | .oneof fs => some fs.length
  | .mmap _ _ => none

/-- `dB` is `dA` with fields / alternatives appended at the end -/
def DefLe : Def → Def → Prop
  | .struct d fa, .struct d' fb => d = d' ∧ fa <+: fb
  | .oneof fa, .oneof fb => fa <+: fb
  | .mmap k v, .mmap k' v' => k = k' ∧ v = v'
  | _, _ => False

/-- **A ≼ B**: every definition of A exists in B, extended only by appended fields. B may have
    further definitions (reachable only through appended fields). -/
def SchemaLe (A B : Schema) : Prop :=
  ∀ n dA, A.find n = some dA → ∃ dB, B.find n = some dB ∧ DefLe dA dB

/-- the descriptor is present (the stream carries a wire schema) -/
def OvSome (b : Build) : Prop := ∃ l, b.override = some l

/-- every remembered count is within A's own field count of that name -/
def KnownOk (A : Schema) (known : List (String × Nat)) : Prop :=
  ∀ p ∈ known, ∀ dA c, A.find p.1 = some dA → ownCount dA = some c → p.2 ≤ c

theorem find?_mem {α} (l : List α) (p : α → Bool) (a : α) (h : l.find? p = some a) : a ∈ l :=
  List.mem_of_find?_eq_some h

/-- one step: with a descriptor present, a count A accepts is accepted by every reader whose own
    count is at least A's, with the same result; it is within A's own count. -/
theorem fetchCount_mono (A : Schema) (b : Build) (name : String) (dA : Def) (ownA ownB cnt : Nat) (b1 : Build)
    (hov : OvSome b) (hk : KnownOk A b.known) (hA : A.find name = some dA) (hown : ownCount dA = some ownA)
    (hle : ownA ≤ ownB) (h : fetchCount b name ownA = .ok (cnt, b1)) :
    fetchCount b name ownB = .ok (cnt, b1) ∧ cnt ≤ ownA ∧ OvSome b1 ∧ KnownOk A b1.known := by
  obtain ⟨l, hl⟩ := hov
  unfold fetchCount at h ⊢
  cases hf : b.known.find? (·.1 = name) with
  | some p =>
    obtain ⟨pn, pc⟩ := p
    simp only [hf] at h ⊢
    injection h with h
    injection h with h1 h2
    subst h1; subst h2
    have hmem := find?_mem _ _ _ hf
    have hname : pn = name := by simpa using List.find?_some hf
    refine ⟨rfl, ?_, ⟨l, hl⟩, hk⟩
    have := hk (pn, pc) hmem dA ownA (by simpa [hname] using hA) hown
    simpa using this
  | none =>
    simp only [hf, hl] at h ⊢
    cases l with
    | nil => simp at h
    | cons c rest =>
      simp only at h ⊢
      by_cases hc : c > ownA
      · simp [hc] at h
      · simp only [hc, if_false] at h
        injection h with h
        injection h with h1 h2
        subst h1; subst h2
        have hc' : ¬ c > ownB := by omega
        refine ⟨by simp [hc'], by omega, ⟨rest, rfl⟩, ?_⟩
        intro p hp dA' c' hfind hown'
        simp only [List.mem_cons] at hp
        cases hp with
        | inl hp =>
          subst hp
          simp only at hfind ⊢
          rw [hA] at hfind
          injection hfind with hfind
          subst hfind
          rw [hown] at hown'
          injection hown' with hown'
          omega
        | inr hp => exact hk p hp dA' c' hfind hown'

theorem bind_ok {ε α β} (x : Except ε α) (f : α → Except ε β) (r : β)
    (h : (x >>= f) = .ok r) : ∃ a, x = .ok a ∧ f a = .ok r := by
  cases x with
  | error e => simp [bind, Except.bind] at h
  | ok a => exact ⟨a, rfl, by simpa [bind, Except.bind] using h⟩

theorem take_prefix {α} (fa fb : List α) (n : Nat) (hp : fa <+: fb) (hn : n ≤ fa.length) :
    fb.take n = fa.take n := by
  obtain ⟨ext, rfl⟩ := hp
  rw [List.take_append_of_le_length hn]

/-- the statement proved by induction on the fuel, for `mkNode` and `mkFields` together -/
def MonoAt (A B : Schema) (fuel : Nat) : Prop :=
  (∀ stack ty b r, OvSome b → KnownOk A b.known → mkNode A fuel stack ty b = .ok r →
      mkNode B fuel stack ty b = .ok r ∧ OvSome r.2 ∧ KnownOk A r.2.known) ∧
  (∀ stack fs b r, OvSome b → KnownOk A b.known → mkFields A fuel stack fs b = .ok r →
      mkFields B fuel stack fs b = .ok r ∧ OvSome r.2 ∧ KnownOk A r.2.known)

theorem mono_all (A B : Schema) (hAB : SchemaLe A B) : ∀ fuel, MonoAt A B fuel := by
  intro fuel
  induction fuel with
  | zero =>
    constructor
    · intro stack ty b r _ _ h
      rw [mkNode] at h
      cases h
    · intro stack fs b r _ _ h
      rw [mkFields] at h
      cases h
  | succ fuel ih =>
    obtain ⟨ihN, ihF⟩ := ih
    constructor
    · intro stack ty b r hov hk h
      cases ty with
      | prim p d =>
        rw [mkNode] at h ⊢
        injection h with h
        subst h
        exact ⟨rfl, hov, hk⟩
      | arr e =>
        rw [mkNode] at h ⊢
        simp only at h ⊢
        by_cases hc : stack.contains (tyKey (.arr e)) = true
        · simp only [hc, if_true] at h ⊢
          injection h with h
          subst h
          exact ⟨rfl, hov, hk⟩
        · simp only [hc] at h ⊢
          obtain ⟨⟨en, b1⟩, h1, h2⟩ := bind_ok _ _ _ h
          have hov0 : OvSome { b with nextCol := b.nextCol + 1 } := hov
          obtain ⟨hB, hov1, hk1⟩ := ihN _ _ _ _ hov0 hk h1
          simp only at h2
          injection h2 with h2
          subst h2
          refine ⟨?_, hov1, hk1⟩
          simp [hB, bind, Except.bind]
      | ref n =>
        rw [mkNode] at h ⊢
        by_cases hc : stack.contains n = true
        · simp only [hc, if_true] at h ⊢
          injection h with h
          subst h
          exact ⟨rfl, hov, hk⟩
        · simp only [hc] at h ⊢
          cases hfA : A.find n with
          | none => simp [hfA] at h
          | some dA =>
            obtain ⟨dB, hfB, hle⟩ := hAB n dA hfA
            have hov0 : OvSome { b with nextCol := b.nextCol + 1 } := hov
            cases dA with
            | struct d fa =>
              cases dB with
              | struct d' fb =>
                obtain ⟨hd, hp⟩ := hle
                subst hd
                simp only [hfA, hfB] at h ⊢
                obtain ⟨⟨cnt, b1⟩, h1, h2⟩ := bind_ok _ _ _ h
                obtain ⟨hB1, hcnt, hov1, hk1⟩ := fetchCount_mono A _ n _ fa.length fb.length cnt b1 hov0 hk hfA rfl
                  (List.IsPrefix.length_le hp) h1
                simp only at h2
                obtain ⟨⟨nodes, b2⟩, h3, h4⟩ := bind_ok _ _ _ h2
                obtain ⟨hB2, hov2, hk2⟩ := ihF _ _ _ _ hov1 hk1 h3
                simp only at h4
                injection h4 with h4
                subst h4
                refine ⟨?_, hov2, hk2⟩
                simp [hB1, bind, Except.bind, take_prefix fa fb cnt hp hcnt, hB2]
              | oneof _ => exact absurd hle (by simp [DefLe])
              | mmap _ _ => exact absurd hle (by simp [DefLe])
            | oneof fa =>
              cases dB with
              | oneof fb =>
                have hp : fa <+: fb := hle
                simp only [hfA, hfB] at h ⊢
                obtain ⟨⟨cnt, b1⟩, h1, h2⟩ := bind_ok _ _ _ h
                obtain ⟨hB1, hcnt, hov1, hk1⟩ := fetchCount_mono A _ n _ fa.length fb.length cnt b1 hov0 hk hfA rfl
                  (List.IsPrefix.length_le hp) h1
                simp only at h2
                obtain ⟨⟨nodes, b2⟩, h3, h4⟩ := bind_ok _ _ _ h2
                obtain ⟨hB2, hov2, hk2⟩ := ihF _ _ _ _ hov1 hk1 h3
                simp only at h4
                injection h4 with h4
                subst h4
                refine ⟨?_, hov2, hk2⟩
                simp [hB1, bind, Except.bind, take_prefix fa fb cnt hp hcnt, hB2]
              | struct _ _ => exact absurd hle (by simp [DefLe])
              | mmap _ _ => exact absurd hle (by simp [DefLe])
            | mmap k v =>
              cases dB with
              | mmap k' v' =>
                obtain ⟨hk', hv'⟩ := hle
                subst hk'; subst hv'
                simp only [hfA, hfB] at h ⊢
                obtain ⟨⟨kn, b1⟩, h1, h2⟩ := bind_ok _ _ _ h
                obtain ⟨hB1, hov1, hk1⟩ := ihN _ _ _ _ hov0 hk h1
                simp only at h2
                obtain ⟨⟨vn, b2⟩, h3, h4⟩ := bind_ok _ _ _ h2
                obtain ⟨hB2, hov2, hk2⟩ := ihN _ _ _ _ hov1 hk1 h3
                simp only at h4
                injection h4 with h4
                subst h4
                refine ⟨?_, hov2, hk2⟩
                simp [hB1, bind, Except.bind, hB2]
              | struct _ _ => exact absurd hle (by simp [DefLe])
              | oneof _ => exact absurd hle (by simp [DefLe])
    · intro stack fs b r hov hk h
      cases fs with
      | nil =>
        rw [mkFields] at h ⊢
        injection h with h
        subst h
        exact ⟨rfl, hov, hk⟩
      | cons fd rest =>
        rw [mkFields] at h ⊢
        obtain ⟨⟨n1, b1⟩, h1, h2⟩ := bind_ok _ _ _ h
        obtain ⟨hB1, hov1, hk1⟩ := ihN _ _ _ _ hov hk h1
        simp only at h2
        obtain ⟨⟨ns, b2⟩, h3, h4⟩ := bind_ok _ _ _ h2
        obtain ⟨hB2, hov2, hk2⟩ := ihF _ _ _ _ hov1 hk1 h3
        simp only at h4
        injection h4 with h4
        subst h4
        refine ⟨?_, hov2, hk2⟩
        simp [hB1, bind, Except.bind, hB2]

/-! ## A reader accepts its own descriptor, consumes it exactly, and builds the same tree -/

/-- the counts a traversal fetched, in fetch order (`known` grows at the front) -/
def cnts (new : List (String × Nat)) : List Nat := new.reverse.map (·.2)

theorem cnts_append (n2 n1 : List (String × Nat)) : cnts (n2 ++ n1) = cnts n1 ++ cnts n2 := by
  simp [cnts]

def withOv (b : Build) (o : Option (List Nat)) : Build := { b with override := o }

theorem fetchCount_own (b : Build) (name : String) (own cnt : Nat) (b1 : Build)
    (hn : b.override = none) (h : fetchCount b name own = .ok (cnt, b1)) :
    ∃ new, b1.known = new ++ b.known ∧ b1.override = none ∧
      ∀ rest, fetchCount (withOv b (some (cnts new ++ rest))) name own = .ok (cnt, withOv b1 (some rest)) := by
  unfold fetchCount at h
  cases hf : b.known.find? (·.1 = name) with
  | some p =>
    obtain ⟨pn, pc⟩ := p
    simp only [hf] at h
    injection h with h
    injection h with h1 h2
    subst h1; subst h2
    refine ⟨[], by simp, hn, ?_⟩
    intro rest
    unfold fetchCount
    simp [withOv, hf, cnts]
  | none =>
    simp only [hf, hn] at h
    injection h with h
    injection h with h1 h2
    subst h1; subst h2
    refine ⟨[(name, own)], by simp, by simp [hn], ?_⟩
    intro rest
    unfold fetchCount
    simp [withOv, hf, cnts]

def OwnAt (A : Schema) (fuel : Nat) : Prop :=
  (∀ stack ty b r, b.override = none → mkNode A fuel stack ty b = .ok r →
      ∃ new, r.2.known = new ++ b.known ∧ r.2.override = none ∧
        ∀ rest, mkNode A fuel stack ty (withOv b (some (cnts new ++ rest))) = .ok (r.1, withOv r.2 (some rest))) ∧
  (∀ stack fs b r, b.override = none → mkFields A fuel stack fs b = .ok r →
      ∃ new, r.2.known = new ++ b.known ∧ r.2.override = none ∧
        ∀ rest, mkFields A fuel stack fs (withOv b (some (cnts new ++ rest))) = .ok (r.1, withOv r.2 (some rest)))

theorem own_all (A : Schema) : ∀ fuel, OwnAt A fuel := by
  intro fuel
  induction fuel with
  | zero =>
    constructor
    · intro stack ty b r _ h
      rw [mkNode] at h
      cases h
    · intro stack fs b r _ h
      rw [mkFields] at h
      cases h
  | succ fuel ih =>
    obtain ⟨ihN, ihF⟩ := ih
    constructor
    · intro stack ty b r hn h
      cases ty with
      | prim p d =>
        rw [mkNode] at h
        injection h with h
        subst h
        refine ⟨[], by simp, hn, ?_⟩
        intro rest
        rw [mkNode]
        simp [withOv, cnts]
      | arr e =>
        rw [mkNode] at h
        simp only at h
        by_cases hc : stack.contains (tyKey (.arr e)) = true
        · simp only [hc, if_true] at h
          injection h with h
          subst h
          refine ⟨[], by simp, hn, ?_⟩
          intro rest
          rw [mkNode]
          simp only [hc, if_true]
          simp [withOv, cnts]
        · simp only [hc] at h
          obtain ⟨⟨en, b1⟩, h1, h2⟩ := bind_ok _ _ _ h
          obtain ⟨new, hk1, hn1, hrun⟩ := ihN _ _ { b with nextCol := b.nextCol + 1 } _ hn h1
          simp only at h2
          injection h2 with h2
          subst h2
          refine ⟨new, hk1, hn1, ?_⟩
          intro rest
          rw [mkNode]
          have := hrun rest
          simp only [withOv] at this ⊢
          simp only [hc]
          simp [this, bind, Except.bind]
      | ref n =>
        rw [mkNode] at h
        by_cases hc : stack.contains n = true
        · simp only [hc, if_true] at h
          injection h with h
          subst h
          refine ⟨[], by simp, hn, ?_⟩
          intro rest
          rw [mkNode]
          simp only [hc, if_true]
          simp [withOv, cnts]
        · simp only [hc] at h
          cases hfA : A.find n with
          | none => simp [hfA] at h
          | some dA =>
            cases dA with
            | struct d fa =>
              simp only [hfA] at h
              obtain ⟨⟨cnt, b1⟩, h1, h2⟩ := bind_ok _ _ _ h
              obtain ⟨new1, hk1, hn1, hrun1⟩ := fetchCount_own { b with nextCol := b.nextCol + 1 } n fa.length cnt b1 hn h1
              simp only at h2
              obtain ⟨⟨nodes, b2⟩, h3, h4⟩ := bind_ok _ _ _ h2
              obtain ⟨new2, hk2, hn2, hrun2⟩ := ihF _ _ _ _ hn1 h3
              simp only at h4
              injection h4 with h4
              subst h4
              have hk : b2.known = (new2 ++ new1) ++ b.known := by
                have h2' : b2.known = new2 ++ b1.known := hk2
                have h1' : b1.known = new1 ++ b.known := hk1
                rw [h2', h1', List.append_assoc]
              refine ⟨new2 ++ new1, hk, hn2, ?_⟩
              intro rest
              rw [mkNode]
              have e1 := hrun1 (cnts new2 ++ rest)
              have e2 := hrun2 rest
              simp only [withOv] at e1 e2 ⊢
              simp only [hc, hfA]
              simp [cnts_append, List.append_assoc, e1, e2, bind, Except.bind]
            | oneof fa =>
              simp only [hfA] at h
              obtain ⟨⟨cnt, b1⟩, h1, h2⟩ := bind_ok _ _ _ h
              obtain ⟨new1, hk1, hn1, hrun1⟩ := fetchCount_own { b with nextCol := b.nextCol + 1 } n fa.length cnt b1 hn h1
              simp only at h2
              obtain ⟨⟨nodes, b2⟩, h3, h4⟩ := bind_ok _ _ _ h2
              obtain ⟨new2, hk2, hn2, hrun2⟩ := ihF _ _ _ _ hn1 h3
              simp only at h4
              injection h4 with h4
              subst h4
              have hk : b2.known = (new2 ++ new1) ++ b.known := by
                have h2' : b2.known = new2 ++ b1.known := hk2
                have h1' : b1.known = new1 ++ b.known := hk1
                rw [h2', h1', List.append_assoc]
              refine ⟨new2 ++ new1, hk, hn2, ?_⟩
              intro rest
              rw [mkNode]
              have e1 := hrun1 (cnts new2 ++ rest)
              have e2 := hrun2 rest
              simp only [withOv] at e1 e2 ⊢
              simp only [hc, hfA]
              simp [cnts_append, List.append_assoc, e1, e2, bind, Except.bind]
            | mmap k v =>
              simp only [hfA] at h
              obtain ⟨⟨kn, b1⟩, h1, h2⟩ := bind_ok _ _ _ h
              obtain ⟨new1, hk1, hn1, hrun1⟩ := ihN _ _ { b with nextCol := b.nextCol + 1 } _ hn h1
              simp only at h2
              obtain ⟨⟨vn, b2⟩, h3, h4⟩ := bind_ok _ _ _ h2
              obtain ⟨new2, hk2, hn2, hrun2⟩ := ihN _ _ _ _ hn1 h3
              simp only at h4
              injection h4 with h4
              subst h4
              have hk : b2.known = (new2 ++ new1) ++ b.known := by
                have h2' : b2.known = new2 ++ b1.known := hk2
                have h1' : b1.known = new1 ++ b.known := hk1
                rw [h2', h1', List.append_assoc]
              refine ⟨new2 ++ new1, hk, hn2, ?_⟩
              intro rest
              rw [mkNode]
              have e1 := hrun1 (cnts new2 ++ rest)
              have e2 := hrun2 rest
              simp only [withOv] at e1 e2 ⊢
              simp only [hc, hfA]
              simp [cnts_append, List.append_assoc, e1, e2, bind, Except.bind]
    · intro stack fs b r hn h
      cases fs with
      | nil =>
        rw [mkFields] at h
        injection h with h
        subst h
        refine ⟨[], by simp, hn, ?_⟩
        intro rest
        rw [mkFields]
        simp [withOv, cnts]
      | cons fd restf =>
        rw [mkFields] at h
        obtain ⟨⟨n1, b1⟩, h1, h2⟩ := bind_ok _ _ _ h
        obtain ⟨new1, hk1, hn1, hrun1⟩ := ihN _ _ _ _ hn h1
        simp only at h2
        obtain ⟨⟨ns, b2⟩, h3, h4⟩ := bind_ok _ _ _ h2
        obtain ⟨new2, hk2, hn2, hrun2⟩ := ihF _ _ _ _ hn1 h3
        simp only at h4
        injection h4 with h4
        subst h4
        have hk : b2.known = (new2 ++ new1) ++ b.known := by
          have h2' : b2.known = new2 ++ b1.known := hk2
          have h1' : b1.known = new1 ++ b.known := hk1
          rw [h2', h1', List.append_assoc]
        refine ⟨new2 ++ new1, hk, hn2, ?_⟩
        intro rest
        rw [mkFields]
        have e1 := hrun1 (cnts new2 ++ rest)
        have e2 := hrun2 rest
        simp only [withOv] at e1 e2 ⊢
        simp [cnts_append, List.append_assoc, e1, e2, bind, Except.bind]

/-! ## Vocabulary of Props/C04 -/

/-- the wire descriptor of a finished traversal: the counts in the order they were fetched -/
def wireOf (b : Build) : List Nat := cnts b.known

/-! ### values of B that extend values of A (record-level statement, not proved) -/

mutual
/-- `Ext sA sB`: the B value `sB` is the A value `sA` with further (B-only) struct fields. -/
inductive Ext : St → St → Prop
  | b (v) : Ext (.b v) (.b v)
  | i (v) : Ext (.i v) (.i v)
  | f (v) : Ext (.f v) (.f v)
  | s (v) : Ext (.s v) (.s v)
  | struct (p : Nat) (fa fb extra : List St) : ExtL fa fb → Ext (.struct p fa) (.struct p (fb ++ extra))
  | oneofNone : Ext (.oneof 0 none) (.oneof 0 none)
  | oneof (t : Nat) (va vb : St) : Ext va vb → Ext (.oneof t (some va)) (.oneof t (some vb))
  | arr (ea eb : List St) : ExtL ea eb → Ext (.arr ea) (.arr eb)
  | mmap (pa pb : List (St × St)) : ExtP pa pb → Ext (.mmap pa) (.mmap pb)
inductive ExtL : List St → List St → Prop
  | nil : ExtL [] []
  | cons (a b : St) (as bs : List St) : Ext a b → ExtL as bs → ExtL (a :: as) (b :: bs)
inductive ExtP : List (St × St) → List (St × St) → Prop
  | nil : ExtP [] []
  | cons (ka va kb vb : St) (as bs : List (St × St)) :
      Ext ka kb → Ext va vb → ExtP as bs → ExtP ((ka, va) :: as) ((kb, vb) :: bs)
end

/-! ### a concrete pair A ≼ B (non-vacuity of Props/C04) -/

def exA : Schema := { defs := [
  ("R", .struct none [⟨"x", false, .prim .i64 none⟩, ⟨"s", false, .ref "S"⟩, ⟨"t", false, .arr (.ref "T")⟩]),
  ("S", .struct none [⟨"a", true, .prim .f64 none⟩]),
  ("T", .oneof [⟨"u", false, .prim .u64 none⟩, ⟨"r", false, .ref "R"⟩])] }

def exB : Schema := { defs := [
  ("R", .struct none [⟨"x", false, .prim .i64 none⟩, ⟨"s", false, .ref "S"⟩, ⟨"t", false, .arr (.ref "T")⟩,
                      ⟨"y", true, .prim .str none⟩]),
  ("S", .struct none [⟨"a", true, .prim .f64 none⟩, ⟨"n", false, .ref "N"⟩]),
  ("T", .oneof [⟨"u", false, .prim .u64 none⟩, ⟨"r", false, .ref "R"⟩, ⟨"n", false, .ref "N"⟩]),
  ("N", .struct none [⟨"k", false, .prim .bool none⟩])] }

theorem exA_le_exB : SchemaLe exA exB := by
  intro n dA h
  simp only [Schema.find, exA, List.find?] at h
  by_cases h1 : "R" = n
  · subst h1
    simp at h
    subst h
    exact ⟨_, rfl, rfl, ⟨[_], rfl⟩⟩
  · by_cases h2 : "S" = n
    · subst h2
      simp at h
      subst h
      exact ⟨_, rfl, rfl, ⟨[_], rfl⟩⟩
    · by_cases h3 : "T" = n
      · subst h3
        simp at h
        subst h
        exact ⟨_, rfl, ⟨[_], rfl⟩⟩
      · simp [h1, h2, h3] at h

end Stef.Proofs.Override
