/-
  The sorting OTLP -> STEF converter (sortedbymetric): number of records written.
-/
import Stef.Proofs.OtlpMetricsWrite

namespace Stef.Otlp

/-! ### sizes of the sorted trees -/

/-- total of a size function over the values of an association list -/
def totalSize {K V : Type} (sz : V → Nat) (t : List (K × V)) : Nat := (t.map fun e => sz e.2).sum

/-- `Get`-then-`Set` with an update that adds one item adds one item -/
theorem treeUpsert_size {K V : Type} (cmp : K → K → Int) (k : K) (new : Unit → V) (upd : V → V) (sz : V → Nat)
    (hnew : sz (new ()) = 0) (hupd : ∀ v, sz (upd v) = sz v + 1) :
    ∀ t : List (K × V), totalSize sz (treeUpsert cmp k new upd t) = totalSize sz t + 1
  | [] => by simp [treeUpsert, totalSize, hupd, hnew]
  | (k', v') :: t => by
    simp only [treeUpsert]
    split
    · simp [totalSize, hupd]; omega
    · split
      · simp [totalSize, hupd, hnew]; omega
      · have ih := treeUpsert_size cmp k new upd sz hnew hupd t
        simp only [totalSize, List.map_cons, List.sum_cons] at ih ⊢
        omega

def leavesSize (al : AttrLeaves) : Nat := totalSize List.length al
def scopeLevelSize (sl : ScopeLevel) : Nat := totalSize leavesSize sl
def resLevelSize (rl : ResLevel) : Nat := totalSize scopeLevelSize rl
/-- number of points held by the tree -/
def treeSize (t : MetricTree) : Nat := totalSize resLevelSize t

theorem treeAdd_size (mk : MetricKey) (rk : ResKey) (sk : ScopeKey) (ak : KVs) (p : SPoint) (t : MetricTree) :
    treeSize (treeAdd mk rk sk ak p t) = treeSize t + 1 := by
  unfold treeAdd treeSize
  apply treeUpsert_size
  · rfl
  · intro rl
    apply treeUpsert_size
    · rfl
    · intro sl
      apply treeUpsert_size
      · rfl
      · intro al
        apply treeUpsert_size
        · rfl
        · intro pts; simp

/-! ### every tree point is written once -/

theorem insertByTs_length (p : SPoint) : ∀ l : List SPoint, (insertByTs p l).length = l.length + 1
  | [] => rfl
  | q :: t => by
    simp only [insertByTs]
    split
    · simp
    · simp [insertByTs_length p t]

theorem sortByTs_length (l : List SPoint) : (sortByTs l).length = l.length := by
  unfold sortByTs
  suffices h : ∀ (l acc : List SPoint), (l.foldl (fun acc p => insertByTs p acc) acc).length = acc.length + l.length by
    simpa using h l []
  intro l
  induction l with
  | nil => intro acc; simp
  | cons p t ih => intro acc; simp [ih, insertByTs_length]; omega

theorem emitPoints_len : ∀ (ps : List SPoint) (st : WState), (emitPoints ps st).out.length = st.out.length + ps.length
  | [], st => by simp [emitPoints]
  | p :: ps, st => by
    simp only [emitPoints]
    rw [emitPoints_len ps]
    simp [WState.write]; omega

theorem emitAttrs_len : ∀ (al : AttrLeaves) (st : WState), (emitAttrs al st).out.length = st.out.length + leavesSize al
  | [], st => by simp [emitAttrs, leavesSize, totalSize]
  | (ak, pts) :: t, st => by
    simp only [emitAttrs]
    rw [emitAttrs_len t, emitPoints_len, sortByTs_length]
    simp [leavesSize, totalSize]; omega

theorem emitScopes_len : ∀ (sl : ScopeLevel) (st : WState), (emitScopes sl st).out.length = st.out.length + scopeLevelSize sl
  | [], st => by simp [emitScopes, scopeLevelSize, totalSize]
  | (sk, al) :: t, st => by
    simp only [emitScopes]
    rw [emitScopes_len t, emitAttrs_len]
    simp [scopeLevelSize, totalSize]; omega

theorem emitResources_len : ∀ (rl : ResLevel) (st : WState), (emitResources rl st).out.length = st.out.length + resLevelSize rl
  | [], st => by simp [emitResources, resLevelSize, totalSize]
  | (rk, sl) :: t, st => by
    simp only [emitResources]
    rw [emitResources_len t, emitScopes_len]
    simp [resLevelSize, totalSize]; omega

theorem emitMetrics_len : ∀ (t : MetricTree) (st : WState), (emitMetrics t st).out.length = st.out.length + treeSize t
  | [], st => by simp [emitMetrics, treeSize, totalSize]
  | (mk, rl) :: t, st => by
    simp only [emitMetrics]
    rw [emitMetrics_len t, emitResources_len]
    simp [treeSize, totalSize]; omega

/-! ### points that reach the tree: all of them (since repo commit 42fcfbf) -/

theorem sortNumbers_size (m : Metric) (mk : MetricKey) (rk : ResKey) (sk : ScopeKey) :
    ∀ (ps : List Point) (st st' : SortState), sortNumbers m mk rk sk ps st = .ok st' →
      treeSize st'.tree = treeSize st.tree + ps.length
  | [], st, st', h => by simp [sortNumbers] at h; subst h; simp
  | p :: ps, st, st', h => by
    simp only [sortNumbers] at h
    split at h
    · simp at h
    · split at h
      · simp at h
      · have := sortNumbers_size m mk rk sk ps _ st' h
        simp only [treeAdd_size] at this
        simp [this]; omega

theorem sortHistograms_size (m : Metric) (rk : ResKey) (sk : ScopeKey) :
    ∀ (ps : List Point) (st st' : SortState), sortHistograms m rk sk ps st = .ok st' →
      treeSize st'.tree = treeSize st.tree + ps.length
  | [], st, st', h => by simp [sortHistograms] at h; subst h; simp
  | p :: ps, st, st', h => by
    simp only [sortHistograms] at h
    split at h
    · simp at h
    · split at h
      · simp at h
      · have := sortHistograms_size m rk sk ps _ st' h
        simp only [treeAdd_size] at this
        simp [this]; omega

theorem sortExpHistograms_size (m : Metric) (rk : ResKey) (sk : ScopeKey) :
    ∀ (ps : List Point) (st st' : SortState), sortExpHistograms m rk sk ps st = .ok st' →
      treeSize st'.tree = treeSize st.tree + ps.length
  | [], st, st', h => by simp [sortExpHistograms] at h; subst h; simp
  | p :: ps, st, st', h => by
    simp only [sortExpHistograms] at h
    split at h
    · simp at h
    · split at h
      · simp at h
      · have := sortExpHistograms_size m rk sk ps _ st' h
        simp only [treeAdd_size] at this
        simp [this]; omega

theorem sortSummaries_size (m : Metric) (rk : ResKey) (sk : ScopeKey) :
    ∀ (ps : List Point) (st st' : SortState), sortSummaries m rk sk ps st = .ok st' →
      treeSize st'.tree = treeSize st.tree + ps.length
  | [], st, st', h => by simp [sortSummaries] at h; subst h; simp
  | p :: ps, st, st', h => by
    simp only [sortSummaries] at h
    have := sortSummaries_size m rk sk ps _ st' h
    simp only [treeAdd_size] at this
    simp [this]; omega

theorem sortMetric_size (rk : ResKey) (sk : ScopeKey) (m : Metric) (st st' : SortState)
    (h : sortMetric rk sk m st = .ok st') : treeSize st'.tree = treeSize st.tree + m.points.length := by
  unfold sortMetric at h
  cases hmt : m.type with
  | gauge =>
    simp only [hmt] at h
    exact sortNumbers_size _ _ _ _ _ _ _ h
  | sum =>
    simp only [hmt] at h
    split at h
    · exact sortNumbers_size _ _ _ _ _ _ _ h
    · simp at h
  | hist =>
    simp only [hmt] at h
    split at h
    · exact sortHistograms_size _ _ _ _ _ _ h
    · simp at h
  | exp =>
    simp only [hmt] at h
    split at h
    · exact sortExpHistograms_size _ _ _ _ _ _ h
    · simp at h
  | summary =>
    simp only [hmt] at h
    exact sortSummaries_size _ _ _ _ _ _ h

theorem sortMetrics_size (rk : ResKey) (sk : ScopeKey) : ∀ (ms : List Metric) (st st' : SortState),
    sortMetrics rk sk ms st = .ok st' → treeSize st'.tree = treeSize st.tree + pointCountMetrics ms
  | [], st, st', h => by simp [sortMetrics] at h; subst h; simp [pointCountMetrics]
  | m :: ms, st, st', h => by
    simp only [sortMetrics] at h
    split at h
    · simp at h
    · rename_i st1 h1
      have a := sortMetric_size rk sk m st st1 h1
      have b := sortMetrics_size rk sk ms st1 st' h
      simp only [pointCountMetrics, List.map_cons, List.sum_cons] at b ⊢
      omega

theorem sortScopes_size (rk : ResKey) : ∀ (ss : List ScopeMetrics) (st st' : SortState),
    sortScopes rk ss st = .ok st' → treeSize st'.tree = treeSize st.tree + pointCountScopes ss
  | [], st, st', h => by simp [sortScopes] at h; subst h; simp [pointCountScopes]
  | s :: ss, st, st', h => by
    simp only [sortScopes] at h
    split at h
    · simp at h
    · rename_i st1 h1
      have a := sortMetrics_size rk _ s.metrics st st1 h1
      have b := sortScopes_size rk ss st1 st' h
      simp only [pointCountScopes, List.map_cons, List.sum_cons] at b ⊢
      omega

theorem sortResources_size : ∀ (rs : List ResourceMetrics) (st st' : SortState),
    sortResources rs st = .ok st' → treeSize st'.tree = treeSize st.tree + pointCountResources rs
  | [], st, st', h => by simp [sortResources] at h; subst h; simp [pointCountResources]
  | r :: rs, st, st', h => by
    simp only [sortResources] at h
    split at h
    · simp at h
    · rename_i st1 h1
      have a := sortScopes_size _ r.scopes st st1 h1
      have b := sortResources_size rs st1 st' h
      simp only [pointCountResources, List.map_cons, List.sum_cons] at b ⊢
      omega

theorem otlpToStefSorted_count (m : Metrics) (recs : List SRecord) (h : otlpToStefSorted m = .ok recs) :
    recs.length = (flatten m).length := by
  simp only [otlpToStefSorted] at h
  split at h
  · simp at h
  · rename_i st hst
    simp at h; subst h
    have a := sortResources_size m.rms {} st hst
    rw [List.length_reverse, emitMetrics_len, a, flatten_length]
    simp [treeSize, totalSize]

end Stef.Otlp
