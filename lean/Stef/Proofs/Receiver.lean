/-
  Helper lemmas for Stef/Props/C16.lean: the relational form of `Stef.Receiver.step`, the inductive
  invariants of the receiver LTS and their preservation.
-/
import Stef.Receiver

namespace Stef.Receiver

/-! ### `step` as a relation, one constructor per enabled case -/


inductive Step : State → Event → State → Prop
  | checkErrOk (s : State) : s.rpc = .top → s.lastError = false → Step s .checkErr { s with rpc := .await }
  | checkErrExit (s : State) : s.rpc = .top → s.lastError = true →
      Step s .checkErr { s with rpc := .exited, stopReq := true }
  | decode (s : State) (n : Nat) : s.rpc = .await → n ≠ 0 →
      Step s (.decode n) { s with decoded := s.decoded + n,
                                  batches := ⟨s.decoded, s.decoded + n, .pending⟩ :: s.batches,
                                  rpc := .decoded }
  | readFail (s : State) : s.rpc = .await → Step s .readFail { s with rpc := .exited, stopReq := true }
  | consumeAccept (s : State) (b : Batch) (bs : List Batch) : s.rpc = .decoded → s.batches = b :: bs →
      Step s (.consume .accept) { s with batches := { b with out := .accept } :: bs, rpc := .needAck b.to }
  | consumePerm (s : State) (b : Batch) (bs : List Batch) : s.rpc = .decoded → s.batches = b :: bs →
      Step s (.consume .perm) { s with batches := { b with out := .perm } :: bs, rpc := .needBad (b.from_ + 1) b.to }
  | consumeTrans (s : State) (b : Batch) (bs : List Batch) : s.rpc = .decoded → s.batches = b :: bs →
      Step s (.consume .trans) { s with batches := { b with out := .trans } :: bs, rpc := .exited, stopReq := true }
  | schedAck (s : State) (t : Nat) : s.rpc = .needAck t → Step s .schedAck { s with nextAck := t, rpc := .top }
  | schedBad (s : State) (f t : Nat) : s.rpc = .needBad f t → s.queue.length < badDataCap →
      Step s .schedBad { s with queue := s.queue ++ [(f, t)], rpc := .top }
  | tickSend (s : State) : s.qpc = .idle → s.nextAck > s.lastAcked →
      Step s .tick { s with lastAcked := s.nextAck, qpc := .sending s.nextAck [] false }
  | tickNoop (s : State) : s.qpc = .idle → ¬ s.nextAck > s.lastAcked → Step s .tick s
  | badRecv (s : State) (h : Range) (tl : List Range) : s.qpc = .idle → s.queue = h :: tl →
      Step s .badRecv { s with queue := tl, qpc := .composing h.2 [h] }
  | badMore (s : State) (a : Nat) (rs : List Range) (h : Range) (tl : List Range) :
      s.qpc = .composing a rs → s.queue = h :: tl →
      Step s .badMore { s with queue := tl, qpc := .composing (if a < h.2 then h.2 else a) (rs ++ [h]) }
  | badDone (s : State) (a : Nat) (rs : List Range) : s.qpc = .composing a rs → s.queue = [] →
      Step s .badDone { s with qpc := .sending a rs true }
  | sendOk (s : State) (a : Nat) (rs : List Range) (bad : Bool) : s.qpc = .sending a rs bad → s.broken = false →
      Step s .sendOk { s with resps := ⟨a, rs, true⟩ :: s.resps,
                              lastAcked := if bad then a else s.lastAcked, qpc := .idle }
  | sendFail (s : State) (a : Nat) (rs : List Range) (bad : Bool) : s.qpc = .sending a rs bad →
      Step s .sendFail { s with resps := ⟨a, rs, false⟩ :: s.resps, lastError := true, broken := true, qpc := .idle }
  | stop (s : State) : s.qpc = .idle → s.stopReq = true → Step s .stop { s with qpc := .stopped }

theorem step_sound {s s' : State} {e : Event} (h : step s e = some s') : Step s e s' := by
  cases e with
  | checkErr =>
    simp only [step] at h
    split at h
    · split at h
      · cases h; exact Step.checkErrExit s ‹_› ‹_›
      · cases h; exact Step.checkErrOk s ‹_› (by simp_all)
    · cases h
  | decode n =>
    simp only [step] at h
    split at h
    · split at h
      · cases h
      · cases h; exact Step.decode s n ‹_› ‹_›
    · cases h
  | readFail =>
    simp only [step] at h
    split at h
    · cases h; exact Step.readFail s ‹_›
    · cases h
  | consume o =>
    simp only [step] at h
    split at h
    · split at h
      · cases h
      · cases h; exact Step.consumeAccept s _ _ ‹_› ‹_›
      · cases h; exact Step.consumePerm s _ _ ‹_› ‹_›
      · cases h; exact Step.consumeTrans s _ _ ‹_› ‹_›
    · cases h
  | schedAck =>
    simp only [step] at h
    split at h
    · cases h; exact Step.schedAck s _ ‹_›
    · cases h
  | schedBad =>
    simp only [step] at h
    split at h
    · split at h
      · cases h; exact Step.schedBad s _ _ ‹_› ‹_›
      · cases h
    · cases h
  | tick =>
    simp only [step] at h
    split at h
    · split at h
      · cases h; exact Step.tickSend s ‹_› ‹_›
      · cases h; exact Step.tickNoop s ‹_› ‹_›
    · cases h
  | badRecv =>
    simp only [step] at h
    split at h
    · cases h; exact Step.badRecv s _ _ ‹_› ‹_›
    · cases h
  | badMore =>
    simp only [step] at h
    split at h
    · cases h; exact Step.badMore s _ _ _ _ ‹_› ‹_›
    · cases h
  | badDone =>
    simp only [step] at h
    split at h
    · cases h; exact Step.badDone s _ _ ‹_› ‹_›
    · cases h
  | sendOk =>
    simp only [step] at h
    split at h
    · split at h
      · cases h
      · cases h; exact Step.sendOk s _ _ _ ‹_› (by simp_all)
    · cases h
  | sendFail =>
    simp only [step] at h
    split at h
    · cases h; exact Step.sendFail s _ _ _ ‹_›
    · cases h
  | stop =>
    simp only [step] at h
    split at h
    · split at h
      · cases h; exact Step.stop s ‹_› ‹_›
      · cases h
    · cases h



/-! ### structural invariants (hold in every reachable state) -/

def Done (o : Outcome) : Prop := o = .accept ∨ o = .perm

def Chain : List Batch → Nat → Prop
  | [], d => d = 0
  | b :: bs, d => b.to = d ∧ b.from_ < b.to ∧ Chain bs b.from_

def low : List Batch → Nat
  | [] => 0
  | b :: _ => if b.out = .accept ∨ b.out = .perm then b.to else b.from_

def AllDone (bs : List Batch) : Prop := ∀ b ∈ bs, Done b.out

def HeadOK (s : State) : Prop :=
  AllDone s.batches.tail ∧
  match s.rpc with
  | .top => AllDone s.batches
  | .await => AllDone s.batches
  | .decoded => (s.batches.head?).map (·.out) = some .pending
  | .needAck t => (s.batches.head?).map (fun b => (b.out, b.to)) = some (.accept, t)
  | .needBad f t => (s.batches.head?).map (fun b => (b.out, b.from_ + 1, b.to)) = some (.perm, f, t)
  | .exited => True

theorem permRanges_cons (b : Batch) (bs : List Batch) :
    permRanges (b :: bs) = permRanges bs ++ (if b.out = .perm then [(b.from_ + 1, b.to)] else []) := by
  simp only [permRanges, List.reverse_cons, List.filter_append, List.map_append]
  by_cases h : b.out = .perm <;> simp [h]

theorem low_le_of_chain : ∀ (bs : List Batch) (d : Nat), Chain bs d → low bs ≤ d
  | [], d, h => by simp [low]
  | b :: bs, d, h => by
    simp only [Chain] at h
    simp only [low]
    split <;> omega

structure Inv (s : State) : Prop where
  chain : Chain s.batches s.decoded
  head : HeadOK s
  ledger : reported s ++ pendingBad s = permRanges s.batches
  nextAck_le : s.nextAck ≤ low s.batches
  lastAcked_le : s.lastAcked ≤ low s.batches
  queue_le : ∀ x ∈ s.queue, x.2 ≤ low s.batches
  infl_le : ∀ x ∈ inflight s, x.2 ≤ low s.batches
  comp : ∀ a rs, (s.qpc = .composing a rs ∨ s.qpc = .sending a rs true) → ∃ x ∈ rs, x.2 = a
  tickSending : ∀ a rs, s.qpc = .sending a rs false → rs = [] ∧ a = s.lastAcked
  rpcBad_ge : ∀ x ∈ rpcBad s, s.nextAck < x.1
  allOk : s.broken = false → ∀ r ∈ s.resps, r.ok = true
  qlen : s.queue.length ≤ badDataCap
  stopR : s.stopReq = true ↔ s.rpc = .exited
  stopQ : s.qpc = .stopped → s.stopReq = true

theorem inv_init : Inv init := by
  constructor <;> simp [init, Chain, HeadOK, AllDone, reported, pendingBad, inflight, rpcBad, permRanges, low, badDataCap]

theorem head_step {s s' : State} {e : Event} (hh : HeadOK s) (h : Step s e s') : HeadOK s' := by
  cases h <;> simp_all [HeadOK, AllDone, Done]
  all_goals (cases hb : s.batches <;> simp_all)

theorem chain_step {s s' : State} {e : Event} (hh : Chain s.batches s.decoded) (h : Step s e s') :
    Chain s'.batches s'.decoded := by
  cases h <;> simp_all [Chain]
  all_goals omega

theorem ledger_step {s s' : State} {e : Event} (hi : Inv s) (h : Step s e s') :
    reported s' ++ pendingBad s' = permRanges s'.batches := by
  have hl := hi.ledger
  have hh := hi.head
  cases h
  case consumePerm b bs hr hb =>
    simp [reported, pendingBad, inflight, rpcBad, permRanges_cons, HeadOK, hr, hb] at hl hh ⊢
    simp [hh.2] at hl
    rw [← hl]; simp [List.append_assoc]
  all_goals simp_all [reported, pendingBad, inflight, rpcBad, permRanges_cons, HeadOK]

theorem low_step {s s' : State} {e : Event} (hi : Inv s) (h : Step s e s') :
    low s.batches ≤ low s'.batches := by
  have hc := hi.chain
  have hh := hi.head
  cases h
  case decode n hr hn => simpa [low] using low_le_of_chain _ _ hc
  all_goals simp_all [low, Chain, HeadOK]
  all_goals omega

/-- in `needAck t` / `needBad f t` the head batch is final and ends at `t` -/
theorem low_needAck {s : State} {t : Nat} (hi : Inv s) (hr : s.rpc = .needAck t) : low s.batches = t := by
  have hh := hi.head
  cases hb : s.batches <;> simp_all [HeadOK, low]

theorem low_needBad {s : State} {f t : Nat} (hi : Inv s) (hr : s.rpc = .needBad f t) :
    low s.batches = t ∧ f ≤ t := by
  have hh := hi.head
  have hc := hi.chain
  cases hb : s.batches with
  | nil => simp_all [HeadOK]
  | cons hd tl =>
    simp [HeadOK, hr, hb] at hh
    simp [hb, Chain] at hc
    obtain ⟨_, hp, hf, ht⟩ := hh
    simp [low, hp]
    omega

/-- a pending head batch starts at `low` -/
theorem low_decoded {s : State} {b : Batch} {bs : List Batch} (hi : Inv s) (hr : s.rpc = .decoded)
    (hb : s.batches = b :: bs) : low s.batches = b.from_ ∧ b.out = .pending := by
  have hh := hi.head
  simp_all [HeadOK, low]

theorem nextAck_step {s s' : State} {e : Event} (hi : Inv s) (h : Step s e s') :
    s'.nextAck ≤ low s'.batches := by
  have hlow := low_step hi h
  have h1 := hi.nextAck_le
  cases h
  case schedAck t hr => simp [low_needAck hi hr]
  all_goals (first | exact Nat.le_trans h1 hlow | (simp only [] at hlow ⊢; omega))

theorem sendAck_le {s : State} {a : Nat} {rs : List Range} {bad : Bool} (hi : Inv s)
    (hq : s.qpc = .sending a rs bad) : a ≤ low s.batches := by
  cases bad
  · have := (hi.tickSending a rs hq).2
    have := hi.lastAcked_le
    omega
  · obtain ⟨x, hx, hxa⟩ := hi.comp a rs (Or.inr hq)
    have := hi.infl_le x (by simp [inflight, hq, hx])
    omega

theorem lastAcked_step {s s' : State} {e : Event} (hi : Inv s) (h : Step s e s') :
    s'.lastAcked ≤ low s'.batches := by
  have hlow := low_step hi h
  have h1 := hi.lastAcked_le
  have h2 := hi.nextAck_le
  cases h
  case sendOk a rs bad hq hb =>
    have := sendAck_le hi hq
    simp; split <;> omega
  all_goals (first | exact Nat.le_trans h1 hlow | (simp only [] at hlow ⊢; omega))

theorem queue_step {s s' : State} {e : Event} (hi : Inv s) (h : Step s e s') :
    ∀ x ∈ s'.queue, x.2 ≤ low s'.batches := by
  have hlow := low_step hi h
  have h1 := hi.queue_le
  cases h
  case schedBad f t hr hq =>
    intro x hx
    simp at hx hlow ⊢
    rcases hx with hx | hx
    · exact h1 x hx
    · subst hx; simp [(low_needBad hi hr).1]
  case badRecv hd tl hq hqu =>
    intro x hx; simp at hx ⊢; exact h1 x (by simp [hqu, hx])
  case badMore a rs hd tl hq hqu =>
    intro x hx; simp at hx ⊢; exact h1 x (by simp [hqu, hx])
  all_goals (intro x hx; exact Nat.le_trans (h1 x hx) hlow)

theorem infl_step {s s' : State} {e : Event} (hi : Inv s) (h : Step s e s') :
    ∀ x ∈ inflight s', x.2 ≤ low s'.batches := by
  have hlow := low_step hi h
  have h1 := hi.infl_le
  have h2 := hi.queue_le
  cases h
  case badRecv hd tl hq hqu =>
    intro x hx; simp [inflight] at hx ⊢; subst hx; exact h2 _ (by simp [hqu])
  case badMore a rs hd tl hq hqu =>
    intro x hx; simp [inflight] at hx ⊢
    rcases hx with hx | hx
    · exact h1 x (by simp [inflight, hq, hx])
    · subst hx; exact h2 _ (by simp [hqu])
  case badDone a rs hq hqu =>
    intro x hx; simp [inflight] at hx ⊢; exact h1 x (by simp [inflight, hq, hx])
  case tickSend hq hn => intro x hx; simp [inflight] at hx
  case sendOk a rs bad hq hb => intro x hx; simp [inflight] at hx
  case sendFail a rs bad hq => intro x hx; simp [inflight] at hx
  case stop hq hs => intro x hx; simp [inflight] at hx
  all_goals (intro x hx; exact Nat.le_trans (h1 x hx) hlow)

theorem comp_step {s s' : State} {e : Event} (hi : Inv s) (h : Step s e s') :
    ∀ a rs, (s'.qpc = .composing a rs ∨ s'.qpc = .sending a rs true) → ∃ x ∈ rs, x.2 = a := by
  have h1 := hi.comp
  cases h
  case badRecv hd tl hq hqu =>
    intro a rs hx; simp at hx; obtain ⟨rfl, rfl⟩ := hx; exact ⟨hd, by simp, rfl⟩
  case badMore a0 rs0 hd tl hq hqu =>
    intro a rs hx; simp at hx; obtain ⟨rfl, rfl⟩ := hx
    obtain ⟨x, hx, hxa⟩ := h1 a0 rs0 (Or.inl hq)
    by_cases hlt : a0 < hd.2
    · exact ⟨hd, by simp, by simp [hlt]⟩
    · exact ⟨x, by simp [hx], by simp [hlt, hxa]⟩
  case badDone a0 rs0 hq hqu =>
    intro a rs hx; simp at hx; obtain ⟨rfl, rfl⟩ := hx; exact h1 _ _ (Or.inl hq)
  case tickSend hq hn => intro a rs hx; simp at hx
  case sendOk a0 rs0 bad hq hb => intro a rs hx; simp at hx
  case sendFail a0 rs0 bad hq => intro a rs hx; simp at hx
  case stop hq hs => intro a rs hx; simp at hx
  all_goals exact h1

theorem tickSending_step {s s' : State} {e : Event} (hi : Inv s) (h : Step s e s') :
    ∀ a rs, s'.qpc = .sending a rs false → rs = [] ∧ a = s'.lastAcked := by
  have h1 := hi.tickSending
  cases h
  case badRecv hd tl hq hqu => intro a rs hx; simp at hx
  case badMore a0 rs0 hd tl hq hqu => intro a rs hx; simp at hx
  case badDone a0 rs0 hq hqu => intro a rs hx; simp at hx
  case tickSend hq hn => intro a rs hx; simp at hx; simp [hx]
  case sendOk a0 rs0 bad hq hb => intro a rs hx; simp at hx
  case sendFail a0 rs0 bad hq => intro a rs hx; simp at hx
  case stop hq hs => intro a rs hx; simp at hx
  all_goals exact h1

theorem rpcBad_step {s s' : State} {e : Event} (hi : Inv s) (h : Step s e s') :
    ∀ x ∈ rpcBad s', s'.nextAck < x.1 := by
  have h1 := hi.rpcBad_ge
  have h2 := hi.nextAck_le
  cases h
  case consumePerm b bs hr hb =>
    intro x hx; simp [rpcBad] at hx ⊢; subst hx
    have := (low_decoded hi hr hb).1
    simp; omega
  all_goals first | exact h1 | (intro x hx; simp_all [rpcBad])

theorem misc_step {s s' : State} {e : Event} (hi : Inv s) (h : Step s e s') :
    (s'.broken = false → ∀ r ∈ s'.resps, r.ok = true) ∧ s'.queue.length ≤ badDataCap ∧
    (s'.stopReq = true ↔ s'.rpc = .exited) ∧ (s'.qpc = .stopped → s'.stopReq = true) := by
  have h1 := hi.allOk
  have h2 := hi.qlen
  have h3 := hi.stopR
  have h4 := hi.stopQ
  cases h <;> simp_all <;> omega

theorem inv_step {s s' : State} {e : Event} (hi : Inv s) (h : Step s e s') : Inv s' :=
  { chain := chain_step hi.chain h
    head := head_step hi.head h
    ledger := ledger_step hi h
    nextAck_le := nextAck_step hi h
    lastAcked_le := lastAcked_step hi h
    queue_le := queue_step hi h
    infl_le := infl_step hi h
    comp := comp_step hi h
    tickSending := tickSending_step hi h
    rpcBad_ge := rpcBad_step hi h
    allOk := (misc_step hi h).1
    qlen := (misc_step hi h).2.1
    stopR := (misc_step hi h).2.2.1
    stopQ := (misc_step hi h).2.2.2 }

theorem inv_run : ∀ (evs : List Event) (s s' : State), Inv s → run s evs = some s' → Inv s'
  | [], s, s', hi, h => by simp [run] at h; subst h; exact hi
  | e :: es, s, s', hi, h => by
    simp only [run] at h
    split at h
    · rename_i s1 hs1
      exact inv_run es s1 s' (inv_step hi (step_sound hs1)) h
    · cases h

/-! ### order of the bad-data ledger -/

theorem permRanges_bounds : ∀ (bs : List Batch) (d : Nat), Chain bs d →
    ∀ x ∈ permRanges bs, 0 < x.1 ∧ x.1 ≤ x.2 ∧ x.2 ≤ d
  | [], d, _, x, hx => by simp [permRanges] at hx
  | b :: bs, d, h, x, hx => by
    simp only [Chain] at h
    rw [permRanges_cons] at hx
    rcases List.mem_append.mp hx with hx | hx
    · have := permRanges_bounds bs _ h.2.2 x hx
      omega
    · by_cases hp : b.out = .perm
      · simp [hp] at hx; subst hx; simp; omega
      · simp [hp] at hx

theorem permRanges_sorted : ∀ (bs : List Batch) (d : Nat), Chain bs d →
    (permRanges bs).Pairwise (fun x y => x.2 < y.1)
  | [], d, _ => by simp [permRanges]
  | b :: bs, d, h => by
    simp only [Chain] at h
    rw [permRanges_cons, List.pairwise_append]
    refine ⟨permRanges_sorted bs _ h.2.2, ?_, ?_⟩
    · by_cases hp : b.out = .perm <;> simp [hp]
    · intro x hx y hy
      by_cases hp : b.out = .perm
      · simp [hp] at hy; subst hy
        have := (permRanges_bounds bs _ h.2.2 x hx).2.2
        simp; omega
      · simp [hp] at hy

theorem pending_sorted {s : State} (hi : Inv s) :
    (pendingBad s).Pairwise (fun x y => x.2 < y.1) ∧ ∀ x ∈ pendingBad s, x.1 ≤ x.2 := by
  have hs := permRanges_sorted _ _ hi.chain
  have hb := permRanges_bounds _ _ hi.chain
  rw [← hi.ledger] at hs hb
  rw [List.pairwise_append] at hs
  exact ⟨hs.2.1, fun x hx => (hb x (List.mem_append.mpr (Or.inr hx))).2.1⟩

/-! ### invariants of runs in which no tick fires while bad data waits in the channel -/

structure InvT (s : State) : Prop where
  pend_ge : ∀ x ∈ pendingBad s, s.lastAcked < x.1
  acks_le : ∀ r ∈ s.resps, r.ok = true → r.ack ≤ s.lastAcked
  sorted : (acks s).Pairwise (· ≤ ·)

theorem invT_init : InvT init := by
  constructor <;> simp [init, pendingBad, inflight, rpcBad, acks]

/-- the acknowledgement about to be sent is not below `lastAckedID` -/
theorem sendAck_ge {s : State} {a : Nat} {rs : List Range} {bad : Bool} (hi : Inv s) (ht : InvT s)
    (hq : s.qpc = .sending a rs bad) : s.lastAcked ≤ a := by
  cases bad
  · have := (hi.tickSending a rs hq).2; omega
  · obtain ⟨x, hx, hxa⟩ := hi.comp a rs (Or.inr hq)
    have hm : x ∈ pendingBad s := by simp [pendingBad, inflight, hq, hx]
    have h1 := ht.pend_ge x hm
    have h2 := (pending_sorted hi).2 x hm
    omega

/-- apart from `consume perm`, no event adds a range to the pending bad data -/
theorem pend_mem_step {s s' : State} {e : Event} (h : Step s e s') (x : Range) (hx : x ∈ pendingBad s') :
    x ∈ pendingBad s ∨ (∃ b bs, s.rpc = .decoded ∧ s.batches = b :: bs ∧ x = (b.from_ + 1, b.to)) := by
  cases h <;> simp_all [pendingBad, inflight, rpcBad] <;> grind

theorem pend_step {s s' : State} {e : Event} (hi : Inv s) (ht : InvT s)
    (hc : e = .tick → s.queue = []) (h : Step s e s') : ∀ x ∈ pendingBad s', s'.lastAcked < x.1 := by
  have h1 := ht.pend_ge
  intro x hx
  have hmem := pend_mem_step h x hx
  -- the new range of a `consume perm` starts at `low`
  have hnew : (∃ b bs, s.rpc = .decoded ∧ s.batches = b :: bs ∧ x = (b.from_ + 1, b.to)) → s.lastAcked < x.1 := by
    rintro ⟨b, bs, hr, hb, rfl⟩
    have := (low_decoded hi hr hb).1
    have := hi.lastAcked_le
    simp; omega
  cases h
  case tickSend hq hn =>
    have hqe := hc rfl
    simp [pendingBad, inflight, hqe] at hx ⊢
    exact hi.rpcBad_ge x hx
  case sendOk a rs bad hq hb =>
    have hx' : x ∈ s.queue ++ rpcBad s := by simpa [pendingBad, inflight, rpcBad] using hx
    have hm : x ∈ pendingBad s := by
      simp only [pendingBad, List.append_assoc]; exact List.mem_append.mpr (Or.inr hx')
    cases bad
    · simpa using h1 x hm
    · obtain ⟨y, hy, hya⟩ := hi.comp a rs (Or.inr hq)
      have hs := (pending_sorted hi).1
      simp only [pendingBad, inflight, hq, List.append_assoc] at hs
      rw [List.pairwise_append] at hs
      have := hs.2.2 y hy x hx'
      simp; omega
  all_goals (rcases hmem with hm | hm; exact h1 x hm; exact hnew hm)

theorem acksle_step {s s' : State} {e : Event} (hi : Inv s) (ht : InvT s) (h : Step s e s') :
    ∀ r ∈ s'.resps, r.ok = true → r.ack ≤ s'.lastAcked := by
  have h1 := ht.acks_le
  cases h
  case tickSend hq hn => intro r hr hok; have := h1 r hr hok; simp; omega
  case sendOk a rs bad hq hb =>
    have hge := sendAck_ge hi ht hq
    have hts := hi.tickSending a rs
    intro r hr hok
    simp at hr
    rcases hr with rfl | hr
    · cases bad <;> simp_all
    · have := h1 r hr hok
      cases bad <;> simp <;> omega
  case sendFail a rs bad hq =>
    intro r hr hok
    simp at hr
    rcases hr with rfl | hr
    · simp at hok
    · exact h1 r hr hok
  all_goals exact h1

theorem acks_cons_ok (s : State) (a : Nat) (rs : List Range) :
    ((((⟨a, rs, true⟩ : Resp) :: s.resps).reverse).filter (·.ok)).map (·.ack) = acks s ++ [a] := by
  simp [acks, List.filter_append]

theorem acks_cons_fail (s : State) (a : Nat) (rs : List Range) :
    ((((⟨a, rs, false⟩ : Resp) :: s.resps).reverse).filter (·.ok)).map (·.ack) = acks s := by
  simp [acks, List.filter_append]

theorem mem_acks {s : State} {a : Nat} (h : a ∈ acks s) : ∃ r ∈ s.resps, r.ok = true ∧ r.ack = a := by
  simp [acks] at h
  obtain ⟨r, ⟨hr, hok⟩, hra⟩ := h
  exact ⟨r, hr, hok, hra⟩

theorem sorted_step {s s' : State} {e : Event} (hi : Inv s) (ht : InvT s) (h : Step s e s') :
    (acks s').Pairwise (· ≤ ·) := by
  have h1 := ht.sorted
  cases h
  case sendOk a rs bad hq hb =>
    have hge := sendAck_ge hi ht hq
    show ((((⟨a, rs, true⟩ : Resp) :: s.resps).reverse).filter (·.ok)).map (·.ack) |>.Pairwise (· ≤ ·)
    rw [acks_cons_ok, List.pairwise_append]
    refine ⟨h1, by simp, ?_⟩
    intro x hx y hy
    simp at hy; subst hy
    obtain ⟨r, hr, hok, rfl⟩ := mem_acks hx
    have := ht.acks_le r hr hok
    omega
  case sendFail a rs bad hq =>
    show ((((⟨a, rs, false⟩ : Resp) :: s.resps).reverse).filter (·.ok)).map (·.ack) |>.Pairwise (· ≤ ·)
    rw [acks_cons_fail]; exact h1
  all_goals exact h1

theorem invT_step {s s' : State} {e : Event} (hi : Inv s) (ht : InvT s)
    (hc : e = .tick → s.queue = []) (h : Step s e s') : InvT s' :=
  { pend_ge := pend_step hi ht hc h
    acks_le := acksle_step hi ht h
    sorted := sorted_step hi ht h }

theorem invT_run : ∀ (evs : List Event) (s s' : State), Inv s → InvT s → TickClean s evs →
    run s evs = some s' → Inv s' ∧ InvT s'
  | [], s, s', hi, ht, _, h => by simp [run] at h; subst h; exact ⟨hi, ht⟩
  | e :: es, s, s', hi, ht, hc, h => by
    simp only [run] at h
    simp only [TickClean] at hc
    split at h
    · rename_i s1 hs1
      rw [hs1] at hc
      exact invT_run es s1 s' (inv_step hi (step_sound hs1)) (invT_step hi ht hc.1 (step_sound hs1)) hc.2 h
    · cases h



/-! ### the ledger counts every permanently rejected batch once -/

theorem mem_permRanges {bs : List Batch} {b : Batch} (hb : b ∈ bs) (hp : b.out = .perm) :
    (b.from_ + 1, b.to) ∈ permRanges bs := by
  simp only [permRanges, List.mem_map, List.mem_filter, List.mem_reverse]
  exact ⟨b, ⟨hb, by simp [hp]⟩, rfl⟩

theorem of_mem_permRanges {bs : List Batch} {x : Range} (hx : x ∈ permRanges bs) :
    ∃ b ∈ bs, b.out = .perm ∧ x = (b.from_ + 1, b.to) := by
  simp only [permRanges, List.mem_map, List.mem_filter, List.mem_reverse] at hx
  obtain ⟨b, ⟨hb, hp⟩, rfl⟩ := hx
  exact ⟨b, hb, by simpa using hp, rfl⟩

theorem count_permRanges : ∀ (bs : List Batch) (d : Nat), Chain bs d → ∀ b ∈ bs, b.out = .perm →
    (permRanges bs).count (b.from_ + 1, b.to) = 1
  | [], _, _, b, hb, _ => by simp at hb
  | hd :: tl, d, h, b, hb, hp => by
    simp only [Chain] at h
    rw [permRanges_cons, List.count_append]
    have hbd := permRanges_bounds tl _ h.2.2
    rcases List.mem_cons.mp hb with rfl | hb'
    · have h0 : (permRanges tl).count (b.from_ + 1, b.to) = 0 := by
        apply List.count_eq_zero.mpr
        intro hm
        have := (hbd _ hm).2
        simp at this; omega
      simp [h0, hp]
    · have h1 := count_permRanges tl _ h.2.2 b hb' hp
      have hm := hbd _ (mem_permRanges hb' hp)
      have h0 : (if hd.out = .perm then [(hd.from_ + 1, hd.to)] else []).count (b.from_ + 1, b.to) = 0 := by
        apply List.count_eq_zero.mpr
        intro hmem
        by_cases hq : hd.out = .perm
        · simp [hq] at hmem; simp at hm; omega
        · simp [hq] at hmem
      omega

theorem reportedOk_eq {s : State} (h : ∀ r ∈ s.resps, r.ok = true) : reportedOk s = reported s := by
  simp only [reportedOk, reported]
  congr 1
  apply List.filter_eq_self.mpr
  intro r hr
  exact h r (List.mem_reverse.mp hr)

/-- a batch that starts below `low` has a final outcome -/
theorem done_of_lt_low {s : State} (hi : Inv s) {b : Batch} (hb : b ∈ s.batches)
    (hlt : b.from_ < low s.batches) : Done b.out := by
  have hh := hi.head
  cases hbs : s.batches with
  | nil => simp [hbs] at hb
  | cons hd tl =>
    rw [hbs] at hb hlt
    rcases List.mem_cons.mp hb with rfl | hb'
    · simp only [low] at hlt
      split at hlt
      · assumption
      · omega
    · have := hh.1
      simp [hbs, AllDone] at this
      exact this b hb'



/-! ### acknowledged ids are covered (tick-clean runs) -/

theorem reportedOk_cons_ok (s : State) (a : Nat) (rs : List Range) :
    ((((⟨a, rs, true⟩ : Resp) :: s.resps).reverse).filter (·.ok)).flatMap (·.ranges) = reportedOk s ++ rs := by
  simp [reportedOk, List.filter_append]

/-- at the moment a response is sent successfully, its AckRecordId is covered (tick-clean runs) -/
theorem covered_sendOk {s s' : State} (hi : Inv s) (ht : InvT s) (h : Step s .sendOk s') :
    ∃ r rest, s'.resps = r :: rest ∧ r.ok = true ∧ Covered s' r.ack := by
  cases h
  case sendOk a rs bad hq hb =>
    refine ⟨⟨a, rs, true⟩, s.resps, rfl, rfl, ?_⟩
    have hle := sendAck_le hi hq
    have hlow := low_le_of_chain _ _ hi.chain
    refine ⟨by simp; omega, ?_⟩
    intro b hbm hlt
    simp only at hbm hlt
    have hdone := done_of_lt_low hi hbm (by omega)
    rcases hdone with hacc | hperm
    · exact Or.inl hacc
    · refine Or.inr ⟨hperm, ?_⟩
      show (b.from_ + 1, b.to) ∈ ((((⟨a, rs, true⟩ : Resp) :: s.resps).reverse).filter (·.ok)).flatMap (·.ranges)
      rw [reportedOk_cons_ok, reportedOk_eq (hi.allOk hb)]
      have hm := mem_permRanges hbm hperm
      rw [← hi.ledger] at hm
      simp only [pendingBad, inflight, hq, List.append_assoc] at hm
      rcases List.mem_append.mp hm with hm | hm
      · exact List.mem_append.mpr (Or.inl hm)
      rcases List.mem_append.mp hm with hm | hm
      · exact List.mem_append.mpr (Or.inr hm)
      -- still waiting in the channel / about to be scheduled: then it starts at or above `a`
      exfalso
      have hpm : (b.from_ + 1, b.to) ∈ pendingBad s := by
        simp only [pendingBad, inflight, hq, List.append_assoc]
        exact List.mem_append.mpr (Or.inr hm)
      cases bad
      · have h1 := (hi.tickSending a rs hq).2
        have h2 := ht.pend_ge _ hpm
        simp at h2; omega
      · obtain ⟨y, hy, hya⟩ := hi.comp a rs (Or.inr hq)
        have hs := (pending_sorted hi).1
        simp only [pendingBad, inflight, hq, List.append_assoc] at hs
        rw [List.pairwise_append] at hs
        have := hs.2.2 y hy _ hm
        simp at this; omega


/-! ### the loop continues after a permanent error -/

theorem run_append : ∀ (a b : List Event) (s : State),
    run s (a ++ b) = (run s a).bind (fun s1 => run s1 b)
  | [], b, s => by simp [run]
  | e :: a, b, s => by
    simp only [List.cons_append, run]
    cases step s e with
    | none => simp
    | some s1 => simpa using run_append a b s1

/-- with room in the channel the loop schedules the bad data, checks `LastError` and is back at the
    read (or leaves because RESPONDING failed - never because of the permanent error) -/
theorem sched_check {s : State} {f t : Nat} (hr : s.rpc = .needBad f t) (hl : s.queue.length < badDataCap) :
    ∃ s', run s [.schedBad, .checkErr] = some s' ∧
      (s'.rpc = .await ∨ (s'.rpc = .exited ∧ s'.lastError = true)) := by
  cases he : s.lastError
  · exact ⟨{ s with queue := s.queue ++ [(f, t)], rpc := .await },
      by simp [run, step, hr, hl, he], Or.inl rfl⟩
  · exact ⟨{ s with queue := s.queue ++ [(f, t)], rpc := .exited, stopReq := true },
      by simp [run, step, hr, hl, he], Or.inr ⟨rfl, he⟩⟩

theorem continues_of_inv {s : State} {f t : Nat} (hi : Inv s) (hr : s.rpc = .needBad f t) :
    ∃ pre s', pre.length ≤ 2 ∧ run s (pre ++ [.schedBad, .checkErr]) = some s' ∧
      (s'.rpc = .await ∨ (s'.rpc = .exited ∧ s'.lastError = true)) := by
  by_cases hl : s.queue.length < badDataCap
  · obtain ⟨s', h1, h2⟩ := sched_check hr hl
    exact ⟨[], s', by simp, by simpa using h1, h2⟩
  · have hq := hi.qlen
    have hlen : s.queue.length = badDataCap := by omega
    cases hqu : s.queue with
    | nil => simp [hqu, badDataCap] at hlen
    | cons hd tl =>
      have htl : tl.length < badDataCap := by simp [hqu] at hlen; omega
      cases hqp : s.qpc with
      | idle =>
        let s1 : State := { s with queue := tl, qpc := .composing hd.2 [hd] }
        have e1 : step s .badRecv = some s1 := by simp [step, hqp, hqu, s1]
        obtain ⟨s', h1, h2⟩ := sched_check (s := s1) (f := f) (t := t) hr htl
        refine ⟨[.badRecv], s', by simp, ?_, h2⟩
        simp only [List.cons_append, List.nil_append, run, e1]; exact h1
      | composing a rs =>
        let s1 : State := { s with queue := tl, qpc := .composing (if a < hd.2 then hd.2 else a) (rs ++ [hd]) }
        have e1 : step s .badMore = some s1 := by simp [step, hqp, hqu, s1]
        obtain ⟨s', h1, h2⟩ := sched_check (s := s1) (f := f) (t := t) hr htl
        refine ⟨[.badMore], s', by simp, ?_, h2⟩
        simp only [List.cons_append, List.nil_append, run, e1]; exact h1
      | sending a rs bad =>
        let s1 : State := { s with resps := ⟨a, rs, false⟩ :: s.resps, lastError := true, broken := true, qpc := .idle }
        have e1 : step s .sendFail = some s1 := by simp [step, hqp, s1]
        let s2 : State := { s1 with queue := tl, qpc := .composing hd.2 [hd] }
        have e2 : step s1 .badRecv = some s2 := by simp [step, hqu, s1, s2]
        obtain ⟨s', h1, h2⟩ := sched_check (s := s2) (f := f) (t := t) hr htl
        refine ⟨[.sendFail, .badRecv], s', by simp, ?_, h2⟩
        simp only [List.cons_append, List.nil_append, run, e1, e2]; exact h1
      | stopped =>
        have := (hi.stopR).mp (hi.stopQ hqp)
        rw [hr] at this; cases this


/-! ### runs without permanent consumer errors (the receiver inside the C19 pipeline) -/

/-- no batch was rejected permanently -/
def NoPerm (s : State) : Prop := ∀ b ∈ s.batches, b.out ≠ .perm

theorem noPerm_step {s s' : State} {e : Event} (hn : NoPerm s) (he : e ≠ .consume .perm)
    (h : Step s e s') : NoPerm s' := by
  cases h <;> simp_all [NoPerm]

theorem queue_empty_of_noPerm {s : State} (hi : Inv s) (hn : NoPerm s) :
    s.queue = [] ∧ reported s = [] := by
  have hp : permRanges s.batches = [] := by
    simp only [permRanges, List.map_eq_nil_iff, List.filter_eq_nil_iff, List.mem_reverse]
    intro b hb
    simpa using hn b hb
  have hl := hi.ledger
  rw [hp] at hl
  have h1 := List.append_eq_nil_iff.mp hl
  simp only [pendingBad, List.append_eq_nil_iff] at h1
  exact ⟨h1.2.1.2, h1.1⟩

/-- runs without a permanent consumer error are tick-clean and never put anything into the bad-data
    channel: the Responder degenerates to its tick branch -/
theorem tickClean_of_noPerm : ∀ (evs : List Event) (s : State), Inv s → NoPerm s →
    (∀ e ∈ evs, e ≠ .consume .perm) →
    TickClean s evs ∧ ∀ s', run s evs = some s' → s'.queue = [] ∧ reported s' = []
  | [], s, hi, hn, _ => by
    refine ⟨trivial, ?_⟩
    intro s' h; simp [run] at h; subst h
    exact queue_empty_of_noPerm hi hn
  | e :: es, s, hi, hn, he => by
    have hq := (queue_empty_of_noPerm hi hn).1
    cases hs : step s e with
    | none => simp [TickClean, run, hs, hq]
    | some s1 =>
      have hst := step_sound hs
      have ih := tickClean_of_noPerm es s1 (inv_step hi hst)
        (noPerm_step hn (he e (by simp)) hst) (fun e' he' => he e' (by simp [he']))
      simp only [TickClean, run, hs]
      exact ⟨⟨fun _ => hq, ih.1⟩, ih.2⟩


end Stef.Receiver

/-! ### writer / reader record counters -/

namespace Stef.Receiver.Lockstep

def total (s : LS) : Nat := s.rCount + s.rFrame + s.frames.sum + s.wFrame

theorem nextNonEmpty_sum : ∀ (fs : List Nat) (f : Nat) (rest : List Nat),
    nextNonEmpty fs = some (f, rest) → fs.sum = f + rest.sum ∧ 0 < f
  | [], f, rest, h => by simp [nextNonEmpty] at h
  | x :: xs, f, rest, h => by
    simp only [nextNonEmpty] at h
    split at h
    · rename_i hx
      have := nextNonEmpty_sum xs f rest h
      simp [hx]; omega
    · simp at h; obtain ⟨rfl, rfl⟩ := h
      simp; omega

theorem step_inv {s s' : LS} {e : Ev} (h : step s e = some s') (hi : total s = s.wCount) :
    total s' = s'.wCount ∧
    s'.wCount = s.wCount + (if e = .write then 1 else 0) ∧
    s'.rCount = s.rCount + (if e = .read then 1 else 0) := by
  cases e with
  | write => simp [step] at h; subst h; simp [total] at hi ⊢; omega
  | flush =>
    simp only [step] at h
    split at h
    · simp at h; subst h; simp [hi]
    · simp at h; subst h; simp [total] at hi ⊢; omega
  | read =>
    simp only [step] at h
    split at h
    · rename_i h0
      split at h
      · cases h
      · rename_i f fs hn
        simp at h; subst h
        have := nextNonEmpty_sum _ _ _ hn
        simp [total] at hi ⊢; omega
    · simp at h; subst h; simp [total] at hi ⊢; omega

theorem run_inv : ∀ (evs : List Ev) (s s' : LS), run s evs = some s' → total s = s.wCount →
    total s' = s'.wCount ∧ s'.wCount = s.wCount + writes evs ∧ s'.rCount = s.rCount + reads evs
  | [], s, s', h, hi => by simp [run] at h; subst h; simp [hi, writes, reads]
  | e :: es, s, s', h, hi => by
    simp only [run] at h
    split at h
    · rename_i s1 hs1
      obtain ⟨h1, h2, h3⟩ := step_inv hs1 hi
      obtain ⟨g1, g2, g3⟩ := run_inv es s1 s' h h1
      refine ⟨g1, ?_, ?_⟩
      · rw [g2, h2]; cases e <;> simp [writes] <;> omega
      · rw [g3, h3]; cases e <;> simp [reads] <;> omega
    · cases h


end Stef.Receiver.Lockstep
